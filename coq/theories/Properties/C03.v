(* C03 - libavoid: every route joins its two endpoints and stays out of obstacles.
   Only statements closed by `exact`; proofs live in Avoid/SegPoly.v, Avoid/Blocking.v (about the cpp2v-generated
   predicates of Gen/Geometry.v) and Avoid/RefRouter.v. *)
From Adapt Require Import Num.Qaux Geom.GeomSpec Gen.Geometry Avoid.SegPolyModel Avoid.SegPoly
     Avoid.CertDijkstraModel Avoid.RefRouterModel Avoid.RefRouter Avoid.Blocking.
Local Open Scope Q_scope.

(* the exact segment / convex polygon decider *)
Theorem C03_through_interior_exact P u v :
  through_interior P u v = true <-> exists t, 0 < t /\ t < 1 /\ strictly_inside_all_edges P (lerp u v t).
Proof. exact (through_interior_spec P u v). Qed.
Print Assumptions C03_through_interior_exact.

(* the verified route checker decides the declarative route validity of the property *)
Theorem C03_route_ok_sound shapes s d r : route_ok shapes s d r = true <-> route_valid shapes s d r.
Proof. exact (route_ok_spec shapes s d r). Qed.
Print Assumptions C03_route_ok_sound.

Theorem C03_visible_sound obst V u v :
  vis_edge obst V u v = true -> forall P, In P obst -> segment_avoids P (vpt V u) (vpt V v).
Proof. exact (visible_sound obst V u v). Qed.
Print Assumptions C03_visible_sound.

Theorem C03_route_is_graph_path shapes s d pts c :
  route_plain shapes s d = Route pts c ->
  (2 <= length pts)%nat /\ hd s pts = s /\ last pts d = d /\
  forall a b, In (a, b) (consecutive pts) -> forall P, In P (obstacles shapes s d) -> segment_avoids P a b.
Proof. exact (route_is_graph_path shapes s d pts c). Qed.
Print Assumptions C03_route_is_graph_path.

Theorem C03_model_route_avoids shapes s d pts c :
  route_plain shapes s d = Route pts c -> route_ok shapes s d pts = true.
Proof. exact (C03_model_route_avoids shapes s d pts c). Qed.
Print Assumptions C03_model_route_avoids.

Theorem C03_model_route_avoids_taut pen shapes s d pts c :
  route_taut pen shapes s d = Route pts c ->
  forall a b, In (a, b) (consecutive pts) -> forall P, In P (obstacles shapes s d) -> segment_avoids P a b.
Proof. exact (route_taut_is_graph_path pen shapes s d pts c). Qed.
Print Assumptions C03_model_route_avoids_taut.

(* the blocking test of firstBlocker / newBlockingShape over the generated segmentShapeIntersect *)
Theorem C03_blocked_char e1 e2 es seen :
  blocked_edges e1 e2 es seen =
  existsb (crosses e1 e2) es || (2 <=? touch_count e1 e2 es + (if seen then 1 else 0))%nat.
Proof. exact (blocked_char e1 e2 es seen). Qed.
Print Assumptions C03_blocked_char.

Theorem C03_blocked_order_irrelevant e1 e2 P : blocked_by_new_shape e1 e2 P = blocked_by_shape e1 e2 P.
Proof. exact (blocked_order_irrelevant e1 e2 P). Qed.
Print Assumptions C03_blocked_order_irrelevant.

Theorem C03_blocked_if_properly_crossed e1 e2 P :
  (exists e, In e (poly_edges P) /\ properly_cross e1 e2 (fst e) (snd e)) -> blocked_by_shape e1 e2 P = true.
Proof. exact (blocked_if_properly_crossed e1 e2 P). Qed.
Print Assumptions C03_blocked_if_properly_crossed.

Theorem C03_blocked_complete_partial e1 e2 P :
  through_interior P e1 e2 = true -> inside_strict P e1 = false -> inside_strict P e2 = false ->
  degenerate_chord P e1 e2 = false ->
  blocked_by_shape e1 e2 P = true /\ blocked_by_new_shape e1 e2 P = true.
Proof. exact (blocked_complete_partial e1 e2 P). Qed.
Print Assumptions C03_blocked_complete_partial.

(* the faithful model violates "a segment through the interior is blocked": the degenerate chord (DESIGN 6 F-b) *)
Theorem C03_blocked_refuted :
  exists P e1 e2, convex_ccw P = true /\ inside_closed P e1 = false /\ inside_closed P e2 = false /\
                  passes_through_interior P e1 e2 /\
                  blocked_by_shape e1 e2 P = false /\ blocked_by_new_shape e1 e2 P = false.
Proof. exact blocked_refuted. Qed.
Print Assumptions C03_blocked_refuted.
