(* C03 - libavoid: every route joins its two endpoints and stays out of obstacles.
   Only statements closed by `exact`; proofs live in Avoid/SegPoly.v, Avoid/Blocking.v (about the cpp2v-generated
   predicates of Gen/Geometry.v) and Avoid/RefRouter.v. *)
From Adapt Require Import Num.Qaux Geom.GeomSpec Geom.GeomSpecDec Gen.Geometry Avoid.SegPolyModel Avoid.SegPoly
     Avoid.CertDijkstraModel Avoid.RefRouterModel Avoid.RefRouter Avoid.RefRouterTotal Avoid.Blocking
     Avoid.BlockingComplete Avoid.BlockingSound Gen.BlockingLoop Avoid.BlockingGen.
Local Open Scope Q_scope.

(* the exact segment / convex polygon decider *)
Theorem C03_through_interior_exact P u v :
  through_interior P u v = true <-> exists t, 0 < t /\ t < 1 /\ strictly_inside_all_edges P (lerp u v t).
Proof. exact (through_interior_spec P u v). Qed.
Print Assumptions C03_through_interior_exact.

(* the verified route checker decides the declarative route validity of the property *)
Theorem C03_route_ok_sound shapes s d r : route_ok shapes s d r = true <-> route_valid shapes s d r.
Proof. exact (route_ok_spec shapes s d r). Qed.
Print Assumptions C03_route_ok_sound.

(* the exemption-free core of the checker (hyperedge scenes: all attachments in free space, junction ends may be moved) *)
Theorem C03_segs_clear_exact obst r :
  segs_clear obst r = true <->
  forall P a b, In P obst -> In (a, b) (consecutive r) -> segment_avoids P a b.
Proof. exact (segs_clear_spec obst r). Qed.
Print Assumptions C03_segs_clear_exact.

Theorem C03_visible_sound obst V u v :
  vis_edge obst V u v = true -> forall P, In P obst -> segment_avoids P (vpt V u) (vpt V v).
Proof. exact (visible_sound obst V u v). Qed.
Print Assumptions C03_visible_sound.

Theorem C03_route_is_graph_path shapes s d pts c :
  route_plain shapes s d = Route pts c ->
  (2 <= length pts)%nat /\ hd s pts = s /\ last pts d = d /\
  forall a b, In (a, b) (consecutive pts) -> forall P, In P (obstacles shapes s d) -> segment_avoids P a b.
Proof. exact (route_is_graph_path shapes s d pts c). Qed.
Print Assumptions C03_route_is_graph_path.

Theorem C03_model_route_avoids shapes s d pts c :
  route_plain shapes s d = Route pts c -> route_ok shapes s d pts = true.
Proof. exact (C03_model_route_avoids shapes s d pts c). Qed.
Print Assumptions C03_model_route_avoids.

Theorem C03_model_route_avoids_taut pen shapes s d pts c :
  route_taut pen shapes s d = Route pts c ->
  forall a b, In (a, b) (consecutive pts) -> forall P, In P (obstacles shapes s d) -> segment_avoids P a b.
Proof. exact (route_taut_is_graph_path pen shapes s d pts c). Qed.
Print Assumptions C03_model_route_avoids_taut.

(* the blocking test of firstBlocker / newBlockingShape over the generated segmentShapeIntersect *)
Theorem C03_blocked_char e1 e2 es seen :
  blocked_edges e1 e2 es seen =
  existsb (crosses e1 e2) es || (2 <=? touch_count e1 e2 es + (if seen then 1 else 0))%nat.
Proof. exact (blocked_char e1 e2 es seen). Qed.
Print Assumptions C03_blocked_char.

Theorem C03_blocked_order_irrelevant e1 e2 P : blocked_by_new_shape e1 e2 P = blocked_by_shape e1 e2 P.
Proof. exact (blocked_order_irrelevant e1 e2 P). Qed.
Print Assumptions C03_blocked_order_irrelevant.

Theorem C03_blocked_if_properly_crossed e1 e2 P :
  (exists e, In e (poly_edges P) /\ properly_cross e1 e2 (fst e) (snd e)) -> blocked_by_shape e1 e2 P = true.
Proof. exact (blocked_if_properly_crossed e1 e2 P). Qed.
Print Assumptions C03_blocked_if_properly_crossed.

Theorem C03_blocked_complete_partial e1 e2 P :
  through_interior P e1 e2 = true -> inside_strict P e1 = false -> inside_strict P e2 = false ->
  degenerate_chord P e1 e2 = false ->
  blocked_by_shape e1 e2 P = true /\ blocked_by_new_shape e1 e2 P = true.
Proof. exact (blocked_complete_partial e1 e2 P). Qed.
Print Assumptions C03_blocked_complete_partial.

(* the faithful model violates "a segment through the interior is blocked": the degenerate chord (DESIGN 6 F-b) *)
Theorem C03_blocked_refuted :
  exists P e1 e2, convex_ccw P = true /\ inside_closed P e1 = false /\ inside_closed P e2 = false /\
                  passes_through_interior P e1 e2 /\
                  blocked_by_shape e1 e2 P = false /\ blocked_by_new_shape e1 e2 P = false.
Proof. exact blocked_refuted. Qed.
Print Assumptions C03_blocked_refuted.

(* ---- SearchFail no longer excluded: the reference router returns a valid route, or NoPath exactly when the
        visibility graph has no path from s to d *)
Theorem C03_route_is_graph_path_total shapes s d :
  (exists pts c, route_plain shapes s d = Route pts c /\
     (2 <= length pts)%nat /\ hd s pts = s /\ last pts d = d /\
     (forall a b, In (a, b) (consecutive pts) -> forall P, In P (obstacles shapes s d) -> segment_avoids P a b) /\
     route_ok shapes s d pts = true) \/
  (route_plain shapes s d = NoPath /\
     forall q, vis_path shapes s d (0%nat :: q) -> last (0%nat :: q) 0%nat <> 1%nat).
Proof. exact (route_is_graph_path_total shapes s d). Qed.
Print Assumptions C03_route_is_graph_path_total.

(* ---- completeness of the blocking test without the classifier hypothesis (Avoid/BlockingComplete.v).
   The classifier `degenerate_chord` is exactly the declarative family; P is an arbitrary vertex list here. *)
Theorem C03_degenerate_chord_exact P a b :
  degenerate_chord P a b = true <->
  passes_through_interior P a b /\ ~ strictly_inside_all_edges P a /\ ~ strictly_inside_all_edges P b /\
  no_edge_interior_hit P a b.
Proof. exact (degenerate_chord_exact P a b). Qed.
Print Assumptions C03_degenerate_chord_exact.

Theorem C03_blocked_complete e1 e2 P :
  passes_through_interior P e1 e2 ->
  (exists t e, 0 < t /\ t < 1 /\ In e (poly_edges P) /\ strictly_between (fst e) (snd e) (lerp e1 e2 t)) ->
  blocked_by_shape e1 e2 P = true /\ blocked_by_new_shape e1 e2 P = true.
Proof. exact (blocked_complete e1 e2 P). Qed.
Print Assumptions C03_blocked_complete.

(* strictly convex polygon (convex_ccw: libavoid orientation, no collinear vertices): a segment through the interior
   that does NOT meet the boundary only at polygon vertices and/or its own endpoints is blocked *)
Theorem C03_boundary_vertices_iff P a b : convex_ccw P = true ->
  (meets_boundary_only_at_vertices_or_ends P a b <-> no_edge_interior_hit P a b).
Proof. exact (boundary_vertices_iff P a b). Qed.
Print Assumptions C03_boundary_vertices_iff.

Theorem C03_blocked_complete_vertices e1 e2 P :
  convex_ccw P = true ->
  through_interior P e1 e2 = true -> inside_strict P e1 = false -> inside_strict P e2 = false ->
  ~ meets_boundary_only_at_vertices_or_ends P e1 e2 ->
  blocked_by_shape e1 e2 P = true /\ blocked_by_new_shape e1 e2 P = true.
Proof. exact (blocked_complete_vertices e1 e2 P). Qed.
Print Assumptions C03_blocked_complete_vertices.

(* which segments through the interior escape: degenerate chords with fewer than two endpoint touches *)
Theorem C03_unblocked_char e1 e2 P :
  through_interior P e1 e2 = true -> inside_strict P e1 = false -> inside_strict P e2 = false ->
  (blocked_by_shape e1 e2 P = false <->
   degenerate_chord P e1 e2 = true /\ (touch_count e1 e2 (poly_edges P) < 2)%nat).
Proof. exact (unblocked_char e1 e2 P). Qed.
Print Assumptions C03_unblocked_char.

(* a degenerate chord CAN be blocked (two endpoint touches): "not blocked <-> misses interior \/ degenerate chord" is
   false as an equivalence; the exact statement is C03_unblocked_char *)
Theorem C03_degenerate_chord_can_be_blocked :
  convex_ccw sq10 = true /\ degenerate_chord sq10 (mkpt 0 0) (mkpt 10 10) = true /\
  touch_count (mkpt 0 0) (mkpt 10 10) (poly_edges sq10) = 2%nat /\
  blocked_by_shape (mkpt 0 0) (mkpt 10 10) sq10 = true.
Proof. exact diagonal_blocked. Qed.
Print Assumptions C03_degenerate_chord_can_be_blocked.

(* ---- soundness of the blocking test and the exact characterisation (Avoid/BlockingSound.v).  Polygon class: strictly
   convex in libavoid's orientation (convex_ccw; collinear vertices are NOT allowed), pairwise distinct vertices,
   non-empty interior - the last two are necessary (C03_blocked_sound_needs_hyps). *)
Theorem C03_blocked_sound P e1 e2 :
  convex_ccw P = true -> distinct_pts P -> (exists q0, strictly_inside_all_edges P q0) ->
  blocked_by_shape e1 e2 P = true -> through_interior P e1 e2 = true.
Proof. exact (blocked_sound P e1 e2). Qed.
Print Assumptions C03_blocked_sound.

Theorem C03_blocked_exact P e1 e2 :
  convex_ccw P = true -> distinct_pts P -> (exists q0, strictly_inside_all_edges P q0) ->
  inside_strict P e1 = false -> inside_strict P e2 = false ->
  (blocked_by_shape e1 e2 P = false <->
   through_interior P e1 e2 = false \/
   (degenerate_chord P e1 e2 = true /\ (touch_count e1 e2 (poly_edges P) < 2)%nat)).
Proof. exact (blocked_exact P e1 e2). Qed.
Print Assumptions C03_blocked_exact.

Theorem C03_blocked_sound_needs_hyps :
  (convex_ccw twogon = true /\ blocked_by_shape (mkpt 5 (-5)) (mkpt 5 5) twogon = true /\
   through_interior twogon (mkpt 5 (-5)) (mkpt 5 5) = false) /\
  (convex_ccw dbl_tri = true /\ blocked_by_shape (mkpt 5 0) (mkpt 5 (-7)) dbl_tri = true /\
   through_interior dbl_tri (mkpt 5 0) (mkpt 5 (-7)) = false).
Proof. exact (conj twogon_blocked double_blocked). Qed.
Print Assumptions C03_blocked_sound_needs_hyps.

(* ---- the edge loop of Router::newBlockingShape itself (cpp2v slice Gen/BlockingLoop.v, regenerated every run: the
   `for (pt_i ...)` loop with the declarations of `blocked` and `seenIntersectionAtEndpoint`) is the hand model, so the
   characterisation and the exactness theorem hold of the code's loop, not only of the model *)
Theorem C03_newBlockingShape_loop_eq e1 e2 P :
  newBlockingShape_edge_loop e1 e2 P = blocked_by_new_shape e1 e2 P /\
  newBlockingShape_edge_loop e1 e2 P = blocked_by_shape e1 e2 P.
Proof. exact (conj (newBlockingShape_loop_eq e1 e2 P) (newBlockingShape_loop_eq_shape e1 e2 P)). Qed.
Print Assumptions C03_newBlockingShape_loop_eq.

Theorem C03_newBlockingShape_loop_char e1 e2 P :
  newBlockingShape_edge_loop e1 e2 P =
  existsb (crosses e1 e2) (poly_edges P) || (2 <=? touch_count e1 e2 (poly_edges P))%nat.
Proof. exact (newBlockingShape_loop_char e1 e2 P). Qed.
Print Assumptions C03_newBlockingShape_loop_char.

Theorem C03_newBlockingShape_loop_exact P e1 e2 :
  convex_ccw P = true -> distinct_pts P -> (exists q0, strictly_inside_all_edges P q0) ->
  inside_strict P e1 = false -> inside_strict P e2 = false ->
  (newBlockingShape_edge_loop e1 e2 P = false <->
   through_interior P e1 e2 = false \/
   (degenerate_chord P e1 e2 = true /\ (touch_count e1 e2 (poly_edges P) < 2)%nat)).
Proof. exact (newBlockingShape_loop_exact P e1 e2). Qed.
Print Assumptions C03_newBlockingShape_loop_exact.

(* non-vacuity: the second border touch of a chord whose two ends lie on different sides of the square blocks *)
Theorem C03_newBlockingShape_loop_second_touch :
  newBlockingShape_edge_loop (mkpt 0 4) (mkpt 10 1) sq10 = true /\
  touch_count (mkpt 0 4) (mkpt 10 1) (poly_edges sq10) = 2%nat /\
  existsb (crosses (mkpt 0 4) (mkpt 10 1)) (poly_edges sq10) = false /\
  through_interior sq10 (mkpt 0 4) (mkpt 10 1) = true.
Proof. exact newBlockingShape_loop_second_touch. Qed.
Print Assumptions C03_newBlockingShape_loop_second_touch.

(* the Gen-free decider that the correspondence (harness/c03_block.cpp: the real EdgeInf::firstBlocker and
   Router::newBlockingShape on one segment and one polygon) is compared with equals the model and the translated loop *)
Theorem C03_blocked_by_shape_eq_spec e1 e2 P :
  blocked_by_shape e1 e2 P = spec_shapeBlocks e1 e2 (poly_edges P) /\
  newBlockingShape_edge_loop e1 e2 P = spec_shapeBlocks e1 e2 (poly_edges P).
Proof. exact (conj (blocked_by_shape_eq_spec e1 e2 P) (newBlockingShape_loop_eq_spec e1 e2 P)). Qed.
Print Assumptions C03_blocked_by_shape_eq_spec.
