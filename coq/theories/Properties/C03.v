(* C03 - libavoid: every route joins its two endpoints and stays out of obstacles.
   Only statements closed by `exact`; proofs live in Avoid/SegPoly.v, Avoid/Blocking.v, Avoid/RefRouter.v. *)
From Adapt Require Import Num.Qaux Geom.GeomSpec Avoid.SegPolyModel Avoid.SegPoly.
Local Open Scope Q_scope.

(* the verified route checker decides the declarative route validity of the property *)
Theorem C03_route_ok_sound shapes s d r : route_ok shapes s d r = true <-> route_valid shapes s d r.
Proof. exact (route_ok_spec shapes s d r). Qed.
Print Assumptions C03_route_ok_sound.
