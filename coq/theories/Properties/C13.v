(* C13 - libtopology: layout steps never pull an edge through a node.
   Only statements closed by `exact`.  The step-rule theorems are about TriConstraint::slack / maxSafeAlpha as
   regenerated from /repo/cola/libtopology/topology_constraints.cpp by tools/cpp2v.py (Gen/Tri.v) and about the hand
   model of the min-alpha move of TopologyConstraints::solve() (Topology/TriModel.v) instantiated with them. *)
From Adapt Require Import Num.Qaux Geom.GeomSpec Topology.TriModel Topology.TriSpec Gen.Tri Topology.Tri Topology.TopoCheck.
Local Open Scope Q_scope.

Theorem C13_slack_meaning t ux vx wx : 0 <= slack t ux vx wx <-> side_ok t ux vx wx.
Proof. exact (slack_meaning t ux vx wx). Qed.
Print Assumptions C13_slack_meaning.

Theorem C13_gen_eq_spec t ux vx wx :
  slack t ux vx wx = spec_slack t ux vx wx /\ maxSafeAlpha t == spec_msa t.
Proof. exact (conj (slack_eq_spec t ux vx wx) (maxSafeAlpha_eq_spec t)). Qed.
Print Assumptions C13_gen_eq_spec.

Theorem C13_slack_affine t a :
  slack_at t a == slackAtInitial t + a * (slackAtFinal t - slackAtInitial t).
Proof. exact (slack_affine t a). Qed.
Print Assumptions C13_slack_affine.

(* both leftOf orientations (tri is arbitrary) *)
Theorem C13_msa_safe t :
  0 <= slackAtInitial t ->
  (forall a, 0 <= a -> a <= maxSafeAlpha t -> a <= 1 -> 0 <= slack_at t a) /\
  (slackAtFinal t < 0 -> 0 <= maxSafeAlpha t < 1 /\ slack_at t (maxSafeAlpha t) == 0).
Proof. exact (msa_safe t). Qed.
Print Assumptions C13_msa_safe.

Theorem C13_msa_den0_branch t :
  slackAtFinal t < 0 -> msa_den t == 0 ->
  maxSafeAlpha t = 1 /\ slackAtInitial t == slackAtFinal t /\ ~ 0 <= slackAtInitial t.
Proof. exact (msa_den0_branch t). Qed.
Print Assumptions C13_msa_den0_branch.

Theorem C13_msa_negative_branch t :
  slackAtFinal t < 0 -> ~ msa_den t == 0 -> msa_num t / msa_den t < 0 ->
  maxSafeAlpha t = slackAtFinal t /\ slackAtInitial t < 0.
Proof. exact (msa_negative_branch t). Qed.
Print Assumptions C13_msa_negative_branch.

Theorem C13_msa_assert_unreachable t : maxSafeAlpha_asserts_ok t = true.
Proof. exact (msa_assert_unreachable t). Qed.
Print Assumptions C13_msa_assert_unreachable.

(* the step rule: after the move of solve() every triangle constraint that held before still holds - no node corner
   crosses a segment in the scan dimension *)
Theorem C13_step nodes cs :
  (forall c, In c cs -> holds nodes c) ->
  forall c, In c cs -> holds (step nodes cs) c.
Proof. exact (Topology.Tri.C13_step nodes cs). Qed.
Print Assumptions C13_step.

Theorem C13_step_tight nodes cs c :
  (forall c, In c cs -> holds nodes c) ->
  In c cs -> slackAtFinal (tri_of nodes c) < 0 ->
  0 <= alpha_star nodes cs < 1.
Proof. exact (Topology.Tri.C13_step_tight nodes cs c). Qed.
Print Assumptions C13_step_tight.

(* any number of steps with arbitrary new desired positions.  PARTIAL with respect to the property: the constraint
   set is fixed here; that the scan-line constructor generates a constraint for every interfering node/segment pair,
   and the bend split/merge surgery of satisfy(), are validated only by the verified checker on real runs. *)
Theorem C13_steps_partial cs finals nodes :
  (forall fs, In fs finals -> length fs = length nodes) ->
  (forall c, In c cs -> holds nodes c) ->
  forall c, In c cs -> holds (run_steps maxSafeAlpha nodes cs finals) c.
Proof. exact (C13_steps cs finals nodes). Qed.
Print Assumptions C13_steps_partial.

(* the verified checker used on the real layout results *)
Theorem C13_checker_segment_sound a b r t :
  seg_clear a b r = true -> 0 <= t -> t <= 1 -> ~ in_open_rect r (lerp a b t).
Proof. exact (seg_clear_sound a b r t). Qed.
Print Assumptions C13_checker_segment_sound.

Theorem C13_checker_overlap_sound e r s p :
  rects_apart e r s = true -> ~ (in_open_rect (shrink r e) p /\ in_open_rect (shrink s e) p).
Proof. exact (rects_apart_sound e r s p). Qed.
Print Assumptions C13_checker_overlap_sound.

(* ---------------------------------------------------------------------------------------------------------------
   Loop level (DESIGN 9.17): the solve loop of ColaTopologyAddon::moveTo (hand model Topology/MoveToModel.v: repeat { solve() = VPSC
   result, safe step with alpha = min maxSafeAlpha, one topology event } while interrupted, at most N times; then read the rectangle
   centres back), instantiated with the generated maxSafeAlpha.  The VPSC results and the constraint sets after the events come from an
   arbitrary oracle; premise orc_ok: the constraint set installed by an event holds at the moved positions (what assertFeasible() at the
   end of TopologyConstraints::solve() checks - the surgery of satisfy() itself is not modelled, as in C13_steps_partial). *)
From Adapt Require Import Topology.MoveToModel Topology.MoveTo.

(* for EVERY budget N, whether the loop ends because solve() is no longer interrupted or because the budget is exhausted: moveTo returns
   exactly the rectangle centres of the state reached by k safe steps (1 <= k <= max 1 N), leaves the rectangles there, and every
   constraint of that state's constraint set is non-violated; interrupted on exit <-> the budget was used up; not interrupted -> every
   rectangle is at its variable's final position (the last step had alpha = 1) *)
Theorem C13_moveTo_positions_are_last_safe_state N s orc :
  inv s -> orc_ok (mt_iters maxSafeAlpha N s orc) 0 s orc ->
  let k := mt_iters maxSafeAlpha N s orc in
  let s' := mt_iter maxSafeAlpha k 0 s orc in
  (1 <= k <= Nat.max 1 N)%nat /\
  moveTo maxSafeAlpha N s orc = (map n_init (ms_nodes s'), s') /\
  (forall c, In c (ms_cs s') -> holds (ms_nodes s') c) /\
  (mt_intr maxSafeAlpha N s orc = true -> k = Nat.max 1 N) /\
  (mt_intr maxSafeAlpha N s orc = false -> at_final s').
Proof. exact (moveTo_positions_are_last_safe_state N s orc). Qed.
Print Assumptions C13_moveTo_positions_are_last_safe_state.

(* every state of the loop is produced from its predecessor by a step that keeps the predecessor's constraints non-violated *)
Theorem C13_moveTo_every_step_safe k i s orc :
  inv s -> orc_ok k i s orc ->
  forall j, (j < k)%nat ->
  forall c, In c (ms_cs (mt_iter maxSafeAlpha j i s orc)) -> holds (ms_nodes (mt_iter maxSafeAlpha (S j) i s orc)) c.
Proof. exact (moveTo_every_step_safe k i s orc). Qed.
Print Assumptions C13_moveTo_every_step_safe.

(* the variant that moves the rectangles on to var->finalPosition after the loop (seeded change C13-6) returns the same coordinates
   whenever the loop ended un-interrupted: no run that stays within the budget can tell the difference ... *)
Theorem C13_moveTo_teleport_noop_when_converged N s orc :
  mt_intr maxSafeAlpha N s orc = false ->
  Forall2 Qeq (fst (moveTo_teleport maxSafeAlpha N s orc)) (fst (moveTo maxSafeAlpha N s orc)).
Proof. exact (moveTo_teleport_noop_when_converged N s orc). Qed.
Print Assumptions C13_moveTo_teleport_noop_when_converged.

(* ... and is REFUTED when the budget runs out: with the budget of the code (100) there is a start state and an admissible oracle for which
   moveTo's own result satisfies every constraint while the state the variant leaves behind violates one (witness: a mover asked across a
   bundle of more than 100 coincident edges; vm_compute) - and a second witness in which every iteration really moves the mover (budget 3) *)
Theorem C13_moveTo_teleport_safe_refuted : exists N s orc, N = 100%nat /\ teleport_violates N s orc.
Proof. exact moveTo_teleport_safe_refuted. Qed.
Print Assumptions C13_moveTo_teleport_safe_refuted.
Theorem C13_moveTo_teleport_safe_refuted_moving : exists N s orc, teleport_violates N s orc.
Proof. exact moveTo_teleport_safe_refuted_moving. Qed.
Print Assumptions C13_moveTo_teleport_safe_refuted_moving.

(* non-vacuity: the hypotheses of C13_moveTo_positions_are_last_safe_state hold on a concrete run with the budget exhausted (100 iterations,
   still interrupted: moveTo returns the mover at x = 1, the teleport variant at x = 200) and on one that ends inside the budget (3
   iterations, the last with alpha = 1: both return x = 5/2) *)
Example C13_moveTo_nonvacuous_exhausted :
  inv wit_s /\ orc_ok (mt_iters maxSafeAlpha 100 wit_s wit_orcA) 0 wit_s wit_orcA /\
  mt_iters maxSafeAlpha 100 wit_s wit_orcA = 100%nat /\ mt_intr maxSafeAlpha 100 wit_s wit_orcA = true /\
  Forall2 Qeq (fst (moveTo maxSafeAlpha 100 wit_s wit_orcA)) [0; 0; 1] /\
  Forall2 Qeq (fst (moveTo_teleport maxSafeAlpha 100 wit_s wit_orcA)) [0; 0; 200].
Proof. exact moveTo_exhausted_example. Qed.
Example C13_moveTo_nonvacuous_converged :
  inv wit_s /\ orc_ok (mt_iters maxSafeAlpha 100 wit_s wit_orcC) 0 wit_s wit_orcC /\
  mt_iters maxSafeAlpha 100 wit_s wit_orcC = 3%nat /\ mt_intr maxSafeAlpha 100 wit_s wit_orcC = false /\
  Forall2 Qeq (fst (moveTo maxSafeAlpha 100 wit_s wit_orcC)) [0; 0; 5 # 2] /\
  Forall2 Qeq (fst (moveTo_teleport maxSafeAlpha 100 wit_s wit_orcC)) [0; 0; 5 # 2].
Proof. exact moveTo_converged_example. Qed.
