(* C13 - libtopology: layout steps never pull an edge through a node.
   Only statements closed by `exact`.  The step-rule theorems are about TriConstraint::slack / maxSafeAlpha as
   regenerated from /repo/cola/libtopology/topology_constraints.cpp by tools/cpp2v.py (Gen/Tri.v) and about the hand
   model of the min-alpha move of TopologyConstraints::solve() (Topology/TriModel.v) instantiated with them. *)
From Adapt Require Import Num.Qaux Geom.GeomSpec Topology.TriModel Topology.TriSpec Gen.Tri Topology.Tri Topology.TopoCheck.
Local Open Scope Q_scope.

Theorem C13_slack_meaning t ux vx wx : 0 <= slack t ux vx wx <-> side_ok t ux vx wx.
Proof. exact (slack_meaning t ux vx wx). Qed.
Print Assumptions C13_slack_meaning.

Theorem C13_gen_eq_spec t ux vx wx :
  slack t ux vx wx = spec_slack t ux vx wx /\ maxSafeAlpha t == spec_msa t.
Proof. exact (conj (slack_eq_spec t ux vx wx) (maxSafeAlpha_eq_spec t)). Qed.
Print Assumptions C13_gen_eq_spec.

Theorem C13_slack_affine t a :
  slack_at t a == slackAtInitial t + a * (slackAtFinal t - slackAtInitial t).
Proof. exact (slack_affine t a). Qed.
Print Assumptions C13_slack_affine.

(* both leftOf orientations (tri is arbitrary) *)
Theorem C13_msa_safe t :
  0 <= slackAtInitial t ->
  (forall a, 0 <= a -> a <= maxSafeAlpha t -> a <= 1 -> 0 <= slack_at t a) /\
  (slackAtFinal t < 0 -> 0 <= maxSafeAlpha t < 1 /\ slack_at t (maxSafeAlpha t) == 0).
Proof. exact (msa_safe t). Qed.
Print Assumptions C13_msa_safe.

Theorem C13_msa_den0_branch t :
  slackAtFinal t < 0 -> msa_den t == 0 ->
  maxSafeAlpha t = 1 /\ slackAtInitial t == slackAtFinal t /\ ~ 0 <= slackAtInitial t.
Proof. exact (msa_den0_branch t). Qed.
Print Assumptions C13_msa_den0_branch.

Theorem C13_msa_negative_branch t :
  slackAtFinal t < 0 -> ~ msa_den t == 0 -> msa_num t / msa_den t < 0 ->
  maxSafeAlpha t = slackAtFinal t /\ slackAtInitial t < 0.
Proof. exact (msa_negative_branch t). Qed.
Print Assumptions C13_msa_negative_branch.

Theorem C13_msa_assert_unreachable t : maxSafeAlpha_asserts_ok t = true.
Proof. exact (msa_assert_unreachable t). Qed.
Print Assumptions C13_msa_assert_unreachable.

(* the step rule: after the move of solve() every triangle constraint that held before still holds - no node corner
   crosses a segment in the scan dimension *)
Theorem C13_step nodes cs :
  (forall c, In c cs -> holds nodes c) ->
  forall c, In c cs -> holds (step nodes cs) c.
Proof. exact (Topology.Tri.C13_step nodes cs). Qed.
Print Assumptions C13_step.

Theorem C13_step_tight nodes cs c :
  (forall c, In c cs -> holds nodes c) ->
  In c cs -> slackAtFinal (tri_of nodes c) < 0 ->
  0 <= alpha_star nodes cs < 1.
Proof. exact (Topology.Tri.C13_step_tight nodes cs c). Qed.
Print Assumptions C13_step_tight.

(* any number of steps with arbitrary new desired positions.  PARTIAL with respect to the property: the constraint
   set is fixed here; that the scan-line constructor generates a constraint for every interfering node/segment pair,
   and the bend split/merge surgery of satisfy(), are validated only by the verified checker on real runs. *)
Theorem C13_steps_partial cs finals nodes :
  (forall fs, In fs finals -> length fs = length nodes) ->
  (forall c, In c cs -> holds nodes c) ->
  forall c, In c cs -> holds (run_steps maxSafeAlpha nodes cs finals) c.
Proof. exact (C13_steps cs finals nodes). Qed.
Print Assumptions C13_steps_partial.

(* the verified checker used on the real layout results *)
Theorem C13_checker_segment_sound a b r t :
  seg_clear a b r = true -> 0 <= t -> t <= 1 -> ~ in_open_rect r (lerp a b t).
Proof. exact (seg_clear_sound a b r t). Qed.
Print Assumptions C13_checker_segment_sound.

Theorem C13_checker_overlap_sound e r s p :
  rects_apart e r s = true -> ~ (in_open_rect (shrink r e) p /\ in_open_rect (shrink s e) p).
Proof. exact (rects_apart_sound e r s p). Qed.
Print Assumptions C13_checker_overlap_sound.
