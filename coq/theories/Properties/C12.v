(* C12 - libavoid hyperedges stay spanning trees over the same terminals (DESIGN 5.12).
   Only statements closed by `exact`; proofs live in Graph/UnionFind.v, Graph/Trees.v, Avoid/HyperTree.v.
   Two levels.  (1) Connector level: the junction/terminal multigraph and the abstract operations of Avoid/HyperTreeModel.v,
   with the verified checker that checks/c12.py runs on the real connector/junction graph after every transaction.
   (2) Segment level: the operations libavoid really performs on its HyperedgeTree (Avoid/HyperSegModel.v), tied to the code
   by hook H2: checks/c12.py replays every logged operation on the extracted model, compares the touched node after each
   operation and the final tree with the logged ones, and reads the connector level off the final tree with `smooth`. *)
From Coq Require Import List Arith Permutation.
From Adapt Require Import Graph.UnionFind Graph.Trees Avoid.HyperTreeModel Avoid.HyperTree Avoid.HyperSegModel Avoid.HyperSeg.
Import ListNotations.

Theorem C12_tree_checker_sound_complete g T :
  is_tree_with_leaves g T = true <-> connected g /\ acyclic g /\ leaves_are g T.
Proof. exact (tree_checker_sound_complete g T). Qed.
Print Assumptions C12_tree_checker_sound_complete.

Theorem C12_contract_preserves g T j1 j2 g' :
  is_tree g -> leaves_are g T -> contract j1 j2 g = Some g' -> is_tree g' /\ leaves_are g' T.
Proof. exact (contract_preserves g T j1 j2 g'). Qed.
Print Assumptions C12_contract_preserves.

Theorem C12_split_preserves g T j j' bs g' :
  is_tree g -> leaves_are g T -> split j j' bs g = Some g' -> is_tree g' /\ leaves_are g' T.
Proof. exact (split_preserves g T j j' bs g'). Qed.
Print Assumptions C12_split_preserves.

Theorem C12_merge_preserves g T j1 j2 g' :
  is_tree g -> leaves_are g T -> contract j2 j1 g = Some g' -> is_tree g' /\ leaves_are g' T.
Proof. exact (merge_preserves g T j1 j2 g'). Qed.
Print Assumptions C12_merge_preserves.

Theorem C12_kruskal_spanning cands :
  acyclic (kruskal cands) /\ incl (kruskal cands) cands /\
  (forall x y, conn (kruskal cands) x y <-> conn cands x y) /\
  (forall T, (forall x y, In x T -> In y T -> conn cands x y) ->
             forall x y, In x T -> In y T -> conn (kruskal cands) x y).
Proof. exact (kruskal_spanning cands). Qed.
Print Assumptions C12_kruskal_spanning.

(* any sequence of the abstract operations keeps "tree whose degree-1 nodes are exactly T" *)
Theorem C12_ops T ops g :
  is_tree g -> leaves_are g T -> is_tree (run_hops T g ops) /\ leaves_are (run_hops T g ops) T.
Proof. exact (C12_ops T ops g). Qed.
Print Assumptions C12_ops.

(* Kruskal alone does not make the terminals the leaves (abstract shadow of finding F-j) *)
Theorem C12_kruskal_leaves_refuted :
  exists T cands, (forall x y, In x T -> In y T -> conn cands x y) /\
                  is_treeb (kruskal cands) = true /\ is_tree_with_leaves (kruskal cands) T = false.
Proof. exact (ex_intro _ [1; 2; 3] (ex_intro _ [(1, 2); (2, 3)] kruskal_terminal_interior)). Qed.
Print Assumptions C12_kruskal_leaves_refuted.

(* ------------------------------------------------------------------ segment level: the operations recorded by hook H2 *)
(* removeZeroLengthEdges (all its cases) under the degree guard the check evaluates for every logged CONTRACT *)
Theorem C12_seg_contract_preserves g T a b g' :
  is_tree g -> leaves_are g T -> contract_any a b g = Some g' -> leaf_safe (deg g a) (deg g b) = true ->
  is_tree g' /\ leaves_are g' (map (ren b a) T).
Proof. exact (contract_any_preserves g T a b g'). Qed.
Print Assumptions C12_seg_contract_preserves.

(* splitFromNodeAtPoint *)
Theorem C12_seg_subdivide_preserves g T a b n g' :
  is_tree g -> leaves_are g T -> subdivide a b n g = Some g' -> is_tree g' /\ leaves_are g' T.
Proof. exact (subdivide_preserves g T a b n g'). Qed.
Print Assumptions C12_seg_subdivide_preserves.

(* moveJunctionAlongCommonEdge: one merge of two common-edge neighbours; the last merge of a move that empties the old node *)
Theorem C12_seg_fold_preserves g T s t u g' :
  is_tree g -> leaves_are g T -> fold s t u g = Some g' -> 3 <= deg g s -> 2 <= deg g t -> 2 <= deg g u ->
  is_tree g' /\ leaves_are g' T.
Proof. exact (fold_preserves g T s t u g'). Qed.
Print Assumptions C12_seg_fold_preserves.

Theorem C12_seg_fold_drop_preserves g T s t u g' :
  is_tree g -> leaves_are g T -> fold_drop s t u g = Some g' -> deg g s = 2 -> 2 <= deg g t -> 2 <= deg g u ->
  is_tree g' /\ leaves_are g' T.
Proof. exact (fold_drop_preserves g T s t u g'). Qed.
Print Assumptions C12_seg_fold_drop_preserves.

(* any sequence of logged improvement operations whose guards hold keeps "tree whose degree-1 nodes are the terminal leaves",
   and the number of terminal leaves *)
Theorem C12_seg_ops ops g T st' :
  forallb (fun o => negb (is_bridge_op o)) ops = true -> is_tree g /\ leaves_are g T -> run_sops (g, T) ops = Some st' ->
  (is_tree (fst st') /\ leaves_are (fst st') (snd st')) /\ length (snd st') = length T.
Proof. exact (seg_ops_preserve ops g T st'). Qed.
Print Assumptions C12_seg_ops.

(* without the guard every improvement operation still yields a tree: a failing guard is exactly a lost or renamed leaf *)
Theorem C12_seg_op_tree g o g' : is_bridge_op o = false -> is_tree g -> sop_graph g o = Some g' -> is_tree g'.
Proof. exact (seg_op_tree g o g'). Qed.
Print Assumptions C12_seg_op_tree.

(* MTST construction (commitToBridgingEdge): every edge laid joins two components, the result is a forest *)
Theorem C12_mtst_ops_forest ops g T st' :
  forallb is_bridge_op ops = true -> acyclic g -> run_sops (g, T) ops = Some st' -> acyclic (fst st').
Proof. exact (mtst_ops_forest ops g T st'). Qed.
Print Assumptions C12_mtst_ops_forest.

(* the connector-level reading of a segment-level tree is a tree with the same terminal leaves *)
Theorem C12_smooth_preserves J g T : is_tree g -> leaves_are g T -> is_tree (smooth J g) /\ leaves_are (smooth J g) T.
Proof. exact (smooth_preserves J g T). Qed.
Print Assumptions C12_smooth_preserves.

(* the operation behind finding F-j / terminal_on_tree_path: a zero-length edge between a junction of degree >= 3 and a
   connector end is contracted like any other - in general, and on a witness from a real op log *)
Theorem C12_contract_leaf_into_branch_drops g T a b g' :
  is_tree g -> leaves_are g T -> contract_any a b g = Some g' -> deg g b = 1 -> 3 <= deg g a ->
  In b T /\ ~ In b (map (ren b a) T) /\ deg g' a >= 2 /\ ~ leaves_are g' (map (ren b a) T).
Proof. exact (contract_leaf_into_branch_drops g T a b g'). Qed.
Print Assumptions C12_contract_leaf_into_branch_drops.

Theorem C12_contract_terminal_into_junction_refuted :
  exists g T a b g',
    is_tree g /\ leaves_are g T /\ contract_any a b g = Some g' /\ sop_safe g (SContract a b) = false /\
    is_tree g' /\ ~ leaves_are g' (map (ren b a) T) /\ length (leaves g') < length T.
Proof. exact contract_terminal_into_junction_refuted. Qed.
Print Assumptions C12_contract_terminal_into_junction_refuted.

(* a junction move that swallows a connector end loses that terminal *)
Theorem C12_fold_leaf_drops g T s t u g' :
  is_tree g -> leaves_are g T -> fold s t u g = Some g' -> deg g u = 1 -> In u T /\ deg g' u = 0 /\ ~ leaves_are g' T.
Proof. exact (fold_leaf_drops g T s t u g'). Qed.
Print Assumptions C12_fold_leaf_drops.

(* ------------------------------------------------------------------ client API: JunctionRef::removeJunctionAndMergeConnectors
   (scene op RMJ of checks/c12.py): taking out a junction that has exactly two connectors - its two edges become one edge
   between its former neighbours - keeps "tree whose degree-1 nodes are exactly T" and changes no other node's degree *)
Theorem C12_remove_junction_preserves g T j g' :
  is_tree g -> leaves_are g T -> remove_junction j g = Some g' ->
  is_tree g' /\ leaves_are g' T /\ deg g' j = 0 /\ forall x, x <> j -> deg g' x = deg g x.
Proof. exact (remove_junction_preserves g T j g'). Qed.
Print Assumptions C12_remove_junction_preserves.

(* any history mixing the improver's / rerouter's abstract operations with client removals of degree-2 junctions *)
Theorem C12_client_ops T ops g :
  is_tree g -> leaves_are g T -> is_tree (run_cops T g ops) /\ leaves_are (run_cops T g ops) T.
Proof. exact (client_ops_preserve T ops g). Qed.
Print Assumptions C12_client_ops.

(* the defective removal that leaves the surviving connector on the deleted junction splits the hyperedge *)
Theorem C12_remove_junction_wrong_end_refuted :
  exists g T j g',
    is_tree g /\ leaves_are g T /\ deg g j = 2 /\ remove_junction_wrong_end j g = Some g' /\
    ~ connected g' /\ ~ leaves_are g' T /\ is_tree_with_leaves g' T = false.
Proof. exact remove_junction_wrong_end_refuted. Qed.
Print Assumptions C12_remove_junction_wrong_end_refuted.
