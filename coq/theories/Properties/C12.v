(* C12 - libavoid hyperedges stay spanning trees over the same terminals (DESIGN 5.12).
   Only statements closed by `exact`; proofs live in Graph/UnionFind.v, Graph/Trees.v, Avoid/HyperTree.v.
   The theorems are about the abstract junction/terminal multigraph and the abstract operations of Avoid/HyperTreeModel.v;
   the implementation is tied by running the extracted verified checker on the real connector/junction graph after every
   transaction (checks/c12.py) - validation and search, not proof of hyperedgeimprover.cpp. *)
From Coq Require Import List Arith Permutation.
From Adapt Require Import Graph.UnionFind Graph.Trees Avoid.HyperTreeModel Avoid.HyperTree.
Import ListNotations.

Theorem C12_tree_checker_sound_complete g T :
  is_tree_with_leaves g T = true <-> connected g /\ acyclic g /\ leaves_are g T.
Proof. exact (tree_checker_sound_complete g T). Qed.
Print Assumptions C12_tree_checker_sound_complete.

Theorem C12_contract_preserves g T j1 j2 g' :
  is_tree g -> leaves_are g T -> contract j1 j2 g = Some g' -> is_tree g' /\ leaves_are g' T.
Proof. exact (contract_preserves g T j1 j2 g'). Qed.
Print Assumptions C12_contract_preserves.

Theorem C12_split_preserves g T j j' bs g' :
  is_tree g -> leaves_are g T -> split j j' bs g = Some g' -> is_tree g' /\ leaves_are g' T.
Proof. exact (split_preserves g T j j' bs g'). Qed.
Print Assumptions C12_split_preserves.

Theorem C12_merge_preserves g T j1 j2 g' :
  is_tree g -> leaves_are g T -> contract j2 j1 g = Some g' -> is_tree g' /\ leaves_are g' T.
Proof. exact (merge_preserves g T j1 j2 g'). Qed.
Print Assumptions C12_merge_preserves.

Theorem C12_kruskal_spanning cands :
  acyclic (kruskal cands) /\ incl (kruskal cands) cands /\
  (forall x y, conn (kruskal cands) x y <-> conn cands x y) /\
  (forall T, (forall x y, In x T -> In y T -> conn cands x y) ->
             forall x y, In x T -> In y T -> conn (kruskal cands) x y).
Proof. exact (kruskal_spanning cands). Qed.
Print Assumptions C12_kruskal_spanning.

(* any sequence of the abstract operations keeps "tree whose degree-1 nodes are exactly T" *)
Theorem C12_ops T ops g :
  is_tree g -> leaves_are g T -> is_tree (run_hops T g ops) /\ leaves_are (run_hops T g ops) T.
Proof. exact (C12_ops T ops g). Qed.
Print Assumptions C12_ops.

(* Kruskal alone does not make the terminals the leaves (abstract shadow of finding F-j) *)
Theorem C12_kruskal_leaves_refuted :
  exists T cands, (forall x y, In x T -> In y T -> conn cands x y) /\
                  is_treeb (kruskal cands) = true /\ is_tree_with_leaves (kruskal cands) T = false.
Proof. exact (ex_intro _ [1; 2; 3] (ex_intro _ [(1, 2); (2, 3)] kruskal_terminal_interior)). Qed.
Print Assumptions C12_kruskal_leaves_refuted.
