(* C19 - libdialect: graph decompositions partition the graph (DESIGN 5.19).
   Only statements closed by `exact`; proofs in Dialect/Peel.v over the hand model Dialect/PeelModel.v (tied to
   /repo/cola/libdialect/peeling.cpp, graphs.cpp by the correspondence of checks/c19.py).
   Every statement excludes OutOfFuel / AssertFailed by requiring the result `Ok` / `Some`. *)
From Coq Require Import List Arith Bool Lia.
Import ListNotations.
From Adapt Require Import Num.Qaux Geom.GeomSpec Dialect.PeelModel Dialect.Peel Dialect.PeelCheck Dialect.PeelRoot
  Dialect.TreeLayoutModel Dialect.TreeLayout Dialect.PlanariseCheckModel Dialect.PlanariseCheck.
Local Open Scope nat_scope.

(* nodes: core nodes and stem leaves are pairwise distinct and, with the stem roots, make up the input nodes; with a
   non-empty core the roots add nothing (each is a core node or a leaf of a later stem) *)
Theorem C19_peel_nodes_partition g fuel core stems :
  simple_graph g -> connected g -> peel_rounds fuel g [] = Ok (core, stems) ->
  NoDup (g_nodes core ++ map fst stems) /\
  (forall v, In v (g_nodes g) <-> In v (g_nodes core) \/ In v (map fst stems) \/ In v (map snd stems)) /\
  (g_nodes core <> [] -> forall v, In v (g_nodes g) <-> In v (g_nodes core) \/ In v (map fst stems)).
Proof. exact (peel_nodes_partition g fuel core stems). Qed.
Print Assumptions C19_peel_nodes_partition.

Theorem C19_peel_edges_partition g fuel core stems :
  simple_graph g -> connected g -> peel_rounds fuel g [] = Ok (core, stems) ->
  NoDup (map norm_edge (map stem_edge stems) ++ map norm_edge (g_edges core)) /\
  (forall x, In x (map norm_edge (g_edges g)) <->
             In x (map norm_edge (map stem_edge stems)) \/ In x (map norm_edge (g_edges core))).
Proof. exact (peel_edges_partition g fuel core stems). Qed.
Print Assumptions C19_peel_edges_partition.

Theorem C19_peel_core_no_leaves g fuel core stems :
  simple_graph g -> connected g -> peel_rounds fuel g [] = Ok (core, stems) ->
  simple_graph core /\ forall v, In v (g_nodes core) -> degree (g_edges core) v <> 1.
Proof. exact (peel_core_no_leaves g fuel core stems). Qed.
Print Assumptions C19_peel_core_no_leaves.

(* the trees returned by peel: their node lists partition the nodes of the stems; each is connected, closed under the
   stem edges (so each stem edge is in exactly one tree) and a forest in the constructive sense (acyclic).
   The root designated by the serial numbers is the subject of C19_peel_root_unique below. *)
Theorem C19_peel_trees_are_trees g core trees :
  simple_graph g -> connected g -> peel g = Ok (core, trees) ->
  exists stems, Final g core stems /\
    NoDup (flat_map t_nodes trees) /\
    (forall v, In v (flat_map t_nodes trees) <-> In v (map fst stems) \/ In v (map snd stems)) /\
    forall t, In t trees -> tree_facts (map stem_edge stems) t.
Proof. exact (peel_trees_are_trees g core trees). Qed.
Print Assumptions C19_peel_trees_are_trees.

(* identifyRootNode (peeling.cpp:80-104): the node with the largest tree serial number is the attachment point of its
   tree: it is never peeled off as a leaf, every other node of the tree is a peeled leaf, and with a non-empty core it
   is a core node and the ONLY node the tree shares with the core *)
Theorem C19_peel_root_unique g core trees :
  simple_graph g -> connected g -> peel g = Ok (core, trees) ->
  exists stems, Final g core stems /\
    forall t, In t trees ->
      In (t_root t) (t_nodes t) /\
      ~ In (t_root t) (map fst stems) /\
      (forall v, In v (t_nodes t) -> v <> t_root t -> In v (map fst stems)) /\
      (g_nodes core <> [] ->
       In (t_root t) (g_nodes core) /\ forall v, In v (t_nodes t) -> In v (g_nodes core) -> v = t_root t).
Proof. exact (peel_root_unique g core trees). Qed.
Print Assumptions C19_peel_root_unique.

Theorem C19_conncomps_partition g cs :
  graph_wf g -> get_conncomps g = Some cs ->
  NoDup (concat cs) /\ (forall x, In x (concat cs) <-> In x (g_nodes g)) /\
  (forall c a b, In c cs -> In a c -> In b c -> reach (g_edges g) a b) /\
  (forall c a b, In c cs -> In a c -> adj (g_edges g) a b -> In b c).
Proof. exact (conncomps_partition g cs). Qed.
Print Assumptions C19_conncomps_partition.

(* the exploration used by the checkers computes exactly the reachable set *)
Theorem C19_explore_reach fuel es v r :
  explore fuel es [v] [] = Some r -> NoDup r /\ forall x, In x r <-> reach es v x.
Proof. exact (explore_reach fuel es v r). Qed.
Print Assumptions C19_explore_reach.

(* ---- the checkers run on the real outputs are verified oracles (Dialect/PeelCheck.v) ---- *)
(* the exploration never runs out of the fuel the checkers give it *)
Theorem C19_explore_fuel_adequate (ns : list nat) (es : list edge) (v : nat) :
  exists r, explore (explore_fuel ns es) es [v] [] = Some r.
Proof. exact (explore_fuel_adequate_any ns es v). Qed.
Print Assumptions C19_explore_fuel_adequate.

(* tree characterisation: a connected graph is acyclic (every edge is a bridge) iff it has one edge fewer than nodes *)
Theorem C19_tree_char (ns : list nat) (es : list edge) :
  NoDup ns -> ns <> [] -> (forall e, In e es -> In (fst e) ns /\ In (snd e) ns) ->
  (forall a b, In a ns -> In b ns -> reach es a b) ->
  (acyclic es <-> S (length es) = length ns).
Proof. exact (tree_char ns es). Qed.
Print Assumptions C19_tree_char.

(* the constructive forests of C19_peel_trees_are_trees are acyclic in the sense the checker uses *)
Theorem C19_forest_acyclic (ns : list nat) (es : list edge) : forest ns es -> acyclic es.
Proof. exact (forest_acyclic ns es). Qed.
Print Assumptions C19_forest_acyclic.

Theorem C19_peel_okb_iff g core trees : peel_okb g core trees = true <-> peel_spec g core trees.
Proof. exact (peel_okb_iff g core trees). Qed.
Print Assumptions C19_peel_okb_iff.

Theorem C19_conncomps_okb_iff g comps : conncomps_okb g comps = true <-> conncomps_spec_decl g comps.
Proof. exact (conncomps_okb_iff g comps). Qed.
Print Assumptions C19_conncomps_okb_iff.

(* ---- symmetric tree layout (V): the checker decides "no two node boxes share an interior point" ---- *)
Theorem C19_tree_layout_ok_iff bs : tree_layout_ok bs = true <-> tree_layout_spec bs.
Proof. exact (tree_layout_ok_iff bs). Qed.
Print Assumptions C19_tree_layout_ok_iff.

(* ---- planarise (V): geometry decider exact; the checker is sound for planarise_spec ---- *)
Theorem C19_meet_b_ok a b c d : meet_b a b c d = true <-> interiors_meet a b c d.
Proof. exact (meet_b_ok a b c d). Qed.
Print Assumptions C19_meet_b_ok.

Theorem C19_planarise_ok_sound orig oedges res redges :
  planarise_ok orig oedges res redges = true -> planarise_spec orig oedges res redges.
Proof. exact (planarise_ok_sound orig oedges res redges). Qed.
Print Assumptions C19_planarise_ok_sound.

Theorem C19_planarise_ok_iff orig oedges res redges :
  planarise_ok orig oedges res redges = true <-> planarise_spec orig oedges res redges.
Proof. exact (planarise_ok_iff orig oedges res redges). Qed.
Print Assumptions C19_planarise_ok_iff.
