(* C19 - libdialect: graph decompositions partition the graph (DESIGN 5.19).
   Only statements closed by `exact`; proofs in Dialect/Peel.v over the hand model Dialect/PeelModel.v (tied to
   /repo/cola/libdialect/peeling.cpp, graphs.cpp by the correspondence of checks/c19.py).
   Every statement excludes OutOfFuel / AssertFailed by requiring the result `Ok` / `Some`. *)
From Coq Require Import List Arith Bool Lia.
Import ListNotations.
From Adapt Require Import Dialect.PeelModel Dialect.Peel.

(* nodes: core nodes and stem leaves are pairwise distinct and, with the stem roots, make up the input nodes; with a
   non-empty core the roots add nothing (each is a core node or a leaf of a later stem) *)
Theorem C19_peel_nodes_partition g fuel core stems :
  simple_graph g -> connected g -> peel_rounds fuel g [] = Ok (core, stems) ->
  NoDup (g_nodes core ++ map fst stems) /\
  (forall v, In v (g_nodes g) <-> In v (g_nodes core) \/ In v (map fst stems) \/ In v (map snd stems)) /\
  (g_nodes core <> [] -> forall v, In v (g_nodes g) <-> In v (g_nodes core) \/ In v (map fst stems)).
Proof. exact (peel_nodes_partition g fuel core stems). Qed.
Print Assumptions C19_peel_nodes_partition.

Theorem C19_peel_edges_partition g fuel core stems :
  simple_graph g -> connected g -> peel_rounds fuel g [] = Ok (core, stems) ->
  NoDup (map norm_edge (map stem_edge stems) ++ map norm_edge (g_edges core)) /\
  (forall x, In x (map norm_edge (g_edges g)) <->
             In x (map norm_edge (map stem_edge stems)) \/ In x (map norm_edge (g_edges core))).
Proof. exact (peel_edges_partition g fuel core stems). Qed.
Print Assumptions C19_peel_edges_partition.

Theorem C19_peel_core_no_leaves g fuel core stems :
  simple_graph g -> connected g -> peel_rounds fuel g [] = Ok (core, stems) ->
  simple_graph core /\ forall v, In v (g_nodes core) -> degree (g_edges core) v <> 1.
Proof. exact (peel_core_no_leaves g fuel core stems). Qed.
Print Assumptions C19_peel_core_no_leaves.

(* the trees returned by peel: their node lists partition the nodes of the stems; each is connected, closed under the
   stem edges (so each stem edge is in exactly one tree) and a forest in the constructive sense (acyclic).
   PARTIAL with respect to the property text in one point: that the node designated as root by the serial numbers
   (identify_root) is the unique non-leaf of its tree is not proved; it is checked on every real output (peel_okb). *)
Theorem C19_peel_trees_are_trees_partial g core trees :
  simple_graph g -> connected g -> peel g = Ok (core, trees) ->
  exists stems, Final g core stems /\
    NoDup (flat_map t_nodes trees) /\
    (forall v, In v (flat_map t_nodes trees) <-> In v (map fst stems) \/ In v (map snd stems)) /\
    forall t, In t trees -> tree_facts (map stem_edge stems) t.
Proof. exact (peel_trees_are_trees g core trees). Qed.
Print Assumptions C19_peel_trees_are_trees_partial.

Theorem C19_conncomps_partition g cs :
  graph_wf g -> get_conncomps g = Some cs ->
  NoDup (concat cs) /\ (forall x, In x (concat cs) <-> In x (g_nodes g)) /\
  (forall c a b, In c cs -> In a c -> In b c -> reach (g_edges g) a b) /\
  (forall c a b, In c cs -> In a c -> adj (g_edges g) a b -> In b c).
Proof. exact (conncomps_partition g cs). Qed.
Print Assumptions C19_conncomps_partition.

(* the exploration used by the checkers computes exactly the reachable set *)
Theorem C19_explore_reach fuel es v r :
  explore fuel es [v] [] = Some r -> NoDup r /\ forall x, In x r <-> reach es v x.
Proof. exact (explore_reach fuel es v r). Qed.
Print Assumptions C19_explore_reach.
