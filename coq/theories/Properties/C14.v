(* C14 - libdialect: HOLA returns a clean orthogonal drawing of the same graph.
   Level `other`: these theorems cover ONLY (a) the verified oracle that checks/c14.py runs on real doHOLA
   outputs and (b) the node-padding arithmetic of hola.cpp; the HOLA pipeline itself is not modelled, the
   implementation is sampled; and (c) one leaf of the pipeline, the direction functions of Compass (ortho.cpp), whose
   Gallina definitions tools/cpp2v.py regenerates from the source on every run (Gen/Compass.v).  Only statements closed by `exact`; proofs are in Dialect/HolaCheck.v and
   Dialect/HolaPadding.v. *)
From Adapt Require Import Num.Qaux Dialect.SepPairModel Dialect.HolaPadding Dialect.HolaCheck Gen.Compass Dialect.Compass.
Local Open Scope Q_scope.

Theorem C14_hola_ok_sound T scalar before after :
  hola_ok T scalar before after = true -> hola_spec T scalar before after.
Proof. exact (hola_ok_sound T scalar before after). Qed.
Print Assumptions C14_hola_ok_sound.

Theorem C14_hola_ok_complete T scalar before after :
  hola_spec T scalar before after -> hola_ok T scalar before after = true.
Proof. exact (hola_ok_complete T scalar before after). Qed.
Print Assumptions C14_hola_ok_complete.

(* the SepPair meaning used by the oracle is C18's, with a tolerance that vanishes at 0 *)
Theorem C14_holds_tol_zero extra p sp : holds_tol extra 0 p sp <-> holds extra p sp.
Proof. exact (holds_tol_zero extra p sp). Qed.
Print Assumptions C14_holds_tol_zero.

Theorem C14_padding_roundtrip scalar sizes role wh :
  dims_eq (run_pads (pad_script scalar sizes role) wh) wh.
Proof. exact (padding_roundtrip scalar sizes role wh). Qed.
Print Assumptions C14_padding_roundtrip.

Theorem C14_routing_inflation_within_padding scalar sizes role wh :
  0 <= scalar -> 0 <= iel sizes ->
  let d := at_final_routing scalar sizes role wh in
  0 <= (1 # 2) * (fst d - fst wh) <= padding_per_side scalar sizes /\
  0 <= (1 # 2) * (snd d - snd wh) <= padding_per_side scalar sizes /\
  fst d - fst wh == snd d - snd wh.
Proof. exact (routing_inflation_within_padding scalar sizes role wh). Qed.
Print Assumptions C14_routing_inflation_within_padding.

(* ---- (c) Compass::cardinalDirection / Compass::compassDirection (Gen/Compass.v, regenerated from ortho.cpp every run);
   directions are CompassDir enumerators as integers: EAST 0, SOUTH 1, WEST 2, NORTH 3, SE 4, SW 5, NW 6, NE 7 *)
Theorem C14_cardinalDirection_spec p0 p1 :
  let dx := ddx p0 p1 in let dy := ddy p0 p1 in
  (cardinalDirection p0 p1 = 0%Z <-> Qabs dy <= Qabs dx /\ 0 < dx) /\
  (cardinalDirection p0 p1 = 2%Z <-> Qabs dy <= Qabs dx /\ dx <= 0) /\
  (cardinalDirection p0 p1 = 1%Z <-> Qabs dx < Qabs dy /\ 0 < dy) /\
  (cardinalDirection p0 p1 = 3%Z <-> Qabs dx < Qabs dy /\ dy < 0).
Proof. exact (cardinalDirection_spec p0 p1). Qed.
Print Assumptions C14_cardinalDirection_spec.

Theorem C14_cardinalDirection_range p0 p1 : (0 <= cardinalDirection p0 p1 < 4)%Z.
Proof. exact (cardinalDirection_range p0 p1). Qed.
Print Assumptions C14_cardinalDirection_range.

Theorem C14_cardinalDirection_antisym p0 p1 : distinct p0 p1 ->
  cardinalDirection p1 p0 = card_flip (cardinalDirection p0 p1).
Proof. exact (cardinalDirection_antisym p0 p1). Qed.
Print Assumptions C14_cardinalDirection_antisym.

(* ... and the hypothesis is needed: for coincident points both orders answer WEST *)
Theorem C14_cardinalDirection_coincident p : cardinalDirection p p = 2%Z.
Proof. exact (cardinalDirection_coincident p). Qed.
Print Assumptions C14_cardinalDirection_coincident.

Theorem C14_cardinalDirection_translate p0 p1 t :
  cardinalDirection (pt_add p0 t) (pt_add p1 t) = cardinalDirection p0 p1.
Proof. exact (cardinalDirection_translate p0 p1 t). Qed.
Print Assumptions C14_cardinalDirection_translate.

Theorem C14_compassDirection_spec p0 p1 : distinct p0 p1 ->
  let dx := ddx p0 p1 in let dy := ddy p0 p1 in
  let d := compassDirection p0 p1 in
  (d = 0%Z <-> dy == 0 /\ 0 < dx) /\ (d = 2%Z <-> dy == 0 /\ dx < 0) /\
  (d = 1%Z <-> dx == 0 /\ 0 < dy) /\ (d = 3%Z <-> dx == 0 /\ dy < 0) /\
  (d = 4%Z <-> 0 < dx /\ 0 < dy) /\ (d = 5%Z <-> dx < 0 /\ 0 < dy) /\
  (d = 6%Z <-> dx < 0 /\ dy < 0) /\ (d = 7%Z <-> 0 < dx /\ dy < 0).
Proof. exact (compassDirection_spec p0 p1). Qed.
Print Assumptions C14_compassDirection_spec.

(* the code's contract (the `throw` for coincident points, translated as a recorded precondition) is exactly `distinct` *)
Theorem C14_compassDirection_returns_iff_distinct p0 p1 :
  compassDirection_asserts_ok p0 p1 = true <-> distinct p0 p1.
Proof. exact (compassDirection_returns_iff_distinct p0 p1). Qed.
Print Assumptions C14_compassDirection_returns_iff_distinct.

Theorem C14_compassDirection_antisym p0 p1 : distinct p0 p1 ->
  compassDirection p1 p0 = compass_flip (compassDirection p0 p1).
Proof. exact (compassDirection_antisym p0 p1). Qed.
Print Assumptions C14_compassDirection_antisym.

Theorem C14_compass_cardinal_consistent p0 p1 : distinct p0 p1 ->
  let c := compassDirection p0 p1 in let k := cardinalDirection p0 p1 in
  ((c < 4)%Z -> k = c) /\
  (c = 4%Z -> k = 1%Z \/ k = 0%Z) /\ (c = 5%Z -> k = 1%Z \/ k = 2%Z) /\
  (c = 6%Z -> k = 3%Z \/ k = 2%Z) /\ (c = 7%Z -> k = 3%Z \/ k = 0%Z).
Proof. exact (compass_cardinal_consistent p0 p1). Qed.
Print Assumptions C14_compass_cardinal_consistent.

(* the direction predicates of ortho.h, translated as well *)
Theorem C14_card_predicates_algebra d0 d1 : is_card d0 -> is_card d1 ->
  arePerpendicular d0 d1 = negb (sameDimension d0 d1) /\
  sameDimension d0 d0 = true /\ sameDimension d0 (card_flip d0) = true /\
  sameDimension d0 d1 = sameDimension d1 d0 /\
  isHorizontalCard d0 = negb (isVerticalCard d0) /\ isIncreasingCard d0 = negb (isDecreasingCard d0) /\
  (sameDimension d0 d1 = true <-> isHorizontalCard d0 = isHorizontalCard d1) /\
  isIncreasingCard (card_flip d0) = isDecreasingCard d0 /\ isHorizontalCard (card_flip d0) = isHorizontalCard d0 /\
  is_card (card_flip d0) /\ card_flip (card_flip d0) = d0.
Proof. exact (card_predicates_algebra d0 d1). Qed.
Print Assumptions C14_card_predicates_algebra.

Theorem C14_compass_predicates_on_cardinals d : is_card d ->
  isHorizontal d = isHorizontalCard d /\ isVertical d = isVerticalCard d /\
  isIncreasing d = isIncreasingCard d /\ isDecreasing d = isDecreasingCard d.
Proof. exact (compass_predicates_on_cardinals d). Qed.
Print Assumptions C14_compass_predicates_on_cardinals.

Theorem C14_compass_predicates_on_diagonals d : (4 <= d < 8)%Z ->
  isHorizontal d = false /\ isVertical d = false /\ isIncreasing d = false /\ isDecreasing d = false.
Proof. exact (compass_predicates_on_diagonals d). Qed.
Print Assumptions C14_compass_predicates_on_diagonals.

Theorem C14_cardinalDirection_predicates p0 p1 :
  let dx := ddx p0 p1 in let dy := ddy p0 p1 in let k := cardinalDirection p0 p1 in
  (isHorizontalCard k = true <-> Qabs dy <= Qabs dx) /\
  (isVerticalCard k = true <-> Qabs dx < Qabs dy) /\
  (isIncreasingCard k = true <-> (Qabs dy <= Qabs dx /\ 0 < dx) \/ (Qabs dx < Qabs dy /\ 0 < dy)).
Proof. exact (cardinalDirection_predicates p0 p1). Qed.
Print Assumptions C14_cardinalDirection_predicates.

(* card_flip of the statements above = cardFlip of C18's model (SepPairModel.v) under the enumerator numbering *)
Theorem C14_card_flip_is_model_cardFlip d :
  card_to_Z (Adapt.Dialect.SepPairModel.cardFlip d) = card_flip (card_to_Z d) /\ is_card (card_to_Z d).
Proof. exact (card_flip_is_model_cardFlip d). Qed.
Print Assumptions C14_card_flip_is_model_cardFlip.

(* Compass::vectorSigns (ortho.cpp:144-157, a switch translated as a chain of ifs) on a computed direction: the signs of (dx, dy) *)
Theorem C14_vectorSigns_of_compassDirection p0 p1 : distinct p0 p1 ->
  let v := vectorSigns (compassDirection p0 p1) in
  px v == sgnQ (ddx p0 p1) /\ py v == sgnQ (ddy p0 p1).
Proof. exact (vectorSigns_of_compassDirection p0 p1). Qed.
Print Assumptions C14_vectorSigns_of_compassDirection.
