(* C14 - libdialect: HOLA returns a clean orthogonal drawing of the same graph.
   Level `other`: these theorems cover ONLY (a) the verified oracle that checks/c14.py runs on real doHOLA
   outputs and (b) the node-padding arithmetic of hola.cpp; the HOLA pipeline itself is not modelled, the
   implementation is sampled.  Only statements closed by `exact`; proofs are in Dialect/HolaCheck.v and
   Dialect/HolaPadding.v. *)
From Adapt Require Import Num.Qaux Dialect.SepPairModel Dialect.HolaPadding Dialect.HolaCheck.
Local Open Scope Q_scope.

Theorem C14_hola_ok_sound T scalar before after :
  hola_ok T scalar before after = true -> hola_spec T scalar before after.
Proof. exact (hola_ok_sound T scalar before after). Qed.
Print Assumptions C14_hola_ok_sound.

Theorem C14_hola_ok_complete T scalar before after :
  hola_spec T scalar before after -> hola_ok T scalar before after = true.
Proof. exact (hola_ok_complete T scalar before after). Qed.
Print Assumptions C14_hola_ok_complete.

(* the SepPair meaning used by the oracle is C18's, with a tolerance that vanishes at 0 *)
Theorem C14_holds_tol_zero extra p sp : holds_tol extra 0 p sp <-> holds extra p sp.
Proof. exact (holds_tol_zero extra p sp). Qed.
Print Assumptions C14_holds_tol_zero.

Theorem C14_padding_roundtrip scalar sizes role wh :
  dims_eq (run_pads (pad_script scalar sizes role) wh) wh.
Proof. exact (padding_roundtrip scalar sizes role wh). Qed.
Print Assumptions C14_padding_roundtrip.

Theorem C14_routing_inflation_within_padding scalar sizes role wh :
  0 <= scalar -> 0 <= iel sizes ->
  let d := at_final_routing scalar sizes role wh in
  0 <= (1 # 2) * (fst d - fst wh) <= padding_per_side scalar sizes /\
  0 <= (1 # 2) * (snd d - snd wh) <= padding_per_side scalar sizes /\
  fst d - fst wh == snd d - snd wh.
Proof. exact (routing_inflation_within_padding scalar sizes role wh). Qed.
Print Assumptions C14_routing_inflation_within_padding.
