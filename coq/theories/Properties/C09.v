(* C09 - libvpsc: removeoverlaps leaves no overlap and changes no size; generateX/YConstraints are acyclic and entail
   non-overlap.  Only statements closed by `exact`; the proofs live in Rect/*.v and are about the hand-written models
   Rect/ScanlineModel.v, Rect/RemoveOverlapsModel.v, Rect/RectBase.v (tied to /repo by the correspondence runs of
   checks/c09.py) and the verified checkers of Rect/EntailModel.v (run on every real constraint set). *)
From Adapt Require Import Num.Qaux Rect.RectBase Rect.ScanlineModel Rect.EntailModel Rect.RemoveOverlapsModel
  Rect.Entail Rect.Scanline Rect.RemoveOverlaps Rect.Chain Rect.Pipeline.
Local Open Scope Q_scope.

(* every generated constraint graph is a DAG: both generators, both modes, both CmpNodePos variants, any address oracle *)
Theorem C09_gen_acyclic :
  forall (addr : nat -> nat) (ids : list Z) (xb yb : Q) (rs : list rect),
    (forall b cs, generateXConstraints (cmp_node_pos_addr addr) xb yb rs b = Some cs -> acyclic cs) /\
    (forall cs, generateYConstraints (cmp_node_pos_addr addr) xb yb rs = Some cs -> acyclic cs) /\
    (forall b cs, generateXConstraints (cmp_node_pos_id ids addr) xb yb rs b = Some cs -> acyclic cs) /\
    (forall cs, generateYConstraints (cmp_node_pos_id ids addr) xb yb rs = Some cs -> acyclic cs).
Proof. exact gen_acyclic. Qed.
Print Assumptions C09_gen_acyclic.

(* ... and every constraint goes forward in the order CmpNodePos defines *)
Theorem C09_gen_forward mklt (H : forall pos, strict (mklt pos)) xb yb rs :
  (forall b cs, generateXConstraints mklt xb yb rs b = Some cs ->
     Forall (fun c => mklt (posX xb rs) (cl c) (cr c) = true) cs /\ acyclic cs) /\
  (forall cs, generateYConstraints mklt xb yb rs = Some cs ->
     Forall (fun c => mklt (posY yb rs) (cl c) (cr c) = true) cs /\ acyclic cs).
Proof. exact (conj (gen_acyclic_X mklt H xb yb rs) (gen_acyclic_Y mklt H xb yb rs)). Qed.
Print Assumptions C09_gen_forward.

(* the generators always return (the fuelled sort never runs out of fuel) *)
Theorem C09_generators_total mklt xb yb rs :
  (forall b, generateXConstraints mklt xb yb rs b <> None) /\ generateYConstraints mklt xb yb rs <> None.
Proof. exact (conj (generateXConstraints_total mklt xb yb rs) (generateYConstraints_total mklt xb yb rs)). Qed.
Print Assumptions C09_generators_total.

(* the verified certificate: if entail_check accepts, every placement satisfying the constraints has no overlapping pair *)
Theorem C09_entail_check_sound lo hi len n cs :
  entail_check lo hi len n cs = true ->
  forall p, sat p cs ->
  forall i j, (i < n)%nat -> (j < n)%nat -> i <> j -> lo i < hi j -> lo j < hi i ->
    p i + (len i + len j) / 2 <= p j \/ p j + (len i + len j) / 2 <= p i.
Proof. exact (entail_check_sound lo hi len n cs). Qed.
Print Assumptions C09_entail_check_sound.

Theorem C09_entail_no_overlap xb yb rs cs :
  (entail_checkY xb yb rs cs = true -> forall p, sat p cs ->
     forall i j, (i < length rs)%nat -> (j < length rs)%nat -> i <> j ->
       ~ overlaps_pos xb yb (moveCentreY yb (nthr rs i) (p i)) (moveCentreY yb (nthr rs j) (p j))) /\
  (entail_checkX xb yb rs cs = true -> forall p, sat p cs ->
     forall i j, (i < length rs)%nat -> (j < length rs)%nat -> i <> j ->
       ~ overlaps_pos xb yb (moveCentreX xb (nthr rs i) (p i)) (moveCentreX xb (nthr rs j) (p j))).
Proof. exact (conj (entail_checkY_sound xb yb rs cs) (entail_checkX_sound xb yb rs cs)). Qed.
Print Assumptions C09_entail_no_overlap.

Theorem C09_topo_check_sound rank cs : topo_check rank cs = true -> acyclic cs.
Proof. exact (topo_check_sound rank cs). Qed.
Print Assumptions C09_topo_check_sound.

(* moveCentreX / moveCentreY keep width and height exactly *)
Theorem C09_sizes_preserved xb yb r p :
  width xb (moveCentreX xb r p) == width xb r /\ height yb (moveCentreX xb r p) == height yb r /\
  width xb (moveCentreY yb r p) == width xb r /\ height yb (moveCentreY yb r p) == height yb r.
Proof. exact (sizes_preserved xb yb r p). Qed.
Print Assumptions C09_sizes_preserved.

Theorem C09_sizes_preserved_removeoverlaps mklt solve
  (Hs : forall d w cs, length (solve d w cs) = length d) xB yB rs fixed third r :
  removeoverlaps mklt solve xB yB rs fixed third = Some r -> Forall2 same_size rs (ro_rects r).
Proof. exact (sizes_preserved_removeoverlaps mklt solve Hs xB yB rs fixed third r). Qed.
Print Assumptions C09_sizes_preserved_removeoverlaps.

(* the border globals end with their initial values on the non-throwing path *)
Theorem C09_borders_restored mklt solve xB yB rs fixed third r :
  removeoverlaps mklt solve xB yB rs fixed third = Some r -> ro_xBorder r = xB /\ ro_yBorder r = yB.
Proof. exact (borders_restored mklt solve xB yB rs fixed third r). Qed.
Print Assumptions C09_borders_restored.

(* Certificate form (kept as validation; superseded by C09_pipeline_chain / C09_removeoverlaps_no_overlap below, which
   use the chain lemma instead of the per-instance certificate): no overlap after removeoverlaps from (i) the solver's
   answer satisfying the constraints of the last generating pass and (ii) the entail_check certificate for that pass,
   which the check still evaluates on every instance (model's and implementation's constraint sets). *)
Theorem C09_pipeline_partial mklt solve xB yB rs fixed third r :
  removeoverlaps mklt solve xB yB rs fixed third = Some r ->
  exists rsl csl pl,
    (if third
     then generateXConstraints mklt (xB + EXTRA_GAP) yB rsl false = Some csl /\
          ro_rects r = move_all (moveCentreX (xB + EXTRA_GAP)) rsl pl /\
          (length pl = length rsl -> entail_checkX (xB + EXTRA_GAP) yB rsl csl = true ->
           sat (fun i => nth i pl 0) csl -> no_overlap xB yB (ro_rects r))
     else generateYConstraints mklt xB (yB + EXTRA_GAP) rsl = Some csl /\
          ro_rects r = move_all (moveCentreY (yB + EXTRA_GAP)) rsl pl /\
          (length pl = length rsl -> entail_checkY xB (yB + EXTRA_GAP) rsl csl = true ->
           sat (fun i => nth i pl 0) csl -> no_overlap xB yB (ro_rects r))).
Proof. exact (C09_pipeline mklt solve xB yB rs fixed third r). Qed.
Print Assumptions C09_pipeline_partial.

(* ---------------------------------------------------------------- the chain lemma (Dwyer-Marriott-Stuckey), Rect/Chain.v *)
(* generateYConstraints: for ANY rectangle set (widths/heights >= 0 with the borders in force) and any CmpNodePos that is
   a strict order, total on the nodes: every placement satisfying the generated constraints keeps every pair whose open
   x-intervals intersect apart in y by at least the mean of their heights (through a chain of constraints, not
   necessarily a direct one), hence no pair overlaps with positive area.  No per-instance certificate. *)
Theorem C09_genY_entails_no_overlap mklt xb yb rs cs :
  (forall pos, strict (mklt pos)) -> valid_rects xb yb rs -> total_on (mklt (posY yb rs)) (length rs) ->
  generateYConstraints mklt xb yb rs = Some cs ->
  forall p, sat p cs ->
  forall i j, (i < length rs)%nat -> (j < length rs)%nat -> i <> j ->
    (getMinX xb (nthr rs i) < getMaxX xb (nthr rs j) -> getMinX xb (nthr rs j) < getMaxX xb (nthr rs i) ->
     p i + (height yb (nthr rs i) + height yb (nthr rs j)) / 2 <= p j \/
     p j + (height yb (nthr rs i) + height yb (nthr rs j)) / 2 <= p i) /\
    ~ overlaps_pos xb yb (moveCentreY yb (nthr rs i) (p i)) (moveCentreY yb (nthr rs j) (p j)).
Proof.
  exact (fun S V T G p Hp i j Hi Hj Hne =>
           conj (genY_entails_sep mklt S xb yb rs V cs T G p Hp i j Hi Hj Hne)
                (genY_entails_no_overlap mklt S xb yb rs V cs T G p Hp i j Hi Hj Hne)).
Qed.
Print Assumptions C09_genY_entails_no_overlap.

(* generateXConstraints(..., useNeighbourLists = false), the generator of pass 3: the symmetric statement *)
Theorem C09_genX_entails_no_overlap mklt xb yb rs cs :
  (forall pos, strict (mklt pos)) -> valid_rects xb yb rs -> total_on (mklt (posX xb rs)) (length rs) ->
  generateXConstraints mklt xb yb rs false = Some cs ->
  forall p, sat p cs ->
  forall i j, (i < length rs)%nat -> (j < length rs)%nat -> i <> j ->
    (getMinY yb (nthr rs i) < getMaxY yb (nthr rs j) -> getMinY yb (nthr rs j) < getMaxY yb (nthr rs i) ->
     p i + (width xb (nthr rs i) + width xb (nthr rs j)) / 2 <= p j \/
     p j + (width xb (nthr rs i) + width xb (nthr rs j)) / 2 <= p i) /\
    ~ overlaps_pos xb yb (moveCentreX xb (nthr rs i) (p i)) (moveCentreX xb (nthr rs j) (p j)).
Proof.
  exact (fun S V T G p Hp i j Hi Hj Hne =>
           conj (genX_entails_sep mklt S xb yb rs V cs T G p Hp i j Hi Hj Hne)
                (genX_entails_no_overlap mklt S xb yb rs V cs T G p Hp i j Hi Hj Hne)).
Qed.
Print Assumptions C09_genX_entails_no_overlap.

(* both variants of CmpNodePos are total when the Node objects have distinct addresses *)
Theorem C09_cmp_total addr ids pos :
  (forall i j, addr i = addr j -> i = j) ->
  total_on (cmp_node_pos_addr addr pos) (length pos) /\ total_on (cmp_node_pos_id ids addr pos) (length pos).
Proof. exact (fun H => conj (cmp_node_pos_addr_total addr pos H) (cmp_node_pos_id_total ids addr pos H)). Qed.
Print Assumptions C09_cmp_total.

(* the pipeline without the certificate: the model's result is a last pass whose constraint set is acyclic and, if the
   solver's answer for THAT pass satisfies it, there is no positive-area overlap w.r.t. the caller's borders *)
Theorem C09_pipeline_chain mklt xB yB solve rs fixed third r :
  (forall pos, strict (mklt pos)) -> (forall pos, total_on (mklt pos) (length pos)) ->
  0 <= xB -> 0 <= yB -> good_rects rs ->
  removeoverlaps mklt solve xB yB rs fixed third = Some r ->
  exists rsl csl pl,
    (if third
     then generateXConstraints mklt (xB + EXTRA_GAP) yB rsl false = Some csl /\
          pl = solve (posX (xB + EXTRA_GAP) rsl) (weights (length rs) fixed) csl /\
          ro_rects r = move_all (moveCentreX (xB + EXTRA_GAP)) rsl pl
     else generateYConstraints mklt xB (yB + EXTRA_GAP) rsl = Some csl /\
          pl = solve (posY (yB + EXTRA_GAP) rsl) (weights (length rs) fixed) csl /\
          ro_rects r = move_all (moveCentreY (yB + EXTRA_GAP)) rsl pl) /\
    acyclic csl /\
    (length pl = length rsl -> sat (fun i => nth i pl 0) csl -> no_overlap xB yB (ro_rects r)).
Proof. exact (fun S T X Y => pipeline_chain mklt S T xB yB X Y solve rs fixed third r). Qed.
Print Assumptions C09_pipeline_chain.

(* removeoverlaps leaves no overlap, given the solver's contract as an explicit premise of the statement: one position
   per variable and, on an acyclic (hence satisfiable) constraint set, positions that satisfy every constraint.
   The premise is NOT discharged by a C01 theorem: removeoverlaps calls the static vpsc::Solver, for which /verif has no
   model (Vpsc/VpscModel.v models IncSolver), and the C01 theorems about the IncSolver model give slack >= -1e-10 for
   inactive unflagged constraints (C01_sat_on_return), not exact satisfaction.  On the real code the conclusion itself is
   checked on every run of checks/c09.py (no overlap to 1e-6 on the output of vpsc::removeoverlaps). *)
Theorem C09_removeoverlaps_no_overlap mklt xB yB solve rs fixed third r :
  (forall pos, strict (mklt pos)) -> (forall pos, total_on (mklt pos) (length pos)) ->
  0 <= xB -> 0 <= yB -> solver_contract solve -> good_rects rs ->
  removeoverlaps mklt solve xB yB rs fixed third = Some r -> no_overlap xB yB (ro_rects r).
Proof. exact (fun S T X Y => pipeline_no_overlap mklt S T xB yB X Y solve rs fixed third r). Qed.
Print Assumptions C09_removeoverlaps_no_overlap.

(* ================= static solver round (Vpsc/StaticModel.v, Vpsc/StaticFrame.v, Rect/PipelineStatic.v):
   the premise `solver_contract` is replaced by the model of the solver removeoverlaps really calls (vpsc::Solver,
   extracted and compared with the compiled code on every run of checks/c01.py / c02.py) and the solver's 1e-10
   tolerance is carried through the chain lemma *)
From Adapt Require Import Rect.PipelineStatic.
From Adapt Require Vpsc.VpscSpec Vpsc.VpscModel Vpsc.StaticModel Vpsc.StaticFrame.

(* the chain lemma with tolerance: positions that satisfy every generated constraint up to eps leave no overlap w.r.t.
   the caller's borders as long as eps * n <= 2 * EXTRA_GAP (pass 2; pass 3 symmetric) *)
Theorem C09_pipeline_y_chain_tolerance mklt xB yB eps rs1 cs2 y2 :
  (forall pos, strict (mklt pos)) -> (forall pos, total_on (mklt pos) (length pos)) ->
  (forall pos a b, mklt pos a b = true -> (a < length pos)%nat /\ (b < length pos)%nat) ->
  0 <= xB -> 0 <= yB -> 0 <= eps ->
  good_rects rs1 ->
  generateYConstraints mklt xB (yB + EXTRA_GAP) rs1 = Some cs2 ->
  length y2 = length rs1 ->
  sat_eps eps (fun i => nth i y2 0) cs2 ->
  eps * inject_Z (Z.of_nat (length rs1)) <= 2 * EXTRA_GAP ->
  no_overlap xB yB (move_all (moveCentreY (yB + EXTRA_GAP)) rs1 y2).
Proof. exact (fun S T R X Y E => pipeline_y_chain_eps mklt S T R xB yB X Y eps E rs1 cs2 y2). Qed.
Print Assumptions C09_pipeline_y_chain_tolerance.

Theorem C09_pipeline_x_chain_tolerance mklt xB yB eps rs3 cs3 x3 :
  (forall pos, strict (mklt pos)) -> (forall pos, total_on (mklt pos) (length pos)) ->
  (forall pos a b, mklt pos a b = true -> (a < length pos)%nat /\ (b < length pos)%nat) ->
  0 <= xB -> 0 <= yB -> 0 <= eps ->
  good_rects rs3 ->
  generateXConstraints mklt (xB + EXTRA_GAP) yB rs3 false = Some cs3 ->
  length x3 = length rs3 ->
  sat_eps eps (fun i => nth i x3 0) cs3 ->
  eps * inject_Z (Z.of_nat (length rs3)) <= 2 * EXTRA_GAP ->
  no_overlap xB yB (move_all (moveCentreX (xB + EXTRA_GAP)) rs3 x3).
Proof. exact (fun S T R X Y E => pipeline_x_chain_eps mklt S T R xB yB X Y eps E rs3 cs3 x3). Qed.
Print Assumptions C09_pipeline_x_chain_tolerance.

(* a normal return of the static solver model: one position per variable and every constraint of the input holds up to
   1e-10 (what Solver::refine's closing scan checks) *)
Theorem C09_static_solve_contract d w cs :
  length w = length d ->
  Forall (fun c => (cl c < length d)%nat /\ (cr c < length d)%nat) cs ->
  returns d w cs ->
  length (static_solve_fn d w cs) = length d /\
  sat_eps SOLVER_EPS (fun i => nth i (static_solve_fn d w cs) 0) cs.
Proof. exact (static_solve_fn_sat_eps d w cs). Qed.
Print Assumptions C09_static_solve_contract.

(* removeoverlaps with the static solver model in every pass leaves no positive-area overlap (caller's borders) for up
   to 10^7 rectangles.  NO solver contract is assumed.  The one remaining premise: the static solver model RETURNS on
   the last pass's (acyclic) constraint set - i.e. vpsc::Solver::solve() does not throw UnsatisfiedConstraint there and
   the model's fuel suffices (`static_no_throw_on_dag`, not proved: see Properties/C01.v; observed on every DAG of every
   run of checks/c01.py, and checks/c09.py checks the conclusion on the real removeoverlaps).  If the real solver does
   throw, the exception leaves vpsc::removeoverlaps (its catch clause for C strings does not catch it): nothing is returned. *)
Theorem C09_removeoverlaps_no_overlap_static mklt xB yB rs fixed third r :
  (forall pos, strict (mklt pos)) -> (forall pos, total_on (mklt pos) (length pos)) ->
  (forall pos a b, mklt pos a b = true -> (a < length pos)%nat /\ (b < length pos)%nat) ->
  0 <= xB -> 0 <= yB ->
  good_rects rs -> (Z.of_nat (length rs) <= 10000000)%Z ->
  removeoverlaps mklt static_solve_fn xB yB rs fixed third = Some r ->
  (forall rsl csl d, last_pass mklt xB yB third rsl csl d -> acyclic csl -> returns d (weights (length rs) fixed) csl) ->
  no_overlap xB yB (ro_rects r).
Proof. exact (fun S T R X Y => pipeline_no_overlap_static mklt S T R xB yB X Y rs fixed third r). Qed.
Print Assumptions C09_removeoverlaps_no_overlap_static.

(* both comparator variants satisfy the range hypothesis *)
Theorem C09_cmp_range addr ids pos a b :
  (cmp_node_pos_addr addr pos a b = true -> (a < length pos)%nat /\ (b < length pos)%nat) /\
  (cmp_node_pos_id ids addr pos a b = true -> (a < length pos)%nat /\ (b < length pos)%nat).
Proof. exact (conj (cmp_node_pos_addr_range addr pos a b) (cmp_node_pos_id_range ids addr pos a b)). Qed.
Print Assumptions C09_cmp_range.

(* ================= static_no_throw_on_dag round (Vpsc/StaticDag.v, Rect/PipelineStatic.v).
   The premise of C09_removeoverlaps_no_overlap_static is that Solver::solve() = satisfy(); refine() returns on the
   last pass's acyclic constraint set.  PROVED now (C01_static_no_throw_on_dag): Solver::satisfy returns there - no
   UnsatisfiedConstraint, fuel suffices - with every constraint satisfied EXACTLY, provided the DFS order of
   Blocks::totalOrder is a repetition-free topological order of the set (dfs_order_ok: a boolean evaluated from the
   model's total_order only).  So the premise shrinks to two smaller ones, and the theorem stays PARTIAL in exactly these:
     (i)  dfs_order_ok on the last pass's set - i.e. "DFS from the sources of an acyclic graph yields every node once,
          in topological order, within recursion depth n" (not proved here; StaticInvB.is_dag is evaluated on every
          DAG instance of checks/c01.py);
     (ii) Solver::refine returns from the state satisfy produced (all slacks >= 0): refine's split / mergeLeft /
          mergeRight rounds and its closing scan are modelled (Vpsc/StaticModel.v, compared with the compiled code on
          every run) but no no-throw theorem is proved for them. *)
From Adapt Require Vpsc.StaticDag.

(* Solver::satisfy on the constraint set of a pass: returns, every constraint exactly satisfied *)
Theorem C09_static_satisfy_returns d w cs :
  length w = length d -> Forall (fun x => 0 < x) w ->
  Forall (fun c => (cl c < length d)%nat /\ (cr c < length d)%nat) cs ->
  dfs_order_ok d w cs ->
  exists s1, StaticModel.static_satisfy (StaticModel.static_init (mkvars d w) (mkcons cs)) = VpscModel.Ok s1 /\
             forall c, (c < length cs)%nat -> 0 <= VpscModel.slack_val (StaticModel.base s1) c.
Proof. exact (static_satisfy_returns d w cs). Qed.
Print Assumptions C09_static_satisfy_returns.

Theorem C09_removeoverlaps_no_overlap_static_refine_partial mklt xB yB rs fixed third r :
  (forall pos, strict (mklt pos)) -> (forall pos, total_on (mklt pos) (length pos)) ->
  (forall pos a b, mklt pos a b = true -> (a < length pos)%nat /\ (b < length pos)%nat) ->
  0 <= xB -> 0 <= yB ->
  good_rects rs -> (Z.of_nat (length rs) <= 10000000)%Z ->
  removeoverlaps mklt static_solve_fn xB yB rs fixed third = Some r ->
  (forall rsl csl d, last_pass mklt xB yB third rsl csl d -> acyclic csl ->
     dfs_order_ok d (weights (length rs) fixed) csl) ->
  (forall rsl csl d s1, last_pass mklt xB yB third rsl csl d ->
     StaticModel.static_satisfy (StaticModel.static_init (mkvars d (weights (length rs) fixed)) (mkcons csl)) = VpscModel.Ok s1 ->
     (forall c, (c < length csl)%nat -> 0 <= VpscModel.slack_val (StaticModel.base s1) c) ->
     exists s2, StaticModel.static_refine s1 = VpscModel.Ok s2) ->
  no_overlap xB yB (ro_rects r).
Proof. exact (fun S T R X Y => pipeline_no_overlap_static_refine_partial mklt S T R xB yB X Y rs fixed third r). Qed.
Print Assumptions C09_removeoverlaps_no_overlap_static_refine_partial.

(* ---- premise (i) discharged (Vpsc/StaticDfs.v): the generated constraint sets are ranked by CmpNodePos, and on ranked
   graphs Blocks::totalOrder is a repetition-free topological order.  Solver::satisfy on the last pass: returns, every
   constraint satisfied exactly - UNCONDITIONAL *)
Theorem C09_last_pass_satisfy_returns mklt xB yB third rsl csl d w :
  (forall pos, strict (mklt pos)) ->
  (forall pos a b, mklt pos a b = true -> (a < length pos)%nat /\ (b < length pos)%nat) ->
  last_pass mklt xB yB third rsl csl d -> length w = length d -> Forall (fun x => 0 < x) w ->
  exists s1, StaticModel.static_satisfy (StaticModel.static_init (mkvars d w) (mkcons csl)) = VpscModel.Ok s1 /\
             forall c, (c < length csl)%nat -> 0 <= VpscModel.slack_val (StaticModel.base s1) c.
Proof. exact (fun S R => last_pass_satisfy_returns mklt S R xB yB third rsl csl d w). Qed.
Print Assumptions C09_last_pass_satisfy_returns.

(* removeoverlaps with the static solver model leaves no positive-area overlap; the ONLY remaining premise (hence
   still _partial): Solver::refine returns from the state Solver::satisfy produced on the last pass, a state in which
   every constraint already holds exactly.  (refine = split / mergeLeft / mergeRight rounds + closing scan; modelled in
   Vpsc/StaticModel.v and compared with the compiled code on every run, but no no-throw theorem is proved for it.) *)
Theorem C09_removeoverlaps_no_overlap_static_refine_only_partial mklt xB yB rs fixed third r :
  (forall pos, strict (mklt pos)) -> (forall pos, total_on (mklt pos) (length pos)) ->
  (forall pos a b, mklt pos a b = true -> (a < length pos)%nat /\ (b < length pos)%nat) ->
  0 <= xB -> 0 <= yB ->
  good_rects rs -> (Z.of_nat (length rs) <= 10000000)%Z ->
  removeoverlaps mklt static_solve_fn xB yB rs fixed third = Some r ->
  (forall rsl csl d s1, last_pass mklt xB yB third rsl csl d ->
     StaticModel.static_satisfy (StaticModel.static_init (mkvars d (weights (length rs) fixed)) (mkcons csl)) = VpscModel.Ok s1 ->
     (forall c, (c < length csl)%nat -> 0 <= VpscModel.slack_val (StaticModel.base s1) c) ->
     exists s2, StaticModel.static_refine s1 = VpscModel.Ok s2) ->
  no_overlap xB yB (ro_rects r).
Proof. exact (fun S T R X Y => pipeline_no_overlap_static_refine_only_partial mklt S T R xB yB X Y rs fixed third r). Qed.
Print Assumptions C09_removeoverlaps_no_overlap_static_refine_only_partial.

(* ================= degenerate sizes and call sequences (Rect/RemoveOverlapsSmall.v; follow-up on seeded change C09-6).
   C09_borders_restored above already quantifies over every rectangle list, the empty one and the singletons included
   (the model, like rectangle.cpp, has no special case for n < 2).  Unconditional form: the model always returns, and the
   border globals are the caller's - for every n >= 0; non-vacuity for n = 0 and n = 1: borders_restored_n0 / _n1. *)
From Adapt Require Import Rect.RemoveOverlapsSmall.

Theorem C09_borders_restored_every_n mklt solve xB yB rs fixed third :
  exists r, removeoverlaps mklt solve xB yB rs fixed third = Some r /\ ro_xBorder r = xB /\ ro_yBorder r = yB.
Proof. exact (borders_restored_total mklt solve xB yB rs fixed third). Qed.
Print Assumptions C09_borders_restored_every_n.

(* several calls in one process, each reading the border globals the previous call left: after every call the globals
   are the caller's and every rectangle has the size it came with *)
Theorem C09_call_sequence_borders_sizes mklt solve
  (Hs : forall d w cs, length (solve d w cs) = length d) calls xB yB :
  exists outs, ro_seq mklt solve xB yB calls = Some (xB, yB, outs) /\
               Forall2 (fun c o => Forall2 same_size (call_rects c) o) calls outs.
Proof. exact (ro_seq_borders mklt solve Hs calls xB yB). Qed.
Print Assumptions C09_call_sequence_borders_sizes.

(* zero or one rectangle: no constraint in any pass, nothing moves (solver returning the desired positions when there
   is no constraint), borders restored *)
Theorem C09_removeoverlaps_small mklt solve xB yB rs fixed third :
  (forall pos, strict (mklt pos)) ->
  (forall pos a b, mklt pos a b = true -> (a < length pos)%nat /\ (b < length pos)%nat) ->
  (forall d w, solve d w [] = d) -> (length rs <= 1)%nat ->
  exists r, removeoverlaps mklt solve xB yB rs fixed third = Some r /\
            ro_xBorder r = xB /\ ro_yBorder r = yB /\ Forall2 rect_eq rs (ro_rects r).
Proof. exact (fun S R N => removeoverlaps_small mklt S R solve N xB yB rs fixed third). Qed.
Print Assumptions C09_removeoverlaps_small.

(* the seeded variant (return for n < 2 after the padding, before the restoration) violates borders_restored and
   changes the size read through the getters: witnesses n = 0 and n = 1 *)
Theorem C09_early_return_refuted :
  (exists rs fixed third r, length rs = 0%nat /\
     removeoverlaps_early_return cmp1 id_solver 0 0 rs fixed third = Some r /\ ~ (ro_xBorder r == 0 /\ ro_yBorder r == 0)) /\
  (exists rs fixed third r, length rs = 1%nat /\
     removeoverlaps_early_return cmp1 id_solver 0 0 rs fixed third = Some r /\ ~ (ro_xBorder r == 0 /\ ro_yBorder r == 0) /\
     ~ width (ro_xBorder r) (nthr (ro_rects r) 0) == width 0 (nthr rs 0)).
Proof. exact early_return_refuted. Qed.
Print Assumptions C09_early_return_refuted.

(* ================= Variables that share an id (Rect/DupIds.v; follow-up on seeded change C09-5).  Variable::id is
   documentation only, so equal ids are valid input of the public generators.  HEAD's CmpNodePos (position, id when the
   ids differ, Node address) is total on distinct Node objects for EVERY id list, so the chain lemma gives completeness
   for any ids and either order of the tied nodes; the seeded comparator (position, then id only) is not total and loses
   the constraints between tied rectangles. *)
From Adapt Require Import Rect.DupIds.

Theorem C09_dup_ids_no_overlap ids addr xb yb rs :
  (forall i j, addr i = addr j -> i = j) -> valid_rects xb yb rs ->
  (forall cs, generateYConstraints (cmp_node_pos_id ids addr) xb yb rs = Some cs ->
     forall p, sat p cs -> forall i j, (i < length rs)%nat -> (j < length rs)%nat -> i <> j ->
       ~ overlaps_pos xb yb (moveCentreY yb (nthr rs i) (p i)) (moveCentreY yb (nthr rs j) (p j))) /\
  (forall cs, generateXConstraints (cmp_node_pos_id ids addr) xb yb rs false = Some cs ->
     forall p, sat p cs -> forall i j, (i < length rs)%nat -> (j < length rs)%nat -> i <> j ->
       ~ overlaps_pos xb yb (moveCentreX xb (nthr rs i) (p i)) (moveCentreX xb (nthr rs j) (p j))).
Proof.
  exact (fun I V => conj (dup_ids_genY_no_overlap ids addr I xb yb rs V) (dup_ids_genX_no_overlap ids addr I xb yb rs V)).
Qed.
Print Assumptions C09_dup_ids_no_overlap.

Theorem C09_idonly_comparator_refuted :
  exists ids xb yb rs cs p i j,
    valid_rects xb yb rs /\
    generateYConstraints (cmp_node_pos_idonly ids) xb yb rs = Some cs /\
    sat p cs /\ (i < length rs)%nat /\ (j < length rs)%nat /\ i <> j /\
    overlaps_pos xb yb (moveCentreY yb (nthr rs i) (p i)) (moveCentreY yb (nthr rs j) (p j)) /\
    entail_checkY xb yb rs cs = false /\
    generateYConstraints (cmp_node_pos_id ids (fun a => a)) xb yb rs = Some [mkc 0 1 2].
Proof. exact idonly_incomplete_refuted. Qed.
Print Assumptions C09_idonly_comparator_refuted.

(* ---- refine's premise reduced (Vpsc/StaticRefine.v, Rect/PipelineStatic.pipeline_no_overlap_static_passes_partial):
   no overlap, given only that every pass of refine's while loop on the last pass's trace returns with every slack >= 0
   (`passes_ok`): the closing scan of refine cannot throw from an all-satisfied state and exhausting maxtries is a
   normal return.  Still _partial: `passes_ok` (Blocks::split keeps every constraint satisfied on DAGs) is proved only
   for the mergeRight half under the out-heap minimum hypothesis (C01_static_merge_right_all_sat_partial); the
   UNCONDITIONAL C09_removeoverlaps_no_overlap_static is NOT registered. *)
Theorem C09_removeoverlaps_no_overlap_static_passes_partial mklt xB yB rs fixed third r :
  (forall pos, strict (mklt pos)) -> (forall pos, total_on (mklt pos) (length pos)) ->
  (forall pos a b, mklt pos a b = true -> (a < length pos)%nat /\ (b < length pos)%nat) ->
  0 <= xB -> 0 <= yB ->
  good_rects rs -> (Z.of_nat (length rs) <= 10000000)%Z ->
  removeoverlaps mklt static_solve_fn xB yB rs fixed third = Some r ->
  (forall rsl csl d s1, last_pass mklt xB yB third rsl csl d ->
     StaticModel.static_satisfy (StaticModel.static_init (mkvars d (weights (length rs) fixed)) (mkcons csl)) = VpscModel.Ok s1 ->
     StaticRefine.passes_ok VpscModel.MAXTRIES s1) ->
  no_overlap xB yB (ro_rects r).
Proof. exact (fun S T R X Y => pipeline_no_overlap_static_passes_partial mklt S T R xB yB X Y rs fixed third r). Qed.
Print Assumptions C09_removeoverlaps_no_overlap_static_passes_partial.
