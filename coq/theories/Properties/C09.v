(* C09 - libvpsc: removeoverlaps leaves no overlap and changes no size; generateX/YConstraints are acyclic and entail
   non-overlap.  Only statements closed by `exact`; the proofs live in Rect/*.v and are about the hand-written models
   Rect/ScanlineModel.v, Rect/RemoveOverlapsModel.v, Rect/RectBase.v (tied to /repo by the correspondence runs of
   checks/c09.py) and the verified checkers of Rect/EntailModel.v (run on every real constraint set). *)
From Adapt Require Import Num.Qaux Rect.RectBase Rect.ScanlineModel Rect.EntailModel Rect.RemoveOverlapsModel
  Rect.Entail Rect.Scanline Rect.RemoveOverlaps.
Local Open Scope Q_scope.

(* every generated constraint graph is a DAG: both generators, both modes, both CmpNodePos variants, any address oracle *)
Theorem C09_gen_acyclic :
  forall (addr : nat -> nat) (ids : list Z) (xb yb : Q) (rs : list rect),
    (forall b cs, generateXConstraints (cmp_node_pos_addr addr) xb yb rs b = Some cs -> acyclic cs) /\
    (forall cs, generateYConstraints (cmp_node_pos_addr addr) xb yb rs = Some cs -> acyclic cs) /\
    (forall b cs, generateXConstraints (cmp_node_pos_id ids addr) xb yb rs b = Some cs -> acyclic cs) /\
    (forall cs, generateYConstraints (cmp_node_pos_id ids addr) xb yb rs = Some cs -> acyclic cs).
Proof. exact gen_acyclic. Qed.
Print Assumptions C09_gen_acyclic.

(* ... and every constraint goes forward in the order CmpNodePos defines *)
Theorem C09_gen_forward mklt (H : forall pos, strict (mklt pos)) xb yb rs :
  (forall b cs, generateXConstraints mklt xb yb rs b = Some cs ->
     Forall (fun c => mklt (posX xb rs) (cl c) (cr c) = true) cs /\ acyclic cs) /\
  (forall cs, generateYConstraints mklt xb yb rs = Some cs ->
     Forall (fun c => mklt (posY yb rs) (cl c) (cr c) = true) cs /\ acyclic cs).
Proof. exact (conj (gen_acyclic_X mklt H xb yb rs) (gen_acyclic_Y mklt H xb yb rs)). Qed.
Print Assumptions C09_gen_forward.

(* the generators always return (the fuelled sort never runs out of fuel) *)
Theorem C09_generators_total mklt xb yb rs :
  (forall b, generateXConstraints mklt xb yb rs b <> None) /\ generateYConstraints mklt xb yb rs <> None.
Proof. exact (conj (generateXConstraints_total mklt xb yb rs) (generateYConstraints_total mklt xb yb rs)). Qed.
Print Assumptions C09_generators_total.

(* the verified certificate: if entail_check accepts, every placement satisfying the constraints has no overlapping pair *)
Theorem C09_entail_check_sound lo hi len n cs :
  entail_check lo hi len n cs = true ->
  forall p, sat p cs ->
  forall i j, (i < n)%nat -> (j < n)%nat -> i <> j -> lo i < hi j -> lo j < hi i ->
    p i + (len i + len j) / 2 <= p j \/ p j + (len i + len j) / 2 <= p i.
Proof. exact (entail_check_sound lo hi len n cs). Qed.
Print Assumptions C09_entail_check_sound.

Theorem C09_entail_no_overlap xb yb rs cs :
  (entail_checkY xb yb rs cs = true -> forall p, sat p cs ->
     forall i j, (i < length rs)%nat -> (j < length rs)%nat -> i <> j ->
       ~ overlaps_pos xb yb (moveCentreY yb (nthr rs i) (p i)) (moveCentreY yb (nthr rs j) (p j))) /\
  (entail_checkX xb yb rs cs = true -> forall p, sat p cs ->
     forall i j, (i < length rs)%nat -> (j < length rs)%nat -> i <> j ->
       ~ overlaps_pos xb yb (moveCentreX xb (nthr rs i) (p i)) (moveCentreX xb (nthr rs j) (p j))).
Proof. exact (conj (entail_checkY_sound xb yb rs cs) (entail_checkX_sound xb yb rs cs)). Qed.
Print Assumptions C09_entail_no_overlap.

Theorem C09_topo_check_sound rank cs : topo_check rank cs = true -> acyclic cs.
Proof. exact (topo_check_sound rank cs). Qed.
Print Assumptions C09_topo_check_sound.

(* moveCentreX / moveCentreY keep width and height exactly *)
Theorem C09_sizes_preserved xb yb r p :
  width xb (moveCentreX xb r p) == width xb r /\ height yb (moveCentreX xb r p) == height yb r /\
  width xb (moveCentreY yb r p) == width xb r /\ height yb (moveCentreY yb r p) == height yb r.
Proof. exact (sizes_preserved xb yb r p). Qed.
Print Assumptions C09_sizes_preserved.

Theorem C09_sizes_preserved_removeoverlaps mklt solve
  (Hs : forall d w cs, length (solve d w cs) = length d) xB yB rs fixed third r :
  removeoverlaps mklt solve xB yB rs fixed third = Some r -> Forall2 same_size rs (ro_rects r).
Proof. exact (sizes_preserved_removeoverlaps mklt solve Hs xB yB rs fixed third r). Qed.
Print Assumptions C09_sizes_preserved_removeoverlaps.

(* the border globals end with their initial values on the non-throwing path *)
Theorem C09_borders_restored mklt solve xB yB rs fixed third r :
  removeoverlaps mklt solve xB yB rs fixed third = Some r -> ro_xBorder r = xB /\ ro_yBorder r = yB.
Proof. exact (borders_restored mklt solve xB yB rs fixed third r). Qed.
Print Assumptions C09_borders_restored.

(* PARTIAL (named so): no overlap after removeoverlaps is proved from (i) the solver's answer satisfying the constraints
   of the last generating pass (C01's business) and (ii) the entail_check certificate for that pass, which the check
   evaluates on every instance.  Missing for an unconditional statement: the Dwyer-Marriott-Stuckey chain lemma
   (genY_entails_no_overlap: entail_check always succeeds on generated sets), not proved here. *)
Theorem C09_pipeline_partial mklt solve xB yB rs fixed third r :
  removeoverlaps mklt solve xB yB rs fixed third = Some r ->
  exists rsl csl pl,
    (if third
     then generateXConstraints mklt (xB + EXTRA_GAP) yB rsl false = Some csl /\
          ro_rects r = move_all (moveCentreX (xB + EXTRA_GAP)) rsl pl /\
          (length pl = length rsl -> entail_checkX (xB + EXTRA_GAP) yB rsl csl = true ->
           sat (fun i => nth i pl 0) csl -> no_overlap xB yB (ro_rects r))
     else generateYConstraints mklt xB (yB + EXTRA_GAP) rsl = Some csl /\
          ro_rects r = move_all (moveCentreY (yB + EXTRA_GAP)) rsl pl /\
          (length pl = length rsl -> entail_checkY xB (yB + EXTRA_GAP) rsl csl = true ->
           sat (fun i => nth i pl 0) csl -> no_overlap xB yB (ro_rects r))).
Proof. exact (C09_pipeline mklt solve xB yB rs fixed third r). Qed.
Print Assumptions C09_pipeline_partial.
