(* C09 - placeholder while the proofs are being written *)
From Adapt Require Import Num.Qaux Rect.RectBase Rect.ScanlineModel Rect.EntailModel Rect.RemoveOverlapsModel.
