(* C10 - libavoid nudging: shared paths are separated without moving endpoints.
   Only statements closed by `exact`; proofs live in Avoid/Nudge.v (region model) and Avoid/NudgeScene.v (scene checker).
   The VPSC solver is a parameter of the region model; `solver_contract` is property C01's statement. *)
From Coq Require Import QArith List Bool ZArith.
From Adapt Require Import Num.Qaux Vpsc.VpscSpec Vpsc.Feas Avoid.NudgeModel Avoid.Nudge Avoid.NudgeScene Avoid.NudgeRelModel Avoid.NudgeRel Avoid.NudgeMember.
Import ListNotations.
Local Open Scope Q_scope.

Definition solver_contract (solver : nat -> list nvar -> list con -> list bool -> list Q * list bool) : Prop :=
  forall k vs cs fl,
    length (fst (solver k vs cs fl)) = length vs /\
    forall j c, nth_error cs j = Some c -> nth_error (snd (solver k vs cs fl)) j = Some false ->
      within (map tovar vs) (place_of (fst (solver k vs cs fl))) TOL10 c.

Theorem C10_nudge_gen_wf R :
  let g := gen R in
  (forall c, In c (gcs g) -> (cl c < length (gvs g))%nat /\ (cr c < length (gvs g))%nat /\ (gap c == 0 \/ gap c = rbase R)) /\
  (forall i, (i < length (rsegs R))%nat ->
      nth_error (gvs g) (seg_var g i) = Some (create_var (rnfs R) (runify R) (seg_of R i))) /\
  (runify R = false -> forall i, (i < length (rsegs R))%nat -> sfixed (seg_of R i) = false ->
      (- CHANNEL_MAX < smin (seg_of R i) ->
         exists l, In (mkcon l (seg_var g i) 0 false) (gcs g) /\
                   nth_error (gvs g) l = Some (mknv channelLeftID (smin (seg_of R i)) fixedWeight)) /\
      (smax (seg_of R i) < CHANNEL_MAX ->
         exists r, In (mkcon (seg_var g i) r 0 false) (gcs g) /\
                   nth_error (gvs g) r = Some (mknv channelRightID (smax (seg_of R i)) fixedWeight))) /\
  (forall i, (i < length (rsegs R))%nat ->
      (sfixed (seg_of R i) = true -> szigzag (seg_of R i) = false \/ (rnfs R = true /\ sfinal (seg_of R i) = true) ->
         forall v, nth_error (gvs g) (seg_var g i) = Some v -> ~ vwt v == freeWeight) /\
      (rnfs R = true -> sfinal (seg_of R i) = true ->
         forall v, nth_error (gvs g) (seg_var g i) = Some v -> ~ vwt v == freeWeight)).
Proof. exact (nudge_gen_wf R). Qed.
Print Assumptions C10_nudge_gen_wf.

Theorem C10_nudge_satisfied_post solver fuel R o :
  solver_contract solver ->
  nudge_region solver fuel R = NOk o -> o_sat o = true ->
  let g := gen R in
  (forall j c, nth_error (o_cs o) j = Some c -> nth_error (o_flags o) j = Some false ->
      nth (cl c) (o_xs o) 0 + gap c <= nth (cr c) (o_xs o) 0 + TOL10 /\
      (ceq c = true -> nth (cr c) (o_xs o) 0 <= nth (cl c) (o_xs o) 0 + gap c + TOL10)) /\
  (runify R = false ->
      Forall2 (gap_rel (rbase R) (o_sep o)) (gcs g) (o_cs o) /\ (o_sep o = rbase R \/ SAT_TOL < o_sep o)) /\
  (forall i v, nth_error (gvs g) i = Some v -> vid v <> freeSegmentID -> Qabs' (nth i (o_xs o) 0 - vdes v) <= SAT_TOL) /\
  length (o_xs o) = length (gvs g) /\ o_pos o = written R g (o_xs o).
Proof. exact (fun Hc => nudge_satisfied_post solver Hc fuel R o). Qed.
Print Assumptions C10_nudge_satisfied_post.

Theorem C10_nudge_channel_post solver fuel R o i :
  solver_contract solver ->
  nudge_region solver fuel R = NOk o -> o_sat o = true -> runify R = false ->
  (i < length (rsegs R))%nat -> sfixed (seg_of R i) = false ->
  let g := gen R in let s := seg_of R i in let x := nth (seg_var g i) (o_xs o) 0 in
  (- CHANNEL_MAX < smin s ->
     exists k c, nth_error (o_cs o) k = Some c /\ cr c = seg_var g i /\ gap c == 0 /\
       nth_error (gvs g) (cl c) = Some (mknv channelLeftID (smin s) fixedWeight) /\
       (nth_error (o_flags o) k = Some false -> smin s - SAT_TOL - TOL10 <= x)) /\
  (smax s < CHANNEL_MAX ->
     exists k c, nth_error (o_cs o) k = Some c /\ cl c = seg_var g i /\ gap c == 0 /\
       nth_error (gvs g) (cr c) = Some (mknv channelRightID (smax s) fixedWeight) /\
       (nth_error (o_flags o) k = Some false -> x <= smax s + SAT_TOL + TOL10)).
Proof. exact (fun Hc => nudge_channel_post solver Hc fuel R o i). Qed.
Print Assumptions C10_nudge_channel_post.

Theorem C10_written_within_limits s x :
  (sfixed s = true -> new_pos s x = spos s) /\
  (sfixed s = false -> smin s <= smax s -> smin s <= new_pos s x /\ new_pos s x <= smax s) /\
  (forall d, sfixed s = false -> 0 <= d -> smin s - d <= x -> x <= smax s + d -> Qabs' (new_pos s x - x) <= d).
Proof. exact (conj (new_pos_fixed s x) (conj (new_pos_within s x) (new_pos_close s x))). Qed.
Print Assumptions C10_written_within_limits.

Theorem C10_nudge_unsatisfied_noop solver fuel R o :
  nudge_region solver fuel R = NOk o -> o_sat o = false -> o_pos o = map spos (rsegs R).
Proof. exact (nudge_unsatisfied_noop solver fuel R o). Qed.
Print Assumptions C10_nudge_unsatisfied_noop.

Theorem C10_nudge_no_new_segments dim v idx route :
  length (write_points dim route idx v) = length route /\
  forall k p, nth_error route k = Some p ->
    exists p', nth_error (write_points dim route idx v) k = Some p' /\ other_coord dim p' = other_coord dim p /\
               (~ In k idx -> p' = p).
Proof. exact (nudge_no_new_segments dim v idx route). Qed.
Print Assumptions C10_nudge_no_new_segments.

Theorem C10_model solver fuel R o i j :
  solver_contract solver ->
  nudge_region solver fuel R = NOk o -> o_sat o = true -> runify R = false ->
  (j < i)%nat -> (i < length (rsegs R))%nat ->
  r_ov (rel_of R i j) = true -> (sfixed (seg_of R i) = false \/ sfixed (seg_of R j) = false) ->
  r_sa (rel_of R i j) = false -> r_ca (rel_of R i j) = false -> (rnsp R = true \/ r_sh (rel_of R i j) = false) ->
  0 < rbase R ->
  let g := gen R in
  exists k c, nth_error (o_cs o) k = Some c /\ cl c = seg_var g j /\ cr c = seg_var g i /\ ceq c = false /\
    o_sep o <= gap c /\ gap c <= rbase R /\ (o_sep o = rbase R \/ SAT_TOL < o_sep o) /\
    (nth_error (o_flags o) k = Some false ->
       nth (seg_var g j) (o_xs o) 0 + o_sep o <= nth (seg_var g i) (o_xs o) 0 + TOL10).
Proof. exact (fun Hc => Nudge.C10_model solver Hc fuel R o i j). Qed.
Print Assumptions C10_model.

Theorem C10_region_checker_sound tol R g sat sep cs xs pos :
  nudge_region_ok tol R g sat sep cs xs pos = true ->
  if sat then region_post tol R g sep cs xs pos
  else forall i s w, nth_error (rsegs R) i = Some s -> nth_error pos i = Some w -> w == spos s.
Proof. exact (nudge_region_ok_sound tol R g sat sep cs xs pos). Qed.
Print Assumptions C10_region_checker_sound.

Theorem C10_scene_checker_sound tol dist boxes cs : scene_ok tol dist boxes cs = true -> scene_spec tol dist boxes cs.
Proof. exact (scene_ok_sound tol dist boxes cs). Qed.
Print Assumptions C10_scene_checker_sound.

(* the `satisfied` flag does not imply the constraints: a model run whose region is satisfied and written back while a
   gap constraint (flagged unsatisfiable by the solver, which nudgeOrthogonalRoutes never reads) is violated *)
Theorem C10_satisfied_without_flags_refuted :
  exists solver R o, nudge_region solver 20 R = NOk o /\ o_sat o = true /\
    nudge_region_ok 0 R (gen R) true (o_sep o) (o_cs o) (o_xs o) (o_pos o) = false.
Proof. exact satisfied_without_flags_refuted. Qed.
Print Assumptions C10_satisfied_without_flags_refuted.

(* ---- the segment relations and the region collection (Avoid/NudgeRelModel.v; tied to the code by the REL records of
   hook H1 and the ALLSEG / SEGX records of hook H1b: exact correspondence on every run) *)
Theorem C10_overlaps_sym nc fspp s t : overlaps_with nc fspp s t = overlaps_with nc fspp t s.
Proof. exact (overlaps_sym nc fspp s t). Qed.
Print Assumptions C10_overlaps_sym.

Theorem C10_can_align_sym s t : can_align_with s t = can_align_with t s.
Proof. exact (can_align_sym s t). Qed.
Print Assumptions C10_can_align_sym.

Theorem C10_should_align_sym nc fspp s t :
  slo s < shi s -> slo t < shi t -> should_align_with nc fspp s t = should_align_with nc fspp t s.
Proof. exact (should_align_sym nc fspp s t). Qed.
Print Assumptions C10_should_align_sym.

Theorem C10_overlaps_proper_spec nc fspp s t :
  slo s < shi t -> slo t < shi s ->
  (overlaps_with nc fspp s t = true <-> exists p, smin s <= p <= smax s /\ smin t <= p <= smax t) \/
  (smax s < smin s \/ smax t < smin t).
Proof. exact (overlaps_proper_spec nc fspp s t). Qed.
Print Assumptions C10_overlaps_proper_spec.

Theorem C10_seg_groups_total nc fspp l : seg_groups nc fspp l <> None.
Proof. exact (seg_groups_total nc fspp l). Qed.
Print Assumptions C10_seg_groups_total.

Theorem C10_seg_groups_perm nc fspp l gs : seg_groups nc fspp l = Some gs -> Permutation.Permutation l (concat gs).
Proof. exact (seg_groups_perm nc fspp l gs). Qed.
Print Assumptions C10_seg_groups_perm.

Theorem C10_seg_groups_separated nc fspp l gs :
  seg_groups nc fspp l = Some gs ->
  forall i j g1 g2 x y, i <> j -> nth_error gs i = Some g1 -> nth_error gs j = Some g2 -> In y g1 -> In x g2 ->
    overlaps_with nc fspp (snd x) (snd y) = false /\ overlaps_with nc fspp (snd y) (snd x) = false.
Proof. exact (seg_groups_separated nc fspp l gs). Qed.
Print Assumptions C10_seg_groups_separated.

Theorem C10_cp_limit_keeps pos mn mx c far p' :
  cp_limit_ok pos mn mx c = true -> mn <= p' -> p' <= mx ->
  (far <= c /\ c <= pos) \/ (pos <= c /\ c <= far) ->
  (far <= c /\ c <= p') \/ (p' <= c /\ c <= far).
Proof. exact (cp_limit_keeps pos mn mx c far p'). Qed.
Print Assumptions C10_cp_limit_keeps.

(* ---- immovable members and completeness of the regions (seeded change C10-6: fixed routes; DESIGN 9.13).
   (1) an immovable member of a satisfied nudging-stage region keeps its position and the movable segments that overlap
       it end at least the final (possibly reduced) separation away from it;
   (2) every positive-length segment of every connector's display route (fixed-route connectors are connectors like any
       other) that lies in the shift dimension is an expected member of the pass, and when the dumped segment list covers
       the expected members (members_covered: decided on every run from hook H1b's AROUTE / ASEG records) every expected
       member lies in one of the regions the (total, permutation) collection forms. *)
Theorem C10_nudge_immovable_member_post solver fuel R o i j :
  solver_contract solver ->
  nudge_region solver fuel R = NOk o -> o_sat o = true -> runify R = false ->
  (j < i)%nat -> (i < length (rsegs R))%nat ->
  r_ov (rel_of R i j) = true -> r_sa (rel_of R i j) = false -> r_ca (rel_of R i j) = false ->
  (rnsp R = true \/ r_sh (rel_of R i j) = false) -> 0 < rbase R ->
  let g := gen R in let si := seg_of R i in let sj := seg_of R j in
  let xi := nth (seg_var g i) (o_xs o) 0 in let xj := nth (seg_var g j) (o_xs o) 0 in
  let wi := nth i (o_pos o) 0 in let wj := nth j (o_pos o) 0 in
  (o_sep o = rbase R \/ SAT_TOL < o_sep o) /\
  (plain_fixed sj -> sfixed si = false ->
     wj = spos sj /\
     exists k c, nth_error (o_cs o) k = Some c /\ cl c = seg_var g j /\ cr c = seg_var g i /\ o_sep o <= gap c /\
       (nth_error (o_flags o) k = Some false ->
          spos sj + o_sep o <= xi + SAT_TOL + TOL10 /\
          forall d, 0 <= d -> smin si - d <= xi -> xi <= smax si + d -> spos sj + o_sep o <= wi + SAT_TOL + TOL10 + d)) /\
  (plain_fixed si -> sfixed sj = false ->
     wi = spos si /\
     exists k c, nth_error (o_cs o) k = Some c /\ cl c = seg_var g j /\ cr c = seg_var g i /\ o_sep o <= gap c /\
       (nth_error (o_flags o) k = Some false ->
          xj + o_sep o <= spos si + SAT_TOL + TOL10 /\
          forall d, 0 <= d -> smin sj - d <= xj -> xj <= smax sj + d -> wj + o_sep o <= spos si + SAT_TOL + TOL10 + d)).
Proof. exact (fun Hc => nudge_immovable_member_post solver Hc fuel R o i j). Qed.
Print Assumptions C10_nudge_immovable_member_post.

Theorem C10_pass_members_complete dim routes c l k a b :
  In (c, l) routes ->
  nth_error l k = Some a -> nth_error l (S k) = Some b ->
  coord dim a == coord dim b -> ~ coord (negb dim) a == coord (negb dim) b ->
  exists m, In (c, m) (pass_members dim routes) /\ is_member_of dim k a b m.
Proof. exact (pass_members_complete dim routes c l k a b). Qed.
Print Assumptions C10_pass_members_complete.

Theorem C10_members_in_groups nc fspp dim routes segs gs :
  members_covered dim routes segs = true ->
  seg_groups nc fspp (indexed (map fst segs)) = Some gs ->
  forall c m, In (c, m) (pass_members dim routes) ->
  exists g i x, In g gs /\ In (i, fst x) g /\ nth_error segs i = Some x /\ mem_matches c m x = true.
Proof. exact (members_in_groups nc fspp dim routes segs gs). Qed.
Print Assumptions C10_members_in_groups.

Theorem C10_groups_disjoint nc fspp (l : list seg) gs :
  seg_groups nc fspp (indexed l) = Some gs -> NoDup (concat gs).
Proof. exact (groups_disjoint nc fspp gs). Qed.
Print Assumptions C10_groups_disjoint.

Theorem C10_members_only_sound dim routes segs :
  members_only dim routes segs = true ->
  forall x, In x segs -> exists c m, In (c, m) (pass_members dim routes) /\ mem_matches c m x = true.
Proof. exact (members_only_sound dim routes segs). Qed.
Print Assumptions C10_members_only_sound.
