(* C10 - libavoid nudging: shared paths are separated without moving endpoints.
   Only statements closed by `exact`; proofs live in Avoid/Nudge.v (region model) and Avoid/NudgeScene.v (scene checker). *)
From Coq Require Import QArith List.
From Adapt Require Import Num.Qaux Avoid.NudgeScene.
Local Open Scope Q_scope.

Theorem C10_scene_checker_sound tol dist boxes cs : scene_ok tol dist boxes cs = true -> scene_spec tol dist boxes cs.
Proof. exact (scene_ok_sound tol dist boxes cs). Qed.
Print Assumptions C10_scene_checker_sound.
