(* C01 - VPSC: every constraint is satisfied on return or is reported unsatisfiable.
   Only statements closed by `exact`; proofs live in Vpsc/Feas.v (verified oracles) and Vpsc/VpscInv.v (model). *)
From Adapt Require Import Num.Qaux Vpsc.VpscSpec Vpsc.Feas Vpsc.VpscModel.
Local Open Scope Q_scope.

Theorem C01_sat_or_flagged_sound vs cs xs flags tol :
  sat_or_flagged vs cs xs flags tol = true ->
  forall k c, nth_error cs k = Some c -> nth_error flags k = Some false ->
    within vs (place_of xs) tol c.
Proof. exact (sat_or_flagged_sound vs cs xs flags tol). Qed.
Print Assumptions C01_sat_or_flagged_sound.

Theorem C01_positive_cycle_infeasible vs cs w :
  detect (length vs) cs = PosCycle w -> forall x, ~ feasible vs cs x.
Proof. exact (detect_poscycle_sound vs cs w). Qed.
Print Assumptions C01_positive_cycle_infeasible.

Theorem C01_potentials_feasible vs cs d :
  wf_vars vs -> wf_cons vs cs ->
  detect (length vs) cs = Potentials d ->
  feasible vs cs (fun i => place_of d i / scl (vget vs i)).
Proof. exact (detect_potentials_sound vs cs d). Qed.
Print Assumptions C01_potentials_feasible.
