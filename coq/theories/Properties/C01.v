(* C01 - VPSC: every constraint is satisfied on return or is reported unsatisfiable.
   Only statements closed by `exact`; proofs live in Vpsc/Feas.v (verified oracles) and Vpsc/VpscInv.v (model). *)
From Adapt Require Import Num.Qaux Vpsc.VpscSpec Vpsc.Feas Vpsc.VpscModel Vpsc.VpscInv.
Local Open Scope Q_scope.

Theorem C01_sat_or_flagged_sound vs cs xs flags tol :
  sat_or_flagged vs cs xs flags tol = true ->
  forall k c, nth_error cs k = Some c -> nth_error flags k = Some false ->
    within vs (place_of xs) tol c.
Proof. exact (sat_or_flagged_sound vs cs xs flags tol). Qed.
Print Assumptions C01_sat_or_flagged_sound.

Theorem C01_positive_cycle_infeasible vs cs w :
  detect (length vs) cs = PosCycle w -> forall x, ~ feasible vs cs x.
Proof. exact (detect_poscycle_sound vs cs w). Qed.
Print Assumptions C01_positive_cycle_infeasible.

Theorem C01_potentials_feasible vs cs d :
  wf_vars vs -> wf_cons vs cs ->
  detect (length vs) cs = Potentials d ->
  feasible vs cs (fun i => place_of d i / scl (vget vs i)).
Proof. exact (detect_potentials_sound vs cs d). Qed.
Print Assumptions C01_potentials_feasible.

(* ---------------- the executable IncSolver model (Vpsc/VpscModel.v, tied to /repo by correspondence) *)

(* on return of solve()/satisfy() every constraint that is neither active nor flagged holds to -1e-10 *)
Theorem C01_sat_on_return fuel s o s' :
  run_result o fuel s s' ->
  wf_cons (svars s') (scons s') ->
  forall k, (k < length (scons s'))%nat -> act_of s' k = false -> uns_of s' k = false ->
    ZERO_UPPERBOUND <= slackv (svars s') (place_of (final_positions s')) (con_of s' k).
Proof. exact (sat_on_return fuel s o s'). Qed.
Print Assumptions C01_sat_on_return.

(* active constraints are tight under the invariant act_inv *)
Theorem C01_active_tight s c :
  act_inv s -> act_of s c = true ->
  ~ scl (var_of s (cl (con_of s c))) == 0 -> ~ scl (var_of s (cr (con_of s c))) == 0 ->
  slack_val s c == 0.
Proof. exact (active_tight s c). Qed.
Print Assumptions C01_active_tight.

(* partial: the full "every unflagged constraint holds, active ones and hence all merged equalities exactly" needs
   act_inv of the returned state, which is proved for every step except split (C01_split_act_inv_partial) *)
Theorem C01_sat_on_return_full_partial fuel s o s' :
  run_result o fuel s s' ->
  wf_cons (svars s') (scons s') -> wf_vars (svars s') ->
  act_inv s' ->
  forall k, (k < length (scons s'))%nat -> uns_of s' k = false ->
    let sl := slackv (svars s') (place_of (final_positions s')) (con_of s' k) in
    ZERO_UPPERBOUND <= sl /\ (act_of s' k = true -> sl == 0).
Proof. exact (sat_on_return_full fuel s o s'). Qed.
Print Assumptions C01_sat_on_return_full_partial.

Theorem C01_wf_init vs cs : wf_cons vs cs -> book (init vs cs) /\ act_inv (init vs cs).
Proof. exact (init_book vs cs). Qed.
Print Assumptions C01_wf_init.

Theorem C01_merge_preserves s c :
  book s -> act_inv s -> (c < length (scons s))%nat ->
  blk_of s (cl (con_of s c)) <> blk_of s (cr (con_of s c)) ->
  book (fst (merge s c)) /\ act_inv (fst (merge s c)).
Proof. exact (merge_preserves s c). Qed.
Print Assumptions C01_merge_preserves.

Theorem C01_most_violated_preserves s :
  book s -> act_inv s -> book (snd (most_violated s)) /\ act_inv (snd (most_violated s)).
Proof. exact (most_violated_preserves s). Qed.
Print Assumptions C01_most_violated_preserves.

Theorem C01_add_constraint_preserves s k :
  book s -> act_inv s -> (cl k < length (svars s))%nat -> (cr k < length (svars s))%nat ->
  book (add_constraint s k) /\ act_inv (add_constraint s k).
Proof. exact (add_constraint_preserves s k). Qed.
Print Assumptions C01_add_constraint_preserves.

Theorem C01_set_desired_preserves s i d :
  book s -> act_inv s -> book (set_desired s i d) /\ act_inv (set_desired s i d).
Proof. exact (set_desired_preserves s i d). Qed.
Print Assumptions C01_set_desired_preserves.

Theorem C01_move_blocks_preserves s : book s -> act_inv s -> book (move_blocks s) /\ act_inv (move_blocks s).
Proof. exact (move_blocks_preserves s). Qed.
Print Assumptions C01_move_blocks_preserves.

Theorem C01_split_preserves_tightness s this c s' l r :
  act_inv s -> split s this c = Ok (s', l, r) ->
  forall c', act_of s' c' = true -> tight_off s' c'.
Proof. exact (split_preserves_tightness s this c s' l r). Qed.
Print Assumptions C01_split_preserves_tightness.

Theorem C01_split_act_inv_partial s this c s' l r :
  act_inv s -> split s this c = Ok (s', l, r) ->
  (forall c', act_of s' c' = true -> blk_of s' (cl (con_of s' c')) = blk_of s' (cr (con_of s' c'))) ->
  act_inv s'.
Proof. exact (split_act_inv_partial s this c s' l r). Qed.
Print Assumptions C01_split_act_inv_partial.

Theorem C01_no_final_throw_partial s : inactive_sat s -> final_scan s = Ok s.
Proof. exact (final_scan_no_throw_partial s). Qed.
Print Assumptions C01_no_final_throw_partial.

(* act_inv is decidable on a concrete state; the checks evaluate it on every state the model returns and (in C++) on
   every state of the real solver, which validates on each run the part whose preservation by split is not proved *)
Theorem C01_act_invb_spec s : act_invb s = true <-> act_inv s.
Proof. exact (act_invb_spec s). Qed.
Print Assumptions C01_act_invb_spec.

(* the contract for a returned state that passes the check: every unflagged constraint holds to -1e-10, active ones
   (in particular every merged equality) exactly *)
Theorem C01_contract_checked fuel s o s' :
  run_result o fuel s s' ->
  wf_cons (svars s') (scons s') -> wf_vars (svars s') ->
  act_invb s' = true ->
  forall k, (k < length (scons s'))%nat -> uns_of s' k = false ->
    let sl := slackv (svars s') (place_of (final_positions s')) (con_of s' k) in
    ZERO_UPPERBOUND <= sl /\ (act_of s' k = true -> sl == 0).
Proof. exact (contract_checked fuel s o s'). Qed.
Print Assumptions C01_contract_checked.
