(* C01 - VPSC: every constraint is satisfied on return or is reported unsatisfiable.
   Only statements closed by `exact`; proofs live in Vpsc/Feas.v (verified oracles) and Vpsc/VpscInv.v (model). *)
From Adapt Require Import Num.Qaux Vpsc.VpscSpec Vpsc.Feas Vpsc.VpscModel Vpsc.VpscInv.
Local Open Scope Q_scope.

Theorem C01_sat_or_flagged_sound vs cs xs flags tol :
  sat_or_flagged vs cs xs flags tol = true ->
  forall k c, nth_error cs k = Some c -> nth_error flags k = Some false ->
    within vs (place_of xs) tol c.
Proof. exact (sat_or_flagged_sound vs cs xs flags tol). Qed.
Print Assumptions C01_sat_or_flagged_sound.

Theorem C01_positive_cycle_infeasible vs cs w :
  detect (length vs) cs = PosCycle w -> forall x, ~ feasible vs cs x.
Proof. exact (detect_poscycle_sound vs cs w). Qed.
Print Assumptions C01_positive_cycle_infeasible.

Theorem C01_potentials_feasible vs cs d :
  wf_vars vs -> wf_cons vs cs ->
  detect (length vs) cs = Potentials d ->
  feasible vs cs (fun i => place_of d i / scl (vget vs i)).
Proof. exact (detect_potentials_sound vs cs d). Qed.
Print Assumptions C01_potentials_feasible.

(* ---------------- the executable IncSolver model (Vpsc/VpscModel.v, tied to /repo by correspondence) *)

(* on return of solve()/satisfy() every constraint that is neither active nor flagged holds to -1e-10 *)
Theorem C01_sat_on_return fuel s o s' :
  run_result o fuel s s' ->
  wf_cons (svars s') (scons s') ->
  forall k, (k < length (scons s'))%nat -> act_of s' k = false -> uns_of s' k = false ->
    ZERO_UPPERBOUND <= slackv (svars s') (place_of (final_positions s')) (con_of s' k).
Proof. exact (sat_on_return fuel s o s'). Qed.
Print Assumptions C01_sat_on_return.

(* active constraints are tight under the invariant act_inv *)
Theorem C01_active_tight s c :
  act_inv s -> act_of s c = true ->
  ~ scl (var_of s (cl (con_of s c))) == 0 -> ~ scl (var_of s (cr (con_of s c))) == 0 ->
  slack_val s c == 0.
Proof. exact (active_tight s c). Qed.
Print Assumptions C01_active_tight.

(* partial: the full "every unflagged constraint holds, active ones and hence all merged equalities exactly" needs
   act_inv of the returned state, which is proved for every step except split (C01_split_act_inv_partial) *)
Theorem C01_sat_on_return_full_partial fuel s o s' :
  run_result o fuel s s' ->
  wf_cons (svars s') (scons s') -> wf_vars (svars s') ->
  act_inv s' ->
  forall k, (k < length (scons s'))%nat -> uns_of s' k = false ->
    let sl := slackv (svars s') (place_of (final_positions s')) (con_of s' k) in
    ZERO_UPPERBOUND <= sl /\ (act_of s' k = true -> sl == 0).
Proof. exact (sat_on_return_full fuel s o s'). Qed.
Print Assumptions C01_sat_on_return_full_partial.

Theorem C01_wf_init vs cs : wf_cons vs cs -> book (init vs cs) /\ act_inv (init vs cs).
Proof. exact (init_book vs cs). Qed.
Print Assumptions C01_wf_init.

Theorem C01_merge_preserves s c :
  book s -> act_inv s -> (c < length (scons s))%nat ->
  blk_of s (cl (con_of s c)) <> blk_of s (cr (con_of s c)) ->
  book (fst (merge s c)) /\ act_inv (fst (merge s c)).
Proof. exact (merge_preserves s c). Qed.
Print Assumptions C01_merge_preserves.

Theorem C01_most_violated_preserves s :
  book s -> act_inv s -> book (snd (most_violated s)) /\ act_inv (snd (most_violated s)).
Proof. exact (most_violated_preserves s). Qed.
Print Assumptions C01_most_violated_preserves.

Theorem C01_add_constraint_preserves s k :
  book s -> act_inv s -> (cl k < length (svars s))%nat -> (cr k < length (svars s))%nat ->
  book (add_constraint s k) /\ act_inv (add_constraint s k).
Proof. exact (add_constraint_preserves s k). Qed.
Print Assumptions C01_add_constraint_preserves.

Theorem C01_set_desired_preserves s i d :
  book s -> act_inv s -> book (set_desired s i d) /\ act_inv (set_desired s i d).
Proof. exact (set_desired_preserves s i d). Qed.
Print Assumptions C01_set_desired_preserves.

Theorem C01_move_blocks_preserves s : book s -> act_inv s -> book (move_blocks s) /\ act_inv (move_blocks s).
Proof. exact (move_blocks_preserves s). Qed.
Print Assumptions C01_move_blocks_preserves.

Theorem C01_split_preserves_tightness s this c s' l r :
  act_inv s -> split s this c = Ok (s', l, r) ->
  forall c', act_of s' c' = true -> tight_off s' c'.
Proof. exact (split_preserves_tightness s this c s' l r). Qed.
Print Assumptions C01_split_preserves_tightness.

Theorem C01_split_act_inv_partial s this c s' l r :
  act_inv s -> split s this c = Ok (s', l, r) ->
  (forall c', act_of s' c' = true -> blk_of s' (cl (con_of s' c')) = blk_of s' (cr (con_of s' c'))) ->
  act_inv s'.
Proof. exact (split_act_inv_partial s this c s' l r). Qed.
Print Assumptions C01_split_act_inv_partial.

Theorem C01_no_final_throw_partial s : inactive_sat s -> final_scan s = Ok s.
Proof. exact (final_scan_no_throw_partial s). Qed.
Print Assumptions C01_no_final_throw_partial.

(* act_inv is decidable on a concrete state; the checks evaluate it on every state the model returns and (in C++) on
   every state of the real solver, which validates on each run the part whose preservation by split is not proved *)
Theorem C01_act_invb_spec s : act_invb s = true <-> act_inv s.
Proof. exact (act_invb_spec s). Qed.
Print Assumptions C01_act_invb_spec.

(* the contract for a returned state that passes the check: every unflagged constraint holds to -1e-10, active ones
   (in particular every merged equality) exactly *)
Theorem C01_contract_checked fuel s o s' :
  run_result o fuel s s' ->
  wf_cons (svars s') (scons s') -> wf_vars (svars s') ->
  act_invb s' = true ->
  forall k, (k < length (scons s'))%nat -> uns_of s' k = false ->
    let sl := slackv (svars s') (place_of (final_positions s')) (con_of s' k) in
    ZERO_UPPERBOUND <= sl /\ (act_of s' k = true -> sl == 0).
Proof. exact (contract_checked fuel s o s'). Qed.
Print Assumptions C01_contract_checked.

(* ================= closed in the second round (Vpsc/VpscTree, VpscPopulate, VpscForest, VpscWalks, VpscTrichotomy, VpscReach) *)
From Adapt Require Import Vpsc.VpscFrame Vpsc.VpscTree Vpsc.VpscPopulate Vpsc.VpscForest Vpsc.VpscWalks Vpsc.VpscTrichotomy Vpsc.VpscReach.

(* forest invariant: the active constraints inside the block of a variable form a spanning tree of that block *)
Theorem C01_forest_init vs cs : wf_cons vs cs -> forest (init vs cs).
Proof. exact (init_forest vs cs). Qed.
Print Assumptions C01_forest_init.

Theorem C01_forest_merge s c :
  book s -> forest s -> (c < length (scons s))%nat ->
  blk_of s (cl (con_of s c)) <> blk_of s (cr (con_of s c)) ->
  forest (fst (merge s c)).
Proof. exact (merge_forest s c). Qed.
Print Assumptions C01_forest_merge.

(* Block::split: populateSplitBlock from both ends partitions the block into the two trees left by removing c;
   this is the "same block" half C01_split_act_inv_partial was missing *)
Theorem C01_split_preserves s c s' l r :
  book s -> act_inv s -> forest s -> act_of s c = true ->
  split s (blk_of s (cl (con_of s c))) c = Ok (s', l, r) ->
  book s' /\ act_inv s' /\ forest s'.
Proof. exact (split_preserves s c s' l r). Qed.
Print Assumptions C01_split_preserves.

(* findMinLMBetween returns a constraint whose removal separates the two ends (so the re-merge joins two blocks) *)
Theorem C01_split_constraint_separates s b lv rv m s' :
  book s -> act_inv s -> forest s ->
  (lv < length (svars s))%nat -> blk_of s lv = b ->
  find_min_lm_between s b lv rv = Ok (m, s') ->
  lm_only s s' /\ (forall c, m = Some c -> separates (con_of s) (Vof s b) (Eof s b) c lv rv).
Proof. exact (find_min_lm_between_spec s b lv rv m s'). Qed.
Print Assumptions C01_split_constraint_separates.

(* the full invariant (book, act_inv, forest, trichotomy) holds initially and after every op of every history *)
Theorem C01_inv_init vs cs : wf_cons vs cs -> inv (init vs cs).
Proof. exact (init_inv vs cs). Qed.
Print Assumptions C01_inv_init.

Theorem C01_inv_satisfy_step s b s' :
  inv s -> satisfy_step s = Ok (b, s') -> inv s' /\ (b = false -> inactive_sat s' /\ noeq s' (inactive s')).
Proof. exact (satisfy_step_inv s b s'). Qed.
Print Assumptions C01_inv_satisfy_step.

Theorem C01_inv_split_blocks s p : inv s -> split_blocks s = Ok p -> inv (fst p).
Proof. exact (split_blocks_inv s p). Qed.
Print Assumptions C01_inv_split_blocks.

Theorem C01_inv_step fuel s o s' : inv s -> op_ok s o -> step fuel s o = Ok s' -> inv s'.
Proof. exact (step_inv fuel s o s'). Qed.
Print Assumptions C01_inv_step.

Theorem C01_inv_reachable s : reachable s -> inv s.
Proof. exact (reachable_inv s). Qed.
Print Assumptions C01_inv_reachable.

(* whenever the satisfy loop exits (no OutOfFuel), the final scan of satisfy() finds nothing to throw *)
Theorem C01_no_final_throw fuel s p s2 :
  reachable s -> split_blocks s = Ok p -> satisfy_loop fuel (fst p) = Ok s2 ->
  final_scan (cleanup s2) = Ok (cleanup s2).
Proof. exact (no_final_throw_reach fuel s p s2). Qed.
Print Assumptions C01_no_final_throw.

(* every state returned by solve()/satisfy() in any op history from a fresh solver: every unflagged constraint holds
   to the code's tolerance -1e-10 (ZERO_UPPERBOUND), active ones exactly, and every unflagged equality exactly *)
Theorem C01_sat_on_return_full fuel s o s' :
  reachable s -> run_result o fuel s s' -> wf_vars (svars s') ->
  forall k, (k < length (scons s'))%nat -> uns_of s' k = false ->
    let sl := slackv (svars s') (place_of (final_positions s')) (con_of s' k) in
    ZERO_UPPERBOUND <= sl /\ (act_of s' k = true -> sl == 0) /\ (ceq (con_of s' k) = true -> sl == 0).
Proof. exact (sat_on_return_reach fuel s o s'). Qed.
Print Assumptions C01_sat_on_return_full.

From Adapt Require Import Vpsc.VpscInvB Vpsc.VpscStats Vpsc.VpscNoThrow Vpsc.VpscClosedExamples.

(* C01_no_final_throw, strongest form: from a reachable state satisfy() / solve() / any op never returns the
   `throw "Unsatisfied constraint"` result (the result is Ok or OutOfFuel; termination is not proved) *)
Theorem C01_satisfy_never_throws fuel s c : reachable s -> inc_satisfy fuel s = ThrowUnsat c -> False.
Proof. exact (inc_satisfy_never_throws_reach fuel s c). Qed.
Print Assumptions C01_satisfy_never_throws.

Theorem C01_step_never_throws fuel s o c : reachable s -> step fuel s o = ThrowUnsat c -> False.
Proof. exact (step_never_throws fuel s o c). Qed.
Print Assumptions C01_step_never_throws.

(* block statistics: in every state reachable from a fresh solver over variables with weights, scales > 0, every
   block ever created is non-empty, has scale > 0, A2 > 0, A2 = sum of wt*(scale/scl)^2 over its variables and
   posn = (AD - AB)/A2 *)
Theorem C01_stats_reachable s : reachable_wf s -> all_ok s.
Proof. exact (reachable_all_ok s). Qed.
Print Assumptions C01_stats_reachable.

(* ... so no division by zero is executed: the divisors A2 (addVariable, updateWeightedPosition) and the variables'
   scales (position, dfdv, the statistics) are > 0; over Q this is the "all positions finite" part of the property *)
Theorem C01_no_division_by_zero s : reachable_wf s ->
  (forall v, 0 < scl (var_of s v) /\ 0 < wt (var_of s v)) /\
  (forall b, (b < length (blocks s))%nat -> 0 < A2 (block_of s b) /\ 0 < bscale (block_of s b)) /\
  (forall b v, (b < length (blocks s))%nat -> 0 < A2 (block_of (add_variable s b v) b)) /\
  (forall b, (b < length (blocks s))%nat -> 0 < A2 (block_of (update_weighted_position s b) b)).
Proof. exact (no_division_by_zero s). Qed.
Print Assumptions C01_no_division_by_zero.

(* C01_sat_on_return_full for EVERY op history from a fresh solver (wf_vars, wf_cons, added constraints in range), no
   side hypothesis left: every returned Ok state has every unflagged constraint with slack >= -1e-10 (= the code's
   ZERO_UPPERBOUND, the loop-exit tolerance), every active constraint and every unflagged equality with slack == 0 *)
Theorem C01_sat_on_return_history fuel s o s' :
  reachable_wf s -> run_result o fuel s s' ->
  forall k, (k < length (scons s'))%nat -> uns_of s' k = false ->
    let sl := slackv (svars s') (place_of (final_positions s')) (con_of s' k) in
    ZERO_UPPERBOUND <= sl /\ (act_of s' k = true -> sl == 0) /\ (ceq (con_of s' k) = true -> sl == 0).
Proof. exact (sat_on_return_history fuel s o s'). Qed.
Print Assumptions C01_sat_on_return_history.

(* the boolean invariants evaluated by the extracted model on every visited state (evidence key model_invariants) are
   the proved ones: a state passing the evaluation satisfies trichotomy, act_inv and the block-statistics invariant *)
From Adapt Require Import Vpsc.VpscInvBSpec.
Theorem C01_trichotomyb_spec s :
  trichotomyb s = true <-> (trich s /\ length (cact s) = length (scons s)).
Proof. exact (trichotomyb_spec s). Qed.
Print Assumptions C01_trichotomyb_spec.

Theorem C01_all_invb_sound s : all_invb s = true -> trich s /\ act_inv s /\ all_ok s.
Proof. exact (all_invb_sound s). Qed.
Print Assumptions C01_all_invb_sound.

(* ---------------- histories that also change Variable::weight between solves (Vpsc/VpscModelW.v, VpscWeight.v):
   the op  SetWeight i w  (w > 0, the pin / lock idiom) preserves the invariant, so it holds in every state of every
   history over the five ops addConstraint / desired position / weight / solve / satisfy, the final scan never throws
   there, and every returned state satisfies every unflagged constraint.  (The block-statistics invariant all_ok is
   NOT claimed for weight histories: sums accumulated before a weight changed are stale for deleted blocks.) *)
From Adapt Require Import Vpsc.VpscReach Vpsc.VpscModelW Vpsc.VpscWeight.
Theorem C01_set_weight_preserves s i w :
  book s -> act_inv s -> book (set_weight s i w) /\ act_inv (set_weight s i w).
Proof. exact (set_weight_preserves s i w). Qed.
Print Assumptions C01_set_weight_preserves.

Theorem C01_weight_history_inv s : reachable_w s -> inv s.
Proof. exact (reachable_w_inv s). Qed.
Print Assumptions C01_weight_history_inv.

Theorem C01_no_final_throw_weight_history fuel s p s2 :
  reachable_w s -> split_blocks s = Ok p -> satisfy_loop fuel (fst p) = Ok s2 ->
  final_scan (cleanup s2) = Ok (cleanup s2).
Proof. exact (no_final_throw_w fuel s p s2). Qed.
Print Assumptions C01_no_final_throw_weight_history.

Theorem C01_sat_on_return_weight_history fuel s o s' :
  reachable_w s -> run_result o fuel s s' -> wf_vars (svars s') ->
  forall k, (k < length (scons s'))%nat -> uns_of s' k = false ->
    let sl := slackv (svars s') (place_of (final_positions s')) (con_of s' k) in
    ZERO_UPPERBOUND <= sl /\ (act_of s' k = true -> sl == 0) /\ (ceq (con_of s' k) = true -> sl == 0).
Proof. exact (sat_on_return_w fuel s o s'). Qed.
Print Assumptions C01_sat_on_return_weight_history.

(* ================= third round (Vpsc/VpscFlag.v): C01_flag_sound for inequality-only systems, all histories *)
From Adapt Require Import Vpsc.VpscFlag.

(* Block::isActiveDirectedPathBetween is sound and complete for directed paths of active constraints *)
Theorem C01_directed_path_test_sound s this fuel u v :
  is_active_directed_path_between fuel s this u v = Ok true -> exists p, dpath s u v p.
Proof. exact (adpb_sound s this fuel u v). Qed.
Print Assumptions C01_directed_path_test_sound.

Theorem C01_directed_path_test_complete s this :
  act_inv s -> forall fuel u v, is_active_directed_path_between fuel s this u v = Ok false ->
  blk_of s u = this -> forall p, ~ dpath s u v p.
Proof. exact (adpb_complete s this). Qed.
Print Assumptions C01_directed_path_test_complete.

(* site 1 (solve_VPSC.cpp:266): a violated constraint v whose ends are joined by a directed path of active (tight)
   constraints from its right to its left variable closes a walk of positive total gap (any scales <> 0): infeasible *)
Theorem C01_flag_site_directed_path_sound s v p :
  act_inv s -> (v < length (scons s))%nat ->
  blk_of s (cl (con_of s v)) = blk_of s (cr (con_of s v)) ->
  ~ scl (var_of s (cl (con_of s v))) == 0 -> ~ scl (var_of s (cr (con_of s v))) == 0 ->
  slack_val s v < 0 ->
  dpath s (cr (con_of s v)) (cl (con_of s v)) p ->
  0 < gap (con_of s v) + gsum s p /\ infeasible s.
Proof. exact (directed_path_flag_infeasible s v p). Qed.
Print Assumptions C01_flag_site_directed_path_sound.

(* ... and that closed walk is a certificate the verified oracle of Feas.v accepts *)
Theorem C01_flag_site_closed_walk s v p :
  (v < length (scons s))%nat -> dpath s (cr (con_of s v)) (cl (con_of s v)) p ->
  0 < gap (con_of s v) + gsum s p ->
  closed_walk_ok (edges_of (scons s)) (walk_of s (v :: p)) = true.
Proof. exact (directed_path_flag_closed_walk s v p). Qed.
Print Assumptions C01_flag_site_closed_walk.

(* site 2 (splitConstraint == nullptr / UnsatisfiableException from findMinLMBetween) is UNREACHABLE when no constraint
   is an equality: under the invariant, if the directed-path test said "no" then findMinLMBetween finds a constraint *)
Theorem C01_flag_site_no_split_unreachable s b lv rv s' :
  book s -> act_inv s -> forest s -> noeq_sys s ->
  (lv < length (svars s))%nat -> (rv < length (svars s))%nat -> blk_of s lv = b -> blk_of s rv = b ->
  is_active_directed_path_between (walk_fuel s) s b rv lv = Ok false ->
  find_min_lm_between s b lv rv = Ok (None, s') -> False.
Proof. exact (find_min_lm_between_some s b lv rv s'). Qed.
Print Assumptions C01_flag_site_no_split_unreachable.

(* one iteration of the satisfy loop either flags nothing, or flags the constraint it took from the work-list together
   with an explicit positive closed walk through it *)
Theorem C01_flag_sound_step s b s' :
  inv s -> wf_vars (svars s) -> noeq_sys s -> satisfy_step s = Ok (b, s') -> flag_step s s'.
Proof. exact (satisfy_step_flag s b s'). Qed.
Print Assumptions C01_flag_sound_step.

(* C01_flag_sound: in every state of every history over an inequality-only system (ops: add an inequality, move a
   desired position, solve, satisfy) a constraint flagged unsatisfiable implies that NO placement satisfies all
   constraints *)
Theorem C01_flag_sound s : reachable_ineq s -> forall c, uns_of s c = true -> infeasible s.
Proof. exact (flag_sound_reachable s). Qed.
Print Assumptions C01_flag_sound.

(* on return of solve()/satisfy() in such a history: either nothing is flagged and the returned positions satisfy
   every constraint to 1e-10, or something is flagged and the system is infeasible *)
Theorem C01_flagged_iff_infeasible_on_return fuel s o s' :
  reachable_ineq s -> run_result o fuel s s' ->
  ((forall k, (k < length (scons s'))%nat -> uns_of s' k = false) /\
   (forall k, (k < length (scons s'))%nat ->
      ZERO_UPPERBOUND <= slackv (svars s') (place_of (final_positions s')) (con_of s' k)))
  \/
  ((exists k, (k < length (scons s'))%nat /\ uns_of s' k = true) /\ infeasible s').
Proof. exact (flagged_iff_infeasible_on_return fuel s o s'). Qed.
Print Assumptions C01_flagged_iff_infeasible_on_return.

(* ================= static solver round (Vpsc/StaticModel.v: vpsc::Solver with its pairing heaps modelled shape-exactly,
   time stamps, DFS total order; Vpsc/StaticFrame.v, StaticHeap.v, StaticInv.v, StaticExamples.v).  The model is run
   against the compiled vpsc::Solver on every static instance of checks/c01.py / c02.py (exact comparison). *)
From Adapt Require Import Vpsc.StaticModel Vpsc.StaticFrame Vpsc.StaticInv Vpsc.StaticInvB Vpsc.StaticExamples.

(* Solver::satisfy on ANY constraint multigraph (DAG or not): if it returns, the invariants book / act_inv hold, every
   constraint has slack >= -1e-10 and every ACTIVE constraint has slack exactly 0.  (The heap invariant heap_ok_in -
   every element of a block's in-heap is a constraint into that block - is what makes mergeLeft's merges legal.) *)
Theorem C01_static_satisfy_sat vs cs s' :
  wf_vars vs -> wf_cons vs cs ->
  static_satisfy (static_init vs cs) = Ok s' ->
  book (base s') /\ act_inv (base s') /\
  forall c, (c < length cs)%nat ->
    ZERO_UPPERBOUND <= slack_val (base s') c /\ (act_of (base s') c = true -> slack_val (base s') c == 0).
Proof. exact (static_satisfy_sat vs cs s'). Qed.
Print Assumptions C01_static_satisfy_sat.

(* the same in declarative terms, on the positions Solver::satisfy / Solver::solve report, for the INPUT problem *)
Theorem C01_static_satisfy_sat_declarative vs cs s' :
  wf_cons vs cs -> static_satisfy (static_init vs cs) = Ok s' ->
  length (static_positions s') = length vs /\
  forall k, In k cs -> ZERO_UPPERBOUND <= slackv vs (place_of (static_positions s')) k.
Proof. exact (static_satisfy_sat_tol vs cs s'). Qed.
Print Assumptions C01_static_satisfy_sat_declarative.

Theorem C01_static_solve_sat_declarative vs cs s' :
  wf_cons vs cs -> static_solve (static_init vs cs) = Ok s' ->
  length (static_positions s') = length vs /\
  forall k, In k cs -> ZERO_UPPERBOUND <= slackv vs (place_of (static_positions s')) k.
Proof. exact (static_solve_sat_tol vs cs s'). Qed.
Print Assumptions C01_static_solve_sat_declarative.

(* every state of mergeLeft keeps the invariant (book, act_inv, heap_ok_in) *)
Theorem C01_static_merge_left_inv s r s' : SI s -> inhabited (base s) r -> merge_left s r = Ok s' -> SI s'.
Proof. exact (merge_left_inv s r s'). Qed.
Print Assumptions C01_static_merge_left_inv.

(* static_no_throw_on_dag: PARTIAL.  Proved: once the merge pass has left every slack >= 0 the closing scan does not
   throw.  Not proved: that the merge pass achieves this on every DAG (needs the order argument about the pairing heap
   with stale keys and the leftward monotonicity of processed blocks; both are evaluated as booleans on every visited
   state of every DAG instance of every run - Vpsc/StaticInvB.v - with no counterexample). *)
Theorem C01_static_no_throw_on_dag_partial s s1 :
  merge_pass s = Ok s1 ->
  (forall c, (c < length (scons (base s1)))%nat -> 0 <= slack_val (base s1) c) ->
  exists s', static_satisfy s = Ok s' /\ base s' = cleanup (base s1).
Proof. exact (static_no_throw_on_dag_partial s s1). Qed.
Print Assumptions C01_static_no_throw_on_dag_partial.

(* ================= static_no_throw_on_dag, PROVED (Vpsc/StaticGeom.v, StaticHeapOrd.v, StaticDag.v).
   Hypothesis `dag_orderb`: the DFS order of Blocks::totalOrder lists every variable exactly once and every constraint
   goes forward in it (StaticInvB.is_dag - evaluated on every DAG instance of checks/c01.py - plus "no variable
   twice"; both are decided by evaluating the model's total_order, nothing about the solver proper is assumed).
   Conclusion: Solver::satisfy RETURNS (no UnsatisfiedConstraint, and the model's fuel - also the null-heap cases it
   stands for - suffices) and every constraint has slack >= 0 EXACTLY in the returned state.
   The proof is the classic VPSC argument made precise for this implementation: (1) heap order under lazily stale
   keys (StaticDag.Rdom / hord: a node whose key is current dominates the snapshot keys of its descendants; kept by
   compareAndLink, deleteMin, merge, the out-of-date re-insertion loop and by block moves), so the root findMinInConstraint
   returns is a most violated in-constraint (C01_static_heap_root_most_violated); (2) geometry of one merge in scaled
   coordinates (C01_static_merge_shift: the right side moves right by rr >= 0, the left side left by -rl >= 0,
   rr - rl = violation, everything else stays: the merged block sits between the two optima); (3) the invariant "the
   violation of every in-constraint of the current block is at most what every processed variable of that block has
   moved left since mergeLeft started" (StaticDag.geo g_3), which is what "most violated first" buys. *)
From Adapt Require Import Vpsc.StaticGeom Vpsc.StaticHeapOrd Vpsc.StaticDag.

Theorem C01_static_no_throw_on_dag vs cs :
  wf_vars vs -> wf_cons vs cs -> dag_orderb (init vs cs) = true ->
  exists s', static_satisfy (static_init vs cs) = Ok s' /\
             forall c, (c < length cs)%nat -> 0 <= slack_val (base s') c.
Proof. exact (static_no_throw_on_dag vs cs). Qed.
Print Assumptions C01_static_no_throw_on_dag.

(* the same without the fuel argument (kept: it is the statement that does not depend on the fuel bounds) *)
Theorem C01_static_no_throw_on_dag_modulo_fuel vs cs :
  wf_vars vs -> wf_cons vs cs -> dag_orderb (init vs cs) = true ->
  static_satisfy (static_init vs cs) <> OutOfFuel ->
  exists s', static_satisfy (static_init vs cs) = Ok s' /\
             forall c, (c < length cs)%nat -> 0 <= slack_val (base s') c.
Proof. exact (static_no_throw_on_dag_modulo_fuel vs cs). Qed.
Print Assumptions C01_static_no_throw_on_dag_modulo_fuel.

(* what the boolean hypothesis says: total_order returns a repetition-free order that lists every right end and in
   which every constraint's left end comes strictly before its right end *)
Theorem C01_static_dag_order_spec vs cs :
  wf_cons vs cs -> dag_orderb (init vs cs) = true ->
  exists order, total_order (init vs cs) = Ok order /\ topo_order cs order.
Proof. exact (dag_orderb_topo vs cs). Qed.
Print Assumptions C01_static_dag_order_spec.

(* bit "all_satb" of Vpsc/StaticInvB.v for every run: after the merge pass every constraint holds exactly *)
Theorem C01_static_merge_pass_all_sat vs cs order s1 :
  wf_vars vs -> wf_cons vs cs ->
  total_order (init vs cs) = Ok order -> topo_order cs order ->
  merge_pass (static_init vs cs) = Ok s1 ->
  forall c, (c < length (scons (base s1)))%nat -> 0 <= slack_val (base s1) c.
Proof. exact (merge_pass_all_sat vs cs order s1). Qed.
Print Assumptions C01_static_merge_pass_all_sat.

(* bit 16 (root_minb) for every state of mergeLeft's loop: the root findMinInConstraint delivers is a most violated
   in-constraint of the current block, although the keys in the pairing heap are refreshed lazily *)
Theorem C01_static_heap_root_most_violated done v Yb cs n s r c0 :
  MLI done v Yb cs n s r -> root_ok s r (Some c0) ->
  forall c, (c < length cs)%nat -> blk_of (base s) (cr (Kc cs c)) = r -> blk_of (base s) (cl (Kc cs c)) <> r ->
    slack_val (base s) c0 <= slack_val (base s) c.
Proof. exact (MLI_root_min done v Yb cs n s r c0). Qed.
Print Assumptions C01_static_heap_root_most_violated.

(* one Block::merge across a violated constraint, in scaled coordinates Yof = scale * position *)
Theorem C01_static_merge_shift b c (sw : bool) :
  book b -> wf_vars (svars b) -> all_blk_ok b -> (c < length (scons b))%nat ->
  let r := blk_of b (cr (con_of b c)) in
  let l := blk_of b (cl (con_of b c)) in
  l <> r -> slack_val b c < 0 ->
  let b' := merge_into b (if sw then l else r) (if sw then r else l) c (if sw then - mdist b c else mdist b c) in
  exists rr rl, 0 <= rr /\ rl <= 0 /\ rr - rl == - slack_val b c /\
    (forall u, (u < length (svars b))%nat ->
       (blk_of b u = r -> Yof b' u == Yof b u + rr) /\
       (blk_of b u = l -> Yof b' u == Yof b u + rl) /\
       (blk_of b u <> r -> blk_of b u <> l -> Yof b' u == Yof b u)) /\
    all_blk_ok b'.
Proof. exact (merge_shift b c sw). Qed.
Print Assumptions C01_static_merge_shift.

(* ---- the DFS hypothesis discharged for RANKED constraint graphs (Vpsc/StaticDfs.v): if every constraint goes from a
   lower to a higher rank and ranks are bounded by the number of variables, Blocks::totalOrder / dfsVisit returns -
   within its recursion fuel - an order that lists every variable exactly once with every constraint going forward.
   Every finite acyclic graph has such a rank; the constraint sets of removeoverlaps come with one (position in the
   strict total order CmpNodePos, Rect/Scanline.gen_acyclic + PipelineStatic.rank_lt). *)
From Adapt Require Import Vpsc.StaticDfs.

Theorem C01_static_total_order_topo s (rk : nat -> nat) :
  wf_cons (svars s) (scons s) ->
  (forall c, (c < length (scons s))%nat -> (rk (cl (con_of s c)) < rk (cr (con_of s c)))%nat) ->
  (forall v, (rk v <= length (svars s))%nat) ->
  exists order, total_order s = Ok order /\ topo_order (scons s) order.
Proof. exact (total_order_topo s rk). Qed.
Print Assumptions C01_static_total_order_topo.

(* static_no_throw_on_dag with NO hypothesis about the DFS: on every ranked DAG Solver::satisfy returns (no
   UnsatisfiedConstraint, no fuel exhaustion, no null heap) and every constraint has slack >= 0 exactly *)
Theorem C01_static_no_throw_on_ranked_dag vs cs (rk : nat -> nat) :
  wf_vars vs -> wf_cons vs cs ->
  (forall k, In k cs -> (rk (cl k) < rk (cr k))%nat) -> (forall v, (rk v <= length vs)%nat) ->
  exists s', static_satisfy (static_init vs cs) = Ok s' /\
             forall c, (c < length cs)%nat -> 0 <= slack_val (base s') c.
Proof. exact (static_no_throw_on_ranked_dag vs cs rk). Qed.
Print Assumptions C01_static_no_throw_on_ranked_dag.

(* ---- Solver::refine / Solver::solve of the static solver (Vpsc/StaticRefine.v).  `static_refine_returns_on_dag` is NOT
   closed; what is proved:
   (1) refine's closing scan cannot throw from a state with every slack >= 0, and exhausting maxtries = 100 is a normal
       return: solve() on a DAG returns Ok with every slack >= 0 EXACTLY, given only that every pass of refine's while
       loop on the trace returns with every slack >= 0 (`passes_ok`; satisfy itself is unconditional);
   (2) the geometry of Blocks::mergeRight: the invariant I2 (constraints with both / neither end in the current block hold;
       its in-constraints hold; slack(in) + slack(out) >= 0 for every in/out pair) is kept by a merge across a most
       violated out-constraint and gives slack >= 0 everywhere at loop exit;
   (3) mergeRight as a whole returns with every slack >= 0, given that findMinOutConstraint's root is a most violated
       out-constraint at every tested state (`mr_roots_ok` = bit 32 of Vpsc/StaticRefB.v, evaluated on every DAG run).
   Missing (hence _partial): out-heap order (discharges mr_roots_ok), the mergeLeft half of Blocks::split (pair
   invariant J under a merge with the not-yet-optimal right half), Block::split / findMinLM forest facts.
   FINDING for the proof plan (not a defect): the naive invariants "mergeLeft(l) leaves every constraint satisfied" and
   "nothing moves right in mergeLeft / left in mergeRight" are FALSE on reachable DAG states (StaticRefB bits 4, 8, 256);
   I2 / J (bits 1024, 2048) hold on every visited state. *)
From Adapt Require Import Vpsc.StaticRefine Vpsc.StaticRefineEx.

Theorem C01_static_refine_scan_cannot_throw s :
  all_sat0 (base s) -> sfinal_scan s = Ok s.
Proof. exact (sfinal_scan_all_sat s). Qed.
Print Assumptions C01_static_refine_scan_cannot_throw.

Theorem C01_static_refine_returns_partial s :
  all_sat0 (base s) -> passes_ok MAXTRIES s ->
  exists s', static_refine s = Ok s' /\ all_sat0 (base s').
Proof. exact (static_refine_returns_given_passes s). Qed.
Print Assumptions C01_static_refine_returns_partial.

Theorem C01_static_solve_no_throw_on_dag_partial vs cs :
  wf_vars vs -> wf_cons vs cs -> dag_orderb (init vs cs) = true ->
  (forall s1, static_satisfy (static_init vs cs) = Ok s1 -> passes_ok MAXTRIES s1) ->
  exists s', static_solve (static_init vs cs) = Ok s' /\
             forall c, (c < length cs)%nat -> 0 <= slack_val (base s') c.
Proof. exact (static_solve_returns_given_passes vs cs). Qed.
Print Assumptions C01_static_solve_no_throw_on_dag_partial.

(* non-vacuity: a DAG on which refine really splits; every hypothesis holds *)
Example C01_static_solve_no_throw_on_dag_partial_example :
  wf_vars rx_vs /\ wf_cons rx_vs rx_cs /\ dag_orderb (init rx_vs rx_cs) = true /\
  (forall s1, static_satisfy (static_init rx_vs rx_cs) = Ok s1 -> passes_ok MAXTRIES s1) /\
  (exists s1 s2, static_satisfy (static_init rx_vs rx_cs) = Ok s1 /\ refine_pass s1 = Ok (s2, true)).
Proof. exact static_solve_returns_given_passes_example. Qed.

Theorem C01_static_merge_right_step_geometry b N c0 (sw : bool) d :
  book b -> act_inv b -> wf_vars (svars b) -> all_blk_ok b -> geo2 b N ->
  (c0 < length (scons b))%nat ->
  blk_of b (cl (con_of b c0)) = N -> blk_of b (cr (con_of b c0)) <> N -> slack_val b c0 < 0 ->
  (forall o, (o < length (scons b))%nat -> blk_of b (cl (con_of b o)) = N -> blk_of b (cr (con_of b o)) <> N ->
     slack_val b c0 <= slack_val b o \/ 0 <= slack_val b o) ->
  let Z := blk_of b (cr (con_of b c0)) in
  d == (if sw then - mdist b c0 else mdist b c0) ->
  let b' := merge_into b (if sw then N else Z) (if sw then Z else N) c0 d in
  geo2 b' (if sw then N else Z) /\ all_blk_ok b' /\ book b' /\ act_inv b' /\ wf_vars (svars b') /\
  scons b' = scons b /\ svars b' = svars b.
Proof. exact (geo2_step b N c0 sw d). Qed.
Print Assumptions C01_static_merge_right_step_geometry.

Theorem C01_static_merge_right_entry b b' N rho :
  book b -> wf_vars (svars b) -> all_sat0 b ->
  scons b' = scons b -> svars b' = svars b ->
  (forall u, (u < length (svars b))%nat -> blk_of b' u = blk_of b u) ->
  0 <= rho ->
  (forall u, (u < length (svars b))%nat -> blk_of b u = N -> Yof b' u == Yof b u + rho) ->
  (forall u, (u < length (svars b))%nat -> blk_of b u <> N -> Yof b' u == Yof b u) ->
  geo2 b' N.
Proof. exact (geo2_entry_move b b' N rho). Qed.
Print Assumptions C01_static_merge_right_entry.

Theorem C01_static_merge_right_all_sat_partial s l s' :
  MRI (base s) l ->
  (forall s1 c, find_min_out (set_up_heap false s l) l = Ok (s1, c) -> mr_roots_ok (loop_fuel s) s1 l c) ->
  merge_right s l = Ok s' ->
  all_sat0 (base s') /\ book (base s') /\ act_inv (base s') /\ all_blk_ok (base s') /\
  scons (base s') = scons (base s) /\ svars (base s') = svars (base s).
Proof. exact (merge_right_all_sat s l s'). Qed.
Print Assumptions C01_static_merge_right_all_sat_partial.

(* non-vacuity: a violated out-constraint, one merge; every hypothesis holds and mergeRight returns *)
Example C01_static_merge_right_all_sat_partial_example :
  MRI (base (static_init mx_vs mx_cs)) 0 /\
  (forall s1 c, find_min_out (set_up_heap false (static_init mx_vs mx_cs) 0) 0 = Ok (s1, c) ->
                mr_roots_ok (loop_fuel (static_init mx_vs mx_cs)) s1 0 c) /\
  (exists s', merge_right (static_init mx_vs mx_cs) 0 = Ok s') /\
  slack_val (base (static_init mx_vs mx_cs)) 0 < 0.
Proof. exact merge_right_all_sat_example. Qed.

(* ---- (d-static4) the out-heap order of Block::findMinOutConstraint (Vpsc/StaticOutHeap.v): `mr_roots_ok` DISCHARGED.
   mergeRight rebuilds the out-heap of every block it touches, so every element is stamped with the current counter and
   its CompareConstraints key is -DBL_MAX exactly when it is internal; internal elements are skipped, all other keys of
   one heap shift by the same amount in a merge.  Hence the root delivered at every tested state is a most violated
   out-constraint, and Blocks::mergeRight returns with every slack >= 0 from any state satisfying the loop invariant I2
   (MRI) and the time-stamp / vector-length well-formedness of the solver state - no hypothesis about heap roots. *)
From Adapt Require Import Vpsc.StaticOutHeap Vpsc.StaticOutHeapEx.

Theorem C01_static_out_heap_root_most_violated s l c :
  MRH s l c -> out_root_ok s l c.
Proof. exact (MRH_root s l c). Qed.
Print Assumptions C01_static_out_heap_root_most_violated.

Theorem C01_static_merge_right_all_sat s l s' :
  MRI (base s) l -> inhabited (base s) l -> T2 s -> length (ctime s) = length (scons (base s)) ->
  (length (blocks (base s)) <= length (bout s))%nat ->
  merge_right s l = Ok s' ->
  all_sat0 (base s') /\ book (base s') /\ act_inv (base s') /\ all_blk_ok (base s') /\
  scons (base s') = scons (base s) /\ svars (base s') = svars (base s).
Proof. exact (merge_right_all_sat_closed s l s'). Qed.
Print Assumptions C01_static_merge_right_all_sat.

(* non-vacuity: a violated out-constraint, one merge; every hypothesis holds and mergeRight returns *)
Example C01_static_merge_right_all_sat_example :
  let s := static_init mx_vs mx_cs in
  MRI (base s) 0 /\ inhabited (base s) 0 /\ T2 s /\ length (ctime s) = length (scons (base s)) /\
  (length (blocks (base s)) <= length (bout s))%nat /\
  (exists s', merge_right s 0 = Ok s') /\ slack_val (base s) 0 < 0.
Proof. exact merge_right_all_sat_closed_example. Qed.

(* ---- (d-static4) the mergeLeft half of Blocks::split (Vpsc/StaticGeom2.v, Vpsc/StaticSplitML.v).
   Block::merge for blocks whose statistics are valid but whose posn is NOT the optimum (the right half r after
   `r->posn = b->posn`): rigid shifts rr - rl = violation, merged block at its optimum again, signs only when both sides
   were at their optimum.  mergeLeft(l)'s loop inside split keeps a TWO-MODE invariant (MLS): while r is not part of the
   current block M every variable of M is left of its position at split entry by at least the violation of every
   in-constraint of M and nothing else moved (geoA; at exit every constraint holds); once r has been merged only the pair
   invariant J survives (geoJ; at exit J + in-constraints = I2, what mergeRight starts from).  Proved relative to
   `ml_roots_ok` (the in-heap root is a most violated in-constraint at every tested state: bit 4096 of Vpsc/StaticRefB.v,
   evaluated with bits 8192/16384/32768 on every DAG run) - hence _partial.  Still missing for
   `static_refine_returns_on_dag`: the in-heap order in the split context (in the single mergeLeft after setup_all a key
   is stale iff its left end is in the current block, so the relation "among current keys heap-ordered" suffices),
   Block::split / findMinLM facts incl. the sign lemma (l's optimum is left of, r's right of, the old position), and the
   assembly through static_split / refine_pass with totality. *)
From Adapt Require Import Vpsc.StaticGeom2 Vpsc.StaticSplitML Vpsc.StaticSplitMLEx.

Theorem C01_static_merge_nonoptimal_shift b c (sw : bool) d :
  book b -> wf_vars (svars b) -> (c < length (scons b))%nat ->
  let r := blk_of b (cr (con_of b c)) in
  let l := blk_of b (cl (con_of b c)) in
  l <> r -> blk_st b l -> blk_st b r ->
  d == (if sw then - mdist' b c else mdist' b c) ->
  let t := if sw then l else r in
  let b' := merge_into b t (if sw then r else l) c d in
  exists rr rl, rr - rl == - slack_val b c /\
    (forall u, (u < length (svars b))%nat ->
       (blk_of b u = r -> Yof b' u == Yof b u + rr) /\
       (blk_of b u = l -> Yof b' u == Yof b u + rl) /\
       (blk_of b u <> r -> blk_of b u <> l -> Yof b' u == Yof b u)) /\
    blk_ok b' t /\
    (forall u, (u < length (svars b))%nat -> blk_of b u <> r -> blk_of b u <> l ->
       (blk_st b (blk_of b u) -> blk_st b' (blk_of b u)) /\ (blk_ok b (blk_of b u) -> blk_ok b' (blk_of b u))) /\
    (blk_ok b l -> blk_ok b r -> slack_val b c < 0 -> 0 <= rr /\ rl <= 0).
Proof. exact (merge_shift_st b c sw d). Qed.
Print Assumptions C01_static_merge_nonoptimal_shift.

Theorem C01_static_split_merge_left_step Yb rv b N c0 (sw : bool) :
  MLS Yb rv b N -> (c0 < length (scons b))%nat ->
  blk_of b (cr (con_of b c0)) = N -> blk_of b (cl (con_of b c0)) <> N -> slack_val b c0 < 0 ->
  (forall i, (i < length (scons b))%nat -> blk_of b (cr (con_of b i)) = N -> blk_of b (cl (con_of b i)) <> N ->
     slack_val b c0 <= slack_val b i \/ 0 <= slack_val b i) ->
  let Z := blk_of b (cl (con_of b c0)) in
  let t := if sw then Z else N in
  let b' := merge_into b t (if sw then N else Z) c0 (if sw then - mdist b c0 else mdist b c0) in
  MLS Yb rv b' t /\ scons b' = scons b /\ svars b' = svars b.
Proof. exact (MLS_step Yb rv b N c0 sw). Qed.
Print Assumptions C01_static_split_merge_left_step.

Theorem C01_static_split_merge_left_entry Yb rv b l dl :
  book b -> act_inv b -> wf_vars (svars b) -> all_blk_st b -> ok_except b (blk_of b rv) -> blk_of b rv <> l ->
  ysat Yb b -> (rv < length (svars b))%nat -> 0 <= dl ->
  (forall u, (u < length (svars b))%nat -> blk_of b u = l -> Yof b u == Yb u - dl) ->
  (forall u, (u < length (svars b))%nat -> blk_of b u <> l -> Yof b u == Yb u) ->
  MLS Yb rv b l.
Proof. exact (MLS_entry Yb rv b l dl). Qed.
Print Assumptions C01_static_split_merge_left_entry.

Theorem C01_static_split_merge_left_partial Yb rv s l s' :
  MLS Yb rv (base s) l ->
  (forall s1 c,
     find_min_in (set_up_heap true (set_btime (set_ctr s (S (ctr s))) (upd_nth (btime s) l (S (ctr s)))) l) l = Ok (s1, c) ->
     ml_roots_ok (loop_fuel s) s1 l c) ->
  merge_left s l = Ok s' ->
  exists M, MLS Yb rv (base s') M /\
    (forall i, (i < length (scons (base s')))%nat -> blk_of (base s') (cr (con_of (base s') i)) = M ->
               blk_of (base s') (cl (con_of (base s') i)) <> M -> 0 <= slack_val (base s') i) /\
    scons (base s') = scons (base s) /\ svars (base s') = svars (base s).
Proof. exact (merge_left_split Yb rv s l s'). Qed.
Print Assumptions C01_static_split_merge_left_partial.

(* what the exit of mergeLeft(l) gives the second half of Blocks::split: every constraint holds if r was not merged,
   the loop invariant of mergeRight (MRI = I2 + block statistics) for the merged block otherwise *)
Theorem C01_static_split_merge_left_exit_not_merged Yb rv b M :
  MLS Yb rv b M -> blk_of b rv <> M ->
  (forall i, (i < length (scons b))%nat -> blk_of b (cr (con_of b i)) = M -> blk_of b (cl (con_of b i)) <> M -> 0 <= slack_val b i) ->
  all_sat0 b /\ ok_except b (blk_of b rv).
Proof. exact (ml_loop_split_not_merged Yb rv b M). Qed.
Print Assumptions C01_static_split_merge_left_exit_not_merged.

Theorem C01_static_split_merge_left_exit_merged Yb rv b M :
  MLS Yb rv b M -> blk_of b rv = M ->
  (forall i, (i < length (scons b))%nat -> blk_of b (cr (con_of b i)) = M -> blk_of b (cl (con_of b i)) <> M -> 0 <= slack_val b i) ->
  MRI b M.
Proof. exact (ml_loop_split_merged Yb rv b M). Qed.
Print Assumptions C01_static_split_merge_left_exit_merged.

(* non-vacuity: a mode-A state on which mergeLeft really merges; every hypothesis holds *)
Example C01_static_split_merge_left_partial_example :
  MLS sx_Yb 2 (base sx_s) 1 /\
  (forall s1 c,
     find_min_in (set_up_heap true (set_btime (set_ctr sx_s (S (ctr sx_s))) (upd_nth (btime sx_s) 1%nat (S (ctr sx_s)))) 1) 1 = Ok (s1, c) ->
     ml_roots_ok (loop_fuel sx_s) s1 1 c) /\
  (exists s', merge_left sx_s 1 = Ok s' /\ blk_of (base s') 0 = blk_of (base s') 1) /\
  slack_val (base sx_s) 0 < 0.
Proof. exact merge_left_split_example. Qed.

(* ---------------- the in-heap order inside Blocks::split (Vpsc/StaticInHeap.v): `ml_roots_ok` discharged.
   HW s M = the time-stamp / heap invariant of mergeLeft's loop in the split context (bit 65536 of Vpsc/StaticRefB.v,
   evaluated on every visited state): T1/T2 (stamps <= counter), w_TS (a constraint is stale by time stamp only if its left
   end is in the current block M), lengths, and every in-heap of an inhabited block is duplicate-free, ordered on its
   CURRENT keys (Rcur), sound and complete.  `stamp s l` = the state after mergeLeft's "l->timeStamp = ++blockTimeCtr". *)
From Adapt Require Import Vpsc.StaticInHeap Vpsc.StaticInHeapEx.

(* one iteration of mergeLeft's loop keeps the heap invariant, whatever the geometry *)
Theorem C01_static_split_in_heap_step s M c0 s' M' c' :
  MLH s M (Some c0) -> ml_body s M c0 = Ok (s', M', c') -> MLH s' M' c'.
Proof. exact (ml_body_MLH s M c0 s' M' c'). Qed.
Print Assumptions C01_static_split_in_heap_step.

(* the root findMinInConstraint delivers is a most violated in-constraint of the current block (bit 4096, proved) *)
Theorem C01_static_split_in_heap_root_most_violated s M c : MLH s M c -> in_root_ok s M c.
Proof. exact (MLH_root s M c). Qed.
Print Assumptions C01_static_split_in_heap_root_most_violated.

Theorem C01_static_split_in_heap_roots fuel s r c : MLH s r c -> ml_roots_ok fuel s r c.
Proof. exact (MLH_roots fuel s r c). Qed.
Print Assumptions C01_static_split_in_heap_roots.

(* the mergeLeft half of Blocks::split without the heap-root hypothesis *)
Theorem C01_static_split_merge_left Yb rv s l s' :
  MLS Yb rv (base s) l -> HW (stamp s l) l -> inhabited (base s) l ->
  merge_left s l = Ok s' ->
  exists M, MLS Yb rv (base s') M /\
    (forall i, (i < length (scons (base s')))%nat -> blk_of (base s') (cr (con_of (base s') i)) = M ->
               blk_of (base s') (cl (con_of (base s') i)) <> M -> 0 <= slack_val (base s') i) /\
    scons (base s') = scons (base s) /\ svars (base s') = svars (base s).
Proof. exact (merge_left_split_closed Yb rv s l s'). Qed.
Print Assumptions C01_static_split_merge_left.

(* and the same run hands the heap / time-stamp invariant (T2, lengths) to the mergeRight that follows *)
Theorem C01_static_split_merge_left_keeps_heap_invariant s l s' :
  HW (stamp s l) l -> inhabited (base s) l -> merge_left s l = Ok s' -> exists M c, MLH s' M c.
Proof. exact (merge_left_split_HW s l s'). Qed.
Print Assumptions C01_static_split_merge_left_keeps_heap_invariant.

Example C01_static_split_merge_left_example :
  MLS sx_Yb 2 (base sx_s) 1 /\ HW (stamp sx_s 1) 1 /\ inhabited (base sx_s) 1 /\
  (exists s', merge_left sx_s 1 = Ok s' /\ blk_of (base s') 0 = blk_of (base s') 1) /\
  slack_val (base sx_s) 0 < 0.
Proof. exact merge_left_split_closed_example. Qed.

(* where the premise HW comes from: Solver::refine's first loop (setUpInConstraints / setUpOutConstraints of every
   block) stamps every constraint with the counter and builds a duplicate-free, ordered, sound and complete in-heap for
   every block of the list ... *)
Theorem C01_static_refine_setup_heaps s :
  book (base s) -> length (ctime s) = length (scons (base s)) ->
  (length (blocks (base s)) <= length (bin s))%nat ->
  (forall B, In B (blist (base s)) -> inhabited (base s) B) ->
  (forall v, (v < length (svars (base s)))%nat -> In (blk_of (base s) v) (blist (base s))) ->
  let s' := setup_all s in
  base s' = base s /\ btime s' = btime s /\ ctr s' = ctr s /\
  length (ctime s') = length (ctime s) /\ length (bin s') = length (bin s) /\ length (bout s') = length (bout s) /\
  (forall x, (x < length (scons (base s)))%nat -> ctime_of s' x = ctr s) /\
  (forall B, inhabited (base s) B -> exists h, bin_of s' B = Some h /\ hgoodC s' h /\ hsound s' B h /\ hcomplete s' B h).
Proof. exact (setup_all_heaps s). Qed.
Print Assumptions C01_static_refine_setup_heaps.

Example C01_static_refine_setup_heaps_example :
  book (base sx_s) /\ length (ctime sx_s) = length (scons (base sx_s)) /\
  (length (blocks (base sx_s)) <= length (bin sx_s))%nat /\
  (forall B, In B (blist (base sx_s)) -> inhabited (base sx_s) B) /\
  (forall v, (v < length (svars (base sx_s)))%nat -> In (blk_of (base sx_s) v) (blist (base sx_s))) /\
  sx_setup_heap = true.
Proof. exact setup_all_heaps_example. Qed.

(* ... and it survives Block::split of block b into the two NEW blocks l, r (no heaps, stamp 0) as long as the variables
   outside l sit where they were: s0 = state of refine's second loop, s3 = state Blocks::split calls mergeLeft(l) in.
   (The relation between s0 and s3 is stated, not yet derived from VpscForest.split_facts: see the _partial theorems.) *)
Theorem C01_static_split_entry_heap_invariant s0 s3 b l r :
  T2 s0 -> (forall x, (x < length (scons (base s0)))%nat -> ctime_of s0 x = ctr s0) ->
  length (ctime s0) = length (scons (base s0)) ->
  length (bin s0) = length (blocks (base s0)) -> length (btime s0) = length (blocks (base s0)) ->
  wf_vars (svars (base s0)) -> book (base s0) ->
  (forall B, inhabited (base s0) B -> exists h, bin_of s0 B = Some h /\ hgoodC s0 h /\ hsound s0 B h /\ hcomplete s0 B h) ->
  ctime s3 = ctime s0 -> ctr s3 = ctr s0 -> btime s3 = btime s0 ++ [O; O] -> bin s3 = bin s0 ++ [None; None] ->
  svars (base s3) = svars (base s0) -> scons (base s3) = scons (base s0) ->
  l = length (blocks (base s0)) -> r = S l -> length (blocks (base s3)) = S (S l) -> (b < l)%nat ->
  (forall u, (u < length (svars (base s0)))%nat -> blk_of (base s0) u <> b -> blk_of (base s3) u = blk_of (base s0) u) ->
  (forall u, (u < length (svars (base s0)))%nat -> blk_of (base s0) u = b -> blk_of (base s3) u = l \/ blk_of (base s3) u = r) ->
  (forall u, (u < length (svars (base s0)))%nat -> blk_of (base s3) u <> l -> Yof (base s3) u == Yof (base s0) u) ->
  book (base s3) -> act_inv (base s3) -> all_blk_st (base s3) ->
  HW (stamp s3 l) l.
Proof. exact (split_entry_HW s0 s3 b l r). Qed.
Print Assumptions C01_static_split_entry_heap_invariant.

(* non-vacuity: satisfy() on the example merges v0, v1; refine's first loop; the model's own Block::split of that block
   across its active constraint: every premise holds and mergeLeft(l) returns *)
Example C01_static_split_entry_heap_invariant_example :
  HW (stamp sy_3 3) 3 /\ inhabited (base sy_3) 3 /\ sy_returns = true.
Proof. exact split_entry_HW_example. Qed.

(* ---------------- Block::split: statistics of the two halves and the SIGN lemma (Vpsc/StaticSplitStats.v, StaticSplitSign.v) *)
From Adapt Require Import Vpsc.VpscStationary Vpsc.StaticSplitStats Vpsc.StaticSplitSign Vpsc.StaticSplitSignEx.

(* both new blocks come out of the two populateSplitBlock walks at their weighted optimum with correct statistics
   (any constraint graph); offsets, variables and the old blocks are untouched *)
Theorem C01_static_split_halves_at_optimum s this c s' l r :
  wf_vars (svars s) -> split s this c = Ok (s', l, r) ->
  blk_ok s' l /\ blk_ok s' r /\ l = length (blocks s) /\ r = S l /\ length (blocks s') = S (S l) /\
  svars s' = svars s /\ voff s' = voff s /\
  (forall B, (B < length (blocks s))%nat -> block_of s' B = block_of s B).
Proof. exact (split_blk_ok s this c s' l r). Qed.
Print Assumptions C01_static_split_halves_at_optimum.

Example C01_static_split_halves_at_optimum_example :
  wf_vars (svars sz) /\ split sz 1 0 = Ok (sz', 3%nat, 4%nat) /\ blk_ok sz' 3 /\ blk_ok sz' 4.
Proof. exact split_blk_ok_example. Qed.

(* the sign lemma: block b stationary for the multipliers of s (findMinLM), split across the active constraint c; the
   side t of c (sg = 1: side of left(c), sg = -1: side of right(c)) has its optimum at -sg*lm(c)/(2 U_t) from where b was *)
Theorem C01_static_split_sign s s' b c t sg :
  book s -> wf_vars (svars s) -> (c < length (scons s))%nat -> act_of s c = true ->
  stationary_block s s b -> svars s' = svars s -> voff s' = voff s -> book s' ->
  (forall i, (i < length (svars s))%nat -> blk_of s' i = t -> blk_of s i = b) ->
  (exists v, (v < length (svars s))%nat /\ blk_of s' v = t) ->
  (forall k, (k < length (scons s))%nat -> act_of s k = true -> k <> c ->
     (blk_of s' (cl (con_of s k)) = t <-> blk_of s' (cr (con_of s k)) = t)) ->
  ((blk_of s' (cl (con_of s c)) = t /\ blk_of s' (cr (con_of s c)) <> t /\ sg == 1) \/
   (blk_of s' (cl (con_of s c)) <> t /\ blk_of s' (cr (con_of s c)) = t /\ sg == -1)) ->
  blk_ok s' t ->
  0 < usum (svars s) (bvars (block_of s' t)) /\
  bscale (block_of s b) * posn (block_of s b) - bscale (block_of s' t) * posn (block_of s' t) ==
  - sg * lm_of s c / (2 * usum (svars s) (bvars (block_of s' t))).
Proof. exact (split_side_shift s s' b c t sg). Qed.
Print Assumptions C01_static_split_sign.

(* lm(c) <= 0: the left half moves LEFT by dl >= 0 (the premise of C01_static_split_merge_left_entry) *)
Theorem C01_static_split_left_half_moves_left s s' b c t sg :
  book s -> wf_vars (svars s) -> (c < length (scons s))%nat -> act_of s c = true ->
  stationary_block s s b -> svars s' = svars s -> voff s' = voff s -> book s' ->
  (forall i, (i < length (svars s))%nat -> blk_of s' i = t -> blk_of s i = b) ->
  (exists v, (v < length (svars s))%nat /\ blk_of s' v = t) ->
  (forall k, (k < length (scons s))%nat -> act_of s k = true -> k <> c ->
     (blk_of s' (cl (con_of s k)) = t <-> blk_of s' (cr (con_of s k)) = t)) ->
  ((blk_of s' (cl (con_of s c)) = t /\ blk_of s' (cr (con_of s c)) <> t /\ sg == 1) \/
   (blk_of s' (cl (con_of s c)) <> t /\ blk_of s' (cr (con_of s c)) = t /\ sg == -1)) ->
  blk_ok s' t -> sg == 1 -> lm_of s c <= 0 ->
  exists dl, 0 <= dl /\ forall u, blk_of s' u = t -> (u < length (svars s))%nat -> Yof s' u == Yof s u - dl.
Proof. exact (split_left_half_moves_left s s' b c t sg). Qed.
Print Assumptions C01_static_split_left_half_moves_left.

(* lm(c) <= 0: the optimum of the right half is to the RIGHT of where the block was (rho >= 0 of geo2_entry_move) *)
Theorem C01_static_split_right_half_optimum_right s s' b c t sg :
  book s -> wf_vars (svars s) -> (c < length (scons s))%nat -> act_of s c = true ->
  stationary_block s s b -> svars s' = svars s -> voff s' = voff s -> book s' ->
  (forall i, (i < length (svars s))%nat -> blk_of s' i = t -> blk_of s i = b) ->
  (exists v, (v < length (svars s))%nat /\ blk_of s' v = t) ->
  (forall k, (k < length (scons s))%nat -> act_of s k = true -> k <> c ->
     (blk_of s' (cl (con_of s k)) = t <-> blk_of s' (cr (con_of s k)) = t)) ->
  ((blk_of s' (cl (con_of s c)) = t /\ blk_of s' (cr (con_of s c)) <> t /\ sg == 1) \/
   (blk_of s' (cl (con_of s c)) <> t /\ blk_of s' (cr (con_of s c)) = t /\ sg == -1)) ->
  blk_ok s' t -> sg == -1 -> lm_of s c <= 0 ->
  bscale (block_of s b) * posn (block_of s b) <= bscale (block_of s' t) * posn (block_of s' t).
Proof. exact (split_right_half_optimum_right s s' b c t sg). Qed.
Print Assumptions C01_static_split_right_half_optimum_right.

(* non-vacuity: block {v0, v1} after findMinLM (lm = 3), the model's own Block::split; all premises hold, shift = -3/2 *)
Example C01_static_split_sign_example :
  lm_of sz 0 == 3 /\
  bscale (block_of sz 1) * posn (block_of sz 1) - bscale (block_of sz' 3) * posn (block_of sz' 3) ==
  - 1 * lm_of sz 0 / (2 * usum (svars sz) (bvars (block_of sz' 3))).
Proof. exact split_side_shift_example. Qed.

(* non-vacuity of the two corollaries: a block whose active constraint has lm(c) = -4 (desired positions pulled apart) *)
Example C01_static_split_left_half_moves_left_example :
  lm_of sn 0 <= 0 /\
  exists dl, 0 <= dl /\ forall u, blk_of sn' u = 3%nat -> (u < length (svars sn))%nat -> Yof sn' u == Yof sn u - dl.
Proof. exact split_left_half_moves_left_example. Qed.
Example C01_static_split_right_half_optimum_right_example :
  lm_of sn 0 <= 0 /\
  bscale (block_of sn 1) * posn (block_of sn 1) <= bscale (block_of sn' 4) * posn (block_of sn' 4).
Proof. exact split_right_half_optimum_right_example. Qed.

(* ---------------- forest facts for Block::split, in the form the static-solver proofs consume (Vpsc/StaticSplitGlue.v) *)
From Adapt Require Import Vpsc.VpscForest Vpsc.StaticSplitGlue.
Theorem C01_static_split_block_facts s c s' l r :
  book s -> act_inv s -> forest s -> wf_vars (svars s) -> act_of s c = true ->
  let b := blk_of s (cl (con_of s c)) in
  split s b c = Ok (s', l, r) ->
  book s' /\ act_inv s' /\ forest s' /\
  svars s' = svars s /\ scons s' = scons s /\ voff s' = voff s /\
  l = length (blocks s) /\ r = S l /\ length (blocks s') = S (S l) /\ (b < l)%nat /\
  blk_of s' (cl (con_of s c)) = l /\ blk_of s' (cr (con_of s c)) = r /\
  (forall u, (u < length (svars s))%nat -> blk_of s u <> b -> blk_of s' u = blk_of s u) /\
  (forall u, (u < length (svars s))%nat -> blk_of s u = b -> blk_of s' u = l \/ blk_of s' u = r) /\
  (forall u, (u < length (svars s))%nat -> (blk_of s' u = l \/ blk_of s' u = r) -> blk_of s u = b) /\
  (forall k, (k < length (scons s))%nat -> act_of s k = true -> k <> c ->
     blk_of s' (cl (con_of s k)) = blk_of s' (cr (con_of s k))) /\
  act_of s' c = false /\
  (forall B, (B < length (blocks s))%nat -> block_of s' B = block_of s B) /\
  blk_ok s' l /\ blk_ok s' r.
Proof. exact (split_glue s c s' l r). Qed.
Print Assumptions C01_static_split_block_facts.

Example C01_static_split_block_facts_example :
  book sn /\ act_inv sn /\ forest sn /\ wf_vars (svars sn) /\ act_of sn 0 = true /\
  split sn (blk_of sn (cl (con_of sn 0))) 0 = Ok (sn', 3%nat, 4%nat) /\
  blk_of sn' 0 = 3%nat /\ blk_of sn' 1 = 4%nat.
Proof. exact split_glue_example. Qed.

(* ---------------- the first half of Blocks::split assembled (Vpsc/StaticSplitFirst.v): Block::split on a forest state
   whose block b is stationary with lm(c) <= 0, "r->posn = b->posn", mergeLeft(l) - from the invariants refine's second loop
   works in; no hypothesis about heap roots, signs or Block::split is left.  split_pre s b bs l r = the state static_split
   calls merge_left in (static_split_unfold).  Still to do for passes_ok: the second half (updateWeightedPosition,
   mergeRight entry in both modes), carrying forest / stationarity / the vector lengths between splits, totality. *)
From Adapt Require Import Vpsc.StaticSplitFirst Vpsc.StaticSplitFirstEx.
Theorem C01_static_split_first_half s b c bs l r s4 :
  book (base s) -> act_inv (base s) -> forest (base s) -> wf_vars (svars (base s)) -> all_blk_ok (base s) -> all_sat0 (base s) ->
  act_of (base s) c = true -> b = blk_of (base s) (cl (con_of (base s) c)) ->
  stationary_block (base s) (base s) b -> lm_of (base s) c <= 0 ->
  T2 s -> (forall x, (x < length (scons (base s)))%nat -> ctime_of s x = ctr s) ->
  length (ctime s) = length (scons (base s)) ->
  length (bin s) = length (blocks (base s)) -> length (btime s) = length (blocks (base s)) ->
  (forall B, inhabited (base s) B -> exists h, bin_of s B = Some h /\ hgoodC s h /\ hsound s B h /\ hcomplete s B h) ->
  split (base s) b c = Ok (bs, l, r) ->
  merge_left (split_pre s b bs l r) l = Ok s4 ->
  exists M, MLS (Yof (base s)) (cr (con_of (base s) c)) (base s4) M /\
    (forall i, (i < length (scons (base s4)))%nat -> blk_of (base s4) (cr (con_of (base s4) i)) = M ->
               blk_of (base s4) (cl (con_of (base s4) i)) <> M -> 0 <= slack_val (base s4) i) /\
    scons (base s4) = scons (base s) /\ svars (base s4) = svars (base s) /\
    (exists M' c', MLH s4 M' c').
Proof. exact (split_first_half s b c bs l r s4). Qed.
Print Assumptions C01_static_split_first_half.

Theorem C01_static_split_unfold s b c :
  static_split s b c =
  bind (split (base s) b c) (fun t =>
    let '(bs, l, r) := t in
    bind (merge_left (split_pre s b bs l r) l) (fun s4 =>
      let r' := rblk s4 c in
      let s5 := set_base s4 (update_weighted_position (base s4) r') in
      bind (merge_right s5 r') (fun s6 => Ok (set_base s6 (kill_block (base s6) b))))).
Proof. exact (static_split_unfold s b c). Qed.

(* findMinLM only rewrites multipliers: the heap facts of refine's first loop survive "s := set_base s bs" *)
Theorem C01_static_refine_heaps_after_find_min_lm s bs :
  lm_only (base s) bs ->
  (forall B, inhabited (base s) B -> exists h, bin_of s B = Some h /\ hgoodC s h /\ hsound s B h /\ hcomplete s B h) ->
  (forall B, inhabited bs B -> exists h, bin_of (set_base s bs) B = Some h /\ hgoodC (set_base s bs) h /\
                                          hsound (set_base s bs) B h /\ hcomplete (set_base s bs) B h).
Proof. exact (heaps_lm_only s bs). Qed.
Print Assumptions C01_static_refine_heaps_after_find_min_lm.

(* non-vacuity: satisfy(), desired positions pulled apart, updateWeightedPosition, refine's first loop, findMinLM
   (lm(c0) = -4), the model's own Block::split: every premise of C01_static_split_first_half holds, mergeLeft(l) returns;
   the state also witnesses the premises of C01_static_refine_heaps_after_find_min_lm (sf_lm_only) *)
Example C01_static_split_first_half_example :
  book (base sf_s) /\ act_inv (base sf_s) /\ forest (base sf_s) /\ wf_vars (svars (base sf_s)) /\ all_blk_ok (base sf_s) /\
  all_sat0 (base sf_s) /\ act_of (base sf_s) 0 = true /\ 1%nat = blk_of (base sf_s) (cl (con_of (base sf_s) 0)) /\
  stationary_block (base sf_s) (base sf_s) 1 /\ lm_of (base sf_s) 0 <= 0 /\
  T2 sf_s /\ (forall x, (x < length (scons (base sf_s)))%nat -> ctime_of sf_s x = ctr sf_s) /\
  length (ctime sf_s) = length (scons (base sf_s)) /\
  length (bin sf_s) = length (blocks (base sf_s)) /\ length (btime sf_s) = length (blocks (base sf_s)) /\
  (forall B, inhabited (base sf_s) B -> exists h, bin_of sf_s B = Some h /\ hgoodC sf_s h /\ hsound sf_s B h /\ hcomplete sf_s B h) /\
  split (base sf_s) 1 0 = Ok (sf_bs, 3%nat, 4%nat) /\ sf_returns = true.
Proof. exact split_first_half_example. Qed.
Example C01_static_refine_heaps_after_find_min_lm_example : lm_only (base sf_setup) sf_lm.
Proof. exact sf_lm_only. Qed.

(* Block::updateWeightedPosition recomputes statistics and position from the variable list: blk_ok afterwards whatever the
   position was (the "r->updateWeightedPosition()" of Blocks::split's second half) *)
Theorem C01_static_update_weighted_position_optimum s b :
  wf_vars (svars s) -> (b < length (blocks s))%nat -> bvars (block_of s b) <> [] -> 0 < bscale (block_of s b) ->
  let s' := update_weighted_position s b in
  blk_ok s' b /\ svars s' = svars s /\ scons s' = scons s /\ voff s' = voff s /\ vblk s' = vblk s /\ cact s' = cact s /\
  length (blocks s') = length (blocks s) /\
  bvars (block_of s' b) = bvars (block_of s b) /\ bscale (block_of s' b) = bscale (block_of s b) /\
  (forall X, X <> b -> block_of s' X = block_of s X).
Proof. exact (uwp_blk_ok s b). Qed.
Print Assumptions C01_static_update_weighted_position_optimum.
Example C01_static_update_weighted_position_optimum_example :
  wf_vars (svars sn') /\ (4 < length (blocks sn'))%nat /\ bvars (block_of sn' 4) <> [] /\ 0 < bscale (block_of sn' 4) /\
  blk_ok (update_weighted_position sn' 4) 4.
Proof. exact uwp_blk_ok_example. Qed.

(* ---- The SECOND half of Blocks::split and one whole Blocks::split (Vpsc/StaticSplitSecond.v).
   C01_static_merge_left_frame: mergeLeft never touches the out-heaps, and a variable outside mergeLeft's final block sits
   in the same block, with the same block record and the same offset, as when mergeLeft(l) was called (`mframe`).
   C01_static_split_second_half: from the two-mode invariant MLS at mergeLeft's exit, updateWeightedPosition(r') +
   mergeRight(r') return with every slack >= 0 - case split on whether the right half was merged into l's block (merged:
   MRI directly, updateWeightedPosition moves nothing; not merged: r moves rigidly to the right onto its optimum).
   C01_static_split_all_sat: ONE WHOLE Blocks::split, from the invariants Solver::refine's second loop works in
   (book/act_inv/forest, all blocks at their optimum, every slack >= 0, block b stationary for findMinLM's multipliers,
   lm(c) <= 0, the time-stamp / heap facts of refine's first loop, #blocks <= length of the out-heap vector), returns
   with every slack >= 0 and book / act_inv / all_blk_ok re-established: no hypothesis about heap roots, signs, frames.
   Still to do for passes_ok: stationarity of b from findMinLM on a blk_ok (not `fresh`) block, forest through
   mergeLeft/mergeRight, totality (static_split returns), the vector-length facts after cleanup for the next pass. *)
From Adapt Require Import Vpsc.StaticSplitSecond Vpsc.StaticSplitSecondEx.
Theorem C01_static_merge_left_frame Yb rv s l s' :
  MLS Yb rv (base s) l -> HW (stamp s l) l -> inhabited (base s) l ->
  merge_left s l = Ok s' ->
  bout s' = bout s /\ length (blocks (base s')) = length (blocks (base s)) /\
  exists M, MLS Yb rv (base s') M /\
    (forall i, (i < length (scons (base s')))%nat -> blk_of (base s') (cr (con_of (base s') i)) = M ->
               blk_of (base s') (cl (con_of (base s') i)) <> M -> 0 <= slack_val (base s') i) /\
    scons (base s') = scons (base s) /\ svars (base s') = svars (base s) /\
    (forall u, (u < length (svars (base s)))%nat -> blk_of (base s') u <> M ->
       blk_of (base s') u = blk_of (base s) u /\
       block_of (base s') (blk_of (base s') u) = block_of (base s) (blk_of (base s') u) /\
       off_of (base s') u = off_of (base s) u).
Proof.
  intros I HWs Inh H. split; [exact (merge_left_bout s l s' H)|]. split; [exact (merge_left_lblocks s l s' H)|].
  exact (merge_left_split_frame Yb rv s l s' I HWs Inh H).
Qed.
Print Assumptions C01_static_merge_left_frame.

Theorem C01_static_split_second_half Yb rv s4 M s6 :
  MLS Yb rv (base s4) M ->
  (forall i, (i < length (scons (base s4)))%nat -> blk_of (base s4) (cr (con_of (base s4) i)) = M ->
             blk_of (base s4) (cl (con_of (base s4) i)) <> M -> 0 <= slack_val (base s4) i) ->
  T2 s4 -> length (ctime s4) = length (scons (base s4)) -> (length (blocks (base s4)) <= length (bout s4))%nat ->
  let R := blk_of (base s4) rv in
  let b5 := update_weighted_position (base s4) R in
  (R <> M -> posn (block_of (base s4) R) <= posn (block_of b5 R)) ->
  merge_right (set_base s4 b5) R = Ok s6 ->
  all_sat0 (base s6) /\ book (base s6) /\ act_inv (base s6) /\ all_blk_ok (base s6) /\
  scons (base s6) = scons (base s4) /\ svars (base s6) = svars (base s4).
Proof. exact (split_second_half Yb rv s4 M s6). Qed.
Print Assumptions C01_static_split_second_half.

Theorem C01_static_split_all_sat s b c s7 :
  book (base s) -> act_inv (base s) -> forest (base s) -> wf_vars (svars (base s)) -> all_blk_ok (base s) -> all_sat0 (base s) ->
  act_of (base s) c = true -> b = blk_of (base s) (cl (con_of (base s) c)) ->
  stationary_block (base s) (base s) b -> lm_of (base s) c <= 0 ->
  T2 s -> (forall x, (x < length (scons (base s)))%nat -> ctime_of s x = ctr s) ->
  length (ctime s) = length (scons (base s)) ->
  length (bin s) = length (blocks (base s)) -> length (btime s) = length (blocks (base s)) ->
  (length (blocks (base s)) <= length (bout s))%nat ->
  (forall B, inhabited (base s) B -> exists h, bin_of s B = Some h /\ hgoodC s h /\ hsound s B h /\ hcomplete s B h) ->
  static_split s b c = Ok s7 ->
  all_sat0 (base s7) /\ book (base s7) /\ act_inv (base s7) /\ all_blk_ok (base s7) /\
  scons (base s7) = scons (base s) /\ svars (base s7) = svars (base s).
Proof. exact (static_split_all_sat s b c s7). Qed.
Print Assumptions C01_static_split_all_sat.

(* non-vacuity: the state of C01_static_split_first_half_example; mergeLeft(l) returns sf_s4, where every premise of the
   second half holds and mergeRight returns; every premise of C01_static_split_all_sat holds on sf_s and the model's
   Blocks::split returns (the MLS / HW premises of C01_static_merge_left_frame are established inside
   C01_static_split_first_half on the same state) *)
Example C01_static_split_second_half_example :
  exists M, MLS (Yof (base sf_s)) 1 (base sf_s4) M /\
    (forall i, (i < length (scons (base sf_s4)))%nat -> blk_of (base sf_s4) (cr (con_of (base sf_s4) i)) = M ->
               blk_of (base sf_s4) (cl (con_of (base sf_s4) i)) <> M -> 0 <= slack_val (base sf_s4) i) /\
    T2 sf_s4 /\ length (ctime sf_s4) = length (scons (base sf_s4)) /\
    (length (blocks (base sf_s4)) <= length (bout sf_s4))%nat /\
    posn (block_of (base sf_s4) sf_R) <= posn (block_of (update_weighted_position (base sf_s4) sf_R) sf_R) /\
    sf_R = blk_of (base sf_s4) 1 /\ sf_second_returns = true.
Proof. exact split_second_half_example. Qed.
Example C01_static_split_all_sat_example :
  book (base sf_s) /\ act_inv (base sf_s) /\ forest (base sf_s) /\ wf_vars (svars (base sf_s)) /\ all_blk_ok (base sf_s) /\
  all_sat0 (base sf_s) /\ act_of (base sf_s) 0 = true /\ 1%nat = blk_of (base sf_s) (cl (con_of (base sf_s) 0)) /\
  stationary_block (base sf_s) (base sf_s) 1 /\ lm_of (base sf_s) 0 <= 0 /\
  T2 sf_s /\ (forall x, (x < length (scons (base sf_s)))%nat -> ctime_of sf_s x = ctr sf_s) /\
  length (ctime sf_s) = length (scons (base sf_s)) /\
  length (bin sf_s) = length (blocks (base sf_s)) /\ length (btime sf_s) = length (blocks (base sf_s)) /\
  (length (blocks (base sf_s)) <= length (bout sf_s))%nat /\
  (forall B, inhabited (base sf_s) B -> exists h, bin_of sf_s B = Some h /\ hgoodC sf_s h /\ hsound sf_s B h /\ hcomplete sf_s B h) /\
  sf_split_returns = true.
Proof. exact static_split_all_sat_example. Qed.

(* ---- Solver::refine's loop cannot throw (Vpsc/StaticRefineNoThrow.v); one pass of the loop returns all-satisfied as soon
   as Blocks::split is called in a `split_ready` state (Vpsc/StaticRefinePass.v).
   C01_static_refine_loop_cannot_throw: mergeRight, Blocks::split, the scan loop and the try loop never produce
   UnsatisfiableException (ThrowUnsat) - at worst the model runs out of fuel; so a throw of Solver::refine is a throw of
   its closing scan (C01_static_refine_throw_only_in_scan).
   C01_static_refine_pass_all_sat_partial: PARTIAL towards `passes_ok` - the hypothesis `scan_ready` (the premises of
   C01_static_split_all_sat at the state in which the pass calls Blocks::split: forest, stationarity of the block for
   findMinLM's multipliers, time stamps / heap facts / vector lengths) stays VISIBLE; what is still missing is deriving it
   from refine's loop invariant (findMinLM stationarity on a blk_ok rather than `fresh` block, forest through
   mergeLeft/mergeRight, lengths after cleanup) and totality (the pass returns). *)
From Adapt Require Import Vpsc.StaticRefineNoThrow Vpsc.StaticRefinePass Vpsc.StaticRefinePassEx.
Theorem C01_static_refine_loop_cannot_throw tries s c : refine_loop tries s <> ThrowUnsat c.
Proof. exact (refine_loop_nothrow tries s c). Qed.
Print Assumptions C01_static_refine_loop_cannot_throw.
Theorem C01_static_refine_throw_only_in_scan s c :
  static_refine s = ThrowUnsat c ->
  exists s1, refine_loop MAXTRIES s = Ok s1 /\ sslack (note_scan s1) c < ZERO_UPPERBOUND.
Proof. exact (static_refine_throw_only_in_scan s c). Qed.
Print Assumptions C01_static_refine_throw_only_in_scan.
Example C01_static_refine_throw_only_in_scan_example : exists c, static_refine (static_init nt_vs nt_cs) = ThrowUnsat c.
Proof. exact static_refine_throw_only_in_scan_example. Qed.

Theorem C01_static_refine_pass_all_sat_partial s s' d :
  all_sat0 (base s) -> scan_ready (blist (base (setup_all s))) (setup_all s) ->
  refine_pass s = Ok (s', d) -> all_sat0 (base s').
Proof. exact (refine_pass_all_sat s s' d). Qed.
Print Assumptions C01_static_refine_pass_all_sat_partial.
(* non-vacuity: on sf_pre the pass calls Blocks::split (block 1, lm(c0) = -4) in a split_ready state and returns *)
Example C01_static_refine_pass_all_sat_partial_example :
  all_sat0 (base sf_pre) /\ scan_ready (blist (base (setup_all sf_pre))) (setup_all sf_pre) /\
  (exists s', refine_pass sf_pre = Ok (s', true)).
Proof. exact refine_pass_all_sat_example. Qed.
