(* C04 - libavoid polyline: routes are true Euclidean shortest paths.
   Only statements closed by `exact`; proofs live in Avoid/CertDijkstra.v and Avoid/RefRouter.v. *)
From Adapt Require Import Num.Qaux Geom.GeomSpec Avoid.SegPolyModel Avoid.SegPoly.
Local Open Scope Q_scope.

Theorem C04_visible_exact P u v : seg_clear P u v = true <-> segment_avoids P u v.
Proof. exact (seg_clear_spec P u v). Qed.
Print Assumptions C04_visible_exact.
