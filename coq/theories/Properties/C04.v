(* C04 - libavoid polyline: routes are true Euclidean shortest paths.
   Only statements closed by `exact`; proofs live in Avoid/CertDijkstra.v, Avoid/RefRouter.v, Avoid/Blocking.v. *)
From Adapt Require Import Num.Qaux Geom.GeomSpec Gen.Geometry Avoid.SegPolyModel Avoid.SegPoly
     Avoid.CertDijkstraModel Avoid.CertDijkstra Avoid.CertDijkstraTotal Avoid.RefRouterModel Avoid.RefRouter
     Avoid.RefRouterTotal Avoid.Blocking Avoid.RefRouterVertexOnlyModel Avoid.RefRouterVertexOnly.
From Adapt Require Graph.AStar.
Local Open Scope Z_scope.

(* certifying Dijkstra, any finite graph, any integer weights; the outcome Fail is excluded in each statement *)
Theorem C04_dijkstra_sound N succs s t p c :
  dijkstra N succs s t = Found p c -> walk succs s t c /\ check_path succs s t p c = true.
Proof. exact (dijkstra_sound N succs s t p c). Qed.
Print Assumptions C04_dijkstra_sound.

Theorem C04_dijkstra_optimal N succs s t p c :
  dijkstra N succs s t = Found p c -> forall c', walk succs s t c' -> c <= c'.
Proof. exact (dijkstra_optimal N succs s t p c). Qed.
Print Assumptions C04_dijkstra_optimal.

Theorem C04_dijkstra_noroute N succs s t : dijkstra N succs s t = NoRoute -> forall c', ~ walk succs s t c'.
Proof. exact (dijkstra_noroute N succs s t). Qed.
Print Assumptions C04_dijkstra_noroute.

(* penalty 0: the model route is a shortest path of the exact visibility graph *)
Theorem C04_model_optimal shapes s d pts c :
  route_plain shapes s d = Route pts c ->
  polyline_len pts = c /\
  forall q, vis_path shapes s d (0%nat :: q) -> last (0%nat :: q) 0%nat = 1%nat ->
            c <= polyline_len (map (vpt (verts shapes s d)) (0%nat :: q)).
Proof. exact (C04_model_optimal shapes s d pts c). Qed.
Print Assumptions C04_model_optimal.

(* penalty > 0: optimal within the taut class (libavoid's search space) *)
Theorem C04_model_optimal_taut pen shapes s d pts c :
  route_taut pen shapes s d = Route pts c ->
  forall q, taut_seq shapes s d 0 (0%nat :: q) -> c <= taut_seq_cost pen shapes s d 0 (0%nat :: q).
Proof. exact (C04_model_optimal_taut pen shapes s d pts c). Qed.
Print Assumptions C04_model_optimal_taut.

(* triangle inequality of the floor-sqrt lengths, and admissibility of the straight-line A* heuristic *)
Theorem C04_lenZ_triangle p q r : lenZ p r <= lenZ p q + lenZ q r + 1.
Proof. exact (lenZ_triangle p q r). Qed.
Print Assumptions C04_lenZ_triangle.

Theorem C04_euclid_heuristic_admissible (r : list pt) (a : pt) :
  lenZ a (last (a :: r) a) <= polyline_len (a :: r) + Z.of_nat (length r).
Proof. exact (euclid_heuristic_admissible r a). Qed.
Print Assumptions C04_euclid_heuristic_admissible.

(* the cone test of checkVis (cpp2v-generated) is the spec decider the reference router prunes with *)
Theorem C04_inValidRegion_eq_spec ig a0 a1 a2 b : inValidRegion ig a0 a1 a2 b = spec_inValidRegion ig a0 a1 a2 b.
Proof. exact (inValidRegion_eq_spec ig a0 a1 a2 b). Qed.
Print Assumptions C04_inValidRegion_eq_spec.

(* ---- totality of the certifying search: Fail is impossible on finite graphs with in-range targets, non-negative
        weights and no parallel edges (each hypothesis is necessary: dijkstra_fail_negative / _parallel / _dangling in
        Avoid/CertDijkstraTotal.v) *)
Theorem C04_cert_dijkstra_total N succs s :
  (s < N)%nat ->
  (forall u v w, (u < N)%nat -> In (v, w) (succs u) -> (v < N)%nat /\ 0 <= w) ->
  (forall u, (u < N)%nat -> NoDup (map fst (succs u))) ->
  forall t, dijkstra N succs s t <> Fail.
Proof. exact (cert_dijkstra_total N succs s). Qed.
Print Assumptions C04_cert_dijkstra_total.

Theorem C04_cert_dijkstra_decides N succs s :
  (s < N)%nat ->
  (forall u v w, (u < N)%nat -> In (v, w) (succs u) -> (v < N)%nat /\ 0 <= w) ->
  (forall u, (u < N)%nat -> NoDup (map fst (succs u))) ->
  forall t,
  (exists p c, dijkstra N succs s t = Found p c /\ walk succs s t c /\ forall c', walk succs s t c' -> c <= c') \/
  (dijkstra N succs s t = NoRoute /\ forall c', ~ walk succs s t c').
Proof. exact (cert_dijkstra_decides N succs s). Qed.
Print Assumptions C04_cert_dijkstra_decides.

(* the reference router never answers SearchFail, so the optimality statements no longer exclude it *)
Theorem C04_route_plain_total shapes s d : route_plain shapes s d <> SearchFail.
Proof. exact (route_plain_total shapes s d). Qed.
Print Assumptions C04_route_plain_total.

Theorem C04_route_taut_total pen shapes s d : 0 <= pen -> route_taut pen shapes s d <> SearchFail.
Proof. exact (route_taut_total pen shapes s d). Qed.
Print Assumptions C04_route_taut_total.

Theorem C04_model_decides shapes s d :
  (exists pts c, route_plain shapes s d = Route pts c /\ polyline_len pts = c /\
     forall q, vis_path shapes s d (0%nat :: q) -> last (0%nat :: q) 0%nat = 1%nat ->
               c <= polyline_len (map (vpt (verts shapes s d)) (0%nat :: q))) \/
  (route_plain shapes s d = NoPath /\
     forall q, vis_path shapes s d (0%nat :: q) -> last (0%nat :: q) 0%nat <> 1%nat).
Proof. exact (C04_model_decides shapes s d). Qed.
Print Assumptions C04_model_decides.

Theorem C04_model_decides_taut pen shapes s d :
  0 <= pen ->
  (exists pts c, route_taut pen shapes s d = Route pts c /\
     forall q, taut_seq shapes s d 0 (0%nat :: q) -> c <= taut_seq_cost pen shapes s d 0 (0%nat :: q)) \/
  (route_taut pen shapes s d = NoPath /\ forall q, ~ taut_seq shapes s d 0 (0%nat :: q)).
Proof. exact (C04_model_decides_taut pen shapes s d). Qed.
Print Assumptions C04_model_decides_taut.

(* ---- A* with a consistent heuristic as an abstract best-first search (Graph/AStar.v): any vertex type, any
        tie-breaking; the vertex selected for expansion - in particular the target - carries its exact distance.
        libavoid's A* itself is tied to the model only by cost equality (checks/c04.py). *)
Theorem C04_astar_optimal_with_consistent_heuristic
  (V : Type) (eq_dec : forall x y : V, {x = y} + {x <> y}) (succs : V -> list (V * Z)) (h : V -> Z) (s : V) :
  (forall u v w, In (v, w) (succs u) -> h u <= w + h v) ->
  forall g cl t gt,
  AStar.reach V eq_dec succs h s g cl -> AStar.selectable V h g cl t gt ->
  AStar.walk V succs s t gt /\ forall c, AStar.walk V succs s t c -> gt <= c.
Proof. exact (AStar.astar_optimal_with_consistent_heuristic V eq_dec succs h s). Qed.
Print Assumptions C04_astar_optimal_with_consistent_heuristic.

Theorem C04_astar_exhausted_unreachable
  (V : Type) (eq_dec : forall x y : V, {x = y} + {x <> y}) (succs : V -> list (V * Z)) (h : V -> Z) (s : V) :
  (forall u v w, In (v, w) (succs u) -> h u <= w + h v) ->
  forall g cl,
  AStar.reach V eq_dec succs h s g cl -> (forall v gv, ~ AStar.is_open V g cl v gv) ->
  forall v c, AStar.walk V succs s v c -> exists x, g v = Some x.
Proof. exact (AStar.astar_exhausted_unreachable V eq_dec succs h s). Qed.
Print Assumptions C04_astar_exhausted_unreachable.

(* ---- the state (previous vertex, vertex) is necessary with a segment penalty: the same search with one label per vertex
        (route_taut_vertex_only, the selector of the check's family "corner reachable both ways round its obstacle") returns a
        strictly dearer route than the optimum of the taut class on a concrete scene (demonstration scene of seeded change C04-4) *)
Theorem C04_vertex_only_search_refuted :
  exists pen shapes s d p1 c1 p2 c2,
    0 < pen /\ route_taut pen shapes s d = Route p1 c1 /\ route_taut_vertex_only pen shapes s d = Route p2 c2 /\ c1 < c2.
Proof. exact vertex_only_search_refuted. Qed.
Print Assumptions C04_vertex_only_search_refuted.
