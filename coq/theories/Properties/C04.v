(* C04 - libavoid polyline: routes are true Euclidean shortest paths.
   Only statements closed by `exact`; proofs live in Avoid/CertDijkstra.v, Avoid/RefRouter.v, Avoid/Blocking.v. *)
From Adapt Require Import Num.Qaux Geom.GeomSpec Gen.Geometry Avoid.SegPolyModel Avoid.SegPoly
     Avoid.CertDijkstraModel Avoid.CertDijkstra Avoid.RefRouterModel Avoid.RefRouter Avoid.Blocking.
Local Open Scope Z_scope.

(* certifying Dijkstra, any finite graph, any integer weights; the outcome Fail is excluded in each statement *)
Theorem C04_dijkstra_sound N succs s t p c :
  dijkstra N succs s t = Found p c -> walk succs s t c /\ check_path succs s t p c = true.
Proof. exact (dijkstra_sound N succs s t p c). Qed.
Print Assumptions C04_dijkstra_sound.

Theorem C04_dijkstra_optimal N succs s t p c :
  dijkstra N succs s t = Found p c -> forall c', walk succs s t c' -> c <= c'.
Proof. exact (dijkstra_optimal N succs s t p c). Qed.
Print Assumptions C04_dijkstra_optimal.

Theorem C04_dijkstra_noroute N succs s t : dijkstra N succs s t = NoRoute -> forall c', ~ walk succs s t c'.
Proof. exact (dijkstra_noroute N succs s t). Qed.
Print Assumptions C04_dijkstra_noroute.

(* penalty 0: the model route is a shortest path of the exact visibility graph *)
Theorem C04_model_optimal shapes s d pts c :
  route_plain shapes s d = Route pts c ->
  polyline_len pts = c /\
  forall q, vis_path shapes s d (0%nat :: q) -> last (0%nat :: q) 0%nat = 1%nat ->
            c <= polyline_len (map (vpt (verts shapes s d)) (0%nat :: q)).
Proof. exact (C04_model_optimal shapes s d pts c). Qed.
Print Assumptions C04_model_optimal.

(* penalty > 0: optimal within the taut class (libavoid's search space) *)
Theorem C04_model_optimal_taut pen shapes s d pts c :
  route_taut pen shapes s d = Route pts c ->
  forall q, taut_seq shapes s d 0 (0%nat :: q) -> c <= taut_seq_cost pen shapes s d 0 (0%nat :: q).
Proof. exact (C04_model_optimal_taut pen shapes s d pts c). Qed.
Print Assumptions C04_model_optimal_taut.

(* triangle inequality of the floor-sqrt lengths, and admissibility of the straight-line A* heuristic *)
Theorem C04_lenZ_triangle p q r : lenZ p r <= lenZ p q + lenZ q r + 1.
Proof. exact (lenZ_triangle p q r). Qed.
Print Assumptions C04_lenZ_triangle.

Theorem C04_euclid_heuristic_admissible (r : list pt) (a : pt) :
  lenZ a (last (a :: r) a) <= polyline_len (a :: r) + Z.of_nat (length r).
Proof. exact (euclid_heuristic_admissible r a). Qed.
Print Assumptions C04_euclid_heuristic_admissible.

(* the cone test of checkVis (cpp2v-generated) is the spec decider the reference router prunes with *)
Theorem C04_inValidRegion_eq_spec ig a0 a1 a2 b : inValidRegion ig a0 a1 a2 b = spec_inValidRegion ig a0 a1 a2 b.
Proof. exact (inValidRegion_eq_spec ig a0 a1 a2 b). Qed.
Print Assumptions C04_inValidRegion_eq_spec.
