(* C15 - protocol part of "no memory error, failed assertion or leak on valid use": the ownership /
   queued-action protocol of Avoid::Router (model: Avoid/LifecycleModel.v, tied to the code by the
   correspondence harness of checks/c15.py).  Only statements closed by `exact`; the proofs live in
   Avoid/Lifecycle.v (core model: shapes, junctions, connectors, the action queue) and Avoid/LifecycleCP.v
   (checkpoint VertInfs owned by connectors, op XSetCP = ConnRef::setRoutingCheckpoints) and hold for ALL
   op lists (invariant over the run), both transaction modes `t`, both routing modes `p` (polyline).
   `xrun fk fl fc t p ops`: fk / fl / fc = true is the current code; false = the code before the F-k / F-l
   repairs, resp. the variant of setRoutingCheckpoints that leaves the freed vertices in the list.
   `run fk fl t ops` is the core model alone; `core (xrun .. ops) = run .. (core_ops ops)`.
   Illegal ops (documented preconditions violated) are no-ops in the model, so "for all op
   lists" means "for all legal histories, interleaved with arbitrary rejected calls". *)
From Coq Require Import List. Import ListNotations.
From Adapt Require Import Avoid.LifecycleModel Avoid.Lifecycle Avoid.LifecycleCP Avoid.LifecyclePinModel Avoid.LifecyclePin.

(* no queued pointer (action object, queued connector-end copy, attached follower) and no entry of a
   connector's checkpoint-vertex list is dereferenced after its object was freed, and nothing is freed
   twice (free_obj / vfree of a non-allocated object also log into `bad` / `vbad`) *)
Theorem C15_no_use_after_free : forall t p ops,
  bad (core (xrun true true true t p ops)) = [] /\ vbad (xrun true true true t p ops) = [].
Proof. exact x_no_use_after_free. Qed.
Print Assumptions C15_no_use_after_free.

Theorem C15_queue_objects_live : forall t p ops a,
  In a (queue (core (xrun true true true t p ops))) -> In (act_obj a) (heap (core (xrun true true true t p ops))).
Proof. exact x_queue_objects_live. Qed.
Print Assumptions C15_queue_objects_live.

(* the ConnEnd copies stored inside queued connector updates - what removeObjectFromQueuedActions forgot *)
Theorem C15_queue_ends_live : forall t p ops a o,
  In a (queue (core (xrun true true true t p ops))) -> In o (act_end_ids a) ->
  In o (heap (core (xrun true true true t p ops))).
Proof. exact x_queue_ends_live. Qed.
Print Assumptions C15_queue_ends_live.

Theorem C15_attached_live : forall t p ops c w o,
  In (c, w, o) (attached (core (xrun true true true t p ops))) ->
  In c (heap (core (xrun true true true t p ops))) /\ In o (heap (core (xrun true true true t p ops))).
Proof. exact x_attached_live. Qed.
Print Assumptions C15_attached_live.

(* every entry of a connector's m_checkpoint_vertices is an allocated vertex of an allocated connector;
   no vertex sits in two lists or twice in one; every allocated checkpoint vertex is in some list *)
Theorem C15_checkpoints_owned : forall t p ops c v,
  In (c, v) (cpv (xrun true true true t p ops)) ->
  In c (heap (core (xrun true true true t p ops))) /\ In v (vheap (xrun true true true t p ops)).
Proof. exact x_checkpoints_owned. Qed.
Print Assumptions C15_checkpoints_owned.

Theorem C15_checkpoint_lists_disjoint : forall t p ops, NoDup (map snd (cpv (xrun true true true t p ops))).
Proof. exact x_checkpoint_lists_disjoint. Qed.
Print Assumptions C15_checkpoint_lists_disjoint.

Theorem C15_no_orphan_checkpoint_vertex : forall t p ops v,
  In v (vheap (xrun true true true t p ops)) -> exists c, In (c, v) (cpv (xrun true true true t p ops)).
Proof. exact x_no_orphan_vertex. Qed.
Print Assumptions C15_no_orphan_checkpoint_vertex.

(* freed at most once, in terms of the allocation history: objects and checkpoint vertices *)
Theorem C15_heap_nodup_fresh : forall t p ops,
  let X := xrun true true true t p ops in
  (NoDup (heap (core X)) /\ forall o, In o (heap (core X)) -> ~ In o (freed (core X))) /\
  (NoDup (vheap X) /\ (forall v, In v (vheap X) -> ~ In v (vfreed X)) /\
   forall v, In v (vheap X) \/ In v (vfreed X) -> v < vnext X).
Proof. exact x_heap_nodup_fresh. Qed.
Print Assumptions C15_heap_nodup_fresh.

(* nothing is leaked once the router is destroyed: no object and no checkpoint vertex *)
Theorem C15_destroy_releases_all : forall t p ops,
  alive (core (xrun true true true t p ops)) = false ->
  heap (core (xrun true true true t p ops)) = [] /\ vheap (xrun true true true t p ops) = [].
Proof. exact x_destroy_releases_all. Qed.
Print Assumptions C15_destroy_releases_all.

(* what the correspondence compares per connector: checkpoint vertices in the router's vertex list *)
Theorem C15_live_checkpoints_is_list_length : forall t p ops c,
  live_cp (xrun true true true t p ops) c = length (cp_of c (cpv (xrun true true true t p ops))).
Proof. exact x_live_cp_is_list_length. Qed.
Print Assumptions C15_live_checkpoints_is_list_length.

(* the core component of the extended run is the core model run on the core ops *)
Theorem C15_core_of_extended_run : forall fk fl fc t p ops,
  core (xrun fk fl fc t p ops) = run fk fl t (core_ops ops).
Proof. exact xrun_core. Qed.
Print Assumptions C15_core_of_extended_run.

(* ---- the code before the repairs violates both properties (witnesses are legal histories) ---- *)
Theorem C15_uaf_refuted_before_fix :
  all_legal false true (init true) [ONewObst 1; OProcess; ONewConn 10 (EObst 1) EPoint; ODelObst 1; OProcess] = true /\
  bad (run false true true [ONewObst 1; OProcess; ONewConn 10 (EObst 1) EPoint; ODelObst 1; OProcess]) = [1].
Proof. exact uaf_before_fix_witness. Qed.
Print Assumptions C15_uaf_refuted_before_fix.

Theorem C15_uaf_refuted_before_fix_ex :
  exists t ops, all_legal false true (init t) ops = true /\ bad (run false true t ops) <> [].
Proof. exact uaf_refuted_before_fix. Qed.
Print Assumptions C15_uaf_refuted_before_fix_ex.

Theorem C15_leak_refuted_before_fix :
  all_legal true false (init true) [ONewObst 2; ONewObst 3; ODestroy] = true /\
  alive (run true false true [ONewObst 2; ONewObst 3; ODestroy]) = false /\
  heap (run true false true [ONewObst 2; ONewObst 3; ODestroy]) = [3; 2].
Proof. exact leak_before_fix_witness. Qed.
Print Assumptions C15_leak_refuted_before_fix.

Theorem C15_leak_refuted_before_fix_ex :
  exists t ops, all_legal true false (init t) ops = true /\
                alive (run true false t ops) = false /\ heap (run true false t ops) <> [].
Proof. exact leak_refuted_before_fix. Qed.
Print Assumptions C15_leak_refuted_before_fix_ex.

(* ---- setRoutingCheckpoints without `m_checkpoint_vertices.clear()` (fc = false): the freed vertices stay at
   the front of the list; the next rerouting dereferences them, the next call / ~ConnRef frees them again ---- *)
Theorem C15_checkpoint_uaf_refuted_without_clear :
  xall_legal true true false (xinit true false) cp_uaf_witness = true /\
  vbad (xrun true true false true false cp_uaf_witness) = [1; 0] /\
  vheap (xrun true true false true false cp_uaf_witness) = [2].
Proof. exact cp_uaf_without_clear_witness. Qed.
Print Assumptions C15_checkpoint_uaf_refuted_without_clear.

Theorem C15_checkpoint_double_free_refuted_without_clear :
  xall_legal true true false (xinit true false) cp_double_free_witness = true /\
  vbad (xrun true true false true false cp_double_free_witness) = [0] /\
  vfreed (xrun true true false true false cp_double_free_witness) = [0; 0].
Proof. exact cp_double_free_without_clear_witness. Qed.
Print Assumptions C15_checkpoint_double_free_refuted_without_clear.

Theorem C15_checkpoint_uaf_refuted_without_clear_ex :
  exists t p ops, xall_legal true true false (xinit t p) ops = true /\ vbad (xrun true true false t p ops) <> [].
Proof. exact checkpoint_uaf_refuted_without_clear. Qed.
Print Assumptions C15_checkpoint_uaf_refuted_without_clear_ex.

(* non-vacuity of the checkpoint theorems: the two witness histories are legal for the current code, pass through
   states with several live checkpoint vertices, and end clean (also after ~Router) *)
Theorem C15_checkpoints_nonvacuous :
  xall_legal true true true (xinit true false) cp_uaf_witness = true /\
  (let X := xrun true true true true false (firstn 4 cp_uaf_witness) in
   vheap X = [0; 1] /\ cpv X = [(10, 0); (10, 1)] /\ live_cp X 10 = 2) /\
  (let X := xrun true true true true false cp_uaf_witness in
   vbad X = [] /\ vheap X = [2] /\ cpv X = [(10, 2)] /\ vfreed X = [1; 0] /\ live_cp X 10 = 1) /\
  (let X := xrun true true true true false (cp_uaf_witness ++ [XCore ODestroy]) in
   alive (core X) = false /\ vbad X = [] /\ vheap X = [] /\ heap (core X) = []) /\
  (let X := xrun true true true true false cp_double_free_witness in
   vbad X = [] /\ vheap X = [] /\ vfreed X = [0] /\ heap (core X) = []).
Proof. exact cp_witnesses_current_code. Qed.
Print Assumptions C15_checkpoints_nonvacuous.

(* ---- non-vacuity: a legal 14-op history with a move of an obstacle that has an attached connector, a
   delete inside a pending transaction (of an obstacle a queued connector end refers to) and a destroy
   with a non-empty queue; it ends with bad = [] and heap = [], and the two pre-fix variants fail on it ---- *)
Theorem C15_nonvacuous :
  all_legal true true (init true) demo = true /\ length demo = 14 /\
  (let s := run true true true (firstn 8 demo) in
   queue s = [AMove 1; AConn 10 [(true, EObst 2)]; ARemove 2] /\ attached s = [(10, true, 2); (10, false, 1)]) /\
  (let s := run true true true (firstn 13 demo) in
   queue s = [AAdd 3; AConn 11 [(false, EObst 3); (true, EPoint)]; AMove 1] /\ alive s = true) /\
  (let s := run true true true demo in alive s = false /\ bad s = [] /\ heap s = []) /\
  bad (run false true true demo) = [2] /\ heap (run true false true demo) = [11; 3].
Proof.
  exact (conj (proj1 demo_legal) (conj (proj2 demo_legal)
        (conj (conj (proj1 demo_mid_transaction) (proj1 (proj2 demo_mid_transaction)))
        (conj (conj (proj1 demo_before_destroy) (proj2 (proj2 (proj2 (proj2 demo_before_destroy)))))
        (conj (conj (proj1 demo_end) (conj (proj1 (proj2 demo_end)) (proj1 (proj2 (proj2 demo_end)))))
              demo_before_fixes))))).
Qed.
Print Assumptions C15_nonvacuous.

(* ---- third layer: connection pins as heap objects owned by their shape / junction (Avoid/LifecyclePinModel.v, LifecyclePin.v;
   ops PNewPin = new ShapeConnectionPin, PDelPin = delete pin).  `prun fk fl fc fp t p ops`; fp = true is the current code,
   fp = false the variant in which a second pin of an owner compares equivalent and is not inserted into the owner's set. ---- *)
Theorem C15_pin_layer_extends_checkpoint_layer : forall t p ops,
  xs (prun true true true true t p ops) = xrun true true true t p (x_ops ops).
Proof. exact pin_xs_is_xrun. Qed.
Print Assumptions C15_pin_layer_extends_checkpoint_layer.

Theorem C15_pin_no_use_after_free : forall t p ops,
  pbad (prun true true true true t p ops) = [] /\
  bad (core (xs (prun true true true true t p ops))) = [] /\
  vbad (xs (prun true true true true t p ops)) = [].
Proof. exact pin_no_use_after_free. Qed.
Print Assumptions C15_pin_no_use_after_free.

Theorem C15_pins_owned : forall t p ops o q,
  In (o, q) (pown (prun true true true true t p ops)) ->
  In o (heap (core (xs (prun true true true true t p ops)))) /\ In q (pheap (prun true true true true t p ops)).
Proof. exact pin_pins_owned. Qed.
Print Assumptions C15_pins_owned.

Theorem C15_pin_sets_disjoint : forall t p ops, NoDup (map snd (pown (prun true true true true t p ops))).
Proof. exact pin_sets_disjoint. Qed.
Print Assumptions C15_pin_sets_disjoint.

Theorem C15_no_orphan_pin : forall t p ops q,
  In q (pheap (prun true true true true t p ops)) -> exists o, In (o, q) (pown (prun true true true true t p ops)).
Proof. exact pin_no_orphan. Qed.
Print Assumptions C15_no_orphan_pin.

Theorem C15_pin_heap_nodup_fresh : forall t p ops,
  NoDup (pheap (prun true true true true t p ops)) /\
  forall q, In q (pheap (prun true true true true t p ops)) -> ~ In q (pfreed (prun true true true true t p ops)).
Proof. exact pin_heap_nodup_fresh. Qed.
Print Assumptions C15_pin_heap_nodup_fresh.

Theorem C15_pin_destroy_releases_all : forall t p ops,
  alive (core (xs (prun true true true true t p ops))) = false ->
  pheap (prun true true true true t p ops) = [] /\
  heap (core (xs (prun true true true true t p ops))) = [] /\
  vheap (xs (prun true true true true t p ops)) = [].
Proof. exact pin_destroy_releases_all. Qed.
Print Assumptions C15_pin_destroy_releases_all.

(* what the correspondence compares: all allocated pins (= pin vertices in the router's vertex list) sit in pin sets *)
Theorem C15_live_pins_all_owned : forall t p ops,
  live_pins (prun true true true true t p ops) = length (pown (prun true true true true t p ops)).
Proof. exact live_pins_all_owned. Qed.
Print Assumptions C15_live_pins_all_owned.

(* the "second pin of an owner is not owned" variant leaks it at destruction (legal witness history) *)
Theorem C15_second_pin_not_owned_refuted :
  exists t p ops, pall_legal true true true false (pinit t p) ops = true /\
    alive (core (xs (prun true true true false t p ops))) = false /\
    pheap (prun true true true false t p ops) <> [].
Proof. exact second_pin_not_owned_refuted. Qed.
Print Assumptions C15_second_pin_not_owned_refuted.
