(* C15 - protocol part of "no memory error, failed assertion or leak on valid use": the ownership /
   queued-action protocol of Avoid::Router (model: Avoid/LifecycleModel.v, tied to the code by the
   correspondence harness of checks/c15.py).  Only statements closed by `exact`; the proofs live in
   Avoid/Lifecycle.v and hold for ALL op lists (invariant over `run`), both transaction modes `t`.
   `run fk fl t ops`: fk / fl = true is the current (repaired) code, false the code before the F-k / F-l
   repairs.  Illegal ops (documented preconditions violated) are no-ops in the model, so "for all op
   lists" means "for all legal histories, interleaved with arbitrary rejected calls". *)
From Coq Require Import List. Import ListNotations.
From Adapt Require Import Avoid.LifecycleModel Avoid.Lifecycle.

(* no queued pointer (action object, queued connector-end copy, attached follower) is dereferenced after
   its object was freed, and nothing is freed twice (free_obj of a non-heap object also logs into `bad`) *)
Theorem C15_no_use_after_free : forall t ops, bad (run true true t ops) = [].
Proof. exact no_use_after_free. Qed.
Print Assumptions C15_no_use_after_free.

Theorem C15_queue_objects_live : forall t ops a,
  In a (queue (run true true t ops)) -> In (act_obj a) (heap (run true true t ops)).
Proof. exact queue_objects_live. Qed.
Print Assumptions C15_queue_objects_live.

(* the ConnEnd copies stored inside queued connector updates - what removeObjectFromQueuedActions forgot *)
Theorem C15_queue_ends_live : forall t ops a o,
  In a (queue (run true true t ops)) -> In o (act_end_ids a) -> In o (heap (run true true t ops)).
Proof. exact queue_ends_live. Qed.
Print Assumptions C15_queue_ends_live.

Theorem C15_attached_live : forall t ops c w o,
  In (c, w, o) (attached (run true true t ops)) ->
  In c (heap (run true true t ops)) /\ In o (heap (run true true t ops)).
Proof. exact attached_live. Qed.
Print Assumptions C15_attached_live.

(* freed at most once, in terms of the allocation history *)
Theorem C15_heap_nodup_fresh : forall t ops,
  NoDup (heap (run true true t ops)) /\
  forall x, In x (heap (run true true t ops)) -> ~ In x (freed (run true true t ops)).
Proof. exact heap_nodup_fresh. Qed.
Print Assumptions C15_heap_nodup_fresh.

(* nothing is leaked once the router is destroyed *)
Theorem C15_destroy_releases_all : forall t ops,
  alive (run true true t ops) = false -> heap (run true true t ops) = [].
Proof. exact destroy_releases_all. Qed.
Print Assumptions C15_destroy_releases_all.

(* ---- the code before the repairs violates both properties (witnesses are legal histories) ---- *)
Theorem C15_uaf_refuted_before_fix :
  all_legal false true (init true) [ONewObst 1; OProcess; ONewConn 10 (EObst 1) EPoint; ODelObst 1; OProcess] = true /\
  bad (run false true true [ONewObst 1; OProcess; ONewConn 10 (EObst 1) EPoint; ODelObst 1; OProcess]) = [1].
Proof. exact uaf_before_fix_witness. Qed.
Print Assumptions C15_uaf_refuted_before_fix.

Theorem C15_uaf_refuted_before_fix_ex :
  exists t ops, all_legal false true (init t) ops = true /\ bad (run false true t ops) <> [].
Proof. exact uaf_refuted_before_fix. Qed.
Print Assumptions C15_uaf_refuted_before_fix_ex.

Theorem C15_leak_refuted_before_fix :
  all_legal true false (init true) [ONewObst 2; ONewObst 3; ODestroy] = true /\
  alive (run true false true [ONewObst 2; ONewObst 3; ODestroy]) = false /\
  heap (run true false true [ONewObst 2; ONewObst 3; ODestroy]) = [3; 2].
Proof. exact leak_before_fix_witness. Qed.
Print Assumptions C15_leak_refuted_before_fix.

Theorem C15_leak_refuted_before_fix_ex :
  exists t ops, all_legal true false (init t) ops = true /\
                alive (run true false t ops) = false /\ heap (run true false t ops) <> [].
Proof. exact leak_refuted_before_fix. Qed.
Print Assumptions C15_leak_refuted_before_fix_ex.

(* ---- non-vacuity: a legal 14-op history with a move of an obstacle that has an attached connector, a
   delete inside a pending transaction (of an obstacle a queued connector end refers to) and a destroy
   with a non-empty queue; it ends with bad = [] and heap = [], and the two pre-fix variants fail on it ---- *)
Theorem C15_nonvacuous :
  all_legal true true (init true) demo = true /\ length demo = 14 /\
  (let s := run true true true (firstn 8 demo) in
   queue s = [AMove 1; AConn 10 [(true, EObst 2)]; ARemove 2] /\ attached s = [(10, true, 2); (10, false, 1)]) /\
  (let s := run true true true (firstn 13 demo) in
   queue s = [AAdd 3; AConn 11 [(false, EObst 3); (true, EPoint)]; AMove 1] /\ alive s = true) /\
  (let s := run true true true demo in alive s = false /\ bad s = [] /\ heap s = []) /\
  bad (run false true true demo) = [2] /\ heap (run true false true demo) = [11; 3].
Proof.
  exact (conj (proj1 demo_legal) (conj (proj2 demo_legal)
        (conj (conj (proj1 demo_mid_transaction) (proj1 (proj2 demo_mid_transaction)))
        (conj (conj (proj1 demo_before_destroy) (proj2 (proj2 (proj2 (proj2 demo_before_destroy)))))
        (conj (conj (proj1 demo_end) (conj (proj1 (proj2 demo_end)) (proj1 (proj2 (proj2 demo_end)))))
              demo_before_fixes))))).
Qed.
Print Assumptions C15_nonvacuous.
