(* C15 - protocol part of "no memory error on valid use": placeholder with the computed refutations of the
   pre-fix code variants; the unbounded theorems are being added by Avoid/Lifecycle.v. *)
From Coq Require Import List. Import ListNotations.
From Adapt Require Import Avoid.LifecycleModel.

Theorem C15_uaf_refuted_before_fix :
  bad (run false true true [ONewObst 1; OProcess; ONewConn 10 (EObst 1) EPoint; ODelObst 1; OProcess]) = [1]
  /\ bad (run true true true [ONewObst 1; OProcess; ONewConn 10 (EObst 1) EPoint; ODelObst 1; OProcess]) = [].
Proof. split; vm_compute; reflexivity. Qed.
Print Assumptions C15_uaf_refuted_before_fix.

Theorem C15_leak_refuted_before_fix :
  heap (run true false true [ONewObst 2; ONewObst 3; ODestroy]) = [3; 2]
  /\ heap (run true true true [ONewObst 2; ONewObst 3; ODestroy]) = [].
Proof. split; vm_compute; reflexivity. Qed.
Print Assumptions C15_leak_refuted_before_fix.
