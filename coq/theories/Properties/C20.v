(* C20 - results are reproducible; routing / VPSC are independent of the frame.
   Only statements closed by `exact`; proofs in Rect/Determinism.v (scan line, hand-written model tied by the
   correspondence of checks/c09.py + c20.py), Geom/Symmetry.v and Geom/GeomProofs.v (about the cpp2v-GENERATED
   Gen/Geometry.v), Cola/PseudoRandom.v (hand-written LCG model tied by correspondence). *)
From Adapt Require Import Num.Qaux Rect.RectBase Rect.ScanlineModel Rect.Determinism
  Geom.GeomSpec Gen.Geometry Geom.GeomProofs Geom.Symmetry Cola.PseudoRandomModel Cola.PseudoRandom.
Local Open Scope Q_scope.

(* original CmpNodePos (centre, address): no equal centres => the address order is irrelevant *)
Theorem C20_scanline_addr_independent xb yb rs :
  (distinct_pos (posX xb rs) -> forall a1 a2 b,
     generateXConstraints (cmp_node_pos_addr a1) xb yb rs b = generateXConstraints (cmp_node_pos_addr a2) xb yb rs b) /\
  (distinct_pos (posY yb rs) -> forall a1 a2,
     generateYConstraints (cmp_node_pos_addr a1) xb yb rs = generateYConstraints (cmp_node_pos_addr a2) xb yb rs).
Proof. exact (scanline_addr_independent xb yb rs). Qed.
Print Assumptions C20_scanline_addr_independent.

(* ... and with equal centres it is not: defect F-d (replayed on the real code with allocator priming) *)
Theorem C20_scanline_addr_refuted :
  exists rs a1 a2, injective a1 /\ injective a2 /\
    generateYConstraints (cmp_node_pos_addr a1) 0 0 rs <> generateYConstraints (cmp_node_pos_addr a2) 0 0 rs /\
    generateXConstraints (cmp_node_pos_addr a1) 0 0 rs true <> generateXConstraints (cmp_node_pos_addr a2) 0 0 rs true /\
    generateXConstraints (cmp_node_pos_addr a1) 0 0 rs false <> generateXConstraints (cmp_node_pos_addr a2) 0 0 rs false.
Proof. exact scanline_addr_refuted. Qed.
Print Assumptions C20_scanline_addr_refuted.

(* repaired CmpNodePos (centre, Variable::id, address) with pairwise distinct ids: deterministic, whatever the centres *)
Theorem C20_scanline_deterministic ids xb yb rs : distinct_ids (length rs) ids ->
  forall a1 a2,
    (forall b, generateXConstraints (cmp_node_pos_id ids a1) xb yb rs b = generateXConstraints (cmp_node_pos_id ids a2) xb yb rs b) /\
    generateYConstraints (cmp_node_pos_id ids a1) xb yb rs = generateYConstraints (cmp_node_pos_id ids a2) xb yb rs.
Proof. exact (scanline_deterministic ids xb yb rs). Qed.
Print Assumptions C20_scanline_deterministic.

Theorem C20_removeoverlaps_ids_distinct n : distinct_ids n (map Z.of_nat (seq 0 n)).
Proof. exact (seq_ids_distinct n). Qed.
Print Assumptions C20_removeoverlaps_ids_distinct.

(* translating every rectangle leaves the generated constraint list unchanged (same l, r, gap) *)
Theorem C20_scanline_translate tx ty addr ids xb yb rs :
  (forall b, generateXConstraints (cmp_node_pos_addr addr) xb yb (map (rect_translate tx ty) rs) b =
             generateXConstraints (cmp_node_pos_addr addr) xb yb rs b) /\
  generateYConstraints (cmp_node_pos_addr addr) xb yb (map (rect_translate tx ty) rs) =
  generateYConstraints (cmp_node_pos_addr addr) xb yb rs /\
  (forall b, generateXConstraints (cmp_node_pos_id ids addr) xb yb (map (rect_translate tx ty) rs) b =
             generateXConstraints (cmp_node_pos_id ids addr) xb yb rs b) /\
  generateYConstraints (cmp_node_pos_id ids addr) xb yb (map (rect_translate tx ty) rs) =
  generateYConstraints (cmp_node_pos_id ids addr) xb yb rs.
Proof. exact (scanline_translate tx ty addr ids xb yb rs). Qed.
Print Assumptions C20_scanline_translate.

(* libavoid predicates (generated code): translation and the 8 symmetries of the square *)
Theorem C20_predicates_translate a b c d t :
  vecDir (pt_add a t) (pt_add b t) (pt_add c t) 0 = vecDir a b c 0 /\
  segmentIntersect (pt_add a t) (pt_add b t) (pt_add c t) (pt_add d t) = segmentIntersect a b c d.
Proof. exact (conj (vecDir_translate a b c t) (segmentIntersect_translate a b c d t)). Qed.
Print Assumptions C20_predicates_translate.

Theorem C20_predicates_symmetry s a b c d :
  vecDir (sq_apply s a) (sq_apply s b) (sq_apply s c) 0 = (sq_sign s * vecDir a b c 0)%Z /\
  segmentIntersect (sq_apply s a) (sq_apply s b) (sq_apply s c) (sq_apply s d) = segmentIntersect a b c d.
Proof. exact (conj (vecDir_symmetry s a b c) (segmentIntersect_symmetry s a b c d)). Qed.
Print Assumptions C20_predicates_symmetry.

Theorem C20_all_eight_symmetries s : In s all_sq.
Proof. exact (all_sq_complete s). Qed.
Print Assumptions C20_all_eight_symmetries.

(* PseudoRandom: the stream is a function of the seed, with an explicit recurrence *)
Theorem C20_pseudorandom_recurrence k seed n : (n < k)%nat ->
  nth n (stream k seed) 0 = inject_Z (Z.shiftr (iter_next (S n) seed) 16) / inject_Z pr_range.
Proof. exact (stream_recurrence k seed n). Qed.
Print Assumptions C20_pseudorandom_recurrence.

Theorem C20_pseudorandom_range seed : 0 <= snd (getNext seed) <= 1.
Proof. exact (getNext_range seed). Qed.
Print Assumptions C20_pseudorandom_range.

(* NOT PROVED here (stated as missing, see checks/c20.py META): vpsc_translate over the IncSolver model
   Vpsc/VpscModel.v (adding t to every desired position adds t to every result); it is validated by the replay runs. *)
