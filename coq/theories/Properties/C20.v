(* C20 - results are reproducible; routing / VPSC are independent of the frame.
   Only statements closed by `exact`; proofs in Rect/Determinism.v (scan line, hand-written model tied by the
   correspondence of checks/c09.py + c20.py), Geom/Symmetry.v and Geom/GeomProofs.v (about the cpp2v-GENERATED
   Gen/Geometry.v), Cola/PseudoRandom.v (hand-written LCG model tied by correspondence). *)
From Coq Require Import Permutation.
From Adapt Require Import Num.Qaux Rect.RectBase Rect.ScanlineModel Rect.Determinism
  Geom.GeomSpec Gen.Geometry Geom.GeomProofs Geom.Symmetry Cola.PseudoRandomModel Cola.PseudoRandom
  Vpsc.VpscSpec Vpsc.KKT Vpsc.VpscModel Vpsc.VpscRefute Vpsc.VpscSymmetry Vpsc.VpscTranslate.
Local Open Scope Q_scope.

(* original CmpNodePos (centre, address): no equal centres => the address order is irrelevant *)
Theorem C20_scanline_addr_independent xb yb rs :
  (distinct_pos (posX xb rs) -> forall a1 a2 b,
     generateXConstraints (cmp_node_pos_addr a1) xb yb rs b = generateXConstraints (cmp_node_pos_addr a2) xb yb rs b) /\
  (distinct_pos (posY yb rs) -> forall a1 a2,
     generateYConstraints (cmp_node_pos_addr a1) xb yb rs = generateYConstraints (cmp_node_pos_addr a2) xb yb rs).
Proof. exact (scanline_addr_independent xb yb rs). Qed.
Print Assumptions C20_scanline_addr_independent.

(* ... and with equal centres it is not: defect F-d (replayed on the real code with allocator priming) *)
Theorem C20_scanline_addr_refuted :
  exists rs a1 a2, injective a1 /\ injective a2 /\
    generateYConstraints (cmp_node_pos_addr a1) 0 0 rs <> generateYConstraints (cmp_node_pos_addr a2) 0 0 rs /\
    generateXConstraints (cmp_node_pos_addr a1) 0 0 rs true <> generateXConstraints (cmp_node_pos_addr a2) 0 0 rs true /\
    generateXConstraints (cmp_node_pos_addr a1) 0 0 rs false <> generateXConstraints (cmp_node_pos_addr a2) 0 0 rs false.
Proof. exact scanline_addr_refuted. Qed.
Print Assumptions C20_scanline_addr_refuted.

(* repaired CmpNodePos (centre, Variable::id, address) with pairwise distinct ids: deterministic, whatever the centres *)
Theorem C20_scanline_deterministic ids xb yb rs : distinct_ids (length rs) ids ->
  forall a1 a2,
    (forall b, generateXConstraints (cmp_node_pos_id ids a1) xb yb rs b = generateXConstraints (cmp_node_pos_id ids a2) xb yb rs b) /\
    generateYConstraints (cmp_node_pos_id ids a1) xb yb rs = generateYConstraints (cmp_node_pos_id ids a2) xb yb rs.
Proof. exact (scanline_deterministic ids xb yb rs). Qed.
Print Assumptions C20_scanline_deterministic.

Theorem C20_removeoverlaps_ids_distinct n : distinct_ids n (map Z.of_nat (seq 0 n)).
Proof. exact (seq_ids_distinct n). Qed.
Print Assumptions C20_removeoverlaps_ids_distinct.

(* translating every rectangle leaves the generated constraint list unchanged (same l, r, gap) *)
Theorem C20_scanline_translate tx ty addr ids xb yb rs :
  (forall b, generateXConstraints (cmp_node_pos_addr addr) xb yb (map (rect_translate tx ty) rs) b =
             generateXConstraints (cmp_node_pos_addr addr) xb yb rs b) /\
  generateYConstraints (cmp_node_pos_addr addr) xb yb (map (rect_translate tx ty) rs) =
  generateYConstraints (cmp_node_pos_addr addr) xb yb rs /\
  (forall b, generateXConstraints (cmp_node_pos_id ids addr) xb yb (map (rect_translate tx ty) rs) b =
             generateXConstraints (cmp_node_pos_id ids addr) xb yb rs b) /\
  generateYConstraints (cmp_node_pos_id ids addr) xb yb (map (rect_translate tx ty) rs) =
  generateYConstraints (cmp_node_pos_id ids addr) xb yb rs.
Proof. exact (scanline_translate tx ty addr ids xb yb rs). Qed.
Print Assumptions C20_scanline_translate.

(* libavoid predicates (generated code): translation and the 8 symmetries of the square *)
Theorem C20_predicates_translate a b c d t :
  vecDir (pt_add a t) (pt_add b t) (pt_add c t) 0 = vecDir a b c 0 /\
  segmentIntersect (pt_add a t) (pt_add b t) (pt_add c t) (pt_add d t) = segmentIntersect a b c d.
Proof. exact (conj (vecDir_translate a b c t) (segmentIntersect_translate a b c d t)). Qed.
Print Assumptions C20_predicates_translate.

Theorem C20_predicates_symmetry s a b c d :
  vecDir (sq_apply s a) (sq_apply s b) (sq_apply s c) 0 = (sq_sign s * vecDir a b c 0)%Z /\
  segmentIntersect (sq_apply s a) (sq_apply s b) (sq_apply s c) (sq_apply s d) = segmentIntersect a b c d.
Proof. exact (conj (vecDir_symmetry s a b c) (segmentIntersect_symmetry s a b c d)). Qed.
Print Assumptions C20_predicates_symmetry.

Theorem C20_all_eight_symmetries s : In s all_sq.
Proof. exact (all_sq_complete s). Qed.
Print Assumptions C20_all_eight_symmetries.

(* PseudoRandom: the stream is a function of the seed, with an explicit recurrence *)
Theorem C20_pseudorandom_recurrence k seed n : (n < k)%nat ->
  nth n (stream k seed) 0 = inject_Z (Z.shiftr (iter_next (S n) seed) 16) / inject_Z pr_range.
Proof. exact (stream_recurrence k seed n). Qed.
Print Assumptions C20_pseudorandom_recurrence.

Theorem C20_pseudorandom_range seed : 0 <= snd (getNext seed) <= 1.
Proof. exact (getNext_range seed). Qed.
Print Assumptions C20_pseudorandom_range.

(* ---------------------------------------------------------------- VPSC: numbering / order / frame independence *)
(* vpsc_permute: a certified optimum does not depend on the identifiers or order of variables and constraints.
   (vs', cs') is (vs, cs) with variable i renamed sg i (rh the inverse) and the constraint list renamed and
   reordered arbitrarily (`renumbering`, Vpsc/VpscSymmetry.v).  Every n, m, weights > 0, any scales. *)
Theorem C20_vpsc_permute vs cs lam x vs' cs' lam' y sg rh :
  wf_vars vs -> wf_cons vs cs ->
  renumbering vs cs vs' cs' sg rh ->
  length lam = length cs -> length lam' = length cs' ->
  kkt vs (combine cs lam) x -> kkt vs' (combine cs' lam') y ->
  forall i, (i < length vs)%nat -> y (sg i) == x i.
Proof. exact (vpsc_permute vs cs lam x vs' cs' lam' y sg rh). Qed.
Print Assumptions C20_vpsc_permute.

Theorem C20_vpsc_permute_perm vs cs lam x vs' cs' lam' y sg rh :
  wf_vars vs -> wf_cons vs cs ->
  length vs' = length vs ->
  (forall i, (i < length vs)%nat -> (sg i < length vs)%nat /\ rh (sg i) = i) ->
  (forall j, (j < length vs)%nat -> (rh j < length vs)%nat /\ sg (rh j) = j) ->
  (forall i, (i < length vs)%nat -> vget vs' (sg i) = vget vs i) ->
  Permutation cs' (map (ren sg) cs) ->
  length lam = length cs -> length lam' = length cs' ->
  kkt vs (combine cs lam) x -> kkt vs' (combine cs' lam') y ->
  forall i, (i < length vs)%nat -> y (sg i) == x i.
Proof. exact (vpsc_permute_perm vs cs lam x vs' cs' lam' y sg rh). Qed.
Print Assumptions C20_vpsc_permute_perm.

(* executable form, evaluated by checks/c20.py part (b) on every permuted pair of real runs: both certificates
   accepted + the renumbering relation checked => the certified optima agree up to the renumbering *)
Theorem C20_vpsc_permute_checked vs cs xs lam vs' cs' ys lam' p q :
  kkt_ok vs cs xs lam = true -> kkt_ok vs' cs' ys lam' = true ->
  renumbering_okb vs cs vs' cs' p q = true ->
  forall i, (i < length vs)%nat -> nth (nth i p O) ys 0 == nth i xs 0.
Proof. exact (vpsc_permute_checked vs cs xs lam vs' cs' ys lam' p q). Qed.
Print Assumptions C20_vpsc_permute_checked.

(* ... in particular for two runs of the IncSolver model whose results pass the certificate.  PARTIAL in the same
   sense as C02_solve_certified_partial: that inc_solve always ends in a state passing kkt_ok is not proved (and is
   false for re-solve histories before /repo 676ca34); the certificate is evaluated per run. *)
Theorem C20_vpsc_permute_model_partial fuel fuel' s0 s0' s s' lam lam' p q :
  inc_solve fuel s0 = Ok s -> inc_solve fuel' s0' = Ok s' ->
  kkt_ok (svars s) (scons s) (final_positions s) lam = true ->
  kkt_ok (svars s') (scons s') (final_positions s') lam' = true ->
  renumbering_okb (svars s) (scons s) (svars s') (scons s') p q = true ->
  forall i, (i < length (svars s))%nat -> nth (nth i p O) (final_positions s') 0 == nth i (final_positions s) 0.
Proof.
  exact (fun _ _ K K' R => vpsc_permute_checked (svars s) (scons s) (final_positions s) lam
                             (svars s') (scons s') (final_positions s') lam' p q K K' R).
Qed.
Print Assumptions C20_vpsc_permute_model_partial.

(* vpsc_translate (declarative): for scale-1 problems, translating every desired position by t translates the
   certified (= unique) optimum by t, with the same multipliers; feasibility is unchanged. *)
Theorem C20_vpsc_translate t vs cs lam x :
  unit_scale vs -> wf_vars vs -> wf_cons vs cs -> length lam = length cs ->
  kkt vs (combine cs lam) x ->
  kkt (shift_vars t vs) (combine cs lam) (shift_place t x) /\
  (forall z, feasible (shift_vars t vs) cs z ->
     obj (shift_vars t vs) (shift_place t x) <= obj (shift_vars t vs) z) /\
  (forall lam' y, length lam' = length cs -> kkt (shift_vars t vs) (combine cs lam') y ->
     forall i, (i < length vs)%nat -> y i == x i + t).
Proof. exact (vpsc_translate t vs cs lam x). Qed.
Print Assumptions C20_vpsc_translate.

Theorem C20_vpsc_translate_feasibility t vs cs :
  unit_scale vs -> wf_cons vs cs ->
  (forall x, feasible (shift_vars t vs) cs (shift_place t x) <-> feasible vs cs x) /\
  ((exists x, feasible vs cs x) <-> (exists y, feasible (shift_vars t vs) cs y)).
Proof.
  exact (fun U W => conj (fun x => feasible_shift t vs cs x U W) (feasibility_translation_invariant t vs cs U W)).
Qed.
Print Assumptions C20_vpsc_translate_feasibility.

Theorem C20_vpsc_translate_checked t vs cs xs lam ys lam' :
  unit_scaleb vs = true ->
  kkt_ok vs cs xs lam = true -> kkt_ok (shift_vars t vs) cs ys lam' = true ->
  forall i, (i < length vs)%nat -> nth i ys 0 == nth i xs 0 + t.
Proof. exact (vpsc_translate_checked t vs cs xs lam ys lam'). Qed.
Print Assumptions C20_vpsc_translate_checked.

(* vpsc_translate over the executable IncSolver model (Vpsc/VpscModel.v, tied to /repo by the correspondence runs of
   checks/c01.py): for scale-1 problems with positive weights, solve() on the instance whose desired positions are all
   translated by t ends the same way (Ok / same thrown constraint / out of fuel), and on Ok the two final states are
   related by `shifted`: identical block structure, active set, unsatisfiable flags, multipliers, offsets, inactive
   list and tie flag; every position translated by t.  Any fuel, any n, m, t.  (Vpsc/VpscTranslate.v) *)
Theorem C20_vpsc_translate_model t fuel vs cs :
  unit_pos vs -> wf_cons vs cs ->
  match inc_solve fuel (init vs cs), inc_solve fuel (init (shift_vars t vs) cs) with
  | Ok s, Ok s' => shifted t s s'
  | ThrowUnsat c, ThrowUnsat c' => c = c'
  | OutOfFuel, OutOfFuel => True
  | _, _ => False
  end.
Proof. exact (inc_solve_translate t fuel vs cs). Qed.
Print Assumptions C20_vpsc_translate_model.

Theorem C20_vpsc_translate_model_positions t fuel vs cs s s' :
  unit_pos vs -> wf_cons vs cs ->
  inc_solve fuel (init vs cs) = Ok s -> inc_solve fuel (init (shift_vars t vs) cs) = Ok s' ->
  (forall i, (i < length vs)%nat -> nth i (final_positions s') 0 == nth i (final_positions s) 0 + t) /\
  cuns s' = cuns s /\ cact s' = cact s /\ blist s' = blist s /\ vblk s' = vblk s.
Proof. exact (inc_solve_translate_positions t fuel vs cs s s'). Qed.
Print Assumptions C20_vpsc_translate_model_positions.

(* ... and for whole op histories (addConstraint / desired positions reassigned (translated) / solve / satisfy) *)
Theorem C20_vpsc_translate_model_history t fuel vs cs ops :
  unit_pos vs -> wf_cons vs cs ->
  (forall o, In o ops -> op_ok (length vs) o) ->
  translated t (length vs) (run_ops fuel (init vs cs) ops) (run_ops fuel (init (shift_vars t vs) cs) (map (shift_op t) ops)).
Proof. exact (run_ops_translate t fuel vs cs ops). Qed.
Print Assumptions C20_vpsc_translate_model_history.
