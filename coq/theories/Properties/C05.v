(* C05 - libavoid orthogonal: routes axis-parallel and of minimum length+bend cost; the bend-count estimate
   never exceeds the true minimum.
   Only statements closed by `exact`.  The estimator theorems are about the definitions regenerated from
   /repo/cola/libavoid/makepath.cpp by tools/cpp2v.py (Gen/Bends.v); proofs in Avoid/Bends.v, Avoid/BendsSpec.v,
   Avoid/GridOracle.v. *)
From Adapt Require Import Num.Qaux Avoid.BendsSpec Gen.Geometry Gen.Bends Avoid.Bends Avoid.GridOracle
     Avoid.GridOracleOpt.
Local Open Scope Q_scope.

(* The property's last sentence, at full strength: for all rational curr <> dest and all single directions, every
   orthogonal path (positive-length segments, never doubling back) from the search state (curr, currDir) that
   arrives at dest to continue in destDir has at least bends(curr,currDir,dest,destDir) bends. *)
Theorem C05_bends_lower_bound curr cd dest dd w :
  ~ pt_eq curr dest ->
  ok cd w dd -> pt_eq (path_end curr w) dest ->
  (bends curr (dir_code cd) dest (dir_code dd) <= nb cd w dd)%Z.
Proof. exact (bends_lower_bound curr cd dest dd w). Qed.
Print Assumptions C05_bends_lower_bound.

(* ... and it is attained in the free plane by a path with perpendicular consecutive segments *)
Theorem C05_bends_exact_free_plane curr cd dest dd :
  ~ pt_eq curr dest ->
  exists w, orth_path cd w dd /\ pt_eq (path_end curr w) dest /\
            nb cd w dd = bends curr (dir_code cd) dest (dir_code dd).
Proof. exact (bends_exact_free_plane curr cd dest dd). Qed.
Print Assumptions C05_bends_exact_free_plane.

(* the generated function equals the hand-written closed form *)
Theorem C05_bends_eq_spec curr cd dest dd :
  ~ pt_eq curr dest ->
  bends curr (dir_code cd) dest (dir_code dd) = min_bends_spec curr cd dest dd.
Proof. exact (bends_eq_spec curr cd dest dd). Qed.
Print Assumptions C05_bends_eq_spec.

(* the nine cases of bends() are exhaustive: neither COLA_ASSERT can fail *)
Theorem C05_bends_total curr cd dest dd :
  ~ pt_eq curr dest ->
  bends_asserts_ok curr (dir_code cd) dest (dir_code dd) = true.
Proof. exact (bends_total curr cd dest dd). Qed.
Print Assumptions C05_bends_total.

Theorem C05_dir_helpers d :
  dirRight (dir_code d) = dir_code (dright d) /\ dirLeft (dir_code d) = dir_code (dleft d) /\
  dirReverse (dir_code d) = dir_code (drev d).
Proof. exact (conj (dirRight_spec d) (conj (dirLeft_spec d) (dirReverse_spec d))). Qed.
Print Assumptions C05_dir_helpers.

(* admissibility of the orthogonal branch of estimatedCostSpecific (hand model of its arithmetic calling the
   generated bends / orthogonalDirection / manhattanDist) *)
Theorem C05_estimate_admissible last curr tar tarDirs penalty cd dd w :
  0 <= penalty ->
  orthogonalDirection last curr = dir_code cd ->
  Z.land tarDirs (dir_code dd) <> 0%Z ->
  ok cd w dd -> pt_eq (path_end curr w) tar ->
  estimated_cost_orth (Some last) curr tar tarDirs penalty <= path_cost cd w dd penalty.
Proof. exact (estimate_admissible last curr tar tarDirs penalty cd dd w). Qed.
Print Assumptions C05_estimate_admissible.

Theorem C05_estimate_admissible_initial curr tar tarDirs penalty dd w d0 :
  0 <= penalty ->
  orth_path d0 w dd -> pt_eq (path_end curr w) tar ->
  estimated_cost_orth None curr tar tarDirs penalty <= path_len w + inject_Z (nb_free w dd) * penalty.
Proof. exact (estimate_admissible_initial curr tar tarDirs penalty dd w d0). Qed.
Print Assumptions C05_estimate_admissible_initial.

(* the verified route checker run on every real route: accepted => endpoints right, every segment exactly
   axis-parallel and non-degenerate, no segment meets the open interior of a rectangle; the returned number is
   length + penalty * bends *)
Theorem C05_route_checker_sound rs src dst pen p c :
  check_path rs src dst pen p = Some c ->
  valid_orth_route rs src dst p /\ c = route_cost pen p.
Proof. exact (check_path_sound rs src dst pen p c). Qed.
Print Assumptions C05_route_checker_sound.

(* PARTIAL: the grid oracle is proved SOUND (its cost is the cost of a real orthogonal obstacle-avoiding path, so
   "implementation cost <= oracle cost" is a meaningful optimality test and a cheaper oracle path is a concrete
   counterexample route).  Missing for "the search finds the optimum": (a) the relaxation fixpoint is the minimum
   over Hanan-grid paths, (b) an optimal path exists on the Hanan grid (classical), (c) the implementation's A*
   over its scan-line visibility graph returns that optimum - (c) is validated only by cost equality on generated
   scenes (checks/c05.py). *)
Theorem C05_grid_oracle_partial rs src dst pen fuel c p :
  oracle rs src dst pen fuel = OR_cost c p ->
  valid_orth_route rs src dst p /\ c = route_cost pen p.
Proof. exact (oracle_sound rs src dst pen fuel c p). Qed.
Print Assumptions C05_grid_oracle_partial.

(* ---- optimality of the grid oracle over the grid graph it searches (part (a) of the list above; Avoid/GridOracleOpt.v).
   States: (Hanan-grid point, direction 0 N / 1 E / 2 S / 3 W).  gstep: a move to the neighbouring grid line in the
   current direction costs the distance and is allowed iff the grid segment does not run through the interior of the
   union of the rectangles (hblocked / vblocked); a turn to a perpendicular direction costs pen and is allowed
   everywhere except at dst and at src (noturn src dst; noturn_false: noturn src dst p = false <-> p <> dst /\ p <> src).
   A state (src, d0) means "leaves src travelling d0" (sd = mask of allowed directions of the first segment), a state
   (dst, d1) "arrived at dst travelling d1" (ad = mask of allowed travel directions of the last segment: for libavoid
   ConnDirFlags, which name the SIDE of the endpoint the connector attaches to, the reverse of each flag).
   No move leads INTO src (third predicate argument of gwalk: a path never returns to / passes through its own source) and none
   OUT of dst (fourth: a path ends when it reaches its target; it does not run through it and come back) - with these two rules a
   walk cannot profit from doubling back, which the turn rule alone would permit as two turns at one point.
   gwalk = arbitrary finite walks.  So: the oracle's cost is <= length + pen * bends of
   every orthogonal path ON THAT GRID that avoids the rectangle interiors, for every allowed start / arrival direction.
   Still assumed, not proved (b): HANAN-GRID SUFFICIENCY - some optimal orthogonal obstacle-avoiding path of the plane
   runs on the Hanan grid of the rectangle sides and the endpoints (classical); and (c) as above. *)
Theorem C05_grid_oracle_optimal rs src dst pen sd ad fuel k p :
  (0 <= pen)%Z ->
  oracle_dirs rs src dst pen sd ad fuel = OR_cost k p ->
  forall d0 d1 C, (0 <= d0 <= 3)%Z -> dir_allowed sd d0 = true -> dir_allowed ad d1 = true ->
    gwalk rs (hanan_xs rs src dst) (hanan_ys rs src dst) pen (noturn src dst) (fun p => zp_eqb p src) (fun p => zp_eqb p dst) (src, d0) (dst, d1) C -> (k <= C)%Z.
Proof. exact (fun H => grid_oracle_optimal rs src dst pen sd ad fuel H k p). Qed.
Print Assumptions C05_grid_oracle_optimal.

Theorem C05_grid_oracle_unreachable rs src dst pen sd ad fuel :
  (0 <= pen)%Z ->
  oracle_dirs rs src dst pen sd ad fuel = OR_unreachable ->
  forall d0 d1 C, (0 <= d0 <= 3)%Z -> dir_allowed sd d0 = true -> dir_allowed ad d1 = true ->
    ~ gwalk rs (hanan_xs rs src dst) (hanan_ys rs src dst) pen (noturn src dst) (fun p => zp_eqb p src) (fun p => zp_eqb p dst) (src, d0) (dst, d1) C.
Proof. exact (grid_oracle_unreachable rs src dst pen sd ad fuel). Qed.
Print Assumptions C05_grid_oracle_unreachable.

Theorem C05_noturn_false src dst p : noturn src dst p = false <-> p <> dst /\ p <> src.
Proof. exact (noturn_false src dst p). Qed.
Print Assumptions C05_noturn_false.

Theorem C05_grid_oracle_optimal_plain rs src dst pen fuel k p :
  (0 <= pen)%Z -> oracle rs src dst pen fuel = OR_cost k p ->
  forall d0 d1 C, (0 <= d0 <= 3)%Z -> (0 <= d1 <= 3)%Z ->
    gwalk rs (hanan_xs rs src dst) (hanan_ys rs src dst) pen (noturn src dst) (fun p => zp_eqb p src) (fun p => zp_eqb p dst) (src, d0) (dst, d1) C -> (k <= C)%Z.
Proof. exact (grid_oracle_optimal_plain rs src dst pen fuel k p). Qed.
Print Assumptions C05_grid_oracle_optimal_plain.
