(* C16 - libavoid geometry predicates agree with exact arithmetic.
   Only statements closed by `exact`; the proofs live in Geom/GeomProofs.v and are about the
   definitions regenerated from /repo/cola/libavoid/geometry.{h,cpp} by tools/cpp2v.py. *)
From Adapt Require Import Num.Qaux Geom.GeomSpec Gen.Geometry Geom.GeomProofs.
Local Open Scope Q_scope.

Theorem C16_vecDir_spec a b c :
  (vecDir a b c 0 = 1%Z <-> 0 < cross a b c) /\
  (vecDir a b c 0 = 0%Z <-> cross a b c == 0) /\
  (vecDir a b c 0 = (-1)%Z <-> cross a b c < 0).
Proof. exact (vecDir_spec a b c). Qed.
Print Assumptions C16_vecDir_spec.

Theorem C16_segmentIntersect_spec a b c d :
  segmentIntersect a b c d = true <-> properly_cross a b c d.
Proof. exact (segmentIntersect_spec a b c d). Qed.
Print Assumptions C16_segmentIntersect_spec.

Theorem C16_pointOnLine_spec a b c :
  pointOnLine a b c 0 = true <-> strictly_between a b c.
Proof. exact (pointOnLine_spec a b c). Qed.
Print Assumptions C16_pointOnLine_spec.

Theorem C16_segmentIntersect_symmetric a b c d :
  segmentIntersect b a c d = segmentIntersect a b c d /\
  segmentIntersect a b d c = segmentIntersect a b c d /\
  segmentIntersect c d a b = segmentIntersect a b c d.
Proof.
  exact (conj (segmentIntersect_swap_ab a b c d)
        (conj (segmentIntersect_swap_cd a b c d) (segmentIntersect_swap_segments a b c d))).
Qed.
Print Assumptions C16_segmentIntersect_symmetric.

Theorem C16_vecDir_antisymmetric a b c : vecDir a c b 0 = (- vecDir a b c 0)%Z.
Proof. exact (vecDir_antisym a b c). Qed.
Print Assumptions C16_vecDir_antisymmetric.

Theorem C16_pointOnLine_symmetric a b c : pointOnLine b a c 0 = pointOnLine a b c 0.
Proof. exact (pointOnLine_sym a b c). Qed.
Print Assumptions C16_pointOnLine_symmetric.
