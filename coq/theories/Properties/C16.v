(* C16 - libavoid geometry predicates agree with exact arithmetic.
   Only statements closed by `exact`; the proofs live in Geom/GeomProofs.v and are about the
   definitions regenerated from /repo/cola/libavoid/geometry.{h,cpp} by tools/cpp2v.py. *)
From Adapt Require Import Num.Qaux Geom.GeomSpec Geom.GeomSpecDec Gen.Geometry Geom.GeomProofs Geom.Symmetry.
From Adapt Require Import Geom.LineSegTypes Geom.LineSegSpec Gen.LineSeg Geom.LineSegProofs.
Local Open Scope Q_scope.

Theorem C16_vecDir_spec a b c :
  (vecDir a b c 0 = 1%Z <-> 0 < cross a b c) /\
  (vecDir a b c 0 = 0%Z <-> cross a b c == 0) /\
  (vecDir a b c 0 = (-1)%Z <-> cross a b c < 0).
Proof. exact (vecDir_spec a b c). Qed.
Print Assumptions C16_vecDir_spec.

Theorem C16_segmentIntersect_spec a b c d :
  segmentIntersect a b c d = true <-> properly_cross a b c d.
Proof. exact (segmentIntersect_spec a b c d). Qed.
Print Assumptions C16_segmentIntersect_spec.

Theorem C16_pointOnLine_spec a b c :
  pointOnLine a b c 0 = true <-> strictly_between a b c.
Proof. exact (pointOnLine_spec a b c). Qed.
Print Assumptions C16_pointOnLine_spec.

Theorem C16_segmentIntersect_symmetric a b c d :
  segmentIntersect b a c d = segmentIntersect a b c d /\
  segmentIntersect a b d c = segmentIntersect a b c d /\
  segmentIntersect c d a b = segmentIntersect a b c d.
Proof.
  exact (conj (segmentIntersect_swap_ab a b c d)
        (conj (segmentIntersect_swap_cd a b c d) (segmentIntersect_swap_segments a b c d))).
Qed.
Print Assumptions C16_segmentIntersect_symmetric.

Theorem C16_vecDir_antisymmetric a b c : vecDir a c b 0 = (- vecDir a b c 0)%Z.
Proof. exact (vecDir_antisym a b c). Qed.
Print Assumptions C16_vecDir_antisymmetric.

Theorem C16_pointOnLine_symmetric a b c : pointOnLine b a c 0 = pointOnLine a b c 0.
Proof. exact (pointOnLine_sym a b c). Qed.
Print Assumptions C16_pointOnLine_symmetric.

(* ---- C16 extension: intersection points *)
Theorem C16_segmentIntersectPoint_spec a1 a2 b1 b2 x y :
  segmentIntersectPoint_meaning a1 a2 b1 b2 x y (segmentIntersectPoint a1 a2 b1 b2 x y).
Proof. exact (segmentIntersectPoint_spec a1 a2 b1 b2 x y). Qed.
Print Assumptions C16_segmentIntersectPoint_spec.

Theorem C16_rayIntersectPoint_spec a1 a2 b1 b2 x y :
  rayIntersectPoint_meaning a1 a2 b1 b2 x y (rayIntersectPoint a1 a2 b1 b2 x y).
Proof. exact (rayIntersectPoint_spec a1 a2 b1 b2 x y). Qed.
Print Assumptions C16_rayIntersectPoint_spec.

(* ---- C16 extension: colinear, inBetween, cornerSide, inValidRegion *)
Theorem C16_colinear_spec a b c : colinear a b c 0 = true <-> cross a b c == 0.
Proof. exact (colinear_spec a b c). Qed.
Print Assumptions C16_colinear_spec.

Theorem C16_inBetween_spec a b c :
  cross a b c == 0 -> (px a == px b \/ dbl_epsilon < Qabs' (px a - px b)) ->
  (inBetween a b c = true <-> strictly_between a b c).
Proof. exact (inBetween_collinear_spec a b c). Qed.
Print Assumptions C16_inBetween_spec.

Theorem C16_cornerSide_spec c1 c2 c3 p : cornerSide_meaning c1 c2 c3 p (cornerSide c1 c2 c3 p).
Proof. exact (cornerSide_spec c1 c2 c3 p). Qed.
Print Assumptions C16_cornerSide_spec.

Theorem C16_inValidRegion_spec ig a0 a1 a2 b :
  inValidRegion_meaning ig a0 a1 a2 b (inValidRegion ig a0 a1 a2 b).
Proof. exact (inValidRegion_spec ig a0 a1 a2 b). Qed.
Print Assumptions C16_inValidRegion_spec.

(* ---- C16 extension: segmentShapeIntersect (touching at an end point is allowed once per shape) *)
Theorem C16_segmentShapeIntersect_spec e1 e2 s1 s2 seen :
  segmentShapeIntersect_meaning e1 e2 s1 s2 seen (segmentShapeIntersect e1 e2 s1 s2 seen).
Proof. exact (segmentShapeIntersect_spec e1 e2 s1 s2 seen). Qed.
Print Assumptions C16_segmentShapeIntersect_spec.

Theorem C16_shapeBlocks_closed e1 e2 edges :
  shapeBlocks e1 e2 edges =
  existsb (fun edge => segmentIntersect e1 e2 (fst edge) (snd edge)) edges || (2 <=? spec_touchCount e1 e2 edges)%nat.
Proof. exact (shapeBlocks_closed e1 e2 edges). Qed.
Print Assumptions C16_shapeBlocks_closed.

(* ---- C16 extension: manhattanDist, projection *)
Theorem C16_manhattanDist_spec a b : manhattanDist a b == Qabs (px a - px b) + Qabs (py a - py b).
Proof. exact (manhattanDist_spec a b). Qed.
Print Assumptions C16_manhattanDist_spec.

Theorem C16_projection_spec a b c : ~ pt_eq a c ->
  is_foot a c b (projection a b c) /\ forall p, is_foot a c b p -> pt_eq p (projection a b c).
Proof. exact (projection_spec a b c). Qed.
Print Assumptions C16_projection_spec.

(* ---- C16 extension: inPolyGen *)
Theorem C16_inPolyGen_eq_crossing_parity P q : inPolyGen P q = spec_inPolyGen P q.
Proof. exact (inPolyGen_eq_spec P q). Qed.
Print Assumptions C16_inPolyGen_eq_crossing_parity.

Theorem C16_inPolyGen_vertex P q : (exists p, In p P /\ pt_eq p q) -> inPolyGen P q = true.
Proof. exact (inPolyGen_vertex P q). Qed.
Print Assumptions C16_inPolyGen_vertex.

Theorem C16_inPolyGen_triangle A B C q : ~ cross A B C == 0 ->
  (inPolyGen [A; B; C] q = true <-> in_closed_triangle A B C q).
Proof. exact (inPolyGen_triangle A B C q). Qed.
Print Assumptions C16_inPolyGen_triangle.

Theorem C16_inPolyGen_rect x0 x1 y0 y1 o q : x0 < x1 -> y0 < y1 -> In o rect_orders ->
  (inPolyGen (rect_poly o x0 x1 y0 y1) q = true <-> in_closed_rect x0 x1 y0 y1 q).
Proof. exact (inPolyGen_rect x0 x1 y0 y1 o q). Qed.
Print Assumptions C16_inPolyGen_rect.

(* ---- C16 extension: the eight symmetries of the square (orientation sign tracked) and translations *)
Theorem C16_square_symmetries s :
  (forall a b c, vecDir (sq_apply s a) (sq_apply s b) (sq_apply s c) 0 = (sq_sign s * vecDir a b c 0)%Z) /\
  (forall a b c d, segmentIntersect (sq_apply s a) (sq_apply s b) (sq_apply s c) (sq_apply s d) = segmentIntersect a b c d) /\
  (forall a b c, pointOnLine (sq_apply s a) (sq_apply s b) (sq_apply s c) 0 = pointOnLine a b c 0) /\
  (sq_sign s = 1%Z -> forall P q cb, inPoly (map (sq_apply s) P) (sq_apply s q) cb = inPoly P q cb) /\
  (sq_sign s = (-1)%Z -> forall P q cb, inPoly (rev (map (sq_apply s) P)) (sq_apply s q) cb = inPoly P q cb).
Proof.
  exact (conj (vecDir_symmetry s) (conj (segmentIntersect_symmetry s) (conj (pointOnLine_symmetry s)
        (conj (fun H P q cb => inPoly_symmetry_rot s P q cb H) (fun H P q cb => inPoly_symmetry_refl s P q cb H))))).
Qed.
Print Assumptions C16_square_symmetries.

Theorem C16_translations t :
  (forall a b c, vecDir (pt_add a t) (pt_add b t) (pt_add c t) 0 = vecDir a b c 0) /\
  (forall a b c d, segmentIntersect (pt_add a t) (pt_add b t) (pt_add c t) (pt_add d t) = segmentIntersect a b c d) /\
  (forall a b c, pointOnLine (pt_add a t) (pt_add b t) (pt_add c t) 0 = pointOnLine a b c 0) /\
  (forall P q cb, inPoly (map (fun p => pt_add p t) P) (pt_add q t) cb = inPoly P q cb).
Proof.
  exact (conj (fun a b c => vecDir_translate a b c t) (conj (fun a b c d => segmentIntersect_translate a b c d t)
        (conj (fun a b c => pointOnLine_translate a b c t) (fun P q cb => inPoly_translate P q cb t)))).
Qed.
Print Assumptions C16_translations.

(* ---- C16 extension: linesegment::LineSegment::Intersect (cola/libvpsc/linesegment.h, regenerated into Gen/LineSeg.v)
   and vpsc::Rectangle::lineIntersections built on it.  (LineSeg.PARALLEL = 0 is the enumerator of
   LineSegment::IntersectResult, not libavoid's PARALLEL = 3 of Gen/Geometry.v.) *)
Theorem C16_LineSegment_Intersect_eq_spec s o iv :
  LineSegment_Intersect s o iv = spec_LineSegment_Intersect s o iv.
Proof. exact (LineSegment_Intersect_eq_spec s o iv). Qed.
Print Assumptions C16_LineSegment_Intersect_eq_spec.

(* INTERSECTING <-> directions not parallel and the CLOSED segments share a point (ua, ub in [0,1]), and then the
   out-parameter is that unique point; NOT_INTERSECTING <-> not parallel and no common point; COINCIDENT <-> parallel
   directions and all four end points on one line; PARALLEL otherwise; out-parameter untouched unless INTERSECTING *)
Theorem C16_LineSegment_Intersect_spec s o iv :
  LineSegment_Intersect_meaning s o iv (LineSegment_Intersect s o iv).
Proof. exact (LineSegment_Intersect_spec s o iv). Qed.
Print Assumptions C16_LineSegment_Intersect_spec.

Theorem C16_LineSegment_Intersect_symmetric s o iv iv' :
  (fst (LineSegment_Intersect o s iv') = fst (LineSegment_Intersect s o iv) /\
   (fst (LineSegment_Intersect s o iv) = INTERSECTING ->
    pt_eq (snd (LineSegment_Intersect o s iv')) (snd (LineSegment_Intersect s o iv)))) /\
  fst (LineSegment_Intersect (lseg_rev s) o iv) = fst (LineSegment_Intersect s o iv) /\
  fst (LineSegment_Intersect s (lseg_rev o) iv) = fst (LineSegment_Intersect s o iv) /\
  (fst (LineSegment_Intersect s o iv) = INTERSECTING ->
   pt_eq (snd (LineSegment_Intersect (lseg_rev s) o iv)) (snd (LineSegment_Intersect s o iv)) /\
   pt_eq (snd (LineSegment_Intersect s (lseg_rev o) iv)) (snd (LineSegment_Intersect s o iv))).
Proof. exact (conj (LineSegment_Intersect_swap s o iv iv') (LineSegment_Intersect_reverse s o iv)). Qed.
Print Assumptions C16_LineSegment_Intersect_symmetric.

Theorem C16_LineSegment_Intersect_zero_length s o iv :
  pt_eq (lbegin s) (lend s) \/ pt_eq (lbegin o) (lend o) ->
  let code := fst (LineSegment_Intersect s o iv) in
  (code = COINCIDENT \/ code = LineSeg.PARALLEL) /\
  (code = COINCIDENT <-> on_common_line (lbegin s) (lend s) (lbegin o) (lend o)) /\
  snd (LineSegment_Intersect s o iv) = iv.
Proof. exact (LineSegment_Intersect_zero_length s o iv). Qed.
Print Assumptions C16_LineSegment_Intersect_zero_length.

Theorem C16_lineIntersections_flags x0 x1 y0 y1 l :
  let code sd := fst (LineSegment_Intersect l (rect_side x0 x1 y0 y1 sd) pt0) in
  let r := lineIntersections_model LineSegment_Intersect x0 x1 y0 y1 l ri0 in
  ((exists sd, code sd = COINCIDENT) -> ri_intersects r = false /\ forall sd, ri_flag sd r = false) /\
  ((forall sd, code sd <> COINCIDENT) ->
     (forall sd, ri_flag sd r = Z.eqb (code sd) INTERSECTING) /\
     ri_intersects r = Z.eqb (code STop) INTERSECTING || Z.eqb (code SBottom) INTERSECTING
                       || Z.eqb (code SLeft) INTERSECTING || Z.eqb (code SRight) INTERSECTING).
Proof. exact (lineIntersections_flags x0 x1 y0 y1 l). Qed.
Print Assumptions C16_lineIntersections_flags.
