(* C18 - libdialect: constraint transforms commute with geometry; TGLF round-trips (DESIGN 5.18).
   Only statements closed by `exact`; proofs in Dialect/SepPair.v over the hand model Dialect/SepPairModel.v
   (tied to /repo/cola/libdialect/constraints.cpp, io.cpp by the exhaustive correspondence of checks/c18.py). *)
From Adapt Require Import Num.Qaux Num.SignedZero Dialect.SepPairModel Dialect.SepPair.
Local Open Scope Q_scope.

(* every kind / gap type / relation / sign bit (also of zero) / transform; gaps, coordinates, sizes symbolic *)
Theorem C18_transform_commutes extra tf sp p :
  holds extra p sp <-> holds extra (tf_place tf p) (transform tf sp).
Proof. exact (transform_commutes extra tf sp p). Qed.
Print Assumptions C18_transform_commutes.

(* the transforms act on all six fields (sign bits included) as the symmetry group of the square *)
Theorem C18_transform_group a b sp :
  d4_apply a (d4_apply b sp) = d4_apply (d4_mul a b) sp /\
  d4_mat (d4_mul a b) = mat_mul (d4_mat a) (d4_mat b).
Proof. exact (conj (transform_group a b sp) (d4_mul_is_matrix_product a b)). Qed.
Print Assumptions C18_transform_group.

Theorem C18_four_quarter_turns_and_double_flips sp :
  transform ROTATE90CW (transform ROTATE90CW (transform ROTATE90CW (transform ROTATE90CW sp))) = sp /\
  transform FLIPV (transform FLIPV sp) = sp /\ transform FLIPH (transform FLIPH sp) = sp /\
  transform FLIPMD (transform FLIPMD sp) = sp /\ transform FLIPOD (transform FLIPOD sp) = sp /\
  transform ROTATE180 (transform ROTATE180 sp) = sp /\
  transform ROTATE90ACW (transform ROTATE90CW sp) = sp /\ transform ROTATE90CW (transform ROTATE90ACW sp) = sp.
Proof. exact (conj (rotate90cw_four_times sp) (flip_twice sp)). Qed.
Print Assumptions C18_four_quarter_turns_and_double_flips.

(* storing c under (a,b) and its negation under (b,a): same stored pairs, whatever the matrix held before *)
Theorem C18_flip_equiv a b gt sd st g m :
  option_map m_pairs (m_addSep true a b gt sd st g m) =
  option_map m_pairs (m_addSep true b a gt (negateSepDir sd) st g m).
Proof. exact (flip_equiv a b gt sd st g m). Qed.
Print Assumptions C18_flip_equiv.

(* without the flag refresh of /repo 88a99a7 this is false (the defect that commit repaired) *)
Theorem C18_flip_equiv_refuted_without_refresh :
  exists a b gt sd st g m,
    option_map m_pairs (m_addSep false a b gt sd st g m) <>
    option_map m_pairs (m_addSep false b a gt (negateSepDir sd) st g m).
Proof. exact flip_equiv_refuted. Qed.
Print Assumptions C18_flip_equiv_refuted_without_refresh.

Theorem C18_getCardinalDir_flip a b m :
  snd (m_getCardinalDir b a m) = option_map (option_map cardFlip) (snd (m_getCardinalDir a b m)).
Proof. exact (getCardinalDir_flip a b m). Qed.
Print Assumptions C18_getCardinalDir_flip.

Theorem C18_addSep_meaning extra gt sd st g p :
  st <> NONE ->
  (holds extra p (addSep gt sd st g sp_default) <->
   request_holds extra gt sd st g (p_sx p) (p_sy p) (p_sw p) (p_sh p) (p_tx p) (p_ty p) (p_tw p) (p_th p)).
Proof. exact (addSep_meaning extra gt sd st g p). Qed.
Print Assumptions C18_addSep_meaning.

(* the generated vpsc constraint holds for the centres iff that dimension of the pair holds *)
Theorem C18_gen_constraint_sound extra st gt g ws wt cs ct :
  match gen_dim extra st gt g ws wt with
  | None => st = NONE
  | Some c => vc_holds c cs ct <-> holds_dim extra st gt g cs ct ws wt
  end.
Proof. exact (gen_constraint_sound extra st gt g ws wt cs ct). Qed.
Print Assumptions C18_gen_constraint_sound.

(* SEPCO lines: write then read gives a pair with the same meaning (also when the reader numbers the two nodes
   in the other order); number formatting/parsing enter as hypotheses *)
Theorem C18_tglf_sep_roundtrip (tok : Type) (fmt : Q -> tok) (parse : tok -> sgap) (zero_tok : tok)
        (exact : Q -> Prop)
        (parse_fmt : forall q, 0 <= q -> exact q -> sg_same (parse (fmt q)) (mkSg false q))
        (parse_zero : sg_same (parse zero_tok) sg_pz) extra sp :
  sp_wf sp -> 0 <= extra ->
  exact (written extra (xgt sp) (xgap sp)) -> exact (written extra (ygt sp) (ygap sp)) ->
  match write_sep tok fmt zero_tok extra sp with
  | None => coincide sp
  | Some ls =>
    (forall p, holds extra p sp <-> holds 0 p (read_sep tok parse false ls)) /\
    (forall p, holds extra p sp <-> holds 0 (swap_place p) (read_sep tok parse true ls))
  end.
Proof. exact (tglf_sep_roundtrip tok fmt parse zero_tok exact parse_fmt parse_zero extra sp). Qed.
Print Assumptions C18_tglf_sep_roundtrip.

Theorem C18_tglf_rejected_iff (tok : Type) (fmt : Q -> tok) (zero_tok : tok) extra sp :
  sp_wf sp -> (write_sep tok fmt zero_tok extra sp = None <-> coincide sp).
Proof. exact (tglf_rejected_iff tok fmt zero_tok extra sp). Qed.
Print Assumptions C18_tglf_rejected_iff.

(* ---- flip_equiv for every other public mutator overload of SepMatrix ---- *)
Theorem C18_flip_equiv_fixed a b dx dy m :
  option_map m_pairs (m_addFixedRelativeSep true a b dx dy m) =
  option_map m_pairs (m_addFixedRelativeSep true b a (sg_neg dx) (sg_neg dy) m).
Proof. exact (flip_equiv_fixed a b dx dy m). Qed.
Print Assumptions C18_flip_equiv_fixed.

Theorem C18_setCardinalOP_flip a b c m :
  option_map m_pairs (m_setCardinalOP true a b c m) = option_map m_pairs (m_setCardinalOP true b a (cardFlip c) m).
Proof. exact (setCardinalOP_flip a b c m). Qed.
Print Assumptions C18_setCardinalOP_flip.

(* symmetric requests: the records stored under the two id orders differ at most in the sign bit of a zero gap of a
   CENTRE/EQ dimension and mean the same for every placement and extra boundary gap *)
Theorem C18_align_flip_equiv eq_y a b m :
  opt_rel pairs_equiv (option_map m_pairs (m_alignByEquatedCoord true a b eq_y m))
                      (option_map m_pairs (m_alignByEquatedCoord true b a eq_y m)).
Proof. exact (align_flip_equiv eq_y a b m). Qed.
Print Assumptions C18_align_flip_equiv.

(* the position-based addFixedRelativeSep(id1,id2): both id orders store equivalent records ... *)
Theorem C18_fixed_pos_flip_equiv a b pos m :
  opt_rel pairs_equiv (option_map m_pairs (m_addFixedRelativeSepPos true a b pos m))
                      (option_map m_pairs (m_addFixedRelativeSepPos true b a pos m)).
Proof. exact (fixed_pos_flip_equiv a b pos m). Qed.
Print Assumptions C18_fixed_pos_flip_equiv.

(* ... which the present placement satisfies, for any node sizes and extra boundary gap *)
Theorem C18_fixed_pos_frozen a b pos size extra m m' :
  m_addFixedRelativeSepPos true a b pos m = Some m' ->
  exists e, m_find (Nat.min a b) (Nat.max a b) m' = Some e /\
            holds extra (place_of pos size (Nat.min a b) (Nat.max a b)) (en_sp e).
Proof. exact (fixed_pos_frozen a b pos size extra m m'). Qed.
Print Assumptions C18_fixed_pos_frozen.

(* measuring the offset from the smaller to the larger id and passing it to the 4-argument overload stores the point reflection *)
Theorem C18_fixed_pos_storage_orientation_refuted :
  exists a b pos m', m_addFixedRelativeSepPos_storage_orientation a b pos [] = Some m' /\
    forall e, m_find (Nat.min a b) (Nat.max a b) m' = Some e ->
              ~ holds 0 (place_of pos (fun _ => (1, 1)) (Nat.min a b) (Nat.max a b)) (en_sp e).
Proof. exact fixed_pos_storage_orientation_refuted. Qed.
Print Assumptions C18_fixed_pos_storage_orientation_refuted.

Theorem C18_free_sym a b m : m_free a b m = m_free b a m.
Proof. exact (free_sym a b m). Qed.
Print Assumptions C18_free_sym.

Theorem C18_transformClosedSubset_all tf ids m :
  (forall e, In e m -> mem_id (en_lo e) ids = true /\ mem_id (en_hi e) ids = true) ->
  m_transformClosedSubset tf ids m = m_transform tf m.
Proof. exact (transformClosedSubset_all tf ids m). Qed.
Print Assumptions C18_transformClosedSubset_all.

(* the fallback of the twin comparison (checks/c18.py): sep_equivb = true for every extra gap gives the relation above *)
Theorem C18_sep_equivb_sound extra sp extra' sp' :
  sep_equivb extra sp extra' sp' = true -> forall p, holds extra p sp <-> holds extra' p sp'.
Proof. exact (sep_equivb_sound extra sp extra' sp'). Qed.
Print Assumptions C18_sep_equivb_sound.

(* ---- the merge loops of SepMatrix::transformClosedSubset / transformOpenSubset (Dialect/SepSubsetModel.v, statement by
   statement after constraints.cpp:587-707) against the documented meaning (constraints.h:282-295), for every sparse
   matrix, id set and action f on the payload; hypotheses = std::map / std::set ordering (+ second id > first id for the
   closed variant).  `mem_id i ids = true <-> In i ids` (SepSubset.mem_id_In). ---- *)
From Adapt Require Import Dialect.SepSubsetModel Dialect.SepSubset.

(* the cell (i, j) is transformed iff AT LEAST ONE of i, j is in the set (not: exactly one); nothing else changes *)
Theorem C18_transformOpenSubset_spec (A : Type) (f : A -> A) ids (m : smat2 A) :
  keys_ascb m = true -> rows_ascb m = true -> ascb ids = true ->
  transformOpenSubset A f ids m = spec_open A f ids m /\
  map fst (transformOpenSubset A f ids m) = map fst m /\
  forall i j, sm_get A i j (transformOpenSubset A f ids m) =
              option_map (fun sp => if mem_id i ids || mem_id j ids then f sp else sp) (sm_get A i j m).
Proof. exact (transformOpenSubset_spec A f ids m). Qed.
Print Assumptions C18_transformOpenSubset_spec.

(* the cell (i, j) is transformed iff BOTH i and j are in the set; nothing else changes *)
Theorem C18_transformClosedSubset_spec (A : Type) (f : A -> A) ids (m : smat2 A) :
  keys_ascb m = true -> rows_ascb m = true -> upperb m = true -> ascb ids = true ->
  transformClosedSubset A f ids m = spec_closed A f ids m /\
  map fst (transformClosedSubset A f ids m) = map fst m /\
  forall i j, sm_get A i j (transformClosedSubset A f ids m) =
              option_map (fun sp => if mem_id i ids && mem_id j ids then f sp else sp) (sm_get A i j m).
Proof. exact (transformClosedSubset_spec A f ids m). Qed.
Print Assumptions C18_transformClosedSubset_spec.

(* the loops compute the declarative record-list model that the op-sequence correspondence of checks/c18.py uses *)
Theorem C18_transformOpenSubset_flat tf ids m :
  keys_ascb m = true -> rows_ascb m = true -> ascb ids = true ->
  sm_flat (sm_transformOpenSubset tf ids m) = m_transformOpenSubset tf ids (sm_flat m).
Proof. exact (transformOpenSubset_flat tf ids m). Qed.
Print Assumptions C18_transformOpenSubset_flat.

Theorem C18_transformClosedSubset_flat tf ids m :
  keys_ascb m = true -> rows_ascb m = true -> upperb m = true -> ascb ids = true ->
  sm_flat (sm_transformClosedSubset tf ids m) = m_transformClosedSubset tf ids (sm_flat m).
Proof. exact (transformClosedSubset_flat tf ids m). Qed.
Print Assumptions C18_transformClosedSubset_flat.

(* the set iterator of the second pass shared by all rows (seeded change C18-5): on a well-formed matrix the pair (B, C)
   of A<B<C<D, pairs (A,D), (B,C), S = {C, D} stays untransformed, for every transform *)
Theorem C18_transformOpenSubset_hoisted_refuted :
  exists (m : smat2 SepPair) (ids : list nat),
    keys_ascb m = true /\ rows_ascb m = true /\ upperb m = true /\ ascb ids = true /\
    forall tf, sm_transformOpenSubset_hoisted tf ids m <> sm_spec_open tf ids m /\
               sm_get SepPair 1 2 (sm_transformOpenSubset_hoisted tf ids m) = sm_get SepPair 1 2 m /\
               sm_get SepPair 1 2 (sm_spec_open tf ids m) = option_map (transform tf) (sm_get SepPair 1 2 m) /\
               option_map (transform tf) (sm_get SepPair 1 2 m) <> sm_get SepPair 1 2 m.
Proof. exact transformOpenSubset_hoisted_refuted. Qed.
Print Assumptions C18_transformOpenSubset_hoisted_refuted.

(* the hypothesis `upperb` of the closed variant is needed: the inner scan starts at std::next(set_ptr1) *)
Theorem C18_transformClosedSubset_lower_triangle_refuted :
  exists (m : smat2 SepPair) (ids : list nat) tf,
    keys_ascb m = true /\ rows_ascb m = true /\ ascb ids = true /\ upperb m = false /\
    sm_transformClosedSubset tf ids m <> sm_spec_closed tf ids m.
Proof. exact transformClosedSubset_lower_triangle_refuted. Qed.
Print Assumptions C18_transformClosedSubset_lower_triangle_refuted.
