(* Executable model of vpsc::removeoverlaps(rs, fixed, thirdPass), cola/libvpsc/rectangle.cpp:582-662: the three
   passes with the border arithmetic, the border globals as explicit state, parameterised over the solver
   (Solver(vs,cs).solve(); finalPosition of every variable).  HAND-WRITTEN; tied by the correspondence run of
   checks/c09.py in which `solve` is the real vpsc::Solver (called through the harness).  No proofs here. *)
From Adapt Require Import Num.Qaux Rect.RectBase Rect.ScanlineModel.
Local Open Scope Q_scope.

(* static const double EXTRA_GAP=1e-3: the binary64 value of the literal, exactly *)
Definition EXTRA_GAP : Q := 1152921504606847 # 1152921504606846976.

Definition move_all (mv : rect -> Q -> rect) (rs : list rect) (ps : list Q) : list rect :=
  map (fun rp => rect_red (mv (fst rp) (snd rp))) (combine rs ps).   (* rect_red: same rationals, reduced *)

Record ro_result := mkro { ro_rects : list rect; ro_xBorder : Q; ro_yBorder : Q }.

Section RO.
  Variable mklt : list Q -> nat -> nat -> bool.
  (* solve desired weights constraints = final positions *)
  Variable solve : list Q -> list Q -> list constr -> list Q.

  Definition weights (n : nat) (fixed : list nat) : list Q :=
    map (fun i => if existsb (Nat.eqb i) fixed then inject_Z 10000 else 1) (seq 0 n).

  (* None only when a sort runs out of fuel (impossible, Scanline.generate*_total) *)
  Definition removeoverlaps (xBorder yBorder : Q) (rs : list rect) (fixed : list nat) (thirdPass : bool)
    : option ro_result :=
    let n := length rs in
    let ws := weights n fixed in
    let gxb := xBorder + EXTRA_GAP in                 (* Rectangle::setXBorder(xBorder+EXTRA_GAP) *)
    let gyb := yBorder + EXTRA_GAP in                 (* Rectangle::setYBorder(yBorder+EXTRA_GAP) *)
    let initX := map (getCentreX gxb) rs in
    match generateXConstraints mklt gxb gyb rs true with
    | None => None
    | Some cs1 =>
      let x1 := solve (posX gxb rs) ws cs1 in
      let rs1 := move_all (moveCentreX gxb) rs x1 in
      let gxb := xBorder in                           (* Rectangle::setXBorder(xBorder) *)
      match generateYConstraints mklt gxb gyb rs1 with
      | None => None
      | Some cs2 =>
        let y2 := solve (posY gyb rs1) ws cs2 in
        let rs2 := move_all (moveCentreY gyb) rs1 y2 in
        let gyb := yBorder in                         (* Rectangle::setYBorder(yBorder) *)
        if thirdPass then
          let gxb := xBorder + EXTRA_GAP in           (* Rectangle::setXBorder(xBorder+EXTRA_GAP) *)
          let rs3 := move_all (moveCentreX gxb) rs2 initX in
          match generateXConstraints mklt gxb gyb rs3 false with
          | None => None
          | Some cs3 =>
            let x3 := solve (posX gxb rs3) ws cs3 in
            let rs4 := move_all (moveCentreX gxb) rs3 x3 in
            let gxb := xBorder in                     (* Rectangle::setXBorder(xBorder) *)
            Some (mkro rs4 gxb gyb)
          end
        else
          let gxb := xBorder in                       (* Rectangle::setXBorder(xBorder) *)
          Some (mkro rs2 gxb gyb)
      end
    end.
End RO.
