(* Soundness of the verified checkers of Rect/EntailModel.v.
   entail_check_sound: if the longest-path closure test succeeds then EVERY placement that satisfies the separation
   constraints keeps every pair of rectangles, whose open intervals in the sweep dimension intersect, apart by at least
   the mean of their lengths -- hence no pair overlaps with positive area (entail_checkY_sound / entail_checkX_sound).
   topo_check_sound: a rank certificate implies that the constraint graph has no cycle. *)
From Adapt Require Import Num.Qaux Rect.RectBase Rect.ScanlineModel Rect.EntailModel.
Local Open Scope Q_scope.

(* ------------------------------------------------------------------ declarative notions *)
Definition sat (p : nat -> Q) (cs : list constr) : Prop :=
  Forall (fun c => p (cl c) + cgap c <= p (cr c)) cs.

Inductive path (cs : list constr) : nat -> nat -> Prop :=
| path_one c : In c cs -> path cs (cl c) (cr c)
| path_step c b : In c cs -> path cs (cr c) b -> path cs (cl c) b.
Definition acyclic (cs : list constr) : Prop := forall a, ~ path cs a a.

Definition bound (cs : list constr) (i j : nat) (d : Q) : Prop := forall p, sat p cs -> p i + d <= p j.
Definition valid (cs : list constr) (D : matrix) : Prop := forall i j d, getD D i j = Some d -> bound cs i j d.

(* ------------------------------------------------------------------ option arithmetic *)
Lemma omax_cases a b d : omax a b = Some d -> a = Some d \/ b = Some d.
Proof.
  destruct a as [x|], b as [y|]; cbn; intro H; try (inversion H; subst; auto; fail).
  destruct (Qltb x y); inversion H; subst; auto.
Qed.
Lemma oplus_some a b d : oplus a b = Some d -> exists x y, a = Some x /\ b = Some y /\ d == x + y.
Proof.
  destruct a as [x|], b as [y|]; intro H; try discriminate.
  exists x, y. repeat split; auto.
  change (Some (Qred (x + y)) = Some d) in H.
  assert (E : Qred (x + y) = d) by congruence. rewrite <- E. apply Qred_correct.
Qed.
Lemma oge_some a q : oge a q = true -> exists x, a = Some x /\ q <= x.
Proof. destruct a as [x|]; cbn; intro H; try discriminate. exists x; split; auto. now apply Qleb_spec. Qed.

(* ------------------------------------------------------------------ matrix access *)
Lemma nth_error_repeat {A} (x y : A) n i : nth_error (repeat x n) i = Some y -> y = x.
Proof. intro H. apply nth_error_In in H. now apply repeat_spec in H. Qed.

Lemma getD_init n i j : getD (repeat (repeat None n) n) i j = None.
Proof.
  unfold getD. destruct (nth_error (repeat (repeat None n) n) i) as [row|] eqn:E; auto.
  apply nth_error_repeat in E; subst row.
  destruct (nth_error (repeat None n) j) as [x|] eqn:E2; auto.
  now apply nth_error_repeat in E2.
Qed.

Lemma upd_row_get row j v b x :
  nth_error (upd_row row j v) b = Some x ->
  nth_error row b = Some x \/ (b = j /\ exists old, nth_error row b = Some old /\ x = omax old v).
Proof.
  revert j b. induction row as [|a t IH]; intros j b H.
  - destruct j; cbn in H; destruct b; discriminate.
  - destruct j as [|j'], b as [|b']; cbn in *; auto.
    + inversion H; subst. right; split; auto. eauto.
    + destruct (IH j' b' H) as [H1|[E1 H1]]; auto.
Qed.

Lemma upd_mat_get D i j v a b d :
  getD (upd_mat D i j v) a b = Some d -> getD D a b = Some d \/ (a = i /\ b = j /\ v = Some d).
Proof.
  revert i a. induction D as [|r t IH]; intros i a H.
  - left. destruct i; exact H.
  - destruct i as [|i']; destruct a as [|a'].
    + cbn [upd_mat] in H. unfold getD in H |- *. cbn [nth_error] in H |- *.
      destruct (nth_error (upd_row r j v) b) as [x|] eqn:E; try discriminate. subst x.
      destruct (upd_row_get _ _ _ _ _ E) as [H1|[E1 [old [H1 H2]]]].
      * left. now rewrite H1.
      * subst b. rewrite H1. symmetry in H2.
        destruct (omax_cases _ _ _ H2) as [E2|E2]; subst; auto.
    + left. exact H.
    + left. exact H.
    + assert (H' : getD (upd_mat t i' j v) a' b = Some d) by exact H.
      destruct (IH i' a' H') as [H1|[E1 H1]].
      * left. exact H1.
      * right. subst a'. tauto.
Qed.

Section Closure.
  Variable cs : list constr.

  Lemma valid_init n : valid cs (repeat (repeat None n) n).
  Proof. intros i j d H. rewrite getD_init in H. discriminate. Qed.

  Lemma valid_fold l : forall D, valid cs D -> (forall c, In c l -> In c cs) ->
    valid cs (fold_left (fun D c => upd_mat D (cl c) (cr c) (Some (cgap c))) l D).
  Proof.
    induction l as [|c l IH]; intros D HD Hl; cbn [fold_left]; auto.
    apply IH; [|intros; apply Hl; now right].
    intros i j d H. destruct (upd_mat_get _ _ _ _ _ _ _ H) as [H1|[E1 [E2 H1]]]; [now apply HD|]. subst i j.
    inversion H1; subst d. intros p Hp. unfold sat in Hp. rewrite Forall_forall in Hp.
    apply (Hp c). apply Hl. now left.
  Qed.

  Lemma valid_initD n : valid cs (initD n cs).
  Proof. unfold initD. apply valid_fold; auto. apply valid_init. Qed.

  Lemma nth_error_combine {A B} (l1 : list A) (l2 : list B) j x y :
    nth_error (combine l1 l2) j = Some (x, y) -> nth_error l1 j = Some x /\ nth_error l2 j = Some y.
  Proof.
    revert l2 j. induction l1 as [|a t IH]; intros l2 j H; [destruct j; discriminate|].
    destruct l2 as [|b t2]; [destruct j; discriminate|].
    destruct j as [|j']; cbn in *; [inversion H; auto | now apply IH].
  Qed.
  Lemma nth_nth_error {A} (l : list A) k d x : nth k l d = x -> nth_error l k = Some x \/ x = d.
  Proof.
    revert k. induction l as [|a t IH]; intros k H; destruct k; cbn in *; subst; auto.
  Qed.

  Lemma valid_fw_step D k : valid cs D -> valid cs (fw_step D k).
  Proof.
    intros HD i j d H. unfold fw_step, getD in H.
    rewrite nth_error_map in H.
    destruct (nth_error D i) as [rowi|] eqn:Ei; cbn [option_map] in H; try discriminate.
    rewrite nth_error_map in H.
    destruct (nth_error (combine rowi (nth k D [])) j) as [[x y]|] eqn:Ej; cbn [option_map] in H; try discriminate.
    apply nth_error_combine in Ej. destruct Ej as [Ex Ey]. cbn [fst snd] in H.
    destruct (omax_cases _ _ _ H) as [H1|H1].
    - subst x. apply HD. unfold getD. now rewrite Ei, Ex.
    - apply oplus_some in H1. destruct H1 as [a [b [Ha [Hb Hd]]]].
      assert (Bik : bound cs i k a).
      { apply HD. unfold getD. rewrite Ei.
        destruct (nth_nth_error rowi k None _ Ha) as [E|E]; [now rewrite E | discriminate]. }
      assert (Bkj : bound cs k j b).
      { apply HD. unfold getD.
        destruct (nth_nth_error D k [] _ eq_refl) as [E|E].
        - rewrite E, Ey. now f_equal.
        - rewrite E in Ey. destruct j; discriminate. }
      intros p Hp. specialize (Bik p Hp). specialize (Bkj p Hp). rewrite Hd. lra.
  Qed.

  Lemma valid_closure n : valid cs (closure n cs).
  Proof.
    unfold closure. generalize (valid_initD n). generalize (initD n cs). generalize (seq 0 n).
    intros l. induction l as [|k l IH]; intros D HD; cbn [fold_left]; auto.
    apply IH. now apply valid_fw_step.
  Qed.
End Closure.

(* ------------------------------------------------------------------ entail_check *)
Theorem entail_check_sound lo hi len n cs :
  entail_check lo hi len n cs = true ->
  forall p, sat p cs ->
  forall i j, (i < n)%nat -> (j < n)%nat -> i <> j -> lo i < hi j -> lo j < hi i ->
    p i + (len i + len j) / 2 <= p j \/ p j + (len i + len j) / 2 <= p i.
Proof.
  intros H p Hp.
  assert (W : forall i j, (i < j)%nat -> (j < n)%nat -> lo i < hi j -> lo j < hi i ->
              p i + (len i + len j) / 2 <= p j \/ p j + (len i + len j) / 2 <= p i).
  { intros i j Hij Hj H1 H2. unfold entail_check in H. rewrite forallb_forall in H.
    assert (Hi : In i (seq 0 n)) by (apply in_seq; lia).
    specialize (H i Hi). rewrite forallb_forall in H.
    assert (Hj' : In j (seq 0 n)) by (apply in_seq; lia).
    specialize (H j Hj'). apply Nat.ltb_lt in Hij. rewrite Hij in H.
    unfold pair_ok in H.
    apply Qltb_spec in H1. apply Qltb_spec in H2. rewrite H1, H2 in H. cbn [andb] in H.
    apply orb_true_iff in H. destruct H as [H|H]; apply oge_some in H; destruct H as [x [Hx Hle]].
    - left. pose proof (valid_closure cs n _ _ _ Hx p Hp). lra.
    - right. pose proof (valid_closure cs n _ _ _ Hx p Hp). lra. }
  intros i j Hi Hj Hne H1 H2.
  destruct (Nat.lt_ge_cases i j) as [L|L].
  - apply W; auto.
  - assert (L' : (j < i)%nat) by lia.
    destruct (W j i L' Hi H2 H1) as [A|A]; [right|left];
      (assert (E : (len i + len j) / 2 == (len j + len i) / 2) by (field); rewrite E; exact A).
Qed.

(* ------------------------------------------------------------------ geometry of a placement *)
Lemma getMinY_moveCentreY yb r y : getMinY yb (moveCentreY yb r y) == y - height yb r / 2.
Proof. unfold moveCentreY, moveMinY, getMinY; cbn [rminY]. ring. Qed.
Lemma getMaxY_moveCentreY yb r y : getMaxY yb (moveCentreY yb r y) == y + height yb r / 2.
Proof. unfold moveCentreY, moveMinY, getMaxY; cbn [rmaxY]. field. Qed.
Lemma getMinX_moveCentreX xb r x : getMinX xb (moveCentreX xb r x) == x - width xb r / 2.
Proof. unfold moveCentreX, moveMinX, getMinX; cbn [rminX]. ring. Qed.
Lemma getMaxX_moveCentreX xb r x : getMaxX xb (moveCentreX xb r x) == x + width xb r / 2.
Proof. unfold moveCentreX, moveMinX, getMaxX; cbn [rmaxX]. field. Qed.

Lemma sep_excludes a b h k :
  a - h / 2 < b + k / 2 -> b - k / 2 < a + h / 2 ->
  a + (h + k) / 2 <= b \/ b + (h + k) / 2 <= a -> False.
Proof.
  intros H1 H2 H. set (hh := h / 2) in *. set (kk := k / 2) in *.
  assert (E : (h + k) / 2 == hh + kk) by (unfold hh, kk; field).
  rewrite E in H. destruct H; lra.
Qed.

(* generateYConstraints: whatever y-placement satisfies cs, no two padded rectangles overlap with positive area *)
Theorem entail_checkY_sound xb yb rs cs :
  entail_checkY xb yb rs cs = true ->
  forall p, sat p cs ->
  forall i j, (i < length rs)%nat -> (j < length rs)%nat -> i <> j ->
    ~ overlaps_pos xb yb (moveCentreY yb (nthr rs i) (p i)) (moveCentreY yb (nthr rs j) (p j)).
Proof.
  intros H p Hp i j Hi Hj Hne [O1 [O2 [O3 O4]]].
  unfold entail_checkY in H.
  assert (X1 : getMinX xb (nthr rs i) < getMaxX xb (nthr rs j)) by exact O1.
  assert (X2 : getMinX xb (nthr rs j) < getMaxX xb (nthr rs i)) by exact O2.
  pose proof (entail_check_sound _ _ _ _ _ H p Hp i j Hi Hj Hne X1 X2) as S.
  rewrite getMinY_moveCentreY, getMaxY_moveCentreY in O3, O4.
  cbv beta in S. exact (sep_excludes _ _ _ _ O3 O4 S).
Qed.

(* generateXConstraints(useNeighbourLists=false): the same for x-placements *)
Theorem entail_checkX_sound xb yb rs cs :
  entail_checkX xb yb rs cs = true ->
  forall p, sat p cs ->
  forall i j, (i < length rs)%nat -> (j < length rs)%nat -> i <> j ->
    ~ overlaps_pos xb yb (moveCentreX xb (nthr rs i) (p i)) (moveCentreX xb (nthr rs j) (p j)).
Proof.
  intros H p Hp i j Hi Hj Hne [O1 [O2 [O3 O4]]].
  unfold entail_checkX in H.
  assert (Y1 : getMinY yb (nthr rs i) < getMaxY yb (nthr rs j)) by exact O3.
  assert (Y2 : getMinY yb (nthr rs j) < getMaxY yb (nthr rs i)) by exact O4.
  pose proof (entail_check_sound _ _ _ _ _ H p Hp i j Hi Hj Hne Y1 Y2) as S.
  rewrite getMinX_moveCentreX, getMaxX_moveCentreX in O1, O2.
  cbv beta in S. exact (sep_excludes _ _ _ _ O1 O2 S).
Qed.

(* ------------------------------------------------------------------ topo_check *)
Lemma path_rank rank cs a b :
  topo_check rank cs = true -> path cs a b -> (nth a rank 0 < nth b rank 0)%nat.
Proof.
  intros H P. unfold topo_check in H. rewrite forallb_forall in H.
  induction P as [c Hc | c b Hc P IH].
  - apply Nat.ltb_lt. now apply H.
  - specialize (H c Hc). apply Nat.ltb_lt in H. lia.
Qed.
Theorem topo_check_sound rank cs : topo_check rank cs = true -> acyclic cs.
Proof. intros H a P. pose proof (path_rank _ _ _ _ H P). lia. Qed.

(* ------------------------------------------------------------------ non-vacuity *)
Example entail_example :
  let rs := [mkrect 0 4 0 2; mkrect 1 3 1 5; mkrect 2 6 0 1] in
  let cs := [mkc 0 1 3; mkc 2 0 (3 # 2)] in
  entail_checkY 0 0 rs cs = true /\ topo_check [1; 2; 0]%nat cs = true /\
  sat (fun i => match i with O => 2 | S O => 5 | _ => 0 end) cs.
Proof. cbn zeta. split; [vm_compute; reflexivity|]. split; [vm_compute; reflexivity|].
  repeat constructor; cbn; lra. Qed.
Example entail_example_neg :
  entail_checkY 0 0 [mkrect 0 4 0 2; mkrect 1 3 1 5; mkrect 2 6 0 1] [mkc 0 1 3] = false.
Proof. vm_compute. reflexivity. Qed.
