(* C09: the removeoverlaps pipeline with the chain lemma (Rect/Chain.v) in place of the per-instance entail_check
   certificate: if the solver's answer of the LAST generating pass satisfies that pass's constraints, no two returned
   rectangles overlap with positive area (w.r.t. the caller's borders).  Hypotheses: CmpNodePos is a strict order that
   is total on the nodes (true for both variants of the comparator when the Node addresses are distinct), the
   caller's borders are >= 0 and every input rectangle has minX <= maxX, minY <= maxY. *)
From Adapt Require Import Num.Qaux Rect.RectBase Rect.ScanlineModel Rect.EntailModel Rect.Entail Rect.Scanline
  Rect.RemoveOverlapsModel Rect.RemoveOverlaps Rect.Chain.
Local Open Scope Q_scope.

Definition good_rect (r : rect) : Prop := 0 <= raw_w r /\ 0 <= raw_h r.
Definition good_rects (rs : list rect) : Prop := forall r, In r rs -> good_rect r.

Lemma good_valid xb yb rs : 0 <= xb -> 0 <= yb -> good_rects rs -> valid_rects xb yb rs.
Proof.
  intros Hx Hy G r Hr. destruct (G r Hr) as [A B]. rewrite width_raw, height_raw. split; lra.
Qed.

Lemma good_same_size a b : same_size a b -> good_rect a -> good_rect b.
Proof. intros [E1 E2] [A B]. unfold good_rect. rewrite <- E1, <- E2. auto. Qed.

Lemma move_all_in mv rs ps r' : In r' (move_all mv rs ps) -> exists r p, In r rs /\ r' = rect_red (mv r p).
Proof.
  unfold move_all. intros H. apply in_map_iff in H. destruct H as ([r p] & <- & H). apply in_combine_l in H.
  exists r, p. auto.
Qed.
Lemma good_move_all mv rs ps : (forall r p, same_size r (mv r p)) -> good_rects rs -> good_rects (move_all mv rs ps).
Proof.
  intros Hmv G r' H. destruct (move_all_in _ _ _ _ H) as (r & p & Hr & ->).
  apply (good_same_size r); [|exact (G r Hr)]. eapply same_size_trans; [apply Hmv | apply same_size_red].
Qed.

Section Pipeline.
  Variable mklt : list Q -> nat -> nat -> bool.
  Hypothesis mklt_strict : forall pos, strict (mklt pos).
  Hypothesis mklt_total : forall pos, total_on (mklt pos) (length pos).
  Variables xB yB : Q.
  Hypothesis xB_nonneg : 0 <= xB.
  Hypothesis yB_nonneg : 0 <= yB.

  Lemma total_posX xb rs : total_on (mklt (posX xb rs)) (length rs).
  Proof. pose proof (mklt_total (posX xb rs)) as T. unfold posX in T at 2. rewrite map_length in T. exact T. Qed.
  Lemma total_posY yb rs : total_on (mklt (posY yb rs)) (length rs).
  Proof. pose proof (mklt_total (posY yb rs)) as T. unfold posY in T at 2. rewrite map_length in T. exact T. Qed.

  (* pass 2 (the last pass when thirdPass = false) *)
  Theorem pipeline_y_chain rs1 cs2 y2 :
    good_rects rs1 ->
    generateYConstraints mklt xB (yB + EXTRA_GAP) rs1 = Some cs2 ->
    length y2 = length rs1 ->
    sat (fun i => nth i y2 0) cs2 ->
    no_overlap xB yB (move_all (moveCentreY (yB + EXTRA_GAP)) rs1 y2).
  Proof.
    intros G Hg Hl Hs i j Hi Hj Hne O.
    rewrite move_all_length in Hi, Hj by exact Hl.
    rewrite !nthr_move_all in O by auto.
    apply (proj1 (overlaps_pos_red _ _ _ _)) in O. apply (overlaps_pos_mono_y _ _ EXTRA_GAP) in O; [|exact EXTRA_GAP_nonneg].
    pose proof EXTRA_GAP_nonneg as E.
    assert (V : valid_rects xB (yB + EXTRA_GAP) rs1) by (apply good_valid; [exact xB_nonneg | lra | exact G]).
    exact (genY_entails_no_overlap mklt mklt_strict xB (yB + EXTRA_GAP) rs1 V cs2 (total_posY _ _) Hg _ Hs i j Hi Hj Hne O).
  Qed.

  (* pass 3 *)
  Theorem pipeline_x_chain rs3 cs3 x3 :
    good_rects rs3 ->
    generateXConstraints mklt (xB + EXTRA_GAP) yB rs3 false = Some cs3 ->
    length x3 = length rs3 ->
    sat (fun i => nth i x3 0) cs3 ->
    no_overlap xB yB (move_all (moveCentreX (xB + EXTRA_GAP)) rs3 x3).
  Proof.
    intros G Hg Hl Hs i j Hi Hj Hne O.
    rewrite move_all_length in Hi, Hj by exact Hl.
    rewrite !nthr_move_all in O by auto.
    apply (proj1 (overlaps_pos_red _ _ _ _)) in O. apply (overlaps_pos_mono_x _ _ EXTRA_GAP) in O; [|exact EXTRA_GAP_nonneg].
    pose proof EXTRA_GAP_nonneg as E.
    assert (V : valid_rects (xB + EXTRA_GAP) yB rs3) by (apply good_valid; [lra | exact yB_nonneg | exact G]).
    exact (genX_entails_no_overlap mklt mklt_strict (xB + EXTRA_GAP) yB rs3 V cs3 (total_posX _ _) Hg _ Hs i j Hi Hj Hne O).
  Qed.

  Variable solve : list Q -> list Q -> list constr -> list Q.

  (* the model's result is such a last pass: no certificate, only the solver's answer for that pass *)
  Theorem pipeline_chain rs fixed third r :
    good_rects rs ->
    removeoverlaps mklt solve xB yB rs fixed third = Some r ->
    exists rsl csl pl,
      (if third
       then generateXConstraints mklt (xB + EXTRA_GAP) yB rsl false = Some csl /\
            pl = solve (posX (xB + EXTRA_GAP) rsl) (weights (length rs) fixed) csl /\
            ro_rects r = move_all (moveCentreX (xB + EXTRA_GAP)) rsl pl
       else generateYConstraints mklt xB (yB + EXTRA_GAP) rsl = Some csl /\
            pl = solve (posY (yB + EXTRA_GAP) rsl) (weights (length rs) fixed) csl /\
            ro_rects r = move_all (moveCentreY (yB + EXTRA_GAP)) rsl pl) /\
      acyclic csl /\
      (length pl = length rsl -> sat (fun i => nth i pl 0) csl -> no_overlap xB yB (ro_rects r)).
  Proof.
    intros G. unfold removeoverlaps.
    destruct (generateXConstraints mklt (xB + EXTRA_GAP) (yB + EXTRA_GAP) rs true) as [cs1|]; [|discriminate].
    set (rs1 := move_all (moveCentreX (xB + EXTRA_GAP)) rs _).
    assert (G1 : good_rects rs1) by (apply good_move_all; [intros; apply same_size_moveX | exact G]).
    destruct (generateYConstraints mklt xB (yB + EXTRA_GAP) rs1) as [cs2|] eqn:E2; [|discriminate].
    set (rs2 := move_all (moveCentreY (yB + EXTRA_GAP)) rs1 _).
    assert (G2 : good_rects rs2) by (apply good_move_all; [intros; apply same_size_moveY | exact G1]).
    destruct third.
    - set (rs3 := move_all (moveCentreX (xB + EXTRA_GAP)) rs2 _).
      assert (G3 : good_rects rs3) by (apply good_move_all; [intros; apply same_size_moveX | exact G2]).
      destruct (generateXConstraints mklt (xB + EXTRA_GAP) yB rs3 false) as [cs3|] eqn:E3; [|discriminate].
      intro H; inversion H; subst r; cbn [ro_rects].
      eexists rs3, cs3, _. split; [split; [exact E3 | split; reflexivity]|]. split.
      + exact (proj2 (gen_acyclic_X mklt mklt_strict _ _ _ _ _ E3)).
      + intros Hl Hs. exact (pipeline_x_chain _ _ _ G3 E3 Hl Hs).
    - intro H; inversion H; subst r; cbn [ro_rects].
      eexists rs1, cs2, _. split; [split; [exact E2 | split; reflexivity]|]. split.
      + exact (proj2 (gen_acyclic_Y mklt mklt_strict _ _ _ _ E2)).
      + intros Hl Hs. exact (pipeline_y_chain _ _ _ G1 E2 Hl Hs).
  Qed.

  (* with the solver's contract as an explicit premise: one position per variable, and on an acyclic constraint
     set (always satisfiable) the returned positions satisfy every constraint *)
  Definition solver_contract : Prop :=
    forall d w cs, length (solve d w cs) = length d /\
                   (acyclic cs -> sat (fun i => nth i (solve d w cs) 0) cs).

  Theorem pipeline_no_overlap rs fixed third r :
    solver_contract -> good_rects rs ->
    removeoverlaps mklt solve xB yB rs fixed third = Some r -> no_overlap xB yB (ro_rects r).
  Proof.
    intros SC G H. destruct (pipeline_chain rs fixed third r G H) as (rsl & csl & pl & A & Ac & B).
    destruct third; destruct A as (_ & -> & _).
    - destruct (SC (posX (xB + EXTRA_GAP) rsl) (weights (length rs) fixed) csl) as [L S]. apply B.
      + rewrite L. apply map_length.
      + exact (S Ac).
    - destruct (SC (posY (yB + EXTRA_GAP) rsl) (weights (length rs) fixed) csl) as [L S]. apply B.
      + rewrite L. apply map_length.
      + exact (S Ac).
  Qed.
End Pipeline.

(* ------------------------------------------------------------------ non-vacuity *)
(* two rectangles overlapping in x and y; pass 2 emits one constraint; a placement satisfying it has no overlap *)
Example pipeline_example :
  let mk := cmp_node_pos_id [0%Z; 1%Z] (fun i => i) in
  let rs1 := [mkrect 0 4 0 2; mkrect 1 5 1 3] in
  exists g, generateYConstraints mk 0 (0 + EXTRA_GAP) rs1 = Some [mkc 0 1 g] /\
            no_overlap 0 0 (move_all (moveCentreY (0 + EXTRA_GAP)) rs1 [0; g]).
Proof.
  cbv zeta. eexists. split; [vm_compute; reflexivity|].
  eapply (pipeline_y_chain (cmp_node_pos_id [0%Z; 1%Z] (fun i => i))
           (fun pos => cmp_node_pos_id_strict _ _ pos)
           (fun pos => cmp_node_pos_id_total _ _ pos (fun i j H => H)) 0 0 (Qle_refl 0) (Qle_refl 0)
           [mkrect 0 4 0 2; mkrect 1 5 1 3]).
  - intros r [<-|[<-|[]]]; split; apply Qle_bool_iff; vm_compute; reflexivity.
  - vm_compute. reflexivity.
  - reflexivity.
  - repeat constructor. cbn [cl cr cgap nth]. apply Qle_bool_iff. vm_compute. reflexivity.
Qed.
