(* C09: the chain lemma of Dwyer-Marriott-Stuckey for the plain scan line (generateYConstraints and
   generateXConstraints(..., useNeighbourLists=false)) of Rect/ScanlineModel.v.

   genY_entails_no_overlap / genX_entails_no_overlap: any two rectangles whose open intervals in the sweep dimension
   intersect are joined by a directed path of generated constraints; since every gap is the mean of the two lengths
   and lengths are >= 0, every placement satisfying the constraints keeps them apart by at least the mean of their
   lengths, hence no pair overlaps with positive area.

   Proof: scan-line invariant.  (1) the scan line is sorted by CmpNodePos and the firstAbove/firstBelow pointers of
   the nodes in it are exactly their predecessor/successor; (2) `conn`: a chain of links, a link being a generated
   constraint or a pair of nodes that are both still in the scan line; opening a node only adds links, closing v
   replaces every link (a,v) by a chain through v's predecessor, to which a constraint is emitted.  At the end the
   scan line is empty, so all links are constraints. *)
From Coq Require Import Permutation Sorted.
From Adapt Require Import Num.Qaux Rect.RectBase Rect.ScanlineModel Rect.EntailModel Rect.Entail Rect.Scanline.
Local Open Scope Q_scope.

(* ------------------------------------------------------------------ lists *)
Fixpoint lastp (prev : option nat) (s : list nat) : option nat :=
  match s with [] => prev | x :: t => lastp (Some x) t end.

Lemma lastp_app prev l1 x l2 : lastp prev (l1 ++ x :: l2) = lastp (Some x) l2.
Proof. revert prev. induction l1 as [|a l1 IH]; intros prev; cbn; [reflexivity | apply IH]. Qed.
Lemma lastp_snoc prev l x : lastp prev (l ++ [x]) = Some x.
Proof. rewrite lastp_app. reflexivity. Qed.
Lemma lastp_in prev l u : lastp prev l = Some u -> prev = Some u \/ In u l.
Proof.
  revert prev. induction l as [|a l IH]; intros prev H; cbn in *; [now left|].
  destruct (IH _ H) as [E|E]; [inversion E; right; now left | right; now right].
Qed.
Lemma lastp_none_in l u : lastp None l = Some u -> exists l', l = l' ++ [u].
Proof.
  intros H. destruct l as [|a l] using rev_ind; [discriminate|].
  rewrite lastp_snoc in H. inversion H; subst. now exists l.
Qed.

Lemma app_decomp {A} (x v : A) : forall s1 s2 a b, s1 ++ x :: s2 = a ++ v :: b ->
  (x = v /\ s1 = a /\ s2 = b) \/
  (exists a2, a = s1 ++ x :: a2 /\ s2 = a2 ++ v :: b) \/
  (exists b1, b = b1 ++ x :: s2 /\ s1 = a ++ v :: b1).
Proof.
  induction s1 as [|h s1 IH]; intros s2 a b H.
  - destruct a as [|h' a]; cbn in H; inversion H; subst.
    + left. auto.
    + right. left. exists a. auto.
  - destruct a as [|h' a]; cbn in H; inversion H; subst.
    + right. right. exists s1. auto.
    + destruct (IH _ _ _ H2) as [(E1 & E2 & E3)|[(a2 & E1 & E2)|(b1 & E1 & E2)]]; subst.
      * left. auto.
      * right. left. exists a2. auto.
      * right. right. exists b1. auto.
Qed.

Lemma app_decomp2 {A} (x : A) : forall t1 t2 a b, t1 ++ x :: t2 = a ++ b ->
  (exists a2, a = t1 ++ x :: a2 /\ t2 = a2 ++ b) \/
  (exists b1, b = b1 ++ x :: t2 /\ t1 = a ++ b1).
Proof.
  induction t1 as [|h t1 IH]; intros t2 a b H.
  - destruct a as [|h' a]; cbn in H.
    + right. exists []. cbn. auto.
    + inversion H; subst. left. exists a. auto.
  - destruct a as [|h' a]; cbn in H.
    + right. exists (h :: t1). cbn. auto.
    + inversion H; subst. destruct (IH _ _ _ H2) as [(a2 & E1 & E2)|(b1 & E1 & E2)]; subst.
      * left. exists a2. auto.
      * right. exists b1. auto.
Qed.

(* ------------------------------------------------------------------ node table *)
Lemma upd_len {A} (l : list A) i x : length (upd_nth l i x) = length l.
Proof. revert i. induction l as [|a l IH]; intros [|i]; cbn; auto. Qed.

Lemma getn_upd_nth ns i x j :
  getn (upd_nth ns i x) j = if Nat.eqb j i && Nat.ltb i (length ns) then x else getn ns j.
Proof.
  unfold getn. revert i j. induction ns as [|a ns IH]; intros i j; cbn [upd_nth length].
  - rewrite andb_false_r. destruct i; reflexivity.
  - destruct i as [|i], j as [|j]; cbn [nth Nat.eqb andb]; try reflexivity.
    rewrite IH. replace (Nat.ltb (S i) (S (length ns))) with (Nat.ltb i (length ns)) by reflexivity. reflexivity.
Qed.

Lemma len_set_fA ns i x : length (set_fA ns i x) = length ns.
Proof. apply upd_len. Qed.
Lemma len_set_fB ns i x : length (set_fB ns i x) = length ns.
Proof. apply upd_len. Qed.

Lemma fA_set_fA ns i x j :
  fA (getn (set_fA ns i x) j) = if Nat.eqb j i && Nat.ltb i (length ns) then x else fA (getn ns j).
Proof.
  unfold set_fA. rewrite getn_upd_nth. destruct (Nat.eqb j i && Nat.ltb i (length ns)); reflexivity.
Qed.
Lemma fB_set_fA ns i x j : fB (getn (set_fA ns i x) j) = fB (getn ns j).
Proof.
  unfold set_fA. rewrite getn_upd_nth. destruct (Nat.eqb j i) eqn:E; cbn [andb]; [|reflexivity].
  apply Nat.eqb_eq in E. subst. destruct (Nat.ltb i (length ns)); reflexivity.
Qed.
Lemma fB_set_fB ns i x j :
  fB (getn (set_fB ns i x) j) = if Nat.eqb j i && Nat.ltb i (length ns) then x else fB (getn ns j).
Proof.
  unfold set_fB. rewrite getn_upd_nth. destruct (Nat.eqb j i && Nat.ltb i (length ns)); reflexivity.
Qed.
Lemma fA_set_fB ns i x j : fA (getn (set_fB ns i x) j) = fA (getn ns j).
Proof.
  unfold set_fB. rewrite getn_upd_nth. destruct (Nat.eqb j i) eqn:E; cbn [andb]; [|reflexivity].
  apply Nat.eqb_eq in E. subst. destruct (Nat.ltb i (length ns)); reflexivity.
Qed.

Ltac ptr_simp :=
  repeat (rewrite ?len_set_fA, ?len_set_fB; first [rewrite fA_set_fA | rewrite fB_set_fA | rewrite fB_set_fB | rewrite fA_set_fB]);
  rewrite ?len_set_fA, ?len_set_fB.

(* ------------------------------------------------------------------ the scan line as a sorted list *)
Section Chain.
  Variable lt : nat -> nat -> bool.
  Hypothesis lt_trans : forall a b c, lt a b = true -> lt b c = true -> lt a c = true.
  Hypothesis lt_irrefl : forall a, lt a a = false.
  Variable n : nat.
  Hypothesis lt_total : forall u v, (u < n)%nat -> (v < n)%nat -> u <> v -> lt u v = true \/ lt v u = true.
  Variable len : nat -> Q.
  Notation LT a b := (lt a b = true).
  Notation sorted := (sorted lt).

  Lemma sorted_NoDup s : sorted s -> NoDup s.
  Proof.
    induction s as [|x s IH]; intros H; constructor.
    - apply StronglySorted_inv in H. destruct H as [_ Hx]. rewrite Forall_forall in Hx.
      intros Hin. specialize (Hx x Hin). rewrite lt_irrefl in Hx. discriminate.
    - apply IH. apply StronglySorted_inv in H. tauto.
  Qed.

  Lemma sorted_app_lt s1 x s2 : sorted (s1 ++ x :: s2) ->
    (forall a, In a s1 -> LT a x) /\ (forall b, In b s2 -> LT x b) /\ (forall a b, In a s1 -> In b s2 -> LT a b).
  Proof.
    induction s1 as [|h s1 IH]; cbn; intros H.
    - apply StronglySorted_inv in H. destruct H as [_ Hx]. rewrite Forall_forall in Hx.
      repeat split; intros; try contradiction. now apply Hx.
    - apply StronglySorted_inv in H. destruct H as [Hs Hh]. rewrite Forall_forall in Hh.
      destruct (IH Hs) as (A & B & C). repeat split.
      + intros a [->|Ha]; [apply Hh; apply in_or_app; right; now left | now apply A].
      + exact B.
      + intros a b [->|Ha] Hb; [apply Hh; apply in_or_app; right; now right | now apply C].
  Qed.

  Lemma insert_decomp v : forall s, sorted s -> ~ In v s -> (forall x, In x s -> (x < n)%nat) -> (v < n)%nat ->
    exists s1 s2, s = s1 ++ s2 /\ set_insert lt v s = s1 ++ v :: s2 /\
                  (forall x, In x s1 -> LT x v) /\ (forall x, In x s2 -> LT v x).
  Proof.
    induction s as [|x s IH]; intros Hs Hv Hn Hvn; cbn [set_insert].
    - exists [], []. repeat split; intros; contradiction.
    - apply StronglySorted_inv in Hs. destruct Hs as [Hs Hx]. rewrite Forall_forall in Hx.
      destruct (lt x v) eqn:E1.
      + destruct (IH Hs) as (s1 & s2 & A & B & C & D); [intros H; apply Hv; now right | intros; apply Hn; now right | exact Hvn|].
        exists (x :: s1), s2. cbn. rewrite <- A, B. repeat split; auto.
        intros y [->|Hy]; auto.
      + assert (E2 : LT v x).
        { destruct (lt_total x v) as [H|H]; auto; [apply Hn; now left | intros ->; apply Hv; now left | congruence]. }
        rewrite E2. exists [], (x :: s). cbn. repeat split; auto; try contradiction.
        intros y [->|Hy]; auto. eapply lt_trans; [exact E2 | now apply Hx].
  Qed.

  Lemma erase_decomp v : forall s1 s2, ~ In v s1 -> set_erase v (s1 ++ v :: s2) = s1 ++ s2.
  Proof.
    induction s1 as [|x s1 IH]; intros s2 H; cbn.
    - rewrite Nat.eqb_refl. reflexivity.
    - destruct (Nat.eqb x v) eqn:E; [apply Nat.eqb_eq in E; exfalso; apply H; now left|].
      rewrite IH; [reflexivity | intros Hin; apply H; now right].
  Qed.
  Lemma erase_notin v : forall s, ~ In v s -> set_erase v s = s.
  Proof.
    induction s as [|x s IH]; intros H; cbn; [reflexivity|].
    destruct (Nat.eqb x v) eqn:E; [apply Nat.eqb_eq in E; exfalso; apply H; now left|].
    rewrite IH; [reflexivity | intros Hin; apply H; now right].
  Qed.

  Lemma nbrs_decomp v : forall s1 s2 prev, ~ In v s1 ->
    nbrs_aux prev v (s1 ++ v :: s2) = (lastp prev s1, hd_error s2).
  Proof.
    induction s1 as [|x s1 IH]; intros s2 prev H; cbn.
    - rewrite Nat.eqb_refl. reflexivity.
    - destruct (Nat.eqb x v) eqn:E; [apply Nat.eqb_eq in E; exfalso; apply H; now left|].
      apply IH. intros Hin; apply H; now right.
  Qed.

  (* ---------------- pointer invariant: firstAbove / firstBelow are predecessor / successor in the scan line *)
  Definition PI (ns : list node) (s : list nat) : Prop :=
    forall s1 x s2, s = s1 ++ x :: s2 -> fA (getn ns x) = lastp None s1 /\ fB (getn ns x) = hd_error s2.

  Definition inv (s : st) : Prop :=
    sorted (scan s) /\ (forall x, In x (scan s) -> (x < n)%nat) /\ length (nodes s) = n /\ PI (nodes s) (scan s).

  Lemma NoDup_app_notin (a b : list nat) x : NoDup (a ++ x :: b) -> ~ In x a /\ ~ In x b.
  Proof.
    intros H. apply NoDup_remove_2 in H. split; intros Hin; apply H; apply in_or_app; auto.
  Qed.

  Definition oeqb (o : option nat) (j : nat) : bool := match o with Some u => Nat.eqb j u | None => false end.

  (* closed form of the pointers after open_plain's updates *)
  Lemma open_ptrs ns v p nx j :
    length ns = n -> (v < n)%nat -> (forall u, p = Some u -> (u < n)%nat /\ u <> v) ->
    (forall u, nx = Some u -> (u < n)%nat /\ u <> v) ->
    fA (getn ns v) = None -> fB (getn ns v) = None ->
    let ns1 := match p with Some u => set_fB (set_fA ns v (Some u)) u (Some v) | None => ns end in
    let ns2 := match nx with Some u => set_fA (set_fB ns1 v (Some u)) u (Some v) | None => ns1 end in
    length ns2 = n /\
    fA (getn ns2 j) = (if oeqb nx j then Some v else if Nat.eqb j v then p else fA (getn ns j)) /\
    fB (getn ns2 j) = (if Nat.eqb j v then nx else if oeqb p j then Some v else fB (getn ns j)).
  Proof.
    intros Hl Hv Hp Hnx FA FB. cbv zeta.
    assert (Lv : Nat.ltb v n = true) by (apply Nat.ltb_lt; exact Hv).
    destruct p as [u|]; destruct nx as [w|]; cbn [oeqb].
    - destruct (Hp u eq_refl) as [Hu Huv]. destruct (Hnx w eq_refl) as [Hw Hwv].
      assert (Lu : Nat.ltb u n = true) by (apply Nat.ltb_lt; exact Hu).
      assert (Lw : Nat.ltb w n = true) by (apply Nat.ltb_lt; exact Hw).
      ptr_simp. rewrite ?Hl, ?Lv, ?Lu, ?Lw, ?andb_true_r.
      split; [reflexivity|]. split; [reflexivity|].
      destruct (Nat.eqb j v) eqn:E; [|reflexivity].
      apply Nat.eqb_eq in E. subst j. reflexivity.
    - destruct (Hp u eq_refl) as [Hu Huv].
      assert (Lu : Nat.ltb u n = true) by (apply Nat.ltb_lt; exact Hu).
      ptr_simp. rewrite ?Hl, ?Lv, ?Lu, ?andb_true_r.
      split; [reflexivity|]. split; [reflexivity|].
      destruct (Nat.eqb j v) eqn:E; [|reflexivity].
      apply Nat.eqb_eq in E. subst j.
      replace (Nat.eqb v u) with false by (symmetry; apply Nat.eqb_neq; auto). exact FB.
    - destruct (Hnx w eq_refl) as [Hw Hwv].
      assert (Lw : Nat.ltb w n = true) by (apply Nat.ltb_lt; exact Hw).
      ptr_simp. rewrite ?Hl, ?Lv, ?Lw, ?andb_true_r.
      split; [reflexivity|]. split; [|reflexivity].
      destruct (Nat.eqb j w) eqn:E1; [reflexivity|].
      destruct (Nat.eqb j v) eqn:E; [|reflexivity].
      apply Nat.eqb_eq in E. subst j. exact FA.
    - split; [exact Hl|]. split.
      + destruct (Nat.eqb j v) eqn:E; [|reflexivity]. apply Nat.eqb_eq in E. subst j. exact FA.
      + destruct (Nat.eqb j v) eqn:E; [|reflexivity]. apply Nat.eqb_eq in E. subst j. exact FB.
  Qed.

  Lemma lastp_some x l : exists u, lastp (Some x) l = Some u /\ (u = x \/ In u l).
  Proof.
    revert x. induction l as [|a l IH]; intros x; cbn.
    - exists x. auto.
    - destruct (IH a) as (u & E & H). exists u. split; [exact E|]. destruct H as [H|H]; auto.
  Qed.

  (* F = nodes that have not been opened yet: their pointers are still null *)
  Definition fresh_ok (F : nat -> Prop) (s : st) : Prop :=
    forall x, F x -> ~ In x (scan s) /\ fA (getn (nodes s) x) = None /\ fB (getn (nodes s) x) = None.

  Lemma open_plain_inv s v F :
    inv s -> fresh_ok F s -> F v -> (v < n)%nat ->
    inv (open_plain lt s v) /\ fresh_ok (fun x => F x /\ x <> v) (open_plain lt s v) /\
    (forall x, In x (scan (open_plain lt s v)) <-> x = v \/ In x (scan s)) /\
    out (open_plain lt s v) = out s.
  Proof.
    intros (Hs & Hn & Hl & Hpi) HF Fv Hv.
    destruct (HF v Fv) as (Hnin & FA & FB).
    destruct (insert_decomp v (scan s) Hs Hnin Hn Hv) as (a & b & Eab & Eins & Ha & Hb).
    unfold open_plain. rewrite Eins.
    assert (Hva : ~ In v a) by (intros H; apply Hnin; rewrite Eab; apply in_or_app; now left).
    rewrite (nbrs_decomp v a b None Hva).
    pose proof (set_insert_sorted lt lt_trans v _ Hs) as Hs'. rewrite Eins in Hs'.
    pose proof (sorted_NoDup _ Hs') as ND.
    assert (Hin' : forall x, In x (a ++ v :: b) <-> x = v \/ In x (scan s)).
    { intros x. rewrite Eab, !in_app_iff. cbn. intuition. }
    assert (Hn' : forall x, In x (a ++ v :: b) -> (x < n)%nat).
    { intros x Hx. apply Hin' in Hx. destruct Hx as [->|Hx]; auto. }
    assert (Hp : forall u, lastp None a = Some u -> (u < n)%nat /\ u <> v).
    { intros u Hu. destruct (lastp_in _ _ _ Hu) as [E|Hin]; [discriminate|].
      split; [apply Hn; rewrite Eab; apply in_or_app; now left | intros ->; contradiction]. }
    assert (Hnx : forall u, hd_error b = Some u -> (u < n)%nat /\ u <> v).
    { intros u Hu. destruct b as [|h b]; [discriminate|]. inversion Hu; subst h.
      split; [apply Hn; rewrite Eab; apply in_or_app; right; now left|].
      intros ->. apply Hnin. rewrite Eab. apply in_or_app. right. now left. }
    pose proof (fun j => open_ptrs (nodes s) v (lastp None a) (hd_error b) j Hl Hv Hp Hnx FA FB) as PT.
    cbv zeta in PT. cbn [scan nodes out].
    set (ns2 := match hd_error b with
                | Some u => set_fA (set_fB (match lastp None a with
                                            | Some u0 => set_fB (set_fA (nodes s) v (Some u0)) u0 (Some v)
                                            | None => nodes s end) v (Some u)) u (Some v)
                | None => match lastp None a with
                          | Some u0 => set_fB (set_fA (nodes s) v (Some u0)) u0 (Some v)
                          | None => nodes s end
                end) in *.
    split; [|split; [|split; [exact Hin' | reflexivity]]].
    - (* inv *)
      unfold inv. cbn [scan nodes out].
      split; [exact Hs'|]. split; [exact Hn'|]. split; [exact (proj1 (PT O))|].
      intros s1 x s2 E. destruct (PT x) as (_ & PA & PB). rewrite PA, PB.
      symmetry in E. destruct (app_decomp x v s1 s2 a b E) as [(E1 & E2 & E3)|[(a2 & E1 & E2)|(b1 & E1 & E2)]].
      + subst x s1 s2. rewrite Nat.eqb_refl.
        replace (oeqb (hd_error b) v) with false; [split; reflexivity|].
        destruct (hd_error b) as [w|] eqn:Eh; [|reflexivity]. cbn. symmetry. apply Nat.eqb_neq.
        intros E0. subst w. destruct (Hnx v eq_refl) as [_ H]. congruence.
      + (* x in a *)
        subst a s2.
        assert (Hxv : x <> v) by (intros ->; apply Hva; apply in_or_app; right; now left).
        assert (Hxb : ~ In x b).
        { intros H. rewrite <- app_assoc in ND. cbn in ND. apply NoDup_app_notin in ND. destruct ND as [_ ND].
          apply ND. apply in_or_app. right. right. exact H. }
        replace (Nat.eqb x v) with false by (symmetry; apply Nat.eqb_neq; exact Hxv).
        replace (oeqb (hd_error b) x) with false.
        2:{ destruct b as [|h b]; [reflexivity|]. cbn. symmetry. apply Nat.eqb_neq. intros ->. apply Hxb. now left. }
        destruct (Hpi s1 x (a2 ++ b)) as [OA OB]; [rewrite Eab, <- app_assoc; reflexivity|].
        split; [exact OA|].
        rewrite lastp_app. destruct a2 as [|y a2]; cbn [lastp app hd_error oeqb].
        * rewrite Nat.eqb_refl. reflexivity.
        * destruct (lastp_some y a2) as (u & Eu & Hu). rewrite Eu. cbn [oeqb].
          replace (Nat.eqb x u) with false; [exact OB|]. symmetry. apply Nat.eqb_neq. intros ->.
          rewrite <- app_assoc in ND. cbn in ND. apply NoDup_app_notin in ND. destruct ND as [_ ND].
          apply ND. destruct Hu as [->|Hu]; [now left | right; apply in_or_app; left; exact Hu].
      + (* x in b *)
        subst b s1.
        assert (Hxv : x <> v).
        { intros ->. apply Hnin. rewrite Eab. apply in_or_app. right. apply in_or_app. right. now left. }
        assert (ND2 : NoDup ((a ++ v :: b1) ++ x :: s2)) by (rewrite <- app_assoc; exact ND).
        apply NoDup_app_notin in ND2. destruct ND2 as [ND2 _].
        replace (Nat.eqb x v) with false by (symmetry; apply Nat.eqb_neq; exact Hxv).
        destruct (Hpi (a ++ b1) x s2) as [OA OB]; [rewrite Eab, <- app_assoc; reflexivity|].
        split.
        * rewrite lastp_app. destruct b1 as [|y b1]; cbn [app hd_error oeqb lastp].
          -- rewrite Nat.eqb_refl. reflexivity.
          -- replace (Nat.eqb x y) with false.
             2:{ symmetry. apply Nat.eqb_neq. intros ->. apply ND2. apply in_or_app. right. right. now left. }
             rewrite OA, lastp_app. reflexivity.
        * replace (oeqb (lastp None a) x) with false; [exact OB|].
          destruct (lastp None a) as [u|] eqn:Eu; [|reflexivity]. cbn. symmetry. apply Nat.eqb_neq. intros ->.
          destruct (lastp_in _ _ _ Eu) as [?|Hin]; [discriminate|]. apply ND2. apply in_or_app. now left.
    - (* freshness *)
      unfold fresh_ok. cbn [scan nodes out].
      intros x [Fx Hxv]. destruct (HF x Fx) as (Hx1 & Hx2 & Hx3). split.
      + intros H. apply Hin' in H. destruct H; [contradiction | contradiction].
      + destruct (PT x) as (_ & PA & PB). rewrite PA, PB.
        replace (Nat.eqb x v) with false by (symmetry; apply Nat.eqb_neq; exact Hxv).
        replace (oeqb (hd_error b) x) with false.
        2:{ destruct b as [|h b]; [reflexivity|]. cbn. symmetry. apply Nat.eqb_neq. intros ->. apply Hx1.
            rewrite Eab. apply in_or_app. right. now left. }
        replace (oeqb (lastp None a) x) with false; [split; assumption|].
        destruct (lastp None a) as [u|] eqn:Eu; [|reflexivity]. cbn. symmetry. apply Nat.eqb_neq. intros ->.
        destruct (lastp_in _ _ _ Eu) as [?|Hin]; [discriminate|]. apply Hx1. rewrite Eab. apply in_or_app. now left.
  Qed.

  Definition oc (o : option nat) (f : nat -> constr) : list constr := match o with Some u => [f u] | None => [] end.

  Lemma close_ptrs ns v (o : list constr) j :
    length ns = n ->
    (forall u, fA (getn ns v) = Some u -> (u < n)%nat /\ u <> v) ->
    (forall u, fB (getn ns v) = Some u -> (u < n)%nat) ->
    let l := fA (getn ns v) in
    let r := fB (getn ns v) in
    let s' := close_plain len (mkst ns [] o) v in
    length (nodes s') = n /\
    fA (getn (nodes s') j) = (if oeqb r j then l else fA (getn ns j)) /\
    fB (getn (nodes s') j) = (if oeqb l j then r else fB (getn ns j)) /\
    out s' = oc r (fun ru => mkc v ru (sep len v ru)) ++ oc l (fun lu => mkc lu v (sep len v lu)) ++ o.
  Proof.
    intros Hl HA HB. cbv zeta. unfold close_plain. cbn [nodes out scan].
    destruct (fA (getn ns v)) as [lu|] eqn:EA; destruct (fB (getn ns v)) as [ru|] eqn:EB; cbn [oeqb oc app nodes out].
    - destruct (HA lu eq_refl) as [Hlu Hne]. pose proof (HB ru eq_refl) as Hru.
      apply Nat.ltb_lt in Hlu, Hru. ptr_simp. rewrite Hl, Hlu, Hru, !andb_true_r, EA.
      repeat split; reflexivity.
    - destruct (HA lu eq_refl) as [Hlu Hne]. apply Nat.ltb_lt in Hlu. ptr_simp. rewrite Hl, Hlu, !andb_true_r.
      repeat split; reflexivity.
    - pose proof (HB ru eq_refl) as Hru. apply Nat.ltb_lt in Hru. ptr_simp. rewrite Hl, Hru, !andb_true_r, EA.
      repeat split; reflexivity.
    - repeat split; auto.
  Qed.

  Lemma close_plain_frame s v :
    nodes (close_plain len s v) = nodes (close_plain len (mkst (nodes s) [] (out s)) v) /\
    out (close_plain len s v) = out (close_plain len (mkst (nodes s) [] (out s)) v) /\
    scan (close_plain len s v) = set_erase v (scan s).
  Proof.
    unfold close_plain. cbn [nodes out scan].
    destruct (fA (getn (nodes s) v)); destruct (fB (getn (nodes s) v)); cbn [nodes out scan]; auto.
  Qed.

  Lemma close_plain_inv s v F :
    inv s -> fresh_ok F s -> In v (scan s) ->
    exists s1 s2, scan s = s1 ++ v :: s2 /\ scan (close_plain len s v) = s1 ++ s2 /\
      inv (close_plain len s v) /\ fresh_ok F (close_plain len s v) /\
      out (close_plain len s v) =
        oc (hd_error s2) (fun ru => mkc v ru (sep len v ru)) ++ oc (lastp None s1) (fun lu => mkc lu v (sep len v lu)) ++ out s.
  Proof.
    intros (Hs & Hn & Hl & Hpi) HF Hin.
    destruct (in_split _ _ Hin) as (s1 & s2 & E). exists s1, s2.
    pose proof (sorted_NoDup _ Hs) as ND. rewrite E in ND.
    destruct (NoDup_app_notin _ _ _ ND) as [N1 N2].
    destruct (Hpi s1 v s2 E) as [EA EB].
    destruct (close_plain_frame s v) as (Fn & Fo & Fs).
    assert (HA : forall u, fA (getn (nodes s) v) = Some u -> (u < n)%nat /\ u <> v).
    { intros u Hu. rewrite EA in Hu. destruct (lastp_in _ _ _ Hu) as [?|H]; [discriminate|].
      split; [apply Hn; rewrite E; apply in_or_app; now left | intros ->; contradiction]. }
    assert (HB : forall u, fB (getn (nodes s) v) = Some u -> (u < n)%nat).
    { intros u Hu. rewrite EB in Hu. destruct s2 as [|h s2]; [discriminate|]. inversion Hu; subst h.
      apply Hn. rewrite E. apply in_or_app. right. right. now left. }
    pose proof (fun j => close_ptrs (nodes s) v (out s) j Hl HA HB) as PT. cbv zeta in PT.
    rewrite <- Fn, <- Fo, EA, EB in PT.
    assert (Es : scan (close_plain len s v) = s1 ++ s2) by (rewrite Fs, E; apply erase_decomp; exact N1).
    assert (Hs' : sorted (s1 ++ s2)) by (rewrite <- Es, Fs; apply set_erase_sorted; exact Hs).
    split; [exact E|]. split; [exact Es|]. split; [|split].
    - unfold inv. rewrite Es. split; [exact Hs'|]. split.
      { intros x Hx. apply Hn. rewrite E. apply in_app_or in Hx. apply in_or_app. destruct Hx; [now left | right; now right]. }
      split; [exact (proj1 (PT O))|].
      intros t1 x t2 E2. destruct (PT x) as (_ & PA & PB & _). rewrite PA, PB.
      symmetry in E2. destruct (app_decomp2 x t1 t2 s1 s2 E2) as [(a2 & E1 & E3)|(b1 & E1 & E3)].
      + subst s1 t2.
        assert (ND1 : NoDup (t1 ++ x :: (a2 ++ v :: s2))) by (rewrite <- app_assoc in ND; exact ND).
        destruct (NoDup_app_notin _ _ _ ND1) as [_ Nx].
        destruct (Hpi t1 x (a2 ++ v :: s2)) as [OA OB]; [rewrite E, <- app_assoc; reflexivity|].
        replace (oeqb (hd_error s2) x) with false.
        2:{ destruct s2 as [|h s2]; [reflexivity|]. cbn. symmetry. apply Nat.eqb_neq. intros ->.
            apply Nx. apply in_or_app. right. right. now left. }
        split; [exact OA|]. rewrite lastp_app.
        destruct a2 as [|y a2]; cbn [lastp oeqb app hd_error].
        * rewrite Nat.eqb_refl. reflexivity.
        * destruct (lastp_some y a2) as (u & Eu & Hu). rewrite Eu. cbn [oeqb].
          replace (Nat.eqb x u) with false; [rewrite OB; reflexivity|]. symmetry. apply Nat.eqb_neq. intros ->.
          apply Nx. apply in_or_app. left. destruct Hu as [->|Hu]; [now left | now right].
      + subst s2 t1.
        assert (ND1 : NoDup ((s1 ++ v :: b1) ++ x :: t2)) by (rewrite <- app_assoc; exact ND).
        destruct (NoDup_app_notin _ _ _ ND1) as [Nx _].
        destruct (Hpi (s1 ++ v :: b1) x t2) as [OA OB]; [rewrite E, <- app_assoc; reflexivity|].
        split.
        * destruct b1 as [|y b1]; cbn [app hd_error oeqb].
          -- rewrite Nat.eqb_refl, app_nil_r. reflexivity.
          -- replace (Nat.eqb x y) with false.
             2:{ symmetry. apply Nat.eqb_neq. intros ->. apply Nx. apply in_or_app. right. right. now left. }
             rewrite OA, !lastp_app. reflexivity.
        * replace (oeqb (lastp None s1) x) with false; [exact OB|].
          destruct (lastp None s1) as [u|] eqn:Eu; [|reflexivity]. cbn. symmetry. apply Nat.eqb_neq. intros ->.
          destruct (lastp_in _ _ _ Eu) as [?|Hu]; [discriminate|]. apply Nx. apply in_or_app. now left.
    - intros x Fx. destruct (HF x Fx) as (X1 & X2 & X3). split.
      + rewrite Es. intros H. apply X1. rewrite E. apply in_app_or in H. apply in_or_app. destruct H; [now left | right; now right].
      + destruct (PT x) as (_ & PA & PB & _). rewrite PA, PB.
        replace (oeqb (hd_error s2) x) with false.
        2:{ destruct s2 as [|h s2]; [reflexivity|]. cbn. symmetry. apply Nat.eqb_neq. intros ->.
            apply X1. rewrite E. apply in_or_app. right. right. now left. }
        replace (oeqb (lastp None s1) x) with false; [split; assumption|].
        destruct (lastp None s1) as [u|] eqn:Eu; [|reflexivity]. cbn. symmetry. apply Nat.eqb_neq. intros ->.
        destruct (lastp_in _ _ _ Eu) as [?|Hu]; [discriminate|]. apply X1. rewrite E. apply in_or_app. now left.
    - exact (proj2 (proj2 (proj2 (PT O)))).
  Qed.

  (* ---------------- links and chains *)
  Definition has_c (o : list constr) (a b : nat) : Prop := exists c, In c o /\ cl c = a /\ cr c = b.
  Definition link (s : st) (a b : nat) : Prop :=
    LT a b /\ (has_c (out s) a b \/ (In a (scan s) /\ In b (scan s))).
  Inductive conn (s : st) : nat -> nat -> Prop :=
  | conn_one a b : link s a b -> conn s a b
  | conn_step a b c : link s a b -> conn s b c -> conn s a c.

  Lemma conn_trans s a b c : conn s a b -> conn s b c -> conn s a c.
  Proof. induction 1; intros H2; [eapply conn_step; eauto | eapply conn_step; [eauto | apply IHconn; exact H2]]. Qed.

  Lemma conn_mono s s' : (forall a b, link s a b -> conn s' a b) -> forall a b, conn s a b -> conn s' a b.
  Proof. intros H a b C. induction C; [now apply H | eapply conn_trans; [apply H; eauto | exact IHC]]. Qed.

  Lemma open_conn s v F :
    inv s -> fresh_ok F s -> F v -> (v < n)%nat -> forall a b, conn s a b -> conn (open_plain lt s v) a b.
  Proof.
    intros I HF Fv Hv. destruct (open_plain_inv s v F I HF Fv Hv) as (_ & _ & Hin & Ho).
    apply conn_mono. intros a b [L [H|[H1 H2]]]; apply conn_one; split; auto.
    - left. rewrite Ho. exact H.
    - right. split; apply Hin; now right.
  Qed.

  Lemma close_conn s v F :
    inv s -> fresh_ok F s -> In v (scan s) -> forall a b, conn s a b -> conn (close_plain len s v) a b.
  Proof.
    intros I HF Hin.
    destruct (close_plain_inv s v F I HF Hin) as (s1 & s2 & E & Es & _ & _ & Eo).
    destruct I as (Hs & _). rewrite E in Hs. destruct (sorted_app_lt _ _ _ Hs) as (A1 & A2 & A3).
    assert (Hout : forall a b, has_c (out s) a b -> has_c (out (close_plain len s v)) a b).
    { intros a b (c & Hc & E1 & E2). exists c. split; [|auto]. rewrite Eo. apply in_or_app. right. apply in_or_app. now right. }
    assert (Hscan : forall x, In x (scan s) -> x <> v -> In x (scan (close_plain len s v))).
    { intros x Hx Hne. rewrite Es. rewrite E in Hx. apply in_app_or in Hx. apply in_or_app.
      destruct Hx as [Hx|[Hx|Hx]]; [now left | congruence | now right]. }
    apply conn_mono. intros a b [L [H|[H1 H2]]].
    - apply conn_one. split; [exact L | left; apply Hout; exact H].
    - destruct (Nat.eq_dec b v) as [->|Hb]; [|destruct (Nat.eq_dec a v) as [->|Ha]].
      + (* (a, v): a lies before v *)
        assert (Ha1 : In a s1).
        { rewrite E in H1. apply in_app_or in H1. destruct H1 as [H1|[H1|H1]]; auto.
          - subst a. rewrite lt_irrefl in L. discriminate.
          - pose proof (lt_trans _ _ _ L (A2 a H1)) as X. rewrite lt_irrefl in X. discriminate. }
        destruct s1 as [|h t] using rev_ind; [contradiction|]. clear IHt.
        rewrite lastp_snoc in Eo. cbn [oc] in Eo.
        assert (Lh : link (close_plain len s v) h v).
        { split; [apply A1; apply in_or_app; right; now left|]. left. exists (mkc h v (sep len v h)). split; [|auto].
          rewrite Eo. apply in_or_app. right. now left. }
        apply in_app_or in Ha1. destruct Ha1 as [Ha1|[->|[]]]; [|apply conn_one; exact Lh].
        eapply conn_step; [|apply conn_one; exact Lh]. split.
        * rewrite <- app_assoc in Hs. cbn in Hs. destruct (sorted_app_lt _ _ _ Hs) as (B1 & _). now apply B1.
        * right. split; rewrite Es; apply in_or_app; left; apply in_or_app; [now left | right; now left].
      + (* (v, b): b lies after v *)
        assert (Hb2 : In b s2).
        { rewrite E in H2. apply in_app_or in H2. destruct H2 as [H2|[H2|H2]]; auto.
          - pose proof (lt_trans _ _ _ (A1 b H2) L) as X. rewrite lt_irrefl in X. discriminate.
          - congruence. }
        destruct s2 as [|h t]; [contradiction|]. cbn [hd_error oc app] in Eo.
        assert (Lh : link (close_plain len s v) v h).
        { split; [apply A2; now left|]. left. exists (mkc v h (sep len v h)). split; [|auto]. rewrite Eo. now left. }
        destruct Hb2 as [->|Hb2]; [apply conn_one; exact Lh|].
        eapply conn_step; [exact Lh|]. apply conn_one. split.
        * assert (Hs2 : sorted ((s1 ++ [v]) ++ h :: t)) by (rewrite <- app_assoc; exact Hs).
          destruct (sorted_app_lt _ _ _ Hs2) as (_ & B2 & _). now apply B2.
        * right. split; rewrite Es; apply in_or_app; right; [now left | now right].
      + apply conn_one. split; [exact L|]. right. split; apply Hscan; auto.
  Qed.

  (* all emitted gaps are the mean of the two lengths *)
  Definition gaps_ok (o : list constr) : Prop := forall c, In c o -> cgap c == (len (cl c) + len (cr c)) / 2.

  Lemma close_gaps s v F : inv s -> fresh_ok F s -> In v (scan s) -> gaps_ok (out s) -> gaps_ok (out (close_plain len s v)).
  Proof.
    intros I HF Hin G. destruct (close_plain_inv s v F I HF Hin) as (s1 & s2 & _ & _ & _ & _ & Eo).
    rewrite Eo. intros c Hc. apply in_app_or in Hc. destruct Hc as [Hc|Hc]; [|apply in_app_or in Hc; destruct Hc as [Hc|Hc]].
    - destruct (hd_error s2); cbn [oc In] in Hc; [|contradiction]. destruct Hc as [<-|[]]. cbn [cgap cl cr]. unfold sep. rewrite Qred_correct. reflexivity.
    - destruct (lastp None s1); cbn [oc In] in Hc; [|contradiction]. destruct Hc as [<-|[]]. cbn [cgap cl cr]. unfold sep. rewrite Qred_correct. field.
    - now apply G.
  Qed.

  (* ---------------- a run over a well-formed event list *)
  Definition opened (p : list event) (x : nat) : Prop := exists e, In e p /\ ety e = Open /\ enode e = x.
  Definition closed (p : list event) (x : nat) : Prop := exists e, In e p /\ ety e = Close /\ enode e = x.

  Record wf_events (evs : list event) : Prop := {
    we_range : forall e, In e evs -> (enode e < n)%nat;
    we_nodup : forall p1 e p2, evs = p1 ++ e :: p2 -> forall e', In e' p1 -> ety e' = ety e -> enode e' <> enode e;
    we_open_first : forall p1 e p2, evs = p1 ++ e :: p2 -> ety e = Close -> opened p1 (enode e);
    we_close_later : forall p1 e p2, evs = p1 ++ e :: p2 -> ety e = Open -> closed p2 (enode e) }.

  Definition R (p : list event) (s : st) : Prop :=
    inv s /\ fresh_ok (fun x => (x < n)%nat /\ ~ opened p x) s /\
    (forall x, In x (scan s) <-> opened p x /\ ~ closed p x) /\ gaps_ok (out s).

  Lemma fresh_ok_weaken (F F' : nat -> Prop) s : (forall x, F' x -> F x) -> fresh_ok F s -> fresh_ok F' s.
  Proof. intros H HF x Fx. apply HF. now apply H. Qed.

  Lemma opened_snoc p e x : opened (p ++ [e]) x <-> opened p x \/ (ety e = Open /\ enode e = x).
  Proof.
    unfold opened. split.
    - intros (e0 & H & A & B). apply in_app_or in H. destruct H as [H|[<-|[]]]; [left; exists e0; auto | right; auto].
    - intros [(e0 & H & A & B)|[A B]]; [exists e0 | exists e]; (split; [apply in_or_app|auto]); [now left | right; now left].
  Qed.
  Lemma closed_snoc p e x : closed (p ++ [e]) x <-> closed p x \/ (ety e = Close /\ enode e = x).
  Proof.
    unfold closed. split.
    - intros (e0 & H & A & B). apply in_app_or in H. destruct H as [H|[<-|[]]]; [left; exists e0; auto | right; auto].
    - intros [(e0 & H & A & B)|[A B]]; [exists e0 | exists e]; (split; [apply in_or_app|auto]); [now left | right; now left].
  Qed.

  Lemma step_R evs p e q s :
    wf_events evs -> evs = p ++ e :: q -> R p s ->
    R (p ++ [e]) (step_plain lt len s e) /\ (forall a b, conn s a b -> conn (step_plain lt len s e) a b).
  Proof.
    intros W E (I & HF & Hsc & G). unfold step_plain.
    assert (Hv : (enode e < n)%nat) by (apply (we_range _ W); rewrite E; apply in_or_app; right; now left).
    destruct (ety e) eqn:Ety.
    - (* Open *)
      remember (enode e) as v eqn:Ev.
      assert (NO : ~ opened p v).
      { intros (e0 & H0 & A & B). apply (we_nodup _ W p e q E e0 H0); congruence. }
      assert (NC : ~ closed p v).
      { intros (e0 & H0 & A & B). destruct (in_split _ _ H0) as (p1 & p2 & Ep).
        assert (E' : evs = p1 ++ e0 :: (p2 ++ e :: q)) by (rewrite E, Ep, <- app_assoc; reflexivity).
        destruct (we_open_first _ W _ _ _ E' A) as (e1 & H1 & A1 & B1).
        apply NO. exists e1. split; [rewrite Ep; apply in_or_app; now left | split; congruence]. }
      destruct (open_plain_inv s v _ I HF (conj Hv NO) Hv) as (I' & HF' & Hin & Ho).
      split; [|exact (open_conn s v _ I HF (conj Hv NO) Hv)].
      split; [exact I'|]. split; [|split].
      + refine (fresh_ok_weaken _ _ _ _ HF'). cbv beta. intros x [Hx Hno]. split; [split; [exact Hx|]|].
        * intros H. apply Hno. apply opened_snoc. now left.
        * intros ->. apply Hno. apply opened_snoc. right. auto.
      + intros x. rewrite Hin, Hsc, opened_snoc, closed_snoc. rewrite <- Ev, Ety. split.
        * intros [->|[A B]]; [split; [right; auto | intros [H|[H _]]; [contradiction | discriminate]]|].
          split; [now left | intros [H|[H _]]; [contradiction | discriminate]].
        * intros [[A|[_ A]] B]; [right; split; [exact A | intros H; apply B; now left] | left; auto].
      + rewrite Ho. exact G.
    - (* Close *)
      remember (enode e) as v eqn:Ev.
      assert (Hin : In v (scan s)).
      { apply Hsc. split; [rewrite Ev; exact (we_open_first _ W p e q E Ety)|].
        intros (e0 & H0 & A & B). apply (we_nodup _ W p e q E e0 H0); congruence. }
      destruct (close_plain_inv s v _ I HF Hin) as (s1 & s2 & Es & Es' & I' & HF' & Eo).
      split; [|exact (close_conn s v _ I HF Hin)].
      split; [exact I'|]. split; [|split].
      + refine (fresh_ok_weaken _ _ _ _ HF'). cbv beta. intros x [Hx Hno]. split; [exact Hx|]. intros H. apply Hno. apply opened_snoc. now left.
      + intros x. rewrite opened_snoc, closed_snoc. rewrite <- Ev, Ety.
        destruct I as (Hs & _). pose proof (sorted_NoDup _ Hs) as ND. rewrite Es in ND.
        destruct (NoDup_app_notin _ _ _ ND) as [N1 N2].
        assert (X : In x (scan (close_plain len s v)) <-> In x (scan s) /\ x <> v).
        { rewrite Es', Es, !in_app_iff. cbn [In]. split.
          - intros [H|H]; (split; [tauto|]); intros ->; contradiction.
          - intros [[H|[H|H]] Hne]; [now left | congruence | now right]. }
        rewrite X, Hsc. split.
        * intros [[A B] C]. split; [now left|]. intros [H|[_ H]]; [contradiction | congruence].
        * intros [[A|[A _]] B]; [|discriminate]. split; [split; [exact A|]|].
          -- intros H. apply B. now left.
          -- intros ->. apply B. right. auto.
      + exact (close_gaps s v _ I HF Hin G).
  Qed.

  Lemma run_mid evs : wf_events evs -> forall q1 p s q2, evs = p ++ q1 ++ q2 -> R p s ->
    R (p ++ q1) (fold_left (step_plain lt len) q1 s) /\
    (forall a b, conn s a b -> conn (fold_left (step_plain lt len) q1 s) a b).
  Proof.
    intros W. induction q1 as [|e q1 IH]; intros p s q2 E HR.
    - rewrite app_nil_r. cbn. auto.
    - cbn [fold_left]. destruct (step_R evs p e (q1 ++ q2) s W E HR) as [HR' C1].
      destruct (IH (p ++ [e]) (step_plain lt len s e) q2) as [HR'' C2]; [rewrite <- app_assoc; exact E | exact HR'|].
      rewrite <- app_assoc in HR''. split; [exact HR''|]. intros a b C. apply C2, C1, C.
  Qed.

  Lemma R_init : (forall x, getn (repeat node0 n) x = node0) -> R [] (st0 n).
  Proof.
    intros G. unfold R, st0. split; [|split; [|split]].
    - unfold inv; cbn [scan nodes out]. split; [constructor|]. split; [intros x []|]. split; [apply repeat_length|].
      intros t1 x t2 E. destruct t1; discriminate.
    - unfold fresh_ok; cbn [scan nodes out]. intros x _. rewrite G. split; [intros []|split; reflexivity].
    - cbn [scan]. intros x. split; [intros [] | intros [(e & [] & _) _]].
    - cbn [out]. intros c [].
  Qed.

  Lemma getn_repeat x : getn (repeat node0 n) x = node0.
  Proof.
    unfold getn. destruct (nth_in_or_default x (repeat node0 n) node0) as [H|H]; [now apply repeat_spec in H | exact H].
  Qed.

  Lemma conn_path s a b : scan s = [] -> conn s a b -> path (out s) a b.
  Proof.
    intros E C. induction C as [a b [_ [(c & Hc & <- & <-)|[H _]]] | a b c [_ [(k & Hk & <- & <-)|[H _]]] C IH].
    - now apply path_one.
    - rewrite E in H. destruct H.
    - eapply path_step; eauto.
    - rewrite E in H. destruct H.
  Qed.

  (* the abstract chain lemma: two nodes that are in the scan line at the same time end up joined by a path *)
  Theorem chain_abstract evs : wf_events evs -> forall p q, evs = p ++ q ->
    let sp := run_plain lt len n p in
    let sf := run_plain lt len n evs in
    gaps_ok (out sf) /\
    forall u v, In u (scan sp) -> In v (scan sp) -> u <> v -> path (out sf) u v \/ path (out sf) v u.
  Proof.
    intros W p q E. cbv zeta. unfold run_plain.
    destruct (run_mid evs W p [] (st0 n) q E (R_init getn_repeat)) as [Rp _]. cbn [app] in Rp.
    destruct (run_mid evs W q p (fold_left (step_plain lt len) p (st0 n)) []) as [Rf C]; [rewrite app_nil_r; exact E | exact Rp|].
    subst evs. rewrite fold_left_app.
    set (sp := fold_left (step_plain lt len) p (st0 n)) in *.
    set (sf := fold_left (step_plain lt len) q sp) in *.
    destruct Rf as (_ & _ & Hsc & G). split; [exact G|].
    assert (Hempty : scan sf = []).
    { destruct (scan sf) as [|x t] eqn:Es; [reflexivity|exfalso].
      destruct (proj1 (Hsc x) (or_introl eq_refl)) as [(e & He & A & B) NC].
      destruct (in_split _ _ He) as (p1 & p2 & Ep).
      destruct (we_close_later _ W p1 e p2 Ep A) as (e1 & H1 & A1 & B1).
      apply NC. exists e1. split; [rewrite Ep; apply in_or_app; right; now right | split; congruence]. }
    intros u v Hu Hv Hne.
    destruct Rp as ((_ & Hrange & _) & _).
    destruct (lt_total u v (Hrange u Hu) (Hrange v Hv) Hne) as [L|L]; [left|right];
      apply (conn_path sf _ _ Hempty); apply C; apply conn_one; split; auto.
  Qed.
  Lemma run_scan_char evs : wf_events evs -> forall p q, evs = p ++ q ->
    forall x, In x (scan (run_plain lt len n p)) <-> opened p x /\ ~ closed p x.
  Proof.
    intros W p q E. unfold run_plain.
    destruct (run_mid evs W p [] (st0 n) q E (R_init getn_repeat)) as [(_ & _ & Hsc & _) _]. exact Hsc.
  Qed.

  Theorem chain_abstract_oc evs : wf_events evs -> forall p q, evs = p ++ q ->
    let sf := run_plain lt len n evs in
    gaps_ok (out sf) /\
    forall u v, opened p u -> ~ closed p u -> opened p v -> ~ closed p v -> u <> v ->
      path (out sf) u v \/ path (out sf) v u.
  Proof.
    intros W p q E. destruct (chain_abstract evs W p q E) as [G H]. split; [exact G|].
    intros u v A B C D Hne. apply H; auto; apply (run_scan_char evs W p q E); auto.
  Qed.
End Chain.

(* ------------------------------------------------------------------ glibc-style merge sort: permutation + order *)
Section MsortFacts.
  Context {A : Type}.
  Variable cmp : A -> A -> Z.
  Variable le : A -> A -> Prop.
  Hypothesis le_trans : forall a b c, le a b -> le b c -> le a c.
  Hypothesis cmp_le : forall a b, (cmp a b <= 0)%Z -> le a b.
  Hypothesis cmp_gt : forall a b, (cmp a b > 0)%Z -> le b a.

  Lemma merge_nil_l l2 : merge cmp [] l2 = l2.
  Proof. destruct l2; reflexivity. Qed.
  Lemma merge_nil_r l1 : merge cmp l1 [] = l1.
  Proof. destruct l1; reflexivity. Qed.
  Lemma merge_cons a1 l1 a2 l2 :
    merge cmp (a1 :: l1) (a2 :: l2) =
    if (cmp a1 a2 <=? 0)%Z then a1 :: merge cmp l1 (a2 :: l2) else a2 :: merge cmp (a1 :: l1) l2.
  Proof. reflexivity. Qed.

  Lemma merge_perm : forall l1 l2, Permutation (merge cmp l1 l2) (l1 ++ l2).
  Proof.
    induction l1 as [|a1 l1 IH1]; intros l2; [rewrite merge_nil_l; reflexivity|].
    induction l2 as [|a2 l2 IH2]; [rewrite merge_nil_r, app_nil_r; reflexivity|].
    rewrite merge_cons. destruct (cmp a1 a2 <=? 0)%Z.
    - cbn. constructor. apply IH1.
    - rewrite IH2. apply (Permutation_middle (a1 :: l1) l2 a2).
  Qed.

  Lemma merge_sorted : forall l1 l2, StronglySorted le l1 -> StronglySorted le l2 -> StronglySorted le (merge cmp l1 l2).
  Proof.
    induction l1 as [|a1 l1 IH1]; intros l2 S1 S2; [rewrite merge_nil_l; exact S2|].
    induction l2 as [|a2 l2 IH2]; [rewrite merge_nil_r; exact S1|].
    rewrite merge_cons.
    pose proof (StronglySorted_inv S1) as [S1' F1]. pose proof (StronglySorted_inv S2) as [S2' F2].
    destruct (cmp a1 a2 <=? 0)%Z eqn:E.
    - apply Z.leb_le in E. pose proof (cmp_le _ _ E) as L. constructor; [apply IH1; assumption|].
      rewrite Forall_forall in *. intros x Hx. apply (Permutation_in _ (merge_perm _ _)) in Hx.
      apply in_app_or in Hx. destruct Hx as [Hx|[<-|Hx]]; [now apply F1 | exact L | eapply le_trans; [exact L | now apply F2]].
    - apply Z.leb_gt in E. assert (L : le a2 a1) by (apply cmp_gt; lia). constructor; [apply IH2; assumption|].
      rewrite Forall_forall in *. intros x Hx. apply (Permutation_in _ (merge_perm _ _)) in Hx.
      apply in_app_or in Hx. destruct Hx as [[<-|Hx]|Hx]; [exact L | eapply le_trans; [exact L | now apply F1] | now apply F2].
  Qed.

  Lemma msort_spec : forall fuel l r, msort cmp fuel l = Some r -> Permutation r l /\ StronglySorted le r.
  Proof.
    induction fuel as [|f IH]; intros l r H.
    - destruct l as [|a [|b t]]; cbn in H; try discriminate; inversion H; subst; split; auto; repeat constructor.
    - destruct l as [|a [|b t]]; [inversion H; subst; split; auto; constructor | inversion H; subst; split; auto; repeat constructor|].
      remember (a :: b :: t) as l eqn:El.
      assert (H' : match msort cmp f (firstn (Nat.div2 (length l)) l), msort cmp f (skipn (Nat.div2 (length l)) l) with
                   | Some x, Some y => Some (merge cmp x y) | _, _ => None end = Some r).
      { rewrite El in *. exact H. }
      clear H. destruct (msort cmp f (firstn _ l)) as [x|] eqn:E1; [|discriminate].
      destruct (msort cmp f (skipn _ l)) as [y|] eqn:E2; [|discriminate].
      inversion H'; subst r. destruct (IH _ _ E1) as [P1 S1]. destruct (IH _ _ E2) as [P2 S2]. split.
      + rewrite merge_perm, P1, P2. rewrite firstn_skipn. reflexivity.
      + apply merge_sorted; assumption.
  Qed.
End MsortFacts.

Lemma ss_mid {A} (R : A -> A -> Prop) a x b : StronglySorted R (a ++ x :: b) -> Forall (R x) b.
Proof.
  induction a as [|h a IH]; cbn; intros H; apply StronglySorted_inv in H; destruct H as [H1 H2]; auto.
Qed.

(* ------------------------------------------------------------------ the sorted event list *)
Definition keyle (a b : event) : Prop :=
  epos a < epos b \/ (epos a == epos b /\ (ety a = Open \/ ety b = Close)).

Lemma keyle_trans a b c : keyle a b -> keyle b c -> keyle a c.
Proof.
  unfold keyle. intros [H1|[H1 T1]] [H2|[H2 T2]].
  - left. lra.
  - left. lra.
  - left. lra.
  - right. split; [lra|]. destruct T1 as [T1|T1]; [now left|]. destruct T2 as [T2|T2]; [congruence | now right].
Qed.
Lemma compare_events_le a b : (compare_events a b <= 0)%Z -> keyle a b.
Proof.
  unfold compare_events, keyle. destruct (Qeqb (epos a) (epos b)) eqn:E1.
  - qb2p. destruct (ety a); intros H; [right; auto | lia].
  - destruct (Qgtb (epos a) (epos b)) eqn:E2; [lia|]. destruct (Qltb (epos a) (epos b)) eqn:E3; qb2p; intros _.
    + now left.
    + exfalso. apply E1. lra.
Qed.
Lemma compare_events_gt a b : (compare_events a b > 0)%Z -> keyle b a.
Proof.
  unfold compare_events, keyle. destruct (Qeqb (epos a) (epos b)) eqn:E1.
  - qb2p. destruct (ety a) eqn:Ea; intros H; [lia|]. right. split; [lra | now right].
  - destruct (Qgtb (epos a) (epos b)) eqn:E2; qb2p; [intros _; now left|].
    destruct (Qltb (epos a) (epos b)); lia.
Qed.

Definition events_of (lo hi : nat -> Q) (n : nat) : list event :=
  flat_map (fun i => [mkev Open i (lo i); mkev Close i (hi i)]) (seq 0 n).
Definition code (e : event) : nat := match ety e with Open => 2 * enode e | Close => 2 * enode e + 1 end.

Lemma events_of_in lo hi n e : In e (events_of lo hi n) <->
  exists i, (i < n)%nat /\ (e = mkev Open i (lo i) \/ e = mkev Close i (hi i)).
Proof.
  unfold events_of. rewrite in_flat_map. split.
  - intros (i & Hi & H). apply in_seq in Hi. exists i. split; [lia|]. destruct H as [<-|[<-|[]]]; auto.
  - intros (i & Hi & H). exists i. split; [apply in_seq; lia|]. destruct H as [->| ->]; cbn; auto.
Qed.

Lemma events_of_codes lo hi : forall n a,
  map code (flat_map (fun i => [mkev Open i (lo i); mkev Close i (hi i)]) (seq a n)) = seq (2 * a) (2 * n).
Proof.
  induction n as [|n IH]; intros a; [reflexivity|].
  cbn [seq flat_map app map]. rewrite IH. unfold code at 1 2. cbn [ety enode].
  replace (2 * S n)%nat with (S (S (2 * n))) by lia. cbn [seq].
  replace (2 * a + 1)%nat with (S (2 * a)) by lia. replace (2 * S a)%nat with (S (S (2 * a))) by lia. reflexivity.
Qed.

Lemma number_map (rs : list rect) : number rs = map (fun i => (i, nthr rs i)) (seq 0 (length rs)).
Proof.
  unfold number, nthr.
  assert (G : forall (l : list rect) a, combine (seq a (length l)) l = map (fun i => (i, nth (i - a) l rect0)) (seq a (length l))).
  { induction l as [|r l IH]; intros a; [reflexivity|]. cbn [length seq combine map]. rewrite Nat.sub_diag. cbn [nth].
    rewrite IH. f_equal. apply map_ext_in. intros i Hi. apply in_seq in Hi.
    replace (i - a)%nat with (S (i - S a)) by lia. reflexivity. }
  rewrite G. apply map_ext. intros i. rewrite Nat.sub_0_r. reflexivity.
Qed.

Lemma eventsY_of xb rs :
  eventsY xb rs = events_of (fun i => getMinX xb (nthr rs i)) (fun i => getMaxX xb (nthr rs i)) (length rs).
Proof.
  unfold eventsY, events_of. rewrite number_map, flat_map_concat_map, map_map, <- flat_map_concat_map. reflexivity.
Qed.
Lemma eventsX_of yb rs :
  eventsX yb rs = events_of (fun i => getMinY yb (nthr rs i)) (fun i => getMaxY yb (nthr rs i)) (length rs).
Proof.
  unfold eventsX, events_of. rewrite number_map, flat_map_concat_map, map_map, <- flat_map_concat_map. reflexivity.
Qed.

Section SortedEvents.
  Variables lo hi : nat -> Q.
  Variable n : nat.
  Hypothesis lo_le_hi : forall i, (i < n)%nat -> lo i <= hi i.
  Variable sl : list event.
  Hypothesis sl_perm : Permutation sl (events_of lo hi n).
  Hypothesis sl_sorted : StronglySorted keyle sl.

  Notation EO i := (mkev Open i (lo i)).
  Notation EC i := (mkev Close i (hi i)).

  Lemma sl_form e : In e sl -> exists i, (i < n)%nat /\ (e = EO i \/ e = EC i).
  Proof. intros H. apply (Permutation_in _ sl_perm) in H. now apply events_of_in. Qed.
  Lemma sl_has_open i : (i < n)%nat -> In (EO i) sl.
  Proof. intros H. apply (Permutation_in _ (Permutation_sym sl_perm)). apply events_of_in. exists i. auto. Qed.
  Lemma sl_has_close i : (i < n)%nat -> In (EC i) sl.
  Proof. intros H. apply (Permutation_in _ (Permutation_sym sl_perm)). apply events_of_in. exists i. auto. Qed.

  Lemma sl_codes_nodup : NoDup (map code sl).
  Proof.
    apply (Permutation_NoDup (l := map code (events_of lo hi n))).
    - apply Permutation_map. symmetry. exact sl_perm.
    - unfold events_of. rewrite events_of_codes. apply seq_NoDup.
  Qed.

  Lemma sl_split_nodup p1 e p2 e' : sl = p1 ++ e :: p2 -> In e' (p1 ++ p2) -> code e' <> code e.
  Proof.
    intros E H C. pose proof sl_codes_nodup as ND. rewrite E, map_app in ND. cbn [map] in ND.
    apply NoDup_remove_2 in ND. apply ND. rewrite <- map_app, <- C. now apply in_map.
  Qed.

  Lemma sl_after p1 e p2 e' : sl = p1 ++ e :: p2 -> In e' p2 -> keyle e e'.
  Proof.
    intros E H. pose proof sl_sorted as S. rewrite E in S. apply ss_mid in S. rewrite Forall_forall in S. now apply S.
  Qed.

  (* an event of the list other than e sits before or after it *)
  Lemma sl_elsewhere p1 e p2 e' : sl = p1 ++ e :: p2 -> In e' sl -> e' <> e -> In e' p1 \/ In e' p2.
  Proof.
    intros E H Hne. rewrite E in H. apply in_app_or in H. destruct H as [H|[H|H]]; auto. congruence.
  Qed.

  Lemma not_keyle_close_open i : (i < n)%nat -> ~ keyle (EC i) (EO i).
  Proof.
    intros Hi [H|[H [T|T]]]; cbn [epos ety] in *; try discriminate. pose proof (lo_le_hi i Hi). lra.
  Qed.

  Lemma sl_wf : wf_events n sl.
  Proof.
    constructor.
    - intros e He. destruct (sl_form e He) as (i & Hi & [->| ->]); exact Hi.
    - intros p1 e p2 E e' He' T N.
      apply (sl_split_nodup p1 e p2 e' E); [apply in_or_app; now left|]. unfold code. rewrite T, N. reflexivity.
    - intros p1 e p2 E T.
      assert (He : In e sl) by (rewrite E; apply in_or_app; right; now left).
      destruct (sl_form e He) as (i & Hi & [->| ->]); [discriminate|]. cbn [enode].
      destruct (sl_elsewhere p1 _ p2 (EO i) E (sl_has_open i Hi) ltac:(discriminate)) as [H|H].
      + exists (EO i). auto.
      + exfalso. apply (not_keyle_close_open i Hi). exact (sl_after p1 _ p2 _ E H).
    - intros p1 e p2 E T.
      assert (He : In e sl) by (rewrite E; apply in_or_app; right; now left).
      destruct (sl_form e He) as (i & Hi & [->| ->]); [|discriminate]. cbn [enode].
      destruct (sl_elsewhere p1 _ p2 (EC i) E (sl_has_close i Hi) ltac:(discriminate)) as [H|H].
      + exfalso. destruct (in_split _ _ H) as (a & b & Ep1).
        assert (E' : sl = a ++ EC i :: (b ++ EO i :: p2)) by (rewrite E, Ep1, <- app_assoc; reflexivity).
        apply (not_keyle_close_open i Hi). apply (sl_after a _ _ _ E'). apply in_or_app. right. now left.
      + exists (EC i). auto.
  Qed.

  (* two nodes whose intervals intersect are in the scan line together just after the later of the two opens *)
  Lemma sl_meet_aux u v : (u < n)%nat -> (v < n)%nat -> u <> v -> lo v < hi u ->
    forall p1 p2, sl = p1 ++ EO v :: p2 -> In (EO u) p1 ->
    let p := p1 ++ [EO v] in
    sl = p ++ p2 /\ opened p u /\ ~ closed p u /\ opened p v /\ ~ closed p v.
  Proof.
    intros Hu Hv Hne Hov p1 p2 E Hin. cbv zeta.
    split; [rewrite <- app_assoc; exact E|]. split; [|split; [|split]].
    - exists (EO u). split; [apply in_or_app; now left | auto].
    - intros (e & He & T & N). apply in_app_or in He. destruct He as [He|[<-|[]]]; [|discriminate].
      assert (Hs : In e sl) by (rewrite E; apply in_or_app; now left).
      destruct (sl_form e Hs) as (i & Hi & [->| ->]); [discriminate|]. cbn [enode] in N. subst i.
      destruct (in_split _ _ He) as (a & b & Ep1).
      assert (E' : sl = a ++ EC u :: (b ++ EO v :: p2)) by (rewrite E, Ep1, <- app_assoc; reflexivity).
      assert (K : keyle (EC u) (EO v)) by (apply (sl_after a _ _ _ E'); apply in_or_app; right; now left).
      destruct K as [K|[K [T'|T']]]; cbn [epos ety] in *; try discriminate. lra.
    - exists (EO v). split; [apply in_or_app; right; now left | auto].
    - intros (e & He & T & N). apply in_app_or in He. destruct He as [He|[<-|[]]]; [|discriminate].
      assert (Hs : In e sl) by (rewrite E; apply in_or_app; now left).
      destruct (sl_form e Hs) as (i & Hi & [->| ->]); [discriminate|]. cbn [enode] in N. subst i.
      destruct (in_split _ _ He) as (a & b & Ep1).
      assert (E' : sl = a ++ EC v :: (b ++ EO v :: p2)) by (rewrite E, Ep1, <- app_assoc; reflexivity).
      apply (not_keyle_close_open v Hv). apply (sl_after a _ _ _ E'). apply in_or_app. right. now left.
  Qed.

  Lemma sl_meet u v : (u < n)%nat -> (v < n)%nat -> u <> v -> lo u < hi v -> lo v < hi u ->
    exists p q, sl = p ++ q /\ opened p u /\ ~ closed p u /\ opened p v /\ ~ closed p v.
  Proof.
    intros Hu Hv Hne O1 O2.
    destruct (in_split _ _ (sl_has_open v Hv)) as (p1 & p2 & E).
    assert (Hneq : EO u <> EO v) by (intros H; inversion H; congruence).
    destruct (sl_elsewhere p1 _ p2 (EO u) E (sl_has_open u Hu) Hneq) as [H|H].
    - destruct (sl_meet_aux u v Hu Hv Hne O2 p1 p2 E H) as (A & B & C & D & F). eexists _, _. eauto.
    - destruct (in_split _ _ H) as (a & b & Ep2).
      assert (E' : sl = (p1 ++ EO v :: a) ++ EO u :: b) by (rewrite E, Ep2, <- app_assoc; reflexivity).
      assert (Hin : In (EO v) (p1 ++ EO v :: a)) by (apply in_or_app; right; now left).
      destruct (sl_meet_aux v u Hv Hu (not_eq_sym Hne) O1 _ _ E' Hin) as (A & B & C & D & F). eexists _, _. eauto 6.
  Qed.
End SortedEvents.

(* ------------------------------------------------------------------ from paths to separation *)
Lemma path_bound (len : nat -> Q) cs a b :
  gaps_ok len cs -> (forall i, 0 <= len i) -> path cs a b ->
  forall p, sat p cs -> p a + (len a + len b) / 2 <= p b.
Proof.
  intros G L P p S. unfold sat in S. rewrite Forall_forall in S.
  induction P as [c Hc | c b Hc P IH].
  - pose proof (S c Hc) as H. rewrite (G c Hc) in H. exact H.
  - pose proof (S c Hc) as H. rewrite (G c Hc) in H. pose proof (L (cr c)).
    assert (E : (len (cl c) + len b) / 2 + len (cr c) == (len (cl c) + len (cr c)) / 2 + (len (cr c) + len b) / 2) by field.
    lra.
Qed.

Lemma path_incl cs cs' a b : (forall c, In c cs -> In c cs') -> path cs a b -> path cs' a b.
Proof. intros H P. induction P; [apply path_one | eapply path_step]; eauto. Qed.

Section PlainScan.
  Variable lt : nat -> nat -> bool.
  Hypothesis lt_strict : strict lt.
  Variable n : nat.
  Hypothesis lt_total : forall u v, (u < n)%nat -> (v < n)%nat -> u <> v -> lt u v = true \/ lt v u = true.
  Variable len : nat -> Q.
  Hypothesis len_nonneg : forall i, 0 <= len i.
  Variables lo hi : nat -> Q.
  Hypothesis lo_le_hi : forall i, (i < n)%nat -> lo i <= hi i.

  Theorem plain_scan_entails sl :
    msort compare_events (length (events_of lo hi n)) (events_of lo hi n) = Some sl ->
    let cs := rev (out (run_plain lt len n sl)) in
    forall p, sat p cs ->
    forall i j, (i < n)%nat -> (j < n)%nat -> i <> j -> lo i < hi j -> lo j < hi i ->
      p i + (len i + len j) / 2 <= p j \/ p j + (len i + len j) / 2 <= p i.
  Proof.
    intros Hm cs p Hp i j Hi Hj Hne O1 O2.
    destruct (msort_spec compare_events keyle keyle_trans compare_events_le compare_events_gt _ _ _ Hm) as [Pm Sm].
    destruct lt_strict as [T I].
    pose proof (sl_wf lo hi n lo_le_hi sl Pm Sm) as W.
    destruct (sl_meet lo hi n lo_le_hi sl Pm Sm i j Hi Hj Hne O1 O2) as (p0 & q0 & E & A & B & C & D).
    destruct (chain_abstract_oc lt T I n lt_total len sl W p0 q0 E) as [G H].
    assert (G' : gaps_ok len cs) by (intros c Hc; apply G; apply in_rev; exact Hc).
    assert (Inc : forall c, In c (out (run_plain lt len n sl)) -> In c cs) by (intros c Hc; apply in_rev in Hc; exact Hc).
    destruct (H i j A B C D Hne) as [P|P]; apply (path_incl _ cs _ _ Inc) in P.
    - left. exact (path_bound len cs i j G' len_nonneg P p Hp).
    - right. pose proof (path_bound len cs j i G' len_nonneg P p Hp) as X.
      assert (E2 : (len i + len j) / 2 == (len j + len i) / 2) by field. rewrite E2. exact X.
  Qed.
End PlainScan.

(* ------------------------------------------------------------------ the two public generators *)
Definition total_on (lt : nat -> nat -> bool) (n : nat) : Prop :=
  forall u v, (u < n)%nat -> (v < n)%nat -> u <> v -> lt u v = true \/ lt v u = true.
Definition valid_rects (xb yb : Q) (rs : list rect) : Prop :=
  forall r, In r rs -> 0 <= width xb r /\ 0 <= height yb r.

Lemma lenOf_nonneg f rs : (forall r, In r rs -> 0 <= f r) -> forall i, 0 <= lenOf f rs i.
Proof.
  intros H i. unfold lenOf. destruct (nth_error rs i) as [r|] eqn:E; [|lra]. apply H. eapply nth_error_In; eauto.
Qed.
Lemma lenOf_nthr f rs i : (i < length rs)%nat -> lenOf f rs i = f (nthr rs i).
Proof.
  intros Hi. unfold lenOf, nthr. rewrite (nth_error_nth' rs rect0 Hi). reflexivity.
Qed.
Lemma nthr_In rs i : (i < length rs)%nat -> In (nthr rs i) rs.
Proof. intros Hi. unfold nthr. apply nth_In. exact Hi. Qed.

Section Generators.
  Variable mklt : list Q -> nat -> nat -> bool.
  Hypothesis mklt_strict : forall pos, strict (mklt pos).
  Variables xb yb : Q.
  Variable rs : list rect.
  Hypothesis Hvalid : valid_rects xb yb rs.

  (* generateYConstraints: pairs whose open x-intervals intersect are separated in y by the mean of their heights *)
  Theorem genY_entails_sep cs :
    total_on (mklt (posY yb rs)) (length rs) ->
    generateYConstraints mklt xb yb rs = Some cs ->
    forall p, sat p cs ->
    forall i j, (i < length rs)%nat -> (j < length rs)%nat -> i <> j ->
      getMinX xb (nthr rs i) < getMaxX xb (nthr rs j) -> getMinX xb (nthr rs j) < getMaxX xb (nthr rs i) ->
      p i + (height yb (nthr rs i) + height yb (nthr rs j)) / 2 <= p j \/
      p j + (height yb (nthr rs i) + height yb (nthr rs j)) / 2 <= p i.
  Proof.
    intros Tot. unfold generateYConstraints. rewrite eventsY_of.
    destruct (msort compare_events _ _) as [sl|] eqn:Em; [|discriminate]. intros H; inversion H; subst cs; clear H.
    intros p Hp i j Hi Hj Hne O1 O2.
    rewrite <- (lenOf_nthr (height yb) rs i Hi), <- (lenOf_nthr (height yb) rs j Hj).
    refine (plain_scan_entails (mklt (posY yb rs)) (mklt_strict _) (length rs) Tot (lenOf (height yb) rs) _ _ _ _ sl Em p Hp i j Hi Hj Hne O1 O2).
    - apply lenOf_nonneg. intros r Hr. apply (Hvalid r Hr).
    - intros k Hk. destruct (Hvalid _ (nthr_In rs k Hk)) as [W _]. unfold width in W. lra.
  Qed.

  Theorem genY_entails_no_overlap cs :
    total_on (mklt (posY yb rs)) (length rs) ->
    generateYConstraints mklt xb yb rs = Some cs ->
    forall p, sat p cs ->
    forall i j, (i < length rs)%nat -> (j < length rs)%nat -> i <> j ->
      ~ overlaps_pos xb yb (moveCentreY yb (nthr rs i) (p i)) (moveCentreY yb (nthr rs j) (p j)).
  Proof.
    intros Tot Hg p Hp i j Hi Hj Hne [O1 [O2 [O3 O4]]].
    assert (X1 : getMinX xb (nthr rs i) < getMaxX xb (nthr rs j)) by exact O1.
    assert (X2 : getMinX xb (nthr rs j) < getMaxX xb (nthr rs i)) by exact O2.
    pose proof (genY_entails_sep cs Tot Hg p Hp i j Hi Hj Hne X1 X2) as S.
    rewrite getMinY_moveCentreY, getMaxY_moveCentreY in O3, O4.
    exact (sep_excludes _ _ _ _ O3 O4 S).
  Qed.

  (* generateXConstraints(..., useNeighbourLists = false): the symmetric statement *)
  Theorem genX_entails_sep cs :
    total_on (mklt (posX xb rs)) (length rs) ->
    generateXConstraints mklt xb yb rs false = Some cs ->
    forall p, sat p cs ->
    forall i j, (i < length rs)%nat -> (j < length rs)%nat -> i <> j ->
      getMinY yb (nthr rs i) < getMaxY yb (nthr rs j) -> getMinY yb (nthr rs j) < getMaxY yb (nthr rs i) ->
      p i + (width xb (nthr rs i) + width xb (nthr rs j)) / 2 <= p j \/
      p j + (width xb (nthr rs i) + width xb (nthr rs j)) / 2 <= p i.
  Proof.
    intros Tot. unfold generateXConstraints. rewrite eventsX_of.
    destruct (msort compare_events _ _) as [sl|] eqn:Em; [|discriminate]. intros H; inversion H; subst cs; clear H.
    intros p Hp i j Hi Hj Hne O1 O2.
    rewrite <- (lenOf_nthr (width xb) rs i Hi), <- (lenOf_nthr (width xb) rs j Hj).
    refine (plain_scan_entails (mklt (posX xb rs)) (mklt_strict _) (length rs) Tot (lenOf (width xb) rs) _ _ _ _ sl Em p Hp i j Hi Hj Hne O1 O2).
    - apply lenOf_nonneg. intros r Hr. apply (Hvalid r Hr).
    - intros k Hk. destruct (Hvalid _ (nthr_In rs k Hk)) as [_ W]. unfold height in W. lra.
  Qed.

  Theorem genX_entails_no_overlap cs :
    total_on (mklt (posX xb rs)) (length rs) ->
    generateXConstraints mklt xb yb rs false = Some cs ->
    forall p, sat p cs ->
    forall i j, (i < length rs)%nat -> (j < length rs)%nat -> i <> j ->
      ~ overlaps_pos xb yb (moveCentreX xb (nthr rs i) (p i)) (moveCentreX xb (nthr rs j) (p j)).
  Proof.
    intros Tot Hg p Hp i j Hi Hj Hne [O1 [O2 [O3 O4]]].
    assert (Y1 : getMinY yb (nthr rs i) < getMaxY yb (nthr rs j)) by exact O3.
    assert (Y2 : getMinY yb (nthr rs j) < getMaxY yb (nthr rs i)) by exact O4.
    pose proof (genX_entails_sep cs Tot Hg p Hp i j Hi Hj Hne Y1 Y2) as S.
    rewrite getMinX_moveCentreX, getMaxX_moveCentreX in O1, O2.
    exact (sep_excludes _ _ _ _ O1 O2 S).
  Qed.
End Generators.

(* the two comparators are total on the rectangles when the address oracle is injective (distinct Node objects) *)
Lemma cmp_node_pos_addr_total addr pos :
  (forall i j, addr i = addr j -> i = j) -> total_on (cmp_node_pos_addr addr pos) (length pos).
Proof.
  intros Inj u v Hu Hv Hne. unfold cmp_node_pos_addr.
  rewrite (nth_error_nth' pos 0 Hu), (nth_error_nth' pos 0 Hv).
  destruct (Qltb (nth u pos 0) (nth v pos 0)) eqn:E1; [now left|].
  destruct (Qltb (nth v pos 0) (nth u pos 0)) eqn:E2; [now right|].
  assert (addr u <> addr v) by (intros H; apply Hne; now apply Inj).
  destruct (Nat.ltb (addr u) (addr v)) eqn:L; [now left|]. right.
  apply Nat.ltb_ge in L. apply Nat.ltb_lt. lia.
Qed.

Lemma cmp_node_pos_id_total ids addr pos :
  (forall i j, addr i = addr j -> i = j) -> total_on (cmp_node_pos_id ids addr pos) (length pos).
Proof.
  intros Inj u v Hu Hv Hne. unfold cmp_node_pos_id.
  rewrite (nth_error_nth' pos 0 Hu), (nth_error_nth' pos 0 Hv).
  destruct (Qltb (nth u pos 0) (nth v pos 0)) eqn:E1; [now left|].
  destruct (Qltb (nth v pos 0) (nth u pos 0)) eqn:E2; [now right|].
  rewrite Z.eqb_sym.
  destruct (Z.eqb (nth v ids 0%Z) (nth u ids 0%Z)) eqn:E3; cbn [negb].
  - assert (addr u <> addr v) by (intros H; apply Hne; now apply Inj).
    destruct (Nat.ltb (addr u) (addr v)) eqn:L; [now left|]. right.
    apply Nat.ltb_ge in L. apply Nat.ltb_lt. lia.
  - apply Z.eqb_neq in E3. destruct (Z.ltb (nth u ids 0%Z) (nth v ids 0%Z)) eqn:L; [now left|]. right.
    apply Z.ltb_ge in L. apply Z.ltb_lt. lia.
Qed.

(* ------------------------------------------------------------------ non-vacuity *)
(* rectangles 1 and 2 overlap in x but get no direct constraint: they are separated through the chain 2 -> 0 -> 1 *)
Example chain_example :
  let rs := [mkrect 0 4 0 2; mkrect 1 3 1 5; mkrect 2 6 0 1] in
  let mk := cmp_node_pos_id [0%Z; 1%Z; 2%Z] (fun i => i) in
  let p := fun i => match i with O => 2 | S O => 5 | _ => 0 end in
  valid_rects 0 0 rs /\ total_on (mk (posY 0 rs)) (length rs) /\
  generateYConstraints mk 0 0 rs = Some [mkc 0 1 3; mkc 2 0 (3 # 2)] /\
  sat p [mkc 0 1 3; mkc 2 0 (3 # 2)] /\
  ~ overlaps_pos 0 0 (moveCentreY 0 (nthr rs 1) (p 1%nat)) (moveCentreY 0 (nthr rs 2) (p 2%nat)).
Proof.
  cbv zeta. split; [|split; [|split; [|split]]].
  - intros r [<-|[<-|[<-|[]]]]; split; apply Qle_bool_iff; vm_compute; reflexivity.
  - apply (cmp_node_pos_id_total [0%Z; 1%Z; 2%Z] (fun i => i) (posY 0 [mkrect 0 4 0 2; mkrect 1 3 1 5; mkrect 2 6 0 1])). auto.
  - vm_compute. reflexivity.
  - repeat constructor; cbn; lra.
  - intros (A & B & C & D). apply Qlt_not_le in C. apply C. apply Qle_bool_iff. vm_compute. reflexivity.
Qed.
