(* Executable verified checkers used by C09 on every instance (model's and implementation's constraint sets):
   * entail_check: max-plus (longest-path) closure of a separation-constraint set and the test that every pair of
     rectangles whose open intervals in the sweep dimension intersect is forced apart by at least the mean of their
     lengths in the scan dimension (soundness: Rect/Entail.v entail_check_sound);
   * topo_check: a rank certificate for acyclicity (every constraint goes from a lower to a higher rank).
   No proofs in this file. *)
From Adapt Require Import Num.Qaux Rect.RectBase Rect.ScanlineModel.
Local Open Scope Q_scope.

Definition omax (a b : option Q) : option Q :=
  match a, b with
  | None, x => x
  | x, None => x
  | Some x, Some y => Some (if Qltb x y then y else x)
  end.
Definition oplus (a b : option Q) : option Q :=
  match a, b with Some x, Some y => Some (Qred (x + y)) | _, _ => None end.
Definition oge (a : option Q) (q : Q) : bool := match a with Some x => Qleb q x | None => false end.

Definition matrix := list (list (option Q)).
Definition getD (D : matrix) (i j : nat) : option Q :=
  match nth_error D i with
  | Some row => match nth_error row j with Some x => x | None => None end
  | None => None
  end.
Fixpoint upd_row (row : list (option Q)) (j : nat) (v : option Q) : list (option Q) :=
  match row, j with
  | [], _ => []
  | x :: t, O => omax x v :: t
  | x :: t, S j' => x :: upd_row t j' v
  end.
Fixpoint upd_mat (D : matrix) (i j : nat) (v : option Q) : matrix :=
  match D, i with
  | [], _ => []
  | r :: t, O => upd_row r j v :: t
  | r :: t, S i' => r :: upd_mat t i' j v
  end.
Definition initD (n : nat) (cs : list constr) : matrix :=
  fold_left (fun D c => upd_mat D (cl c) (cr c) (Some (cgap c))) cs (repeat (repeat None n) n).
(* one Floyd-Warshall round through k: D'[i][j] = max(D[i][j], D[i][k]+D[k][j]) *)
Definition fw_step (D : matrix) (k : nat) : matrix :=
  let rowk := nth k D [] in
  map (fun rowi => let dik := nth k rowi None in
                   map (fun p => omax (fst p) (oplus dik (snd p))) (combine rowi rowk)) D.
Definition closure (n : nat) (cs : list constr) : matrix := fold_left fw_step (seq 0 n) (initD n cs).

Section Entail.
  Variables lo hi : nat -> Q.     (* the interval of rectangle i in the sweep dimension (event positions) *)
  Variable len : nat -> Q.        (* its length in the scan dimension (what the gaps are made of) *)
  Definition pair_ok (D : matrix) (i j : nat) : bool :=
    if Qltb (lo i) (hi j) && Qltb (lo j) (hi i)
    then oge (getD D i j) ((len i + len j) / 2) || oge (getD D j i) ((len i + len j) / 2)
    else true.
  Definition entail_check (n : nat) (cs : list constr) : bool :=
    let D := closure n cs in
    forallb (fun i => forallb (fun j => if (i <? j)%nat then pair_ok D i j else true) (seq 0 n)) (seq 0 n).
End Entail.

Definition topo_check (rank : list nat) (cs : list constr) : bool :=
  forallb (fun c => (nth (cl c) rank 0 <? nth (cr c) rank 0)%nat) cs.

(* the two instantiations used on real data *)
Definition entail_checkY (xb yb : Q) (rs : list rect) (cs : list constr) : bool :=
  entail_check (fun i => getMinX xb (nthr rs i)) (fun i => getMaxX xb (nthr rs i))
               (fun i => height yb (nthr rs i)) (length rs) cs.
Definition entail_checkX (xb yb : Q) (rs : list rect) (cs : list constr) : bool :=
  entail_check (fun i => getMinY yb (nthr rs i)) (fun i => getMaxY yb (nthr rs i))
               (fun i => width xb (nthr rs i)) (length rs) cs.
