(* generateXConstraints / generateYConstraints called with Variables that SHARE an id (follow-up on the seeded change
   C09-5: CmpNodePos without the final address fall-back `return u < v`).

   Variable::id is documentation only ("useful in log files", variable.h:51), so a public-API call with equal ids is
   valid input.  HEAD's comparator (position, id when the ids differ, address) is total on distinct Node objects for
   EVERY id list (Chain.cmp_node_pos_id_total quantifies over ids), so the chain lemma applies:
     dup_ids_genY_no_overlap / dup_ids_genX_no_overlap   any ids (all equal, repeated, ...), any injective address
                                                         oracle (either order of the tied nodes): every placement
                                                         satisfying the generated set has no positive-area overlap.
   The seeded comparator (position, then id ONLY) is still a strict order but not total:
     cmp_node_pos_idonly_strict, idonly_not_total,
     idonly_incomplete_refuted   two identical rectangles with equal ids: the second node is an equivalent std::set
                                 key, is never inserted, NO constraint is generated, and a placement that satisfies the
                                 (empty) generated set overlaps; the verified certificate entail_check rejects it. *)
From Adapt Require Import Num.Qaux Rect.RectBase Rect.ScanlineModel Rect.EntailModel Rect.Entail Rect.Scanline Rect.Chain.
Local Open Scope Q_scope.

(* ------------------------------------------------------------------ HEAD: complete for every id list *)
Section DupIds.
  Variable ids : list Z.                       (* arbitrary: duplicates allowed *)
  Variable addr : nat -> nat.
  Hypothesis addr_inj : forall i j, addr i = addr j -> i = j.    (* distinct Node objects *)
  Variables xb yb : Q.
  Variable rs : list rect.
  Hypothesis Hvalid : valid_rects xb yb rs.

  Theorem dup_ids_genY_no_overlap cs :
    generateYConstraints (cmp_node_pos_id ids addr) xb yb rs = Some cs ->
    forall p, sat p cs ->
    forall i j, (i < length rs)%nat -> (j < length rs)%nat -> i <> j ->
      ~ overlaps_pos xb yb (moveCentreY yb (nthr rs i) (p i)) (moveCentreY yb (nthr rs j) (p j)).
  Proof.
    intros G. apply (genY_entails_no_overlap (cmp_node_pos_id ids addr)); auto.
    - intro pos. apply cmp_node_pos_id_strict.
    - pose proof (cmp_node_pos_id_total ids addr (posY yb rs) addr_inj) as T.
      unfold posY in T at 2. rewrite map_length in T. exact T.
  Qed.

  Theorem dup_ids_genX_no_overlap cs :
    generateXConstraints (cmp_node_pos_id ids addr) xb yb rs false = Some cs ->
    forall p, sat p cs ->
    forall i j, (i < length rs)%nat -> (j < length rs)%nat -> i <> j ->
      ~ overlaps_pos xb yb (moveCentreX xb (nthr rs i) (p i)) (moveCentreX xb (nthr rs j) (p j)).
  Proof.
    intros G. apply (genX_entails_no_overlap (cmp_node_pos_id ids addr)); auto.
    - intro pos. apply cmp_node_pos_id_strict.
    - pose proof (cmp_node_pos_id_total ids addr (posX xb rs) addr_inj) as T.
      unfold posX in T at 2. rewrite map_length in T. exact T.
  Qed.
End DupIds.

(* non-vacuity: three identical rectangles, every id 0, both orders of the addresses: a complete set either way *)
Example dup_ids_example :
  let rs := [mkrect 0 2 0 2; mkrect 0 2 0 2; mkrect 0 2 0 2] in
  (exists cs, generateYConstraints (cmp_node_pos_id [0%Z; 0%Z; 0%Z] (fun i => i)) 0 0 rs = Some cs /\
              length cs = 2%nat /\ entail_checkY 0 0 rs cs = true) /\
  (exists cs, generateYConstraints (cmp_node_pos_id [0%Z; 0%Z; 0%Z] (fun i => 2 - i)%nat) 0 0 rs = Some cs /\
              length cs = 2%nat /\ entail_checkY 0 0 rs cs = true).
Proof. cbv zeta. split; eexists; (split; [vm_compute; reflexivity|]); split; vm_compute; reflexivity. Qed.

(* ------------------------------------------------------------------ the seeded comparator: position, then id only *)
Definition cmp_node_pos_idonly (ids : list Z) (pos : list Q) (u v : nat) : bool :=
  match nth_error pos u, nth_error pos v with
  | Some pu, Some pv =>
      if Qltb pu pv then true
      else if Qltb pv pu then false
      else (nth u ids 0%Z <? nth v ids 0%Z)%Z
  | _, _ => false
  end.

Lemma cmp_node_pos_idonly_strict ids pos : strict (cmp_node_pos_idonly ids pos).
Proof.
  split.
  - intros a b c. unfold cmp_node_pos_idonly.
    destruct (nth_error pos a) as [pa|]; [|discriminate].
    destruct (nth_error pos b) as [pb|]; [|discriminate].
    destruct (nth_error pos c) as [pc|]; [|intros; discriminate].
    destruct (Qltb pa pb) eqn:E1; destruct (Qltb pb pa) eqn:E2; destruct (Qltb pb pc) eqn:E3; destruct (Qltb pc pb) eqn:E4;
      destruct (Qltb pa pc) eqn:E5; destruct (Qltb pc pa) eqn:E6; qb2p; intros H1 H2; try reflexivity; try discriminate;
      try (exfalso; lra).
    rewrite Z.ltb_lt in *. lia.
  - intros a. unfold cmp_node_pos_idonly. destruct (nth_error pos a) as [pa|]; auto.
    destruct (Qltb pa pa) eqn:E; qb2p; [exfalso; lra|]. apply Z.ltb_irrefl.
Qed.

(* equal centre + equal id: neither node is before the other, although they are different nodes *)
Theorem idonly_not_total :
  exists ids pos, ~ total_on (cmp_node_pos_idonly ids pos) (length pos).
Proof.
  exists [0%Z; 0%Z], [1; 1]. intro T. destruct (T 0%nat 1%nat) as [H|H]; cbn; try lia; vm_compute in H; discriminate.
Qed.

(* ... and constraints are lost: two identical rectangles, ids 0 0 *)
Theorem idonly_incomplete_refuted :
  exists ids xb yb rs cs p i j,
    valid_rects xb yb rs /\
    generateYConstraints (cmp_node_pos_idonly ids) xb yb rs = Some cs /\
    sat p cs /\ (i < length rs)%nat /\ (j < length rs)%nat /\ i <> j /\
    overlaps_pos xb yb (moveCentreY yb (nthr rs i) (p i)) (moveCentreY yb (nthr rs j) (p j)) /\
    entail_checkY xb yb rs cs = false /\
    (* the same call with HEAD's comparator generates the separating constraint *)
    generateYConstraints (cmp_node_pos_id ids (fun a => a)) xb yb rs = Some [mkc 0 1 2].
Proof.
  exists [0%Z; 0%Z], 0, 0, [mkrect 0 2 0 2; mkrect 0 2 0 2], [], (fun _ => 1), 0%nat, 1%nat.
  split; [|split; [|split; [|split; [|split; [|split; [|split; [|split]]]]]]].
  - intros r [<-|[<-|[]]]; split; apply Qle_bool_iff; vm_compute; reflexivity.
  - vm_compute. reflexivity.
  - constructor.
  - cbn; lia.
  - cbn; lia.
  - discriminate.
  - unfold overlaps_pos; repeat split; apply Qlt_alt; vm_compute; reflexivity.
  - vm_compute. reflexivity.
  - vm_compute. reflexivity.
Qed.
