(* Proofs about the removeoverlaps model (Rect/RemoveOverlapsModel.v).
   sizes_preserved  : moveCentreX / moveCentreY keep width and height exactly (over Q), for every border; hence every
                      rectangle returned by the three passes has the width and height it came with.
   borders_restored : on the non-throwing path Rectangle::xBorder / yBorder end with their initial values.
   C09_pipeline_*   : if the solver's answer of the LAST generating pass satisfies that pass's constraints and the
                      verified certificate entail_check holds for them, no two returned rectangles overlap with positive
                      area (w.r.t. the caller's borders). *)
From Adapt Require Import Num.Qaux Rect.RectBase Rect.ScanlineModel Rect.EntailModel Rect.Entail Rect.Scanline
  Rect.RemoveOverlapsModel.
Local Open Scope Q_scope.

(* ------------------------------------------------------------------ sizes *)
Definition raw_w (r : rect) : Q := rmaxX r - rminX r.
Definition raw_h (r : rect) : Q := rmaxY r - rminY r.
Definition same_size (a b : rect) : Prop := raw_w a == raw_w b /\ raw_h a == raw_h b.

Lemma width_raw xb r : width xb r == raw_w r + 2 * xb.
Proof. unfold width, getMaxX, getMinX, raw_w. ring. Qed.
Lemma height_raw yb r : height yb r == raw_h r + 2 * yb.
Proof. unfold height, getMaxY, getMinY, raw_h. ring. Qed.

Theorem sizes_preserved xb yb r p :
  width xb (moveCentreX xb r p) == width xb r /\ height yb (moveCentreX xb r p) == height yb r /\
  width xb (moveCentreY yb r p) == width xb r /\ height yb (moveCentreY yb r p) == height yb r.
Proof.
  unfold moveCentreX, moveCentreY, moveMinX, moveMinY, width, height, getMaxX, getMinX, getMaxY, getMinY;
    cbn [rminX rmaxX rminY rmaxY]. repeat split; ring.
Qed.

Lemma same_size_refl a : same_size a a.
Proof. split; reflexivity. Qed.
Lemma same_size_trans a b c : same_size a b -> same_size b c -> same_size a c.
Proof. intros [A B] [C D]. split; [now rewrite A | now rewrite B]. Qed.
Lemma same_size_red r : same_size r (rect_red r).
Proof. unfold same_size, raw_w, raw_h, rect_red; cbn [rminX rmaxX rminY rmaxY]. rewrite !Qred_correct. split; reflexivity. Qed.
Lemma same_size_moveX xb r p : same_size r (moveCentreX xb r p).
Proof.
  unfold same_size, raw_w, raw_h, moveCentreX, moveMinX, width, getMaxX, getMinX; cbn [rminX rmaxX rminY rmaxY].
  split; ring.
Qed.
Lemma same_size_moveY yb r p : same_size r (moveCentreY yb r p).
Proof.
  unfold same_size, raw_w, raw_h, moveCentreY, moveMinY, height, getMaxY, getMinY; cbn [rminX rmaxX rminY rmaxY].
  split; ring.
Qed.

Lemma move_all_sizes mv : (forall r p, same_size r (mv r p)) ->
  forall rs ps, length ps = length rs -> Forall2 same_size rs (move_all mv rs ps).
Proof.
  intros Hmv. unfold move_all. induction rs as [|r rs IH]; intros ps Hl; destruct ps as [|p ps]; cbn in *; try discriminate.
  - constructor.
  - constructor; [|apply IH; lia]. eapply same_size_trans; [apply Hmv | apply same_size_red].
Qed.
Lemma Forall2_same_size_trans a b c : Forall2 same_size a b -> Forall2 same_size b c -> Forall2 same_size a c.
Proof.
  intros H. revert c. induction H as [|x y l l' Hxy H IH]; intros c Hc; inversion Hc; subst; constructor.
  - eapply same_size_trans; eauto.
  - now apply IH.
Qed.
Lemma move_all_length mv rs ps : length ps = length rs -> length (move_all mv rs ps) = length rs.
Proof. intro H. unfold move_all. rewrite map_length, combine_length. lia. Qed.

Section RO.
  Variable mklt : list Q -> nat -> nat -> bool.
  Variable solve : list Q -> list Q -> list constr -> list Q.
  (* the solver returns one position per variable *)
  Hypothesis solve_length : forall d w cs, length (solve d w cs) = length d.

  Theorem borders_restored xB yB rs fixed third r :
    removeoverlaps mklt solve xB yB rs fixed third = Some r -> ro_xBorder r = xB /\ ro_yBorder r = yB.
  Proof.
    unfold removeoverlaps.
    destruct (generateXConstraints mklt (xB + EXTRA_GAP) (yB + EXTRA_GAP) rs true); [|discriminate].
    destruct (generateYConstraints mklt xB (yB + EXTRA_GAP) _); [|discriminate].
    destruct third.
    - destruct (generateXConstraints mklt (xB + EXTRA_GAP) yB _ false); [|discriminate].
      intro H; inversion H; subst; cbn; auto.
    - intro H; inversion H; subst; cbn; auto.
  Qed.

  Lemma posX_length xb rs : length (posX xb rs) = length rs.
  Proof. apply map_length. Qed.
  Lemma posY_length yb rs : length (posY yb rs) = length rs.
  Proof. apply map_length. Qed.

  Theorem sizes_preserved_removeoverlaps xB yB rs fixed third r :
    removeoverlaps mklt solve xB yB rs fixed third = Some r ->
    Forall2 same_size rs (ro_rects r).
  Proof.
    unfold removeoverlaps.
    destruct (generateXConstraints mklt (xB + EXTRA_GAP) (yB + EXTRA_GAP) rs true) as [cs1|]; [|discriminate].
    set (x1 := solve (posX (xB + EXTRA_GAP) rs) _ cs1).
    set (rs1 := move_all (moveCentreX (xB + EXTRA_GAP)) rs x1).
    assert (L1 : length x1 = length rs) by (unfold x1; now rewrite solve_length, posX_length).
    assert (S1 : Forall2 same_size rs rs1) by (apply move_all_sizes; auto; intros; apply same_size_moveX).
    assert (N1 : length rs1 = length rs) by (now apply move_all_length).
    destruct (generateYConstraints mklt xB (yB + EXTRA_GAP) rs1) as [cs2|]; [|discriminate].
    set (y2 := solve (posY (yB + EXTRA_GAP) rs1) _ cs2).
    set (rs2 := move_all (moveCentreY (yB + EXTRA_GAP)) rs1 y2).
    assert (L2 : length y2 = length rs1) by (unfold y2; now rewrite solve_length, posY_length).
    assert (S2 : Forall2 same_size rs1 rs2) by (apply move_all_sizes; auto; intros; apply same_size_moveY).
    assert (N2 : length rs2 = length rs1) by (now apply move_all_length).
    destruct third.
    - set (initX := map (getCentreX (xB + EXTRA_GAP)) rs).
      set (rs3 := move_all (moveCentreX (xB + EXTRA_GAP)) rs2 initX).
      assert (L3 : length initX = length rs2) by (unfold initX; rewrite map_length; lia).
      assert (S3 : Forall2 same_size rs2 rs3) by (apply move_all_sizes; auto; intros; apply same_size_moveX).
      assert (N3 : length rs3 = length rs2) by (now apply move_all_length).
      destruct (generateXConstraints mklt (xB + EXTRA_GAP) yB rs3 false) as [cs3|]; [|discriminate].
      set (x3 := solve (posX (xB + EXTRA_GAP) rs3) _ cs3).
      assert (L4 : length x3 = length rs3) by (unfold x3; now rewrite solve_length, posX_length).
      intro H; inversion H; subst r; cbn [ro_rects].
      eapply Forall2_same_size_trans; [exact S1|]. eapply Forall2_same_size_trans; [exact S2|].
      eapply Forall2_same_size_trans; [exact S3|]. apply move_all_sizes; auto. intros; apply same_size_moveX.
    - intro H; inversion H; subst r; cbn [ro_rects].
      eapply Forall2_same_size_trans; [exact S1 | exact S2].
  Qed.
End RO.

(* ------------------------------------------------------------------ no overlap after the last pass *)
Lemma overlaps_pos_red xb yb a b : overlaps_pos xb yb (rect_red a) (rect_red b) <-> overlaps_pos xb yb a b.
Proof.
  unfold overlaps_pos, getMinX, getMaxX, getMinY, getMaxY, rect_red; cbn [rminX rmaxX rminY rmaxY].
  rewrite !Qred_correct. tauto.
Qed.
Lemma overlaps_pos_mono_y xb yb e a b : 0 <= e -> overlaps_pos xb yb a b -> overlaps_pos xb (yb + e) a b.
Proof. unfold overlaps_pos, getMinX, getMaxX, getMinY, getMaxY. intros He [A [B [C D]]]. repeat split; lra. Qed.
Lemma overlaps_pos_mono_x xb yb e a b : 0 <= e -> overlaps_pos xb yb a b -> overlaps_pos (xb + e) yb a b.
Proof. unfold overlaps_pos, getMinX, getMaxX, getMinY, getMaxY. intros He [A [B [C D]]]. repeat split; lra. Qed.
Lemma EXTRA_GAP_nonneg : 0 <= EXTRA_GAP.
Proof. unfold EXTRA_GAP. unfold Qle; cbn. lia. Qed.

Lemma nthr_move_all mv rs ps i : length ps = length rs -> (i < length rs)%nat ->
  nthr (move_all mv rs ps) i = rect_red (mv (nthr rs i) (nth i ps 0)).
Proof.
  intros Hl Hi. unfold nthr, move_all.
  set (f := fun rp : rect * Q => rect_red (mv (fst rp) (snd rp))).
  rewrite (nth_indep (map f (combine rs ps)) rect0 (f (rect0, 0)))
    by (rewrite map_length, combine_length; lia).
  rewrite (map_nth f). rewrite combine_nth by lia. reflexivity.
Qed.

Definition no_overlap (xb yb : Q) (rs : list rect) : Prop :=
  forall i j, (i < length rs)%nat -> (j < length rs)%nat -> i <> j -> ~ overlaps_pos xb yb (nthr rs i) (nthr rs j).

(* pass 2 (the last pass when thirdPass = false): y-placement with yBorder + EXTRA_GAP, judged with the caller's borders *)
Theorem C09_pipeline_y xB yB rs1 cs2 y2 :
  length y2 = length rs1 ->
  entail_checkY xB (yB + EXTRA_GAP) rs1 cs2 = true ->
  sat (fun i => nth i y2 0) cs2 ->
  no_overlap xB yB (move_all (moveCentreY (yB + EXTRA_GAP)) rs1 y2).
Proof.
  intros Hl Hc Hs i j Hi Hj Hne O.
  rewrite move_all_length in Hi, Hj by exact Hl.
  rewrite !nthr_move_all in O by auto.
  apply (proj1 (overlaps_pos_red _ _ _ _)) in O. apply (overlaps_pos_mono_y _ _ EXTRA_GAP) in O; [|exact EXTRA_GAP_nonneg].
  exact (entail_checkY_sound _ _ _ _ Hc _ Hs i j Hi Hj Hne O).
Qed.

(* pass 3: x-placement with xBorder + EXTRA_GAP and the restored yBorder *)
Theorem C09_pipeline_x xB yB rs3 cs3 x3 :
  length x3 = length rs3 ->
  entail_checkX (xB + EXTRA_GAP) yB rs3 cs3 = true ->
  sat (fun i => nth i x3 0) cs3 ->
  no_overlap xB yB (move_all (moveCentreX (xB + EXTRA_GAP)) rs3 x3).
Proof.
  intros Hl Hc Hs i j Hi Hj Hne O.
  rewrite move_all_length in Hi, Hj by exact Hl.
  rewrite !nthr_move_all in O by auto.
  apply (proj1 (overlaps_pos_red _ _ _ _)) in O. apply (overlaps_pos_mono_x _ _ EXTRA_GAP) in O; [|exact EXTRA_GAP_nonneg].
  exact (entail_checkX_sound _ _ _ _ Hc _ Hs i j Hi Hj Hne O).
Qed.

(* the model's result is exactly such a last pass *)
Theorem C09_pipeline mklt solve xB yB rs fixed third r :
  removeoverlaps mklt solve xB yB rs fixed third = Some r ->
  exists rsl csl pl,
    (if third
     then generateXConstraints mklt (xB + EXTRA_GAP) yB rsl false = Some csl /\
          ro_rects r = move_all (moveCentreX (xB + EXTRA_GAP)) rsl pl /\
          (length pl = length rsl -> entail_checkX (xB + EXTRA_GAP) yB rsl csl = true ->
           sat (fun i => nth i pl 0) csl -> no_overlap xB yB (ro_rects r))
     else generateYConstraints mklt xB (yB + EXTRA_GAP) rsl = Some csl /\
          ro_rects r = move_all (moveCentreY (yB + EXTRA_GAP)) rsl pl /\
          (length pl = length rsl -> entail_checkY xB (yB + EXTRA_GAP) rsl csl = true ->
           sat (fun i => nth i pl 0) csl -> no_overlap xB yB (ro_rects r))).
Proof.
  unfold removeoverlaps.
  destruct (generateXConstraints mklt (xB + EXTRA_GAP) (yB + EXTRA_GAP) rs true) as [cs1|]; [|discriminate].
  destruct (generateYConstraints mklt xB (yB + EXTRA_GAP) _) as [cs2|] eqn:E2; [|discriminate].
  destruct third.
  - destruct (generateXConstraints mklt (xB + EXTRA_GAP) yB _ false) as [cs3|] eqn:E3; [|discriminate].
    intro H; inversion H; subst r; cbn [ro_rects].
    eexists _, cs3, _. split; [exact E3|]. split; [reflexivity|].
    intros Hl Hc Hs. exact (C09_pipeline_x _ _ _ _ _ Hl Hc Hs).
  - intro H; inversion H; subst r; cbn [ro_rects].
    eexists _, cs2, _. split; [exact E2|]. split; [reflexivity|].
    intros Hl Hc Hs. exact (C09_pipeline_y _ _ _ _ _ Hl Hc Hs).
Qed.

(* non-vacuity: a solver stub that separates two overlapping squares; the model runs, sizes and borders are kept *)
Example removeoverlaps_example :
  let solve := fun (d w : list Q) (cs : list constr) =>
                 match cs with [] => d | _ => [0; 3] end in
  exists r, removeoverlaps (cmp_node_pos_id [0%Z; 1%Z] (fun i => i)) solve 0 0
              [mkrect 0 2 0 2; mkrect 1 3 0 2] [] false = Some r /\
            ro_xBorder r = 0 /\ length (ro_rects r) = 2%nat.
Proof. cbn zeta. eexists. split; [vm_compute; reflexivity|]. split; reflexivity. Qed.
