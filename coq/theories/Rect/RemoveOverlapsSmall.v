(* removeoverlaps on degenerate inputs and in sequences (follow-up on the seeded change C09-6: an early
   `if (n<2) return;` between the padding of Rectangle::xBorder/yBorder and their restoration).

   The model Rect/RemoveOverlapsModel.v has no special case for short vectors, exactly like rectangle.cpp:582-662: the
   three passes run for every n, including n = 0 and n = 1.  Proved here, for EVERY rectangle list (so in particular
   the empty one and the singletons):
     removeoverlaps_total        the model always returns (no fuel failure), hence
     borders_restored_total      ... a result exists and its borders are the caller's - unconditional form of
                                 RemoveOverlaps.borders_restored;
     ro_seq_borders              a SEQUENCE of calls in one process, each starting from the border globals the previous
                                 one left (the globals are threaded, never reset): after every call the globals are the
                                 caller's and every rectangle has the size it came with;
     removeoverlaps_small        n <= 1: no constraint is generated in any pass and (for a solver that returns the
                                 desired positions when there is no constraint) every rectangle is returned unchanged;
     early_return_refuted        the seeded variant (return after the padding for n < 2) violates borders_restored:
                                 vm_compute witnesses for n = 0 and n = 1, and the leak accumulates over a sequence. *)
From Adapt Require Import Num.Qaux Rect.RectBase Rect.ScanlineModel Rect.Scanline Rect.RemoveOverlapsModel
  Rect.RemoveOverlaps.
Local Open Scope Q_scope.

(* ------------------------------------------------------------------ totality, unconditional borders_restored *)
Theorem removeoverlaps_total mklt solve xB yB rs fixed third :
  removeoverlaps mklt solve xB yB rs fixed third <> None.
Proof.
  unfold removeoverlaps.
  destruct (generateXConstraints mklt (xB + EXTRA_GAP) (yB + EXTRA_GAP) rs true) eqn:E1;
    [|exact (fun _ => generateXConstraints_total _ _ _ _ _ E1)].
  destruct (generateYConstraints mklt xB (yB + EXTRA_GAP) _) eqn:E2;
    [|exact (fun _ => generateYConstraints_total _ _ _ _ E2)].
  destruct third; [|discriminate].
  destruct (generateXConstraints mklt (xB + EXTRA_GAP) yB _ false) eqn:E3;
    [discriminate | exact (fun _ => generateXConstraints_total _ _ _ _ _ E3)].
Qed.

Theorem borders_restored_total mklt solve xB yB rs fixed third :
  exists r, removeoverlaps mklt solve xB yB rs fixed third = Some r /\ ro_xBorder r = xB /\ ro_yBorder r = yB.
Proof.
  destruct (removeoverlaps mklt solve xB yB rs fixed third) as [r|] eqn:E.
  - exists r. split; [reflexivity|]. exact (borders_restored mklt solve xB yB rs fixed third r E).
  - exfalso. exact (removeoverlaps_total _ _ _ _ _ _ _ E).
Qed.

(* ------------------------------------------------------------------ sequences of calls, the border globals threaded *)
Record ro_call := mkcall { call_rects : list rect; call_fixed : list nat; call_third : bool }.

Section Seq.
  Variable mklt : list Q -> nat -> nat -> bool.
  Variable solve : list Q -> list Q -> list constr -> list Q.

  (* state = (Rectangle::xBorder, Rectangle::yBorder); every call reads the globals the previous call left *)
  Fixpoint ro_seq (xb yb : Q) (calls : list ro_call) : option (Q * Q * list (list rect)) :=
    match calls with
    | [] => Some (xb, yb, [])
    | c :: rest =>
        match removeoverlaps mklt solve xb yb (call_rects c) (call_fixed c) (call_third c) with
        | None => None
        | Some r =>
            match ro_seq (ro_xBorder r) (ro_yBorder r) rest with
            | None => None
            | Some (xb', yb', outs) => Some (xb', yb', ro_rects r :: outs)
            end
        end
    end.

  Hypothesis solve_length : forall d w cs, length (solve d w cs) = length d.

  Theorem ro_seq_borders calls : forall xB yB,
    exists outs, ro_seq xB yB calls = Some (xB, yB, outs) /\
                 Forall2 (fun c o => Forall2 same_size (call_rects c) o) calls outs.
  Proof.
    induction calls as [|c rest IH]; intros xB yB; cbn [ro_seq].
    - exists []. split; [reflexivity | constructor].
    - destruct (borders_restored_total mklt solve xB yB (call_rects c) (call_fixed c) (call_third c)) as (r & E & BX & BY).
      rewrite E, BX, BY. destruct (IH xB yB) as (outs & E2 & F). rewrite E2.
      exists (ro_rects r :: outs). split; [reflexivity|]. constructor; [|exact F].
      exact (sizes_preserved_removeoverlaps mklt solve solve_length xB yB _ _ _ r E).
  Qed.
End Seq.

(* ------------------------------------------------------------------ n <= 1 *)
Definition rect_eq (a b : rect) : Prop :=
  rminX a == rminX b /\ rmaxX a == rmaxX b /\ rminY a == rminY b /\ rmaxY a == rmaxY b.

Lemma rect_eq_refl a : rect_eq a a.
Proof. repeat split; reflexivity. Qed.
Lemma rect_eq_trans a b c : rect_eq a b -> rect_eq b c -> rect_eq a c.
Proof. intros (A1 & A2 & A3 & A4) (B1 & B2 & B3 & B4). repeat split; etransitivity; eassumption. Qed.
Lemma rect_eq_sym a b : rect_eq a b -> rect_eq b a.
Proof. intros (A1 & A2 & A3 & A4). repeat split; symmetry; assumption. Qed.

Lemma centreX_eq xb a b : rect_eq a b -> getCentreX xb a == getCentreX xb b.
Proof. intros (A1 & A2 & _). unfold getCentreX, width, getMaxX, getMinX. rewrite A1, A2. reflexivity. Qed.
Lemma centreY_eq yb a b : rect_eq a b -> getCentreY yb a == getCentreY yb b.
Proof. intros (_ & _ & A3 & A4). unfold getCentreY, height, getMaxY, getMinY. rewrite A3, A4. reflexivity. Qed.

(* moving a rectangle to its own centre leaves it where it is *)
Lemma moveX_own_centre xb r p : p == getCentreX xb r -> rect_eq r (rect_red (moveCentreX xb r p)).
Proof.
  intro H. unfold rect_eq, rect_red, moveCentreX, moveMinX; cbn [rminX rmaxX rminY rmaxY]. rewrite !Qred_correct, H.
  unfold getCentreX, width, getMaxX, getMinX. repeat split; try reflexivity; field.
Qed.
Lemma moveY_own_centre yb r p : p == getCentreY yb r -> rect_eq r (rect_red (moveCentreY yb r p)).
Proof.
  intro H. unfold rect_eq, rect_red, moveCentreY, moveMinY; cbn [rminX rmaxX rminY rmaxY]. rewrite !Qred_correct, H.
  unfold getCentreY, height, getMaxY, getMinY. repeat split; try reflexivity; field.
Qed.

Section Small.
  Variable mklt : list Q -> nat -> nat -> bool.
  Hypothesis mklt_strict : forall pos, strict (mklt pos).
  (* CmpNodePos only compares nodes of the call (both variants: cmp_range below) *)
  Hypothesis mklt_range : forall pos a b, mklt pos a b = true -> (a < length pos)%nat /\ (b < length pos)%nat.

  Lemma small_no_constraints pos cs :
    (length pos <= 1)%nat -> Forall (fun c => mklt pos (cl c) (cr c) = true) cs -> cs = [].
  Proof.
    intros Hn F. destruct cs as [|c cs]; [reflexivity|]. exfalso.
    inversion F as [|? ? Hc _]; subst. destruct (mklt_range _ _ _ Hc) as [A B].
    assert (cl c = cr c) by lia. rewrite H in Hc. rewrite (proj2 (mklt_strict pos)) in Hc. discriminate.
  Qed.

  Lemma genX_small xb yb rs b : (length rs <= 1)%nat -> generateXConstraints mklt xb yb rs b = Some [].
  Proof.
    intro Hn. destruct (generateXConstraints mklt xb yb rs b) as [cs|] eqn:E;
      [|exfalso; exact (generateXConstraints_total _ _ _ _ _ E)].
    f_equal. apply (small_no_constraints (posX xb rs)); [unfold posX; now rewrite map_length|].
    exact (proj1 (gen_acyclic_X mklt mklt_strict xb yb rs b cs E)).
  Qed.
  Lemma genY_small xb yb rs : (length rs <= 1)%nat -> generateYConstraints mklt xb yb rs = Some [].
  Proof.
    intro Hn. destruct (generateYConstraints mklt xb yb rs) as [cs|] eqn:E;
      [|exfalso; exact (generateYConstraints_total _ _ _ _ E)].
    f_equal. apply (small_no_constraints (posY yb rs)); [unfold posY; now rewrite map_length|].
    exact (proj1 (gen_acyclic_Y mklt mklt_strict xb yb rs cs E)).
  Qed.

  Variable solve : list Q -> list Q -> list constr -> list Q.
  (* vpsc::Solver with no constraint: every variable is its own block at its desired position *)
  Hypothesis solve_nil : forall d w, solve d w [] = d.

  Lemma move_all_own_X xb rs ps :
    Forall2 (fun r p => p == getCentreX xb r) rs ps -> Forall2 rect_eq rs (move_all (moveCentreX xb) rs ps).
  Proof.
    unfold move_all. induction 1 as [|r p rs ps H _ IH]; cbn; constructor; [|exact IH].
    now apply moveX_own_centre.
  Qed.
  Lemma move_all_own_Y yb rs ps :
    Forall2 (fun r p => p == getCentreY yb r) rs ps -> Forall2 rect_eq rs (move_all (moveCentreY yb) rs ps).
  Proof.
    unfold move_all. induction 1 as [|r p rs ps H _ IH]; cbn; constructor; [|exact IH].
    now apply moveY_own_centre.
  Qed.
  Lemma Forall2_map_r {A B} (P : A -> B -> Prop) (f : A -> B) l : (forall a, P a (f a)) -> Forall2 P l (map f l).
  Proof. intro H. induction l; cbn; constructor; auto. Qed.
  Lemma Forall2_rect_eq_trans a b c : Forall2 rect_eq a b -> Forall2 rect_eq b c -> Forall2 rect_eq a c.
  Proof.
    intros H. revert c. induction H as [|x y l l' Hxy H IH]; intros c Hc; inversion Hc; subst; constructor.
    - eapply rect_eq_trans; eauto.
    - now apply IH.
  Qed.
  Lemma Forall2_length' {A B} (P : A -> B -> Prop) l l' : Forall2 P l l' -> length l' = length l.
  Proof. induction 1; cbn; congruence. Qed.

  (* zero or one rectangle: nothing is generated, nothing moves, the borders are the caller's *)
  Theorem removeoverlaps_small xB yB rs fixed third :
    (length rs <= 1)%nat ->
    exists r, removeoverlaps mklt solve xB yB rs fixed third = Some r /\
              ro_xBorder r = xB /\ ro_yBorder r = yB /\ Forall2 rect_eq rs (ro_rects r).
  Proof.
    intro Hn. unfold removeoverlaps.
    rewrite (genX_small _ _ rs true Hn), solve_nil.
    set (rs1 := move_all (moveCentreX (xB + EXTRA_GAP)) rs (posX (xB + EXTRA_GAP) rs)).
    assert (S1 : Forall2 rect_eq rs rs1).
    { apply move_all_own_X. unfold posX. apply Forall2_map_r. intro; reflexivity. }
    assert (N1 : (length rs1 <= 1)%nat) by (rewrite (Forall2_length' _ _ _ S1); exact Hn).
    rewrite (genY_small _ _ rs1 N1), solve_nil.
    set (rs2 := move_all (moveCentreY (yB + EXTRA_GAP)) rs1 (posY (yB + EXTRA_GAP) rs1)).
    assert (S2 : Forall2 rect_eq rs1 rs2).
    { apply move_all_own_Y. unfold posY. apply Forall2_map_r. intro; reflexivity. }
    assert (N2 : (length rs2 <= 1)%nat) by (rewrite (Forall2_length' _ _ _ S2); exact N1).
    pose proof (Forall2_rect_eq_trans _ _ _ S1 S2) as S12.
    destruct third.
    - set (rs3 := move_all (moveCentreX (xB + EXTRA_GAP)) rs2 (map (getCentreX (xB + EXTRA_GAP)) rs)).
      assert (S3 : Forall2 rect_eq rs2 rs3).
      { apply move_all_own_X. clear -S12. induction S12 as [|a b l l' Hab _ IH]; cbn; constructor; [|exact IH].
        apply centreX_eq. exact Hab. }
      assert (N3 : (length rs3 <= 1)%nat) by (rewrite (Forall2_length' _ _ _ S3); exact N2).
      rewrite (genX_small _ _ rs3 false N3), solve_nil.
      eexists. split; [reflexivity|]. cbn [ro_xBorder ro_yBorder ro_rects]. repeat split.
      eapply Forall2_rect_eq_trans; [exact S12|]. eapply Forall2_rect_eq_trans; [exact S3|].
      apply move_all_own_X. unfold posX. apply Forall2_map_r. intro; reflexivity.
    - eexists. split; [reflexivity|]. cbn [ro_xBorder ro_yBorder ro_rects]. repeat split. exact S12.
  Qed.
End Small.

(* both variants of CmpNodePos satisfy the range hypothesis *)
Lemma cmp_range addr ids pos a b :
  (cmp_node_pos_addr addr pos a b = true -> (a < length pos)%nat /\ (b < length pos)%nat) /\
  (cmp_node_pos_id ids addr pos a b = true -> (a < length pos)%nat /\ (b < length pos)%nat).
Proof.
  unfold cmp_node_pos_addr, cmp_node_pos_id.
  destruct (nth_error pos a) eqn:Ea; [|split; discriminate].
  destruct (nth_error pos b) eqn:Eb; [|split; discriminate].
  assert (nth_error pos a <> None) by congruence. assert (nth_error pos b <> None) by congruence.
  rewrite nth_error_Some in *. split; intros _; split; assumption.
Qed.

(* ------------------------------------------------------------------ non-vacuity: n = 0 and n = 1, padded borders *)
Definition id_solver (d w : list Q) (cs : list constr) : list Q := d.
Definition cmp1 := cmp_node_pos_id [0%Z] (fun i : nat => i).

Example borders_restored_n0 :
  forall third, exists r,
    removeoverlaps cmp1 id_solver (1 # 4) (3 # 4) [] [] third = Some r /\
    ro_xBorder r = (1 # 4) /\ ro_yBorder r = (3 # 4) /\ ro_rects r = [].
Proof. intros [|]; eexists; (split; [vm_compute; reflexivity|]); repeat split. Qed.

Example borders_restored_n1 :
  forall third, exists r,
    removeoverlaps cmp1 id_solver (1 # 4) (3 # 4) [mkrect 10 30 5 12] [0%nat] third = Some r /\
    ro_xBorder r = (1 # 4) /\ ro_yBorder r = (3 # 4) /\ ro_rects r = [mkrect 10 30 5 12].
Proof. intros [|]; eexists; (split; [vm_compute; reflexivity|]); repeat split. Qed.

(* the hypotheses of removeoverlaps_small are satisfiable (both comparators, the identity solver) *)
Example removeoverlaps_small_instance ids addr xB yB r fixed third :
  exists res, removeoverlaps (cmp_node_pos_id ids addr) id_solver xB yB [r] fixed third = Some res /\
              ro_xBorder res = xB /\ ro_yBorder res = yB /\ Forall2 rect_eq [r] (ro_rects res).
Proof.
  apply (removeoverlaps_small (cmp_node_pos_id ids addr)).
  - intro pos. apply cmp_node_pos_id_strict.
  - intros pos a b. apply (proj2 (cmp_range addr ids pos a b)).
  - reflexivity.
  - cbn. lia.
Qed.

(* a sequence 1, 0, 2, 1 rectangles in one process, borders (1/4, 3/4): the globals come back after every call *)
Example ro_seq_example :
  exists outs,
    ro_seq (cmp_node_pos_id [0%Z; 1%Z] (fun i => i))
           (fun d w cs => match cs with [] => d | _ => [0; 4] end) (1 # 4) (3 # 4)
           [mkcall [mkrect 0 4 0 3] [] true; mkcall [] [] false;
            mkcall [mkrect 0 2 0 2; mkrect 1 3 0 2] [0%nat] false; mkcall [mkrect 0 5 0 3] [0%nat] true]
      = Some (1 # 4, 3 # 4, outs) /\ length outs = 4%nat.
Proof. eexists. split; [vm_compute; reflexivity | reflexivity]. Qed.

(* ------------------------------------------------------------------ the seeded variant is refuted *)
(* `if (n<2) return;` right after Rectangle::setXBorder(xBorder+EXTRA_GAP); setYBorder(yBorder+EXTRA_GAP) *)
Definition removeoverlaps_early_return mklt solve (xBorder yBorder : Q) (rs : list rect) (fixed : list nat) (third : bool)
  : option ro_result :=
  if (length rs <? 2)%nat then Some (mkro rs (xBorder + EXTRA_GAP) (yBorder + EXTRA_GAP))
  else removeoverlaps mklt solve xBorder yBorder rs fixed third.

Theorem early_return_refuted :
  (exists rs fixed third r, length rs = 0%nat /\
     removeoverlaps_early_return cmp1 id_solver 0 0 rs fixed third = Some r /\ ~ (ro_xBorder r == 0 /\ ro_yBorder r == 0)) /\
  (exists rs fixed third r, length rs = 1%nat /\
     removeoverlaps_early_return cmp1 id_solver 0 0 rs fixed third = Some r /\ ~ (ro_xBorder r == 0 /\ ro_yBorder r == 0) /\
     (* the rectangle's size as read through the getters afterwards differs from the size read before the call *)
     ~ width (ro_xBorder r) (nthr (ro_rects r) 0) == width 0 (nthr rs 0)).
Proof.
  split.
  - exists [], [], false. eexists. split; [reflexivity|]. split; [vm_compute; reflexivity|].
    cbn. intros [H _]. vm_compute in H. discriminate.
  - exists [mkrect 10 30 5 12], [], true. eexists. split; [reflexivity|]. split; [vm_compute; reflexivity|].
    split; [cbn; intros [H _]; vm_compute in H; discriminate|].
    cbn. intro H. vm_compute in H. discriminate.
Qed.
