(* vpsc::Rectangle (cola/libvpsc/rectangle.h:79-286) restricted to the methods the overlap-removal code uses.
   The process-global padding Rectangle::xBorder / Rectangle::yBorder is an explicit parameter (xb, yb) of every
   getter, exactly where the C++ getters read the static members.  HAND-WRITTEN model (cpp2v cannot yet translate
   reads of mutable static members nor calls between methods of one class); tied to the code by the exact
   correspondence run of checks/c09.py (harness command M).  No proofs in this file. *)
From Adapt Require Import Num.Qaux.
Local Open Scope Q_scope.

Record rect := mkrect { rminX : Q; rmaxX : Q; rminY : Q; rmaxY : Q }.
Definition rect0 : rect := mkrect 0 0 0 0.

Section Border.
  Variables xb yb : Q.      (* Rectangle::xBorder, Rectangle::yBorder at the time of the call *)

  Definition getMaxX (r : rect) : Q := rmaxX r + xb.
  Definition getMaxY (r : rect) : Q := rmaxY r + yb.
  Definition getMinX (r : rect) : Q := rminX r - xb.
  Definition getMinY (r : rect) : Q := rminY r - yb.
  Definition width (r : rect) : Q := getMaxX r - getMinX r.
  Definition height (r : rect) : Q := getMaxY r - getMinY r.
  Definition getCentreX (r : rect) : Q := getMinX r + width r / 2.
  Definition getCentreY (r : rect) : Q := getMinY r + height r / 2.

  (* moveMinX: w=width(); minX=x+xBorder; maxX=x+w-xBorder *)
  Definition moveMinX (r : rect) (x : Q) : rect :=
    let w := width r in mkrect (x + xb) (x + w - xb) (rminY r) (rmaxY r).
  (* moveMinY: h=height(); maxY=y+h-yBorder; minY=y+yBorder *)
  Definition moveMinY (r : rect) (y : Q) : rect :=
    let h := height r in mkrect (rminX r) (rmaxX r) (y + yb) (y + h - yb).
  Definition moveCentreX (r : rect) (x : Q) : rect := moveMinX r (x - width r / 2).
  Definition moveCentreY (r : rect) (y : Q) : rect := moveMinY r (y - height r / 2).

  (* double overlapX(Rectangle *r) const, rectangle.h:205-212 *)
  Definition overlapX (u v : rect) : Q :=
    let ux := getCentreX u in
    let vx := getCentreX v in
    if Qleb ux vx && Qltb (getMinX v) (getMaxX u) then getMaxX u - getMinX v
    else if Qleb vx ux && Qltb (getMinX u) (getMaxX v) then getMaxX v - getMinX u
    else 0.
  Definition overlapY (u v : rect) : Q :=
    let uy := getCentreY u in
    let vy := getCentreY v in
    if Qleb uy vy && Qltb (getMinY v) (getMaxY u) then getMaxY u - getMinY v
    else if Qleb vy uy && Qltb (getMinY u) (getMaxY v) then getMaxY v - getMinY u
    else 0.

  (* positive-area overlap of the padded rectangles: the open x-intervals and the open y-intervals both intersect *)
  Definition overlaps_pos (a b : rect) : Prop :=
    getMinX a < getMaxX b /\ getMinX b < getMaxX a /\ getMinY a < getMaxY b /\ getMinY b < getMaxY a.
  Definition overlaps_posb (a b : rect) : bool :=
    Qltb (getMinX a) (getMaxX b) && Qltb (getMinX b) (getMaxX a) &&
    Qltb (getMinY a) (getMaxY b) && Qltb (getMinY b) (getMaxY a).
End Border.

Definition rect_translate (tx ty : Q) (r : rect) : rect :=
  mkrect (rminX r + tx) (rmaxX r + tx) (rminY r + ty) (rmaxY r + ty).
Definition rect_red (r : rect) : rect := mkrect (Qred (rminX r)) (Qred (rmaxX r)) (Qred (rminY r)) (Qred (rmaxY r)).
