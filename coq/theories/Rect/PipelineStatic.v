(* C09: the removeoverlaps pipeline with the STATIC solver model (Vpsc/StaticModel.v) in place of the abstract `solve`,
   and with the solver's tolerance carried through the chain lemma.

   What a normal return of vpsc::Solver::solve() guarantees is what its closing scan checks: every constraint has
   slack >= -1e-10 (Vpsc/StaticFrame.static_solve_sat_tol) - not exact satisfaction.  The chain lemma of Rect/Chain.v
   needs exact satisfaction.  Bridge (sat_eps_perturb): the generated constraints all go upwards in the strict total
   order CmpNodePos, so  p'(i) = p(i) + eps * rank(i)  (rank = number of nodes below i) satisfies them EXACTLY whenever p
   satisfies them up to eps; p' and p differ by at most eps * n; the passes are run with borders enlarged by
   EXTRA_GAP = 1e-3, which absorbs 2 * eps * n for every n <= 10^7.

   pipeline_no_overlap_static: for the model of removeoverlaps in which every pass calls the static solver model, if
   the LAST pass's solve returns (no UnsatisfiedConstraint thrown, fuel not exhausted) then no two returned rectangles
   overlap with positive area.  The remaining premise `returns` is stated for that one call only. *)
From Adapt Require Import Num.Qaux Rect.RectBase Rect.ScanlineModel Rect.EntailModel Rect.Entail Rect.Scanline
  Rect.RemoveOverlapsModel Rect.RemoveOverlaps Rect.Chain Rect.Pipeline.
From Adapt Require Vpsc.VpscSpec Vpsc.VpscModel Vpsc.StaticModel Vpsc.StaticFrame.
Local Open Scope Q_scope.

(* ------------------------------------------------------------------ rank in a strict order *)
Definition rank (lt : nat -> nat -> bool) (n i : nat) : nat := length (filter (fun j => lt j i) (seq 0 n)).

Lemma filter_len_le {A} (f g : A -> bool) l :
  (forall x, In x l -> f x = true -> g x = true) -> (length (filter f l) <= length (filter g l))%nat.
Proof.
  induction l as [|a t IH]; intros H; cbn [filter]; [lia|].
  assert (IH' := IH (fun x Hx => H x (or_intror Hx))).
  destruct (f a) eqn:Fa.
  - rewrite (H a (or_introl eq_refl) Fa). cbn [length]. lia.
  - destruct (g a); cbn [length]; lia.
Qed.
Lemma filter_len_lt {A} (f g : A -> bool) l a :
  (forall x, In x l -> f x = true -> g x = true) -> In a l -> f a = false -> g a = true ->
  (length (filter f l) < length (filter g l))%nat.
Proof.
  induction l as [|b t IH]; intros H Ha Fa Ga; [destruct Ha|]. cbn [filter].
  assert (Le := filter_len_le f g t (fun x Hx => H x (or_intror Hx))).
  destruct Ha as [->|Ha].
  - rewrite Fa, Ga. cbn [length]. lia.
  - assert (IH' := IH (fun x Hx => H x (or_intror Hx)) Ha Fa Ga).
    destruct (f b) eqn:Fb.
    + rewrite (H b (or_introl eq_refl) Fb). cbn [length]. lia.
    + destruct (g b); cbn [length]; lia.
Qed.
Lemma rank_le lt n i : (rank lt n i <= n)%nat.
Proof.
  unfold rank. pose proof (filter_len_le (fun j => lt j i) (fun _ => true) (seq 0 n) (fun _ _ _ => eq_refl)) as H.
  assert (E : filter (fun _ : nat => true) (seq 0 n) = seq 0 n).
  { generalize (seq 0 n). induction l as [|a t IH]; cbn; [reflexivity | rewrite IH; reflexivity]. }
  rewrite E, seq_length in H. exact H.
Qed.
Lemma rank_lt lt n a b : strict lt -> lt a b = true -> (a < n)%nat -> (rank lt n a < rank lt n b)%nat.
Proof.
  intros [T I] H Ha. unfold rank. apply (filter_len_lt _ _ _ a).
  - intros x _ Hx. exact (T _ _ _ Hx H).
  - apply in_seq. lia.
  - apply I.
  - exact H.
Qed.

(* ------------------------------------------------------------------ satisfaction up to eps *)
Definition sat_eps (eps : Q) (p : nat -> Q) (cs : list constr) : Prop :=
  Forall (fun c => p (cl c) + cgap c - eps <= p (cr c)) cs.

Definition bump (eps : Q) (rk : nat -> nat) (p : nat -> Q) : nat -> Q :=
  fun i => p i + eps * inject_Z (Z.of_nat (rk i)).

Lemma Qmult_le_l_weak e a b : 0 <= e -> a <= b -> e * a <= e * b.
Proof. intros H1 H2. nra. Qed.
Lemma inject_nat_le a b : (a <= b)%nat -> inject_Z (Z.of_nat a) <= inject_Z (Z.of_nat b).
Proof. intros H. rewrite <- Zle_Qle. lia. Qed.
Lemma inject_nat_S a b : (a < b)%nat -> inject_Z (Z.of_nat a) + 1 <= inject_Z (Z.of_nat b).
Proof.
  intros H. change 1 with (inject_Z 1). rewrite <- inject_Z_plus. rewrite <- Zle_Qle. lia.
Qed.

Lemma sat_eps_perturb eps rk p cs :
  0 <= eps -> Forall (fun c => (rk (cl c) < rk (cr c))%nat) cs -> sat_eps eps p cs -> sat (bump eps rk p) cs.
Proof.
  intros He Hr Hs. unfold sat, sat_eps in *. rewrite Forall_forall in *. intros c Hc.
  specialize (Hr c Hc). specialize (Hs c Hc). cbv beta in *. unfold bump.
  pose proof (inject_nat_S _ _ Hr) as S.
  set (a := inject_Z (Z.of_nat (rk (cl c)))) in *. set (b := inject_Z (Z.of_nat (rk (cr c)))) in *.
  assert (M : eps * (a + 1) <= eps * b) by (apply Qmult_le_l_weak; assumption).
  lra.
Qed.
Lemma bump_bounds eps rk N p i :
  0 <= eps -> (rk i <= N)%nat -> p i <= bump eps rk p i <= p i + eps * inject_Z (Z.of_nat N).
Proof.
  intros He Hi. unfold bump.
  assert (A : 0 <= inject_Z (Z.of_nat (rk i))) by (change 0 with (inject_Z 0); rewrite <- Zle_Qle; lia).
  pose proof (inject_nat_le _ _ Hi) as B.
  assert (M1 : 0 <= eps * inject_Z (Z.of_nat (rk i))) by (apply Qmult_le_0_compat; assumption).
  assert (M2 : eps * inject_Z (Z.of_nat (rk i)) <= eps * inject_Z (Z.of_nat N)) by (apply Qmult_le_l_weak; assumption).
  lra.
Qed.

(* positions of a rectangle moved with an enlarged border, read with the caller's border *)
Lemma getMinY_move2 yb yb' r y : getMinY yb (moveCentreY yb' r y) == y - raw_h r / 2 - yb.
Proof. unfold moveCentreY, moveMinY, getMinY, height, getMaxY, getMinY, raw_h; cbn [rminY]. field. Qed.
Lemma getMaxY_move2 yb yb' r y : getMaxY yb (moveCentreY yb' r y) == y + raw_h r / 2 + yb.
Proof. unfold moveCentreY, moveMinY, getMaxY, height, getMaxY, getMinY, raw_h; cbn [rmaxY]. field. Qed.
Lemma getMinX_move2 xb xb' r x : getMinX xb (moveCentreX xb' r x) == x - raw_w r / 2 - xb.
Proof. unfold moveCentreX, moveMinX, getMinX, width, getMaxX, getMinX, raw_w; cbn [rminX]. field. Qed.
Lemma getMaxX_move2 xb xb' r x : getMaxX xb (moveCentreX xb' r x) == x + raw_w r / 2 + xb.
Proof. unfold moveCentreX, moveMinX, getMaxX, width, getMaxX, getMinX, raw_w; cbn [rmaxX]. field. Qed.

Section PipelineTol.
  Variable mklt : list Q -> nat -> nat -> bool.
  Hypothesis mklt_strict : forall pos, strict (mklt pos).
  Hypothesis mklt_total : forall pos, total_on (mklt pos) (length pos).
  (* CmpNodePos answers `true` only for two existing nodes (both variants: nth_error of the position vector) *)
  Hypothesis mklt_range : forall pos a b, mklt pos a b = true -> (a < length pos)%nat /\ (b < length pos)%nat.
  Variables xB yB : Q.
  Hypothesis xB_nonneg : 0 <= xB.
  Hypothesis yB_nonneg : 0 <= yB.
  Variable eps : Q.
  Hypothesis eps_nonneg : 0 <= eps.

  (* pass 2 with tolerance *)
  Theorem pipeline_y_chain_eps rs1 cs2 y2 :
    good_rects rs1 ->
    generateYConstraints mklt xB (yB + EXTRA_GAP) rs1 = Some cs2 ->
    length y2 = length rs1 ->
    sat_eps eps (fun i => nth i y2 0) cs2 ->
    eps * inject_Z (Z.of_nat (length rs1)) <= 2 * EXTRA_GAP ->
    no_overlap xB yB (move_all (moveCentreY (yB + EXTRA_GAP)) rs1 y2).
  Proof.
    intros G Hg Hl Hs Hn i j Hi Hj Hne O.
    rewrite move_all_length in Hi, Hj by exact Hl.
    rewrite !nthr_move_all in O by auto.
    apply (proj1 (overlaps_pos_red _ _ _ _)) in O.
    pose proof EXTRA_GAP_nonneg as E.
    assert (V : valid_rects xB (yB + EXTRA_GAP) rs1) by (apply good_valid; [exact xB_nonneg | lra | exact G]).
    set (pos := posY (yB + EXTRA_GAP) rs1).
    assert (Lp : length pos = length rs1) by (unfold pos, posY; apply map_length).
    set (rk := rank (mklt pos) (length rs1)).
    destruct (gen_acyclic_Y mklt mklt_strict _ _ _ _ Hg) as [F _].
    assert (Fr : Forall (fun c => (rk (cl c) < rk (cr c))%nat) cs2).
    { rewrite Forall_forall in *. intros c Hc. specialize (F c Hc). cbv beta in F.
      apply rank_lt; [apply mklt_strict | exact F |].
      destruct (mklt_range _ _ _ F) as [A _]. fold pos in A. rewrite Lp in A. exact A. }
    pose proof (sat_eps_perturb eps rk _ cs2 eps_nonneg Fr Hs) as Hs'.
    destruct O as [O1 [O2 [O3 O4]]].
    assert (X1 : getMinX xB (nthr rs1 i) < getMaxX xB (nthr rs1 j)) by exact O1.
    assert (X2 : getMinX xB (nthr rs1 j) < getMaxX xB (nthr rs1 i)) by exact O2.
    pose proof (genY_entails_sep mklt mklt_strict xB (yB + EXTRA_GAP) rs1 V cs2 (total_posY mklt mklt_total _ _) Hg _ Hs'
                  i j Hi Hj Hne X1 X2) as S.
    rewrite getMinY_move2, getMaxY_move2 in O3, O4.
    rewrite !height_raw in S.
    pose proof (bump_bounds eps rk (length rs1) (fun k => nth k y2 0) i eps_nonneg (rank_le _ _ _)) as Bi.
    pose proof (bump_bounds eps rk (length rs1) (fun k => nth k y2 0) j eps_nonneg (rank_le _ _ _)) as Bj.
    cbv beta in Bi, Bj.
    set (pi := nth i y2 0) in *. set (pj := nth j y2 0) in *.
    set (bi := bump eps rk (fun k => nth k y2 0) i) in *. set (bj := bump eps rk (fun k => nth k y2 0) j) in *.
    set (hi := raw_h (nthr rs1 i)) in *. set (hj := raw_h (nthr rs1 j)) in *.
    set (B := eps * inject_Z (Z.of_nat (length rs1))) in *.
    destruct Bi as [Bi1 Bi2]. destruct Bj as [Bj1 Bj2]. clearbody pi pj bi bj hi hj B.
    clear - O3 O4 S Bi1 Bi2 Bj1 Bj2 Hn E. set (g := EXTRA_GAP) in *. clearbody g.
    assert (Eq : (hi + 2 * (yB + g) + (hj + 2 * (yB + g))) / 2 == hi / 2 + hj / 2 + 2 * yB + 2 * g) by field.
    rewrite Eq in S. set (hi2 := hi / 2) in *. set (hj2 := hj / 2) in *. clearbody hi2 hj2.
    destruct S as [S|S]; lra.
  Qed.

  (* pass 3 with tolerance *)
  Theorem pipeline_x_chain_eps rs3 cs3 x3 :
    good_rects rs3 ->
    generateXConstraints mklt (xB + EXTRA_GAP) yB rs3 false = Some cs3 ->
    length x3 = length rs3 ->
    sat_eps eps (fun i => nth i x3 0) cs3 ->
    eps * inject_Z (Z.of_nat (length rs3)) <= 2 * EXTRA_GAP ->
    no_overlap xB yB (move_all (moveCentreX (xB + EXTRA_GAP)) rs3 x3).
  Proof.
    intros G Hg Hl Hs Hn i j Hi Hj Hne O.
    rewrite move_all_length in Hi, Hj by exact Hl.
    rewrite !nthr_move_all in O by auto.
    apply (proj1 (overlaps_pos_red _ _ _ _)) in O.
    pose proof EXTRA_GAP_nonneg as E.
    assert (V : valid_rects (xB + EXTRA_GAP) yB rs3) by (apply good_valid; [lra | exact yB_nonneg | exact G]).
    set (pos := posX (xB + EXTRA_GAP) rs3).
    assert (Lp : length pos = length rs3) by (unfold pos, posX; apply map_length).
    set (rk := rank (mklt pos) (length rs3)).
    destruct (gen_acyclic_X mklt mklt_strict _ _ _ _ _ Hg) as [F _].
    assert (Fr : Forall (fun c => (rk (cl c) < rk (cr c))%nat) cs3).
    { rewrite Forall_forall in *. intros c Hc. specialize (F c Hc). cbv beta in F.
      apply rank_lt; [apply mklt_strict | exact F |].
      destruct (mklt_range _ _ _ F) as [A _]. fold pos in A. rewrite Lp in A. exact A. }
    pose proof (sat_eps_perturb eps rk _ cs3 eps_nonneg Fr Hs) as Hs'.
    destruct O as [O1 [O2 [O3 O4]]].
    assert (Y1 : getMinY yB (nthr rs3 i) < getMaxY yB (nthr rs3 j)) by exact O3.
    assert (Y2 : getMinY yB (nthr rs3 j) < getMaxY yB (nthr rs3 i)) by exact O4.
    pose proof (genX_entails_sep mklt mklt_strict (xB + EXTRA_GAP) yB rs3 V cs3 (total_posX mklt mklt_total _ _) Hg _ Hs'
                  i j Hi Hj Hne Y1 Y2) as S.
    rewrite getMinX_move2, getMaxX_move2 in O1, O2.
    rewrite !width_raw in S.
    pose proof (bump_bounds eps rk (length rs3) (fun k => nth k x3 0) i eps_nonneg (rank_le _ _ _)) as Bi.
    pose proof (bump_bounds eps rk (length rs3) (fun k => nth k x3 0) j eps_nonneg (rank_le _ _ _)) as Bj.
    cbv beta in Bi, Bj.
    set (pi := nth i x3 0) in *. set (pj := nth j x3 0) in *.
    set (bi := bump eps rk (fun k => nth k x3 0) i) in *. set (bj := bump eps rk (fun k => nth k x3 0) j) in *.
    set (hi := raw_w (nthr rs3 i)) in *. set (hj := raw_w (nthr rs3 j)) in *.
    set (B := eps * inject_Z (Z.of_nat (length rs3))) in *.
    destruct Bi as [Bi1 Bi2]. destruct Bj as [Bj1 Bj2]. clearbody pi pj bi bj hi hj B.
    clear - O1 O2 S Bi1 Bi2 Bj1 Bj2 Hn E. set (g := EXTRA_GAP) in *. clearbody g.
    assert (Eq : (hi + 2 * (xB + g) + (hj + 2 * (xB + g))) / 2 == hi / 2 + hj / 2 + 2 * xB + 2 * g) by field.
    rewrite Eq in S. set (hi2 := hi / 2) in *. set (hj2 := hj / 2) in *. clearbody hi2 hj2.
    destruct S as [S|S]; lra.
  Qed.
End PipelineTol.

(* ------------------------------------------------------------------ the static solver model as `solve` *)
Definition mkvars (d w : list Q) : list VpscSpec.var :=
  map (fun dw => VpscSpec.mkvar (fst dw) (snd dw) 1) (combine d w).
Definition mkcons (cs : list constr) : list VpscSpec.con :=
  map (fun c => VpscSpec.mkcon (cl c) (cr c) (cgap c) false) cs.
Definition static_run (d w : list Q) (cs : list constr) : VpscModel.res StaticModel.sst :=
  StaticModel.static_solve (StaticModel.static_init (mkvars d w) (mkcons cs)).
(* Solver(vs,cs).solve(); finalPosition of every variable.  When the model does not return (the C++ throws
   UnsatisfiedConstraint out of removeoverlaps) the value is irrelevant: the theorems assume the run returned *)
Definition static_solve_fn (d w : list Q) (cs : list constr) : list Q :=
  match static_run d w cs with
  | VpscModel.Ok s => StaticModel.static_positions s
  | _ => d
  end.
Definition returns (d w : list Q) (cs : list constr) : Prop := exists s, static_run d w cs = VpscModel.Ok s.

Definition SOLVER_EPS : Q := 1 # 10000000000.

Lemma mkvars_scl d w i : VpscSpec.scl (VpscSpec.vget (mkvars d w) i) = 1.
Proof.
  unfold VpscSpec.vget, mkvars. generalize (combine d w). intros l. revert i.
  induction l as [|a t IH]; intros [|i]; cbn; try reflexivity. apply IH.
Qed.

Lemma static_solve_fn_sat_eps d w cs :
  length w = length d ->
  Forall (fun c => (cl c < length d)%nat /\ (cr c < length d)%nat) cs ->
  returns d w cs ->
  length (static_solve_fn d w cs) = length d /\
  sat_eps SOLVER_EPS (fun i => nth i (static_solve_fn d w cs) 0) cs.
Proof.
  intros Lw Hr [s Hs]. unfold static_solve_fn. rewrite Hs.
  assert (Ln : length (mkvars d w) = length d).
  { unfold mkvars. rewrite map_length, combine_length. lia. }
  assert (W : VpscSpec.wf_cons (mkvars d w) (mkcons cs)).
  { intros k Hk. unfold mkcons in Hk. apply in_map_iff in Hk. destruct Hk as [c [<- Hc]].
    rewrite Forall_forall in Hr. destruct (Hr c Hc) as [A B]. cbn [VpscSpec.cl VpscSpec.cr]. rewrite Ln. split; assumption. }
  destruct (StaticFrame.static_solve_sat_tol _ _ _ W Hs) as [L S].
  split; [rewrite L; exact Ln|].
  unfold sat_eps. rewrite Forall_forall. intros c Hc.
  assert (Hk : In (VpscSpec.mkcon (cl c) (cr c) (cgap c) false) (mkcons cs)).
  { unfold mkcons. apply in_map_iff. exists c. split; [reflexivity | exact Hc]. }
  specialize (S _ Hk). unfold VpscSpec.slackv in S. cbn [VpscSpec.cl VpscSpec.cr VpscSpec.gap] in S.
  rewrite !mkvars_scl in S. unfold VpscSpec.place_of in S.
  unfold VpscModel.ZERO_UPPERBOUND in S. unfold SOLVER_EPS.
  set (pl := nth (cl c) (StaticModel.static_positions s) 0) in *.
  set (pr := nth (cr c) (StaticModel.static_positions s) 0) in *.
  lra.
Qed.

Lemma eps_bound n : (Z.of_nat n <= 10000000)%Z -> SOLVER_EPS * inject_Z (Z.of_nat n) <= 2 * EXTRA_GAP.
Proof.
  intros H.
  assert (A : inject_Z (Z.of_nat n) <= inject_Z 10000000) by (rewrite <- Zle_Qle; lia).
  assert (B : 0 <= inject_Z (Z.of_nat n)) by (change 0 with (inject_Z 0); rewrite <- Zle_Qle; lia).
  assert (C : SOLVER_EPS * inject_Z (Z.of_nat n) <= SOLVER_EPS * inject_Z 10000000).
  { apply Qmult_le_l_weak; [|exact A]. unfold SOLVER_EPS. unfold Qle; cbn; lia. }
  assert (D : SOLVER_EPS * inject_Z 10000000 <= 2 * EXTRA_GAP).
  { unfold SOLVER_EPS, EXTRA_GAP. unfold Qle; cbn. lia. }
  lra.
Qed.

Lemma static_solve_fn_length d w cs : length w = length d -> length (static_solve_fn d w cs) = length d.
Proof.
  intros Lw. unfold static_solve_fn. destruct (static_run d w cs) as [s| |] eqn:E; try reflexivity.
  unfold static_run in E. rewrite (StaticFrame.static_solve_length _ _ _ E).
  unfold mkvars. rewrite map_length, combine_length. lia.
Qed.

Section PipelineStatic.
  Variable mklt : list Q -> nat -> nat -> bool.
  Hypothesis mklt_strict : forall pos, strict (mklt pos).
  Hypothesis mklt_total : forall pos, total_on (mklt pos) (length pos).
  Hypothesis mklt_range : forall pos a b, mklt pos a b = true -> (a < length pos)%nat /\ (b < length pos)%nat.
  Variables xB yB : Q.
  Hypothesis xB_nonneg : 0 <= xB.
  Hypothesis yB_nonneg : 0 <= yB.

  Lemma weights_length n fixed : length (weights n fixed) = n.
  Proof. unfold weights. rewrite map_length, seq_length. reflexivity. Qed.

  (* the last generating pass of the model, for any length-preserving `solve` *)
  Definition last_pass (third : bool) (rsl : list rect) (csl : list constr) (d : list Q) : Prop :=
    if third then generateXConstraints mklt (xB + EXTRA_GAP) yB rsl false = Some csl /\ d = posX (xB + EXTRA_GAP) rsl
    else generateYConstraints mklt xB (yB + EXTRA_GAP) rsl = Some csl /\ d = posY (yB + EXTRA_GAP) rsl.

  Theorem pipeline_chain_eps solve eps rs fixed third r :
    0 <= eps ->
    (forall d w cs, length w = length d -> length (solve d w cs) = length d) ->
    good_rects rs ->
    removeoverlaps mklt solve xB yB rs fixed third = Some r ->
    exists rsl csl d,
      last_pass third rsl csl d /\ length rsl = length rs /\ acyclic csl /\
      Forall (fun c => (cl c < length d)%nat /\ (cr c < length d)%nat) csl /\
      let pl := solve d (weights (length rs) fixed) csl in
      (sat_eps eps (fun i => nth i pl 0) csl -> eps * inject_Z (Z.of_nat (length rs)) <= 2 * EXTRA_GAP ->
       no_overlap xB yB (ro_rects r)).
  Proof.
    intros He SL G. unfold removeoverlaps.
    destruct (generateXConstraints mklt (xB + EXTRA_GAP) (yB + EXTRA_GAP) rs true) as [cs1|]; [|discriminate].
    set (ws := weights (length rs) fixed).
    assert (Lw : length ws = length rs) by apply weights_length.
    set (x1 := solve (posX (xB + EXTRA_GAP) rs) ws cs1).
    assert (Lx1 : length x1 = length rs).
    { unfold x1. rewrite SL; unfold posX; rewrite map_length; [reflexivity | exact Lw]. }
    set (rs1 := move_all (moveCentreX (xB + EXTRA_GAP)) rs x1).
    assert (L1 : length rs1 = length rs) by (apply move_all_length; exact Lx1).
    assert (G1 : good_rects rs1) by (apply good_move_all; [intros; apply same_size_moveX | exact G]).
    destruct (generateYConstraints mklt xB (yB + EXTRA_GAP) rs1) as [cs2|] eqn:E2; [|discriminate].
    set (y2 := solve (posY (yB + EXTRA_GAP) rs1) ws cs2).
    assert (Ly2 : length y2 = length rs1).
    { unfold y2. rewrite SL; unfold posY; rewrite map_length; [reflexivity | congruence]. }
    set (rs2 := move_all (moveCentreY (yB + EXTRA_GAP)) rs1 y2).
    assert (L2 : length rs2 = length rs) by (unfold rs2; rewrite move_all_length; [exact L1 | exact Ly2]).
    assert (G2 : good_rects rs2) by (apply good_move_all; [intros; apply same_size_moveY | exact G1]).
    destruct third.
    - set (rs3 := move_all (moveCentreX (xB + EXTRA_GAP)) rs2 (map (getCentreX (xB + EXTRA_GAP)) rs)).
      assert (L3 : length rs3 = length rs) by (unfold rs3; rewrite move_all_length; [exact L2 | rewrite map_length; congruence]).
      assert (G3 : good_rects rs3) by (apply good_move_all; [intros; apply same_size_moveX | exact G2]).
      destruct (generateXConstraints mklt (xB + EXTRA_GAP) yB rs3 false) as [cs3|] eqn:E3; [|discriminate].
      intro H; inversion H; subst r; cbn [ro_rects].
      destruct (gen_acyclic_X mklt mklt_strict _ _ _ _ _ E3) as [F Ac].
      exists rs3, cs3, (posX (xB + EXTRA_GAP) rs3). split; [split; [exact E3 | reflexivity]|].
      split; [exact L3|]. split; [exact Ac|]. split.
      + rewrite Forall_forall in *. intros c Hc. exact (mklt_range _ _ _ (F c Hc)).
      + cbv zeta. intros Hs Hb.
        apply (pipeline_x_chain_eps mklt mklt_strict mklt_total mklt_range xB yB xB_nonneg yB_nonneg eps He rs3 cs3); auto.
        * rewrite SL; unfold posX; rewrite map_length; [reflexivity | congruence].
        * rewrite L3. exact Hb.
    - intro H; inversion H; subst r; cbn [ro_rects].
      destruct (gen_acyclic_Y mklt mklt_strict _ _ _ _ E2) as [F Ac].
      exists rs1, cs2, (posY (yB + EXTRA_GAP) rs1). split; [split; [exact E2 | reflexivity]|].
      split; [exact L1|]. split; [exact Ac|]. split.
      + rewrite Forall_forall in *. intros c Hc. exact (mklt_range _ _ _ (F c Hc)).
      + cbv zeta. intros Hs Hb.
        apply (pipeline_y_chain_eps mklt mklt_strict mklt_total mklt_range xB yB xB_nonneg yB_nonneg eps He rs1 cs2); auto.
        rewrite L1. exact Hb.
  Qed.

  (* removeoverlaps with the static solver model in every pass: if the solve of the LAST pass returns (no
     UnsatisfiedConstraint, fuel not exhausted), no two returned rectangles overlap with positive area w.r.t. the
     caller's borders; at most 10^7 rectangles (EXTRA_GAP = 1e-3 must absorb 2 * n * 1e-10) *)
  Theorem pipeline_no_overlap_static rs fixed third r :
    good_rects rs -> (Z.of_nat (length rs) <= 10000000)%Z ->
    removeoverlaps mklt static_solve_fn xB yB rs fixed third = Some r ->
    (forall rsl csl d, last_pass third rsl csl d -> acyclic csl -> returns d (weights (length rs) fixed) csl) ->
    no_overlap xB yB (ro_rects r).
  Proof.
    intros G Hn H Ret.
    assert (eps0 : 0 <= SOLVER_EPS) by (unfold SOLVER_EPS, Qle; cbn; lia).
    destruct (pipeline_chain_eps static_solve_fn SOLVER_EPS rs fixed third r eps0 static_solve_fn_length G H)
      as (rsl & csl & d & LP & L & Ac & Rg & K).
    cbv zeta in K. apply K; [|apply eps_bound; exact Hn].
    assert (Ld : length d = length rs).
    { destruct third; destruct LP as [_ ->]; unfold posX, posY; rewrite map_length; exact L. }
    apply static_solve_fn_sat_eps.
    - rewrite weights_length. congruence.
    - exact Rg.
    - exact (Ret rsl csl d LP Ac).
  Qed.
End PipelineStatic.

(* ------------------------------------------------------------------ both comparator variants satisfy mklt_range *)
Lemma cmp_node_pos_addr_range addr pos a b :
  cmp_node_pos_addr addr pos a b = true -> (a < length pos)%nat /\ (b < length pos)%nat.
Proof.
  unfold cmp_node_pos_addr. destruct (nth_error pos a) eqn:Ea; [|discriminate].
  destruct (nth_error pos b) eqn:Eb; [|discriminate]. intros _.
  split; apply nth_error_Some; congruence.
Qed.
Lemma cmp_node_pos_id_range ids addr pos a b :
  cmp_node_pos_id ids addr pos a b = true -> (a < length pos)%nat /\ (b < length pos)%nat.
Proof.
  unfold cmp_node_pos_id. destruct (nth_error pos a) eqn:Ea; [|discriminate].
  destruct (nth_error pos b) eqn:Eb; [|discriminate]. intros _.
  split; apply nth_error_Some; congruence.
Qed.

(* ------------------------------------------------------------------ non-vacuity *)
(* two rectangles overlapping in x and y: pass 2 emits one constraint, the static solver model RETURNS on it, and its
   answer (satisfying the constraint up to 1e-10) leaves no overlap *)
Example pipeline_static_example :
  let mk := cmp_node_pos_id [0%Z; 1%Z] (fun i => i) in
  let rs1 := [mkrect 0 4 0 2; mkrect 1 5 1 3] in
  exists cs, generateYConstraints mk 0 (0 + EXTRA_GAP) rs1 = Some cs /\ cs <> [] /\
             returns (posY (0 + EXTRA_GAP) rs1) [1; 1] cs /\
             no_overlap 0 0 (move_all (moveCentreY (0 + EXTRA_GAP)) rs1
                                      (static_solve_fn (posY (0 + EXTRA_GAP) rs1) [1; 1] cs)).
Proof.
  cbv zeta.
  assert (R : exists cs, generateYConstraints (cmp_node_pos_id [0%Z; 1%Z] (fun i => i)) 0 (0 + EXTRA_GAP)
                           [mkrect 0 4 0 2; mkrect 1 5 1 3] = Some cs /\ cs <> [] /\
                         returns (posY (0 + EXTRA_GAP) [mkrect 0 4 0 2; mkrect 1 5 1 3]) [1; 1] cs).
  { eexists. split; [vm_compute; reflexivity|]. split; [discriminate|].
    unfold returns. eexists. vm_compute. reflexivity. }
  destruct R as [cs [Hg [Hne Hr]]]. exists cs. split; [exact Hg|]. split; [exact Hne|]. split; [exact Hr|].
  assert (eps0 : 0 <= SOLVER_EPS) by (unfold SOLVER_EPS, Qle; cbn; lia).
  assert (G : good_rects [mkrect 0 4 0 2; mkrect 1 5 1 3]).
  { intros r [<-|[<-|[]]]; split; apply Qle_bool_iff; vm_compute; reflexivity. }
  set (mk := cmp_node_pos_id [0%Z; 1%Z] (fun i => i)) in *.
  destruct (gen_acyclic_Y mk (fun pos => cmp_node_pos_id_strict _ _ pos) _ _ _ _ Hg) as [F _].
  destruct (static_solve_fn_sat_eps (posY (0 + EXTRA_GAP) [mkrect 0 4 0 2; mkrect 1 5 1 3]) [1; 1] cs eq_refl) as [L S].
  { rewrite Forall_forall in *. intros c Hc. exact (cmp_node_pos_id_range _ _ _ _ _ (F c Hc)). }
  { exact Hr. }
  apply (pipeline_y_chain_eps mk (fun pos => cmp_node_pos_id_strict _ _ pos)
           (fun pos => cmp_node_pos_id_total _ _ pos (fun i j H => H))
           (fun pos a b => cmp_node_pos_id_range _ _ pos a b) 0 0 (Qle_refl 0) (Qle_refl 0) SOLVER_EPS eps0
           [mkrect 0 4 0 2; mkrect 1 5 1 3] cs); auto.
Qed.

(* ------------------------------------------------------------------ Solver::satisfy returns on the last pass's set
   (Vpsc/StaticDag.static_no_throw_on_dag): what is left of the premise `returns` is Solver::refine *)
From Adapt Require Vpsc.VpscInv Vpsc.StaticInvB Vpsc.StaticDag.

Lemma weights_pos n fixed : Forall (fun x => 0 < x) (weights n fixed).
Proof.
  unfold weights. rewrite Forall_forall. intros x Hx. apply in_map_iff in Hx. destruct Hx as [i [<- _]].
  destruct (existsb _ _); reflexivity.
Qed.
Lemma mkvars_wf d w : length w = length d -> Forall (fun x => 0 < x) w -> VpscSpec.wf_vars (mkvars d w).
Proof.
  intros Lw Pw i Hi. unfold mkvars in *. rewrite map_length, combine_length in Hi.
  unfold VpscSpec.vget. set (f := fun dw : Q * Q => VpscSpec.mkvar (fst dw) (snd dw) 1).
  rewrite (nth_indep _ VpscSpec.dvar (f (0, 0))) by (rewrite map_length, combine_length; exact Hi).
  rewrite (map_nth f), combine_nth by (symmetry; exact Lw). unfold f. cbn [VpscSpec.wt VpscSpec.scl fst snd].
  split; [|reflexivity]. rewrite Forall_forall in Pw. apply Pw. apply nth_In. lia.
Qed.
Lemma mkcons_wf d w cs :
  length w = length d -> Forall (fun c => (cl c < length d)%nat /\ (cr c < length d)%nat) cs ->
  VpscSpec.wf_cons (mkvars d w) (mkcons cs).
Proof.
  intros Lw Hr k Hk.
  assert (Ln : length (mkvars d w) = length d) by (unfold mkvars; rewrite map_length, combine_length; lia).
  unfold mkcons in Hk. apply in_map_iff in Hk. destruct Hk as [c [<- Hc]].
  rewrite Forall_forall in Hr. destruct (Hr c Hc) as [A B]. cbn [VpscSpec.cl VpscSpec.cr]. rewrite Ln. split; assumption.
Qed.

(* the DFS order of Blocks::totalOrder is a topological order without repetition that lists every variable
   (StaticInvB.is_dag, evaluated on every DAG instance of checks/c01.py, plus "no variable twice") *)
Definition dfs_order_ok (d w : list Q) (cs : list constr) : Prop :=
  StaticDag.dag_orderb (VpscModel.init (mkvars d w) (mkcons cs)) = true.

(* PROVED part of `returns`: Solver::satisfy returns (no UnsatisfiedConstraint, fuel suffices) with every constraint
   satisfied exactly *)
Theorem static_satisfy_returns d w cs :
  length w = length d -> Forall (fun x => 0 < x) w ->
  Forall (fun c => (cl c < length d)%nat /\ (cr c < length d)%nat) cs ->
  dfs_order_ok d w cs ->
  exists s1, StaticModel.static_satisfy (StaticModel.static_init (mkvars d w) (mkcons cs)) = VpscModel.Ok s1 /\
             forall c, (c < length cs)%nat -> 0 <= VpscModel.slack_val (StaticModel.base s1) c.
Proof.
  intros Lw Pw Hr D.
  destruct (StaticDag.static_no_throw_on_dag (mkvars d w) (mkcons cs) (mkvars_wf d w Lw Pw) (mkcons_wf d w cs Lw Hr) D) as [s1 [E A]].
  exists s1. split; [exact E|]. intros c Hc. apply A. unfold mkcons. rewrite map_length. exact Hc.
Qed.

Section PipelineStaticSatisfy.
  Variable mklt : list Q -> nat -> nat -> bool.
  Hypothesis mklt_strict : forall pos, strict (mklt pos).
  Hypothesis mklt_total : forall pos, total_on (mklt pos) (length pos).
  Hypothesis mklt_range : forall pos a b, mklt pos a b = true -> (a < length pos)%nat /\ (b < length pos)%nat.
  Variables xB yB : Q.
  Hypothesis xB_nonneg : 0 <= xB.
  Hypothesis yB_nonneg : 0 <= yB.

  (* removeoverlaps with the static solver model: no overlap, where the premise "the solver model returns on the last
     pass" is reduced to (i) the DFS order of that acyclic set is a repetition-free topological order (a statement
     about Blocks::totalOrder alone) and (ii) Solver::refine returns from the state Solver::satisfy produced, in which
     every constraint already holds exactly.  Solver::satisfy itself is discharged by static_no_throw_on_dag. *)
  Theorem pipeline_no_overlap_static_refine_partial rs fixed third r :
    good_rects rs -> (Z.of_nat (length rs) <= 10000000)%Z ->
    removeoverlaps mklt static_solve_fn xB yB rs fixed third = Some r ->
    (forall rsl csl d, last_pass mklt xB yB third rsl csl d -> acyclic csl ->
       dfs_order_ok d (weights (length rs) fixed) csl) ->
    (forall rsl csl d s1, last_pass mklt xB yB third rsl csl d ->
       StaticModel.static_satisfy (StaticModel.static_init (mkvars d (weights (length rs) fixed)) (mkcons csl)) = VpscModel.Ok s1 ->
       (forall c, (c < length csl)%nat -> 0 <= VpscModel.slack_val (StaticModel.base s1) c) ->
       exists s2, StaticModel.static_refine s1 = VpscModel.Ok s2) ->
    no_overlap xB yB (ro_rects r).
  Proof.
    intros G Hn H Dfs Ref.
    assert (eps0 : 0 <= SOLVER_EPS) by (unfold SOLVER_EPS, Qle; cbn; lia).
    destruct (pipeline_chain_eps mklt mklt_strict mklt_total mklt_range xB yB xB_nonneg yB_nonneg
                static_solve_fn SOLVER_EPS rs fixed third r eps0 static_solve_fn_length G H)
      as (rsl & csl & d & LP & L & Ac & Rg & K).
    cbv zeta in K. apply K; [|apply eps_bound; exact Hn].
    assert (Ld : length d = length rs).
    { destruct third; destruct LP as [_ ->]; unfold posX, posY; rewrite map_length; exact L. }
    assert (Lw : length (weights (length rs) fixed) = length d) by (rewrite weights_length; congruence).
    apply static_solve_fn_sat_eps; [exact Lw | exact Rg|].
    destruct (static_satisfy_returns d _ csl Lw (weights_pos _ _) Rg (Dfs rsl csl d LP Ac)) as [s1 [E1 A1]].
    destruct (Ref rsl csl d s1 LP E1 A1) as [s2 E2].
    exists s2. unfold static_run, StaticModel.static_solve. rewrite E1. cbn [VpscModel.bind]. exact E2.
  Qed.
End PipelineStaticSatisfy.

(* non-vacuity of the new hypotheses: on the two-rectangle example the DFS order is fine and the whole solve (satisfy,
   then refine from the state satisfy produced) returns *)
Example pipeline_static_satisfy_example :
  let mk := cmp_node_pos_id [0%Z; 1%Z] (fun i => i) in
  let rs1 := [mkrect 0 4 0 2; mkrect 1 5 1 3] in
  exists cs, generateYConstraints mk 0 (0 + EXTRA_GAP) rs1 = Some cs /\ cs <> [] /\
             dfs_order_ok (posY (0 + EXTRA_GAP) rs1) [1; 1] cs /\
             returns (posY (0 + EXTRA_GAP) rs1) [1; 1] cs.
Proof.
  cbv zeta. eexists. split; [vm_compute; reflexivity|]. split; [discriminate|]. split; [vm_compute; reflexivity|].
  unfold returns. eexists. vm_compute. reflexivity.
Qed.

(* ------------------------------------------------------------------ premise (i) discharged: the constraint sets of
   removeoverlaps are RANKED (every constraint goes upwards in the strict total order CmpNodePos), and on ranked graphs
   Blocks::totalOrder is a repetition-free topological order within its recursion fuel (Vpsc/StaticDfs.v) *)
From Adapt Require Vpsc.StaticDfs.

Theorem static_satisfy_returns_ranked d w cs (rk : nat -> nat) :
  length w = length d -> Forall (fun x => 0 < x) w ->
  Forall (fun c => (cl c < length d)%nat /\ (cr c < length d)%nat) cs ->
  Forall (fun c => (rk (cl c) < rk (cr c))%nat) cs -> (forall v, (rk v <= length d)%nat) ->
  exists s1, StaticModel.static_satisfy (StaticModel.static_init (mkvars d w) (mkcons cs)) = VpscModel.Ok s1 /\
             forall c, (c < length cs)%nat -> 0 <= VpscModel.slack_val (StaticModel.base s1) c.
Proof.
  intros Lw Pw Hr Rk Rn.
  assert (Ln : length (mkvars d w) = length d) by (unfold mkvars; rewrite map_length, combine_length; lia).
  destruct (StaticDfs.static_no_throw_on_ranked_dag (mkvars d w) (mkcons cs) rk (mkvars_wf d w Lw Pw) (mkcons_wf d w cs Lw Hr)) as [s1 [E A]].
  - intros k Hk. unfold mkcons in Hk. apply in_map_iff in Hk. destruct Hk as [c [<- Hc]]. cbn [VpscSpec.cl VpscSpec.cr].
    rewrite Forall_forall in Rk. exact (Rk c Hc).
  - intros v. rewrite Ln. apply Rn.
  - exists s1. split; [exact E|]. intros c Hc. apply A. unfold mkcons. rewrite map_length. exact Hc.
Qed.

Section PipelineStaticRefine.
  Variable mklt : list Q -> nat -> nat -> bool.
  Hypothesis mklt_strict : forall pos, strict (mklt pos).
  Hypothesis mklt_total : forall pos, total_on (mklt pos) (length pos).
  Hypothesis mklt_range : forall pos a b, mklt pos a b = true -> (a < length pos)%nat /\ (b < length pos)%nat.
  Variables xB yB : Q.
  Hypothesis xB_nonneg : 0 <= xB.
  Hypothesis yB_nonneg : 0 <= yB.

  (* Solver::satisfy returns on the constraint set of the last pass, every constraint satisfied exactly - unconditional *)
  Theorem last_pass_satisfy_returns third rsl csl d w :
    last_pass mklt xB yB third rsl csl d -> length w = length d -> Forall (fun x => 0 < x) w ->
    exists s1, StaticModel.static_satisfy (StaticModel.static_init (mkvars d w) (mkcons csl)) = VpscModel.Ok s1 /\
               forall c, (c < length csl)%nat -> 0 <= VpscModel.slack_val (StaticModel.base s1) c.
  Proof.
    intros LP Lw Pw.
    assert (F : Forall (fun c => mklt d (cl c) (cr c) = true) csl).
    { destruct third; destruct LP as [Hg ->].
      - exact (proj1 (gen_acyclic_X mklt mklt_strict _ _ _ _ _ Hg)).
      - exact (proj1 (gen_acyclic_Y mklt mklt_strict _ _ _ _ Hg)). }
    set (rk := rank (mklt d) (length d)).
    apply (static_satisfy_returns_ranked d w csl rk Lw Pw).
    - rewrite Forall_forall in *. intros c Hc. exact (mklt_range _ _ _ (F c Hc)).
    - rewrite Forall_forall in *. intros c Hc. specialize (F c Hc). cbv beta in F.
      apply rank_lt; [apply mklt_strict | exact F | exact (proj1 (mklt_range _ _ _ F))].
    - intros v. apply rank_le.
  Qed.

  (* removeoverlaps with the static solver model: no overlap; the ONLY remaining premise is that Solver::refine returns
     from the state Solver::satisfy produced on the last pass (in which every constraint holds exactly) *)
  Theorem pipeline_no_overlap_static_refine_only_partial rs fixed third r :
    good_rects rs -> (Z.of_nat (length rs) <= 10000000)%Z ->
    removeoverlaps mklt static_solve_fn xB yB rs fixed third = Some r ->
    (forall rsl csl d s1, last_pass mklt xB yB third rsl csl d ->
       StaticModel.static_satisfy (StaticModel.static_init (mkvars d (weights (length rs) fixed)) (mkcons csl)) = VpscModel.Ok s1 ->
       (forall c, (c < length csl)%nat -> 0 <= VpscModel.slack_val (StaticModel.base s1) c) ->
       exists s2, StaticModel.static_refine s1 = VpscModel.Ok s2) ->
    no_overlap xB yB (ro_rects r).
  Proof.
    intros G Hn H Ref.
    assert (eps0 : 0 <= SOLVER_EPS) by (unfold SOLVER_EPS, Qle; cbn; lia).
    destruct (pipeline_chain_eps mklt mklt_strict mklt_total mklt_range xB yB xB_nonneg yB_nonneg
                static_solve_fn SOLVER_EPS rs fixed third r eps0 static_solve_fn_length G H)
      as (rsl & csl & d & LP & L & Ac & Rg & K).
    cbv zeta in K. apply K; [|apply eps_bound; exact Hn].
    assert (Ld : length d = length rs).
    { destruct third; destruct LP as [_ ->]; unfold posX, posY; rewrite map_length; exact L. }
    assert (Lw : length (weights (length rs) fixed) = length d) by (rewrite weights_length; congruence).
    apply static_solve_fn_sat_eps; [exact Lw | exact Rg|].
    destruct (last_pass_satisfy_returns third rsl csl d _ LP Lw (weights_pos _ _)) as [s1 [E1 A1]].
    destruct (Ref rsl csl d s1 LP E1 A1) as [s2 E2].
    exists s2. unfold static_run, StaticModel.static_solve. rewrite E1. cbn [VpscModel.bind]. exact E2.
  Qed.
End PipelineStaticRefine.

(* ---- refine: the premise "static_refine returns" of pipeline_no_overlap_static_refine_only_partial reduced to
   "every pass of refine's while loop on the trace returns with every slack >= 0" (Vpsc/StaticRefine.v: the closing
   scan cannot throw from an all-satisfied state; running out of maxtries is a normal return).  Still _partial: the
   pass hypothesis (Blocks::split keeps every constraint satisfied) is proved only for the mergeRight half, given that
   findMinOutConstraint delivers a most violated out-constraint (StaticRefine.merge_right_all_sat). *)
From Adapt Require Vpsc.StaticRefine.
Theorem pipeline_no_overlap_static_passes_partial
  (mklt : list Q -> nat -> nat -> bool)
  (mklt_strict : forall pos, strict (mklt pos))
  (mklt_total : forall pos, total_on (mklt pos) (length pos))
  (mklt_range : forall pos a b, mklt pos a b = true -> (a < length pos)%nat /\ (b < length pos)%nat)
  (xB yB : Q) (xB_nonneg : 0 <= xB) (yB_nonneg : 0 <= yB) rs fixed third r :
  good_rects rs -> (Z.of_nat (length rs) <= 10000000)%Z ->
  removeoverlaps mklt static_solve_fn xB yB rs fixed third = Some r ->
  (forall rsl csl d s1, last_pass mklt xB yB third rsl csl d ->
     StaticModel.static_satisfy (StaticModel.static_init (mkvars d (weights (length rs) fixed)) (mkcons csl)) = VpscModel.Ok s1 ->
     StaticRefine.passes_ok VpscModel.MAXTRIES s1) ->
  no_overlap xB yB (ro_rects r).
Proof.
  intros G Hn H HP.
  apply (pipeline_no_overlap_static_refine_only_partial mklt mklt_strict mklt_total mklt_range xB yB xB_nonneg yB_nonneg
           rs fixed third r G Hn H).
  intros rsl csl d s1 LP E1 A1.
  destruct (StaticFrame.static_satisfy_scan _ _ E1) as [_ [_ Kc]].
  assert (Ec : VpscModel.scons (StaticModel.base s1) = mkcons csl).
  { rewrite Kc. cbn [StaticModel.static_init StaticModel.base]. exact (proj2 (StaticFrame.init_problem _ _)). }
  assert (A : StaticRefine.all_sat0 (StaticModel.base s1)).
  { intros c Hc. apply A1. rewrite Ec in Hc. unfold mkcons in Hc. rewrite map_length in Hc. exact Hc. }
  destruct (StaticRefine.static_refine_returns_given_passes s1 A (HP rsl csl d s1 LP E1)) as [s2 [E2 _]].
  exists s2. exact E2.
Qed.
