(* Proofs about the scan-line model (Rect/ScanlineModel.v).
   gen_acyclic: every constraint emitted by generateXConstraints (both modes) / generateYConstraints goes from a node
   that strictly precedes the other in the order CmpNodePos puts on the nodes -- (centre, address) or
   (centre, id, address) -- hence the constraint graph is a DAG.  Holds for ANY event order (so it does not depend on
   what qsort does with the inconsistent comparator) and for any transitive irreflexive CmpNodePos.
   msort_total / generate*_total: the fuelled sort never runs out of fuel. *)
From Coq Require Import Sorted.
From Adapt Require Import Num.Qaux Rect.RectBase Rect.ScanlineModel Rect.EntailModel Rect.Entail.
Local Open Scope Q_scope.

(* ------------------------------------------------------------------ msort never runs out of fuel *)
Lemma div2_lt n : (2 <= n)%nat -> (Nat.div2 n < n)%nat /\ (1 <= Nat.div2 n)%nat.
Proof.
  intro H. split.
  - apply Nat.lt_div2. lia.
  - destruct n as [|[|n]]; try lia. cbn. lia.
Qed.

Lemma msort_total {A} (cmp : A -> A -> Z) fuel : forall l, (length l <= fuel)%nat -> msort cmp fuel l <> None.
Proof.
  induction fuel as [|f IH]; intros l Hl.
  - destruct l as [|a [|b l]]; cbn in *; try discriminate. lia.
  - destruct l as [|a [|b l]]; try (cbn; discriminate).
    set (L := a :: b :: l) in *.
    assert (H2 : (2 <= length L)%nat) by (cbn; lia).
    destruct (div2_lt _ H2) as [D1 D2].
    assert (E : msort cmp (S f) L =
                match msort cmp f (firstn (Nat.div2 (length L)) L), msort cmp f (skipn (Nat.div2 (length L)) L) with
                | Some a, Some b => Some (merge cmp a b) | _, _ => None end) by reflexivity.
    rewrite E.
    assert (F1 : msort cmp f (firstn (Nat.div2 (length L)) L) <> None).
    { apply IH. rewrite firstn_length. lia. }
    assert (F2 : msort cmp f (skipn (Nat.div2 (length L)) L) <> None).
    { apply IH. rewrite skipn_length. lia. }
    destruct (msort cmp f (firstn _ L)); [|congruence].
    destruct (msort cmp f (skipn _ L)); [|congruence]. discriminate.
Qed.

Theorem generateXConstraints_total mklt xb yb rs b : generateXConstraints mklt xb yb rs b <> None.
Proof.
  unfold generateXConstraints.
  pose proof (msort_total compare_events (length (eventsX yb rs)) (eventsX yb rs) (le_n _)) as H.
  destruct (msort compare_events _ _); [discriminate | congruence].
Qed.
Theorem generateYConstraints_total mklt xb yb rs : generateYConstraints mklt xb yb rs <> None.
Proof.
  unfold generateYConstraints.
  pose proof (msort_total compare_events (length (eventsY xb rs)) (eventsY xb rs) (le_n _)) as H.
  destruct (msort compare_events _ _); [discriminate | congruence].
Qed.

(* ------------------------------------------------------------------ the scan line keeps every link pointing forward *)
Section Order.
  Variable lt : nat -> nat -> bool.
  Hypothesis lt_trans : forall a b c, lt a b = true -> lt b c = true -> lt a c = true.
  Notation LT a b := (lt a b = true).

  Definition sorted (s : list nat) : Prop := StronglySorted (fun a b => LT a b) s.

  Lemma In_set_insert v s y : In y (set_insert lt v s) -> y = v \/ In y s.
  Proof.
    induction s as [|x s IH]; cbn; intro H.
    - destruct H as [H|[]]; auto.
    - destruct (lt x v).
      + destruct H as [H|H]; auto. destruct (IH H); auto.
      + destruct (lt v x); [|now right].
        destruct H as [H|H]; [left; auto | now right].
  Qed.

  Lemma set_insert_sorted v s : sorted s -> sorted (set_insert lt v s).
  Proof.
    induction s as [|x s IH]; cbn; intro H.
    - repeat constructor.
    - apply StronglySorted_inv in H. destruct H as [Hs Hx].
      destruct (lt x v) eqn:E1.
      + constructor; [apply IH; exact Hs|]. rewrite Forall_forall in Hx |- *. intros y Hy.
        destruct (In_set_insert _ _ _ Hy) as [E|Hy']; [subst y; exact E1 | now apply Hx].
      + destruct (lt v x) eqn:E2.
        * constructor; [constructor; [exact Hs | exact Hx]|]. constructor; [exact E2|].
          rewrite Forall_forall in Hx |- *. intros y Hy. eapply lt_trans; [exact E2 | now apply Hx].
        * constructor; [exact Hs | exact Hx].
  Qed.

  Lemma In_set_erase v s y : In y (set_erase v s) -> In y s.
  Proof.
    induction s as [|x s IH]; cbn; auto. destruct (Nat.eqb x v); cbn; intro H; tauto.
  Qed.
  Lemma set_erase_sorted v s : sorted s -> sorted (set_erase v s).
  Proof.
    induction s as [|x s IH]; cbn; intro H; auto.
    apply StronglySorted_inv in H. destruct H as [Hs Hx].
    destruct (Nat.eqb x v); [exact Hs|]. constructor; [apply IH; exact Hs|].
    rewrite Forall_forall in Hx |- *. intros y Hy. apply Hx. eapply In_set_erase; eauto.
  Qed.

  Lemma nbrs_aux_spec v : forall s prev p nx, sorted s ->
    (forall u, prev = Some u -> Forall (fun y => LT u y) s) ->
    nbrs_aux prev v s = (p, nx) ->
    (forall u, p = Some u -> LT u v) /\ (forall w, nx = Some w -> LT v w).
  Proof.
    induction s as [|x s IH]; intros prev p nx Hs Hp H; cbn in H.
    - inversion H; subst. split; intros; discriminate.
    - apply StronglySorted_inv in Hs. destruct Hs as [Hs Hx].
      destruct (Nat.eqb x v) eqn:E.
      + apply Nat.eqb_eq in E. subst x. inversion H; subst. split.
        * intros u Hu. specialize (Hp u Hu). now inversion Hp.
        * intros w Hw. destruct s as [|y s]; cbn in Hw; [discriminate|]. inversion Hw; subst. now inversion Hx.
      + eapply IH; eauto. intros u Hu. inversion Hu; subst. exact Hx.
  Qed.

  Lemma split_at_nf v : forall s acc bef aft, split_at v s acc = (bef, aft) ->
    In v s \/ (bef = [] /\ aft = []).
  Proof.
    induction s as [|x s IH]; intros acc bef aft H; cbn in H.
    - inversion H; auto.
    - destruct (Nat.eqb x v) eqn:E.
      + apply Nat.eqb_eq in E. left. now left.
      + destruct (IH _ _ _ H) as [H1|H1]; [left; now right | now right].
  Qed.

  Lemma split_at_in v : forall s acc bef aft, sorted s -> In v s -> split_at v s acc = (bef, aft) ->
    (forall u, In u bef -> In u acc \/ LT u v) /\ (forall w, In w aft -> LT v w).
  Proof.
    induction s as [|x s IH]; intros acc bef aft Hs Hin H; [destruct Hin|].
    cbn in H. apply StronglySorted_inv in Hs. destruct Hs as [Hs Hx].
    destruct (Nat.eqb x v) eqn:E.
    - apply Nat.eqb_eq in E. subst x. inversion H; subst. split; auto.
      intros w Hw. rewrite Forall_forall in Hx. auto.
    - destruct Hin as [Hin|Hin]; [subst; rewrite Nat.eqb_refl in E; discriminate|].
      destruct (IH _ _ _ Hs Hin H) as [A B]. split; auto.
      intros u Hu. destruct (A u Hu) as [[E1|H1]|H1]; auto.
      subst u. right. rewrite Forall_forall in Hx. auto.
  Qed.

  (* elements returned before v precede it, elements after v follow it *)
  Lemma split_at_spec v s bef aft : sorted s -> split_at v s [] = (bef, aft) ->
    (forall u, In u bef -> LT u v) /\ (forall w, In w aft -> LT v w).
  Proof.
    intros Hs H. destruct (split_at_nf _ _ _ _ _ H) as [Hin|[E1 E2]].
    - destruct (split_at_in _ _ _ _ _ Hs Hin H) as [A B]. split; auto.
      intros u Hu. destruct (A u Hu) as [[]|H1]; auto.
    - subst. split; intros ? [].
  Qed.

  (* ---------------- node invariant *)
  Definition node_ok (j : nat) (nd : node) : Prop :=
    (forall u, fA nd = Some u -> LT u j) /\ (forall u, fB nd = Some u -> LT j u) /\
    (forall u, In u (leftN nd) -> LT u j) /\ (forall u, In u (rightN nd) -> LT j u).
  Definition nodes_ok (ns : list node) : Prop := forall j, node_ok j (getn ns j).

  Lemma getn_upd ns i x j : getn (upd_nth ns i x) j = getn ns j \/ (j = i /\ getn (upd_nth ns i x) j = x).
  Proof.
    unfold getn. revert i j. induction ns as [|a t IH]; intros i j; cbn.
    - destruct i; auto.
    - destruct i as [|i'], j as [|j']; cbn; auto.
      destruct (IH i' j') as [H|[-> H]]; auto.
  Qed.
  Lemma nodes_ok_upd ns i x : nodes_ok ns -> node_ok i x -> nodes_ok (upd_nth ns i x).
  Proof.
    intros H Hx j. destruct (getn_upd ns i x j) as [E|[-> E]]; rewrite E; auto.
  Qed.

  Lemma ok_set_fA ns i x : nodes_ok ns -> (forall u, x = Some u -> LT u i) -> nodes_ok (set_fA ns i x).
  Proof.
    intros H Hx. apply nodes_ok_upd; auto. destruct (H i) as [A [B [C D]]].
    repeat split; cbn; auto.
  Qed.
  Lemma ok_set_fB ns i x : nodes_ok ns -> (forall u, x = Some u -> LT i u) -> nodes_ok (set_fB ns i x).
  Proof.
    intros H Hx. apply nodes_ok_upd; auto. destruct (H i) as [A [B [C D]]].
    repeat split; cbn; auto.
  Qed.
  Lemma ok_set_leftN ns i x : nodes_ok ns -> (forall u, In u x -> LT u i) -> nodes_ok (set_leftN ns i x).
  Proof.
    intros H Hx. apply nodes_ok_upd; auto. destruct (H i) as [A [B [C D]]].
    repeat split; cbn; auto.
  Qed.
  Lemma ok_set_rightN ns i x : nodes_ok ns -> (forall u, In u x -> LT i u) -> nodes_ok (set_rightN ns i x).
  Proof.
    intros H Hx. apply nodes_ok_upd; auto. destruct (H i) as [A [B [C D]]].
    repeat split; cbn; auto.
  Qed.

  Definition fwd (c : constr) : Prop := LT (cl c) (cr c).
  Definition st_ok (s : st) : Prop := sorted (scan s) /\ nodes_ok (nodes s) /\ Forall fwd (out s).

  Variable len : nat -> Q.
  Variables ovX ovY : nat -> nat -> Q.

  Lemma open_plain_ok s v : st_ok s -> st_ok (open_plain lt s v).
  Proof.
    intros [Hs [Hn Ho]]. unfold open_plain.
    pose proof (set_insert_sorted v _ Hs) as Hs'.
    destruct (nbrs_aux None v (set_insert lt v (scan s))) as [p nx] eqn:E.
    destruct (nbrs_aux_spec v _ None p nx Hs' ltac:(intros u Hu; discriminate) E) as [Hp Hnx].
    split; [exact Hs'|]. split; [|exact Ho]. cbn [nodes].
    assert (H1 : nodes_ok (match p with
                           | Some u => set_fB (set_fA (nodes s) v (Some u)) u (Some v)
                           | None => nodes s end)).
    { destruct p as [u|]; [|exact Hn]. apply ok_set_fB.
      - apply ok_set_fA; [exact Hn|]. intros w Hw. inversion Hw; subst. now apply Hp.
      - intros w Hw. inversion Hw; subst. now apply Hp. }
    destruct nx as [u|]; [|exact H1]. apply ok_set_fA.
    - apply ok_set_fB; [exact H1|]. intros w Hw. inversion Hw; subst. now apply Hnx.
    - intros w Hw. inversion Hw; subst. now apply Hnx.
  Qed.

  Lemma close_plain_ok s v : st_ok s -> st_ok (close_plain len s v).
  Proof.
    intros [Hs [Hn Ho]]. unfold close_plain.
    destruct (Hn v) as [A [B _]].
    set (ns := nodes s) in *.
    destruct (fA (getn ns v)) as [lu|] eqn:EA.
    - assert (Hl : LT lu v) by (apply A; auto).
      assert (H1 : nodes_ok (set_fB ns lu (fB (getn ns v)))).
      { apply ok_set_fB; auto. intros w Hw. eapply lt_trans; eauto. }
      destruct (fB (getn ns v)) as [ru|] eqn:EB.
      + assert (Hr : LT v ru) by (apply B; auto).
        split; [now apply set_erase_sorted|]. split.
        * cbn [nodes]. apply ok_set_fA; auto. intros w Hw.
          destruct (H1 v) as [A' _]. eapply lt_trans; [apply A'; exact Hw | exact Hr].
        * cbn [out]. constructor; [exact Hr|]. constructor; [exact Hl | exact Ho].
      + split; [now apply set_erase_sorted|]. split; [exact H1|].
        cbn [out]. constructor; [exact Hl | exact Ho].
    - destruct (fB (getn ns v)) as [ru|] eqn:EB.
      + assert (Hr : LT v ru) by (apply B; auto).
        split; [now apply set_erase_sorted|]. split.
        * cbn [nodes]. apply ok_set_fA; auto. intros w Hw. destruct (Hn v) as [A' _].
          eapply lt_trans; [apply A'; exact Hw | exact Hr].
        * cbn [out]. constructor; [exact Hr | exact Ho].
      + split; [now apply set_erase_sorted|]. split; auto.
  Qed.

  Lemma nbr_walk_sub v : forall us acc u, In u (nbr_walk lt ovX ovY v us acc) -> In u acc \/ In u us.
  Proof.
    induction us as [|x us IH]; intros acc u H; cbn in H; auto.
    destruct (Qleb (ovX x v) 0).
    - destruct (In_set_insert _ _ _ H) as [->|H1]; auto. right; now left.
    - destruct (Qleb (ovX x v) (ovY x v)).
      + destruct (IH _ _ H) as [H1|H1]; [|right; now right].
        destruct (In_set_insert _ _ _ H1) as [->|H2]; auto. right; now left.
      + destruct (IH _ _ H) as [H1|H1]; auto. right; now right.
  Qed.

  Lemma fold_ok {B} (f : list node -> B -> list node) (P : B -> Prop) :
    (forall ns u, nodes_ok ns -> P u -> nodes_ok (f ns u)) ->
    forall l ns, nodes_ok ns -> (forall u, In u l -> P u) -> nodes_ok (fold_left f l ns).
  Proof.
    intros Hf l. induction l as [|x l IH]; intros ns Hn Hl; cbn; auto.
    apply IH; [apply Hf; auto; apply Hl; now left | intros; apply Hl; now right].
  Qed.

  Lemma open_nbr_ok s v : st_ok s -> st_ok (open_nbr lt ovX ovY s v).
  Proof.
    intros [Hs [Hn Ho]]. unfold open_nbr.
    pose proof (set_insert_sorted v _ Hs) as Hs'.
    set (sc := set_insert lt v (scan s)) in *.
    destruct (split_at v sc []) as [bef aft] eqn:E.
    destruct (split_at_spec v sc bef aft Hs' E) as [Hbef Haft].
    set (left := nbr_walk lt ovX ovY v bef []).
    set (right := nbr_walk lt ovX ovY v aft []).
    assert (HL : forall u, In u left -> LT u v).
    { intros u Hu. destruct (nbr_walk_sub v _ _ _ Hu) as [[]|H]; auto. }
    assert (HR : forall u, In u right -> LT v u).
    { intros u Hu. destruct (nbr_walk_sub v _ _ _ Hu) as [[]|H]; auto. }
    split; [exact Hs'|]. split; [|exact Ho]. cbn [nodes].
    apply (fold_ok (fun ns u => set_leftN ns u (set_insert lt v (leftN (getn ns u)))) (fun u => LT v u)).
    - intros ns u Hok Hu. apply ok_set_leftN; auto. intros w Hw.
      destruct (In_set_insert _ _ _ Hw) as [E1|H1]; [subst; auto|]. destruct (Hok u) as [_ [_ [C _]]]; auto.
    - apply (fold_ok (fun ns u => set_rightN ns u (set_insert lt v (rightN (getn ns u)))) (fun u => LT u v)).
      + intros ns u Hok Hu. apply ok_set_rightN; auto. intros w Hw.
        destruct (In_set_insert _ _ _ Hw) as [E1|H1]; [subst; auto|]. destruct (Hok u) as [_ [_ [_ D]]]; auto.
      + apply ok_set_rightN; [apply ok_set_leftN|]; auto.
      + exact HL.
    - exact HR.
  Qed.

  Lemma close_nbr_ok s v : st_ok s -> st_ok (close_nbr len s v).
  Proof.
    intros [Hs [Hn Ho]]. unfold close_nbr.
    destruct (Hn v) as [_ [_ [C D]]].
    set (nv := getn (nodes s) v) in *.
    assert (G1 : forall l a, (forall u, In u l -> LT u v) -> nodes_ok (fst a) -> Forall fwd (snd a) ->
               let r := fold_left (fun (a : list node * list constr) u =>
                          let '(ns, o) := a in
                          (set_rightN ns u (set_erase v (rightN (getn ns u))), mkc u v (sep len v u) :: o)) l a in
               nodes_ok (fst r) /\ Forall fwd (snd r)).
    { induction l as [|x l IH]; intros a Hl Ha1 Ha2; cbn [fold_left]; [split; auto|].
      apply IH; [intros; apply Hl; now right | |]; destruct a as [ns o]; cbn [fst snd] in *.
      - apply ok_set_rightN; auto. intros w Hw. apply In_set_erase in Hw. destruct (Ha1 x) as [_ [_ [_ D']]]; auto.
      - constructor; auto. unfold fwd; cbn. apply Hl. now left. }
    assert (G2 : forall l a, (forall u, In u l -> LT v u) -> nodes_ok (fst a) -> Forall fwd (snd a) ->
               let r := fold_left (fun (a : list node * list constr) u =>
                          let '(ns, o) := a in
                          (set_leftN ns u (set_erase v (leftN (getn ns u))), mkc v u (sep len v u) :: o)) l a in
               nodes_ok (fst r) /\ Forall fwd (snd r)).
    { induction l as [|x l IH]; intros a Hl Ha1 Ha2; cbn [fold_left]; [split; auto|].
      apply IH; [intros; apply Hl; now right | |]; destruct a as [ns o]; cbn [fst snd] in *.
      - apply ok_set_leftN; auto. intros w Hw. apply In_set_erase in Hw. destruct (Ha1 x) as [_ [_ [C' _]]]; auto.
      - constructor; auto. unfold fwd; cbn. apply Hl. now left. }
    pose proof (G1 (leftN nv) (nodes s, out s) C Hn Ho) as R1. cbv zeta in R1.
    destruct (fold_left _ (leftN nv) (nodes s, out s)) as [ns1 out1]. cbn [fst snd] in R1. destruct R1 as [R1a R1b].
    pose proof (G2 (rightN nv) (ns1, out1) D R1a R1b) as R2. cbv zeta in R2.
    destruct (fold_left _ (rightN nv) (ns1, out1)) as [ns2 out2]. cbn [fst snd] in R2. destruct R2 as [R2a R2b].
    split; [now apply set_erase_sorted|]. split; auto.
  Qed.

  Lemma st0_ok n : st_ok (st0 n).
  Proof.
    split; [constructor|]. split; [|constructor].
    intros j. unfold getn, st0; cbn [nodes].
    assert (E : nth j (repeat node0 n) node0 = node0).
    { destruct (nth_in_or_default j (repeat node0 n) node0) as [H|H]; auto. now apply repeat_spec in H. }
    rewrite E. repeat split; cbn; intros; (discriminate || contradiction).
  Qed.

  Lemma run_plain_ok n evs : st_ok (run_plain lt len n evs).
  Proof.
    unfold run_plain. generalize (st0_ok n). generalize (st0 n).
    induction evs as [|e evs IH]; intros s Hs; cbn [fold_left]; auto.
    apply IH. unfold step_plain. destruct (ety e); [now apply open_plain_ok | now apply close_plain_ok].
  Qed.
  Lemma run_nbr_ok n evs : st_ok (run_nbr lt len ovX ovY n evs).
  Proof.
    unfold run_nbr. generalize (st0_ok n). generalize (st0 n).
    induction evs as [|e evs IH]; intros s Hs; cbn [fold_left]; auto.
    apply IH. unfold step_nbr. destruct (ety e); [now apply open_nbr_ok | now apply close_nbr_ok].
  Qed.

  (* ---------------- forward edges give a DAG *)
  Hypothesis lt_irrefl : forall a, lt a a = false.
  Lemma fwd_path cs a b : Forall fwd cs -> path cs a b -> LT a b.
  Proof.
    intros H P. rewrite Forall_forall in H. induction P as [c Hc | c b Hc P IH].
    - now apply H.
    - eapply lt_trans; [apply (H c Hc) | exact IH].
  Qed.
  Lemma fwd_acyclic cs : Forall fwd cs -> acyclic cs.
  Proof. intros H a P. pose proof (fwd_path _ _ _ H P) as L. rewrite lt_irrefl in L. discriminate. Qed.
End Order.

(* ------------------------------------------------------------------ the two comparators are strict orders *)
Definition strict (lt : nat -> nat -> bool) : Prop :=
  (forall a b c, lt a b = true -> lt b c = true -> lt a c = true) /\ (forall a, lt a a = false).

Lemma cmp_node_pos_addr_strict addr pos : strict (cmp_node_pos_addr addr pos).
Proof.
  split.
  - intros a b c. unfold cmp_node_pos_addr.
    destruct (nth_error pos a) as [pa|]; [|discriminate].
    destruct (nth_error pos b) as [pb|]; [|discriminate].
    destruct (nth_error pos c) as [pc|]; [|intros; discriminate].
    destruct (Qltb pa pb) eqn:E1; destruct (Qltb pb pa) eqn:E2; destruct (Qltb pb pc) eqn:E3; destruct (Qltb pc pb) eqn:E4;
      destruct (Qltb pa pc) eqn:E5; destruct (Qltb pc pa) eqn:E6; qb2p; intros H1 H2; try reflexivity; try discriminate;
      try (exfalso; lra).
    apply Nat.ltb_lt in H1, H2. apply Nat.ltb_lt. lia.
  - intros a. unfold cmp_node_pos_addr. destruct (nth_error pos a) as [pa|]; auto.
    destruct (Qltb pa pa) eqn:E; qb2p; [exfalso; lra|]. apply Nat.ltb_irrefl.
Qed.

Lemma cmp_node_pos_id_strict ids addr pos : strict (cmp_node_pos_id ids addr pos).
Proof.
  split.
  - intros a b c. unfold cmp_node_pos_id.
    destruct (nth_error pos a) as [pa|]; [|discriminate].
    destruct (nth_error pos b) as [pb|]; [|discriminate].
    destruct (nth_error pos c) as [pc|]; [|intros; discriminate].
    set (ia := nth a ids 0%Z). set (ib := nth b ids 0%Z). set (ic := nth c ids 0%Z).
    destruct (Qltb pa pb) eqn:E1; destruct (Qltb pb pa) eqn:E2; destruct (Qltb pb pc) eqn:E3; destruct (Qltb pc pb) eqn:E4;
      destruct (Qltb pa pc) eqn:E5; destruct (Qltb pc pa) eqn:E6; qb2p; intros H1 H2; try reflexivity; try discriminate;
      try (exfalso; lra).
    destruct (Z.eqb ia ib) eqn:F1; destruct (Z.eqb ib ic) eqn:F2; destruct (Z.eqb ia ic) eqn:F3; cbn [negb] in *;
      rewrite ?Z.eqb_eq, ?Z.eqb_neq, ?Z.ltb_lt, ?Nat.ltb_lt in *; try lia.
  - intros a. unfold cmp_node_pos_id. destruct (nth_error pos a) as [pa|]; auto.
    destruct (Qltb pa pa) eqn:E; qb2p; [exfalso; lra|]. rewrite Z.eqb_refl. cbn. apply Nat.ltb_irrefl.
Qed.

(* ------------------------------------------------------------------ gen_acyclic *)
Section GenAcyclic.
  Variable mklt : list Q -> nat -> nat -> bool.
  Hypothesis mklt_strict : forall pos, strict (mklt pos).
  Variables xb yb : Q.

  Theorem gen_acyclic_X rs b cs :
    generateXConstraints mklt xb yb rs b = Some cs ->
    Forall (fun c => mklt (posX xb rs) (cl c) (cr c) = true) cs /\ acyclic cs.
  Proof.
    unfold generateXConstraints. destruct (msort compare_events _ _) as [sorted_evs|]; [|discriminate].
    intro H. inversion H; subst cs; clear H.
    destruct (mklt_strict (posX xb rs)) as [T I].
    assert (F : Forall (fwd (mklt (posX xb rs)))
                  (rev (out (if b then run_nbr (mklt (posX xb rs)) (lenOf (width xb) rs)
                                       (ovOf (overlapX xb) rs) (ovOf (overlapY yb) rs) (length rs) sorted_evs
                             else run_plain (mklt (posX xb rs)) (lenOf (width xb) rs) (length rs) sorted_evs)))).
    { apply Forall_rev. destruct b.
      - apply (run_nbr_ok _ T). 
      - apply (run_plain_ok _ T). }
    split; [exact F | exact (fwd_acyclic _ T I _ F)].
  Qed.

  Theorem gen_acyclic_Y rs cs :
    generateYConstraints mklt xb yb rs = Some cs ->
    Forall (fun c => mklt (posY yb rs) (cl c) (cr c) = true) cs /\ acyclic cs.
  Proof.
    unfold generateYConstraints. destruct (msort compare_events _ _) as [sorted_evs|]; [|discriminate].
    intro H. inversion H; subst cs; clear H.
    destruct (mklt_strict (posY yb rs)) as [T I].
    assert (F : Forall (fwd (mklt (posY yb rs)))
                  (rev (out (run_plain (mklt (posY yb rs)) (lenOf (height yb) rs) (length rs) sorted_evs)))).
    { apply Forall_rev. apply (run_plain_ok _ T). }
    split; [exact F | exact (fwd_acyclic _ T I _ F)].
  Qed.
End GenAcyclic.

(* both generators, both modes, both tie-break variants of CmpNodePos, any address oracle *)
Theorem gen_acyclic :
  forall (addr : nat -> nat) (ids : list Z) (xb yb : Q) (rs : list rect),
    (forall b cs, generateXConstraints (cmp_node_pos_addr addr) xb yb rs b = Some cs -> acyclic cs) /\
    (forall cs, generateYConstraints (cmp_node_pos_addr addr) xb yb rs = Some cs -> acyclic cs) /\
    (forall b cs, generateXConstraints (cmp_node_pos_id ids addr) xb yb rs b = Some cs -> acyclic cs) /\
    (forall cs, generateYConstraints (cmp_node_pos_id ids addr) xb yb rs = Some cs -> acyclic cs).
Proof.
  intros addr ids xb yb rs. repeat split; intros.
  - eapply gen_acyclic_X; eauto. apply cmp_node_pos_addr_strict.
  - eapply gen_acyclic_Y; eauto. apply cmp_node_pos_addr_strict.
  - eapply gen_acyclic_X; eauto. apply cmp_node_pos_id_strict.
  - eapply gen_acyclic_Y; eauto. apply cmp_node_pos_id_strict.
Qed.

(* non-vacuity: three identical rectangles, a generated set with three constraints *)
Example gen_acyclic_example :
  exists cs, generateXConstraints (cmp_node_pos_addr (fun i => i)) 0 0
               [mkrect 0 10 0 10; mkrect 0 10 0 10; mkrect 0 10 0 10] true = Some cs /\ length cs = 3%nat.
Proof. eexists. split; [vm_compute; reflexivity | reflexivity]. Qed.
