(* Executable model of the scan-line constraint generators of libvpsc, cola/libvpsc/rectangle.cpp:110-389
   (struct Node, CmpNodePos, getLeft/RightNeighbours, Event, compare_events, generateXConstraints,
   generateYConstraints), mirrored statement by statement.  HAND-WRITTEN; tied to the code by the correspondence
   run of checks/c09.py (constraint lists compared exactly).  No proofs in this file.

   Hidden inputs made explicit:
   * Rectangle::xBorder / yBorder                      -> parameters xb yb (Rect/RectBase.v)
   * the pointer comparison `u < v` of CmpNodePos      -> an address oracle addr : nat -> nat
   * the C library's qsort on the comparator compare_events, which is NOT a consistent ordering (it answers -1 for
     (a,b) and for (b,a) when both are Open at the same position, and 1 both ways for two Close events): the model
     follows glibc's merge sort (msort_with_tmp: halves n/2 and n-n/2, `cmp(b1,b2) <= 0` takes from the left run),
     so equal Open events keep their order and equal Close events come out in reverse order.
   Nodes are identified with the index i of rs[i] / vars[i]. *)
From Adapt Require Import Num.Qaux Rect.RectBase.
Local Open Scope Q_scope.

(* ------------------------------------------------------------------ events, rectangle.cpp:197-223 *)
Inductive etype := Open | Close.
Record event := mkev { ety : etype; enode : nat; epos : Q }.

Definition compare_events (a b : event) : Z :=
  if Qeqb (epos a) (epos b) then
    (* when comparing opening and closing, open must come first *)
    match ety a with Open => (-1)%Z | Close => 1%Z end
  else if Qgtb (epos a) (epos b) then 1%Z
  else if Qltb (epos a) (epos b) then (-1)%Z
  else 0%Z.   (* the isnan branch: unreachable over Q *)

(* ------------------------------------------------------------------ qsort as glibc implements it *)
Section Msort.
  Context {A : Type}.
  Variable cmp : A -> A -> Z.

  Fixpoint merge (l1 : list A) : list A -> list A :=
    fix merge_aux (l2 : list A) : list A :=
      match l1, l2 with
      | [], _ => l2
      | _, [] => l1
      | a1 :: l1', a2 :: l2' =>
          if (cmp a1 a2 <=? 0)%Z then a1 :: merge l1' l2 else a2 :: merge_aux l2'
      end.

  (* None = out of fuel; msort (length l) l is never None (Scanline.msort_total) *)
  Fixpoint msort (fuel : nat) (l : list A) : option (list A) :=
    match l with
    | [] | [_] => Some l
    | _ =>
        match fuel with
        | O => None
        | S f =>
            let n1 := Nat.div2 (length l) in
            match msort f (firstn n1 l), msort f (skipn n1 l) with
            | Some a, Some b => Some (merge a b)
            | _, _ => None
            end
        end
    end.
End Msort.

(* ------------------------------------------------------------------ CmpNodePos, rectangle.cpp:154-164 *)
(* original code: position, then the address of the Node *)
Definition cmp_node_pos_addr (addr : nat -> nat) (pos : list Q) (u v : nat) : bool :=
  match nth_error pos u, nth_error pos v with
  | Some pu, Some pv =>
      if Qltb pu pv then true
      else if Qltb pv pu then false
      else (addr u <? addr v)%nat
  | _, _ => false
  end.
(* repaired code: position, then Variable::id when the ids differ, then the address *)
Definition cmp_node_pos_id (ids : list Z) (addr : nat -> nat) (pos : list Q) (u v : nat) : bool :=
  match nth_error pos u, nth_error pos v with
  | Some pu, Some pv =>
      if Qltb pu pv then true
      else if Qltb pv pu then false
      else
        let iu := nth u ids 0%Z in
        let iv := nth v ids 0%Z in
        if negb (iu =? iv)%Z then (iu <? iv)%Z else (addr u <? addr v)%nat
  | _, _ => false
  end.

(* ------------------------------------------------------------------ NodeSet = std::set<Node*,CmpNodePos> *)
Section Sets.
  Variable lt : nat -> nat -> bool.

  (* insert: the first position whose element is not less than v; an equivalent element blocks the insertion *)
  Fixpoint set_insert (v : nat) (s : list nat) : list nat :=
    match s with
    | [] => [v]
    | x :: s' => if lt x v then x :: set_insert v s' else if lt v x then v :: s else s
    end.
  (* erase(v) / find(v): nodes are distinct objects with distinct keys, so the key lookup finds v itself *)
  Fixpoint set_erase (v : nat) (s : list nat) : list nat :=
    match s with
    | [] => []
    | x :: s' => if Nat.eqb x v then s' else x :: set_erase v s'
    end.
  (* it=find(v): the element before it (if it!=begin) and the element after it (if ++it!=end) *)
  Fixpoint nbrs_aux (prev : option nat) (v : nat) (s : list nat) : option nat * option nat :=
    match s with
    | [] => (None, None)
    | x :: s' => if Nat.eqb x v then (prev, hd_error s') else nbrs_aux (Some x) v s'
    end.
  (* elements before v, nearest first, and elements after v (nothing if v is not in the set: cannot happen in the
     generators, which call this right after inserting v) *)
  Fixpoint split_at (v : nat) (s : list nat) (acc : list nat) : list nat * list nat :=
    match s with
    | [] => ([], [])
    | x :: s' => if Nat.eqb x v then (acc, s') else split_at v s' (x :: acc)
    end.
End Sets.

(* ------------------------------------------------------------------ struct Node, rectangle.cpp:115-153 *)
Record node := mknode { fA : option nat; fB : option nat; leftN : list nat; rightN : list nat }.
Definition node0 : node := mknode None None [] [].
Record constr := mkc { cl : nat; cr : nat; cgap : Q }.
Record st := mkst { nodes : list node; scan : list nat; out : list constr (* newest first *) }.

Definition getn (ns : list node) (i : nat) : node := nth i ns node0.
Definition set_fA (ns : list node) (i : nat) (x : option nat) : list node :=
  let n := getn ns i in upd_nth ns i (mknode x (fB n) (leftN n) (rightN n)).
Definition set_fB (ns : list node) (i : nat) (x : option nat) : list node :=
  let n := getn ns i in upd_nth ns i (mknode (fA n) x (leftN n) (rightN n)).
Definition set_leftN (ns : list node) (i : nat) (x : list nat) : list node :=
  let n := getn ns i in upd_nth ns i (mknode (fA n) (fB n) x (rightN n)).
Definition set_rightN (ns : list node) (i : nat) (x : list nat) : list node :=
  let n := getn ns i in upd_nth ns i (mknode (fA n) (fB n) (leftN n) x).

Section Scan.
  Variable lt : nat -> nat -> bool.        (* CmpNodePos on node indices *)
  Variable len : nat -> Q.                 (* r->width() (x scan) or r->height() (y scan) of node i *)
  Variables ovX ovY : nat -> nat -> Q.     (* u->r->overlapX(v->r), u->r->overlapY(v->r) *)

  Definition sep (v u : nat) : Q := Qred ((len v + len u) / 2).

  (* ---- useNeighbourLists == false and generateYConstraints: rectangle.cpp:259-270, 296-306, 351-375 *)
  Definition open_plain (s : st) (v : nat) : st :=
    let sc := set_insert lt v (scan s) in
    let '(p, nx) := nbrs_aux None v sc in
    let ns := nodes s in
    let ns := match p with
              | Some u => set_fB (set_fA ns v (Some u)) u (Some v)      (* v->firstAbove=u; u->firstBelow=v *)
              | None => ns
              end in
    let ns := match nx with
              | Some u => set_fA (set_fB ns v (Some u)) u (Some v)      (* v->firstBelow=u; u->firstAbove=v *)
              | None => ns
              end in
    mkst ns sc (out s).

  Definition close_plain (s : st) (v : nat) : st :=
    let ns := nodes s in
    let l := fA (getn ns v) in
    let r := fB (getn ns v) in
    let '(ns1, out1) :=
      match l with
      | Some lu => (set_fB ns lu (fB (getn ns v)), mkc lu v (sep v lu) :: out s)   (* l->firstBelow=v->firstBelow *)
      | None => (ns, out s)
      end in
    let '(ns2, out2) :=
      match r with
      | Some ru => (set_fA ns1 ru (fA (getn ns1 v)), mkc v ru (sep v ru) :: out1)  (* r->firstAbove=v->firstAbove *)
      | None => (ns1, out1)
      end in
    mkst ns2 (set_erase v (scan s)) out2.

  Definition step_plain (s : st) (e : event) : st :=
    match ety e with Open => open_plain s (enode e) | Close => close_plain s (enode e) end.

  (* ---- useNeighbourLists == true: rectangle.cpp:166-195, 141-152, 254-257, 276-294 *)
  Fixpoint nbr_walk (v : nat) (us : list nat) (acc : list nat) : list nat :=
    match us with
    | [] => acc
    | u :: us' =>
        if Qleb (ovX u v) 0 then set_insert lt u acc
        else if Qleb (ovX u v) (ovY u v) then nbr_walk v us' (set_insert lt u acc)
        else nbr_walk v us' acc
    end.

  Definition open_nbr (s : st) (v : nat) : st :=
    let sc := set_insert lt v (scan s) in
    let '(bef, aft) := split_at v sc [] in
    let left := nbr_walk v bef [] in
    let right := nbr_walk v aft [] in
    let ns := set_rightN (set_leftN (nodes s) v left) v right in
    let ns := fold_left (fun ns u => set_rightN ns u (set_insert lt v (rightN (getn ns u)))) left ns in
    let ns := fold_left (fun ns u => set_leftN ns u (set_insert lt v (leftN (getn ns u)))) right ns in
    mkst ns sc (out s).

  Definition close_nbr (s : st) (v : nat) : st :=
    let nv := getn (nodes s) v in
    let '(ns1, out1) :=
      fold_left (fun (a : list node * list constr) u =>
                   let '(ns, o) := a in
                   (set_rightN ns u (set_erase v (rightN (getn ns u))), mkc u v (sep v u) :: o))
                (leftN nv) (nodes s, out s) in
    let '(ns2, out2) :=
      fold_left (fun (a : list node * list constr) u =>
                   let '(ns, o) := a in
                   (set_leftN ns u (set_erase v (leftN (getn ns u))), mkc v u (sep v u) :: o))
                (rightN nv) (ns1, out1) in
    mkst ns2 (set_erase v (scan s)) out2.

  Definition step_nbr (s : st) (e : event) : st :=
    match ety e with Open => open_nbr s (enode e) | Close => close_nbr s (enode e) end.

  Definition st0 (n : nat) : st := mkst (repeat node0 n) [] [].
  Definition run_plain (n : nat) (evs : list event) : st := fold_left step_plain evs (st0 n).
  Definition run_nbr (n : nat) (evs : list event) : st := fold_left step_nbr evs (st0 n).
End Scan.

(* ------------------------------------------------------------------ the two public generators *)
Definition number {A} (l : list A) : list (nat * A) := combine (seq 0 (length l)) l.
Definition nthr (rs : list rect) (i : nat) : rect := nth i rs rect0.
(* v->r->width() etc. for node index i; indices are always in range, the fallback 0 is never used *)
Definition lenOf (f : rect -> Q) (rs : list rect) (i : nat) : Q :=
  match nth_error rs i with Some r => f r | None => 0 end.
Definition ovOf (f : rect -> rect -> Q) (rs : list rect) (u v : nat) : Q :=
  match nth_error rs u, nth_error rs v with Some a, Some b => f a b | _, _ => 0 end.

Section Gen.
  Variable mklt : list Q -> nat -> nat -> bool.   (* CmpNodePos given the Node::pos values *)
  Variables xb yb : Q.

  Definition eventsX (rs : list rect) : list event :=
    flat_map (fun ir => [mkev Open (fst ir) (getMinY yb (snd ir)); mkev Close (fst ir) (getMaxY yb (snd ir))]) (number rs).
  Definition eventsY (rs : list rect) : list event :=
    flat_map (fun ir => [mkev Open (fst ir) (getMinX xb (snd ir)); mkev Close (fst ir) (getMaxX xb (snd ir))]) (number rs).
  Definition posX (rs : list rect) : list Q := map (getCentreX xb) rs.
  Definition posY (rs : list rect) : list Q := map (getCentreY yb) rs.

  (* None only if the sort ran out of fuel, which cannot happen (Scanline.generate*_total) *)
  Definition generateXConstraints (rs : list rect) (useNeighbourLists : bool) : option (list constr) :=
    let evs := eventsX rs in
    match msort compare_events (length evs) evs with
    | None => None
    | Some sorted =>
        let lt := mklt (posX rs) in
        let len := lenOf (width xb) rs in
        let oX := ovOf (overlapX xb) rs in
        let oY := ovOf (overlapY yb) rs in
        Some (rev (out (if useNeighbourLists
                        then run_nbr lt len oX oY (length rs) sorted
                        else run_plain lt len (length rs) sorted)))
    end.

  Definition generateYConstraints (rs : list rect) : option (list constr) :=
    let evs := eventsY rs in
    match msort compare_events (length evs) evs with
    | None => None
    | Some sorted =>
        let lt := mklt (posY rs) in
        let len := lenOf (height yb) rs in
        Some (rev (out (run_plain lt len (length rs) sorted)))
    end.
End Gen.
