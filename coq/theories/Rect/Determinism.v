(* C20 for the scan line: the hidden input (the address order of the Node objects) is the explicit oracle addr.
   scanline_addr_independent : original CmpNodePos (centre, address): if no two rectangles have equal centres in the scan
                               dimension the generated constraint list does not depend on addr.
   scanline_addr_refuted     : with two equal centres there are two injective oracles that give different constraint sets
                               (the defect F-d; replayed on the real code by checks/c20.py with allocator priming).
   scanline_deterministic    : repaired CmpNodePos (centre, Variable::id, address): when the ids are pairwise distinct (as in
                               removeoverlaps, id = index) the result does not depend on addr -- no hypothesis on centres.
   scanline_translate        : translating every rectangle changes nothing in the generated list (same l, r, gap). *)
From Adapt Require Import Num.Qaux Rect.RectBase Rect.ScanlineModel Rect.EntailModel Rect.Entail Rect.Scanline.
Local Open Scope Q_scope.

(* ------------------------------------------------------------------ the scan only looks at its parameters pointwise *)
Lemma fold_left_ext {A B} (f g : A -> B -> A) : (forall a b, f a b = g a b) ->
  forall l a, fold_left f l a = fold_left g l a.
Proof. intros H l. induction l as [|x l IH]; intros a; cbn; auto. rewrite H. apply IH. Qed.

Section Ext.
  Variables lt1 lt2 : nat -> nat -> bool.
  Variables len1 len2 : nat -> Q.
  Variables ovX1 ovX2 ovY1 ovY2 : nat -> nat -> Q.
  Hypothesis Hlt : forall u v, lt1 u v = lt2 u v.
  Hypothesis Hlen : forall i, len1 i == len2 i.
  Hypothesis HovX : forall u v, ovX1 u v == ovX2 u v.
  Hypothesis HovY : forall u v, ovY1 u v == ovY2 u v.

  Lemma set_insert_ext v s : set_insert lt1 v s = set_insert lt2 v s.
  Proof. induction s as [|x s IH]; cbn; auto. rewrite !Hlt, IH. reflexivity. Qed.

  Lemma sep_ext v u : sep len1 v u = sep len2 v u.
  Proof. unfold sep. apply Qred_complete. rewrite (Hlen v), (Hlen u). reflexivity. Qed.

  Lemma nbr_walk_ext v : forall us acc, nbr_walk lt1 ovX1 ovY1 v us acc = nbr_walk lt2 ovX2 ovY2 v us acc.
  Proof.
    induction us as [|x us IH]; intros acc; cbn; auto.
    rewrite (Qleb_proper _ _ (HovX x v) 0 0 (Qeq_refl 0)).
    rewrite (Qleb_proper _ _ (HovX x v) _ _ (HovY x v)).
    rewrite !set_insert_ext, !IH. reflexivity.
  Qed.

  Lemma open_plain_ext s v : open_plain lt1 s v = open_plain lt2 s v.
  Proof. unfold open_plain. rewrite set_insert_ext. reflexivity. Qed.
  Lemma close_plain_ext s v : close_plain len1 s v = close_plain len2 s v.
  Proof.
    unfold close_plain.
    destruct (fA (getn (nodes s) v)) as [lu|]; destruct (fB (getn (nodes s) v)) as [ru|];
      rewrite ?sep_ext; reflexivity.
  Qed.

  Lemma open_nbr_ext s v : open_nbr lt1 ovX1 ovY1 s v = open_nbr lt2 ovX2 ovY2 s v.
  Proof.
    unfold open_nbr. rewrite set_insert_ext.
    destruct (split_at v (set_insert lt2 v (scan s)) []) as [bef aft].
    rewrite !nbr_walk_ext.
    f_equal.
    rewrite (fold_left_ext (fun ns u => set_rightN ns u (set_insert lt1 v (rightN (getn ns u))))
                           (fun ns u => set_rightN ns u (set_insert lt2 v (rightN (getn ns u)))))
      by (intros; now rewrite set_insert_ext).
    apply fold_left_ext. intros; now rewrite set_insert_ext.
  Qed.
  Lemma close_nbr_ext s v : close_nbr len1 s v = close_nbr len2 s v.
  Proof.
    unfold close_nbr.
    rewrite (fold_left_ext
               (fun (a : list node * list constr) u => let '(ns, o) := a in
                  (set_rightN ns u (set_erase v (rightN (getn ns u))), mkc u v (sep len1 v u) :: o))
               (fun (a : list node * list constr) u => let '(ns, o) := a in
                  (set_rightN ns u (set_erase v (rightN (getn ns u))), mkc u v (sep len2 v u) :: o)))
      by (intros [ns o] u; now rewrite sep_ext).
    destruct (fold_left _ (leftN (getn (nodes s) v)) (nodes s, out s)) as [ns1 out1].
    rewrite (fold_left_ext
               (fun (a : list node * list constr) u => let '(ns, o) := a in
                  (set_leftN ns u (set_erase v (leftN (getn ns u))), mkc v u (sep len1 v u) :: o))
               (fun (a : list node * list constr) u => let '(ns, o) := a in
                  (set_leftN ns u (set_erase v (leftN (getn ns u))), mkc v u (sep len2 v u) :: o)))
      by (intros [ns o] u; now rewrite sep_ext).
    reflexivity.
  Qed.

  Lemma run_plain_ext n evs : run_plain lt1 len1 n evs = run_plain lt2 len2 n evs.
  Proof.
    unfold run_plain. apply fold_left_ext. intros s e. unfold step_plain.
    destruct (ety e); [apply open_plain_ext | apply close_plain_ext].
  Qed.
  Lemma run_nbr_ext n evs : run_nbr lt1 len1 ovX1 ovY1 n evs = run_nbr lt2 len2 ovX2 ovY2 n evs.
  Proof.
    unfold run_nbr. apply fold_left_ext. intros s e. unfold step_nbr.
    destruct (ety e); [apply open_nbr_ext | apply close_nbr_ext].
  Qed.
End Ext.

(* the scan looks only at the type and the node of each (sorted) event *)
Definition ev_sim (e e' : event) : Prop := ety e = ety e' /\ enode e = enode e'.
Lemma run_plain_sim lt len n : forall evs evs', Forall2 ev_sim evs evs' ->
  run_plain lt len n evs = run_plain lt len n evs'.
Proof.
  unfold run_plain. generalize (st0 n). intros s evs evs' H. revert s.
  induction H as [|e e' l l' [E1 E2] H IH]; intros s; cbn [fold_left]; auto.
  assert (Es : step_plain lt len s e = step_plain lt len s e') by (unfold step_plain; now rewrite E1, E2).
  rewrite Es. apply IH.
Qed.
Lemma run_nbr_sim lt len oX oY n : forall evs evs', Forall2 ev_sim evs evs' ->
  run_nbr lt len oX oY n evs = run_nbr lt len oX oY n evs'.
Proof.
  unfold run_nbr. generalize (st0 n). intros s evs evs' H. revert s.
  induction H as [|e e' l l' [E1 E2] H IH]; intros s; cbn [fold_left]; auto.
  assert (Es : step_nbr lt len oX oY s e = step_nbr lt len oX oY s e') by (unfold step_nbr; now rewrite E1, E2).
  rewrite Es. apply IH.
Qed.

(* ------------------------------------------------------------------ generators: dependence on CmpNodePos only *)
Lemma generateX_lt_ext mk1 mk2 xb yb rs b :
  (forall u v, mk1 (posX xb rs) u v = mk2 (posX xb rs) u v) ->
  generateXConstraints mk1 xb yb rs b = generateXConstraints mk2 xb yb rs b.
Proof.
  intro H. unfold generateXConstraints. destruct (msort compare_events _ _) as [sorted_evs|]; auto.
  destruct b.
  - rewrite (run_nbr_ext _ _ _ _ _ _ _ _ H (fun i => Qeq_refl _) (fun u v => Qeq_refl _) (fun u v => Qeq_refl _)). reflexivity.
  - rewrite (run_plain_ext _ _ _ _ H (fun i => Qeq_refl _)). reflexivity.
Qed.
Lemma generateY_lt_ext mk1 mk2 xb yb rs :
  (forall u v, mk1 (posY yb rs) u v = mk2 (posY yb rs) u v) ->
  generateYConstraints mk1 xb yb rs = generateYConstraints mk2 xb yb rs.
Proof.
  intro H. unfold generateYConstraints. destruct (msort compare_events _ _) as [sorted_evs|]; auto.
  rewrite (run_plain_ext _ _ _ _ H (fun i => Qeq_refl _)). reflexivity.
Qed.

(* ------------------------------------------------------------------ (centre, address): independent iff no tie *)
Definition distinct_pos (pos : list Q) : Prop :=
  forall u v pu pv, u <> v -> nth_error pos u = Some pu -> nth_error pos v = Some pv -> ~ pu == pv.

Lemma cmp_addr_indep pos a1 a2 : distinct_pos pos ->
  forall u v, cmp_node_pos_addr a1 pos u v = cmp_node_pos_addr a2 pos u v.
Proof.
  intros D u v. unfold cmp_node_pos_addr.
  destruct (nth_error pos u) as [pu|] eqn:Eu; auto. destruct (nth_error pos v) as [pv|] eqn:Ev; auto.
  destruct (Nat.eq_dec u v) as [->|Hne].
  - rewrite Eu in Ev. inversion Ev; subst. destruct (Qltb pv pv) eqn:E; qb2p; [exfalso; lra|].
    now rewrite !Nat.ltb_irrefl.
  - pose proof (D u v pu pv Hne Eu Ev) as N.
    destruct (Qltb pu pv) eqn:E1; auto. destruct (Qltb pv pu) eqn:E2; auto. qb2p. exfalso. apply N. lra.
Qed.

Theorem scanline_addr_independent xb yb rs :
  (distinct_pos (posX xb rs) -> forall a1 a2 b,
     generateXConstraints (cmp_node_pos_addr a1) xb yb rs b = generateXConstraints (cmp_node_pos_addr a2) xb yb rs b) /\
  (distinct_pos (posY yb rs) -> forall a1 a2,
     generateYConstraints (cmp_node_pos_addr a1) xb yb rs = generateYConstraints (cmp_node_pos_addr a2) xb yb rs).
Proof.
  split; intros D a1 a2.
  - intro b. apply generateX_lt_ext. now apply cmp_addr_indep.
  - apply generateY_lt_ext. now apply cmp_addr_indep.
Qed.

Definition injective (f : nat -> nat) : Prop := forall i j, f i = f j -> i = j.
Definition swap01 (i : nat) : nat := match i with O => 1%nat | S O => O | _ => i end.
Lemma swap01_injective : injective swap01.
Proof. intros [|[|i]] [|[|j]]; cbn; intro H; congruence || lia. Qed.
Lemma id_injective : injective (fun i => i).
Proof. intros i j H; exact H. Qed.

(* F-d: two identical rectangles, two injective address oracles, opposite constraints *)
Theorem scanline_addr_refuted :
  exists rs a1 a2, injective a1 /\ injective a2 /\
    generateYConstraints (cmp_node_pos_addr a1) 0 0 rs <> generateYConstraints (cmp_node_pos_addr a2) 0 0 rs /\
    generateXConstraints (cmp_node_pos_addr a1) 0 0 rs true <> generateXConstraints (cmp_node_pos_addr a2) 0 0 rs true /\
    generateXConstraints (cmp_node_pos_addr a1) 0 0 rs false <> generateXConstraints (cmp_node_pos_addr a2) 0 0 rs false.
Proof.
  exists [mkrect 0 10 0 10; mkrect 0 10 0 10], (fun i => i), swap01.
  split; [exact id_injective|]. split; [exact swap01_injective|].
  repeat split; vm_compute; discriminate.
Qed.
(* what the two runs produce: the single constraint 0 -> 1 versus 1 -> 0 *)
Example scanline_addr_refuted_witness :
  generateYConstraints (cmp_node_pos_addr (fun i => i)) 0 0 [mkrect 0 10 0 10; mkrect 0 10 0 10] = Some [mkc 0 1 10] /\
  generateYConstraints (cmp_node_pos_addr swap01) 0 0 [mkrect 0 10 0 10; mkrect 0 10 0 10] = Some [mkc 1 0 10].
Proof. split; vm_compute; reflexivity. Qed.

(* ------------------------------------------------------------------ (centre, id, address) with distinct ids *)
Definition distinct_ids (n : nat) (ids : list Z) : Prop :=
  forall u v, (u < n)%nat -> (v < n)%nat -> u <> v -> nth u ids 0%Z <> nth v ids 0%Z.

Lemma cmp_id_indep ids pos a1 a2 : distinct_ids (length pos) ids ->
  forall u v, cmp_node_pos_id ids a1 pos u v = cmp_node_pos_id ids a2 pos u v.
Proof.
  intros D u v. unfold cmp_node_pos_id.
  destruct (nth_error pos u) as [pu|] eqn:Eu; auto. destruct (nth_error pos v) as [pv|] eqn:Ev; auto.
  destruct (Qltb pu pv); auto. destruct (Qltb pv pu); auto.
  destruct (Nat.eq_dec u v) as [->|Hne].
  - rewrite Z.eqb_refl. cbn [negb]. now rewrite !Nat.ltb_irrefl.
  - assert (Hu : (u < length pos)%nat) by (apply nth_error_Some; congruence).
    assert (Hv : (v < length pos)%nat) by (apply nth_error_Some; congruence).
    pose proof (D u v Hu Hv Hne) as N. apply Z.eqb_neq in N. now rewrite N.
Qed.

Theorem scanline_deterministic ids xb yb rs : distinct_ids (length rs) ids ->
  forall a1 a2,
    (forall b, generateXConstraints (cmp_node_pos_id ids a1) xb yb rs b = generateXConstraints (cmp_node_pos_id ids a2) xb yb rs b) /\
    generateYConstraints (cmp_node_pos_id ids a1) xb yb rs = generateYConstraints (cmp_node_pos_id ids a2) xb yb rs.
Proof.
  intros D a1 a2. split.
  - intro b. apply generateX_lt_ext. apply cmp_id_indep. unfold posX. now rewrite map_length.
  - apply generateY_lt_ext. apply cmp_id_indep. unfold posY. now rewrite map_length.
Qed.

(* removeoverlaps creates Variable(i, ...): ids = 0, 1, ..., n-1 *)
Lemma seq_ids_distinct n : distinct_ids n (map Z.of_nat (seq 0 n)).
Proof.
  intros u v Hu Hv Hne.
  assert (E : forall k, (k < n)%nat -> nth k (map Z.of_nat (seq 0 n)) 0%Z = Z.of_nat k).
  { intros k Hk. rewrite (nth_indep _ 0%Z (Z.of_nat 0)) by (rewrite map_length, seq_length; lia).
    rewrite map_nth, seq_nth by lia. reflexivity. }
  rewrite (E u Hu), (E v Hv). lia.
Qed.
Example scanline_deterministic_example :
  generateYConstraints (cmp_node_pos_id [0%Z; 1%Z] (fun i => i)) 0 0 [mkrect 0 10 0 10; mkrect 0 10 0 10] = Some [mkc 0 1 10] /\
  generateYConstraints (cmp_node_pos_id [0%Z; 1%Z] swap01) 0 0 [mkrect 0 10 0 10; mkrect 0 10 0 10] = Some [mkc 0 1 10].
Proof. split; vm_compute; reflexivity. Qed.

(* ------------------------------------------------------------------ translation invariance *)
(* msort on elementwise related lists with a comparator that respects the relation *)
Section MsortRel.
  Context {A : Type} (R : A -> A -> Prop) (cmp cmp' : A -> A -> Z).
  Hypothesis Hcmp : forall a a' b b', R a a' -> R b b' -> cmp a b = cmp' a' b'.

  Lemma merge_rel : forall l1 l1', Forall2 R l1 l1' -> forall l2 l2', Forall2 R l2 l2' ->
    Forall2 R (merge cmp l1 l2) (merge cmp' l1' l2').
  Proof.
    intros l1 l1' H1. induction H1 as [|a a' l1 l1' Ha H1 IH1]; intros l2 l2' H2.
    - destruct H2; cbn; constructor; auto.
    - induction H2 as [|b b' l2 l2' Hb H2 IH2].
      + cbn. constructor; auto.
      + cbn [merge]. rewrite (Hcmp a a' b b' Ha Hb). destruct (cmp' a' b' <=? 0)%Z.
        * constructor; [exact Ha | apply IH1; constructor; auto].
        * constructor; [exact Hb | exact IH2].
  Qed.

  Lemma Forall2_firstn n : forall l l', Forall2 R l l' -> Forall2 R (firstn n l) (firstn n l').
  Proof. induction n as [|n IH]; intros l l' H; cbn; [constructor|]. destruct H; constructor; auto. Qed.
  Lemma Forall2_skipn n : forall l l', Forall2 R l l' -> Forall2 R (skipn n l) (skipn n l').
  Proof. induction n as [|n IH]; intros l l' H; cbn; auto. destruct H; [constructor | auto]. Qed.
  Lemma Forall2_len : forall l l', Forall2 R l l' -> length l = length l'.
  Proof. intros l l' H; induction H; cbn; auto. Qed.

  Lemma msort_rel fuel : forall l l', Forall2 R l l' ->
    match msort cmp fuel l, msort cmp' fuel l' with
    | Some r, Some r' => Forall2 R r r'
    | None, None => True
    | _, _ => False
    end.
  Proof.
    induction fuel as [|f IH]; intros l l' H.
    - destruct H as [|a a' l l' Ha H]; cbn; [constructor|]. destruct H; cbn; [repeat constructor; auto | exact I].
    - destruct H as [|a a' l l' Ha H]; [cbn; constructor|].
      destruct H as [|b b' l l' Hb H]; [cbn; repeat constructor; auto|].
      assert (HL : Forall2 R (a :: b :: l) (a' :: b' :: l')) by (repeat constructor; auto).
      set (L := a :: b :: l) in *. set (L' := a' :: b' :: l') in *.
      assert (E : msort cmp (S f) L =
                  match msort cmp f (firstn (Nat.div2 (length L)) L), msort cmp f (skipn (Nat.div2 (length L)) L) with
                  | Some x, Some y => Some (merge cmp x y) | _, _ => None end) by reflexivity.
      assert (E' : msort cmp' (S f) L' =
                  match msort cmp' f (firstn (Nat.div2 (length L')) L'), msort cmp' f (skipn (Nat.div2 (length L')) L') with
                  | Some x, Some y => Some (merge cmp' x y) | _, _ => None end) by reflexivity.
      rewrite E, E'. clear E E'. rewrite <- (Forall2_len _ _ HL).
      pose proof (IH _ _ (Forall2_firstn (Nat.div2 (length L)) _ _ HL)) as I1.
      pose proof (IH _ _ (Forall2_skipn (Nat.div2 (length L)) _ _ HL)) as I2.
      destruct (msort cmp f (firstn _ L)) as [x|], (msort cmp' f (firstn _ L')) as [x'|]; try contradiction;
        destruct (msort cmp f (skipn _ L)) as [y|], (msort cmp' f (skipn _ L')) as [y'|]; try contradiction; auto.
      now apply merge_rel.
  Qed.
End MsortRel.

Definition ev_shift (t : Q) (e e' : event) : Prop := ev_sim e e' /\ epos e' == epos e + t.
Lemma compare_events_shift t a a' b b' : ev_shift t a a' -> ev_shift t b b' -> compare_events a b = compare_events a' b'.
Proof.
  intros [[T1 _] P1] [[T2 _] P2]. unfold compare_events. rewrite <- T1.
  assert (E1 : Qeqb (epos a') (epos b') = Qeqb (epos a) (epos b)).
  { destruct (Qeqb (epos a) (epos b)) eqn:E; destruct (Qeqb (epos a') (epos b')) eqn:E'; auto; qb2p; exfalso.
    - apply E'. rewrite P1, P2. lra.
    - apply E. rewrite P1, P2 in E'. lra. }
  assert (E2 : Qgtb (epos a') (epos b') = Qgtb (epos a) (epos b)).
  { destruct (Qgtb (epos a) (epos b)) eqn:E; destruct (Qgtb (epos a') (epos b')) eqn:E'; auto; qb2p; exfalso;
      rewrite P1, P2 in E'; lra. }
  assert (E3 : Qltb (epos a') (epos b') = Qltb (epos a) (epos b)).
  { destruct (Qltb (epos a) (epos b)) eqn:E; destruct (Qltb (epos a') (epos b')) eqn:E'; auto; qb2p; exfalso;
      rewrite P1, P2 in E'; lra. }
  now rewrite E1, E2, E3.
Qed.

(* CmpNodePos looks at differences of positions only *)
Definition shift_invariant (mk : list Q -> nat -> nat -> bool) : Prop :=
  forall t pos pos', Forall2 (fun p p' => p' == p + t) pos pos' -> forall u v, mk pos' u v = mk pos u v.

Lemma Forall2_nth_error {A B} (R : A -> B -> Prop) l l' : Forall2 R l l' -> forall i,
  match nth_error l i, nth_error l' i with
  | Some a, Some b => R a b | None, None => True | _, _ => False end.
Proof. intros H. induction H; intros [|i]; cbn; auto. apply IHForall2. Qed.

Lemma Qltb_shift t a a' b b' : a' == a + t -> b' == b + t -> Qltb a' b' = Qltb a b.
Proof.
  intros Ha Hb. destruct (Qltb a b) eqn:E; destruct (Qltb a' b') eqn:E'; auto; qb2p; exfalso; rewrite Ha, Hb in E'; lra.
Qed.

Lemma cmp_addr_shift addr : shift_invariant (cmp_node_pos_addr addr).
Proof.
  intros t pos pos' H u v. unfold cmp_node_pos_addr.
  pose proof (Forall2_nth_error _ _ _ H u) as Hu. pose proof (Forall2_nth_error _ _ _ H v) as Hv.
  destruct (nth_error pos u) as [pu|], (nth_error pos' u) as [pu'|]; try contradiction; auto.
  destruct (nth_error pos v) as [pv|], (nth_error pos' v) as [pv'|]; try contradiction; auto.
  now rewrite (Qltb_shift t pu pu' pv pv' Hu Hv), (Qltb_shift t pv pv' pu pu' Hv Hu).
Qed.
Lemma cmp_id_shift ids addr : shift_invariant (cmp_node_pos_id ids addr).
Proof.
  intros t pos pos' H u v. unfold cmp_node_pos_id.
  pose proof (Forall2_nth_error _ _ _ H u) as Hu. pose proof (Forall2_nth_error _ _ _ H v) as Hv.
  destruct (nth_error pos u) as [pu|], (nth_error pos' u) as [pu'|]; try contradiction; auto.
  destruct (nth_error pos v) as [pv|], (nth_error pos' v) as [pv'|]; try contradiction; auto.
  now rewrite (Qltb_shift t pu pu' pv pv' Hu Hv), (Qltb_shift t pv pv' pu pu' Hv Hu).
Qed.

Section Translate.
  Variables tx ty : Q.
  Notation T := (rect_translate tx ty).

  Lemma getters_translate xb yb r :
    getMinX xb (T r) == getMinX xb r + tx /\ getMaxX xb (T r) == getMaxX xb r + tx /\
    getMinY yb (T r) == getMinY yb r + ty /\ getMaxY yb (T r) == getMaxY yb r + ty /\
    width xb (T r) == width xb r /\ height yb (T r) == height yb r /\
    getCentreX xb (T r) == getCentreX xb r + tx /\ getCentreY yb (T r) == getCentreY yb r + ty.
  Proof.
    unfold getCentreX, getCentreY, width, height, getMinX, getMaxX, getMinY, getMaxY, rect_translate;
      cbn [rminX rmaxX rminY rmaxY]. repeat split; field.
  Qed.

  Lemma overlapX_translate xb u v : overlapX xb (T u) (T v) == overlapX xb u v.
  Proof.
    unfold overlapX.
    destruct (getters_translate xb 0 u) as [A1 [A2 [_ [_ [_ [_ [A3 _]]]]]]].
    destruct (getters_translate xb 0 v) as [B1 [B2 [_ [_ [_ [_ [B3 _]]]]]]].
    assert (L1 : Qleb (getCentreX xb (T u)) (getCentreX xb (T v)) = Qleb (getCentreX xb u) (getCentreX xb v)).
    { destruct (Qleb (getCentreX xb u) (getCentreX xb v)) eqn:E; destruct (Qleb (getCentreX xb (T u)) _) eqn:E'; auto;
        qb2p; exfalso; rewrite A3, B3 in E'; lra. }
    assert (L2 : Qleb (getCentreX xb (T v)) (getCentreX xb (T u)) = Qleb (getCentreX xb v) (getCentreX xb u)).
    { destruct (Qleb (getCentreX xb v) (getCentreX xb u)) eqn:E; destruct (Qleb (getCentreX xb (T v)) _) eqn:E'; auto;
        qb2p; exfalso; rewrite A3, B3 in E'; lra. }
    rewrite L1, L2, (Qltb_shift tx _ _ _ _ B1 A2), (Qltb_shift tx _ _ _ _ A1 B2).
    destruct (Qleb (getCentreX xb u) (getCentreX xb v) && Qltb (getMinX xb v) (getMaxX xb u)); [rewrite A2, B1; ring|].
    destruct (Qleb (getCentreX xb v) (getCentreX xb u) && Qltb (getMinX xb u) (getMaxX xb v)); [rewrite A1, B2; ring|].
    reflexivity.
  Qed.
  Lemma overlapY_translate yb u v : overlapY yb (T u) (T v) == overlapY yb u v.
  Proof.
    unfold overlapY.
    destruct (getters_translate 0 yb u) as [_ [_ [A1 [A2 [_ [_ [_ A3]]]]]]].
    destruct (getters_translate 0 yb v) as [_ [_ [B1 [B2 [_ [_ [_ B3]]]]]]].
    assert (L1 : Qleb (getCentreY yb (T u)) (getCentreY yb (T v)) = Qleb (getCentreY yb u) (getCentreY yb v)).
    { destruct (Qleb (getCentreY yb u) (getCentreY yb v)) eqn:E; destruct (Qleb (getCentreY yb (T u)) _) eqn:E'; auto;
        qb2p; exfalso; rewrite A3, B3 in E'; lra. }
    assert (L2 : Qleb (getCentreY yb (T v)) (getCentreY yb (T u)) = Qleb (getCentreY yb v) (getCentreY yb u)).
    { destruct (Qleb (getCentreY yb v) (getCentreY yb u)) eqn:E; destruct (Qleb (getCentreY yb (T v)) _) eqn:E'; auto;
        qb2p; exfalso; rewrite A3, B3 in E'; lra. }
    rewrite L1, L2, (Qltb_shift ty _ _ _ _ B1 A2), (Qltb_shift ty _ _ _ _ A1 B2).
    destruct (Qleb (getCentreY yb u) (getCentreY yb v) && Qltb (getMinY yb v) (getMaxY yb u)); [rewrite A2, B1; ring|].
    destruct (Qleb (getCentreY yb v) (getCentreY yb u) && Qltb (getMinY yb u) (getMaxY yb v)); [rewrite A1, B2; ring|].
    reflexivity.
  Qed.

  Lemma lenOf_translate f rs : (forall r, f (T r) == f r) -> forall i, lenOf f (map T rs) i == lenOf f rs i.
  Proof.
    intros H i. unfold lenOf. rewrite nth_error_map. destruct (nth_error rs i); cbn; [apply H | reflexivity].
  Qed.
  Lemma ovOf_translate f rs : (forall a b, f (T a) (T b) == f a b) -> forall u v, ovOf f (map T rs) u v == ovOf f rs u v.
  Proof.
    intros H u v. unfold ovOf. rewrite !nth_error_map.
    destruct (nth_error rs u), (nth_error rs v); cbn; try reflexivity. apply H.
  Qed.

  Lemma number_map {A B} (f : A -> B) l : number (map f l) = map (fun p => (fst p, f (snd p))) (number l).
  Proof.
    unfold number. rewrite map_length. generalize (seq 0 (length l)). induction l as [|a l IH]; intros s; destruct s; cbn; auto.
    now rewrite IH.
  Qed.
  Lemma flat_map_map {A B C} (g : A -> B) (f : B -> list C) l : flat_map f (map g l) = flat_map (fun x => f (g x)) l.
  Proof. induction l as [|a l IH]; cbn; auto. now rewrite IH. Qed.
  Lemma events_shift (mk : nat * rect -> list event) (mk' : nat * rect -> list event) t :
    (forall p, Forall2 (ev_shift t) (mk p) (mk' p)) ->
    forall l, Forall2 (ev_shift t) (flat_map mk l) (flat_map mk' l).
  Proof.
    intros H l. induction l as [|p l IH]; cbn; [constructor|].
    apply Forall2_app; auto.
  Qed.

  Lemma Forall2_map_r {A B} (R : A -> B -> Prop) (f : A -> B) l : (forall a, R a (f a)) -> Forall2 R l (map f l).
  Proof. intros H. induction l; cbn; constructor; auto. Qed.
  Lemma Forall2_weaken {A B} (R S : A -> B -> Prop) l l' : (forall a b, R a b -> S a b) -> Forall2 R l l' -> Forall2 S l l'.
  Proof. intros H F. induction F; constructor; auto. Qed.

  Lemma pos_shift (f : rect -> Q) t rs : (forall r, f (T r) == f r + t) ->
    Forall2 (fun p p' => p' == p + t) (map f rs) (map f (map T rs)).
  Proof. intro H. induction rs as [|r l IH]; cbn; constructor; auto. Qed.
  Lemma shift_sim_flip t l l' : Forall2 (ev_shift t) l l' -> Forall2 ev_sim l' l.
  Proof. intro H. induction H as [|a c l l' [[E1 E2] _] H IH]; constructor; auto. split; auto. Qed.

  Variable mklt : list Q -> nat -> nat -> bool.
  Hypothesis mklt_shift : shift_invariant mklt.
  Variables xb yb : Q.

  Theorem scanline_translate_X rs b :
    generateXConstraints mklt xb yb (map T rs) b = generateXConstraints mklt xb yb rs b.
  Proof.
    unfold generateXConstraints.
    assert (EV : Forall2 (ev_shift ty) (eventsX yb rs) (eventsX yb (map T rs))).
    { unfold eventsX. rewrite number_map, flat_map_map.
      apply events_shift. intros [i r]. cbn [fst snd].
      destruct (getters_translate xb yb r) as [_ [_ [A1 [A2 _]]]].
      repeat constructor; cbn; auto. }
    rewrite <- (Forall2_len _ _ _ EV).
    pose proof (msort_rel (ev_shift ty) compare_events compare_events (compare_events_shift ty)
                          (length (eventsX yb rs)) _ _ EV) as M.
    destruct (msort compare_events _ (eventsX yb rs)) as [s1|], (msort compare_events _ (eventsX yb (map T rs))) as [s2|];
      try contradiction; auto.
    assert (SIM : Forall2 ev_sim s2 s1) by (exact (shift_sim_flip _ _ _ M)).
    assert (PL : forall u v, mklt (posX xb (map T rs)) u v = mklt (posX xb rs) u v).
    { apply (mklt_shift tx). unfold posX. apply pos_shift. intro r.
      destruct (getters_translate xb yb r) as [_ [_ [_ [_ [_ [_ [A _]]]]]]]. exact A. }
    rewrite map_length. f_equal. f_equal. f_equal.
    destruct b.
    - rewrite (run_nbr_sim _ _ _ _ _ _ _ SIM).
      apply run_nbr_ext; auto.
      + apply lenOf_translate. intro r. destruct (getters_translate xb yb r) as [_ [_ [_ [_ [A _]]]]]. exact A.
      + apply ovOf_translate. apply overlapX_translate.
      + apply ovOf_translate. apply overlapY_translate.
    - rewrite (run_plain_sim _ _ _ _ _ SIM).
      apply run_plain_ext; auto.
      apply lenOf_translate. intro r. destruct (getters_translate xb yb r) as [_ [_ [_ [_ [A _]]]]]. exact A.
  Qed.

  Theorem scanline_translate_Y rs :
    generateYConstraints mklt xb yb (map T rs) = generateYConstraints mklt xb yb rs.
  Proof.
    unfold generateYConstraints.
    assert (EV : Forall2 (ev_shift tx) (eventsY xb rs) (eventsY xb (map T rs))).
    { unfold eventsY. rewrite number_map, flat_map_map.
      apply events_shift. intros [i r]. cbn [fst snd].
      destruct (getters_translate xb yb r) as [A1 [A2 _]].
      repeat constructor; cbn; auto. }
    rewrite <- (Forall2_len _ _ _ EV).
    pose proof (msort_rel (ev_shift tx) compare_events compare_events (compare_events_shift tx)
                          (length (eventsY xb rs)) _ _ EV) as M.
    destruct (msort compare_events _ (eventsY xb rs)) as [s1|], (msort compare_events _ (eventsY xb (map T rs))) as [s2|];
      try contradiction; auto.
    assert (SIM : Forall2 ev_sim s2 s1) by (exact (shift_sim_flip _ _ _ M)).
    assert (PL : forall u v, mklt (posY yb (map T rs)) u v = mklt (posY yb rs) u v).
    { apply (mklt_shift ty). unfold posY. apply pos_shift. intro r.
      destruct (getters_translate xb yb r) as [_ [_ [_ [_ [_ [_ [_ A]]]]]]]. exact A. }
    rewrite map_length. f_equal. f_equal. f_equal.
    rewrite (run_plain_sim _ _ _ _ _ SIM).
    apply run_plain_ext; auto.
    apply lenOf_translate. intro r. destruct (getters_translate xb yb r) as [_ [_ [_ [_ [_ [A _]]]]]]. exact A.
  Qed.
End Translate.

(* both tie-break variants, both generators *)
Theorem scanline_translate tx ty addr ids xb yb rs :
  (forall b, generateXConstraints (cmp_node_pos_addr addr) xb yb (map (rect_translate tx ty) rs) b =
             generateXConstraints (cmp_node_pos_addr addr) xb yb rs b) /\
  generateYConstraints (cmp_node_pos_addr addr) xb yb (map (rect_translate tx ty) rs) =
  generateYConstraints (cmp_node_pos_addr addr) xb yb rs /\
  (forall b, generateXConstraints (cmp_node_pos_id ids addr) xb yb (map (rect_translate tx ty) rs) b =
             generateXConstraints (cmp_node_pos_id ids addr) xb yb rs b) /\
  generateYConstraints (cmp_node_pos_id ids addr) xb yb (map (rect_translate tx ty) rs) =
  generateYConstraints (cmp_node_pos_id ids addr) xb yb rs.
Proof.
  repeat split; intros.
  - apply scanline_translate_X, cmp_addr_shift.
  - apply scanline_translate_Y, cmp_addr_shift.
  - apply scanline_translate_X, cmp_id_shift.
  - apply scanline_translate_Y, cmp_id_shift.
Qed.

Example scanline_translate_example :
  generateXConstraints (cmp_node_pos_addr (fun i => i)) 0 0
    (map (rect_translate (7 # 2) (-3)) [mkrect 0 4 0 2; mkrect 1 3 1 5; mkrect 2 6 0 1]) false =
  Some [mkc 1 2 3; mkc 0 1 3].
Proof. vm_compute. reflexivity. Qed.
