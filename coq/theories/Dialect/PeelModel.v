(* C19 model (no proofs in this file): dialect::peel (cola/libdialect/peeling.cpp:168-217) with the Graph methods it
   uses (graphs.cpp: severNodeNotingNeighbours, removeNodes, isEmpty, getConnComps) and NodeBuckets / Stem /
   identifyRootNode (peeling.cpp:40-166), on simple graphs given as a node list (ascending ids, the iteration order of
   the NodesById maps) and an edge list over nat.  Plus the verified checkers that are run on the real outputs. *)
From Coq Require Import List Arith Bool Lia.
Import ListNotations.

Definition edge := (nat * nat)%type.
Record graph := mkG { g_nodes : list nat; g_edges : list edge }.

Definition mem (v : nat) (l : list nat) : bool := existsb (Nat.eqb v) l.
Definition incident (v : nat) (e : edge) : bool := Nat.eqb (fst e) v || Nat.eqb (snd e) v.
Definition other_end (v : nat) (e : edge) : nat := if Nat.eqb (fst e) v then snd e else fst e.   (* Edge::getOtherEnd *)
Definition degree (es : list edge) (v : nat) : nat := length (filter (incident v) es).            (* Node::getDegree *)

(* NodeBuckets::takeLeaves: the bucket of degree-1 nodes, in id order.  (The buckets are kept up to date by
   severNodes/moveNode; the model recomputes the degrees instead - the correspondence checks that this agrees.) *)
Definition leaves (g : graph) : list nat := filter (fun v => Nat.eqb (degree (g_edges g) v) 1) (g_nodes g).

(* makeStemsFromLeaves: Stem(leaf, root) for each leaf in id order; root = the other end of its one edge *)
Definition stem := (nat * nat)%type.          (* (leaf, root) *)
Definition stem_of (es : list edge) (l : nat) : list stem :=
  match filter (incident l) es with
  | e :: _ => [(l, other_end l e)]
  | [] => []
  end.
Definition make_stems (es : list edge) (ls : list nat) : list stem := flat_map (stem_of es) ls.

(* NodeBuckets::severNodes: drop the incident edges, then Graph::removeNodes *)
Definition sever (g : graph) (ls : list nat) : graph :=
  mkG (filter (fun v => negb (mem v ls)) (g_nodes g))
      (filter (fun e => negb (mem (fst e) ls) && negb (mem (snd e) ls)) (g_edges g)).

Inductive result (A : Type) : Type := Ok (a : A) | OutOfFuel | AssertFailed.
Arguments Ok {A} a.
Arguments OutOfFuel {A}.
Arguments AssertFailed {A}.

(* the while loop of peel(): returns the core and all stems in the order they are added to H.
   AssertFailed = COLA_ASSERT(stems.size() == 2) in the G.isEmpty() branch *)
Fixpoint peel_rounds (fuel : nat) (g : graph) (stems : list stem) : result (graph * list stem) :=
  match fuel with
  | O => OutOfFuel
  | S f =>
    match leaves g with
    | [] => Ok (g, stems)
    | ls =>
      let st := make_stems (g_edges g) ls in
      let g' := sever g ls in
      match g_nodes g' with
      | [] => if Nat.eqb (length st) 2 then peel_rounds f g' (stems ++ removelast st) else AssertFailed
      | _ => peel_rounds f g' (stems ++ st)
      end
    end
  end.

(* ---- H: the workspace graph built by Stem::addSelfToGraph, with the tree serial numbers ---- *)
Fixpoint lookup (v : nat) (m : list (nat * nat)) : option nat :=
  match m with
  | [] => None
  | (k, x) :: r => if Nat.eqb k v then Some x else lookup v r
  end.
Fixpoint update (v x : nat) (m : list (nat * nat)) : list (nat * nat) :=
  match m with
  | [] => [(v, x)]
  | (k, y) :: r => if Nat.eqb k v then (k, x) :: r else (k, y) :: update v x r
  end.
(* serial numbers: association node -> serial, and the next free serial *)
Record hstate := mkH { h_serial : list (nat * nat); h_next : nat; h_edges : list edge }.
Definition h_empty : hstate := mkH [] 0 [].
Definition h_touch (v : nat) (h : hstate) : hstate :=          (* allocate a PeeledNode if H does not have it *)
  match lookup v (h_serial h) with
  | Some _ => h
  | None => mkH (h_serial h ++ [(v, h_next h)]) (S (h_next h)) (h_edges h)
  end.
Definition h_add_stem (h : hstate) (s : stem) : hstate :=
  let h1 := h_touch (fst s) h in
  let h2 := h_touch (snd s) h1 in
  (* tree_root->updateSerialNumber(); H.addEdge(Edge::allocate(tree_root, tree_leaf)) *)
  mkH (update (snd s) (h_next h2) (h_serial h2)) (S (h_next h2)) (h_edges h2 ++ [(snd s, fst s)]).
Definition build_h (stems : list stem) : hstate := fold_left h_add_stem stems h_empty.

(* ---- Graph::getConnComps: explore from the smallest remaining node until nothing is left ---- *)
Definition neighbours (es : list edge) (v : nat) : list nat := map (other_end v) (filter (incident v) es).

Fixpoint explore (fuel : nat) (es : list edge) (work seen : list nat) : option (list nat) :=
  match fuel with
  | O => None
  | S f =>
    match work with
    | [] => Some seen
    | v :: w => if mem v seen then explore f es w seen else explore f es (neighbours es v ++ w) (v :: seen)
    end
  end.
(* enough for any run: every step either consumes a work item or adds a node *)
Definition explore_fuel (ns : list nat) (es : list edge) : nat := S (S (length ns) * S (2 * length es)).

Fixpoint conncomps (fuel : nat) (es : list edge) (remaining : list nat) : option (list (list nat)) :=
  match fuel with
  | O => None
  | S f =>
    match remaining with
    | [] => Some []
    | v :: r =>
      match explore (explore_fuel (v :: r) es) es [v] [] with
      | None => None
      | Some c =>
        match conncomps f es (filter (fun u => negb (mem u c)) r) with
        | None => None
        | Some cs => Some (c :: cs)
        end
      end
    end
  end.

Fixpoint insert_sorted (v : nat) (l : list nat) : list nat :=
  match l with
  | [] => [v]
  | x :: r => if Nat.leb v x then v :: l else x :: insert_sorted v r
  end.
Definition sort_nat (l : list nat) : list nat := fold_right insert_sorted [] l.

Definition get_conncomps (g : graph) : option (list (list nat)) :=
  conncomps (S (length (g_nodes g))) (g_edges g) (g_nodes g).

(* ---- identifyRootNode: the node of the component with the largest serial number (>= in id order) ---- *)
Definition serial_of (h : hstate) (v : nat) : nat := match lookup v (h_serial h) with Some x => x | None => 0 end.
Definition identify_root (h : hstate) (comp : list nat) : nat :=
  fst (fold_left (fun acc v => if Nat.leb (snd acc) (serial_of h v) then (v, serial_of h v) else acc)
                 (sort_nat comp) (0, 0)).

Record tree := mkT { t_root : nat; t_nodes : list nat; t_edges : list edge }.

Definition edges_within (es : list edge) (c : list nat) : list edge :=
  filter (fun e => mem (fst e) c && mem (snd e) c) es.

(* peel(): fuel is for the rounds (one more than the number of nodes always suffices) *)
Definition peel (g : graph) : result (graph * list tree) :=
  match peel_rounds (S (length (g_nodes g))) g [] with
  | Ok (core, stems) =>
    let h := build_h stems in
    let hnodes := sort_nat (map fst (h_serial h)) in
    match conncomps (S (length hnodes)) (h_edges h) hnodes with
    | None => OutOfFuel
    | Some comps =>
      Ok (core, map (fun c => mkT (identify_root h c) c (edges_within (h_edges h) c)) comps)
    end
  | OutOfFuel => OutOfFuel
  | AssertFailed => AssertFailed
  end.

(* ---- checkers run on real outputs ---- *)
Fixpoint nodupb (l : list nat) : bool :=
  match l with [] => true | x :: r => negb (mem x r) && nodupb r end.
Definition inclb (a b : list nat) : bool := forallb (fun x => mem x b) a.
Definition same_setb (a b : list nat) : bool := inclb a b && inclb b a.

Definition norm_edge (e : edge) : edge := if Nat.leb (fst e) (snd e) then e else (snd e, fst e).
Definition edge_eqb (a b : edge) : bool := Nat.eqb (fst a) (fst b) && Nat.eqb (snd a) (snd b).
Definition emem (e : edge) (l : list edge) : bool := existsb (edge_eqb (norm_edge e)) (map norm_edge l).
Fixpoint enodupb (l : list edge) : bool :=
  match l with [] => true | x :: r => negb (emem x r) && enodupb r end.
Definition einclb (a b : list edge) : bool := forallb (fun x => emem x b) a.

(* simple graph: distinct nodes, edges between distinct nodes of the graph, no parallel edges (either orientation) *)
Definition simple_graphb (g : graph) : bool :=
  nodupb (g_nodes g) &&
  forallb (fun e => mem (fst e) (g_nodes g) && mem (snd e) (g_nodes g) && negb (Nat.eqb (fst e) (snd e))) (g_edges g) &&
  enodupb (g_edges g).

(* connected: exploring from the first node reaches every node *)
Definition connectedb (ns : list nat) (es : list edge) : bool :=
  match ns with
  | [] => true
  | v :: _ => match explore (explore_fuel ns es) es [v] [] with
              | Some c => inclb ns c
              | None => false
              end
  end.

Definition tree_okb (t : tree) : bool :=
  nodupb (t_nodes t) && mem (t_root t) (t_nodes t) &&
  forallb (fun e => mem (fst e) (t_nodes t) && mem (snd e) (t_nodes t) && negb (Nat.eqb (fst e) (snd e))) (t_edges t) &&
  enodupb (t_edges t) &&
  connectedb (t_nodes t) (t_edges t) &&
  Nat.eqb (S (length (t_edges t))) (length (t_nodes t)).

Definition nonroot (t : tree) : list nat := filter (fun v => negb (Nat.eqb v (t_root t))) (t_nodes t).

(* the conditions of property C19 for peel *)
Definition peel_okb (g core : graph) (trees : list tree) : bool :=
  forallb tree_okb trees &&
  simple_graphb core &&
  (* nodes: core + non-root tree nodes (all tree nodes when the core is empty) partition the input nodes *)
  (let parts := match g_nodes core with
                | [] => flat_map t_nodes trees
                | _ => g_nodes core ++ flat_map nonroot trees
                end in
   nodupb parts && same_setb parts (g_nodes g)) &&
  (* roots are core nodes (unless the core is empty) *)
  (match g_nodes core with [] => true | _ => forallb (fun t => mem (t_root t) (g_nodes core)) trees end) &&
  (* edges: core edges + tree edges partition the input edges *)
  (let eparts := g_edges core ++ flat_map t_edges trees in
   enodupb eparts && einclb eparts (g_edges g) && einclb (g_edges g) eparts) &&
  (* the core has no node of degree one *)
  forallb (fun v => negb (Nat.eqb (degree (g_edges core) v) 1)) (g_nodes core).

(* the conditions for getConnComps: components given as node lists *)
Definition conncomps_okb (g : graph) (comps : list (list nat)) : bool :=
  nodupb (concat comps) && same_setb (concat comps) (g_nodes g) &&
  forallb (fun c => connectedb c (edges_within (g_edges g) c)) comps &&
  forallb (fun e => existsb (fun c => mem (fst e) c && mem (snd e) c) comps) (g_edges g).
