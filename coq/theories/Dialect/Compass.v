(* libdialect Compass (ortho.cpp): theorems about the Gallina definitions that tools/cpp2v.py regenerates from
   Compass::cardinalDirection(Point,Point) and Compass::compassDirection(Point,Point) on every run (Gen/Compass.v).
   HOLA's tree placement, chain routing and the orthogonal hub routing read every direction between two nodes
   through these two functions.  Directions are the enumerators of CompassDir as integers (EAST 0, SOUTH 1,
   WEST 2, NORTH 3, SE 4, SW 5, NW 6, NE 7); y grows downwards (SOUTH = increasing y).
   The `throw std::runtime_error` of compassDirection for coincident points is translated as a recorded
   precondition (compassDirection_asserts_ok, path-sensitive: true iff the call returns); it is proved equivalent
   to `distinct`, the hypothesis every statement about compassDirection below carries. *)
From Coq Require Import ZArith QArith Lqa Lia.
From Adapt Require Dialect.SepPairModel.
From Adapt Require Import Num.Qaux Gen.Compass.
Local Open Scope Q_scope.

Definition ddx (p0 p1 : pt) : Q := px p1 - px p0.
Definition ddy (p0 p1 : pt) : Q := py p1 - py p0.
Definition distinct (p0 p1 : pt) : Prop := ~ ddx p0 p1 == 0 \/ ~ ddy p0 p1 == 0.

(* flip of a cardinal direction (Compass::flip restricted to the cardinals) and of a compass direction *)
Definition card_flip (d : Z) : Z := ((d + 2) mod 4)%Z.
Definition compass_flip (d : Z) : Z := if (d <? 4)%Z then ((d + 2) mod 4)%Z else (4 + (d - 4 + 2) mod 4)%Z.

Ltac unf := unfold cardinalDirection, compassDirection, EAST, SOUTH, WEST, NORTH, SE, SW, NW, NE, Qabs', ddx, ddy in *.
Ltac conjs := repeat match goal with H : _ /\ _ |- _ => destruct H end.
Ltac cases := unfold inject_Z in *; repeat qcase; qb2p.

(* declarative meaning of cardinalDirection: the dominant axis (ties go to x), the sign along it *)
Theorem cardinalDirection_spec p0 p1 :
  let dx := ddx p0 p1 in let dy := ddy p0 p1 in
  (cardinalDirection p0 p1 = 0%Z <-> Qabs dy <= Qabs dx /\ 0 < dx) /\
  (cardinalDirection p0 p1 = 2%Z <-> Qabs dy <= Qabs dx /\ dx <= 0) /\
  (cardinalDirection p0 p1 = 1%Z <-> Qabs dx < Qabs dy /\ 0 < dy) /\
  (cardinalDirection p0 p1 = 3%Z <-> Qabs dx < Qabs dy /\ dy < 0).
Proof.
  cbv zeta. unfold cardinalDirection, EAST, SOUTH, WEST, NORTH, ddx, ddy.
  rewrite !Qabs'_Qabs. unfold inject_Z.
  set (dx := px p1 - px p0). set (dy := py p1 - py p0).
  destruct (Qlt_le_dec dx 0) as [sx|sx]; [rewrite !(Qabs_neg dx) by lra | rewrite !(Qabs_pos dx) by lra];
  (destruct (Qlt_le_dec dy 0) as [sy|sy]; [rewrite !(Qabs_neg dy) by lra | rewrite !(Qabs_pos dy) by lra]);
  repeat qcase; qb2p; repeat split; intros; conjs;
    try discriminate; try reflexivity; try lra; exfalso; lra.
Qed.

Theorem cardinalDirection_range p0 p1 : (0 <= cardinalDirection p0 p1 < 4)%Z.
Proof. unf. cases; lia. Qed.

(* reversing the pair flips the direction - unless the points coincide, where both calls answer WEST *)
Theorem cardinalDirection_antisym p0 p1 : distinct p0 p1 ->
  cardinalDirection p1 p0 = card_flip (cardinalDirection p0 p1).
Proof.
  unfold distinct, card_flip. unf. intros H.
  cases; try reflexivity; exfalso; destruct H as [H|H]; apply H; lra.
Qed.

Theorem cardinalDirection_coincident p : cardinalDirection p p = 2%Z.
Proof. unf. cases; try reflexivity; exfalso; lra. Qed.

Theorem cardinalDirection_translate p0 p1 t :
  cardinalDirection (pt_add p0 t) (pt_add p1 t) = cardinalDirection p0 p1.
Proof.
  unf. unfold pt_add. cbn [px py]. cases; try reflexivity; exfalso; lra.
Qed.

(* compassDirection on distinct points: the exact sign pattern *)
Theorem compassDirection_spec p0 p1 : distinct p0 p1 ->
  let dx := ddx p0 p1 in let dy := ddy p0 p1 in
  let d := compassDirection p0 p1 in
  (d = 0%Z <-> dy == 0 /\ 0 < dx) /\ (d = 2%Z <-> dy == 0 /\ dx < 0) /\
  (d = 1%Z <-> dx == 0 /\ 0 < dy) /\ (d = 3%Z <-> dx == 0 /\ dy < 0) /\
  (d = 4%Z <-> 0 < dx /\ 0 < dy) /\ (d = 5%Z <-> dx < 0 /\ 0 < dy) /\
  (d = 6%Z <-> dx < 0 /\ dy < 0) /\ (d = 7%Z <-> 0 < dx /\ dy < 0).
Proof.
  unfold distinct. cbv zeta. unf. intros H.
  cases; repeat split; intros; try discriminate; try reflexivity; try lra;
    try (exfalso; destruct H as [H|H]; apply H; lra).
Qed.

Theorem compassDirection_antisym p0 p1 : distinct p0 p1 ->
  compassDirection p1 p0 = compass_flip (compassDirection p0 p1).
Proof.
  unfold distinct, compass_flip. unf. intros H.
  cases; try reflexivity; exfalso; try (destruct H as [H|H]; apply H; lra); lra.
Qed.

(* the two functions agree whenever the compass direction is cardinal, and otherwise the cardinal direction is one
   of the two components of the compass direction (Compass::cardinalComponents: SE = {S,E}, SW = {S,W}, NW = {N,W},
   NE = {N,E}) *)
Theorem compass_cardinal_consistent p0 p1 : distinct p0 p1 ->
  let c := compassDirection p0 p1 in let k := cardinalDirection p0 p1 in
  ((c < 4)%Z -> k = c) /\
  (c = 4%Z -> k = 1%Z \/ k = 0%Z) /\ (c = 5%Z -> k = 1%Z \/ k = 2%Z) /\
  (c = 6%Z -> k = 3%Z \/ k = 2%Z) /\ (c = 7%Z -> k = 3%Z \/ k = 0%Z).
Proof.
  unfold distinct. cbv zeta. unf. intros H.
  cases; repeat split; intros; try discriminate; try lia; auto;
    try (exfalso; try (destruct H as [H|H]; apply H; lra); lra).
Qed.

(* the contract of the code: compassDirection returns (does not throw) exactly on distinct points *)
Theorem compassDirection_returns_iff_distinct p0 p1 :
  compassDirection_asserts_ok p0 p1 = true <-> distinct p0 p1.
Proof.
  unfold compassDirection_asserts_ok, distinct, ddx, ddy. unfold inject_Z.
  set (dx := px p1 - px p0). set (dy := py p1 - py p0).
  destruct (Qeqb dx 0) eqn:Ex, (Qeqb dy 0) eqn:Ey; cbn [andb negb]; qb2p;
    try (destruct (Qgtb dx 0)); split; intros H; try discriminate; try reflexivity; try tauto.
Qed.

(* ---- the cardinal predicates of ortho.h (isHorizontalCard, isVerticalCard, isIncreasingCard, isDecreasingCard, sameDimension,
   arePerpendicular), translated too: their algebra on the four cardinals, and their meaning on a computed direction *)
Definition is_card (d : Z) : Prop := (0 <= d < 4)%Z.
Lemma is_card_cases d : is_card d -> d = 0%Z \/ d = 1%Z \/ d = 2%Z \/ d = 3%Z.
Proof. unfold is_card. lia. Qed.
Ltac card_cases d H := destruct (is_card_cases d H) as [?|[?|[?|?]]]; subst d.

Theorem card_predicates_algebra d0 d1 : is_card d0 -> is_card d1 ->
  arePerpendicular d0 d1 = negb (sameDimension d0 d1) /\
  sameDimension d0 d0 = true /\ sameDimension d0 (card_flip d0) = true /\
  sameDimension d0 d1 = sameDimension d1 d0 /\
  isHorizontalCard d0 = negb (isVerticalCard d0) /\ isIncreasingCard d0 = negb (isDecreasingCard d0) /\
  (sameDimension d0 d1 = true <-> isHorizontalCard d0 = isHorizontalCard d1) /\
  isIncreasingCard (card_flip d0) = isDecreasingCard d0 /\ isHorizontalCard (card_flip d0) = isHorizontalCard d0 /\
  is_card (card_flip d0) /\ card_flip (card_flip d0) = d0.
Proof.
  intros H0 H1. card_cases d0 H0; card_cases d1 H1; vm_compute; repeat split; intros; try reflexivity; try discriminate; try lia.
Qed.

(* the compass versions agree with the cardinal ones on cardinals and are false on the four diagonals *)
Theorem compass_predicates_on_cardinals d : is_card d ->
  isHorizontal d = isHorizontalCard d /\ isVertical d = isVerticalCard d /\
  isIncreasing d = isIncreasingCard d /\ isDecreasing d = isDecreasingCard d.
Proof. intros H. card_cases d H; vm_compute; repeat split. Qed.

Theorem compass_predicates_on_diagonals d : (4 <= d < 8)%Z ->
  isHorizontal d = false /\ isVertical d = false /\ isIncreasing d = false /\ isDecreasing d = false.
Proof.
  intros H. assert (C : d = 4%Z \/ d = 5%Z \/ d = 6%Z \/ d = 7%Z) by lia.
  destruct C as [?|[?|[?|?]]]; subst d; vm_compute; repeat split.
Qed.

(* meaning on a computed direction: horizontal iff x dominates (ties included), increasing iff the dominant delta is positive *)
Theorem cardinalDirection_predicates p0 p1 :
  let dx := ddx p0 p1 in let dy := ddy p0 p1 in let k := cardinalDirection p0 p1 in
  (isHorizontalCard k = true <-> Qabs dy <= Qabs dx) /\
  (isVerticalCard k = true <-> Qabs dx < Qabs dy) /\
  (isIncreasingCard k = true <-> (Qabs dy <= Qabs dx /\ 0 < dx) \/ (Qabs dx < Qabs dy /\ 0 < dy)).
Proof.
  cbv zeta. destruct (cardinalDirection_spec p0 p1) as (E & W & S & N).
  pose proof (cardinalDirection_range p0 p1) as R.
  destruct (is_card_cases _ R) as [K|[K|[K|K]]]; rewrite K; vm_compute isHorizontalCard; vm_compute isVerticalCard; vm_compute isIncreasingCard;
    [apply E in K | apply S in K | apply W in K | apply N in K]; destruct K as [K1 K2];
    repeat split; intros; try discriminate; try reflexivity; try lra; try tauto;
    try (match goal with H : _ \/ _ |- _ => destruct H as [[? ?]|[? ?]]; lra end).
Qed.

(* link to C18's hand-written model (Dialect/SepPairModel.v, tied to the compiled SepMatrix / Compass::cardFlip by C18's correspondence):
   card_flip used in the statements above is that model's cardFlip under the enumerator numbering *)
Definition card_to_Z (d : Adapt.Dialect.SepPairModel.CardinalDir) : Z :=
  match d with
  | Adapt.Dialect.SepPairModel.CEAST => 0 | Adapt.Dialect.SepPairModel.CSOUTH => 1
  | Adapt.Dialect.SepPairModel.CWEST => 2 | Adapt.Dialect.SepPairModel.CNORTH => 3
  end%Z.
Theorem card_flip_is_model_cardFlip d :
  card_to_Z (Adapt.Dialect.SepPairModel.cardFlip d) = card_flip (card_to_Z d) /\ is_card (card_to_Z d).
Proof. destruct d; vm_compute; repeat split; intros; discriminate. Qed.

(* Compass::vectorSigns (a `switch`, translated as a chain of ifs) applied to a computed compass direction gives the signs of (dx, dy) *)
Definition sgnQ (x : Q) : Q := if Qltb 0 x then 1 else if Qltb x 0 then -1 else 0.
Theorem vectorSigns_of_compassDirection p0 p1 : distinct p0 p1 ->
  let v := vectorSigns (compassDirection p0 p1) in
  px v == sgnQ (ddx p0 p1) /\ py v == sgnQ (ddy p0 p1).
Proof.
  unfold distinct, sgnQ. cbv zeta. unfold vectorSigns. unf. intros H.
  cases; cbn; split; try reflexivity; try lra; exfalso; try (destruct H as [H|H]; apply H; lra); lra.
Qed.

Example compass_nonvacuous :
  distinct (mkpt 0 0) (mkpt 3 (-1)) /\ cardinalDirection (mkpt 0 0) (mkpt 3 (-1)) = 0%Z /\
  compassDirection (mkpt 0 0) (mkpt 3 (-1)) = 7%Z /\ cardinalDirection (mkpt 1 1) (mkpt 1 5) = 1%Z.
Proof. unfold distinct, ddx, ddy; cbn. repeat split; try reflexivity. left. intros H. discriminate H. Qed.
