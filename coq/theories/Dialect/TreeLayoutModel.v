(* C19, symmetric tree layout (V part): the declarative condition "no two tree nodes are placed on top of each other"
   for the output of Tree::symmetricLayout (cola/libdialect/trees.cpp:151-360) and its executable checker.
   No proofs in this file (it is extracted); the checker is proved sound and complete in Dialect/TreeLayout.v.
   A node is its axis-parallel box, given by centre and dimensions as libdialect stores it (Node::getCentre,
   Node::getDimensions). *)
From Adapt Require Import Num.Qaux.
Local Open Scope Q_scope.

Record box := mkBox { bid : Z; bx0 : Q; bx1 : Q; by0 : Q; by1 : Q }.

Definition box_of_centre (id : Z) (cx cy w h : Q) : box :=
  mkBox id (cx - (1 # 2) * w) (cx + (1 # 2) * w) (cy - (1 # 2) * h) (cy + (1 # 2) * h).

(* p is strictly inside the box *)
Definition inside (b : box) (p : pt) : Prop :=
  bx0 b < px p /\ px p < bx1 b /\ by0 b < py p /\ py p < by1 b.

(* two boxes lie on top of each other: they share an interior point (= their intersection has positive area) *)
Definition boxes_overlap (a b : box) : Prop := exists p, inside a p /\ inside b p.

(* the layout condition: node ids are distinct and no two different nodes overlap *)
Definition tree_layout_spec (bs : list box) : Prop :=
  NoDup (map bid bs) /\
  forall a b, In a bs -> In b bs -> bid a <> bid b -> ~ boxes_overlap a b.

(* ---- checker *)
Definition boxes_overlap_b (a b : box) : bool :=
  Qltb (bx0 a) (bx1 a) && Qltb (bx0 b) (bx1 b) && Qltb (bx0 a) (bx1 b) && Qltb (bx0 b) (bx1 a) &&
  Qltb (by0 a) (by1 a) && Qltb (by0 b) (by1 b) && Qltb (by0 a) (by1 b) && Qltb (by0 b) (by1 a).

Fixpoint znodupb (l : list Z) : bool :=
  match l with [] => true | x :: r => negb (existsb (Z.eqb x) r) && znodupb r end.

Definition tree_layout_ok (bs : list box) : bool :=
  znodupb (map bid bs) &&
  forallb (fun a => forallb (fun b => Z.eqb (bid a) (bid b) || negb (boxes_overlap_b a b)) bs) bs.

(* diagnosis: the overlapping pairs (each unordered pair once, in list order) *)
Fixpoint overlapping_pairs (bs : list box) : list (Z * Z) :=
  match bs with
  | [] => []
  | a :: r => map (fun b => (bid a, bid b)) (filter (fun b => negb (Z.eqb (bid a) (bid b)) && boxes_overlap_b a b) r)
              ++ overlapping_pairs r
  end.
