(* C14: the node-padding arithmetic of dialect::doHOLA (cola/libdialect/hola.cpp), over exact rationals.

   hola.cpp:75-78     IEL = G.getIEL();  nodePadding = holaOpts.nodePaddingScalar*IEL;  G.padAllNodes(nodePadding, nodePadding);
   graphs.cpp:346-356 computeAvgNodeDim: s = sum over nodes of (w + h), n = 2 * #nodes, returns s/n
   graphs.cpp:606-614 getIEL -> autoInferIEL: m_iel = 2*computeAvgNodeDim()
   nodes.cpp:103-106  Node::addPadding(dw, dh): m_w += dw; m_h += dh      (the centre is untouched)
   hola.cpp:114       whole-graph-is-a-tree path: G.padAllNodes(-nodePadding, -nodePadding)
   hola.cpp:196-200   preRoutingGap = 0.125*IEL; core->padAllNodes(+gap); destress; core->padAllNodes(-gap)
   hola.cpp:418-420   nodePaddingLayer1 = 2*preRoutingGapIELScalar*nodePadding; nodePaddingLayer2 = nodePadding - nodePaddingLayer1;
                      core->padAllNodes(-layer1)                       (core nodes are shared with G)
   hola.cpp:425-426   per tree: underlyingGraph()->padAllNodes(-layer1)  (the tree's own ghost copies)
                      tree->padCorrespNonRootNodes(G, -layer1, -layer1)  (G's nodes of the tree except its root,
                                                                         which is a core node and was done above)
   hola.cpp:438       G.padAllNodes(-nodePaddingLayer2, -nodePaddingLayer2)

   This file contains the model and its theorems (it is a few lines; nothing is extracted from the proofs).
   What is NOT modelled: that every node of G is either a core node or a non-root node of exactly one tree
   (that is the peel partition, property C19) and binary64 rounding (the real sizes come back within a few ulp;
   the checker compares sizes with tolerance 1e-6). *)
From Coq Require Import QArith List Lia Lqa Psatz.
Import ListNotations.
Local Open Scope Q_scope.

Definition dims := (Q * Q)%type.      (* (width, height) *)
Definition dims_eq (a b : dims) : Prop := fst a == fst b /\ snd a == snd b.

(* Graph::computeAvgNodeDim / autoInferIEL; an empty graph never reaches this code (doHOLA returns when
   there are no edges), the division by 0 is Coq's x/0 = 0 *)
Definition sum_dims (sizes : list dims) : Q := fold_left (fun s d => s + (fst d + snd d)) sizes 0.
Definition avg_node_dim (sizes : list dims) : Q := sum_dims sizes / inject_Z (2 * Z.of_nat (length sizes)).
Definition iel (sizes : list dims) : Q := 2 * avg_node_dim sizes.

(* hola.cpp:77 *)
Definition node_padding (scalar : Q) (sizes : list dims) : Q := scalar * iel sizes.
(* hola.cpp:196,418,419 *)
Definition preRoutingGapIELScalar : Q := 1 # 8.
Definition pre_routing_gap (sizes : list dims) : Q := preRoutingGapIELScalar * iel sizes.
Definition layer1 (np : Q) : Q := 2 * preRoutingGapIELScalar * np.
Definition layer2 (np : Q) : Q := np - layer1 np.

(* Node::addPadding *)
Definition add_padding (d : Q) (wh : dims) : dims := (fst wh + d, snd wh + d).

(* the padAllNodes / padCorrespNonRootNodes calls that reach one node of G, in program order *)
Inductive node_role := WholeTree | CoreNode | TreeNonRoot.
Definition pad_script (scalar : Q) (sizes : list dims) (r : node_role) : list Q :=
  let np := node_padding scalar sizes in
  match r with
  | WholeTree   => [np; - np]
  | CoreNode    => [np; pre_routing_gap sizes; - pre_routing_gap sizes; - layer1 np; - layer2 np]
  | TreeNonRoot => [np; - layer1 np; - layer2 np]
  end.
Definition run_pads (script : list Q) (wh : dims) : dims := fold_left (fun d p => add_padding p d) script wh.

(* the amount the checker's "within the documented padding" tolerance is derived from: nodePadding is added
   to the WIDTH and HEIGHT, so every side of the box moves outward by half of it; connector ends are
   computed on boxes that still carry the whole padding (tree path) or layer 2 of it (core path). *)
Definition padding_value (scalar : Q) (sizes : list dims) : Q := node_padding scalar sizes.
Definition padding_per_side (scalar : Q) (sizes : list dims) : Q := (1 # 2) * padding_value scalar sizes.

Lemma layers_sum np : layer1 np + layer2 np == np.
Proof. unfold layer2. ring. Qed.

Lemma layer_values np : layer1 np == (1 # 4) * np /\ layer2 np == (3 # 4) * np.
Proof. unfold layer2, layer1, preRoutingGapIELScalar. split; ring. Qed.

Lemma layer2_le_padding np : 0 <= np -> 0 <= layer2 np /\ layer2 np <= np.
Proof. intro H. destruct (layer_values np) as [_ E]. rewrite E. split; lra. Qed.

Lemma run_pads_sum script wh :
  dims_eq (run_pads script wh) (fst wh + fold_right Qplus 0 script, snd wh + fold_right Qplus 0 script).
Proof.
  revert wh. induction script as [|p r IH]; intros [w h]; unfold dims_eq, run_pads in *.
  - cbn [fold_left fold_right fst snd]. split; ring.
  - cbn [fold_left fold_right]. specialize (IH (add_padding p (w, h))). destruct IH as [A B].
    rewrite A, B. unfold add_padding. cbn [fst snd]. split; ring.
Qed.

Lemma pad_script_sum scalar sizes r : fold_right Qplus 0 (pad_script scalar sizes r) == 0.
Proof.
  destruct r; cbn [pad_script fold_right]; set (np := node_padding scalar sizes); unfold layer2; ring.
Qed.

(* the "sizes preserved" mechanism: whichever path a node takes, inflate followed by the two (or one)
   deflation layers is the identity on widths and heights *)
Theorem padding_roundtrip scalar sizes r wh :
  dims_eq (run_pads (pad_script scalar sizes r) wh) wh.
Proof.
  destruct (run_pads_sum (pad_script scalar sizes r) wh) as [A B]. cbn [fst snd] in A, B.
  pose proof (pad_script_sum scalar sizes r) as S.
  split; [rewrite A | rewrite B]; rewrite S; ring.
Qed.

(* during the final routing a core/tree node is the original box inflated by layer2/2 per side, which is within
   padding_per_side; in the whole-tree path it is inflated by exactly padding_per_side *)
Definition at_final_routing (scalar : Q) (sizes : list dims) (r : node_role) (wh : dims) : dims :=
  let np := node_padding scalar sizes in
  match r with
  | WholeTree => run_pads [np] wh
  | CoreNode => run_pads [np; pre_routing_gap sizes; - pre_routing_gap sizes; - layer1 np] wh
  | TreeNonRoot => run_pads [np; - layer1 np] wh
  end.

Theorem routing_inflation_within_padding scalar sizes r wh :
  0 <= scalar -> 0 <= iel sizes ->
  let d := at_final_routing scalar sizes r wh in
  0 <= (1 # 2) * (fst d - fst wh) <= padding_per_side scalar sizes /\
  0 <= (1 # 2) * (snd d - snd wh) <= padding_per_side scalar sizes /\
  fst d - fst wh == snd d - snd wh.
Proof.
  intros Hs Hi d. unfold d, at_final_routing, padding_per_side, padding_value.
  set (np := node_padding scalar sizes).
  assert (Hnp : 0 <= np) by (unfold np, node_padding; nra).
  destruct (layer_values np) as [E1 _].
  destruct r.
  - destruct (run_pads_sum [np] wh) as [A B]. cbn [fst snd fold_right] in A, B. rewrite A, B.
    repeat split; try lra.
  - destruct (run_pads_sum [np; pre_routing_gap sizes; - pre_routing_gap sizes; - layer1 np] wh) as [A B].
    cbn [fst snd fold_right] in A, B. rewrite A, B. rewrite E1. repeat split; try lra.
  - destruct (run_pads_sum [np; - layer1 np] wh) as [A B]. cbn [fst snd fold_right] in A, B. rewrite A, B. rewrite E1.
    repeat split; try lra.
Qed.

(* IEL = (sum of all widths and heights) / #nodes, the closed form the checker and the harness use *)
Lemma iel_closed_form sizes : sizes <> [] ->
  iel sizes == sum_dims sizes / inject_Z (Z.of_nat (length sizes)).
Proof.
  intro H. unfold iel, avg_node_dim.
  assert (L : (0 < length sizes)%nat) by (destruct sizes; [congruence | cbn; lia]).
  assert (N : ~ inject_Z (Z.of_nat (length sizes)) == 0).
  { unfold inject_Z, Qeq. cbn. lia. }
  rewrite Nat2Z.inj_mul || idtac.
  assert (E : inject_Z (2 * Z.of_nat (length sizes)) == 2 * inject_Z (Z.of_nat (length sizes))).
  { rewrite inject_Z_mult. reflexivity. }
  rewrite E. field. exact N.
Qed.

(* non-vacuity: three nodes 30x40, 50x20, 20x20; IEL = 180/3 = 60; nodePadding = 15; layers 15/4 and 45/4 *)
Example padding_example :
  let sizes := [(30, 40); (50, 20); (20, 20)] in
  iel sizes == 60 /\ padding_value (1 # 4) sizes == 15 /\ padding_per_side (1 # 4) sizes == 15 # 2 /\
  layer1 15 == 15 # 4 /\ layer2 15 == 45 # 4 /\
  dims_eq (at_final_routing (1 # 4) sizes CoreNode (30, 40)) (30 + (45 # 4), 40 + (45 # 4)) /\
  dims_eq (run_pads (pad_script (1 # 4) sizes CoreNode) (30, 40)) (30, 40).
Proof. cbv. repeat split; reflexivity. Qed.
