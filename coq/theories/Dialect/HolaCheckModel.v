(* C14 MODEL FILE (definitions only; the proofs are in HolaCheck.v).
   C14: the output conditions of dialect::doHOLA stated declaratively (Prop) and a Gallina checker
   `hola_ok T scalar before after : bool` proved SOUND and COMPLETE for them.

   There is no model of the HOLA pipeline in this development (~18 kLOC, no small logic core; DESIGN 5.14).
   What is proved here is only that the oracle which checks/c14.py runs on the real outputs of doHOLA decides
   exactly the conditions written below, for every pair of drawings and every tolerance setting.  With all
   tolerances 0 the conditions are the property's text; the check uses the tolerances the property/DESIGN name
   (sizes 1e-6, overlap 1e-6, axis-parallel 1e-9 - measured drift of the library is 3e-14 -, padding from
   HolaPadding.padding_per_side + 1e-6, separation constraints 1e-4).

   A node is stored as its bounding box (x0,x1,y0,y1); `node_of_centre` builds it from the (centre, width,
   height) that Node::getCentre()/getDimensions() return, and `ncx/ncy/nw/nh` recover them exactly over Q.
   Segment/rectangle predicates are the parametrised-point ones of Geom/GeomSpec.v (`lerp`).
   The meaning of a SepPair is Dialect/SepPairModel.v `holds` (C18); `holds_tol` below adds the tolerance and is
   proved equal to it at tolerance 0 (`holds_tol_zero`). *)
From Coq Require Import Permutation.
From Adapt Require Import Num.Qaux Num.SignedZero Geom.GeomSpec Dialect.SepPairModel Dialect.HolaPadding.
Local Open Scope Q_scope.

(* ------------------------------------------------------------------------------------------- data *)
Record node := mkNode { nid : Z; nx0 : Q; nx1 : Q; ny0 : Q; ny1 : Q }.
Record edge := mkEdge { esrc : Z; etgt : Z; eroute : list pt }.
Record sepc := mkSepc { ssrc : Z; stgt : Z; spair : SepPair }.
Record drawing := mkDrawing { dnodes : list node; dedges : list edge; dseps : list sepc; dextra : Q }.
Record tols := mkTols { t_size : Q; t_ovl : Q; t_par : Q; t_end : Q; t_thru : Q; t_sep : Q }.

Definition nw (n : node) : Q := nx1 n - nx0 n.
Definition nh (n : node) : Q := ny1 n - ny0 n.
Definition ncx (n : node) : Q := (1 # 2) * (nx0 n + nx1 n).
Definition ncy (n : node) : Q := (1 # 2) * (ny0 n + ny1 n).

Definition node_of_centre (id : Z) (cx cy w h : Q) : node :=
  mkNode id (Qred (cx - (1 # 2) * w)) (Qred (cx + (1 # 2) * w)) (Qred (cy - (1 # 2) * h)) (Qred (cy + (1 # 2) * h)).

(* consecutive point pairs of a route *)
Fixpoint segs (r : list pt) : list (pt * pt) :=
  match r with
  | p :: ((q :: _) as t) => (p, q) :: segs t
  | _ => []
  end.

(* ------------------------------------------------------------------------------ declarative conditions *)
Definition ids (d : drawing) : list Z := map nid (dnodes d).
Definition ekey (e : edge) : Z * Z := (esrc e, etgt e).

(* 1. same node ids (and they identify nodes) *)
Definition same_nodes (b a : drawing) : Prop := NoDup (ids b) /\ Permutation (ids b) (ids a).
(* 2. same multiset of edges as (source id, target id) pairs *)
Definition same_edges (b a : drawing) : Prop := Permutation (map ekey (dedges b)) (map ekey (dedges a)).

(* 3. every node keeps its width and height (up to t) *)
Definition close (t x y : Q) : Prop := x - y <= t /\ y - x <= t.
Definition sizes_kept (t : Q) (b a : drawing) : Prop :=
  forall n n', In n (dnodes b) -> In n' (dnodes a) -> nid n = nid n' ->
               close t (nw n) (nw n') /\ close t (nh n) (nh n').

(* 4. no two node rectangles overlap: there is no point strictly inside both rectangles shrunk by t/2 per side
   (t = 0: no common interior point, i.e. no positive-area intersection) *)
Definition strictly_in (d : Q) (n : node) (p : pt) : Prop :=
  nx0 n + d < px p /\ px p < nx1 n - d /\ ny0 n + d < py p /\ py p < ny1 n - d.
Definition overlap_by (t : Q) (n1 n2 : node) : Prop :=
  exists p, strictly_in ((1 # 2) * t) n1 p /\ strictly_in ((1 # 2) * t) n2 p.
Definition no_overlap (t : Q) (a : drawing) : Prop :=
  forall n1 n2, In n1 (dnodes a) -> In n2 (dnodes a) -> nid n1 <> nid n2 -> ~ overlap_by t n1 n2.

(* 5. routes *)
Definition axis_par (t : Q) (p q : pt) : Prop := close t (px p) (px q) \/ close t (py p) (py q).
Definition in_box (d : Q) (n : node) (p : pt) : Prop :=
  nx0 n - d <= px p /\ px p <= nx1 n + d /\ ny0 n - d <= py p /\ py p <= ny1 n + d.
(* the closed segment pq contains a point strictly inside the rectangle shrunk by t *)
Definition seg_through (t : Q) (p q : pt) (n : node) : Prop :=
  exists s, 0 <= s /\ s <= 1 /\ strictly_in t n (lerp p q s).

Definition ends_ok (pad : Q) (a : drawing) (e : edge) : Prop :=
  exists ns nt, In ns (dnodes a) /\ In nt (dnodes a) /\ nid ns = esrc e /\ nid nt = etgt e /\
    ((in_box pad ns (hd pt0 (eroute e)) /\ in_box pad nt (last (eroute e) pt0)) \/
     (in_box pad nt (hd pt0 (eroute e)) /\ in_box pad ns (last (eroute e) pt0))).

Definition route_ok (T : tols) (pad : Q) (a : drawing) (e : edge) : Prop :=
  (2 <= length (eroute e))%nat /\
  (forall s, In s (segs (eroute e)) -> axis_par (t_par T) (fst s) (snd s)) /\
  ends_ok pad a e /\
  (forall n s, In n (dnodes a) -> nid n <> esrc e -> nid n <> etgt e -> In s (segs (eroute e)) ->
               ~ seg_through (t_thru T) (fst s) (snd s) n).
Definition routes_ok (T : tols) (pad : Q) (a : drawing) : Prop := forall e, In e (dedges a) -> route_ok T pad a e.

(* 6. the returned separation constraints hold for the returned centres and sizes *)
Definition holds_dim_tol (extra t : Q) (st : SepType) (gt : GapType) (g : sgap) (cs ct ws wt : Q) : Prop :=
  match st with
  | NONE => True
  | _ =>
    let c1 := if sneg g then ct else cs in
    let w1 := if sneg g then wt else ws in
    let c2 := if sneg g then cs else ct in
    let w2 := if sneg g then ws else wt in
    let dist := match gt with CENTRE => c2 - c1 | BDRY => (c2 - w2 / 2) - (c1 + w1 / 2) end in
    let need := match gt with CENTRE => smag g | BDRY => smag g + extra end in
    match st with EQ => close t dist need | _ => need - t <= dist end
  end.
Definition holds_tol (extra t : Q) (p : place) (sp : SepPair) : Prop :=
  holds_dim_tol extra t (xst sp) (xgt sp) (xgap sp) (p_sx p) (p_tx p) (p_sw p) (p_tw p) /\
  holds_dim_tol extra t (yst sp) (ygt sp) (ygap sp) (p_sy p) (p_ty p) (p_sh p) (p_th p).
Definition place_of (ns nt : node) : place := mkPl (ncx ns) (ncy ns) (ncx nt) (ncy nt) (nw ns) (nh ns) (nw nt) (nh nt).
Definition seps_ok (t : Q) (a : drawing) : Prop :=
  forall s, In s (dseps a) ->
    exists ns nt, In ns (dnodes a) /\ In nt (dnodes a) /\ nid ns = ssrc s /\ nid nt = stgt s /\
                  holds_tol (dextra a) t (place_of ns nt) (spair s).

(* the padding tolerance: half of nodePadding per side (HolaPadding), from the sizes BEFORE the call, + t_end *)
Definition sizes_of (d : drawing) : list dims := map (fun n => (nw n, nh n)) (dnodes d).
Definition pad_of (T : tols) (scalar : Q) (b : drawing) : Q := Qred (padding_per_side scalar (sizes_of b) + t_end T).

Definition hola_spec (T : tols) (scalar : Q) (b a : drawing) : Prop :=
  same_nodes b a /\ same_edges b a /\ sizes_kept (t_size T) b a /\ no_overlap (t_ovl T) a /\
  routes_ok T (pad_of T scalar b) a /\ seps_ok (t_sep T) a.

(* --------------------------------------------------------------------------------------- the checker *)
Fixpoint nodupb (l : list Z) : bool :=
  match l with [] => true | x :: r => negb (existsb (Z.eqb x) r) && nodupb r end.
Definition zz_eq_dec (a b : Z * Z) : {a = b} + {a <> b}.
Proof. decide equality; apply Z.eq_dec. Defined.
Definition permb {A} (dec : forall x y : A, {x = y} + {x <> y}) (l1 l2 : list A) : bool :=
  forallb (fun x => Nat.eqb (count_occ dec l1 x) (count_occ dec l2 x)) (l1 ++ l2).

Definition same_nodes_b (b a : drawing) : bool := nodupb (ids b) && permb Z.eq_dec (ids b) (ids a).
Definition same_edges_b (b a : drawing) : bool := permb zz_eq_dec (map ekey (dedges b)) (map ekey (dedges a)).

Definition closeb (t x y : Q) : bool := Qleb (x - y) t && Qleb (y - x) t.
Definition sizes_kept_b (t : Q) (b a : drawing) : bool :=
  forallb (fun n => forallb (fun n' => if Z.eqb (nid n) (nid n')
                                       then closeb t (nw n) (nw n') && closeb t (nh n) (nh n') else true)
                            (dnodes a)) (dnodes b).

Definition overlapb (t : Q) (n1 n2 : node) : bool :=
  Qltb (nx0 n1 + t) (nx1 n1) && Qltb (nx0 n2 + t) (nx1 n2) && Qltb (nx0 n1 + t) (nx1 n2) && Qltb (nx0 n2 + t) (nx1 n1) &&
  Qltb (ny0 n1 + t) (ny1 n1) && Qltb (ny0 n2 + t) (ny1 n2) && Qltb (ny0 n1 + t) (ny1 n2) && Qltb (ny0 n2 + t) (ny1 n1).
Definition no_overlap_b (t : Q) (a : drawing) : bool :=
  forallb (fun n1 => forallb (fun n2 => Z.eqb (nid n1) (nid n2) || negb (overlapb t n1 n2)) (dnodes a)) (dnodes a).

Definition axis_par_b (t : Q) (p q : pt) : bool := closeb t (px p) (px q) || closeb t (py p) (py q).
Definition in_box_b (d : Q) (n : node) (p : pt) : bool :=
  Qleb (nx0 n - d) (px p) && Qleb (px p) (nx1 n + d) && Qleb (ny0 n - d) (py p) && Qleb (py p) (ny1 n + d).

(* Liang-Barsky: the parameters s with lo < a + s*d < hi as an open interval; None = no s at all;
   when d == 0 and lo < a < hi every s qualifies, (-1, 2) stands for "all of [0,1]" *)
Definition slab (lo hi a d : Q) : option (Q * Q) :=
  if Qeqb d 0 then (if Qltb lo a && Qltb a hi then Some (- (1), 2) else None)
  else if Qltb 0 d then Some ((lo - a) / d, (hi - a) / d)
  else Some ((hi - a) / d, (lo - a) / d).
Definition rejectb (lo hi a b : Q) : bool := (Qleb a lo && Qleb b lo) || (Qleb hi a && Qleb hi b).
Definition seg_through_b (t : Q) (p q : pt) (n : node) : bool :=
  let xl := nx0 n + t in let xh := nx1 n - t in let yl := ny0 n + t in let yh := ny1 n - t in
  if rejectb xl xh (px p) (px q) || rejectb yl yh (py p) (py q) then false else
  match slab xl xh (px p) (px q - px p), slab yl yh (py p) (py q - py p) with
  | Some (L1, H1), Some (L2, H2) =>
      Qltb L1 H1 && Qltb L1 H2 && Qltb L2 H1 && Qltb L2 H2 && Qltb L1 1 && Qltb L2 1 && Qltb 0 H1 && Qltb 0 H2
  | _, _ => false
  end.

Definition ends_ok_b (pad : Q) (a : drawing) (e : edge) : bool :=
  let f := hd pt0 (eroute e) in let l := last (eroute e) pt0 in
  existsb (fun ns => existsb (fun nt =>
      Z.eqb (nid ns) (esrc e) && Z.eqb (nid nt) (etgt e) &&
      ((in_box_b pad ns f && in_box_b pad nt l) || (in_box_b pad nt f && in_box_b pad ns l)))
    (dnodes a)) (dnodes a).

Definition len_ok_b (e : edge) : bool := match eroute e with _ :: _ :: _ => true | _ => false end.
Definition par_ok_b (t : Q) (e : edge) : bool := forallb (fun s => axis_par_b t (fst s) (snd s)) (segs (eroute e)).
Definition thru_ok_b (t : Q) (a : drawing) (e : edge) : bool :=
  forallb (fun n => Z.eqb (nid n) (esrc e) || Z.eqb (nid n) (etgt e) ||
                    forallb (fun s => negb (seg_through_b t (fst s) (snd s) n)) (segs (eroute e))) (dnodes a).
Definition route_ok_b (T : tols) (pad : Q) (a : drawing) (e : edge) : bool :=
  len_ok_b e && par_ok_b (t_par T) e && ends_ok_b pad a e && thru_ok_b (t_thru T) a e.
Definition routes_ok_b (T : tols) (pad : Q) (a : drawing) : bool := forallb (route_ok_b T pad a) (dedges a).

Definition holds_dim_tolb (extra t : Q) (st : SepType) (gt : GapType) (g : sgap) (cs ct ws wt : Q) : bool :=
  match st with
  | NONE => true
  | _ =>
    let c1 := if sneg g then ct else cs in
    let w1 := if sneg g then wt else ws in
    let c2 := if sneg g then cs else ct in
    let w2 := if sneg g then ws else wt in
    let dist := match gt with CENTRE => c2 - c1 | BDRY => (c2 - w2 / 2) - (c1 + w1 / 2) end in
    let need := match gt with CENTRE => smag g | BDRY => smag g + extra end in
    match st with EQ => closeb t dist need | _ => Qleb (need - t) dist end
  end.
Definition holds_tolb (extra t : Q) (p : place) (sp : SepPair) : bool :=
  holds_dim_tolb extra t (xst sp) (xgt sp) (xgap sp) (p_sx p) (p_tx p) (p_sw p) (p_tw p) &&
  holds_dim_tolb extra t (yst sp) (ygt sp) (ygap sp) (p_sy p) (p_ty p) (p_sh p) (p_th p).
Definition sep_ok_b (t : Q) (a : drawing) (s : sepc) : bool :=
  existsb (fun ns => existsb (fun nt =>
      Z.eqb (nid ns) (ssrc s) && Z.eqb (nid nt) (stgt s) && holds_tolb (dextra a) t (place_of ns nt) (spair s))
    (dnodes a)) (dnodes a).
Definition seps_ok_b (t : Q) (a : drawing) : bool := forallb (sep_ok_b t a) (dseps a).

Definition hola_ok (T : tols) (scalar : Q) (b a : drawing) : bool :=
  same_nodes_b b a && same_edges_b b a && sizes_kept_b (t_size T) b a && no_overlap_b (t_ovl T) a &&
  routes_ok_b T (pad_of T scalar b) a && seps_ok_b (t_sep T) a.
