(* C18: the merge loops of SepMatrix::transformClosedSubset / transformOpenSubset (model: Dialect/SepSubsetModel.v,
   statement by statement after constraints.cpp:587-707) do exactly what constraints.h:282-295 promises, for EVERY
   sparse matrix and EVERY id set:
     transformClosedSubset  transforms the pair (i, j)  iff  BOTH i and j are in the set;
     transformOpenSubset    transforms the pair (i, j)  iff  AT LEAST ONE of i, j is in the set (not: exactly one);
   every other pair, the keys and their order are unchanged.
   Hypotheses = the container invariants: first ids strictly ascending (std::map), every row strictly ascending
   (std::map), the id set strictly ascending (std::set), and - for the closed variant only, which starts the inner
   scan at std::next(set_ptr1) - second id > first id (SepMatrix::getSepPair / setSepPair).
   The variant with the set iterator hoisted out of the second-pass loop (seeded change C18-5) is refuted. *)
From Adapt Require Import Num.Qaux Num.SignedZero Dialect.SepPairModel Dialect.SepSubsetModel.
Local Open Scope nat_scope.

(* ------------------------------------------------------------------ ascending lists, membership *)
Lemma ascb_inv a l : ascb (a :: l) = true -> ascb l = true /\ forall b, In b l -> a < b.
Proof.
  revert a. induction l as [|b t IH]; intros a H.
  - split; [reflexivity | intros b []].
  - cbn [ascb] in H. apply andb_true_iff in H. destruct H as [Hab Ht]. apply Nat.ltb_lt in Hab.
    split; [exact Ht|]. intros c [<- | Hc]; [exact Hab|].
    destruct (IH b Ht) as [_ Hb]. specialize (Hb c Hc). lia.
Qed.

Lemma ascb_NoDup l : ascb l = true -> NoDup l.
Proof.
  induction l as [|a t IH]; intro H; [constructor|].
  destruct (ascb_inv a t H) as [Ht Ha]. constructor; [|exact (IH Ht)].
  intro Hin. specialize (Ha a Hin). lia.
Qed.

Lemma mem_id_cons i a l : mem_id i (a :: l) = (i =? a) || mem_id i l.
Proof. reflexivity. Qed.

Lemma mem_id_In i l : mem_id i l = true <-> In i l.
Proof.
  unfold mem_id. rewrite existsb_exists. split.
  - intros [x [Hx E]]. apply Nat.eqb_eq in E. subst. exact Hx.
  - intro H. exists i. split; [exact H | apply Nat.eqb_refl].
Qed.

Lemma mem_id_below j l : (forall b, In b l -> j < b) -> mem_id j l = false.
Proof.
  intro H. destruct (mem_id j l) eqn:E; [|reflexivity].
  apply mem_id_In in E. specialize (H j E). lia.
Qed.

(* dropping a set element smaller than the id asked for *)
Lemma mem_id_drop i a l : a < i -> mem_id i (a :: l) = mem_id i l.
Proof. intro H. rewrite mem_id_cons. replace (i =? a) with false; [reflexivity|]. symmetry. apply Nat.eqb_neq. lia. Qed.

Lemma mem_id_filter (P : nat -> bool) i l : mem_id i (filter P l) = P i && mem_id i l.
Proof.
  induction l as [|a t IH]; [cbn; rewrite andb_false_r; reflexivity|].
  cbn [filter]. destruct (i =? a) eqn:E.
  - apply Nat.eqb_eq in E. subst a. destruct (P i) eqn:EP.
    + rewrite !mem_id_cons, Nat.eqb_refl. reflexivity.
    + rewrite IH, ?EP. reflexivity.
  - destruct (P a); rewrite ?mem_id_cons, ?E, IH; reflexivity.
Qed.

Lemma filter_all {X} (P : X -> bool) l : (forall x, In x l -> P x = true) -> filter P l = l.
Proof.
  induction l as [|a t IH]; intro H; [reflexivity|]. cbn [filter]. rewrite (H a (or_introl eq_refl)).
  f_equal. apply IH. intros x Hx. apply H. right. exact Hx.
Qed.

Section Proofs.
  Variable A : Type.
  Variable f : A -> A.
  Notation srow := (srow A).
  Notation smat2 := (smat2 A).
  Notation scan_row := (scan_row A f).
  Notation smap := (smap A f).

  (* ---------------------------------------------------------------- unfolding equations of the nested loops *)
  Lemma scan_row_nil s : scan_row [] s = ([], s).
  Proof. reflexivity. Qed.
  Lemma scan_row_end j sp row : scan_row ((j, sp) :: row) [] = ((j, sp) :: row, []).
  Proof. reflexivity. Qed.
  Lemma scan_row_step j sp row b s :
    scan_row ((j, sp) :: row) (b :: s) =
    if b <? j then scan_row ((j, sp) :: row) s
    else let (r, s2) := scan_row row (b :: s) in ((j, if j =? b then f sp else sp) :: r, s2).
  Proof. reflexivity. Qed.

  Lemma closed_loop_end i row m : closed_loop A f ((i, row) :: m) [] = (i, row) :: m.
  Proof. reflexivity. Qed.
  Lemma closed_loop_step i row m a s :
    closed_loop A f ((i, row) :: m) (a :: s) =
    if a <? i then closed_loop A f ((i, row) :: m) s
    else (i, if i =? a then fst (scan_row row s) else row) :: closed_loop A f m (a :: s).
  Proof. reflexivity. Qed.

  Lemma open_pass1a_end i row m : open_pass1a A f ((i, row) :: m) [] = ([], [], (i, row) :: m).
  Proof. reflexivity. Qed.
  Lemma open_pass1a_step i row m a s :
    open_pass1a A f ((i, row) :: m) (a :: s) =
    if a <? i then open_pass1a A f ((i, row) :: m) s
    else let '(visited, out, rest) := open_pass1a A f m (a :: s) in
         if i =? a then ((i, map_row A f row) :: visited, out, rest)
         else ((i, row) :: visited, i :: out, rest).
  Proof. reflexivity. Qed.

  (* ---------------------------------------------------------------- the row scan *)
  Definition row_spec (P : nat -> bool) (row : srow) : srow :=
    map (fun e => (fst e, if P (fst e) then f (snd e) else snd e)) row.

  Lemma row_spec_ext_in P Q row : (forall e, In e row -> P (fst e) = Q (fst e)) -> row_spec P row = row_spec Q row.
  Proof. intro H. apply map_ext_in. intros e He. rewrite (H e He). reflexivity. Qed.

  Lemma row_spec_false P row : (forall e, In e row -> P (fst e) = false) -> row_spec P row = row.
  Proof.
    intro H. unfold row_spec. rewrite <- (map_id row) at 2. apply map_ext_in. intros [j x] He.
    rewrite (H _ He). reflexivity.
  Qed.

  Lemma row_spec_true P row : (forall e, In e row -> P (fst e) = true) -> row_spec P row = map_row A f row.
  Proof. intro H. apply map_ext_in. intros e He. rewrite (H e He). reflexivity. Qed.

  (* a row whose keys ascend, scanned against an ascending set suffix: exactly the cells whose key is in the suffix *)
  Lemma scan_row_fst row : forall s, ascb (map fst row) = true -> ascb s = true ->
    fst (scan_row row s) = row_spec (fun j => mem_id j s) row.
  Proof.
    induction row as [|[j sp] row IH]; intros s Hr Hs; [reflexivity|].
    cbn [map fst] in Hr. destruct (ascb_inv _ _ Hr) as [Hr' Hj].
    induction s as [|b s IHs].
    - rewrite scan_row_end. cbn [fst]. symmetry. apply row_spec_false. reflexivity.
    - destruct (ascb_inv _ _ Hs) as [Hs' Hb]. rewrite scan_row_step. destruct (b <? j) eqn:E.
      + apply Nat.ltb_lt in E. rewrite (IHs Hs'). apply row_spec_ext_in. intros e He.
        symmetry. apply mem_id_drop. destruct He as [<- | He]; [exact E|].
        cbn [fst]. specialize (Hj (fst e) (in_map fst _ _ He)). lia.
      + apply Nat.ltb_ge in E. specialize (IH (b :: s) Hr' Hs).
        destruct (scan_row row (b :: s)) as [r s2]. cbn [fst] in IH |- *. rewrite IH.
        unfold row_spec at 2. cbn [map fst snd]. f_equal. f_equal.
        rewrite mem_id_cons. destruct (j =? b) eqn:Ejb; [reflexivity|].
        apply Nat.eqb_neq in Ejb. rewrite mem_id_below; [reflexivity|].
        intros c Hc. specialize (Hb c Hc). lia.
  Qed.

  (* ---------------------------------------------------------------- smap *)
  Lemma smap_ext_in P Q (m : smat2) :
    (forall r e, In r m -> In e (snd r) -> P (fst r) (fst e) = Q (fst r) (fst e)) -> smap P m = smap Q m.
  Proof.
    intro H. apply map_ext_in. intros r Hr. cbn beta. f_equal. apply map_ext_in. intros e He.
    cbn beta. f_equal. exact (f_equal (fun b : bool => if b then f (snd e) else snd e) (H r e Hr He)).
  Qed.

  Lemma smap_cons P i row (m : smat2) : smap P ((i, row) :: m) = (i, row_spec (P i) row) :: smap P m.
  Proof. reflexivity. Qed.

  Lemma smap_false P (m : smat2) :
    (forall r e, In r m -> In e (snd r) -> P (fst r) (fst e) = false) -> smap P m = m.
  Proof.
    intro H. induction m as [|[i row] m IH]; [reflexivity|]. rewrite smap_cons. f_equal.
    - f_equal. apply row_spec_false. intros e He. exact (H (i, row) e (or_introl eq_refl) He).
    - apply IH. intros r e Hr He. exact (H r e (or_intror Hr) He).
  Qed.

  Lemma keys_smap P (m : smat2) : map fst (smap P m) = map fst m.
  Proof. unfold SepSubsetModel.smap. rewrite map_map. reflexivity. Qed.

  Lemma upperb_inv i row (m : smat2) : upperb ((i, row) :: m) = true ->
    (forall e, In e row -> i < fst e) /\ upperb m = true.
  Proof.
    unfold upperb. cbn [forallb fst snd]. intro H. apply andb_true_iff in H. destruct H as [H1 H2].
    split; [|exact H2]. intros e He. rewrite forallb_forall in H1. apply Nat.ltb_lt. exact (H1 e He).
  Qed.

  Lemma rows_ascb_inv i row (m : smat2) : rows_ascb ((i, row) :: m) = true ->
    ascb (map fst row) = true /\ rows_ascb m = true.
  Proof. unfold rows_ascb. cbn [forallb fst snd]. intro H. apply andb_true_iff in H. exact H. Qed.

  Lemma keys_ascb_inv i row (m : smat2) : keys_ascb ((i, row) :: m) = true ->
    keys_ascb m = true /\ forall r, In r m -> i < fst r.
  Proof.
    unfold keys_ascb. cbn [map fst]. intro H. destruct (ascb_inv _ _ H) as [H1 H2].
    split; [exact H1|]. intros r Hr. apply H2. apply in_map. exact Hr.
  Qed.

  (* ---------------------------------------------------------------- transformClosedSubset *)
  Lemma closed_loop_spec (m : smat2) : forall s,
    keys_ascb m = true -> rows_ascb m = true -> upperb m = true -> ascb s = true ->
    closed_loop A f m s = smap (fun i j => mem_id i s && mem_id j s) m.
  Proof.
    induction m as [|[i row] m IH]; intros s Hk Hr Hu Hs; [reflexivity|].
    destruct (keys_ascb_inv _ _ _ Hk) as [Hk' Hi]. destruct (rows_ascb_inv _ _ _ Hr) as [Hrow Hr'].
    destruct (upperb_inv _ _ _ Hu) as [Hup Hu'].
    induction s as [|a s IHs].
    - rewrite closed_loop_end. symmetry. apply smap_false. reflexivity.
    - destruct (ascb_inv _ _ Hs) as [Hs' Ha]. rewrite closed_loop_step. destruct (a <? i) eqn:E.
      + apply Nat.ltb_lt in E. rewrite (IHs Hs'). apply smap_ext_in. intros r e Hin He.
        assert (Hri : i <= fst r) by (destruct Hin as [<- | Hin]; [apply Nat.le_refl | specialize (Hi r Hin); lia]).
        assert (Hej : fst r < fst e).
        { pose proof Hu as Hu0. unfold upperb in Hu0. rewrite forallb_forall in Hu0. specialize (Hu0 r Hin).
          rewrite forallb_forall in Hu0. apply Nat.ltb_lt. exact (Hu0 e He). }
        rewrite !(mem_id_drop _ a s) by lia. reflexivity.
      + apply Nat.ltb_ge in E. rewrite smap_cons. f_equal.
        * f_equal. destruct (i =? a) eqn:Eia.
          -- apply Nat.eqb_eq in Eia. subst a. rewrite (scan_row_fst row s Hrow Hs').
             apply row_spec_ext_in. intros e He. specialize (Hup e He).
             rewrite mem_id_cons, Nat.eqb_refl. cbn [orb andb]. symmetry. apply mem_id_drop. exact Hup.
          -- apply Nat.eqb_neq in Eia. symmetry. apply row_spec_false. intros e He.
             rewrite mem_id_cons. replace (i =? a) with false by (symmetry; apply Nat.eqb_neq; exact Eia).
             rewrite mem_id_below; [reflexivity|]. intros c Hc. specialize (Ha c Hc). lia.
        * exact (IH (a :: s) Hk' Hr' Hu' Hs).
  Qed.

  (* ---------------------------------------------------------------- transformOpenSubset, first pass *)
  Definition pass1_rows (s : list nat) (m : smat2) : smat2 :=
    map (fun r => (fst r, if mem_id (fst r) s then map_row A f (snd r) else snd r)) m.

  Lemma open_pass1a_spec (m : smat2) : forall s, keys_ascb m = true -> ascb s = true ->
    let '(visited, out, rest) := open_pass1a A f m s in
    visited ++ rest = pass1_rows s m /\
    open_pass1b A out rest = filter (fun i => negb (mem_id i s)) (map fst m).
  Proof.
    induction m as [|[i row] m IH]; intros s Hk Hs; [split; reflexivity|].
    destruct (keys_ascb_inv _ _ _ Hk) as [Hk' Hi].
    induction s as [|a s IHs].
    - rewrite open_pass1a_end. unfold open_pass1b. cbn [app]. split.
      + unfold pass1_rows. rewrite <- (map_id ((i, row) :: m)) at 1. apply map_ext. intros [k r]. reflexivity.
      + symmetry. apply filter_all. reflexivity.
    - destruct (ascb_inv _ _ Hs) as [Hs' Ha]. rewrite open_pass1a_step. destruct (a <? i) eqn:E.
      + apply Nat.ltb_lt in E. specialize (IHs Hs').
        destruct (open_pass1a A f ((i, row) :: m) s) as [[visited out] rest]. destruct IHs as [H1 H2]. split.
        * rewrite H1. apply map_ext_in. intros r Hin.
          assert (Hri : i <= fst r) by (destruct Hin as [<- | Hin]; [apply Nat.le_refl | specialize (Hi r Hin); lia]).
          rewrite (mem_id_drop (fst r) a s) by lia. reflexivity.
        * rewrite H2. apply filter_ext_in. intros k Hin. apply in_map_iff in Hin. destruct Hin as [r [<- Hin]].
          assert (Hri : i <= fst r) by (destruct Hin as [<- | Hin]; [apply Nat.le_refl | specialize (Hi r Hin); lia]).
          rewrite (mem_id_drop (fst r) a s) by lia. reflexivity.
      + apply Nat.ltb_ge in E. specialize (IH (a :: s) Hk' Hs).
        destruct (open_pass1a A f m (a :: s)) as [[visited out] rest]. destruct IH as [H1 H2].
        unfold pass1_rows. cbn [map fst snd filter]. rewrite mem_id_cons. destruct (i =? a) eqn:Eia.
        * cbn [orb negb]. split; [cbn [app]; f_equal; exact H1 | exact H2].
        * apply Nat.eqb_neq in Eia. rewrite mem_id_below by (intros c Hc; specialize (Ha c Hc); lia).
          cbn [orb negb]. split; [cbn [app]; f_equal; exact H1|].
          unfold open_pass1b in *. cbn [app]. f_equal. exact H2.
  Qed.

  (* out_of_set only names keys of the map: `m_sparseLookup[i]` never inserts a row *)
  Lemma pass1_out_keys (m : smat2) s : keys_ascb m = true -> ascb s = true ->
    let '(visited, out, rest) := open_pass1a A f m s in
    forall i, In i (open_pass1b A out rest) -> In i (map fst (visited ++ rest)).
  Proof.
    intros Hk Hs. pose proof (open_pass1a_spec m s Hk Hs) as H.
    destruct (open_pass1a A f m s) as [[visited out] rest]. destruct H as [H1 H2].
    intros i Hi. rewrite H2 in Hi. apply filter_In in Hi. destruct Hi as [Hi _].
    rewrite H1. unfold pass1_rows. rewrite map_map. exact Hi.
  Qed.

  (* ---------------------------------------------------------------- second pass *)
  Lemma set_row_absent i r (m : smat2) : ~ In i (map fst m) -> set_row A i r m = m.
  Proof.
    induction m as [|[k row] m IH]; intro H; [reflexivity|]. cbn [set_row].
    destruct (k =? i) eqn:E.
    - apply Nat.eqb_eq in E. subst k. exfalso. apply H. left. reflexivity.
    - f_equal. apply IH. intro Hin. apply H. right. exact Hin.
  Qed.

  Lemma set_get_row (g : srow -> srow) i (m : smat2) : NoDup (map fst m) ->
    set_row A i (g (get_row A i m)) m = map (fun r => (fst r, if fst r =? i then g (snd r) else snd r)) m.
  Proof.
    induction m as [|[k row] m IH]; intro H; [reflexivity|].
    cbn [map fst] in H. inversion H as [|? ? Hk Hnd]; subst.
    cbn [set_row get_row map fst snd]. destruct (k =? i) eqn:E.
    - apply Nat.eqb_eq in E. subst k. f_equal.
      rewrite <- (map_id m) at 1. apply map_ext_in. intros [k r] Hin. cbn [fst snd].
      replace (k =? i) with false; [reflexivity|]. symmetry. apply Nat.eqb_neq. intro; subst k.
      apply Hk. apply (in_map fst) in Hin. exact Hin.
    - f_equal. exact (IH Hnd).
  Qed.

  Lemma open_pass2_spec ids : forall out (m : smat2), NoDup out -> NoDup (map fst m) ->
    open_pass2 A f ids out m =
    map (fun r => (fst r, if mem_id (fst r) out then fst (scan_row (snd r) ids) else snd r)) m.
  Proof.
    induction out as [|i out IH]; intros m Ho Hm.
    - cbn [open_pass2]. rewrite <- (map_id m) at 1. apply map_ext. intros [k r]. reflexivity.
    - inversion Ho as [|? ? Hi Ho']; subst. cbn [open_pass2].
      rewrite (set_get_row (fun r => fst (scan_row r ids)) i m Hm).
      rewrite IH; [|exact Ho' | rewrite map_map; exact Hm].
      rewrite map_map. apply map_ext. intros [k r]. cbn [fst snd]. rewrite mem_id_cons.
      destruct (k =? i) eqn:E; [|reflexivity]. apply Nat.eqb_eq in E. subst k.
      replace (mem_id i out) with false; [reflexivity|]. symmetry.
      destruct (mem_id i out) eqn:Em; [|reflexivity]. apply mem_id_In in Em. contradiction.
  Qed.

  (* ---------------------------------------------------------------- the cells *)
  Lemma sm_get_smap P i j (m : smat2) :
    sm_get A i j (smap P m) = option_map (fun sp => if P i j then f sp else sp) (sm_get A i j m).
  Proof.
    unfold sm_get. induction m as [|[k row] m IH]; [reflexivity|].
    rewrite smap_cons. cbn [get_row]. destruct (k =? i) eqn:E; [|exact IH].
    apply Nat.eqb_eq in E. subst k. clear IH.
    induction row as [|[l x] row IHr]; [reflexivity|].
    cbn [row_spec map row_get fst snd]. destruct (l =? j) eqn:El; [|exact IHr].
    apply Nat.eqb_eq in El. subst l. reflexivity.
  Qed.

  (* ================================================================ the theorems *)
  (* BOTH i and j in the set <-> the cell (i, j) is transformed; all other cells, all keys and their order unchanged *)
  Theorem transformClosedSubset_spec ids (m : smat2) :
    keys_ascb m = true -> rows_ascb m = true -> upperb m = true -> ascb ids = true ->
    transformClosedSubset A f ids m = spec_closed A f ids m /\
    map fst (transformClosedSubset A f ids m) = map fst m /\
    forall i j, sm_get A i j (transformClosedSubset A f ids m) =
                option_map (fun sp => if mem_id i ids && mem_id j ids then f sp else sp) (sm_get A i j m).
  Proof.
    intros Hk Hr Hu Hs. assert (E : transformClosedSubset A f ids m = spec_closed A f ids m)
      by exact (closed_loop_spec m ids Hk Hr Hu Hs).
    rewrite E. unfold spec_closed. split; [reflexivity|]. split; [apply keys_smap|].
    intros i j. apply sm_get_smap.
  Qed.

  (* AT LEAST ONE of i, j in the set <-> the cell (i, j) is transformed; all other cells, keys and order unchanged *)
  Theorem transformOpenSubset_spec ids (m : smat2) :
    keys_ascb m = true -> rows_ascb m = true -> ascb ids = true ->
    transformOpenSubset A f ids m = spec_open A f ids m /\
    map fst (transformOpenSubset A f ids m) = map fst m /\
    forall i j, sm_get A i j (transformOpenSubset A f ids m) =
                option_map (fun sp => if mem_id i ids || mem_id j ids then f sp else sp) (sm_get A i j m).
  Proof.
    intros Hk Hr Hs. assert (E : transformOpenSubset A f ids m = spec_open A f ids m).
    { unfold transformOpenSubset. pose proof (open_pass1a_spec m ids Hk Hs) as H.
      destruct (open_pass1a A f m ids) as [[visited out] rest]. destruct H as [H1 H2]. rewrite H1, H2.
      assert (Hnd : NoDup (map fst m)) by (apply ascb_NoDup; exact Hk).
      rewrite open_pass2_spec;
        [| apply NoDup_filter; exact Hnd | unfold pass1_rows; rewrite map_map; exact Hnd].
      unfold pass1_rows, spec_open, SepSubsetModel.smap. rewrite map_map. apply map_ext_in.
      intros [i row] Hin. cbn [fst snd]. f_equal.
      rewrite mem_id_filter. replace (mem_id i (map fst m)) with true
        by (symmetry; apply mem_id_In; exact (in_map fst _ _ Hin)).
      rewrite andb_true_r. destruct (mem_id i ids) eqn:Ei; cbn [negb orb].
      - reflexivity.
      - assert (Hrow : ascb (map fst row) = true).
        { unfold rows_ascb in Hr. rewrite forallb_forall in Hr. exact (Hr (i, row) Hin). }
        exact (scan_row_fst row ids Hrow Hs). }
    rewrite E. unfold spec_open. split; [reflexivity|]. split; [apply keys_smap|].
    intros i j. apply sm_get_smap.
  Qed.
End Proofs.

(* membership as a proposition, to read the `if`s of the theorems: mem_id i ids = true <-> In i ids *)
Definition mem_id_iff_In := mem_id_In.

(* ------------------------------------------------------------------ the flat record model of SepPairModel.v *)
(* the declarative maps used by the op-sequence correspondence (m_transformClosedSubset / m_transformOpenSubset on record
   lists) are the same specification *)
Lemma sm_flat_smap tf P (m : smat2 SepPair) :
  sm_flat (smap SepPair (transform tf) P m) =
  map (fun e => if P (en_lo e) (en_hi e) then mkEn (en_lo e) (en_hi e) (transform tf (en_sp e)) (en_flip e) else e) (sm_flat m).
Proof.
  unfold sm_flat. induction m as [|[i row] m IH]; [reflexivity|].
  cbn [smap map flat_map fst snd]. rewrite map_app. f_equal; [|exact IH].
  rewrite !map_map. apply map_ext. intros [j x]. cbn [fst snd en_lo en_hi en_sp en_flip].
  destruct (P i j); reflexivity.
Qed.

Theorem spec_open_flat tf ids m : sm_flat (sm_spec_open tf ids m) = m_transformOpenSubset tf ids (sm_flat m).
Proof. exact (sm_flat_smap tf _ m). Qed.
Theorem spec_closed_flat tf ids m : sm_flat (sm_spec_closed tf ids m) = m_transformClosedSubset tf ids (sm_flat m).
Proof. exact (sm_flat_smap tf _ m). Qed.

(* the loops of the code compute the flat declarative model of the op-sequence correspondence *)
Theorem transformOpenSubset_flat tf ids m :
  keys_ascb m = true -> rows_ascb m = true -> ascb ids = true ->
  sm_flat (sm_transformOpenSubset tf ids m) = m_transformOpenSubset tf ids (sm_flat m).
Proof.
  intros Hk Hr Hs. unfold sm_transformOpenSubset.
  destruct (transformOpenSubset_spec SepPair (transform tf) ids m Hk Hr Hs) as [-> _]. apply spec_open_flat.
Qed.
Theorem transformClosedSubset_flat tf ids m :
  keys_ascb m = true -> rows_ascb m = true -> upperb m = true -> ascb ids = true ->
  sm_flat (sm_transformClosedSubset tf ids m) = m_transformClosedSubset tf ids (sm_flat m).
Proof.
  intros Hk Hr Hu Hs. unfold sm_transformClosedSubset.
  destruct (transformClosedSubset_spec SepPair (transform tf) ids m Hk Hr Hu Hs) as [-> _]. apply spec_closed_flat.
Qed.

(* ------------------------------------------------------------------ the hoisted set iterator (seeded change C18-5) *)
(* nodes A=0 < B=1 < C=2 < D=3, D SOUTH of A, C EAST of B, S = {C, D}: the row of A leaves the shared iterator at D, so the
   row of B never meets C; this holds for every one of the 7 transforms (FLIPH changes only the sign bit of the zero y gap
   of the pair (B, C), which the demo's TGLF text does not show: 6 of 7 there) *)
Theorem transformOpenSubset_hoisted_refuted :
  exists (m : smat2 SepPair) (ids : list nat),
    keys_ascb m = true /\ rows_ascb m = true /\ upperb m = true /\ ascb ids = true /\
    forall tf, sm_transformOpenSubset_hoisted tf ids m <> sm_spec_open tf ids m /\
               sm_get SepPair 1 2 (sm_transformOpenSubset_hoisted tf ids m) = sm_get SepPair 1 2 m /\
               sm_get SepPair 1 2 (sm_spec_open tf ids m) = option_map (transform tf) (sm_get SepPair 1 2 m) /\
               option_map (transform tf) (sm_get SepPair 1 2 m) <> sm_get SepPair 1 2 m.
Proof.
  exists abcd_m, abcd_ids. repeat split; try reflexivity; destruct tf; vm_compute; discriminate.
Qed.

(* the closed variant needs second id > first id: a cell stored below the diagonal is skipped *)
Theorem transformClosedSubset_lower_triangle_refuted :
  exists (m : smat2 SepPair) (ids : list nat) tf,
    keys_ascb m = true /\ rows_ascb m = true /\ ascb ids = true /\ upperb m = false /\
    sm_transformClosedSubset tf ids m <> sm_spec_closed tf ids m.
Proof.
  exists [(3, [(1, addSep CENTRE SOUTH INEQ (mkSg false 50) sp_default)])]%nat, [1; 3]%nat, ROTATE90CW.
  repeat split; try reflexivity. vm_compute. discriminate.
Qed.

(* ------------------------------------------------------------------ non-vacuity *)
(* five nodes; set {2, 3}: (0,1) touches no node of the set, (0,3) and (1,2) one, (2,3) both; an empty row (SepMatrix::free);
   a set element (7) that is no key.  Hypotheses hold, something is transformed, something is not, open <> closed. *)
Definition ex_sub_m : smat2 SepPair :=
  [ (0, [(1, addSep BDRY RIGHT INEQ (mkSg false 3) sp_default); (3, addSep CENTRE SOUTH INEQ (mkSg false 50) sp_default)]);
    (1, [(2, addSep CENTRE EAST INEQ (mkSg false 50) sp_default)]);
    (2, [(3, addSep BDRY UP EQ (mkSg false 2) sp_default)]);
    (4, []) ]%nat.
Definition ex_sub_ids : list nat := [2; 3; 7]%nat.

Example transformOpenSubset_spec_nonvacuous :
  keys_ascb ex_sub_m = true /\ rows_ascb ex_sub_m = true /\ upperb ex_sub_m = true /\ ascb ex_sub_ids = true /\
  sm_get SepPair 0 1 (sm_transformOpenSubset ROTATE90CW ex_sub_ids ex_sub_m) = sm_get SepPair 0 1 ex_sub_m /\
  sm_get SepPair 1 2 (sm_transformOpenSubset ROTATE90CW ex_sub_ids ex_sub_m) =
    option_map (transform ROTATE90CW) (sm_get SepPair 1 2 ex_sub_m) /\
  sm_get SepPair 1 2 (sm_transformOpenSubset ROTATE90CW ex_sub_ids ex_sub_m) <> sm_get SepPair 1 2 ex_sub_m /\
  sm_get SepPair 1 2 (sm_transformClosedSubset ROTATE90CW ex_sub_ids ex_sub_m) = sm_get SepPair 1 2 ex_sub_m /\
  sm_get SepPair 2 3 (sm_transformClosedSubset ROTATE90CW ex_sub_ids ex_sub_m) <> sm_get SepPair 2 3 ex_sub_m /\
  sm_transformOpenSubset ROTATE90CW abcd_ids abcd_m = sm_spec_open ROTATE90CW abcd_ids abcd_m /\
  sm_transformOpenSubset ROTATE90CW abcd_ids abcd_m <> abcd_m.
Proof. repeat split; try (vm_compute; reflexivity); vm_compute; discriminate. Qed.
