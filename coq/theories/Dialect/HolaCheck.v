(* C14: soundness and completeness of the verified oracle `hola_ok` (definitions: HolaCheckModel.v) for the
   declarative output conditions `hola_spec` of dialect::doHOLA, for every pair of drawings, every tolerance
   record and every padding scalar.  No hypothesis on the tolerances (they may be 0 or even negative).
   NOTHING here is about the HOLA pipeline itself: the implementation is sampled by checks/c14.py, which runs
   the extracted `hola_ok` on real doHOLA outputs. *)
From Coq Require Import Permutation.
From Adapt Require Import Num.Qaux Num.SignedZero Geom.GeomSpec Dialect.SepPairModel Dialect.HolaPadding.
From Adapt Require Export Dialect.HolaCheckModel.
Local Open Scope Q_scope.

Lemma node_of_centre_ok id cx cy w h :
  let n := node_of_centre id cx cy w h in
  nid n = id /\ ncx n == cx /\ ncy n == cy /\ nw n == w /\ nh n == h.
Proof.
  cbn. unfold ncx, ncy, nw, nh, node_of_centre; cbn [nx0 nx1 ny0 ny1]. rewrite !Qred_correct.
  repeat split; ring.
Qed.

(* ------------------------------------------------------------------------------------ list helpers *)
Lemma nodupb_spec l : nodupb l = true <-> NoDup l.
Proof.
  induction l as [|x r IH]; cbn [nodupb].
  - split; [constructor | reflexivity].
  - rewrite andb_true_iff, negb_true_iff, IH. split.
    + intros [H1 H2]. constructor; [|exact H2]. intro Hin.
      assert (existsb (Z.eqb x) r = true) by (apply existsb_exists; exists x; split; [exact Hin | apply Z.eqb_refl]).
      congruence.
    + intro H. inversion H as [|? ? Hn Hd]; subst. split; [|exact Hd].
      destruct (existsb (Z.eqb x) r) eqn:E; [|reflexivity].
      apply existsb_exists in E. destruct E as (y & Hy & Exy). apply Z.eqb_eq in Exy. subst. contradiction.
Qed.

Lemma permb_spec {A} (dec : forall x y : A, {x = y} + {x <> y}) l1 l2 :
  permb dec l1 l2 = true <-> Permutation l1 l2.
Proof.
  unfold permb. rewrite forallb_forall, (Permutation_count_occ dec). split.
  - intros H x. destruct (in_dec dec x (l1 ++ l2)) as [Hin|Hn].
    + apply Nat.eqb_eq, H, Hin.
    + assert (~ In x l1 /\ ~ In x l2) as [N1 N2] by (split; intro; apply Hn, in_or_app; auto).
      apply (count_occ_not_In dec) in N1, N2. congruence.
  - intros H x _. apply Nat.eqb_eq, H.
Qed.

Lemma closeb_spec t x y : closeb t x y = true <-> close t x y.
Proof. unfold closeb, close. rewrite andb_true_iff, !Qleb_spec. tauto. Qed.

(* ------------------------------------------------------------------------------- conditions 1, 2, 3 *)
Lemma same_nodes_b_spec b a : same_nodes_b b a = true <-> same_nodes b a.
Proof. unfold same_nodes_b, same_nodes. rewrite andb_true_iff, nodupb_spec, permb_spec. tauto. Qed.

Lemma same_edges_b_spec b a : same_edges_b b a = true <-> same_edges b a.
Proof. unfold same_edges_b, same_edges. apply permb_spec. Qed.

Lemma sizes_kept_b_spec t b a : sizes_kept_b t b a = true <-> sizes_kept t b a.
Proof.
  unfold sizes_kept_b, sizes_kept. rewrite forallb_forall. split.
  - intros H n n' Hn Hn' E. specialize (H n Hn). rewrite forallb_forall in H. specialize (H n' Hn').
    rewrite E, Z.eqb_refl, andb_true_iff, !closeb_spec in H. exact H.
  - intros H n Hn. apply forallb_forall. intros n' Hn'.
    destruct (Z.eqb (nid n) (nid n')) eqn:E; [|reflexivity]. apply Z.eqb_eq in E.
    rewrite andb_true_iff, !closeb_spec. exact (H n n' Hn Hn' E).
Qed.

(* --------------------------------------------------------------------------------- condition 4: overlap *)
(* an open interval (l1,h1) /\ (l2,h2) has a point iff every lower end is below every upper end *)
Lemma two_open_intervals l1 h1 l2 h2 :
  (exists x, l1 < x /\ x < h1 /\ l2 < x /\ x < h2) <-> (l1 < h1 /\ l2 < h2 /\ l1 < h2 /\ l2 < h1).
Proof.
  split.
  - intros (x & ? & ? & ? & ?). repeat split; lra.
  - intros (A & B & C & D).
    destruct (Qlt_le_dec l1 l2), (Qlt_le_dec h1 h2).
    + exists ((1 # 2) * (l2 + h1)). repeat split; lra.
    + exists ((1 # 2) * (l2 + h2)). repeat split; lra.
    + exists ((1 # 2) * (l1 + h1)). repeat split; lra.
    + exists ((1 # 2) * (l1 + h2)). repeat split; lra.
Qed.

Lemma overlapb_spec t n1 n2 : overlapb t n1 n2 = true <-> overlap_by t n1 n2.
Proof.
  unfold overlapb, overlap_by, strictly_in. rewrite !andb_true_iff, !Qltb_spec.
  pose proof (two_open_intervals (nx0 n1 + (1 # 2) * t) (nx1 n1 - (1 # 2) * t)
                                 (nx0 n2 + (1 # 2) * t) (nx1 n2 - (1 # 2) * t)) as HX.
  pose proof (two_open_intervals (ny0 n1 + (1 # 2) * t) (ny1 n1 - (1 # 2) * t)
                                 (ny0 n2 + (1 # 2) * t) (ny1 n2 - (1 # 2) * t)) as HY.
  split.
  - intros H.
    destruct HX as [_ HX], HY as [_ HY].
    destruct HX as (x & ? & ? & ? & ?); [repeat split; lra|].
    destruct HY as (y & ? & ? & ? & ?); [repeat split; lra|].
    exists (mkpt x y). cbn [px py]. tauto.
  - intros (p & (? & ? & ? & ?) & (? & ? & ? & ?)).
    destruct HX as [HX _], HY as [HY _].
    destruct HX as (? & ? & ? & ?); [exists (px p); tauto|].
    destruct HY as (? & ? & ? & ?); [exists (py p); tauto|].
    repeat split; lra.
Qed.

Lemma no_overlap_b_spec t a : no_overlap_b t a = true <-> no_overlap t a.
Proof.
  unfold no_overlap_b, no_overlap. rewrite forallb_forall. split.
  - intros H n1 n2 H1 H2 Hne Ho. specialize (H n1 H1). rewrite forallb_forall in H. specialize (H n2 H2).
    apply orb_true_iff in H. destruct H as [H|H].
    + apply Z.eqb_eq in H. contradiction.
    + apply negb_true_iff in H. apply overlapb_spec in Ho. congruence.
  - intros H n1 H1. apply forallb_forall. intros n2 H2. apply orb_true_iff.
    destruct (Z.eqb (nid n1) (nid n2)) eqn:E; [left; reflexivity | right].
    apply Z.eqb_neq in E. apply negb_true_iff. destruct (overlapb t n1 n2) eqn:Eo; [|reflexivity].
    apply overlapb_spec in Eo. exfalso. exact (H n1 n2 H1 H2 E Eo).
Qed.

(* --------------------------------------------------------------------------------- condition 5: routes *)
Lemma axis_par_b_spec t p q : axis_par_b t p q = true <-> axis_par t p q.
Proof. unfold axis_par_b, axis_par. rewrite orb_true_iff, !closeb_spec. tauto. Qed.

Lemma in_box_b_spec d n p : in_box_b d n p = true <-> in_box d n p.
Proof. unfold in_box_b, in_box. rewrite !andb_true_iff, !Qleb_spec. tauto. Qed.

(* division helpers *)
Lemma div_lt_pos x d s : 0 < d -> (x / d < s <-> x < s * d).
Proof.
  intro Hd. assert (E : x == (x / d) * d) by (field; lra). set (q := x / d) in *. split; intro H; nra.
Qed.
Lemma lt_div_pos x d s : 0 < d -> (s < x / d <-> s * d < x).
Proof.
  intro Hd. assert (E : x == (x / d) * d) by (field; lra). set (q := x / d) in *. split; intro H; nra.
Qed.
Lemma div_lt_neg x d s : d < 0 -> (x / d < s <-> s * d < x).
Proof.
  intro Hd. assert (E : x == (x / d) * d) by (field; lra). set (q := x / d) in *. split; intro H; nra.
Qed.
Lemma lt_div_neg x d s : d < 0 -> (s < x / d <-> x < s * d).
Proof.
  intro Hd. assert (E : x == (x / d) * d) by (field; lra). set (q := x / d) in *. split; intro H; nra.
Qed.

(* the slab of one coordinate, for parameters in [0,1] *)
Lemma slab_spec lo hi a d s : 0 <= s -> s <= 1 ->
  (lo < a + s * d /\ a + s * d < hi <->
   match slab lo hi a d with None => False | Some (L, H) => L < s /\ s < H end).
Proof.
  intros H0 H1. unfold slab.
  destruct (Qeqb d 0) eqn:E0; qb2p.
  - destruct (Qltb lo a && Qltb a hi) eqn:E1.
    + apply andb_true_iff in E1. destruct E1; qb2p. split; intro; nra.
    + apply andb_false_iff in E1. split; [|tauto]. intros [A B]. destruct E1; qb2p; nra.
  - destruct (Qltb 0 d) eqn:E1; qb2p.
    + rewrite (div_lt_pos (lo - a) d s E1), (lt_div_pos (hi - a) d s E1). split; intros [A B]; split; lra.
    + assert (Hd : d < 0) by (destruct (Qlt_le_dec d 0); [assumption | exfalso; apply E0; lra]).
      rewrite (div_lt_neg (hi - a) d s Hd), (lt_div_neg (lo - a) d s Hd). split; intros [A B]; split; lra.
Qed.

Lemma rejectb_sound lo hi a b s : rejectb lo hi a b = true -> 0 <= s -> s <= 1 ->
  ~ (lo < a + s * (b - a) /\ a + s * (b - a) < hi).
Proof.
  unfold rejectb. rewrite orb_true_iff, !andb_true_iff, !Qleb_spec. intros H H0 H1 [A B].
  destruct H as [[? ?]|[? ?]]; nra.
Qed.

(* [0,1] meets two open intervals iff every lower bound (L1, L2, and 0 non-strictly) is below every upper
   bound (H1, H2, and 1 non-strictly) *)
Lemma unit_two_open L1 H1 L2 H2 :
  (exists s, 0 <= s /\ s <= 1 /\ (L1 < s /\ s < H1) /\ (L2 < s /\ s < H2)) <->
  (L1 < H1 /\ L1 < H2 /\ L2 < H1 /\ L2 < H2 /\ L1 < 1 /\ L2 < 1 /\ 0 < H1 /\ 0 < H2).
Proof.
  split.
  - intros (s & ? & ? & [? ?] & [? ?]). repeat split; lra.
  - intros (A & B & C & D & E & F & G & I).
    (* lower := max L1 L2 0, upper := min H1 H2 1, witness the midpoint *)
    assert (HL : exists l, (l == L1 \/ l == L2 \/ l == 0) /\ L1 <= l /\ L2 <= l /\ 0 <= l).
    { destruct (Qlt_le_dec L1 L2), (Qlt_le_dec L2 0), (Qlt_le_dec L1 0);
        solve [ exists 0; repeat split; auto; lra | exists L1; repeat split; auto; lra
              | exists L2; repeat split; auto; lra ]. }
    assert (HU : exists u, (u == H1 \/ u == H2 \/ u == 1) /\ u <= H1 /\ u <= H2 /\ u <= 1).
    { destruct (Qlt_le_dec H1 H2), (Qlt_le_dec H2 1), (Qlt_le_dec H1 1);
        solve [ exists 1; repeat split; auto; lra | exists H1; repeat split; auto; lra
              | exists H2; repeat split; auto; lra ]. }
    destruct HL as (l & Hl & ? & ? & ?), HU as (u & Hu & ? & ? & ?).
    assert (Hlu : l < u \/ (l == 0 /\ u == 1)).
    { destruct Hl as [Hl|[Hl|Hl]], Hu as [Hu|[Hu|Hu]]; try (left; lra). }
    exists ((1 # 2) * (l + u)). destruct Hlu as [Hlt|[Hl0 Hu1]]; repeat split; lra.
Qed.

Lemma seg_through_b_spec t p q n : seg_through_b t p q n = true <-> seg_through t p q n.
Proof.
  unfold seg_through_b, seg_through, strictly_in, lerp; cbn [px py].
  set (xl := nx0 n + t). set (xh := nx1 n - t). set (yl := ny0 n + t). set (yh := ny1 n - t).
  destruct (rejectb xl xh (px p) (px q) || rejectb yl yh (py p) (py q)) eqn:ER.
  - split; [discriminate|]. intros (s & H0 & H1 & A & B & C & D). exfalso.
    apply orb_true_iff in ER. destruct ER as [ER|ER].
    + exact (rejectb_sound _ _ _ _ s ER H0 H1 (conj A B)).
    + exact (rejectb_sound _ _ _ _ s ER H0 H1 (conj C D)).
  - pose proof (slab_spec xl xh (px p) (px q - px p)) as SX.
    pose proof (slab_spec yl yh (py p) (py q - py p)) as SY.
    destruct (slab xl xh (px p) (px q - px p)) as [[L1 H1]|] eqn:E1.
    2:{ split; [discriminate|]. intros (s & H0 & H1 & A & B & C & D). exfalso. exact (proj1 (SX s H0 H1) (conj A B)). }
    destruct (slab yl yh (py p) (py q - py p)) as [[L2 H2]|] eqn:E2.
    2:{ split; [discriminate|]. intros (s & H0 & H1' & A & B & C & D). exfalso. exact (proj1 (SY s H0 H1') (conj C D)). }
    rewrite !andb_true_iff, !Qltb_spec.
    split.
    + intros HH. destruct (proj2 (unit_two_open L1 H1 L2 H2)) as (s & H0 & H1' & A & B); [tauto|].
      exists s. split; [exact H0|]. split; [exact H1'|].
      apply (SX s H0 H1') in A. apply (SY s H0 H1') in B. tauto.
    + intros (s & H0 & H1' & A & B & C & D).
      assert (HH : L1 < H1 /\ L1 < H2 /\ L2 < H1 /\ L2 < H2 /\ L1 < 1 /\ L2 < 1 /\ 0 < H1 /\ 0 < H2).
      { apply unit_two_open. exists s. split; [exact H0|]. split; [exact H1'|].
        split; [apply (SX s H0 H1') | apply (SY s H0 H1')]; tauto. }
      tauto.
Qed.

Lemma len_ok_b_spec e : len_ok_b e = true <-> (2 <= length (eroute e))%nat.
Proof.
  unfold len_ok_b. destruct (eroute e) as [|p [|q r]]; cbn [length]; split; intro; try discriminate; try lia; reflexivity.
Qed.

Lemma par_ok_b_spec t e :
  par_ok_b t e = true <-> (forall s, In s (segs (eroute e)) -> axis_par t (fst s) (snd s)).
Proof.
  unfold par_ok_b. rewrite forallb_forall. split; intros H s Hs; apply axis_par_b_spec, H, Hs.
Qed.

Lemma ends_ok_b_spec pad a e : ends_ok_b pad a e = true <-> ends_ok pad a e.
Proof.
  unfold ends_ok_b, ends_ok. rewrite existsb_exists. split.
  - intros (ns & Hns & H). apply existsb_exists in H. destruct H as (nt & Hnt & H).
    rewrite !andb_true_iff, orb_true_iff, !andb_true_iff, !in_box_b_spec, !Z.eqb_eq in H.
    exists ns, nt. tauto.
  - intros (ns & nt & Hns & Hnt & E1 & E2 & H). exists ns. split; [exact Hns|].
    apply existsb_exists. exists nt. split; [exact Hnt|].
    rewrite !andb_true_iff, orb_true_iff, !andb_true_iff, !in_box_b_spec, !Z.eqb_eq. tauto.
Qed.

Lemma thru_ok_b_spec t a e :
  thru_ok_b t a e = true <->
  (forall n s, In n (dnodes a) -> nid n <> esrc e -> nid n <> etgt e -> In s (segs (eroute e)) ->
               ~ seg_through t (fst s) (snd s) n).
Proof.
  unfold thru_ok_b. rewrite forallb_forall. split.
  - intros H n s Hn N1 N2 Hs Ht. specialize (H n Hn). rewrite !orb_true_iff, !Z.eqb_eq in H.
    destruct H as [[H|H]|H]; [contradiction | contradiction |].
    rewrite forallb_forall in H. specialize (H s Hs). apply negb_true_iff in H.
    apply seg_through_b_spec in Ht. congruence.
  - intros H n Hn. rewrite !orb_true_iff.
    destruct (Z.eqb (nid n) (esrc e)) eqn:E1; [left; left; reflexivity|].
    destruct (Z.eqb (nid n) (etgt e)) eqn:E2; [left; right; reflexivity|]. right.
    apply Z.eqb_neq in E1, E2. apply forallb_forall. intros s Hs. apply negb_true_iff.
    destruct (seg_through_b t (fst s) (snd s) n) eqn:Et; [|reflexivity].
    apply seg_through_b_spec in Et. exfalso. exact (H n s Hn E1 E2 Hs Et).
Qed.

Lemma route_ok_b_spec T pad a e : route_ok_b T pad a e = true <-> route_ok T pad a e.
Proof.
  unfold route_ok_b, route_ok.
  rewrite !andb_true_iff, len_ok_b_spec, par_ok_b_spec, ends_ok_b_spec, thru_ok_b_spec. tauto.
Qed.

Lemma routes_ok_b_spec T pad a : routes_ok_b T pad a = true <-> routes_ok T pad a.
Proof.
  unfold routes_ok_b, routes_ok. rewrite forallb_forall.
  split; intros H e He; apply route_ok_b_spec, H, He.
Qed.

(* ------------------------------------------------------------------- condition 6: separation constraints *)
Lemma holds_dim_tolb_spec extra t st gt g cs ct ws wt :
  holds_dim_tolb extra t st gt g cs ct ws wt = true <-> holds_dim_tol extra t st gt g cs ct ws wt.
Proof.
  unfold holds_dim_tolb, holds_dim_tol. destruct st; [tauto | apply closeb_spec | apply Qleb_spec].
Qed.

Lemma holds_tolb_spec extra t p sp : holds_tolb extra t p sp = true <-> holds_tol extra t p sp.
Proof. unfold holds_tolb, holds_tol. rewrite andb_true_iff, !holds_dim_tolb_spec. tauto. Qed.

(* at tolerance 0 this is exactly the meaning of a SepPair used by C18 (SepPairModel.holds) *)
Lemma holds_dim_tol_zero extra st gt g cs ct ws wt :
  holds_dim_tol extra 0 st gt g cs ct ws wt <-> holds_dim extra st gt g cs ct ws wt.
Proof.
  unfold holds_dim_tol, holds_dim, close. destruct st; [tauto| |].
  - match goal with |- ?a - ?b <= 0 /\ ?b - ?a <= 0 <-> _ => generalize a, b end. intros a b. split; intro; [|split]; lra.
  - match goal with |- ?a - 0 <= ?b <-> _ => generalize a, b end. intros a b. split; intro; lra.
Qed.
Theorem holds_tol_zero extra p sp : holds_tol extra 0 p sp <-> holds extra p sp.
Proof. unfold holds_tol, holds. rewrite !holds_dim_tol_zero. tauto. Qed.

Lemma sep_ok_b_spec t a s :
  sep_ok_b t a s = true <->
  exists ns nt, In ns (dnodes a) /\ In nt (dnodes a) /\ nid ns = ssrc s /\ nid nt = stgt s /\
                holds_tol (dextra a) t (place_of ns nt) (spair s).
Proof.
  unfold sep_ok_b. rewrite existsb_exists. split.
  - intros (ns & Hns & H). apply existsb_exists in H. destruct H as (nt & Hnt & H).
    rewrite !andb_true_iff, holds_tolb_spec, !Z.eqb_eq in H. exists ns, nt. tauto.
  - intros (ns & nt & Hns & Hnt & E1 & E2 & H). exists ns. split; [exact Hns|].
    apply existsb_exists. exists nt. split; [exact Hnt|].
    rewrite !andb_true_iff, holds_tolb_spec, !Z.eqb_eq. tauto.
Qed.

Lemma seps_ok_b_spec t a : seps_ok_b t a = true <-> seps_ok t a.
Proof.
  unfold seps_ok_b, seps_ok. rewrite forallb_forall. split; intros H s Hs; apply sep_ok_b_spec, H, Hs.
Qed.

(* ------------------------------------------------------------------------------------------ main theorems *)
Theorem hola_ok_iff T scalar b a : hola_ok T scalar b a = true <-> hola_spec T scalar b a.
Proof.
  unfold hola_ok, hola_spec.
  rewrite !andb_true_iff, same_nodes_b_spec, same_edges_b_spec, sizes_kept_b_spec, no_overlap_b_spec,
          routes_ok_b_spec, seps_ok_b_spec. tauto.
Qed.

Theorem hola_ok_sound T scalar b a : hola_ok T scalar b a = true -> hola_spec T scalar b a.
Proof. apply hola_ok_iff. Qed.

Theorem hola_ok_complete T scalar b a : hola_spec T scalar b a -> hola_ok T scalar b a = true.
Proof. apply hola_ok_iff. Qed.

(* what the spec gives a caller: ids identify nodes after the call too, and a node found by id has its old size *)
Lemma hola_spec_nodup_after T scalar b a : hola_spec T scalar b a -> NoDup (ids a).
Proof. intros ((Hd & Hp) & _). exact (Permutation_NoDup Hp Hd). Qed.

(* the padding tolerance really is HolaPadding's value *)
Lemma pad_of_value T scalar b : pad_of T scalar b == padding_per_side scalar (sizes_of b) + t_end T.
Proof. unfold pad_of. apply Qred_correct. Qed.

(* ------------------------------------------------------------------------------------------ non-vacuity *)
(* two nodes 20x20 at (0,0) and (100,0) (+ padding 5 per side), one edge with an L-free straight route whose
   ends sit 2 units outside the final boxes, one alignment constraint; and four broken variants *)
Definition ex_T : tols := mkTols (1 # 1000000) (1 # 1000000) (1 # 1000000000) (1 # 1000000) (1 # 1000000) (1 # 10000).
Definition ex_before : drawing :=
  mkDrawing [node_of_centre 1 3 4 20 20; node_of_centre 2 50 60 20 20; node_of_centre 3 7 7 20 20]
            [mkEdge 1 2 []; mkEdge 1 3 []] [] 0.
Definition ex_sep : sepc := mkSepc 1 2 (mkSP CENTRE BDRY EQ INEQ sg_pz (mkSg false 10)).
Definition ex_after (r12 r13 : list pt) (x3 : Q) (seps : list sepc) : drawing :=
  mkDrawing [node_of_centre 2 0 100 20 20; node_of_centre 1 0 0 20 20; node_of_centre 3 x3 0 20 20]
            [mkEdge 1 3 r13; mkEdge 1 2 r12] seps 20.
Definition ex_r12 : list pt := [mkpt 0 12; mkpt 0 88].
Definition ex_r13 : list pt := [mkpt 10 0; mkpt 20 0; mkpt 20 5; mkpt 60 5; mkpt 60 0; mkpt 70 0].

Example hola_ok_accepts : hola_ok ex_T (1 # 4) ex_before (ex_after ex_r12 ex_r13 80 [ex_sep]) = true.
Proof. vm_compute. reflexivity. Qed.
Example hola_spec_example : hola_spec ex_T (1 # 4) ex_before (ex_after ex_r12 ex_r13 80 [ex_sep]).
Proof. apply hola_ok_sound, hola_ok_accepts. Qed.
Example hola_ok_rejects_diagonal :
  hola_ok ex_T (1 # 4) ex_before (ex_after [mkpt 0 12; mkpt 3 88] ex_r13 80 [ex_sep]) = false.
Proof. vm_compute. reflexivity. Qed.
Example hola_ok_rejects_overlap : hola_ok ex_T (1 # 4) ex_before (ex_after ex_r12 [mkpt 10 0; mkpt 19 0] 19 [ex_sep]) = false.
Proof. vm_compute. reflexivity. Qed.
Example hola_ok_rejects_far_end : hola_ok ex_T (1 # 4) ex_before (ex_after [mkpt 0 16; mkpt 0 88] ex_r13 80 [ex_sep]) = false.
Proof. vm_compute. reflexivity. Qed.
Example hola_ok_rejects_through :   (* 1 -> 2 routed around through node 3 *)
  hola_ok ex_T (1 # 4) ex_before
          (ex_after [mkpt 10 0; mkpt 85 0; mkpt 85 100; mkpt 10 100] ex_r13 80 [ex_sep]) = false.
Proof. vm_compute. reflexivity. Qed.
Example hola_ok_rejects_sep :   (* boundary gap 10 + extra 20 needs 30 between the boxes, there is 80; ask for 70 *)
  hola_ok ex_T (1 # 4) ex_before
          (ex_after ex_r12 ex_r13 80 [mkSepc 1 2 (mkSP CENTRE BDRY EQ INEQ sg_pz (mkSg false 70))]) = false.
Proof. vm_compute. reflexivity. Qed.
Example hola_spec_refuted_example :
  ~ hola_spec ex_T (1 # 4) ex_before (ex_after [mkpt 0 12; mkpt 3 88] ex_r13 80 [ex_sep]).
Proof. intro H. apply hola_ok_complete in H. rewrite hola_ok_rejects_diagonal in H. discriminate. Qed.
