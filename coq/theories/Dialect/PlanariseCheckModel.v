(* C19, OrthoPlanariser::planarise (V part): the declarative conditions on the planarised graph and their executable
   checker.  No proofs in this file (it is extracted); soundness is proved in Dialect/PlanariseCheck.v.
   The planarised graph of cola/libdialect/planarise.cpp has straight edges from node centre to node centre; its
   nodes are ghosts of the original nodes (same ids), bend-point nodes and crossing nodes (new ids). *)
From Adapt Require Import Num.Qaux Geom.GeomSpec Geom.GeomSpecDec Dialect.PeelModel.
From Coq Require Import Arith.
Local Open Scope Q_scope.

Record pnode := mkPN { pn_id : nat; pn_pos : pt }.

(* ---- geometry: the open segments ab and cd have a common point (a crossing or a collinear overlap) *)
Definition interiors_meet (a b c d : pt) : Prop :=
  exists p, strictly_between a b p /\ strictly_between c d p.

Definition mid (a b : pt) : pt := mkpt ((1 # 2) * (px a + px b)) ((1 # 2) * (py a + py b)).

(* collinear overlap: if two collinear open segments overlap, the midpoint of two of the four end points lies in both *)
Definition overlap_b (a b c d : pt) : bool :=
  existsb (fun p => spec_pointOnLine a b p && spec_pointOnLine c d p)
          [mid a b; mid c d; mid a c; mid a d; mid b c; mid b d].

Definition meet_b (a b c d : pt) : bool := spec_segmentIntersect a b c d || overlap_b a b c d.

Definition seg := (pt * pt)%type.

(* cheap pre-test: the bounding boxes of the two segments are strictly separated in x or in y *)
Definition lt4 (a b c d : Q) : bool :=          (* a, b < c, d *)
  if Qltb a c then if Qltb a d then if Qltb b c then Qltb b d else false else false else false.
Definition bbox_sep (s1 s2 : seg) : bool :=
  let a := fst s1 in let b := snd s1 in let c := fst s2 in let d := snd s2 in
  if lt4 (px a) (px b) (px c) (px d) then true else
  if lt4 (px c) (px d) (px a) (px b) then true else
  if lt4 (py a) (py b) (py c) (py d) then true else
  lt4 (py c) (py d) (py a) (py b).

Definition segs_meet_b (s1 s2 : seg) : bool :=
  if bbox_sep s1 s2 then false else meet_b (fst s1) (snd s1) (fst s2) (snd s2).

Fixpoint pairwise {A} (f : A -> A -> bool) (l : list A) : bool :=
  match l with [] => true | x :: r => forallb (f x) r && pairwise f r end.

(* ---- the planarised graph *)
Fixpoint pos_of (ns : list pnode) (v : nat) : option pt :=
  match ns with
  | [] => None
  | n :: r => if Nat.eqb (pn_id n) v then Some (pn_pos n) else pos_of r v
  end.

Definition seg_of (ns : list pnode) (e : edge) : option seg :=
  match pos_of ns (fst e), pos_of ns (snd e) with
  | Some a, Some b => Some (a, b)
  | _, _ => None
  end.

Fixpoint all_some {A} (l : list (option A)) : option (list A) :=
  match l with
  | [] => Some []
  | Some x :: r => match all_some r with Some xs => Some (x :: xs) | None => None end
  | None :: _ => None
  end.

(* a chain u - d1 - ... - dk - v (k >= 0) of edges whose inner nodes are all taken from D *)
Inductive chain (es : list edge) (D : list nat) : nat -> nat -> Prop :=
| chain_edge u v : (In (u, v) es \/ In (v, u) es) -> chain es D u v
| chain_step u d v : (In (u, d) es \/ In (d, u) es) -> In d D -> chain es D d v -> chain es D u v.

Definition restrict (es : list edge) (allowed : list nat) : list edge :=
  filter (fun e => mem (fst e) allowed && mem (snd e) allowed) es.

(* chain decider: u and v are adjacent, or both have a neighbour in one connected component of the graph induced by D *)
Definition touches (es : list edge) (c : list nat) (u : nat) : bool := existsb (fun d => mem d c) (neighbours es u).
Definition chain_via (comps : list (list nat)) (es : list edge) (u v : nat) : bool :=
  negb (Nat.eqb u v) &&
  (mem v (neighbours es u) || existsb (fun c => touches es c u && touches es c v) comps).

Definition new_nodes (orig : list pnode) (res : list pnode) : list nat :=
  filter (fun v => negb (mem v (map pn_id orig))) (map pn_id res).

(* The conditions of property C19 for planarise:
   orig / oedges: nodes (id, centre) and edges of the routed input graph; res / redges: the planarised graph. *)
Definition planarise_spec (orig : list pnode) (oedges : list edge) (res : list pnode) (redges : list edge) : Prop :=
  NoDup (map pn_id res) /\
  (* every original node is still present, where it was *)
  (forall n, In n orig -> exists p, pos_of res (pn_id n) = Some p /\ pt_eq p (pn_pos n)) /\
  (* edges join nodes of the result; no two of them cross or overlap: their open segments are disjoint *)
  (exists segs, map (seg_of res) redges = map Some segs /\
                ForallOrdPairs (fun s1 s2 => ~ interiors_meet (fst s1) (snd s1) (fst s2) (snd s2)) segs) /\
  (* former neighbours are connected through chains of new nodes *)
  (forall e, In e oedges -> fst e <> snd e /\ chain redges (new_nodes orig res) (fst e) (snd e)).

Definition present_b (res : list pnode) (n : pnode) : bool :=
  match pos_of res (pn_id n) with Some p => pt_eqb p (pn_pos n) | None => false end.

Definition nocross_b (res : list pnode) (redges : list edge) : bool :=
  match all_some (map (seg_of res) redges) with
  | Some segs => pairwise (fun s1 s2 => negb (segs_meet_b s1 s2)) segs
  | None => false
  end.

Definition new_comps (orig res : list pnode) (redges : list edge) : option (list (list nat)) :=
  let D := new_nodes orig res in conncomps (S (length D)) (restrict redges D) D.

Definition chains_b (orig res : list pnode) (oedges redges : list edge) : bool :=
  match new_comps orig res redges with
  | Some comps => forallb (fun e => chain_via comps redges (fst e) (snd e)) oedges
  | None => false
  end.

Definition planarise_ok (orig : list pnode) (oedges : list edge) (res : list pnode) (redges : list edge) : bool :=
  nodupb (map pn_id res) && forallb (present_b res) orig && nocross_b res redges && chains_b orig res oedges redges.

(* diagnosis: indices (in redges) of the pairs of edges whose open segments meet *)
Fixpoint meeting_pairs_from (i : nat) (l : list (option seg)) : list (nat * nat) :=
  match l with
  | [] => []
  | x :: r =>
    (fix inner (j : nat) (m : list (option seg)) : list (nat * nat) :=
       match m with
       | [] => []
       | y :: m' =>
         (match x, y with
          | Some s1, Some s2 => if segs_meet_b s1 s2 then [(i, j)] else []
          | _, _ => []
          end) ++ inner (S j) m'
       end) (S i) r ++ meeting_pairs_from (S i) r
  end.
Definition meeting_pairs (res : list pnode) (redges : list edge) : list (nat * nat) :=
  meeting_pairs_from 0 (map (seg_of res) redges).
Definition broken_chains (orig res : list pnode) (oedges redges : list edge) : list edge :=
  match new_comps orig res redges with
  | Some comps => filter (fun e => negb (chain_via comps redges (fst e) (snd e))) oedges
  | None => oedges
  end.
