(* C18 proofs about Dialect/SepPairModel.v (DESIGN 5.18).  Gaps, coordinates, sizes and the extra boundary
   gap are symbolic rationals throughout; the finite part (kinds, sign bits, transforms) is case analysis. *)
From Adapt Require Import Num.Qaux Num.SignedZero Dialect.SepPairModel.
Local Open Scope Q_scope.

(* lra does not know the division by the constant 2.  Lqa.lra is the Q-only procedure: the generic `lra` of Psatz may close a
   goal through the reals and drag their axioms into Print Assumptions (it did for dim_nf_sound). *)
From Coq Require Lqa.
Ltac qdiv2 := unfold Qdiv in *; change (/ 2) with (1 # 2) in *.
Ltac qlra := qdiv2; Lqa.lra.

(* ------------------------------------------------------------------ holds / holdsb *)
Lemma holds_dimb_spec extra st gt g cs ct ws wt :
  holds_dimb extra st gt g cs ct ws wt = true <-> holds_dim extra st gt g cs ct ws wt.
Proof.
  unfold holds_dimb, holds_dim. destruct st; try tauto; rewrite ?Qeqb_spec, ?Qleb_spec; tauto.
Qed.

Lemma holdsb_spec extra p sp : holdsb extra p sp = true <-> holds extra p sp.
Proof. unfold holdsb, holds. rewrite andb_true_iff, !holds_dimb_spec. tauto. Qed.

(* the meaning only depends on the sign bit and on the magnitude up to Qeq *)
Lemma holds_dim_same extra st gt g g' cs ct ws wt :
  sg_same g g' -> (holds_dim extra st gt g cs ct ws wt <-> holds_dim extra st gt g' cs ct ws wt).
Proof.
  destruct g as [n m], g' as [n' m']. unfold sg_same. cbn. intros [-> Hm].
  unfold holds_dim. cbn. destruct st, gt, n'; try tauto; split; intro; qlra.
Qed.

(* ------------------------------------------------------------------ transform_commutes *)
(* negating the gap = mirroring the axis *)
Lemma holds_dim_neg extra st gt g cs ct ws wt :
  holds_dim extra st gt (sg_neg g) (- cs) (- ct) ws wt <-> holds_dim extra st gt g cs ct ws wt.
Proof.
  destruct g as [[|] m]; unfold holds_dim, sg_neg; cbn; destruct st, gt; try tauto; split; intro; qlra.
Qed.

Theorem transform_commutes extra tf sp p :
  holds extra p sp <-> holds extra (tf_place tf p) (transform tf sp).
Proof.
  destruct sp as [gx gy sx sy ax ay], p as [psx psy ptx pty psw psh ptw pth].
  destruct tf; unfold holds, tf_place, transform; cbn;
    rewrite ?holds_dim_neg; tauto.
Qed.

(* the same statement for the executable twin, as used by the correspondence *)
Corollary transform_commutes_b extra tf sp p :
  holdsb extra (tf_place tf p) (transform tf sp) = holdsb extra p sp.
Proof.
  apply eq_true_iff_eq. rewrite !holdsb_spec. symmetry. apply transform_commutes.
Qed.

(* ------------------------------------------------------------------ transform_group *)
(* D4 = identity + the seven SepTransforms; integer matrices of the action on the plane *)
Definition D4 := option SepTransform.
Definition d4_apply (a : D4) (sp : SepPair) : SepPair := match a with None => sp | Some t => transform t sp end.
Definition d4_all : list D4 :=
  [None; Some ROTATE90CW; Some ROTATE90ACW; Some ROTATE180; Some FLIPV; Some FLIPH; Some FLIPMD; Some FLIPOD].

Definition mat := (Z * Z * Z * Z)%type.     (* (a,b,c,d): x' = a x + b y, y' = c x + d y *)
Definition d4_mat (a : D4) : mat :=
  match a with
  | None => (1, 0, 0, 1)
  | Some ROTATE90CW => (0, -1, 1, 0)
  | Some ROTATE90ACW => (0, 1, -1, 0)
  | Some ROTATE180 => (-1, 0, 0, -1)
  | Some FLIPV => (-1, 0, 0, 1)
  | Some FLIPH => (1, 0, 0, -1)
  | Some FLIPMD => (0, 1, 1, 0)
  | Some FLIPOD => (0, -1, -1, 0)
  end%Z.
Definition mat_mul (m n : mat) : mat :=
  let '(a, b, c, d) := m in let '(e, f, g, h) := n in
  (a * e + b * g, a * f + b * h, c * e + d * g, c * f + d * h)%Z.
Definition mat_eqb (m n : mat) : bool :=
  let '(a, b, c, d) := m in let '(e, f, g, h) := n in
  (Z.eqb a e && Z.eqb b f && Z.eqb c g && Z.eqb d h)%bool.
(* product in the symmetry group of the square, computed from the matrices (first b, then a) *)
Definition d4_mul (a b : D4) : D4 :=
  match find (fun c => mat_eqb (d4_mat c) (mat_mul (d4_mat a) (d4_mat b))) d4_all with
  | Some c => c
  | None => None
  end.

Lemma d4_mat_point t x y :
  let '(a, b, c, d) := d4_mat (Some t) in
  fst (tf_point t x y) == inject_Z a * x + inject_Z b * y /\
  snd (tf_point t x y) == inject_Z c * x + inject_Z d * y.
Proof. destruct t; cbn; unfold inject_Z; split; lra. Qed.

Lemma d4_mul_is_matrix_product a b : d4_mat (d4_mul a b) = mat_mul (d4_mat a) (d4_mat b).
Proof. destruct a as [[]|], b as [[]|]; reflexivity. Qed.

Lemma d4_mat_injective a b : d4_mat a = d4_mat b -> a = b.
Proof. destruct a as [[]|], b as [[]|]; intro H; try reflexivity; discriminate H. Qed.

(* the action on SepPairs (all six fields, sign bits included) is a group action of D4 *)
Theorem transform_group a b sp : d4_apply a (d4_apply b sp) = d4_apply (d4_mul a b) sp.
Proof.
  destruct sp as [gx gy sx sy ax ay].
  destruct a as [[]|], b as [[]|]; cbn; rewrite ?sg_neg_invol; reflexivity.
Qed.

Corollary rotate90cw_four_times sp :
  transform ROTATE90CW (transform ROTATE90CW (transform ROTATE90CW (transform ROTATE90CW sp))) = sp.
Proof. destruct sp; cbn. rewrite !sg_neg_invol. reflexivity. Qed.

Corollary flip_twice sp :
  transform FLIPV (transform FLIPV sp) = sp /\ transform FLIPH (transform FLIPH sp) = sp /\
  transform FLIPMD (transform FLIPMD sp) = sp /\ transform FLIPOD (transform FLIPOD sp) = sp /\
  transform ROTATE180 (transform ROTATE180 sp) = sp /\
  transform ROTATE90ACW (transform ROTATE90CW sp) = sp /\ transform ROTATE90CW (transform ROTATE90ACW sp) = sp.
Proof. destruct sp; cbn. rewrite ?sg_neg_invol. repeat split; reflexivity. Qed.

Lemma transform_wf tf sp : sp_wf sp -> sp_wf (transform tf sp).
Proof. unfold sp_wf, sg_wf. destruct sp, tf; cbn; tauto. Qed.

(* ------------------------------------------------------------------ flip_equiv *)
(* a constraint seen from the other node: opposite direction, and SepMatrix::addSep negates the gap *)
Lemma addSep_negate gt sd st g sp : addSep gt (negateSepDir sd) st (sg_neg g) sp = addSep gt sd st g sp.
Proof. destruct st, sd; cbn; rewrite ?sg_neg_invol; reflexivity. Qed.

Lemma addSep_negate' gt sd st g sp : addSep gt (negateSepDir sd) st g sp = addSep gt sd st (sg_neg g) sp.
Proof. destruct st, sd; cbn; rewrite ?sg_neg_invol; reflexivity. Qed.

Lemma order_cases a b : a <> b ->
  (Nat.ltb b a = true /\ Nat.ltb a b = false) \/ (Nat.ltb b a = false /\ Nat.ltb a b = true).
Proof.
  intro H. destruct (Nat.ltb b a) eqn:E1, (Nat.ltb a b) eqn:E2; auto;
    rewrite ?Nat.ltb_lt, ?Nat.ltb_ge in *; lia.
Qed.

Definition m_pairs (m : smatrix) : list (nat * nat * SepPair) := map (fun e => (en_lo e, en_hi e, en_sp e)) m.

Lemma m_pairs_put_flag lo hi sp f f' m :
  m_pairs (m_put (mkEn lo hi sp f) m) = m_pairs (m_put (mkEn lo hi sp f') m).
Proof.
  unfold m_pairs. induction m as [|e r IH]; [reflexivity|]. cbn [m_put en_lo en_hi].
  destruct (Nat.eqb (en_lo e) lo && Nat.eqb (en_hi e) hi); cbn [map]; [reflexivity | now rewrite IH].
Qed.

(* with the flag refreshed on every retrieval (the code, since /repo 88a99a7): storing c under (a,b) and the negation
   of c under (b,a) leave the same pairs in the matrix, for every prior content *)
Theorem flip_equiv a b gt sd st g m :
  option_map m_pairs (m_addSep true a b gt sd st g m) =
  option_map m_pairs (m_addSep true b a gt (negateSepDir sd) st g m).
Proof.
  unfold m_addSep, m_getSepPair. rewrite (Nat.eqb_sym b a).
  destruct (Nat.eqb a b) eqn:Eab; [reflexivity|]. apply Nat.eqb_neq in Eab.
  destruct (order_cases a b Eab) as [[-> ->]|[-> ->]];
    destruct (m_find _ _ m); cbn [en_lo en_hi en_sp en_flip option_map]; f_equal;
    rewrite ?addSep_negate, ?addSep_negate'; apply m_pairs_put_flag.
Qed.

(* the code before 88a99a7 (flag written only on allocation): the same holds when the pair is new *)
Theorem flip_equiv_fresh_pair a b gt sd st g m :
  m_find (Nat.min a b) (Nat.max a b) m = None ->
  option_map m_pairs (m_addSep false a b gt sd st g m) =
  option_map m_pairs (m_addSep false b a gt (negateSepDir sd) st g m).
Proof.
  unfold m_addSep, m_getSepPair. rewrite (Nat.eqb_sym b a).
  destruct (Nat.eqb a b) eqn:Eab; [reflexivity|]. apply Nat.eqb_neq in Eab.
  destruct (order_cases a b Eab) as [[E1 E2]|[E1 E2]]; rewrite E1, E2.
  - apply Nat.ltb_lt in E1. rewrite Nat.min_r, Nat.max_l by lia. intros ->.
    cbn [en_lo en_hi en_sp en_flip option_map]. f_equal.
    rewrite addSep_negate'. apply m_pairs_put_flag.
  - apply Nat.ltb_lt in E2. rewrite Nat.min_l, Nat.max_r by lia. intros ->.
    cbn [en_lo en_hi en_sp en_flip option_map]. f_equal.
    rewrite addSep_negate. apply m_pairs_put_flag.
Qed.

(* ... and failed for an existing pair retrieved with the ids in the other order: the model of the old
   getSepPair (refresh = false) stores the second constraint un-negated.  The witness was replayed on the real
   SepMatrix (defect, fixed by 88a99a7); checks/c18.py runs such sequences on every run. *)
Definition stale_m0 : smatrix :=
  match m_addSep false 0 1 CENTRE RIGHT INEQ (mkSg false 10) [] with Some m => m | None => [] end.
Theorem flip_equiv_refuted :
  exists a b gt sd st g m,
    option_map m_pairs (m_addSep false a b gt sd st g m) <>
    option_map m_pairs (m_addSep false b a gt (negateSepDir sd) st g m).
Proof.
  exists 0%nat, 1%nat, CENTRE, UP, INEQ, (mkSg false 5), stale_m0. vm_compute. discriminate.
Qed.

(* retrieval of the cardinal direction in the other id order gives the opposite direction *)
Lemma cardFlip_invol d : cardFlip (cardFlip d) = d.
Proof. destruct d; reflexivity. Qed.

Theorem getCardinalDir_flip a b m :
  snd (m_getCardinalDir b a m) = option_map (option_map cardFlip) (snd (m_getCardinalDir a b m)).
Proof.
  unfold m_getCardinalDir. rewrite (Nat.eqb_sym b a).
  destruct (Nat.eqb a b) eqn:Eab; [reflexivity|]. apply Nat.eqb_neq in Eab.
  destruct (order_cases a b Eab) as [[-> ->]|[-> ->]];
    destruct (m_find _ _ m); cbn [snd option_map]; try reflexivity;
    destruct (getCardinalDir _); cbn [option_map]; rewrite ?cardFlip_invol; reflexivity.
Qed.

(* the stored pair means what the caller said: "id2 lies in direction sd from id1".  Directed meaning of an
   addSep request between node 1 (centre c1, size w1 in the dimension of sd) and node 2; a set sign bit of the
   requested gap reverses the direction (that is how the code reads it back). *)
Definition sd_is_y (sd : SepDir) : bool := match sd with SOUTH | NORTH | DOWN | UP => true | _ => false end.
Definition sd_negative (sd : SepDir) : bool := match sd with WEST | NORTH | LEFT | UP => true | _ => false end.
Definition request_holds (extra : Q) (gt : GapType) (sd : SepDir) (st : SepType) (g : sgap)
           (x1 y1 w1 h1 x2 y2 w2 h2 : Q) : Prop :=
  let g' := if sd_negative sd then sg_neg g else g in
  (if sd_is_y sd then holds_dim extra st gt g' y1 y2 h1 h2 else holds_dim extra st gt g' x1 x2 w1 w2) /\
  (if sepDirIsCardinal sd then (if sd_is_y sd then x1 == x2 else y1 == y2) else True).

Theorem addSep_meaning extra gt sd st g p :
  st <> NONE ->
  (holds extra p (addSep gt sd st g sp_default) <->
   request_holds extra gt sd st g (p_sx p) (p_sy p) (p_sw p) (p_sh p) (p_tx p) (p_ty p) (p_tw p) (p_th p)).
Proof.
  intro Hst. destruct p as [psx psy ptx pty psw psh ptw pth].
  destruct st; [congruence | |]; destruct sd; unfold holds, request_holds; cbn;
    intuition (try qlra).
Qed.

(* ------------------------------------------------------------------ gen_constraint_sound *)
Theorem gen_constraint_sound extra st gt g ws wt cs ct :
  match gen_dim extra st gt g ws wt with
  | None => st = NONE
  | Some c => vc_holds c cs ct <-> holds_dim extra st gt g cs ct ws wt
  end.
Proof.
  destruct g as [[|] m]; destruct st, gt; cbn; try reflexivity; unfold vc_holds; cbn; split; intro; qlra.
Qed.

Corollary gen_constraints_sound extra p sp :
  (match generateSeparationConstraint false extra p sp with
   | None => True | Some c => vc_holds c (p_sx p) (p_tx p) end /\
   match generateSeparationConstraint true extra p sp with
   | None => True | Some c => vc_holds c (p_sy p) (p_ty p) end) <-> holds extra p sp.
Proof.
  unfold generateSeparationConstraint, holds.
  pose proof (gen_constraint_sound extra (xst sp) (xgt sp) (xgap sp) (p_sw p) (p_tw p) (p_sx p) (p_tx p)) as Hx.
  pose proof (gen_constraint_sound extra (yst sp) (ygt sp) (ygap sp) (p_sh p) (p_th p) (p_sy p) (p_ty p)) as Hy.
  destruct (gen_dim extra (xst sp) _ _ _ _), (gen_dim extra (yst sp) _ _ _ _);
    try rewrite Hx; try rewrite Hy; cbn; tauto.
Qed.

Lemma vc_holdsb_spec c cs ct : vc_holdsb c cs ct = true <-> vc_holds c cs ct.
Proof. unfold vc_holdsb, vc_holds. destruct (vc_eq c); rewrite ?Qeqb_spec, ?Qleb_spec; tauto. Qed.

(* ------------------------------------------------------------------ tglf_sep_roundtrip *)
Definition swap_place (p : place) : place :=
  mkPl (p_tx p) (p_ty p) (p_sx p) (p_sy p) (p_tw p) (p_th p) (p_sw p) (p_sh p).

(* both dimensions are "centres equal": the case SepPair::writeTglf rejects *)
Definition coincide (sp : SepPair) : Prop :=
  xgt sp = CENTRE /\ xst sp = EQ /\ smag (xgap sp) == 0 /\ ygt sp = CENTRE /\ yst sp = EQ /\ smag (ygap sp) == 0.

Lemma holds_dim_swap extra st gt g cs ct ws wt :
  holds_dim extra st gt (sg_neg g) ct cs wt ws <-> holds_dim extra st gt g cs ct ws wt.
Proof.
  destruct g as [[|] m]; unfold holds_dim, sg_neg; cbn; destruct st, gt; try tauto; split; intro; qlra.
Qed.

Section TglfProofs.
  Variable tok : Type.
  Variable fmt : Q -> tok.
  Variable parse : tok -> sgap.
  Variable zero_tok : tok.
  (* the values that survive "%.<precision>f" followed by operator>> unchanged (e.g. multiples of 10^-precision
     of moderate size); the law is ASSUMED, not proved: it is the part of TGLF that is not modelled *)
  Variable exact : Q -> Prop.
  Hypothesis parse_fmt : forall q, 0 <= q -> exact q -> sg_same (parse (fmt q)) (mkSg false q).
  Hypothesis parse_zero : sg_same (parse zero_tok) sg_pz.

  Definition written (extra : Q) (gt : GapType) (g : sgap) : Q :=
    smag g + match gt with BDRY => extra | CENTRE => 0 end.

  Notation wsep := (write_sep tok fmt zero_tok).
  Notation rsep := (read_sep tok parse).

  Ltac use_parse :=
    repeat match goal with
    | |- context [parse (fmt ?q)] =>
      let Hn := fresh "Hn" in let Hm := fresh "Hm" in let n := fresh "n" in let m := fresh "m" in
      assert (sg_same (parse (fmt q)) (mkSg false q)) as [Hn Hm] by (apply parse_fmt; [lra | assumption]);
      destruct (parse (fmt q)) as [n m]; cbn in Hn, Hm; subst n
    | |- context [parse zero_tok] =>
      let Hn := fresh "Hn" in let Hm := fresh "Hm" in let n := fresh "n" in let m := fresh "m" in
      destruct parse_zero as [Hn Hm];
      destruct (parse zero_tok) as [n m]; cbn in Hn, Hm; subst n
    end.

  (* one dimension written laterally and read back, into any pair: that dimension keeps its meaning *)
  Theorem tglf_sep_roundtrip extra sp :
    sp_wf sp -> 0 <= extra ->
    exact (written extra (xgt sp) (xgap sp)) -> exact (written extra (ygt sp) (ygap sp)) ->
    match wsep extra sp with
    | None => coincide sp
    | Some ls =>
      (forall p, holds extra p sp <-> holds 0 p (rsep false ls)) /\
      (forall p, holds extra p sp <-> holds 0 (swap_place p) (rsep true ls))
    end.
  Proof.
    destruct sp as [gx gy sx sy [nx mx] [ny my]]. unfold sp_wf, sg_wf, written. cbn.
    intros [Wx Wy] Hex Ex Ey.
    unfold write_sep, isVAlign, isHAlign, write_cardinal, write_lateral, sg_is0, sg_lt0, sg_gt0, sg_signbit.
    cbn.
    destruct sx, sy, gx, gy, nx, ny; cbn;
      repeat (qcase; cbn); qb2p;
      try (unfold coincide; cbn; repeat split; (reflexivity || lra));
      (split; intros [psx psy ptx pty psw psh ptw pth];
       unfold read_sep, read_line, holds, swap_place; cbn;
       use_parse; unfold holds_dim, sg_neg; cbn; intuition qlra).
  Qed.

  (* and exactly the coinciding pairs are rejected *)
  Theorem tglf_rejected_iff extra sp :
    sp_wf sp -> (wsep extra sp = None <-> coincide sp).
  Proof.
    destruct sp as [gx gy sx sy [nx mx] [ny my]]. unfold sp_wf, sg_wf, coincide. cbn. intros [Wx Wy].
    unfold write_sep, isVAlign, isHAlign, write_cardinal, write_lateral, sg_is0, sg_lt0, sg_gt0, sg_signbit.
    cbn.
    destruct sx, sy, gx, gy, nx, ny; cbn; repeat (qcase; cbn); qb2p;
      (split; [ intro H; try discriminate H; repeat split; (reflexivity || lra)
              | intros (? & ? & ? & ? & ? & ?); try reflexivity; try congruence; exfalso; lra ]).
  Qed.
End TglfProofs.

(* ------------------------------------------------------------------ non-vacuity *)
Definition ex_sp : SepPair := addSep BDRY UP INEQ (mkSg false 2) (addSep CENTRE EAST EQ sg_nz sp_default).
Definition ex_pl : place := mkPl 0 10 0 0 4 6 2 2.   (* tgt straight above src *)

Example transform_commutes_nonvacuous :
  holds 1 ex_pl ex_sp /\ holds 1 (tf_place ROTATE90CW ex_pl) (transform ROTATE90CW ex_sp) /\
  ~ holds 1 (mkPl 0 0 0 10 4 6 2 2) ex_sp /\ sneg (xgap ex_sp) = true.
Proof.
  repeat split; try apply holdsb_spec; try reflexivity.
  intro H. apply holdsb_spec in H. discriminate H.
Qed.

Example transform_group_nonvacuous :
  d4_mul (Some ROTATE90CW) (Some FLIPV) = Some FLIPOD /\ d4_mul (Some FLIPV) (Some ROTATE90CW) = Some FLIPMD /\
  d4_apply (Some ROTATE90CW) (d4_apply (Some FLIPV) ex_sp) <> d4_apply (Some FLIPV) (d4_apply (Some ROTATE90CW) ex_sp).
Proof. repeat split; try reflexivity. vm_compute. discriminate. Qed.

Example flip_equiv_nonvacuous :
  exists m, m_addSep true 3 1 BDRY NORTH INEQ (mkSg false 2) stale_m0 = Some m /\
            m_pairs m = [(0, 1, en_sp (hd (mkEn 0 0 sp_default false) stale_m0));
                         (1, 3, addSep BDRY SOUTH INEQ (mkSg false 2) sp_default)]%nat.
Proof. eexists. split; reflexivity. Qed.

Example gen_constraint_nonvacuous :
  gen_dim 1 INEQ BDRY sg_nz 4 2 = Some (mkVC Tgt Src (0 + ((2 + 4) / 2 + 1)) false) /\
  vc_holds (mkVC Tgt Src (0 + ((2 + 4) / 2 + 1)) false) 10 6 /\ ~ vc_holds (mkVC Tgt Src (0 + ((2 + 4) / 2 + 1)) false) 6 10.
Proof.
  repeat split. - unfold vc_holds; cbn; qlra. - unfold vc_holds; cbn; qlra.
Qed.

(* the round-trip hypotheses are satisfiable: tokens = rationals, formatting = identity on non-negative values *)
Example tglf_roundtrip_nonvacuous :
  let parse := fun q : Q => sg_of_Q q in
  (forall q, 0 <= q -> True -> sg_same (parse q) (mkSg false q)) /\ sg_same (parse 0) sg_pz /\
  write_sep Q (fun q => q) 0 1 ex_sp = Some [mkLine Q BDRY cN INEQ (2 + 1)] /\
  write_sep Q (fun q => q) 0 1 (addSep CENTRE SOUTH EQ sg_nz sp_default) = None.
Proof.
  cbn. repeat split; try reflexivity.
  - apply Qltb_false. assumption.
  - cbn. apply Qabs_pos. assumption.
Qed.

(* ------------------------------------------------------------------ the equivalence checker is sound *)
Lemma dim_nf_sound extra st gt g extra' st' gt' g' cs ct ws wt :
  nf_eqb (dim_nf extra st gt g) (dim_nf extra' st' gt' g') = true ->
  (holds_dim extra st gt g cs ct ws wt <-> holds_dim extra' st' gt' g' cs ct ws wt).
Proof.
  destruct g as [n m], g' as [n' m'].
  destruct st, st', gt, gt'; cbn; try discriminate; try tauto;
    repeat (qcase; cbn); rewrite ?andb_true_iff, ?Qeqb_spec; qb2p;
    destruct n, n'; cbn; try (intros [? ?]; discriminate); try (intros [[? ?] ?]; discriminate);
    intros; unfold holds_dim; cbn; intuition qlra.
Qed.

Theorem sep_equivb_sound extra sp extra' sp' :
  sep_equivb extra sp extra' sp' = true -> forall p, holds extra p sp <-> holds extra' p sp'.
Proof.
  unfold sep_equivb, holds. rewrite andb_true_iff. intros [Hx Hy] p.
  rewrite (dim_nf_sound _ _ _ _ _ _ _ _ (p_sx p) (p_tx p) (p_sw p) (p_tw p) Hx).
  rewrite (dim_nf_sound _ _ _ _ _ _ _ _ (p_sy p) (p_ty p) (p_sh p) (p_th p) Hy). tauto.
Qed.

Example sep_equivb_nonvacuous :
  sep_equivb 1 ex_sp 0 (addSep BDRY UP INEQ (mkSg false 3) (addSep CENTRE EAST EQ sg_pz sp_default)) = true /\
  sep_equivb 1 ex_sp 0 ex_sp = false.
Proof. split; reflexivity. Qed.

Lemma coincideb_spec sp : coincideb sp = true <-> coincide sp.
Proof.
  unfold coincideb, coincide, sg_is0. rewrite !andb_true_iff, !Qeqb_spec.
  destruct (xgt sp), (xst sp), (ygt sp), (yst sp); cbn; intuition (try discriminate).
Qed.

(* ================================================================================================================
   flip_equiv for the remaining public mutator overloads of SepMatrix (SepPairModel.v, second part) *)

(* addFixedRelativeSep(id1,id2,dx,dy): the stored record does not depend on what was there *)
Lemma fixed_sp dx dy sp : addSep CENTRE DOWN EQ dy (addSep CENTRE RIGHT EQ dx sp) = mkSP CENTRE CENTRE EQ EQ dx dy.
Proof. destruct sp; reflexivity. Qed.

Theorem flip_equiv_fixed a b dx dy m :
  option_map m_pairs (m_addFixedRelativeSep true a b dx dy m) =
  option_map m_pairs (m_addFixedRelativeSep true b a (sg_neg dx) (sg_neg dy) m).
Proof.
  unfold m_addFixedRelativeSep, m_getSepPair. rewrite (Nat.eqb_sym b a).
  destruct (Nat.eqb a b) eqn:Eab; [reflexivity|]. apply Nat.eqb_neq in Eab.
  destruct (order_cases a b Eab) as [[-> ->]|[-> ->]];
    destruct (m_find _ _ m); cbn [en_lo en_hi en_sp en_flip option_map]; f_equal;
    rewrite ?fixed_sp, ?sg_neg_invol; apply m_pairs_put_flag.
Qed.

(* setCardinalOP(a,b,d) and setCardinalOP(b,a,opposite d): identical stored pairs *)
Lemma card_sepdir_flip c : card_sepdir (cardFlip c) = negateSepDir (card_sepdir c).
Proof. destruct c; reflexivity. Qed.

Theorem setCardinalOP_flip a b c m :
  option_map m_pairs (m_setCardinalOP true a b c m) = option_map m_pairs (m_setCardinalOP true b a (cardFlip c) m).
Proof. unfold m_setCardinalOP. rewrite card_sepdir_flip. apply flip_equiv. Qed.

(* Requests that are symmetric in the two nodes (alignments, the present offset) are stored with a different SIGN BIT OF
   A ZERO gap when the ids are given in the other order (hAlign(b,a) stores -0.0, hAlign(a,b) stores +0.0): the records
   are not identical but mean the same for every placement. *)
Definition sp_equiv (s1 s2 : SepPair) : Prop := forall extra p, holds extra p s1 <-> holds extra p s2.
Definition pairs_equiv (l1 l2 : list (nat * nat * SepPair)) : Prop :=
  Forall2 (fun x y => fst x = fst y /\ sp_equiv (snd x) (snd y)) l1 l2.
Definition opt_rel {A} (R : A -> A -> Prop) (x y : option A) : Prop :=
  match x, y with Some u, Some v => R u v | None, None => True | _, _ => False end.

Lemma sp_equiv_refl s : sp_equiv s s.
Proof. intros extra p. tauto. Qed.
Lemma pairs_equiv_refl l : pairs_equiv l l.
Proof. induction l; constructor; auto. split; [reflexivity | apply sp_equiv_refl]. Qed.

Lemma pairs_equiv_put lo hi s1 s2 f1 f2 m :
  sp_equiv s1 s2 -> pairs_equiv (m_pairs (m_put (mkEn lo hi s1 f1) m)) (m_pairs (m_put (mkEn lo hi s2 f2) m)).
Proof.
  intro H. unfold m_pairs. induction m as [|e r IH]; cbn [m_put map en_lo en_hi].
  - constructor; [split; [reflexivity | exact H] | constructor].
  - destruct (Nat.eqb (en_lo e) lo && Nat.eqb (en_hi e) hi); cbn [map].
    + constructor; [split; [reflexivity | exact H] | apply pairs_equiv_refl].
    + constructor; [split; [reflexivity | apply sp_equiv_refl] | exact IH].
Qed.

(* sep_equivb decides (soundly) this relation: the checker the twin comparison of checks/c18.py falls back on *)
Lemma sep_equivb_sp_equiv s1 s2 : (forall extra, sep_equivb extra s1 extra s2 = true) -> sp_equiv s1 s2.
Proof. intros H extra p. apply sep_equivb_sound. apply H. Qed.

Lemma holds_dim_eq_centre extra g cs ct ws wt : holds_dim extra EQ CENTRE g cs ct ws wt <-> ct - cs == sg_val g.
Proof. destruct g as [[|] m]; unfold holds_dim, sg_val; cbn; split; intro; lra. Qed.

Lemma sp_equiv_y gx sx ax g g' : sg_val g == sg_val g' -> sp_equiv (mkSP gx CENTRE sx EQ ax g) (mkSP gx CENTRE sx EQ ax g').
Proof. intros E extra p. unfold holds. cbn [xst yst xgt ygt xgap ygap]. rewrite !holds_dim_eq_centre, E. tauto. Qed.
Lemma sp_equiv_x gy sy ay g g' : sg_val g == sg_val g' -> sp_equiv (mkSP CENTRE gy EQ sy g ay) (mkSP CENTRE gy EQ sy g' ay).
Proof. intros E extra p. unfold holds. cbn [xst yst xgt ygt xgap ygap]. rewrite !holds_dim_eq_centre, E. tauto. Qed.
Lemma sp_equiv_fixed dx dx' dy dy' :
  sg_val dx == sg_val dx' -> sg_val dy == sg_val dy' ->
  sp_equiv (mkSP CENTRE CENTRE EQ EQ dx dy) (mkSP CENTRE CENTRE EQ EQ dx' dy').
Proof. intros Ex Ey extra p. unfold holds. cbn [xst yst xgt ygt xgap ygap]. rewrite !holds_dim_eq_centre, Ex, Ey. tauto. Qed.

(* hAlign / vAlign / alignByEquatedCoord in either id order: equivalent stored pairs, whatever the matrix held before *)
Theorem align_flip_equiv eq_y a b m :
  opt_rel pairs_equiv (option_map m_pairs (m_alignByEquatedCoord true a b eq_y m))
                      (option_map m_pairs (m_alignByEquatedCoord true b a eq_y m)).
Proof.
  unfold m_alignByEquatedCoord, m_hAlign, m_vAlign, m_addSep, m_getSepPair. rewrite (Nat.eqb_sym b a).
  destruct eq_y; (destruct (Nat.eqb a b) eqn:Eab; [exact I|]); apply Nat.eqb_neq in Eab;
    (destruct (order_cases a b Eab) as [[-> ->]|[-> ->]]);
    destruct (m_find _ _ m) as [e|]; cbn [en_lo en_hi en_sp en_flip option_map opt_rel addSep];
    apply pairs_equiv_put; (apply sp_equiv_y || apply sp_equiv_x); reflexivity.
Qed.

(* the position-based overload addFixedRelativeSep(id1,id2): (a,b) and (b,a) store equivalent records ... *)
Lemma diff_flip x y : sg_val (sg_neg (sg_of_Q (x - y))) == sg_val (sg_of_Q (y - x)).
Proof. rewrite sg_val_neg, !sg_of_Q_val. lra. Qed.

Theorem fixed_pos_flip_equiv a b pos m :
  opt_rel pairs_equiv (option_map m_pairs (m_addFixedRelativeSepPos true a b pos m))
                      (option_map m_pairs (m_addFixedRelativeSepPos true b a pos m)).
Proof.
  unfold m_addFixedRelativeSepPos, m_addFixedRelativeSep, m_getSepPair. rewrite (Nat.eqb_sym b a).
  destruct (Nat.eqb a b) eqn:Eab; [exact I|]. apply Nat.eqb_neq in Eab.
  destruct (order_cases a b Eab) as [[-> ->]|[-> ->]];
    destruct (m_find _ _ m) as [e|]; cbn [en_lo en_hi en_sp en_flip option_map opt_rel];
    rewrite !fixed_sp; apply pairs_equiv_put; apply sp_equiv_fixed;
    (apply diff_flip || (symmetry; apply diff_flip)).
Qed.

(* ... and the record it stores holds for the present placement ("sit at their present exact separation") *)
Lemma m_find_put lo hi sp f m : m_find lo hi (m_put (mkEn lo hi sp f) m) = Some (mkEn lo hi sp f).
Proof.
  induction m as [|e r IH]; cbn [m_put m_find en_lo en_hi].
  - now rewrite !Nat.eqb_refl.
  - destruct (Nat.eqb (en_lo e) lo && Nat.eqb (en_hi e) hi) eqn:E; cbn [m_find en_lo en_hi].
    + now rewrite !Nat.eqb_refl.
    + rewrite E. exact IH.
Qed.

Theorem fixed_pos_frozen a b pos size extra m m' :
  m_addFixedRelativeSepPos true a b pos m = Some m' ->
  exists e, m_find (Nat.min a b) (Nat.max a b) m' = Some e /\
            holds extra (place_of pos size (Nat.min a b) (Nat.max a b)) (en_sp e).
Proof.
  unfold m_addFixedRelativeSepPos, m_addFixedRelativeSep, m_getSepPair.
  destruct (Nat.eqb a b) eqn:Eab; [discriminate|]. apply Nat.eqb_neq in Eab.
  destruct (order_cases a b Eab) as [[E1 E2]|[E1 E2]]; rewrite ?E1, ?E2.
  - apply Nat.ltb_lt in E1. rewrite Nat.min_r, Nat.max_l by lia.
    destruct (m_find b a m) as [e|]; cbn [en_lo en_hi en_sp en_flip]; rewrite fixed_sp; intros [= <-];
      (eexists; split; [apply m_find_put|]); unfold holds, place_of;
      cbn [en_sp xst yst xgt ygt xgap ygap p_sx p_sy p_tx p_ty p_sw p_sh p_tw p_th];
      rewrite !holds_dim_eq_centre, !sg_val_neg, !sg_of_Q_val; split; lra.
  - apply Nat.ltb_lt in E2. rewrite Nat.min_l, Nat.max_r by lia.
    destruct (m_find a b m) as [e|]; cbn [en_lo en_hi en_sp en_flip]; rewrite fixed_sp; intros [= <-];
      (eexists; split; [apply m_find_put|]); unfold holds, place_of;
      cbn [en_sp xst yst xgt ygt xgap ygap p_sx p_sy p_tx p_ty p_sw p_sh p_tw p_th];
      rewrite !holds_dim_eq_centre, !sg_of_Q_val; split; lra.
Qed.

(* What "measuring the offset in storage orientation and handing it to the 4-argument overload" (seeded change C18-4) would
   store: the point reflection.  Stated so that the defect class stays recognisable: it violates both theorems above. *)
Definition m_addFixedRelativeSepPos_storage_orientation (id1 id2 : nat) (pos : centres) (m : smatrix) : option smatrix :=
  let lo := Nat.min id1 id2 in let hi := Nat.max id1 id2 in
  m_addFixedRelativeSep true id1 id2 (sg_of_Q (fst (pos hi) - fst (pos lo))) (sg_of_Q (snd (pos hi) - snd (pos lo))) m.
Theorem fixed_pos_storage_orientation_refuted :
  exists a b pos m', m_addFixedRelativeSepPos_storage_orientation a b pos [] = Some m' /\
    forall e, m_find (Nat.min a b) (Nat.max a b) m' = Some e ->
              ~ holds 0 (place_of pos (fun _ => (1, 1)) (Nat.min a b) (Nat.max a b)) (en_sp e).
Proof.
  exists 1%nat, 0%nat, (fun n => match n with O => (0, 0) | _ => (70, 40) end). eexists. split; [reflexivity|].
  intros e He. vm_compute in He. injection He as <-. intro H. apply holdsb_spec in H. vm_compute in H. discriminate H.
Qed.

(* free is symmetric in its two ids *)
Theorem free_sym a b m : m_free a b m = m_free b a m.
Proof. unfold m_free. rewrite (Nat.eqb_sym b a), (Nat.min_comm b a), (Nat.max_comm b a). reflexivity. Qed.

(* transforming the closed subset of ALL nodes is the plain transform; and a record is touched by the open-subset variant
   as soon as one of its nodes is in the set *)
Theorem transformClosedSubset_all tf ids m :
  (forall e, In e m -> mem_id (en_lo e) ids = true /\ mem_id (en_hi e) ids = true) ->
  m_transformClosedSubset tf ids m = m_transform tf m.
Proof.
  intro H. unfold m_transformClosedSubset, m_transform. apply map_ext_in. intros e He.
  destruct (H e He) as [-> ->]. reflexivity.
Qed.

(* ------------------------------------------------------------------ non-vacuity of the new statements *)
Definition ex_pos : centres := fun n => match n with O => (3, -2) | S O => (-4, -2) | _ => (0, 7) end.
Example fixed_pos_nonvacuous :
  option_map m_pairs (m_addFixedRelativeSepPos true 1 0 ex_pos []) =
    Some [(0, 1, mkSP CENTRE CENTRE EQ EQ (mkSg true 7) (mkSg true 0))]%nat /\
  option_map m_pairs (m_addFixedRelativeSepPos true 0 1 ex_pos []) =
    Some [(0, 1, mkSP CENTRE CENTRE EQ EQ (mkSg true 7) (mkSg false 0))]%nat /\
  holds 0 (place_of ex_pos (fun _ => (1, 1)) 0 1) (mkSP CENTRE CENTRE EQ EQ (mkSg true 7) (mkSg true 0)) /\
  ~ holds 0 (place_of ex_pos (fun _ => (1, 1)) 0 1) (mkSP CENTRE CENTRE EQ EQ (mkSg false 7) (mkSg false 0)).
Proof.
  repeat split; try (vm_compute; reflexivity); try (apply holdsb_spec; vm_compute; reflexivity).
  intro H. apply holdsb_spec in H. vm_compute in H. discriminate H.
Qed.
Example align_flip_nonvacuous :
  option_map m_pairs (m_hAlign true 2 0 stale_m0) <> option_map m_pairs (m_hAlign true 0 2 stale_m0) /\
  option_map m_pairs (m_setCardinalOP true 2 0 CNORTH stale_m0) = option_map m_pairs (m_setCardinalOP true 0 2 CSOUTH stale_m0) /\
  m_free 1 0 stale_m0 = [] /\ stale_m0 <> [].
Proof. repeat split; try (vm_compute; reflexivity); vm_compute; discriminate. Qed.
