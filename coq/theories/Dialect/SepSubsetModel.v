(* C18 model, third part (no proofs in this file): the loops of SepMatrix::transformClosedSubset and
   SepMatrix::transformOpenSubset, /repo/cola/libdialect/constraints.cpp:587-707, statement by statement.

   Data.  m_sparseLookup is a std::map<id_type, std::map<id_type, SepPair_SP>> (SparseIdMatrix2d): both levels are
   iterated in ascending key order, so the model keeps both levels as association lists IN KEY ORDER
   (`smat2`; rows may be empty: SepMatrix::free leaves `m_sparseLookup[id1]` behind).  The id set is a
   std::set<id_type>: a list in ascending order.  An iterator is modelled by the suffix of the list it points at
   (end() = []).  The SepPair objects are reached through shared pointers and transformed in place; the model
   rebuilds the map with the transformed payloads (two cells sharing ONE SepPair object are outside the model;
   the public mutators never produce that inside one matrix).

   The payload type A and the action f (= sp->transform(tf)) are Section variables: the loops do not look at
   the payload.  `sm_…` below are the instances for SepPair / SepPairModel.transform used by the extraction.

   Intended semantics (constraints.h:282-295): transformClosedSubset - "/Both/ Nodes must be in the set";
   transformOpenSubset - "/At least one/ Node must be in the set" (NOT exactly one).  The declarative
   specifications `spec_closed` / `spec_open` are at the end; Dialect/SepSubset.v proves the loops equal to them. *)
From Adapt Require Import Num.Qaux Num.SignedZero Dialect.SepPairModel.

Section Subset.
  Variable A : Type.
  Variable f : A -> A.

  Definition srow := list (nat * A).          (* std::map<id_type, SepPair_SP> in key order *)
  Definition smat2 := list (nat * srow).      (* m_sparseLookup in key order *)

  (* The inner merge scan, constraints.cpp:613-630 (closed) and 689-705 (open, second pass):
       while (map_ptr2 != map_end2 && set_ptr2 != set_end) {
           j = map_ptr2->first;  b = *set_ptr2;
           if (j > b) ++set_ptr2;
           else { if (j == b) sp->transform(tf);  ++map_ptr2; } }
     Returns the row and the position where set_ptr2 stopped (needed by the hoisted variant below). *)
  Fixpoint scan_row (row : srow) : list nat -> srow * list nat :=
    match row with
    | [] => fun s => ([], s)                                   (* map_ptr2 == map_end2 *)
    | (j, sp) :: row' =>
      fix adv (s : list nat) : srow * list nat :=
        match s with
        | [] => ((j, sp) :: row', [])                          (* set_ptr2 == set_end *)
        | b :: s' =>
          if b <? j then adv s'                                (* j > b: ++set_ptr2 *)
          else let (r, s2) := scan_row row' s in               (* ++map_ptr2, set_ptr2 stays *)
               ((j, if j =? b then f sp else sp) :: r, s2)
        end
    end.

  (* transformClosedSubset, constraints.cpp:587-636: the outer merge over (m_sparseLookup, ids);
       if (i > a) ++set_ptr1;
       else { if (i == a) { scan the row of i from set_ptr2 = std::next(set_ptr1) }  ++map_ptr1; } *)
  Fixpoint closed_loop (m : smat2) : list nat -> smat2 :=
    match m with
    | [] => fun _ => []
    | (i, row) :: m' =>
      fix adv (s : list nat) : smat2 :=
        match s with
        | [] => (i, row) :: m'
        | a :: s' =>
          if a <? i then adv s'
          else (i, if i =? a then fst (scan_row row s') else row) :: closed_loop m' s
        end
    end.
  Definition transformClosedSubset (ids : list nat) (m : smat2) : smat2 := closed_loop m ids.

  (* `for (auto p : i_lookup) p.second->transform(tf)`, constraints.cpp:662-666 *)
  Definition map_row (row : srow) : srow := map (fun e => (fst e, f (snd e))) row.

  (* transformOpenSubset, first pass part (a), constraints.cpp:649-674.  Result: the rows visited so far (rows of
     ids in the set transformed entirely), out_of_set in push_back order, and the rows not yet visited when the loop
     ended (map_ptr1 .. map_end1). *)
  Fixpoint open_pass1a (m : smat2) : list nat -> smat2 * list nat * smat2 :=
    match m with
    | [] => fun _ => ([], [], [])
    | (i, row) :: m' =>
      fix adv (s : list nat) : smat2 * list nat * smat2 :=
        match s with
        | [] => ([], [], (i, row) :: m')                       (* set ended first *)
        | a :: s' =>
          if a <? i then adv s'                                (* i > a: ++set_ptr1 *)
          else let '(visited, out, rest) := open_pass1a m' s in
               if i =? a then ((i, map_row row) :: visited, out, rest)
               else ((i, row) :: visited, i :: out, rest)      (* out_of_set.push_back(i) *)
        end
    end.
  (* part (b), constraints.cpp:677-681: every remaining first id goes to out_of_set *)
  Definition open_pass1b (out : list nat) (rest : smat2) : list nat := out ++ map fst rest.

  (* `auto i_lookup = m_sparseLookup[i]` (a copy of the row holding the same shared pointers).  operator[] on an
     absent key would insert an empty row; out_of_set only holds keys of the map (SepSubset.v, pass1_out_keys), so
     that case does not arise and the model returns [] / leaves the map alone. *)
  Fixpoint get_row (i : nat) (m : smat2) : srow :=
    match m with
    | [] => []
    | (k, row) :: m' => if k =? i then row else get_row i m'
    end.
  (* the in-place effect of the transforms done through the pointers of the copied row *)
  Fixpoint set_row (i : nat) (r : srow) (m : smat2) : smat2 :=
    match m with
    | [] => []
    | (k, row) :: m' => if k =? i then (k, r) :: m' else (k, row) :: set_row i r m'
    end.

  (* second pass, constraints.cpp:684-706: `auto set_ptr2 = ids.cbegin()` INSIDE the for loop *)
  Fixpoint open_pass2 (ids : list nat) (out : list nat) (m : smat2) : smat2 :=
    match out with
    | [] => m
    | i :: out' => open_pass2 ids out' (set_row i (fst (scan_row (get_row i m) ids)) m)
    end.

  Definition transformOpenSubset (ids : list nat) (m : smat2) : smat2 :=
    let '(visited, out, rest) := open_pass1a m ids in
    open_pass2 ids (open_pass1b out rest) (visited ++ rest).

  (* the variant of the seeded change C18-5: `auto set_ptr2 = ids.cbegin()` hoisted out of the for loop, i.e. the set
     iterator is shared by all rows of the second pass *)
  Fixpoint open_pass2_hoisted (ptr : list nat) (out : list nat) (m : smat2) : smat2 :=
    match out with
    | [] => m
    | i :: out' => let (r, ptr') := scan_row (get_row i m) ptr in open_pass2_hoisted ptr' out' (set_row i r m)
    end.
  Definition transformOpenSubset_hoisted (ids : list nat) (m : smat2) : smat2 :=
    let '(visited, out, rest) := open_pass1a m ids in
    open_pass2_hoisted ids (open_pass1b out rest) (visited ++ rest).

  (* ---- declarative specification: which cells (i, j) get f, everything else (keys, order, other payloads) stays ---- *)
  Definition smap (P : nat -> nat -> bool) (m : smat2) : smat2 :=
    map (fun r => (fst r, map (fun e => (fst e, if P (fst r) (fst e) then f (snd e) else snd e)) (snd r))) m.
  (* at least one of the two nodes in the set *)
  Definition spec_open (ids : list nat) : smat2 -> smat2 := smap (fun i j => mem_id i ids || mem_id j ids).
  (* both nodes in the set *)
  Definition spec_closed (ids : list nat) : smat2 -> smat2 := smap (fun i j => mem_id i ids && mem_id j ids).

  Fixpoint row_get (j : nat) (row : srow) : option A :=
    match row with
    | [] => None
    | (k, x) :: row' => if k =? j then Some x else row_get j row'
    end.
  (* the cell (i, j) of the matrix *)
  Definition sm_get (i j : nat) (m : smat2) : option A := row_get j (get_row i m).
End Subset.

(* ---- well-formedness (executable): what std::map / std::set / SepMatrix guarantee ---- *)
(* strictly ascending *)
Fixpoint ascb (l : list nat) : bool :=
  match l with
  | a :: (b :: _) as t => (a <? b) && ascb t
  | _ => true
  end.
(* std::map: first ids strictly ascending; every row strictly ascending *)
Definition keys_ascb {A} (m : smat2 A) : bool := ascb (map fst m).
Definition rows_ascb {A} (m : smat2 A) : bool := forallb (fun r => ascb (map fst (snd r))) m.
(* SepMatrix stores a pair under (smaller id, larger id): getSepPair / setSepPair, constraints.cpp:792-795, 867-890 *)
Definition upperb {A} (m : smat2 A) : bool := forallb (fun r => forallb (fun e => fst r <? fst e) (snd r)) m.

(* ---- the instances for SepPair ---- *)
Definition sm_transformClosedSubset (tf : SepTransform) := transformClosedSubset SepPair (transform tf).
Definition sm_transformOpenSubset (tf : SepTransform) := transformOpenSubset SepPair (transform tf).
Definition sm_transformOpenSubset_hoisted (tf : SepTransform) := transformOpenSubset_hoisted SepPair (transform tf).
Definition sm_spec_closed (tf : SepTransform) := spec_closed SepPair (transform tf).
Definition sm_spec_open (tf : SepTransform) := spec_open SepPair (transform tf).

(* the flat record list of SepPairModel.smatrix (flags cleared), to relate with m_transformClosedSubset / m_transformOpenSubset *)
Definition sm_flat (m : smat2 SepPair) : smatrix :=
  flat_map (fun r => map (fun e => mkEn (fst r) (fst e) (snd e) false) (snd r)) m.

(* the example of the seeded change C18-5 (seeded/C18-5/demo.cpp): nodes A=0 < B=1 < C=2 < D=3;
   D SOUTH of A by >= 50, C EAST of B by >= 50 (centre gaps), S = {C, D} *)
Definition abcd_m : smat2 SepPair :=
  [ (0, [(3, addSep CENTRE SOUTH INEQ (mkSg false 50) sp_default)]);
    (1, [(2, addSep CENTRE EAST INEQ (mkSg false 50) sp_default)]) ]%nat.
Definition abcd_ids : list nat := [2; 3]%nat.
