(* C19: the root that identifyRootNode (peeling.cpp:91-112) picks by the tree serial numbers is THE attachment point
   of its tree: it is the one node of the tree that is never peeled off as a leaf; every other node of the tree is a
   peeled leaf; if the core is not empty the root is the only node the tree shares with the core.
   Model: Dialect/PeelModel.v (build_h / h_add_stem / h_touch / update = Stem::addSelfToGraph with
   PeeledNode::nextTreeSerialNumber; identify_root = identifyRootNode).  No axioms. *)
From Coq Require Import List Arith Bool Lia.
Import ListNotations.
From Adapt Require Import Dialect.PeelModel Dialect.Peel.

(* ------------------------------------------------------------------ (a) the structure of the components of H *)
(* follow the stems leaf -> root; by wf_stems the stem whose leaf is the root of stem s comes after s in the list *)
Fixpoint comp_root (S : list stem) (v : nat) : nat :=
  match S with
  | [] => v
  | s :: rest => if Nat.eqb (fst s) v then comp_root rest (snd s) else comp_root rest v
  end.

Lemma comp_root_or S : forall v, comp_root S v = v \/ In (comp_root S v) (map snd S).
Proof.
  induction S as [|s r IH]; intro v; cbn [comp_root map]; [now left|].
  destruct (Nat.eqb (fst s) v).
  - right. destruct (IH (snd s)) as [E|E]; [left; symmetry; exact E | right; exact E].
  - destruct (IH v) as [E|E]; [now left | right; right; exact E].
Qed.

Lemma comp_root_nonleaf S : forall v, ~ In v (map fst S) -> comp_root S v = v.
Proof.
  induction S as [|s r IH]; intros v H; cbn [comp_root]; [reflexivity|]. cbn in H.
  destruct (Nat.eqb (fst s) v) eqn:E; [apply Nat.eqb_eq in E; tauto|]. apply IH. tauto.
Qed.

(* the component root is not the leaf of any stem *)
Lemma comp_root_not_leaf S : wf_stems S -> forall v, ~ In (comp_root S v) (map fst S).
Proof.
  induction S as [|s r IH]; cbn [comp_root map wf_stems]; intros W v; [intros []|].
  destruct W as (Hne & Hl & Hr & W).
  destruct (Nat.eqb (fst s) v) eqn:E.
  - intros [H|H]; [|exact (IH W _ H)].
    destruct (comp_root_or r (snd s)) as [E'|E']; [rewrite E' in H; contradiction | rewrite <- H in E'; contradiction].
  - apply Nat.eqb_neq in E. intros [H|H]; [|exact (IH W _ H)].
    destruct (comp_root_or r v) as [E'|E']; [rewrite E' in H; contradiction | rewrite <- H in E'; contradiction].
Qed.

Lemma comp_root_stem S : wf_stems S -> forall l p, In (l, p) S -> comp_root S l = comp_root S p.
Proof.
  induction S as [|s r IH]; cbn [comp_root wf_stems]; intros W l p Hin; [destruct Hin|].
  destruct W as (Hne & Hl & Hr & W). destruct Hin as [E|Hin].
  - subst s. cbn [fst snd] in *. rewrite Nat.eqb_refl.
    destruct (Nat.eqb l p) eqn:E; [apply Nat.eqb_eq in E; contradiction | reflexivity].
  - assert (H1 : fst s <> l) by (intro E; apply Hl; rewrite E; exact (in_map fst _ _ Hin)).
    assert (H2 : fst s <> p) by (intro E; apply Hr; rewrite E; exact (in_map snd _ _ Hin)).
    apply Nat.eqb_neq in H1, H2. rewrite H1, H2. apply IH; assumption.
Qed.

Lemma comp_root_reach_eq S : wf_stems S -> forall a b, reach (map stem_edge S) a b -> comp_root S a = comp_root S b.
Proof.
  intros W a b H. induction H as [a|a b c Hab _ IH]; [reflexivity|]. rewrite <- IH.
  destruct Hab as [Hin|Hin]; apply in_map_iff in Hin; destruct Hin as [[l p] [E Hs]]; unfold stem_edge in E; cbn in E;
    injection E as E1 E2; subst; [symmetry|]; apply comp_root_stem; assumption.
Qed.

Lemma comp_root_reach S : forall v, reach (map stem_edge S) v (comp_root S v).
Proof.
  induction S as [|s r IH]; intro v; cbn [comp_root map]; [constructor|].
  destruct (Nat.eqb (fst s) v) eqn:E.
  - apply Nat.eqb_eq in E. subst v. apply reach_step with (b := snd s).
    + right. left. reflexivity.
    + eapply reach_mono; [|apply IH]. apply incl_tl, incl_refl.
  - eapply reach_mono; [|apply IH]. apply incl_tl, incl_refl.
Qed.

(* along the stems any strictly increasing labelling of (leaf, root) is maximal, strictly, at the component root *)
Lemma comp_root_ser (ser : nat -> nat) S : wf_stems S ->
  (forall l p, In (l, p) S -> ser l < ser p) ->
  forall v, ser v <= ser (comp_root S v) /\ (In v (map fst S) -> ser v < ser (comp_root S v)).
Proof.
  induction S as [|s r IH]; cbn [comp_root map wf_stems]; intros W Hlt v; [split; [lia | intros []]|].
  destruct W as (Hne & Hl & Hr & W).
  assert (Hlt' : forall l p, In (l, p) r -> ser l < ser p) by (intros l p H; apply Hlt; now right).
  specialize (IH W Hlt').
  destruct (Nat.eqb (fst s) v) eqn:E.
  - apply Nat.eqb_eq in E. subst v.
    assert (H : ser (fst s) < ser (snd s)) by (apply Hlt; left; destruct s; reflexivity).
    pose proof (proj1 (IH (snd s))). split; [lia | intros _; lia].
  - apply Nat.eqb_neq in E. split; [apply IH|]. intros [H|H]; [contradiction | apply IH; assumption].
Qed.

(* ------------------------------------------------------------------ (b) the serial numbers *)
Lemma lookup_app_some v m m' x : lookup v m = Some x -> lookup v (m ++ m') = Some x.
Proof. induction m as [|[k y] r IH]; cbn; [discriminate|]. destruct (Nat.eqb k v); auto. Qed.
Lemma lookup_app_none v m m' : lookup v m = None -> lookup v (m ++ m') = lookup v m'.
Proof. induction m as [|[k y] r IH]; cbn; [reflexivity|]. destruct (Nat.eqb k v); [discriminate | auto]. Qed.

Lemma lookup_update_same v x m : lookup v (update v x m) = Some x.
Proof.
  induction m as [|[k y] r IH]; cbn; [now rewrite Nat.eqb_refl|].
  destruct (Nat.eqb k v) eqn:E; cbn; rewrite E; auto.
Qed.
Lemma lookup_update_other u v x m : u <> v -> lookup u (update v x m) = lookup u m.
Proof.
  intro Hne. induction m as [|[k y] r IH]; cbn.
  - destruct (Nat.eqb v u) eqn:E; [apply Nat.eqb_eq in E; congruence | reflexivity].
  - destruct (Nat.eqb k v) eqn:E; cbn.
    + apply Nat.eqb_eq in E. subst k.
      destruct (Nat.eqb v u) eqn:E'; [apply Nat.eqb_eq in E'; congruence | reflexivity].
    + destruct (Nat.eqb k u); auto.
Qed.

Lemma touch_lookup_some u v h x : lookup u (h_serial h) = Some x -> lookup u (h_serial (h_touch v h)) = Some x.
Proof.
  intro H. unfold h_touch. destruct (lookup v (h_serial h)); [assumption|]. cbn. apply lookup_app_some. assumption.
Qed.
Lemma touch_lookup_other u v h : u <> v -> lookup u (h_serial (h_touch v h)) = lookup u (h_serial h).
Proof.
  intro Hne. unfold h_touch. destruct (lookup v (h_serial h)); [reflexivity|]. cbn.
  destruct (lookup u (h_serial h)) eqn:E; [apply lookup_app_some; assumption|].
  rewrite lookup_app_none by assumption. cbn.
  destruct (Nat.eqb v u) eqn:E'; [apply Nat.eqb_eq in E'; congruence | reflexivity].
Qed.
Lemma touch_lookup_self v h : exists x, lookup v (h_serial (h_touch v h)) = Some x.
Proof. apply lookup_keys. apply touch_keys. now left. Qed.

(* every serial number in use is below the next free one *)
Definition hwf (h : hstate) : Prop := forall v x, lookup v (h_serial h) = Some x -> x < h_next h.

Lemma hwf_empty : hwf h_empty.
Proof. intros v x H. discriminate. Qed.

Lemma touch_hwf v h : hwf h -> hwf (h_touch v h).
Proof.
  intro W. unfold h_touch. destruct (lookup v (h_serial h)) eqn:E; [assumption|].
  intros u x. cbn. intro H. destruct (lookup u (h_serial h)) eqn:Eu.
  - rewrite (lookup_app_some _ _ _ _ Eu) in H. inversion H; subst. apply W in Eu. lia.
  - rewrite lookup_app_none in H by assumption. cbn in H. destruct (Nat.eqb v u); inversion H; lia.
Qed.

Lemma add_hwf h s : hwf h -> hwf (h_add_stem h s).
Proof.
  intro W. pose proof (touch_hwf (snd s) _ (touch_hwf (fst s) _ W)) as W2.
  unfold h_add_stem. intros u x. cbn. intro H.
  destruct (Nat.eq_dec u (snd s)) as [->|Hne].
  - rewrite lookup_update_same in H. inversion H; lia.
  - rewrite lookup_update_other in H by assumption. apply W2 in H. lia.
Qed.

(* a stem does not change the serial numbers of the nodes it does not mention *)
Lemma add_lookup_other h s v : v <> fst s -> v <> snd s ->
  lookup v (h_serial (h_add_stem h s)) = lookup v (h_serial h).
Proof.
  intros H1 H2. unfold h_add_stem. cbn. rewrite lookup_update_other by assumption.
  rewrite !touch_lookup_other by assumption. reflexivity.
Qed.

(* serial numbers only grow *)
Lemma add_lookup_mono h s v x : hwf h -> lookup v (h_serial h) = Some x ->
  exists y, lookup v (h_serial (h_add_stem h s)) = Some y /\ x <= y.
Proof.
  intros W H. pose proof (touch_hwf (snd s) _ (touch_hwf (fst s) _ W)) as W2.
  pose proof (touch_lookup_some v (snd s) _ x (touch_lookup_some v (fst s) _ x H)) as H2.
  unfold h_add_stem. cbn. destruct (Nat.eq_dec v (snd s)) as [->|Hne].
  - rewrite lookup_update_same. eexists. split; [reflexivity|]. apply W2 in H2. lia.
  - rewrite lookup_update_other by assumption. exists x. split; [assumption | lia].
Qed.

(* right after Stem(l,p)::addSelfToGraph the root has the larger serial number *)
Lemma add_stem_lt h l p : hwf h -> l <> p ->
  exists x y, lookup l (h_serial (h_add_stem h (l, p))) = Some x /\
              lookup p (h_serial (h_add_stem h (l, p))) = Some y /\ x < y.
Proof.
  intros W Hne. pose proof (touch_hwf p _ (touch_hwf l _ W)) as W2.
  destruct (touch_lookup_self l h) as [x Hx]. apply (touch_lookup_some l p) in Hx.
  exists x. eexists. unfold h_add_stem. cbn [fst snd h_serial]. split; [|split].
  - rewrite lookup_update_other by assumption. exact Hx.
  - apply lookup_update_same.
  - apply W2 in Hx. exact Hx.
Qed.

Lemma fold_hwf S : forall h, hwf h -> hwf (fold_left h_add_stem S h).
Proof. induction S as [|s r IH]; intros h W; cbn [fold_left]; [assumption|]. apply IH, add_hwf, W. Qed.

Lemma fold_lookup_other S : forall h v, ~ In v (map fst S) -> ~ In v (map snd S) ->
  lookup v (h_serial (fold_left h_add_stem S h)) = lookup v (h_serial h).
Proof.
  induction S as [|s r IH]; intros h v H1 H2; cbn [fold_left]; [reflexivity|]. cbn in H1, H2.
  rewrite IH by tauto. apply add_lookup_other; intro E; subst v; tauto.
Qed.

Lemma fold_lookup_mono S : forall h v x, hwf h -> lookup v (h_serial h) = Some x ->
  exists y, lookup v (h_serial (fold_left h_add_stem S h)) = Some y /\ x <= y.
Proof.
  induction S as [|s r IH]; intros h v x W H; cbn [fold_left]; [exists x; split; [assumption | lia]|].
  destruct (add_lookup_mono h s v x W H) as [y [Hy Hxy]].
  destruct (IH _ v y (add_hwf h s W) Hy) as [z [Hz Hyz]]. exists z. split; [assumption | lia].
Qed.

(* after all stems: every stem's root has a larger serial number than its leaf *)
Lemma build_stem_lt S : forall h, hwf h -> wf_stems S -> forall l p, In (l, p) S ->
  serial_of (fold_left h_add_stem S h) l < serial_of (fold_left h_add_stem S h) p.
Proof.
  induction S as [|s r IH]; intros h W Wf l p Hin; [destruct Hin|].
  cbn [wf_stems] in Wf. destruct Wf as (Hne & Hl & Hr & Wf). cbn [fold_left].
  destruct Hin as [E|Hin]; [|apply IH; [apply add_hwf, W | assumption | assumption]].
  subst s. cbn [fst snd] in *.
  destruct (add_stem_lt h l p W Hne) as (x & y & Hx & Hy & Hxy).
  unfold serial_of. rewrite (fold_lookup_other r _ l Hl Hr), Hx.
  destruct (fold_lookup_mono r _ p y (add_hwf h (l, p) W) Hy) as [z [Hz Hyz]]. rewrite Hz. lia.
Qed.

(* identifyRootNode: the fold returns the node whose serial number is strictly the largest *)
Definition pick (ser : nat -> nat) (acc : nat * nat) (v : nat) : nat * nat :=
  if Nat.leb (snd acc) (ser v) then (v, ser v) else acc.

Lemma pick_stay ser r L : (forall v, In v L -> v <> r -> ser v < ser r) ->
  fold_left (pick ser) L (r, ser r) = (r, ser r).
Proof.
  induction L as [|x L IH]; intro H; cbn [fold_left]; [reflexivity|].
  assert (E : pick ser (r, ser r) x = (r, ser r)).
  { unfold pick. cbn [snd]. destruct (Nat.eq_dec x r) as [->|Hne].
    - now rewrite Nat.leb_refl.
    - pose proof (H x (or_introl eq_refl) Hne). destruct (Nat.leb (ser r) (ser x)) eqn:E; [apply Nat.leb_le in E; lia | reflexivity]. }
  rewrite E. apply IH. intros v Hv. apply H. now right.
Qed.

Lemma pick_find ser r L : forall acc, In r L -> (forall v, In v L -> v <> r -> ser v < ser r) ->
  snd acc <= ser r -> fold_left (pick ser) L acc = (r, ser r).
Proof.
  induction L as [|x L IH]; intros acc Hin H Hacc; [destruct Hin|]. cbn [fold_left].
  assert (H' : forall v, In v L -> v <> r -> ser v < ser r) by (intros v Hv; apply H; now right).
  destruct (Nat.eq_dec x r) as [->|Hne].
  - unfold pick at 2. apply Nat.leb_le in Hacc. rewrite Hacc. apply pick_stay. assumption.
  - destruct Hin as [?|Hin]; [contradiction|]. apply IH; [assumption | assumption |].
    pose proof (H x (or_introl eq_refl) Hne). unfold pick. destruct (Nat.leb (snd acc) (ser x)); cbn [snd]; lia.
Qed.

Lemma identify_root_max h c r : In r c -> (forall v, In v c -> v <> r -> serial_of h v < serial_of h r) ->
  identify_root h c = r.
Proof.
  intros Hin H. unfold identify_root.
  change (fst (fold_left (pick (serial_of h)) (sort_nat c) (0, 0)) = r).
  rewrite (pick_find (serial_of h) r); [reflexivity | apply sort_nat_In; assumption | | cbn; lia].
  intros v Hv. apply H. apply sort_nat_In. assumption.
Qed.

(* ------------------------------------------------------------------ (c) the theorem *)
(* all facts at once; the extra first clause says that the root is determined by the stems alone (no serial numbers) *)
Lemma peel_root_facts g core trees :
  simple_graph g -> connected g -> peel g = Ok (core, trees) ->
  exists stems, Final g core stems /\
    forall t, In t trees ->
      (forall v, In v (t_nodes t) -> comp_root stems v = t_root t) /\
      In (t_root t) (t_nodes t) /\
      ~ In (t_root t) (map fst stems) /\
      (forall v, In v (t_nodes t) -> v <> t_root t -> In v (map fst stems)) /\
      (g_nodes core <> [] ->
       In (t_root t) (g_nodes core) /\ forall v, In v (t_nodes t) -> In v (g_nodes core) -> v = t_root t).
Proof.
  intros S C H. unfold peel in H.
  destruct (peel_rounds _ g []) as [[core' stems]| |] eqn:Hr; try discriminate.
  pose proof (peel_rounds_spec g _ core' stems S C Hr) as F.
  set (h := build_h stems) in *.
  assert (He : h_edges h = map stem_edge stems) by (unfold h, build_h; rewrite build_h_edges; reflexivity).
  rewrite He in H.
  set (hn := sort_nat (map fst (h_serial h))) in *.
  destruct (conncomps _ (map stem_edge stems) hn) as [comps|] eqn:Hc; [|discriminate].
  inversion H; subst core trees. clear H. exists stems. split; [assumption|].
  pose proof (fin_wf _ _ _ F) as Wf.
  assert (Hkeys : forall u, In u hn <-> In u (map fst stems) \/ In u (map snd stems)).
  { intro u. unfold hn. rewrite sort_nat_In. unfold h, build_h. rewrite build_h_keys. cbn. tauto. }
  assert (Hnd : NoDup hn) by (unfold hn, h, build_h; apply sort_nat_NoDup, build_h_NoDup; constructor).
  assert (Hends : forall a b, adj (map stem_edge stems) a b -> In a hn /\ In b hn).
  { assert (Hlp : forall l p, In (l, p) stems -> In l hn /\ In p hn).
    { intros l p Hs. rewrite !Hkeys. split; [left | right]; apply in_map_iff; exists (l, p); now split. }
    intros a b [Hin|Hin]; apply in_map_iff in Hin; destruct Hin as [[l p] [E Hs]]; unfold stem_edge in E; cbn in E;
      injection E as E1 E2; rewrite <- E1, <- E2; destruct (Hlp l p Hs); tauto. }
  assert (Hcl : forall x y, In x hn -> reach (map stem_edge stems) x y -> In y hn).
  { intros x y Hx Hxy. apply (closed_reach (map stem_edge stems) (fun z => In z hn)) with (a := x); auto.
    intros u w _ Ha. apply (Hends u w Ha). }
  destruct (conncomps_spec _ _ _ _ Hc Hnd Hcl) as (N & Sx & Cs).
  (* the serial numbers grow along every stem *)
  assert (Hser : forall l p, In (l, p) stems -> serial_of h l < serial_of h p).
  { intros l p Hs. unfold h, build_h. apply build_stem_lt; [apply hwf_empty | assumption | assumption]. }
  intros t Ht. apply in_map_iff in Ht. destruct Ht as [c [<- Hcin]]. cbn [t_root t_nodes].
  destruct (Cs c Hcin) as [v0 [Hv0 Hreach]].
  set (r := comp_root stems v0).
  assert (Hrc : In r c) by (apply Hreach; apply comp_root_reach).
  assert (Hrl : ~ In r (map fst stems)) by (apply comp_root_not_leaf; assumption).
  assert (Hcr : forall v, In v c -> comp_root stems v = r).
  { intros v Hv. symmetry. apply comp_root_reach_eq; [assumption | apply Hreach; assumption]. }
  assert (Hleaf : forall v, In v c -> v <> r -> In v (map fst stems)).
  { intros v Hv Hne. destruct (in_dec Nat.eq_dec v (map fst stems)) as [Hi|Hi]; [assumption|].
    exfalso. apply Hne. rewrite <- (Hcr v Hv). symmetry. apply comp_root_nonleaf. assumption. }
  assert (Hid : identify_root h c = r).
  { apply identify_root_max; [assumption|]. intros v Hv Hne.
    rewrite <- (Hcr v Hv). apply (comp_root_ser (serial_of h) stems Wf Hser v). apply Hleaf; assumption. }
  rewrite Hid. split; [assumption|]. split; [assumption|]. split; [assumption|]. split; [assumption|].
  intro Hcore.
  assert (Hrcore : In r (g_nodes core')).
  { assert (Hrn : In r hn) by (apply Sx; apply in_concat; exists c; tauto).
    apply Hkeys in Hrn. destruct Hrn as [Hrn|Hrn]; [contradiction|].
    apply in_map_iff in Hrn. destruct Hrn as [s [E Hs]].
    destruct (fin_roots _ _ _ F Hcore s Hs) as [Hin|Hin]; rewrite E in Hin; [assumption | contradiction]. }
  split; [assumption|].
  intros v Hv Hvc. destruct (Nat.eq_dec v r) as [E|Hne]; [assumption|]. exfalso.
  pose proof (fin_nodup _ _ _ F) as ND. apply NoDup_app_elim in ND. destruct ND as (_ & _ & D).
  apply (D v Hvc). apply Hleaf; assumption.
Qed.


Theorem peel_root_unique g core trees :
  simple_graph g -> connected g -> peel g = Ok (core, trees) ->
  exists stems, Final g core stems /\
    forall t, In t trees ->
      In (t_root t) (t_nodes t) /\
      ~ In (t_root t) (map fst stems) /\
      (forall v, In v (t_nodes t) -> v <> t_root t -> In v (map fst stems)) /\
      (g_nodes core <> [] ->
       In (t_root t) (g_nodes core) /\ forall v, In v (t_nodes t) -> In v (g_nodes core) -> v = t_root t).
Proof.
  intros S C H. destruct (peel_root_facts g core trees S C H) as [stems [F U]].
  exists stems. split; [assumption|]. intros t Ht. apply (U t Ht).
Qed.

(* ------------------------------------------------------------------ non-vacuity *)
(* a triangle 0-1-2 with a tree of depth 2 hanging at node 2: 2-3, 3-4, 3-5, 5-6, 3-7 *)
Definition ex_cat : graph :=
  mkG [0; 1; 2; 3; 4; 5; 6; 7] [(0, 1); (1, 2); (2, 0); (2, 3); (3, 4); (3, 5); (5, 6); (3, 7)].
Definition ex_cat_stems : list stem := [(4, 3); (6, 5); (7, 3); (5, 3); (3, 2)].

Lemma ex_cat_simple : simple_graph ex_cat.
Proof.
  split; [|split].
  - repeat constructor; cbn; intuition lia.
  - intros e He. cbn in He. repeat (destruct He as [<-|He]; [cbn; repeat split; (lia || auto 10) |]). destruct He.
  - cbn. repeat constructor; cbn; intuition congruence.
Qed.
Lemma ex_cat_connected : connected ex_cat.
Proof.
  eapply (connected_by_explore ex_cat 200 0); [vm_compute; reflexivity|].
  intros x Hx. cbn in *. intuition.
Qed.

(* the lemmas about the stems and the serial numbers: hypotheses hold on the stems of ex_cat; node 3 is touched last
   among the non-roots and gets serial 8, the root 2 gets 10 *)
Example serials_nonvacuous :
  wf_stems ex_cat_stems /\ hwf (build_h ex_cat_stems) /\
  peel_rounds 9 ex_cat [] = Ok (mkG [0; 1; 2] [(0, 1); (1, 2); (2, 0)], ex_cat_stems) /\
  h_serial (build_h ex_cat_stems) = [(4, 0); (3, 8); (6, 3); (5, 5); (7, 6); (2, 10)] /\
  map (comp_root ex_cat_stems) [2; 3; 4; 5; 6; 7] = [2; 2; 2; 2; 2; 2] /\
  (forall l p, In (l, p) ex_cat_stems -> serial_of (build_h ex_cat_stems) l < serial_of (build_h ex_cat_stems) p) /\
  identify_root (build_h ex_cat_stems) [6; 5; 7; 4; 3; 2] = 2.
Proof.
  assert (W : wf_stems ex_cat_stems) by (cbn; intuition lia).
  split; [exact W|]. split; [apply fold_hwf, hwf_empty|]. split; [vm_compute; reflexivity|].
  split; [vm_compute; reflexivity|]. split; [vm_compute; reflexivity|]. split.
  - intros l p Hs. apply build_stem_lt; [apply hwf_empty | exact W | exact Hs].
  - apply identify_root_max; [cbn; tauto|]. intros v Hv Hne. cbn in Hv.
    repeat (destruct Hv as [<-|Hv]; [vm_compute; lia || congruence|]). destruct Hv.
Qed.

(* the theorem: hypotheses hold with a non-empty core (ex_graph: two trees, roots 1 and 2; ex_cat: a deeper tree,
   root 2) and with the empty core of the double-centre case (path 0-1-2-3: the root 2 is one of the two centres),
   and the conclusion read off for these runs *)
Example peel_root_unique_nonvacuous :
  simple_graph ex_graph /\ connected ex_graph /\
  (exists core trees, peel ex_graph = Ok (core, trees) /\ g_nodes core = [0; 1; 2] /\
     map t_root trees = [1; 2] /\ map t_nodes trees = [[5; 1]; [4; 3; 2]]) /\
  simple_graph ex_cat /\ connected ex_cat /\
  (exists core trees, peel ex_cat = Ok (core, trees) /\ g_nodes core = [0; 1; 2] /\
     map t_root trees = [2] /\ map t_nodes trees = [[6; 5; 7; 4; 3; 2]]) /\
  simple_graph ex_path4 /\ connected ex_path4 /\
  (exists core trees, peel ex_path4 = Ok (core, trees) /\ g_nodes core = [] /\
     map t_root trees = [2] /\ map t_nodes trees = [[3; 2; 1; 0]]) /\
  (* the conclusion of peel_root_unique for ex_cat, instantiated *)
  (exists stems, Final ex_cat (mkG [0; 1; 2] [(0, 1); (1, 2); (2, 0)]) stems /\
     ~ In 2 (map fst stems) /\ (forall v, In v [6; 5; 7; 4; 3; 2] -> v <> 2 -> In v (map fst stems)) /\
     In 2 [0; 1; 2]).
Proof.
  split; [exact ex_graph_simple|]. split; [exact ex_graph_connected|].
  split; [eexists; eexists; split; [vm_compute; reflexivity | cbn; auto]|].
  split; [exact ex_cat_simple|]. split; [exact ex_cat_connected|].
  split; [eexists; eexists; split; [vm_compute; reflexivity | cbn; auto]|].
  split; [exact ex_path4_simple|]. split; [exact ex_path4_connected|].
  split; [eexists; eexists; split; [vm_compute; reflexivity | cbn; auto]|].
  assert (P : peel ex_cat = Ok (mkG [0; 1; 2] [(0, 1); (1, 2); (2, 0)],
                               [mkT 2 [6; 5; 7; 4; 3; 2] [(3, 4); (5, 6); (3, 7); (3, 5); (2, 3)]]))
    by (vm_compute; reflexivity).
  destruct (peel_root_unique _ _ _ ex_cat_simple ex_cat_connected P) as [stems [F U]].
  exists stems. split; [exact F|].
  destruct (U _ (or_introl eq_refl)) as (_ & H2 & H3 & H4). cbn [t_root t_nodes] in *.
  split; [exact H2|]. split; [exact H3|]. apply H4. cbn. discriminate.
Qed.

Print Assumptions peel_root_unique.
Print Assumptions peel_root_facts.
Print Assumptions peel_root_unique_nonvacuous.
