(* C19, OrthoPlanariser::planarise (V part): the checker planarise_ok of PlanariseCheckModel.v is sound for the
   declarative conditions planarise_spec, clause by clause; the geometric decider meet_b is sound AND complete for
   "the open segments share a point".  planarise itself is not modelled: the checker is run on its real output. *)
From Adapt Require Import Num.Qaux Geom.GeomSpec Geom.GeomSpecDec Dialect.PeelModel Dialect.Peel Dialect.PeelCheck
  Dialect.PlanariseCheckModel.
From Coq Require Import Arith.
Local Open Scope Q_scope.

(* ------------------------------------------------------------------ geometry *)
Lemma interiors_meet_sym a b c d : interiors_meet a b c d -> interiors_meet c d a b.
Proof. intros (p & ? & ?). exists p. tauto. Qed.

(* one-dimensional core: the intervals (0,1) and (g, g+l) (or (g+l, g)) share the point s; then they share the
   midpoint of two of the four end points *)
Lemma one_d s g l :
  0 < s -> s < 1 -> (g < s /\ s < g + l) \/ (g + l < s /\ s < g) ->
  exists m, (m == 1 # 2 \/ m == (1 # 2) * (g + (g + l)) \/ m == (1 # 2) * g \/ m == (1 # 2) * (g + l) \/
             m == (1 # 2) * (1 + g) \/ m == (1 # 2) * (1 + (g + l))) /\
            0 < m /\ m < 1 /\ ((g < m /\ m < g + l) \/ (g + l < m /\ m < g)).
Proof.
  intros H0 H1 [[Hg Hd]|[Hd Hg]].
  - destruct (Qlt_le_dec 0 g) as [G|G], (Qlt_le_dec (g + l) 1) as [L|L].
    + exists ((1 # 2) * (g + (g + l))). split; [right; left; reflexivity|]. repeat split; lra.
    + exists ((1 # 2) * (1 + g)). split; [do 4 right; left; reflexivity|]. repeat split; lra.
    + exists ((1 # 2) * (g + l)). split; [do 3 right; left; reflexivity|]. repeat split; lra.
    + exists (1 # 2). split; [left; reflexivity|]. repeat split; lra.
  - destruct (Qlt_le_dec 0 (g + l)) as [G|G], (Qlt_le_dec g 1) as [L|L].
    + exists ((1 # 2) * (g + (g + l))). split; [right; left; reflexivity|]. repeat split; lra.
    + exists ((1 # 2) * (1 + (g + l))). split; [do 5 right; reflexivity|]. repeat split; lra.
    + exists ((1 # 2) * g). split; [do 2 right; left; reflexivity|]. repeat split; lra.
    + exists (1 # 2). split; [left; reflexivity|]. repeat split; lra.
Qed.

(* a point with parameter m on the carrier line of ab (origin a, unit b - a) lies strictly inside ab and inside
   cd when c, d have parameters g, g + l *)
Lemma cand_ok a b c d q m g l :
  ~ pt_eq a b -> ~ l == 0 ->
  px c == px a + g * (px b - px a) -> py c == py a + g * (py b - py a) ->
  px d == px a + (g + l) * (px b - px a) -> py d == py a + (g + l) * (py b - py a) ->
  px q == px a + m * (px b - px a) -> py q == py a + m * (py b - py a) ->
  0 < m -> m < 1 -> (g < m /\ m < g + l) \/ (g + l < m /\ m < g) ->
  spec_pointOnLine a b q && spec_pointOnLine c d q = true.
Proof.
  intros Hab Hl Cx Cy Dx Dy Qx Qy M0 M1 Hm.
  apply andb_true_iff. split; apply spec_pointOnLine_ok; unfold strictly_between.
  - split; [exact Hab|]. exists m. unfold pt_eq, lerp; cbn [px py]. repeat split; lra.
  - split.
    + unfold pt_eq. intros [Ex Ey]. apply Hab. unfold pt_eq.
      assert (l * (px b - px a) == 0) by lra. assert (l * (py b - py a) == 0) by lra.
      apply Qmult_integral in H. apply Qmult_integral in H0. split; [destruct H | destruct H0]; try contradiction; lra.
    + exists ((m - g) / l).
      assert (E : (m - g) / l * l == m - g) by (field; exact Hl).
      unfold pt_eq, lerp; cbn [px py]. repeat split.
      * set (t' := (m - g) / l) in *. destruct Hm as [[? ?]|[? ?]]; nra.
      * set (t' := (m - g) / l) in *. destruct Hm as [[? ?]|[? ?]]; nra.
      * rewrite Qx, Cx, Dx.
        assert (E3 : px a + g * (px b - px a) + (m - g) / l * (px a + (g + l) * (px b - px a) - (px a + g * (px b - px a)))
                     == px a + g * (px b - px a) + ((m - g) / l * l) * (px b - px a)) by ring.
        rewrite E3, E. ring.
      * rewrite Qy, Cy, Dy.
        assert (E3 : py a + g * (py b - py a) + (m - g) / l * (py a + (g + l) * (py b - py a) - (py a + g * (py b - py a)))
                     == py a + g * (py b - py a) + ((m - g) / l * l) * (py b - py a)) by ring.
        rewrite E3, E. ring.
Qed.

(* parallel direction vectors: v = l * u for a non-zero u *)
Lemma parallel_factor ux uy vx vy :
  ~ (ux == 0 /\ uy == 0) -> ux * vy - uy * vx == 0 -> exists l, vx == l * ux /\ vy == l * uy.
Proof.
  intros Hu Hd. destruct (Qeq_dec ux 0) as [E|E].
  - assert (Huy : ~ uy == 0) by tauto. exists (vy / uy). split.
    + assert (uy * vx == 0) by (rewrite E in Hd; lra). apply Qmult_integral in H. destruct H; [contradiction|].
      rewrite H, E. ring.
    + field. exact Huy.
  - exists (vx / ux). split.
    + field. exact E.
    + assert (E2 : vx / ux * uy == (uy * vx) / ux) by (field; exact E). rewrite E2.
      assert (E3 : uy * vx == ux * vy) by lra. rewrite E3. field. exact E.
Qed.

Theorem meet_b_ok a b c d : meet_b a b c d = true <-> interiors_meet a b c d.
Proof.
  unfold meet_b. rewrite orb_true_iff. split.
  - intros [H|H].
    + apply spec_segmentIntersect_ok in H. destruct H as (s & t & S0 & S1 & T0 & T1 & [Ex Ey] & Hn).
      unfold lerp in Ex, Ey; cbn [px py] in Ex, Ey.
      exists (lerp a b s). split; unfold strictly_between.
      * split; [|exists s; repeat split; auto; reflexivity].
        intros [E1 E2]. apply Hn. rewrite E1, E2. ring.
      * split; [|exists t; unfold pt_eq, lerp; cbn [px py]; repeat split; auto].
        intros [E1 E2]. apply Hn. rewrite E1, E2. ring.
    + unfold overlap_b in H. apply existsb_exists in H. destruct H as (p & _ & H).
      apply andb_true_iff in H. destruct H as [H1 H2]. apply spec_pointOnLine_ok in H1, H2. exists p. tauto.
  - intros (p & (Hab & s & S0 & S1 & [Px Py]) & (Hcd & t & T0 & T1 & [Px' Py'])).
    unfold lerp in Px, Py, Px', Py'; cbn [px py] in Px, Py, Px', Py'.
    destruct (Qeq_dec ((px b - px a) * (py d - py c) - (py b - py a) * (px d - px c)) 0) as [Hd|Hd].
    + right.
      destruct (parallel_factor (px b - px a) (py b - py a) (px d - px c) (py d - py c)) as (l & Lx & Ly).
      { intros [E1 E2]. apply Hab. split; lra. }
      { lra. }
      assert (Hl : ~ l == 0).
      { intro E. apply Hcd. rewrite E in Lx, Ly. split; lra. }
      set (g := s - t * l).
      assert (Cx : px c == px a + g * (px b - px a)) by (unfold g; nra).
      assert (Cy : py c == py a + g * (py b - py a)) by (unfold g; nra).
      assert (Dx : px d == px a + (g + l) * (px b - px a)) by (unfold g; nra).
      assert (Dy : py d == py a + (g + l) * (py b - py a)) by (unfold g; nra).
      assert (Hs : (g < s /\ s < g + l) \/ (g + l < s /\ s < g)).
      { unfold g. destruct (Qlt_le_dec 0 l); [left | right]; nra. }
      destruct (one_d s g l S0 S1 Hs) as (m & Hm & M0 & M1 & Mb).
      unfold overlap_b. apply existsb_exists.
      destruct Hm as [E|[E|[E|[E|[E|E]]]]].
      * exists (mid a b). split; [cbn; tauto|].
        apply (cand_ok a b c d _ m g l); auto; unfold mid; cbn [px py]; rewrite E; ring.
      * exists (mid c d). split; [cbn; tauto|].
        apply (cand_ok a b c d _ m g l); auto; unfold mid; cbn [px py]; rewrite E; [rewrite Cx, Dx | rewrite Cy, Dy]; ring.
      * exists (mid a c). split; [cbn; tauto|].
        apply (cand_ok a b c d _ m g l); auto; unfold mid; cbn [px py]; rewrite E; [rewrite Cx | rewrite Cy]; ring.
      * exists (mid a d). split; [cbn; tauto|].
        apply (cand_ok a b c d _ m g l); auto; unfold mid; cbn [px py]; rewrite E; [rewrite Dx | rewrite Dy]; ring.
      * exists (mid b c). split; [cbn; tauto|].
        apply (cand_ok a b c d _ m g l); auto; unfold mid; cbn [px py]; rewrite E; [rewrite Cx | rewrite Cy]; ring.
      * exists (mid b d). split; [cbn; tauto|].
        apply (cand_ok a b c d _ m g l); auto; unfold mid; cbn [px py]; rewrite E; [rewrite Dx | rewrite Dy]; ring.
    + left. apply spec_segmentIntersect_ok. exists s, t. unfold pt_eq, lerp; cbn [px py].
      repeat split; auto; lra.
Qed.

(* the bounding-box pre-test is sound: strictly separated boxes cannot share a point *)
Lemma lt4_spec a b c d : lt4 a b c d = true <-> a < c /\ a < d /\ b < c /\ b < d.
Proof.
  unfold lt4.
  destruct (Qltb a c) eqn:E1; [|apply Qltb_false in E1; split; [discriminate | lra]].
  destruct (Qltb a d) eqn:E2; [|apply Qltb_false in E2; split; [discriminate | lra]].
  destruct (Qltb b c) eqn:E3; [|apply Qltb_false in E3; split; [discriminate | lra]].
  apply Qltb_spec in E1, E2, E3. rewrite Qltb_spec. tauto.
Qed.

Lemma between_coord a b t x : 0 < t -> t < 1 -> x == a + t * (b - a) -> (a <= x /\ x <= b) \/ (b <= x /\ x <= a).
Proof. intros. destruct (Qlt_le_dec a b); [left | right]; nra. Qed.

Lemma bbox_sep_sound s1 s2 :
  bbox_sep s1 s2 = true -> ~ interiors_meet (fst s1) (snd s1) (fst s2) (snd s2).
Proof.
  unfold bbox_sep. intros H (p & (_ & s & S0 & S1 & [Px Py]) & (_ & t & T0 & T1 & [Px' Py'])).
  unfold lerp in Px, Py, Px', Py'; cbn [px py] in Px, Py, Px', Py'.
  pose proof (between_coord _ _ _ _ S0 S1 Px) as B1. pose proof (between_coord _ _ _ _ T0 T1 Px') as B2.
  pose proof (between_coord _ _ _ _ S0 S1 Py) as B3. pose proof (between_coord _ _ _ _ T0 T1 Py') as B4.
  destruct (lt4 (px (fst s1)) (px (snd s1)) (px (fst s2)) (px (snd s2))) eqn:E1; [apply lt4_spec in E1; lra|].
  destruct (lt4 (px (fst s2)) (px (snd s2)) (px (fst s1)) (px (snd s1))) eqn:E2; [apply lt4_spec in E2; lra|].
  destruct (lt4 (py (fst s1)) (py (snd s1)) (py (fst s2)) (py (snd s2))) eqn:E3; [apply lt4_spec in E3; lra|].
  apply lt4_spec in H. lra.
Qed.

Theorem segs_meet_b_ok s1 s2 :
  segs_meet_b s1 s2 = true <-> interiors_meet (fst s1) (snd s1) (fst s2) (snd s2).
Proof.
  unfold segs_meet_b. destruct (bbox_sep s1 s2) eqn:E.
  - split; [discriminate|]. intro H. exfalso. exact (bbox_sep_sound _ _ E H).
  - apply meet_b_ok.
Qed.

(* ------------------------------------------------------------------ list helpers *)
Lemma pairwise_spec {A} (f : A -> A -> bool) l :
  pairwise f l = true <-> ForallOrdPairs (fun a b => f a b = true) l.
Proof.
  induction l as [|x r IH]; cbn [pairwise].
  - split; [constructor | reflexivity].
  - rewrite andb_true_iff, forallb_forall, IH. split.
    + intros [H1 H2]. constructor; [apply Forall_forall; exact H1 | exact H2].
    + intro H. inversion H; subst. split; [apply Forall_forall; assumption | assumption].
Qed.

Lemma ForallOrdPairs_impl {A} (P Q : A -> A -> Prop) l :
  (forall a b, P a b -> Q a b) -> ForallOrdPairs P l -> ForallOrdPairs Q l.
Proof.
  intros HPQ H. induction H; constructor; auto.
  eapply Forall_impl; [|eassumption]. intros; apply HPQ; assumption.
Qed.

Lemma all_some_spec {A} (l : list (option A)) xs : all_some l = Some xs <-> l = map Some xs.
Proof.
  revert xs. induction l as [|o r IH]; intro xs; cbn [all_some].
  - split; intro H; [inversion H; reflexivity | destruct xs; [reflexivity | discriminate]].
  - destruct o as [x|].
    + destruct (all_some r) as [ys|] eqn:E.
      * split; intro H.
        -- inversion H; subst. cbn. f_equal. apply IH. reflexivity.
        -- destruct xs as [|y ys']; [discriminate|]. cbn [map] in H.
           assert (Hx : x = y) by congruence. assert (Hr : r = map Some ys') by congruence.
           apply IH in Hr. congruence.
      * split; intro H; [discriminate|]. destruct xs as [|y ys']; [discriminate|]. cbn [map] in H.
        assert (Hr : r = map Some ys') by congruence. apply IH in Hr. discriminate.
    + split; intro H; [discriminate | destruct xs; discriminate].
Qed.

(* ------------------------------------------------------------------ clause: no two edges cross or overlap *)
Definition nocross_spec (res : list pnode) (redges : list edge) : Prop :=
  exists segs, map (seg_of res) redges = map Some segs /\
               ForallOrdPairs (fun s1 s2 => ~ interiors_meet (fst s1) (snd s1) (fst s2) (snd s2)) segs.

Theorem nocross_b_ok res redges : nocross_b res redges = true <-> nocross_spec res redges.
Proof.
  unfold nocross_b, nocross_spec. split.
  - destruct (all_some (map (seg_of res) redges)) as [segs|] eqn:E; [|discriminate].
    intro H. exists segs. split; [apply all_some_spec; exact E|].
    apply pairwise_spec in H. eapply ForallOrdPairs_impl; [|exact H].
    intros s1 s2 Hn Hm. apply negb_true_iff in Hn. apply segs_meet_b_ok in Hm. congruence.
  - intros (segs & E & H). apply all_some_spec in E. rewrite E. apply pairwise_spec.
    eapply ForallOrdPairs_impl; [|exact H].
    intros s1 s2 Hn. apply negb_true_iff. destruct (segs_meet_b s1 s2) eqn:Em; [|reflexivity].
    apply segs_meet_b_ok in Em. contradiction.
Qed.

(* every edge of the result joins two nodes of the result (a consequence of nocross_spec) *)
Lemma pos_of_In res v p : pos_of res v = Some p -> In v (map pn_id res).
Proof.
  induction res as [|n r IH]; cbn [pos_of]; [discriminate|].
  destruct (Nat.eqb (pn_id n) v) eqn:E; [apply Nat.eqb_eq in E; intros _; left; exact E | intro H; right; auto].
Qed.

Lemma nocross_edges_known res redges :
  nocross_spec res redges -> forall e, In e redges -> In (fst e) (map pn_id res) /\ In (snd e) (map pn_id res).
Proof.
  intros (segs & E & _) e He.
  assert (Hin : In (seg_of res e) (map Some segs)) by (rewrite <- E; apply in_map; exact He).
  apply in_map_iff in Hin. destruct Hin as (s & Hs & _). unfold seg_of in Hs.
  destruct (pos_of res (fst e)) eqn:E1; [|discriminate]. destruct (pos_of res (snd e)) eqn:E2; [|discriminate].
  split; eapply pos_of_In; eassumption.
Qed.

(* ------------------------------------------------------------------ clause: original nodes present *)
Lemma present_b_ok res n :
  present_b res n = true <-> exists p, pos_of res (pn_id n) = Some p /\ pt_eq p (pn_pos n).
Proof.
  unfold present_b. destruct (pos_of res (pn_id n)) as [p|].
  - rewrite pt_eqb_spec. split; [intro H; exists p; auto | intros (q & E & H); inversion E; subst; exact H].
  - split; [discriminate | intros (q & E & _); discriminate].
Qed.

(* ------------------------------------------------------------------ clause: chains of new nodes *)
Lemma restrict_In es al e : In e (restrict es al) <-> In e es /\ In (fst e) al /\ In (snd e) al.
Proof. unfold restrict. rewrite filter_In, andb_true_iff, !mem_In. tauto. Qed.

Lemma restrict_adj es al a b : adj (restrict es al) a b -> adj es a b /\ In a al /\ In b al.
Proof.
  unfold adj. intros [H|H]; apply restrict_In in H; cbn [fst snd] in H; tauto.
Qed.

Lemma chain_of_reach es D d d' v :
  reach (restrict es D) d d' -> adj es d' v -> chain es D d v.
Proof.
  intros H Hv. induction H as [x | x y z Ha _ IH].
  - apply chain_edge. exact Hv.
  - apply restrict_adj in Ha. destruct Ha as (Ha & _ & Hy).
    apply chain_step with (d := y); [exact Ha | exact Hy | apply IH; exact Hv].
Qed.

Lemma touches_spec es c u : touches es c u = true <-> exists d, In d c /\ adj es u d.
Proof.
  unfold touches. rewrite existsb_exists. split.
  - intros (d & Hd & Hm). apply mem_In in Hm. apply In_neighbours in Hd. exists d. tauto.
  - intros (d & Hd & Ha). exists d. split; [apply In_neighbours; exact Ha | apply mem_In; exact Hd].
Qed.

Theorem chain_via_sound es D comps u v :
  (forall c, In c comps -> incl c D /\ forall x y, In x c -> In y c -> reach (restrict es D) x y) ->
  chain_via comps es u v = true -> u <> v /\ chain es D u v.
Proof.
  intros Hc H. unfold chain_via in H. apply andb_true_iff in H. destruct H as [Hne H].
  apply negb_true_iff, Nat.eqb_neq in Hne. split; [exact Hne|].
  apply orb_true_iff in H. destruct H as [H|H].
  - apply mem_In, In_neighbours in H. apply chain_edge. exact H.
  - apply existsb_exists in H. destruct H as (c & Hin & H). apply andb_true_iff in H. destruct H as [Hu Hv].
    apply touches_spec in Hu, Hv. destruct Hu as (d & Hd & Hud), Hv as (d' & Hd' & Hvd').
    destruct (Hc c Hin) as [Hi Hr].
    apply chain_step with (d := d); [exact Hud | apply Hi; exact Hd|].
    apply (chain_of_reach es D d d' v); [apply Hr; assumption | apply adj_sym; exact Hvd'].
Qed.

Lemma new_nodes_NoDup orig res : NoDup (map pn_id res) -> NoDup (new_nodes orig res).
Proof. intro H. unfold new_nodes. apply NoDup_filter. exact H. Qed.

Theorem chains_b_sound orig res oedges redges :
  NoDup (map pn_id res) -> chains_b orig res oedges redges = true ->
  forall e, In e oedges -> fst e <> snd e /\ chain redges (new_nodes orig res) (fst e) (snd e).
Proof.
  intros Hnd H e He. unfold chains_b, new_comps in H.
  set (D := new_nodes orig res) in *.
  destruct (conncomps (S (length D)) (restrict redges D) D) as [comps|] eqn:Ec; [|discriminate].
  rewrite forallb_forall in H. specialize (H e He).
  apply (chain_via_sound redges D comps); [|exact H].
  destruct (conncomps_spec _ _ _ _ Ec (new_nodes_NoDup orig res Hnd)) as (_ & S & Cs).
  { intros x y Hx Hr. induction Hr as [|a b c Ha _ IH]; [exact Hx|]. apply IH.
    apply restrict_adj in Ha. tauto. }
  intros c Hc. split.
  - intros x Hx. apply S. apply in_concat. exists c. tauto.
  - intros x y Hx Hy. destruct (Cs c Hc) as (v & _ & Hv).
    eapply reach_trans; [apply reach_sym; apply Hv; exact Hx | apply Hv; exact Hy].
Qed.

(* ---- completeness of the chain clause: conncomps never runs out of fuel, and every chain is found *)
Lemma filter_len_le {A} (f : A -> bool) l : (length (filter f l) <= length l)%nat.
Proof. induction l as [|x r IH]; cbn [filter length]; [lia|]. destruct (f x); cbn [length]; lia. Qed.

Lemma conncomps_total (es : list edge) : forall (fuel : nat) (rem : list nat),
  (length rem < fuel)%nat -> exists cs, conncomps fuel es rem = Some cs.
Proof.
  induction fuel as [|f IH]; intros rem Hl; [lia|]. cbn [conncomps]. destruct rem as [|v r]; [eexists; reflexivity|].
  destruct (explore_fuel_adequate_any (v :: r) es v) as (c & Ec). rewrite Ec.
  destruct (IH (filter (fun u => negb (mem u c)) r)) as (cs & E).
  { pose proof (filter_len_le (fun u => negb (mem u c)) r). cbn [length] in Hl. lia. }
  rewrite E. eexists; reflexivity.
Qed.

Lemma restrict_adj_intro (es : list edge) al a b : adj es a b -> In a al -> In b al -> adj (restrict es al) a b.
Proof. unfold adj. intros [H|H] Ha Hb; [left | right]; apply restrict_In; cbn [fst snd]; tauto. Qed.

Lemma chain_shape (es : list edge) D u v :
  chain es D u v ->
  adj es u v \/ exists d d', In d D /\ In d' D /\ adj es u d /\ reach (restrict es D) d d' /\ adj es d' v.
Proof.
  induction 1 as [u v H | u d v H Hd _ IH]; [left; exact H | right].
  destruct IH as [Hv | (e & e' & He & He' & Hde & Hr & Hv)].
  - exists d, d. repeat split; auto. constructor.
  - exists d, e'. repeat split; auto.
    econstructor; [apply restrict_adj_intro; eassumption | exact Hr].
Qed.

Theorem chain_via_complete (es : list edge) D comps u v :
  (forall x, In x D -> exists c, In c comps /\ In x c) ->
  (forall c x y, In c comps -> In x c -> reach (restrict es D) x y -> In y c) ->
  u <> v -> chain es D u v -> chain_via comps es u v = true.
Proof.
  intros Hcov Hcl Hne Hc. unfold chain_via. apply andb_true_iff. split; [apply negb_true_iff, Nat.eqb_neq; exact Hne|].
  apply orb_true_iff. destruct (chain_shape es D u v Hc) as [H | (d & d' & Hd & Hd' & Hud & Hr & Hv)].
  - left. apply mem_In, In_neighbours. exact H.
  - right. destruct (Hcov d Hd) as (c & Hc1 & Hc2). apply existsb_exists. exists c. split; [exact Hc1|].
    apply andb_true_iff. split; apply touches_spec.
    + exists d. tauto.
    + exists d'. split; [eapply Hcl; eassumption | apply adj_sym; exact Hv].
Qed.

Theorem chains_b_complete orig res oedges redges :
  NoDup (map pn_id res) ->
  (forall e, In e oedges -> fst e <> snd e /\ chain redges (new_nodes orig res) (fst e) (snd e)) ->
  chains_b orig res oedges redges = true.
Proof.
  intros Hnd H. unfold chains_b, new_comps. set (D := new_nodes orig res) in *.
  destruct (conncomps_total (restrict redges D) (S (length D)) D) as (comps & Ec); [lia|]. rewrite Ec.
  destruct (conncomps_spec _ _ _ _ Ec (new_nodes_NoDup orig res Hnd)) as (_ & S & Cs).
  { intros x y Hx Hr. induction Hr as [|a b c Ha _ IH]; [exact Hx|]. apply IH. apply restrict_adj in Ha. tauto. }
  apply forallb_forall. intros e He. destruct (H e He) as [Hne Hc].
  apply (chain_via_complete redges D comps); auto.
  - intros x Hx. apply S in Hx. apply in_concat in Hx. destruct Hx as (c & ? & ?). exists c. tauto.
  - intros c x y Hc1 Hx Hr. destruct (Cs c Hc1) as (v & _ & Hv). apply Hv.
    eapply reach_trans; [apply Hv; exact Hx | exact Hr].
Qed.

(* ------------------------------------------------------------------ the checker is sound and complete *)
Theorem planarise_ok_iff orig oedges res redges :
  planarise_ok orig oedges res redges = true <-> planarise_spec orig oedges res redges.
Proof.
  unfold planarise_ok, planarise_spec. rewrite !andb_true_iff. split.
  - intros [[[H1 H2] H3] H4].
    apply nodupb_NoDup in H1. split; [exact H1|]. split; [|split].
    + intros n Hn. rewrite forallb_forall in H2. apply present_b_ok. apply H2. exact Hn.
    + apply nocross_b_ok. exact H3.
    + apply chains_b_sound; assumption.
  - intros (H1 & H2 & H3 & H4). repeat split.
    + apply nodupb_NoDup. exact H1.
    + apply forallb_forall. intros n Hn. apply present_b_ok. apply H2. exact Hn.
    + apply nocross_b_ok. exact H3.
    + apply chains_b_complete; assumption.
Qed.

Theorem planarise_ok_sound orig oedges res redges :
  planarise_ok orig oedges res redges = true -> planarise_spec orig oedges res redges.
Proof. apply planarise_ok_iff. Qed.

(* each clause separately (what a failing flag of the driver means) *)
Theorem planarise_clauses orig oedges res redges :
  (nodupb (map pn_id res) = true <-> NoDup (map pn_id res)) /\
  (forallb (present_b res) orig = true <->
   forall n, In n orig -> exists p, pos_of res (pn_id n) = Some p /\ pt_eq p (pn_pos n)) /\
  (nocross_b res redges = true <-> nocross_spec res redges) /\
  (NoDup (map pn_id res) -> chains_b orig res oedges redges = true ->
   forall e, In e oedges -> fst e <> snd e /\ chain redges (new_nodes orig res) (fst e) (snd e)).
Proof.
  split; [apply nodupb_NoDup|]. split; [|split; [apply nocross_b_ok | apply chains_b_sound]].
  rewrite forallb_forall. split; intros H n Hn; apply present_b_ok; apply H; exact Hn.
Qed.

(* a chain really is a path whose inner nodes are new: it yields reachability in the result graph *)
Lemma chain_reach es D u v : chain es D u v -> reach es u v.
Proof.
  induction 1 as [u v H | u d v H _ _ IH].
  - econstructor; [exact H | constructor].
  - econstructor; [exact H | exact IH].
Qed.

(* ------------------------------------------------------------------ non-vacuity *)
(* two original nodes 0 (0,0), 1 (4,0) joined by an edge, and 2 (2,-2), 3 (2,2) joined by an edge that crosses it;
   planarised with the crossing node 4 at (2,0) *)
Definition ex_orig : list pnode :=
  [mkPN 0 (mkpt 0 0); mkPN 1 (mkpt 4 0); mkPN 2 (mkpt 2 (-2)); mkPN 3 (mkpt 2 2)].
Definition ex_oedges : list edge := [(0, 1); (2, 3)]%nat.
Definition ex_res : list pnode := ex_orig ++ [mkPN 4 (mkpt 2 0)].
Definition ex_redges : list edge := [(0, 4); (4, 1); (2, 4); (4, 3)]%nat.
(* not planarised: the crossing is still there / an overlap of collinear edges *)
Definition ex_redges_cross : list edge := [(0, 1); (2, 3)]%nat.
Definition ex_res_overlap : list pnode := [mkPN 0 (mkpt 0 0); mkPN 1 (mkpt 4 0); mkPN 2 (mkpt 2 0); mkPN 3 (mkpt 6 0)].

Example planarise_nonvacuous :
  planarise_spec ex_orig ex_oedges ex_res ex_redges /\
  ~ nocross_spec ex_orig ex_redges_cross /\
  ~ nocross_spec ex_res_overlap [(0, 1); (2, 3)]%nat /\
  planarise_ok ex_orig ex_oedges ex_res [(0, 4); (4, 1); (2, 4)]%nat = false /\
  interiors_meet (mkpt 0 0) (mkpt 4 0) (mkpt 2 0) (mkpt 6 0).
Proof.
  split; [apply planarise_ok_sound; vm_compute; reflexivity|].
  split; [intro H; apply nocross_b_ok in H; vm_compute in H; discriminate|].
  split; [intro H; apply nocross_b_ok in H; vm_compute in H; discriminate|].
  split; [vm_compute; reflexivity|].
  apply meet_b_ok. vm_compute. reflexivity.
Qed.
