(* C19: the executable checkers of Dialect/PeelModel.v (peel_okb, conncomps_okb, tree_okb, connectedb, simple_graphb)
   are SOUND AND COMPLETE w.r.t. declarative Prop specifications written with In / NoDup / reach / acyclic / degree only,
   so running the extracted checkers on real outputs of dialect::peel / Graph::getConnComps is a verified oracle.

   Contents
   1. explore never runs out of fuel with explore_fuel, for any graph (explore_fuel_adequate_any); reachability is
      decidable (reach_dec)
   2. graph theory: a connected graph on n >= 1 distinct nodes is acyclic (every edge is a bridge) iff it has n-1 edges
      (tree_char), via two counting lemmas (covers_count, indep_count)
   3. reflection lemmas for emem / enodupb / einclb / simple_graphb / connectedb
   4. tree_spec, peel_spec, conncomps_spec_decl and the iff theorems tree_okb_spec, peel_okb_iff, conncomps_okb_iff
   5. non-vacuity examples *)
From Coq Require Import List Arith Bool Lia Permutation.
Import ListNotations.
From Adapt Require Import Dialect.PeelModel Dialect.Peel.

(* every edge of es has both ends in ns *)
Definition edges_in (ns : list nat) (es : list edge) : Prop :=
  forall e, In e es -> In (fst e) ns /\ In (snd e) ns.

(* ================================================================== 1. fuel adequacy of explore *)
(* measure: |work| + number of edge ends that are not yet seen.  A skip step (head already seen) lowers |work| by one;
   a visit step of v replaces the head of work by the neighbours of v - one per edge incident to v - and each of
   these edges loses at least one unseen end.  No assumption on the graph is needed. *)
Fixpoint unseen_ends (seen : list nat) (es : list edge) : nat :=
  match es with
  | [] => 0
  | e :: r => (if mem (fst e) seen then 0 else 1) + (if mem (snd e) seen then 0 else 1) + unseen_ends seen r
  end.

Lemma unseen_ends_nil es : unseen_ends [] es = 2 * length es.
Proof. induction es as [|e r IH]; cbn [unseen_ends length mem existsb]; lia. Qed.

Lemma unseen_ends_visit v seen es : mem v seen = false ->
  length (filter (incident v) es) + unseen_ends (v :: seen) es <= unseen_ends seen es.
Proof.
  intro Hv. induction es as [|e r IH]; cbn [filter unseen_ends length]; [lia|].
  assert (H1 : forall x, mem x (v :: seen) = Nat.eqb x v || mem x seen) by (intro x; reflexivity).
  rewrite !H1. unfold incident in *.
  destruct (Nat.eqb (fst e) v) eqn:E1; destruct (Nat.eqb (snd e) v) eqn:E2; cbn [orb length];
    try (apply Nat.eqb_eq in E1; rewrite E1, Hv); try (apply Nat.eqb_eq in E2; rewrite E2, Hv);
    destruct (mem (fst e) seen); destruct (mem (snd e) seen); cbn [length]; lia.
Qed.

Lemma explore_total es : forall fuel work seen,
  length work + unseen_ends seen es < fuel -> explore fuel es work seen <> None.
Proof.
  induction fuel as [|f IH]; intros work seen Hm; [inversion Hm|].
  cbn [explore]. destruct work as [|v w]; [discriminate|].
  destruct (mem v seen) eqn:Ev.
  - apply IH. cbn [length] in Hm. lia.
  - apply IH. rewrite app_length. unfold neighbours. rewrite map_length.
    pose proof (unseen_ends_visit v seen es Ev). cbn [length] in Hm. lia.
Qed.

(* explore_fuel is enough for every graph and every start node *)
Theorem explore_fuel_adequate_any (ns : list nat) (es : list edge) (v : nat) :
  exists r, explore (explore_fuel ns es) es [v] [] = Some r.
Proof.
  destruct (explore (explore_fuel ns es) es [v] []) as [r|] eqn:E; [now exists r|].
  exfalso. revert E. apply explore_total.
  rewrite unseen_ends_nil. unfold explore_fuel. cbn [length].
  set (n := length ns). set (m := length es). nia.
Qed.

(* the statement asked for (its hypotheses turn out not to be needed) *)
Theorem explore_fuel_adequate (ns : list nat) (es : list edge) (v : nat) :
  In v ns -> (forall e, In e es -> In (fst e) ns /\ In (snd e) ns) ->
  exists r, explore (explore_fuel ns es) es [v] [] = Some r.
Proof. intros _ _. apply explore_fuel_adequate_any. Qed.

(* reachability in a finite graph is decidable *)
Lemma reach_dec es a b : reach es a b \/ ~ reach es a b.
Proof.
  destruct (explore_fuel_adequate_any [] es a) as [r Hr].
  apply explore_reach in Hr. destruct Hr as [_ Hr].
  destruct (in_dec Nat.eq_dec b r) as [H|H]; [left | right]; rewrite <- Hr; assumption.
Qed.

Lemma reach_some_dec es R a :
  (exists r, In r R /\ reach es r a) \/ (forall r, In r R -> ~ reach es r a).
Proof.
  induction R as [|r0 R IH].
  - right. intros r [].
  - destruct (reach_dec es r0 a) as [H|H].
    + left. exists r0. split; [now left | assumption].
    + destruct IH as [[r [Hr Hra]]|IH].
      * left. exists r. split; [now right | assumption].
      * right. intros r [<-|Hr]; [assumption | apply IH; assumption].
Qed.

(* ================================================================== 2. trees: connected + acyclic <-> connected + n-1 edges *)
(* every edge is a bridge.  A repeated edge (either orientation) or a self-loop is a cycle (acyclic_simple below). *)
Definition acyclic (es : list edge) : Prop :=
  forall e1 e e2, es = e1 ++ e :: e2 -> ~ reach (e1 ++ e2) (fst e) (snd e).

Lemma reach_nil a b : reach [] a b -> a = b.
Proof. intro H. destruct H as [a|a b c [[]|[]] _]. reflexivity. Qed.

Lemma reach_one es a b : adj es a b -> reach es a b.
Proof. intro H. econstructor; [exact H | constructor]. Qed.

Lemma reach_split0 a b es x y : reach ((a, b) :: es) x y ->
  reach es x y \/ ((reach es x a \/ reach es x b) /\ (reach es a y \/ reach es b y)).
Proof.
  induction 1 as [x|x z y Hxz Hzy IH].
  - left. constructor.
  - destruct Hxz as [[E|Hin]|[E|Hin]].
    + inversion E; subst. right. split; [left; constructor|].
      destruct IH as [IH|[_ IH]]; [right; assumption | assumption].
    + assert (Ha : adj es x z) by (now left). destruct IH as [IH|[IH1 IH2]].
      * left. econstructor; eassumption.
      * right. split; [|assumption]. destruct IH1 as [IH1|IH1]; [left | right]; econstructor; eassumption.
    + inversion E; subst. right. split; [right; constructor|].
      destruct IH as [IH|[_ IH]]; [left; assumption | assumption].
    + assert (Ha : adj es x z) by (now right). destruct IH as [IH|[IH1 IH2]].
      * left. econstructor; eassumption.
      * right. split; [|assumption]. destruct IH1 as [IH1|IH1]; [left | right]; econstructor; eassumption.
Qed.

(* a path in es + {a-b} is a path in es, or goes x ~ a - b ~ y, or x ~ b - a ~ y *)
Lemma reach_split a b es x y : reach ((a, b) :: es) x y ->
  reach es x y \/ (reach es x a /\ reach es b y) \/ (reach es x b /\ reach es a y).
Proof.
  intro H. apply reach_split0 in H. destruct H as [H|[[H1|H1] [H2|H2]]].
  - left. assumption.
  - left. eapply reach_trans; eassumption.
  - right. left. split; assumption.
  - right. right. split; assumption.
  - left. eapply reach_trans; eassumption.
Qed.

Lemma reach_split_mid e1 e e2 x y : reach (e1 ++ e :: e2) x y ->
  reach (e1 ++ e2) x y \/
  (reach (e1 ++ e2) x (fst e) /\ reach (e1 ++ e2) (snd e) y) \/
  (reach (e1 ++ e2) x (snd e) /\ reach (e1 ++ e2) (fst e) y).
Proof.
  intro H. apply (reach_split (fst e) (snd e)). rewrite <- surjective_pairing.
  eapply reach_mono; [|exact H]. intros z Hz. apply in_app_or in Hz. destruct Hz as [Hz|[Hz|Hz]].
  - right. apply in_or_app. now left.
  - now left.
  - right. apply in_or_app. now right.
Qed.

(* Counting lemma A: if every node of V is reachable from one of the roots R then |V| <= |es| + |R|
   (each edge merges at most two components). *)
Lemma covers_count : forall es R V, NoDup V ->
  (forall v, In v V -> exists r, In r R /\ reach es r v) ->
  length V <= length es + length R.
Proof.
  induction es as [|[a b] es IH]; intros R V N C.
  - cbn [length plus]. apply NoDup_incl_length; [assumption|]. intros v Hv.
    destruct (C v Hv) as [r [Hr Hrv]]. apply reach_nil in Hrv. now subst.
  - destruct (reach_some_dec es R a) as [[r0 [Hr0 Hr0a]]|Hno].
    + enough (length V <= length es + length (b :: R)) by (cbn [length] in *; lia).
      apply IH; [assumption|]. intros v Hv. destruct (C v Hv) as [r [Hr Hrv]].
      apply reach_split in Hrv. destruct Hrv as [H|[[H1 H2]|[H1 H2]]].
      * exists r. split; [now right | assumption].
      * exists b. split; [now left | assumption].
      * exists r0. split; [now right | eapply reach_trans; eassumption].
    + enough (length V <= length es + length (a :: R)) by (cbn [length] in *; lia).
      apply IH; [assumption|]. intros v Hv. destruct (C v Hv) as [r [Hr Hrv]].
      apply reach_split in Hrv. destruct Hrv as [H|[[H1 H2]|[H1 H2]]].
      * exists r. split; [now right | assumption].
      * exfalso. exact (Hno r Hr H1).
      * exists a. split; [now left | assumption].
Qed.

Lemma acyclic_tail e es : acyclic (e :: es) -> acyclic es /\ ~ reach es (fst e) (snd e).
Proof.
  intro A. split.
  - intros e1 e' e2 E Hr. apply (A (e :: e1) e' e2); [cbn; now rewrite E|].
    eapply reach_mono; [|exact Hr]. intros z Hz. cbn. now right.
  - apply (A [] e es). reflexivity.
Qed.

(* Counting lemma B: pairwise unreachable roots R in an acyclic graph on V: |es| + |R| <= |V|
   (each bridge merges exactly two components). *)
Lemma indep_count : forall es R V, acyclic es -> edges_in V es -> NoDup R -> incl R V ->
  (forall r1 r2, In r1 R -> In r2 R -> r1 <> r2 -> ~ reach es r1 r2) ->
  length es + length R <= length V.
Proof.
  induction es as [|[a b] es IH]; intros R V A W N I D.
  - cbn [length plus]. apply NoDup_incl_length; assumption.
  - destruct (acyclic_tail _ _ A) as [A' Hbr]. cbn [fst snd] in Hbr.
    assert (W' : edges_in V es) by (intros e He; apply W; now right).
    destruct (W (a, b) (or_introl eq_refl)) as [HaV HbV]. cbn [fst snd] in HaV, HbV.
    assert (Hab : reach ((a, b) :: es) a b) by (apply reach_one; left; now left).
    assert (Hmono : forall x y, reach es x y -> reach ((a, b) :: es) x y).
    { intros x y H. eapply reach_mono; [|exact H]. intros z Hz. now right. }
    destruct (reach_some_dec es R a) as [[r0 [Hr0 Hr0a]]|Hno].
    + assert (Hr0b : forall r, In r R -> reach es b r -> False).
      { intros r Hr Hbr'. destruct (Nat.eq_dec r0 r) as [Heq|Hne].
        - subst r. apply Hbr. eapply reach_trans; [apply reach_sym; exact Hr0a | apply reach_sym; exact Hbr'].
        - apply (D r0 r Hr0 Hr Hne). eapply reach_trans; [apply Hmono; exact Hr0a|].
          eapply reach_trans; [exact Hab | apply Hmono; exact Hbr']. }
      assert (HbR : ~ In b R) by (intro HbR; apply (Hr0b b HbR); constructor).
      enough (length es + length (b :: R) <= length V) by (cbn [length] in *; lia).
      apply IH; [assumption | assumption | constructor; assumption | |].
      * intros x [<-|Hx]; [assumption | apply I; assumption].
      * intros r1 r2 [<-|H1] [<-|H2] Hne Hr.
        -- congruence.
        -- exact (Hr0b r2 H2 Hr).
        -- exact (Hr0b r1 H1 (reach_sym _ _ _ Hr)).
        -- exact (D r1 r2 H1 H2 Hne (Hmono _ _ Hr)).
    + assert (HaR : ~ In a R) by (intro HaR; apply (Hno a HaR); constructor).
      enough (length es + length (a :: R) <= length V) by (cbn [length] in *; lia).
      apply IH; [assumption | assumption | constructor; assumption | |].
      * intros x [<-|Hx]; [assumption | apply I; assumption].
      * intros r1 r2 [<-|H1] [<-|H2] Hne Hr.
        -- congruence.
        -- exact (Hno r2 H2 (reach_sym _ _ _ Hr)).
        -- exact (Hno r1 H1 Hr).
        -- exact (D r1 r2 H1 H2 Hne (Hmono _ _ Hr)).
Qed.

(* a connected graph has at least n-1 edges *)
Lemma connected_edge_count ns es v0 : NoDup ns -> In v0 ns ->
  (forall a b, In a ns -> In b ns -> reach es a b) -> length ns <= S (length es).
Proof.
  intros N Hv0 C. enough (length ns <= length es + length [v0]) by (cbn [length] in *; lia).
  apply covers_count; [assumption|]. intros v Hv. exists v0. split; [now left | apply C; assumption].
Qed.

(* an acyclic graph on n >= 1 nodes has at most n-1 edges *)
Lemma acyclic_edge_count ns es v0 : In v0 ns -> edges_in ns es -> acyclic es -> S (length es) <= length ns.
Proof.
  intros Hv0 W A. enough (length es + length [v0] <= length ns) by (cbn [length] in *; lia).
  apply indep_count; [assumption | assumption | constructor; [intros [] | constructor] | |].
  - intros x [<-|[]]. assumption.
  - intros r1 r2 [<-|[]] [<-|[]] Hne. congruence.
Qed.

Theorem tree_char (ns : list nat) (es : list edge) :
  NoDup ns -> ns <> [] -> (forall e, In e es -> In (fst e) ns /\ In (snd e) ns) ->
  (forall a b, In a ns -> In b ns -> reach es a b) ->
  (acyclic es <-> S (length es) = length ns).
Proof.
  intros N Hne W C.
  assert (Hv0 : exists v0, In v0 ns) by (destruct ns as [|v0 ?]; [congruence | exists v0; now left]).
  destruct Hv0 as [v0 Hv0]. split.
  - intro A. pose proof (connected_edge_count ns es v0 N Hv0 C). pose proof (acyclic_edge_count ns es v0 Hv0 W A). lia.
  - intros Hlen e1 e e2 E Hr.
    assert (C' : forall a b, In a ns -> In b ns -> reach (e1 ++ e2) a b).
    { intros a b Ha Hb. pose proof (C a b Ha Hb) as Hab. rewrite E in Hab. apply reach_split_mid in Hab.
      destruct Hab as [H|[[H1 H2]|[H1 H2]]]; [assumption| |].
      - eapply reach_trans; [exact H1|]. eapply reach_trans; [exact Hr | exact H2].
      - eapply reach_trans; [exact H1|]. eapply reach_trans; [apply reach_sym; exact Hr | exact H2]. }
    pose proof (connected_edge_count ns (e1 ++ e2) v0 N Hv0 C') as Hc.
    rewrite E in Hlen. rewrite app_length in Hlen, Hc. cbn [length] in Hlen. lia.
Qed.

(* acyclic already excludes self-loops and parallel edges in either orientation *)
Lemma acyclic_simple es : acyclic es ->
  (forall e, In e es -> fst e <> snd e) /\ NoDup (map norm_edge es).
Proof.
  intro A. split.
  - intros e He Heq. apply in_split in He. destruct He as (e1 & e2 & E).
    apply (A e1 e e2 E). rewrite Heq. constructor.
  - induction es as [|e es IH]; cbn [map]; [constructor|].
    destruct (acyclic_tail _ _ A) as [A' Hbr]. constructor; [|apply IH; assumption].
    intro Hin. apply Hbr. apply reach_one. apply In_norm_adj. rewrite <- surjective_pairing. exact Hin.
Qed.

(* ================================================================== 3. reflection of the boolean helpers *)
Lemma edge_eqb_eq a b : edge_eqb a b = true <-> a = b.
Proof.
  destruct a as [a1 a2], b as [b1 b2]. unfold edge_eqb. cbn [fst snd]. rewrite andb_true_iff, !Nat.eqb_eq. split.
  - intros [-> ->]. reflexivity.
  - intro H. inversion H. split; reflexivity.
Qed.

Lemma emem_spec e l : emem e l = true <-> In (norm_edge e) (map norm_edge l).
Proof.
  unfold emem. rewrite existsb_exists. split.
  - intros [x [Hx E]]. apply edge_eqb_eq in E. rewrite E. exact Hx.
  - intro H. exists (norm_edge e). split; [assumption | now apply edge_eqb_eq].
Qed.
Lemma emem_false e l : emem e l = false <-> ~ In (norm_edge e) (map norm_edge l).
Proof. rewrite <- emem_spec. destruct (emem e l); split; congruence. Qed.

Lemma enodupb_spec l : enodupb l = true <-> NoDup (map norm_edge l).
Proof.
  induction l as [|x r IH]; cbn [enodupb map].
  - split; [constructor | reflexivity].
  - rewrite andb_true_iff, negb_true_iff, emem_false, IH, NoDup_cons_iff. tauto.
Qed.

Lemma einclb_spec a b : einclb a b = true <-> incl (map norm_edge a) (map norm_edge b).
Proof.
  unfold einclb. rewrite forallb_forall. split.
  - intros H x Hx. apply in_map_iff in Hx. destruct Hx as [e [<- He]]. apply emem_spec. apply H. assumption.
  - intros H e He. apply emem_spec. apply H. apply in_map. assumption.
Qed.

Lemma edge_condb_spec ns es :
  forallb (fun e => mem (fst e) ns && mem (snd e) ns && negb (Nat.eqb (fst e) (snd e))) es = true <->
  (forall e, In e es -> In (fst e) ns /\ In (snd e) ns /\ fst e <> snd e).
Proof.
  rewrite forallb_forall. split; intros H e He; specialize (H e He).
  - rewrite !andb_true_iff, !mem_In, negb_true_iff, Nat.eqb_neq in H. tauto.
  - rewrite !andb_true_iff, !mem_In, negb_true_iff, Nat.eqb_neq. tauto.
Qed.

Lemma simple_graphb_spec g : simple_graphb g = true <-> simple_graph g.
Proof.
  unfold simple_graphb, simple_graph.
  rewrite !andb_true_iff, nodupb_NoDup, edge_condb_spec, enodupb_spec. tauto.
Qed.

Lemma degree_ne1b_spec es ns :
  forallb (fun v => negb (Nat.eqb (degree es v) 1)) ns = true <-> (forall v, In v ns -> degree es v <> 1).
Proof.
  rewrite forallb_forall. split; intros H v Hv; specialize (H v Hv).
  - rewrite negb_true_iff, Nat.eqb_neq in H. exact H.
  - rewrite negb_true_iff, Nat.eqb_neq. exact H.
Qed.

(* soundness needs no hypothesis *)
Lemma connectedb_sound ns es :
  connectedb ns es = true -> forall a b, In a ns -> In b ns -> reach es a b.
Proof.
  unfold connectedb. destruct ns as [|v r]; [intros _ a b []|].
  destruct (explore (explore_fuel (v :: r) es) es [v] []) as [c|] eqn:E; [|discriminate].
  intros Hi a b Ha Hb. apply inclb_incl in Hi. apply explore_reach in E. destruct E as [_ E].
  eapply reach_trans; [apply reach_sym; apply E; apply Hi; assumption | apply E; apply Hi; assumption].
Qed.

(* completeness needs the fuel bound *)
Lemma connectedb_complete ns es :
  (forall a b, In a ns -> In b ns -> reach es a b) -> connectedb ns es = true.
Proof.
  intros C. unfold connectedb. destruct ns as [|v r]; [reflexivity|].
  destruct (explore_fuel_adequate_any (v :: r) es v) as [c Hc].
  rewrite Hc. apply inclb_incl. apply explore_reach in Hc. destruct Hc as [_ Hc].
  intros x Hx. apply Hc. apply C; [now left | assumption].
Qed.

(* connectedb decides connectivity of the node set ns by the edges es, for all ns and es *)
Theorem connectedb_iff (ns : list nat) (es : list edge) :
  connectedb ns es = true <-> forall a b, In a ns -> In b ns -> reach es a b.
Proof. split; [apply connectedb_sound | apply connectedb_complete]. Qed.

(* the statement asked for (the hypothesis is not needed) *)
Theorem connectedb_spec (ns : list nat) (es : list edge) :
  (forall e, In e es -> In (fst e) ns /\ In (snd e) ns) ->
  (connectedb ns es = true <-> forall a b, In a ns -> In b ns -> reach es a b).
Proof. intros _. apply connectedb_iff. Qed.

Lemma edges_within_in es c : edges_in c (edges_within es c).
Proof.
  intros e He. unfold edges_within in He. apply filter_In in He. destruct He as [_ He].
  rewrite andb_true_iff, !mem_In in He. exact He.
Qed.

(* ================================================================== 4. declarative specs and the iff theorems *)
(* a tree: distinct nodes containing the root, simple edges inside the node set, connected and acyclic *)
Definition tree_spec (t : tree) : Prop :=
  NoDup (t_nodes t) /\
  In (t_root t) (t_nodes t) /\
  (forall e, In e (t_edges t) -> In (fst e) (t_nodes t) /\ In (snd e) (t_nodes t) /\ fst e <> snd e) /\
  NoDup (map norm_edge (t_edges t)) /\
  (forall a b, In a (t_nodes t) -> In b (t_nodes t) -> reach (t_edges t) a b) /\
  acyclic (t_edges t).

Theorem tree_okb_spec t : tree_okb t = true <-> tree_spec t.
Proof.
  unfold tree_okb, tree_spec.
  rewrite !andb_true_iff, nodupb_NoDup, mem_In, edge_condb_spec, enodupb_spec, Nat.eqb_eq.
  split.
  - intros (((((N & R) & W) & D) & C) & L).
    pose proof (connectedb_sound _ _ C) as C'.
    assert (W' : forall e, In e (t_edges t) -> In (fst e) (t_nodes t) /\ In (snd e) (t_nodes t)).
    { intros e He. destruct (W e He) as (? & ? & ?). tauto. }
    assert (Hne : t_nodes t <> []) by (intro E; rewrite E in R; destruct R).
    split; [exact N|]. split; [exact R|]. split; [exact W|]. split; [exact D|]. split; [exact C'|].
    apply (tree_char _ _ N Hne W' C'). exact L.
  - intros (N & R & W & D & C & A).
    assert (W' : forall e, In e (t_edges t) -> In (fst e) (t_nodes t) /\ In (snd e) (t_nodes t)).
    { intros e He. destruct (W e He) as (? & ? & ?). tauto. }
    assert (Hne : t_nodes t <> []) by (intro E; rewrite E in R; destruct R).
    split; [split; [split; [split; [split|]|]|]|]; try assumption.
    + apply connectedb_complete. assumption.
    + apply (tree_char _ _ N Hne W' C). exact A.
Qed.

(* the simple-edge and no-parallel-edge clauses of tree_spec follow from the others *)
Lemma tree_spec_minimal t :
  tree_spec t <->
  NoDup (t_nodes t) /\ In (t_root t) (t_nodes t) /\
  (forall e, In e (t_edges t) -> In (fst e) (t_nodes t) /\ In (snd e) (t_nodes t)) /\
  (forall a b, In a (t_nodes t) -> In b (t_nodes t) -> reach (t_edges t) a b) /\
  acyclic (t_edges t).
Proof.
  unfold tree_spec. split.
  - intros (N & R & W & D & C & A). repeat split; try assumption; destruct (W e H) as (? & ? & ?); assumption.
  - intros (N & R & W & C & A). destruct (acyclic_simple _ A) as [S1 S2].
    split; [exact N|]. split; [exact R|]. split; [|split; [exact S2|split; [exact C|exact A]]].
    intros e He. destruct (W e He). split; [assumption|]. split; [assumption|]. apply S1. assumption.
Qed.

Lemma forallb_tree_okb trees : forallb tree_okb trees = true <-> forall t, In t trees -> tree_spec t.
Proof. rewrite forallb_forall. split; intros H t Ht; apply tree_okb_spec; apply H; assumption. Qed.

(* the node classes of the peeling: the core nodes and the non-root nodes of the trees (the root of a tree is a core
   node); all tree nodes when the core is empty (the double-centre case: one tree takes everything) *)
Definition peel_parts (core : graph) (trees : list tree) : list nat :=
  match g_nodes core with
  | [] => flat_map t_nodes trees
  | _ => g_nodes core ++ flat_map nonroot trees
  end.

Definition peel_spec (g core : graph) (trees : list tree) : Prop :=
  (* every tree is a tree *)
  (forall t, In t trees -> tree_spec t) /\
  (* the core is a simple graph *)
  simple_graph core /\
  (* node partition *)
  (NoDup (peel_parts core trees) /\ forall x, In x (peel_parts core trees) <-> In x (g_nodes g)) /\
  (* roots are core nodes unless the core is empty *)
  (g_nodes core <> [] -> forall t, In t trees -> In (t_root t) (g_nodes core)) /\
  (* edge partition up to orientation *)
  (NoDup (map norm_edge (g_edges core ++ flat_map t_edges trees)) /\
   forall x, In x (map norm_edge (g_edges core ++ flat_map t_edges trees)) <-> In x (map norm_edge (g_edges g))) /\
  (* the core has no leaf *)
  (forall v, In v (g_nodes core) -> degree (g_edges core) v <> 1).

Lemma roots_in_coreb_spec (core : graph) (trees : list tree) :
  match g_nodes core with [] => true | _ => forallb (fun t => mem (t_root t) (g_nodes core)) trees end = true <->
  (g_nodes core <> [] -> forall t, In t trees -> In (t_root t) (g_nodes core)).
Proof.
  destruct (g_nodes core) as [|c0 cr].
  - split; [intros _ H; congruence | reflexivity].
  - rewrite forallb_forall. split.
    + intros H _ t Ht. apply mem_In. apply H. assumption.
    + intros H t Ht. apply mem_In. apply H; [discriminate | assumption].
Qed.

Theorem peel_okb_iff g core trees : peel_okb g core trees = true <-> peel_spec g core trees.
Proof.
  unfold peel_okb, peel_spec, peel_parts. cbv zeta.
  rewrite !andb_true_iff, forallb_tree_okb, simple_graphb_spec, nodupb_NoDup, same_setb_spec,
          roots_in_coreb_spec, enodupb_spec, !einclb_spec, degree_ne1b_spec.
  split.
  - intros (((((HA & HB) & (HC1 & HC2)) & HD) & ((HE1 & HE2) & HE3)) & HF).
    split; [exact HA|]. split; [exact HB|]. split; [split; assumption|]. split; [exact HD|]. split; [|exact HF].
    split; [exact HE1|]. intro x. split; [apply HE2 | apply HE3].
  - intros (HA & HB & (HC1 & HC2) & HD & (HE1 & HE2) & HF).
    split; [split; [split; [split; [split|]|]|]|]; try assumption.
    + split; assumption.
    + split; [split|]; [assumption | |]; intros x Hx; apply HE2; assumption.
Qed.

Corollary peel_okb_sound g core trees : peel_okb g core trees = true -> peel_spec g core trees.
Proof. apply peel_okb_iff. Qed.
Corollary peel_okb_complete g core trees : peel_spec g core trees -> peel_okb g core trees = true.
Proof. apply peel_okb_iff. Qed.

(* getConnComps: the components partition the nodes, each is connected by the edges inside it, every edge is inside one *)
Definition conncomps_spec_decl (g : graph) (comps : list (list nat)) : Prop :=
  NoDup (concat comps) /\
  (forall x, In x (concat comps) <-> In x (g_nodes g)) /\
  (forall c, In c comps -> forall a b, In a c -> In b c -> reach (edges_within (g_edges g) c) a b) /\
  (forall e, In e (g_edges g) -> exists c, In c comps /\ In (fst e) c /\ In (snd e) c).

Theorem conncomps_okb_iff g comps : conncomps_okb g comps = true <-> conncomps_spec_decl g comps.
Proof.
  unfold conncomps_okb, conncomps_spec_decl. rewrite !andb_true_iff, nodupb_NoDup, same_setb_spec.
  assert (HC : forallb (fun c => connectedb c (edges_within (g_edges g) c)) comps = true <->
               forall c, In c comps -> forall a b, In a c -> In b c -> reach (edges_within (g_edges g) c) a b).
  { rewrite forallb_forall. split; intros H c Hc.
    - apply connectedb_sound. apply H. assumption.
    - apply connectedb_complete. apply H. assumption. }
  assert (HE : forallb (fun e => existsb (fun c => mem (fst e) c && mem (snd e) c) comps) (g_edges g) = true <->
               forall e, In e (g_edges g) -> exists c, In c comps /\ In (fst e) c /\ In (snd e) c).
  { rewrite forallb_forall. split; intros H e He; specialize (H e He).
    - apply existsb_exists in H. destruct H as [c [Hc H]]. rewrite andb_true_iff, !mem_In in H. exists c. tauto.
    - destruct H as [c [Hc H]]. apply existsb_exists. exists c. split; [assumption|].
      rewrite andb_true_iff, !mem_In. exact H. }
  rewrite HC, HE. tauto.
Qed.

Corollary conncomps_okb_sound g comps : conncomps_okb g comps = true -> conncomps_spec_decl g comps.
Proof. apply conncomps_okb_iff. Qed.
Corollary conncomps_okb_complete g comps : conncomps_spec_decl g comps -> conncomps_okb g comps = true.
Proof. apply conncomps_okb_iff. Qed.

(* ================================================================== 5. non-vacuity *)
Definition ex_path_tree : tree := mkT 0 [0; 1; 2; 3] [(0, 1); (1, 2); (2, 3)].
Definition ex_star_tree : tree := mkT 0 [0; 1; 2; 3] [(0, 1); (2, 0); (0, 3)].
Definition ex_triangle : list edge := [(0, 1); (1, 2); (2, 0)].

Example explore_fuel_adequate_ex :
  exists r, explore (explore_fuel [0; 1; 2] ex_triangle) ex_triangle [0] [] = Some r /\ r = [2; 1; 0].
Proof. eexists. split; vm_compute; reflexivity. Qed.

(* also when edges leave the node list (no hypothesis in explore_fuel_adequate_any / connectedb_iff) *)
Example connectedb_iff_ex :
  connectedb [0; 2] [(0, 1); (1, 2); (2, 3)] = true /\
  (forall a b, In a [0; 2] -> In b [0; 2] -> reach [(0, 1); (1, 2); (2, 3)] a b) /\
  connectedb [0; 4] [(0, 1); (1, 2); (2, 3)] = false /\
  ~ (forall a b, In a [0; 4] -> In b [0; 4] -> reach [(0, 1); (1, 2); (2, 3)] a b).
Proof.
  split; [vm_compute; reflexivity|]. split; [apply connectedb_iff; vm_compute; reflexivity|].
  split; [vm_compute; reflexivity|]. intro H. apply connectedb_iff in H. vm_compute in H. discriminate.
Qed.

Example tree_spec_path : tree_spec ex_path_tree.
Proof. apply tree_okb_spec. vm_compute. reflexivity. Qed.
Example tree_spec_star : tree_spec ex_star_tree.
Proof. apply tree_okb_spec. vm_compute. reflexivity. Qed.

(* so acyclic, the hypotheses of tree_char / covers_count / indep_count are satisfiable on a 4-node graph *)
Example acyclic_path : acyclic [(0, 1); (1, 2); (2, 3)] /\ S (length [(0, 1); (1, 2); (2, 3)]) = length [0; 1; 2; 3].
Proof. split; [apply tree_spec_path | reflexivity]. Qed.

(* the triangle is connected but not acyclic, and the checker rejects it as a tree *)
Example triangle_connected_not_acyclic :
  (forall a b, In a [0; 1; 2] -> In b [0; 1; 2] -> reach ex_triangle a b) /\
  ~ acyclic ex_triangle /\
  tree_okb (mkT 0 [0; 1; 2] ex_triangle) = false.
Proof.
  split; [|split].
  - apply connectedb_sound. vm_compute. reflexivity.
  - intro A. apply (A [] (0, 1) [(1, 2); (2, 0)] eq_refl). cbn [app fst snd].
    apply reach_step with (b := 2); [right; cbn; tauto|]. apply reach_one. right. cbn. tauto.
  - vm_compute. reflexivity.
Qed.

(* a disconnected forest with the right edge count is rejected: two components, one with a cycle *)
Example count_without_connectivity_rejected :
  tree_okb (mkT 0 [0; 1; 2; 3; 4] [(0, 1); (2, 3); (3, 4); (4, 2)]) = false /\
  ~ tree_spec (mkT 0 [0; 1; 2; 3; 4] [(0, 1); (2, 3); (3, 4); (4, 2)]).
Proof.
  split; [vm_compute; reflexivity|]. intro H. apply tree_okb_spec in H. vm_compute in H. discriminate.
Qed.

(* reach_dec both ways *)
Example reach_dec_ex : reach [(0, 1); (2, 3)] 0 1 /\ ~ reach [(0, 1); (2, 3)] 0 3.
Proof.
  split; [apply reach_one; left; now left|]. intro H.
  assert (E : explore 20 [(0, 1); (2, 3)] [0] [] = Some [1; 0]) by (vm_compute; reflexivity).
  apply explore_reach in E. destruct E as [_ E]. apply E in H. cbn in H. intuition discriminate.
Qed.

(* the actual peel outputs of Peel.peel_nonvacuous satisfy the declarative spec (non-empty core; empty core) *)
Example peel_spec_ex_graph :
  peel ex_graph = Ok (mkG [0; 1; 2] [(0, 1); (1, 2); (2, 0)],
                      [mkT 1 [5; 1] [(1, 5)]; mkT 2 [4; 3; 2] [(3, 4); (2, 3)]]) /\
  peel_spec ex_graph (mkG [0; 1; 2] [(0, 1); (1, 2); (2, 0)])
            [mkT 1 [5; 1] [(1, 5)]; mkT 2 [4; 3; 2] [(3, 4); (2, 3)]].
Proof. split; [vm_compute; reflexivity|]. apply peel_okb_iff. vm_compute. reflexivity. Qed.

Example peel_spec_ex_path4 :
  peel ex_path4 = Ok (mkG [] [], [mkT 2 [3; 2; 1; 0] [(1, 0); (2, 3); (2, 1)]]) /\
  peel_spec ex_path4 (mkG [] []) [mkT 2 [3; 2; 1; 0] [(1, 0); (2, 3); (2, 1)]].
Proof. split; [vm_compute; reflexivity|]. apply peel_okb_iff. vm_compute. reflexivity. Qed.

(* wrong outputs are rejected by the spec: a missing tree; a leaf left in the core *)
Example peel_spec_rejects :
  ~ peel_spec ex_graph (mkG [0; 1; 2] [(0, 1); (1, 2); (2, 0)]) [mkT 1 [5; 1] [(1, 5)]] /\
  ~ peel_spec ex_graph (mkG [0; 1; 2; 5] [(0, 1); (1, 2); (2, 0); (1, 5)]) [mkT 2 [4; 3; 2] [(3, 4); (2, 3)]].
Proof.
  split; intro H; apply peel_okb_iff in H; vm_compute in H; discriminate.
Qed.

Example conncomps_spec_ex :
  get_conncomps (mkG [0; 1; 2; 3; 4] [(0, 1); (3, 4)]) = Some [[1; 0]; [2]; [4; 3]] /\
  conncomps_spec_decl (mkG [0; 1; 2; 3; 4] [(0, 1); (3, 4)]) [[1; 0]; [2]; [4; 3]] /\
  ~ conncomps_spec_decl (mkG [0; 1; 2; 3; 4] [(0, 1); (3, 4)]) [[1; 0; 2]; [4; 3]].
Proof.
  split; [vm_compute; reflexivity|]. split.
  - apply conncomps_okb_iff. vm_compute. reflexivity.
  - intro H. apply conncomps_okb_iff in H. vm_compute in H. discriminate.
Qed.

(* ================================================================== 6. the two notions of acyclicity agree *)
(* Peel.v proves that the trees of the MODEL are forests in the constructive sense (built by attaching pendant edges to
   new leaves); the checker's tree_spec uses `acyclic` (every edge is a bridge).  The first implies the second. *)
Theorem forest_acyclic (ns : list nat) (es : list edge) : forest ns es -> acyclic es.
Proof.
  induction 1 as [|v ns es F IH Hv|l p ns es F IH Hp Hl].
  - intros e1 e e2 E. destruct e1; discriminate.
  - exact IH.
  - destruct (forest_nodes ns es F) as [_ Hin].
    assert (Hcl : forall (es0 : list edge) x y, incl es0 es -> In x ns -> reach es0 x y -> In y ns).
    { intros es0 x y Hi Hx Hr. apply (closed_reach es0 (fun z => In z ns)) with (a := x); auto.
      intros u w _ [Ha|Ha]; apply Hi, Hin in Ha; cbn [fst snd] in Ha; tauto. }
    intros e1 e e2 E. destruct e1 as [|e0 e1'].
    + cbn [app] in E. injection E as E1 E2. subst e e2. cbn [app fst snd]. intro Hr.
      apply Hl. apply (Hcl es p l); auto. apply incl_refl.
    + cbn [app] in E. injection E as E1 E2. subst e0 es. cbn [app]. intro Hr.
      assert (Hsub : incl (e1' ++ e2) (e1' ++ e :: e2)).
      { intros z Hz. apply in_app_iff in Hz. apply in_app_iff. destruct Hz; [left | right; right]; assumption. }
      assert (He : In (fst e) ns /\ In (snd e) ns) by (apply Hin; apply in_app_iff; right; left; reflexivity).
      apply reach_split in Hr. destruct Hr as [Hr|[[H1 H2]|[H1 H2]]].
      * exact (IH e1' e e2 eq_refl Hr).
      * apply Hl. apply (Hcl (e1' ++ e2) (snd e) l); [exact Hsub | tauto | apply reach_sym; exact H2].
      * apply Hl. apply (Hcl (e1' ++ e2) (fst e) l); [exact Hsub | tauto | exact H1].
Qed.

Example forest_acyclic_ex : forest [3; 2; 1; 0] [(2, 3); (1, 2); (0, 1)] /\ acyclic [(2, 3); (1, 2); (0, 1)].
Proof.
  assert (F : forest [3; 2; 1; 0] [(2, 3); (1, 2); (0, 1)]).
  { apply forest_leaf; [|cbn; tauto | cbn; intuition lia].
    apply forest_leaf; [|cbn; tauto | cbn; intuition lia].
    apply forest_leaf; [|cbn; tauto | cbn; intuition lia].
    apply forest_node; [constructor | intros []]. }
  split; [exact F | exact (forest_acyclic _ _ F)].
Qed.
