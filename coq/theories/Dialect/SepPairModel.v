(* C18 model (no proofs in this file): dialect::SepPair / SepMatrix of cola/libdialect/constraints.{h,cpp}
   and the SEPCO line grammar of TGLF (constraints.cpp SepPair::writeTglf, io.cpp buildGraphFromTglf).
   Hand-written (tools/cpp2v.py has no `switch`, no std::swap and maps double to Q, which cannot carry the
   sign bit of -0.0); tied to the code by the exhaustive correspondence of checks/c18.py.
   Source lines refer to /repo/cola/libdialect at the time of writing. *)
From Coq Require Import QArith.Qround.
From Adapt Require Import Num.Qaux Num.SignedZero.
Local Open Scope Q_scope.

(* ---- enumerations (constraints.h:48-101) ---- *)
Inductive GapType := CENTRE | BDRY.
Inductive SepType := NONE | EQ | INEQ.
Inductive SepDir := EAST | SOUTH | WEST | NORTH | RIGHT | DOWN | LEFT | UP.
Inductive SepTransform := ROTATE90CW | ROTATE90ACW | ROTATE180 | FLIPV | FLIPH | FLIPMD | FLIPOD.
Inductive CardinalDir := CEAST | CSOUTH | CWEST | CNORTH.

Record SepPair := mkSP { xgt : GapType; ygt : GapType; xst : SepType; yst : SepType; xgap : sgap; ygap : sgap }.

(* SepPair::SepPair(): CENTRE, CENTRE, NONE, NONE, 0.0, 0.0 (constraints.h:104) *)
Definition sp_default : SepPair := mkSP CENTRE CENTRE NONE NONE sg_pz sg_pz.

Definition sp_wf (sp : SepPair) : Prop := sg_wf (xgap sp) /\ sg_wf (ygap sp).

(* constraints.cpp:57-78 *)
Definition negateSepDir (sd : SepDir) : SepDir :=
  match sd with
  | EAST => WEST | SOUTH => NORTH | WEST => EAST | NORTH => SOUTH
  | RIGHT => LEFT | DOWN => UP | LEFT => RIGHT | UP => DOWN
  end.

Definition sepDirIsCardinal (sd : SepDir) : bool :=
  match sd with EAST | SOUTH | WEST | NORTH => true | _ => false end.

(* Compass::cardFlip *)
Definition cardFlip (d : CardinalDir) : CardinalDir :=
  match d with CEAST => CWEST | CSOUTH => CNORTH | CWEST => CEAST | CNORTH => CSOUTH end.

(* SepPair::addSep, constraints.cpp:149-211.  `ygap = 0` assigns +0.0. *)
Definition addSep (gt : GapType) (sd : SepDir) (st : SepType) (gap : sgap) (sp : SepPair) : SepPair :=
  match st with
  | NONE => sp
  | _ =>
    match sd with
    | EAST  => mkSP gt CENTRE st EQ gap sg_pz
    | SOUTH => mkSP CENTRE gt EQ st sg_pz gap
    | WEST  => mkSP gt CENTRE st EQ (sg_neg gap) sg_pz
    | NORTH => mkSP CENTRE gt EQ st sg_pz (sg_neg gap)
    | RIGHT => mkSP gt (ygt sp) st (yst sp) gap (ygap sp)
    | DOWN  => mkSP (xgt sp) gt (xst sp) st (xgap sp) gap
    | LEFT  => mkSP gt (ygt sp) st (yst sp) (sg_neg gap) (ygap sp)
    | UP    => mkSP (xgt sp) gt (xst sp) st (xgap sp) (sg_neg gap)
    end
  end.

(* SepPair::transform, constraints.cpp:213-271 *)
Definition transform (tf : SepTransform) (sp : SepPair) : SepPair :=
  match tf with
  | ROTATE90CW  => mkSP (ygt sp) (xgt sp) (yst sp) (xst sp) (sg_neg (ygap sp)) (xgap sp)
  | ROTATE90ACW => mkSP (ygt sp) (xgt sp) (yst sp) (xst sp) (ygap sp) (sg_neg (xgap sp))
  | ROTATE180   => mkSP (xgt sp) (ygt sp) (xst sp) (yst sp) (sg_neg (xgap sp)) (sg_neg (ygap sp))
  | FLIPV       => mkSP (xgt sp) (ygt sp) (xst sp) (yst sp) (sg_neg (xgap sp)) (ygap sp)
  | FLIPH       => mkSP (xgt sp) (ygt sp) (xst sp) (yst sp) (xgap sp) (sg_neg (ygap sp))
  | FLIPMD      => mkSP (ygt sp) (xgt sp) (yst sp) (xst sp) (ygap sp) (xgap sp)
  | FLIPOD      => mkSP (ygt sp) (xgt sp) (yst sp) (xst sp) (sg_neg (ygap sp)) (sg_neg (xgap sp))
  end.

Definition gt_eqb (a b : GapType) : bool := match a, b with CENTRE, CENTRE | BDRY, BDRY => true | _, _ => false end.
Definition st_eqb (a b : SepType) : bool :=
  match a, b with NONE, NONE | EQ, EQ | INEQ, INEQ => true | _, _ => false end.

(* constraints.cpp:278-310 *)
Definition isVAlign (sp : SepPair) : bool := gt_eqb (xgt sp) CENTRE && st_eqb (xst sp) EQ && sg_is0 (xgap sp).
Definition isHAlign (sp : SepPair) : bool := gt_eqb (ygt sp) CENTRE && st_eqb (yst sp) EQ && sg_is0 (ygap sp).
Definition isVerticalCardinal (sp : SepPair) : bool :=
  isVAlign sp && negb (st_eqb (yst sp) NONE) && (gt_eqb (ygt sp) BDRY || negb (sg_is0 (ygap sp))).
Definition isHorizontalCardinal (sp : SepPair) : bool :=
  isHAlign sp && negb (st_eqb (xst sp) NONE) && (gt_eqb (xgt sp) BDRY || negb (sg_is0 (xgap sp))).
(* None = the std::runtime_error "Nodes do not have cardinal separation!" *)
Definition getCardinalDir (sp : SepPair) : option CardinalDir :=
  if isVerticalCardinal sp then Some (if sg_signbit (ygap sp) then CNORTH else CSOUTH)
  else if isHorizontalCardinal sp then Some (if sg_signbit (xgap sp) then CWEST else CEAST)
  else None.

(* ---- placements: centres and sizes of the src and tgt node; the y axis points down ---- *)
Record place := mkPl { p_sx : Q; p_sy : Q; p_tx : Q; p_ty : Q; p_sw : Q; p_sh : Q; p_tw : Q; p_th : Q }.

(* Declarative meaning of one dimension of a pair.  The node that has to come first (smaller coordinate)
   is src when the sign bit is clear and tgt when it is set; CENTRE gaps measure centre to centre, BDRY
   gaps measure from the far boundary of the first node to the near boundary of the second and are
   increased by the matrix-wide extra boundary gap. *)
Definition holds_dim (extra : Q) (st : SepType) (gt : GapType) (g : sgap) (cs ct ws wt : Q) : Prop :=
  match st with
  | NONE => True
  | _ =>
    let c1 := if sneg g then ct else cs in
    let w1 := if sneg g then wt else ws in
    let c2 := if sneg g then cs else ct in
    let w2 := if sneg g then ws else wt in
    let dist := match gt with CENTRE => c2 - c1 | BDRY => (c2 - w2 / 2) - (c1 + w1 / 2) end in
    let need := match gt with CENTRE => smag g | BDRY => smag g + extra end in
    match st with EQ => dist == need | _ => need <= dist end
  end.

Definition holds (extra : Q) (p : place) (sp : SepPair) : Prop :=
  holds_dim extra (xst sp) (xgt sp) (xgap sp) (p_sx p) (p_tx p) (p_sw p) (p_tw p) /\
  holds_dim extra (yst sp) (ygt sp) (ygap sp) (p_sy p) (p_ty p) (p_sh p) (p_th p).

(* executable twin of holds (used by the correspondence) *)
Definition holds_dimb (extra : Q) (st : SepType) (gt : GapType) (g : sgap) (cs ct ws wt : Q) : bool :=
  match st with
  | NONE => true
  | _ =>
    let c1 := if sneg g then ct else cs in
    let w1 := if sneg g then wt else ws in
    let c2 := if sneg g then cs else ct in
    let w2 := if sneg g then ws else wt in
    let dist := match gt with CENTRE => c2 - c1 | BDRY => (c2 - w2 / 2) - (c1 + w1 / 2) end in
    let need := match gt with CENTRE => smag g | BDRY => smag g + extra end in
    match st with EQ => Qeqb dist need | _ => Qleb need dist end
  end.

Definition holdsb (extra : Q) (p : place) (sp : SepPair) : bool :=
  holds_dimb extra (xst sp) (xgt sp) (xgap sp) (p_sx p) (p_tx p) (p_sw p) (p_tw p) &&
  holds_dimb extra (yst sp) (ygt sp) (ygap sp) (p_sy p) (p_ty p) (p_sh p) (p_th p).

(* Geometric action of the transforms on the plane (y down): ROTATE90CW sends east (1,0) to south (0,1). *)
Definition tf_point (tf : SepTransform) (x y : Q) : Q * Q :=
  match tf with
  | ROTATE90CW  => (- y, x)
  | ROTATE90ACW => (y, - x)
  | ROTATE180   => (- x, - y)
  | FLIPV       => (- x, y)
  | FLIPH       => (x, - y)
  | FLIPMD      => (y, x)
  | FLIPOD      => (- y, - x)
  end.
Definition tf_swaps (tf : SepTransform) : bool :=
  match tf with ROTATE90CW | ROTATE90ACW | FLIPMD | FLIPOD => true | _ => false end.
Definition tf_place (tf : SepTransform) (p : place) : place :=
  let s := tf_point tf (p_sx p) (p_sy p) in
  let t := tf_point tf (p_tx p) (p_ty p) in
  if tf_swaps tf
  then mkPl (fst s) (snd s) (fst t) (snd t) (p_sh p) (p_sw p) (p_th p) (p_tw p)
  else mkPl (fst s) (snd s) (fst t) (snd t) (p_sw p) (p_sh p) (p_tw p) (p_th p).

(* ---- SepPair::generateSeparationConstraint, constraints.cpp:423-471 ----
   the vpsc::Constraint(left, right, gap, equality) means pos(left) + gap <= pos(right) (== when equality) *)
Inductive who := Src | Tgt.
Record vcons := mkVC { vc_left : who; vc_right : who; vc_gap : Q; vc_eq : bool }.

Definition gen_dim (extra : Q) (st : SepType) (gt : GapType) (g : sgap) (ws wt : Q) : option vcons :=
  match st with
  | NONE => None
  | _ =>
    let equality := st_eqb st EQ in
    let l := if sg_signbit g then Tgt else Src in
    let r := if sg_signbit g then Src else Tgt in
    let gap0 := if sg_signbit g then sg_val (sg_neg g) else sg_val g in
    let wl := if sg_signbit g then wt else ws in
    let wr := if sg_signbit g then ws else wt in
    let gap := match gt with BDRY => gap0 + ((wl + wr) / 2 + extra) | CENTRE => gap0 end in
    Some (mkVC l r gap equality)
  end.

(* dim = false: XDIM, true: YDIM *)
Definition generateSeparationConstraint (ydim : bool) (extra : Q) (p : place) (sp : SepPair) : option vcons :=
  if ydim then gen_dim extra (yst sp) (ygt sp) (ygap sp) (p_sh p) (p_th p)
  else gen_dim extra (xst sp) (xgt sp) (xgap sp) (p_sw p) (p_tw p).

Definition vc_pos (w : who) (cs ct : Q) : Q := match w with Src => cs | Tgt => ct end.
Definition vc_holds (c : vcons) (cs ct : Q) : Prop :=
  if vc_eq c then vc_pos (vc_left c) cs ct + vc_gap c == vc_pos (vc_right c) cs ct
  else vc_pos (vc_left c) cs ct + vc_gap c <= vc_pos (vc_right c) cs ct.
Definition vc_holdsb (c : vcons) (cs ct : Q) : bool :=
  if vc_eq c then Qeqb (vc_pos (vc_left c) cs ct + vc_gap c) (vc_pos (vc_right c) cs ct)
  else Qleb (vc_pos (vc_left c) cs ct + vc_gap c) (vc_pos (vc_right c) cs ct).

(* ---- SepMatrix: sparse upper-triangular store, constraints.cpp:473-481, 518-526, 867-913 ----
   An entry keeps the SepPair and its flippedRetrieval flag.  `refresh` says whether getSepPair rewrites the flag
   of an EXISTING pair.  The code is refresh = true (the flag is assigned on every retrieval, since /repo commit
   88a99a7); refresh = false is the behaviour before that fix (flag assigned only inside `if (sp == nullptr)`),
   kept so that the defect stays stated (SepPair.v flip_equiv_refuted) and recognisable by the check.
   checkSepPair always refreshes. *)
Record entry := mkEn { en_lo : nat; en_hi : nat; en_sp : SepPair; en_flip : bool }.
Definition smatrix := list entry.

Fixpoint m_find (lo hi : nat) (m : smatrix) : option entry :=
  match m with
  | [] => None
  | e :: r => if Nat.eqb (en_lo e) lo && Nat.eqb (en_hi e) hi then Some e else m_find lo hi r
  end.
Fixpoint m_put (e : entry) (m : smatrix) : smatrix :=
  match m with
  | [] => [e]
  | f :: r => if Nat.eqb (en_lo f) (en_lo e) && Nat.eqb (en_hi f) (en_hi e) then e :: r else f :: m_put e r
  end.

(* getSepPair: None = the runtime_error for id1 == id2 *)
Definition m_getSepPair (refresh : bool) (id1 id2 : nat) (m : smatrix) : option entry :=
  if Nat.eqb id1 id2 then None else
  let flipped := Nat.ltb id2 id1 in
  let lo := if flipped then id2 else id1 in
  let hi := if flipped then id1 else id2 in
  match m_find lo hi m with
  | Some e => Some (if refresh then mkEn lo hi (en_sp e) flipped else e)
  | None => Some (mkEn lo hi sp_default flipped)
  end.

(* SepMatrix::addSep *)
Definition m_addSep (refresh : bool) (id1 id2 : nat) (gt : GapType) (sd : SepDir) (st : SepType) (gap : sgap)
           (m : smatrix) : option smatrix :=
  match m_getSepPair refresh id1 id2 m with
  | None => None
  | Some e =>
    let gap' := if en_flip e then sg_neg gap else gap in
    Some (m_put (mkEn (en_lo e) (en_hi e) (addSep gt sd st gap' (en_sp e)) (en_flip e)) m)
  end.

(* SepMatrix::addFixedRelativeSep(id1,id2,dx,dy) *)
Definition m_addFixedRelativeSep (refresh : bool) (id1 id2 : nat) (dx dy : sgap) (m : smatrix) : option smatrix :=
  match m_getSepPair refresh id1 id2 m with
  | None => None
  | Some e =>
    let dx' := if en_flip e then sg_neg dx else dx in
    let dy' := if en_flip e then sg_neg dy else dy in
    Some (m_put (mkEn (en_lo e) (en_hi e)
                      (addSep CENTRE DOWN EQ dy' (addSep CENTRE RIGHT EQ dx' (en_sp e))) (en_flip e)) m)
  end.

(* checkSepPair + SepMatrix::getCardinalDir: returns the new matrix (flag refreshed) and
   None = "No constraint.", Some None = not cardinal, Some (Some d) *)
Definition m_getCardinalDir (id1 id2 : nat) (m : smatrix) : smatrix * option (option CardinalDir) :=
  if Nat.eqb id1 id2 then (m, None) else
  let flipped := Nat.ltb id2 id1 in
  let lo := if flipped then id2 else id1 in
  let hi := if flipped then id1 else id2 in
  match m_find lo hi m with
  | None => (m, None)
  | Some e =>
    let d := getCardinalDir (en_sp e) in
    (m_put (mkEn lo hi (en_sp e) flipped) m,
     Some (if flipped then match d with Some c => Some (cardFlip c) | None => None end else d))
  end.

Definition m_transform (tf : SepTransform) (m : smatrix) : smatrix :=
  map (fun e => mkEn (en_lo e) (en_hi e) (transform tf (en_sp e)) (en_flip e)) m.

(* ---- the SEPCO line grammar: "<src> <tgt> <B|C> <dir letter> <== | >=> <number>" ---- *)
Inductive dirc := cE | cS | cW | cN | cR | cD | cL | cU | cX | cY.
Definition dirc_sepdir (c : dirc) : SepDir :=
  match c with cE => EAST | cS => SOUTH | cW => WEST | cN => NORTH | cR => RIGHT | cD => DOWN
             | cL => LEFT | cU => UP | cX => RIGHT | cY => DOWN end.      (* io.cpp:115-128 *)

Section Tglf.
  (* number formatting ("%.<precision>f") and parsing (operator>> into double) are not modelled: *)
  Variable tok : Type.
  Variable fmt : Q -> tok.          (* string_format(fmtStr, value) *)
  Variable parse : tok -> sgap.     (* iss >> gap *)
  Variable zero_tok : tok.          (* the literal "0" of the "C X == 0" / "C Y == 0" lines *)

  Record sline := mkLine { l_gt : GapType; l_dir : dirc; l_rel : SepType; l_num : tok }.

  (* one dimension of the "anything else" branch, constraints.cpp:396-413; neg/pos letters e.g. L/R *)
  Definition write_lateral (extra : Q) (st : SepType) (gt : GapType) (g : sgap) (cneg cpos : dirc) : list sline :=
    match st with
    | NONE => []
    | _ =>
      let ex := match gt with BDRY => extra | CENTRE => 0 end in
      if sg_signbit g then [mkLine gt cneg st (fmt (sg_val (sg_neg g) + ex))]
      else [mkLine gt cpos st (fmt (sg_val g + ex))]
    end.

  (* the aligned branches, constraints.cpp:333-394: the other dimension (st,gt,g) is written as a cardinal
     direction (cneg = N or W, cpos = S or E), or as X / Y when there is none.  None = runtime_error
     "Nodes and are constrained to coincide!" *)
  Definition write_cardinal (extra : Q) (st : SepType) (gt : GapType) (g : sgap) (cneg cpos cnone : dirc)
    : option (list sline) :=
    let ex := match gt with BDRY => extra | CENTRE => 0 end in
    match st with
    | EQ =>
      match gt with
      | CENTRE =>
        if sg_lt0 g then Some [mkLine CENTRE cneg EQ (fmt (sg_val (sg_neg g) + ex))]
        else if sg_gt0 g then Some [mkLine CENTRE cpos EQ (fmt (sg_val g + ex))]
        else None
      | BDRY =>
        if sg_signbit g then Some [mkLine BDRY cneg EQ (fmt (sg_val (sg_neg g) + ex))]
        else Some [mkLine BDRY cpos EQ (fmt (sg_val g + ex))]
      end
    | INEQ =>
      if sg_signbit g then Some [mkLine gt cneg INEQ (fmt (sg_val (sg_neg g) + ex))]
      else Some [mkLine gt cpos INEQ (fmt (sg_val g + ex))]
    | NONE => Some [mkLine CENTRE cnone EQ zero_tok]
    end.

  (* SepPair::writeTglf, constraints.cpp:312-417 (ids are carried separately) *)
  Definition write_sep (extra : Q) (sp : SepPair) : option (list sline) :=
    if st_eqb (xst sp) NONE && st_eqb (yst sp) NONE then Some []
    else if isVAlign sp then write_cardinal extra (yst sp) (ygt sp) (ygap sp) cN cS cX
    else if isHAlign sp then write_cardinal extra (xst sp) (xgt sp) (xgap sp) cW cE cY
    else Some (write_lateral extra (xst sp) (xgt sp) (xgap sp) cL cR ++
               write_lateral extra (yst sp) (ygt sp) (ygap sp) cU cD).

  (* io.cpp:101-139: one SEPCO line is one SepMatrix::addSep; here on the pair itself, `flipped` = the reader's
     ids for the two nodes are in the opposite order to the writer's *)
  Definition read_line (flipped : bool) (l : sline) (sp : SepPair) : SepPair :=
    let g := parse (l_num l) in
    addSep (l_gt l) (dirc_sepdir (l_dir l)) (l_rel l) (if flipped then sg_neg g else g) sp.

  Definition read_sep (flipped : bool) (ls : list sline) : SepPair :=
    fold_left (fun sp l => read_line flipped l sp) ls sp_default.
End Tglf.

(* SepMatrix::areHAligned / areVAligned (constraints.cpp:564-576): checkSepPair refreshes the flag *)
Definition m_areAligned (h : bool) (id1 id2 : nat) (m : smatrix) : smatrix * bool :=
  if Nat.eqb id1 id2 then (m, false) else
  let flipped := Nat.ltb id2 id1 in
  let lo := if flipped then id2 else id1 in
  let hi := if flipped then id1 else id2 in
  match m_find lo hi m with
  | None => (m, false)
  | Some e => (m_put (mkEn lo hi (en_sp e) flipped) m, if h then isHAlign (en_sp e) else isVAlign (en_sp e))
  end.

(* ---- checker "two pairs (under possibly different extra boundary gaps) mean the same for every placement":
   compare a normal form per dimension.  Used on the real TGLF round trip (V). *)
Definition dim_nf (extra : Q) (st : SepType) (gt : GapType) (g : sgap) : SepType * GapType * bool * Q :=
  match st with
  | NONE => (NONE, CENTRE, false, 0)
  | _ =>
    let need := match gt with CENTRE => smag g | BDRY => smag g + extra end in
    let neg := match st, gt with
               | EQ, CENTRE => if Qeqb need 0 then false else sneg g     (* "same centre" has no direction *)
               | _, _ => sneg g
               end in
    (st, gt, neg, need)
  end.
Definition nf_eqb (a b : SepType * GapType * bool * Q) : bool :=
  let '(s1, g1, n1, q1) := a in let '(s2, g2, n2, q2) := b in
  st_eqb s1 s2 && gt_eqb g1 g2 && Bool.eqb n1 n2 && Qeqb q1 q2.
Definition sep_equivb (extra : Q) (sp : SepPair) (extra' : Q) (sp' : SepPair) : bool :=
  nf_eqb (dim_nf extra (xst sp) (xgt sp) (xgap sp)) (dim_nf extra' (xst sp') (xgt sp') (xgap sp')) &&
  nf_eqb (dim_nf extra (yst sp) (ygt sp) (ygap sp)) (dim_nf extra' (yst sp') (ygt sp') (ygap sp')).

(* the pairs SepPair::writeTglf rejects ("constrained to coincide"): both dimensions CENTRE, EQ, zero *)
Definition coincideb (sp : SepPair) : bool :=
  gt_eqb (xgt sp) CENTRE && st_eqb (xst sp) EQ && sg_is0 (xgap sp) &&
  gt_eqb (ygt sp) CENTRE && st_eqb (yst sp) EQ && sg_is0 (ygap sp).

(* ================================================================================================================
   The remaining public mutators of SepMatrix (constraints.h:187-330, constraints.cpp:473-518, 576-790, 915-931).
   `refresh` as above.  Node positions are read from the graph (Graph::getNode(id)->getCentre()): a placement
   `centres` = id -> (x, y).  A binary64 difference of two of our inputs is exact and x - x = +0.0: sg_of_Q. *)
Definition centres := nat -> Q * Q.

(* SepMatrix::addFixedRelativeSep(id1, id2), constraints.cpp:495-503: freeze the PRESENT offset v - u *)
Definition m_addFixedRelativeSepPos (refresh : bool) (id1 id2 : nat) (pos : centres) (m : smatrix) : option smatrix :=
  let cu := pos id1 in
  let cv := pos id2 in
  m_addFixedRelativeSep refresh id1 id2 (sg_of_Q (fst cv - fst cu)) (sg_of_Q (snd cv - snd cu)) m.

(* (SepDir) dir, constraints.h:215: the enumerators EAST..NORTH have the same values in both enums *)
Definition card_sepdir (c : CardinalDir) : SepDir :=
  match c with CEAST => EAST | CSOUTH => SOUTH | CWEST => WEST | CNORTH => NORTH end.
(* SepMatrix::setCardinalOP, constraints.h:214-216 *)
Definition m_setCardinalOP (refresh : bool) (id1 id2 : nat) (c : CardinalDir) (m : smatrix) : option smatrix :=
  m_addSep refresh id1 id2 BDRY (card_sepdir c) INEQ sg_pz m.
(* SepMatrix::hAlign / vAlign, constraints.h:232-235; alignByEquatedCoord constraints.cpp:505-508 *)
Definition m_hAlign (refresh : bool) (id1 id2 : nat) (m : smatrix) : option smatrix :=
  m_addSep refresh id1 id2 CENTRE DOWN EQ sg_pz m.
Definition m_vAlign (refresh : bool) (id1 id2 : nat) (m : smatrix) : option smatrix :=
  m_addSep refresh id1 id2 CENTRE RIGHT EQ sg_pz m.
(* eq_y = false: vpsc::XDIM (x equated = vertical alignment), true: YDIM *)
Definition m_alignByEquatedCoord (refresh : bool) (id1 id2 : nat) (eq_y : bool) (m : smatrix) : option smatrix :=
  if eq_y then m_hAlign refresh id1 id2 m else m_vAlign refresh id1 id2 m.

(* SepMatrix::free, constraints.cpp:915-931 *)
Definition m_free (id1 id2 : nat) (m : smatrix) : smatrix :=
  if Nat.eqb id1 id2 then m else
  let lo := Nat.min id1 id2 in
  let hi := Nat.max id1 id2 in
  filter (fun e => negb (Nat.eqb (en_lo e) lo && Nat.eqb (en_hi e) hi)) m.
(* SepMatrix::clear *)
Definition m_clear (m : smatrix) : smatrix := [].

Definition mem_id (i : nat) (ids : list nat) : bool := existsb (Nat.eqb i) ids.
(* transformClosedSubset: both nodes in the set; transformOpenSubset: at least one (constraints.cpp:586-707) *)
Definition m_transformClosedSubset (tf : SepTransform) (ids : list nat) (m : smatrix) : smatrix :=
  map (fun e => if mem_id (en_lo e) ids && mem_id (en_hi e) ids
                then mkEn (en_lo e) (en_hi e) (transform tf (en_sp e)) (en_flip e) else e) m.
Definition m_transformOpenSubset (tf : SepTransform) (ids : list nat) (m : smatrix) : smatrix :=
  map (fun e => if mem_id (en_lo e) ids || mem_id (en_hi e) ids
                then mkEn (en_lo e) (en_hi e) (transform tf (en_sp e)) (en_flip e) else e) m.
(* removeNode / removeNodes (constraints.cpp:709-790): every record that mentions one of the nodes goes *)
Definition m_removeNodes (ids : list nat) (m : smatrix) : smatrix :=
  filter (fun e => negb (mem_id (en_lo e) ids || mem_id (en_hi e) ids)) m.
Definition m_removeNode (id : nat) (m : smatrix) : smatrix := m_removeNodes [id] m.

(* setCorrespondingConstraints (constraints.cpp:797-845): the records whose two nodes both belong to the other
   matrix's graph are set there (the other matrix is empty in the harness) *)
Definition m_corresponding (ids : list nat) (m : smatrix) : smatrix :=
  filter (fun e => mem_id (en_lo e) ids && mem_id (en_hi e) ids) m.

(* setSepPair(id1, id2, sp), constraints.cpp:792-795: None = runtime_error "Bad ids for SepPair." *)
Definition m_setSepPair (id1 id2 : nat) (sp : SepPair) (m : smatrix) : option smatrix :=
  if Nat.ltb id1 id2 then Some (m_put (mkEn id1 id2 sp false) m) else None.

(* SepPair::roundGapsUpAbs (constraints.cpp:272-275): floor for a set sign bit, ceil otherwise, i.e. the magnitude
   goes up to the next integer and the sign bit stays (floor(-0.0) = -0.0) *)
Definition q_ceil (q : Q) : Q := inject_Z (Qceiling q).
Definition sg_roundUpAbs (g : sgap) : sgap := mkSg (sneg g) (q_ceil (smag g)).
Definition roundGapsUpAbs (sp : SepPair) : SepPair :=
  mkSP (xgt sp) (ygt sp) (xst sp) (yst sp) (sg_roundUpAbs (xgap sp)) (sg_roundUpAbs (ygap sp)).
(* SepMatrix::roundGapsUpward (constraints.cpp:510-517) on (extraBdryGap, matrix) *)
Definition m_roundGapsUpward (em : Q * smatrix) : Q * smatrix :=
  (q_ceil (fst em), map (fun e => mkEn (en_lo e) (en_hi e) (roundGapsUpAbs (en_sp e)) (en_flip e)) (snd em)).

(* the placement of a stored record: src = the node of smaller id; sizes from a size map *)
Definition place_of (pos : centres) (size : nat -> Q * Q) (lo hi : nat) : place :=
  mkPl (fst (pos lo)) (snd (pos lo)) (fst (pos hi)) (snd (pos hi))
       (fst (size lo)) (snd (size lo)) (fst (size hi)) (snd (size hi)).
(* which stored records the present placement satisfies (executable; used on the real matrix via the generated
   constraints, and on the model) *)
Definition m_holdsb (extra : Q) (pos : centres) (size : nat -> Q * Q) (m : smatrix) : list (nat * nat * bool) :=
  map (fun e => (en_lo e, en_hi e, holdsb extra (place_of pos size (en_lo e) (en_hi e)) (en_sp e))) m.
