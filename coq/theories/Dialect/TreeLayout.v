(* C19, symmetric tree layout (V part): the checker tree_layout_ok of TreeLayoutModel.v decides exactly the
   declarative condition tree_layout_spec ("no two node boxes share an interior point").  The checker is run on
   the real output of Tree::symmetricLayout by checks/c19.py; symmetricLayout itself is not modelled. *)
From Adapt Require Import Num.Qaux Dialect.TreeLayoutModel.
Local Open Scope Q_scope.

(* two open intervals (l1,h1), (l2,h2) share a point iff every lower end is below every upper end *)
Lemma open_intervals_meet l1 h1 l2 h2 :
  (exists x, l1 < x /\ x < h1 /\ l2 < x /\ x < h2) <-> (l1 < h1 /\ l2 < h2 /\ l1 < h2 /\ l2 < h1).
Proof.
  split.
  - intros (x & ? & ? & ? & ?). repeat split; lra.
  - intros (A & B & C & D).
    destruct (Qlt_le_dec l1 l2), (Qlt_le_dec h1 h2).
    + exists ((1 # 2) * (l2 + h1)). repeat split; lra.
    + exists ((1 # 2) * (l2 + h2)). repeat split; lra.
    + exists ((1 # 2) * (l1 + h1)). repeat split; lra.
    + exists ((1 # 2) * (l1 + h2)). repeat split; lra.
Qed.

Lemma boxes_overlap_b_spec a b : boxes_overlap_b a b = true <-> boxes_overlap a b.
Proof.
  unfold boxes_overlap_b, boxes_overlap, inside. rewrite !andb_true_iff, !Qltb_spec.
  pose proof (open_intervals_meet (bx0 a) (bx1 a) (bx0 b) (bx1 b)) as HX.
  pose proof (open_intervals_meet (by0 a) (by1 a) (by0 b) (by1 b)) as HY.
  split.
  - intros H. destruct HX as [_ HX], HY as [_ HY].
    destruct HX as (x & ? & ? & ? & ?); [tauto|].
    destruct HY as (y & ? & ? & ? & ?); [tauto|].
    exists (mkpt x y). cbn [px py]. tauto.
  - intros (p & (? & ? & ? & ?) & (? & ? & ? & ?)).
    destruct HX as [HX _], HY as [HY _].
    destruct HX as (? & ? & ? & ?); [exists (px p); tauto|].
    destruct HY as (? & ? & ? & ?); [exists (py p); tauto|].
    tauto.
Qed.

Lemma boxes_overlap_sym a b : boxes_overlap a b <-> boxes_overlap b a.
Proof. unfold boxes_overlap. split; intros (p & ? & ?); exists p; tauto. Qed.

Lemma znodupb_spec l : znodupb l = true <-> NoDup l.
Proof.
  induction l as [|x r IH]; cbn [znodupb].
  - split; [constructor | reflexivity].
  - rewrite andb_true_iff, negb_true_iff, IH. split.
    + intros [H1 H2]. constructor; [|exact H2]. intro Hin.
      assert (existsb (Z.eqb x) r = true) by (apply existsb_exists; exists x; split; [exact Hin | apply Z.eqb_refl]).
      congruence.
    + intros H. inversion H as [|? ? Hn Hr]; subst. split; [|exact Hr].
      destruct (existsb (Z.eqb x) r) eqn:E; [|reflexivity].
      apply existsb_exists in E. destruct E as (y & Hy & Ey). apply Z.eqb_eq in Ey. subst. contradiction.
Qed.

(* the checker is sound and complete *)
Theorem tree_layout_ok_iff bs : tree_layout_ok bs = true <-> tree_layout_spec bs.
Proof.
  unfold tree_layout_ok, tree_layout_spec. rewrite andb_true_iff, znodupb_spec, forallb_forall.
  split; intros [Hd H]; (split; [exact Hd|]).
  - intros a b Ha Hb Hne Ho. specialize (H a Ha). rewrite forallb_forall in H. specialize (H b Hb).
    apply orb_true_iff in H. destruct H as [H|H].
    + apply Z.eqb_eq in H. contradiction.
    + apply negb_true_iff in H. apply boxes_overlap_b_spec in Ho. congruence.
  - intros a Ha. apply forallb_forall. intros b Hb. apply orb_true_iff.
    destruct (Z.eqb (bid a) (bid b)) eqn:E; [left; reflexivity | right].
    apply Z.eqb_neq in E. apply negb_true_iff. destruct (boxes_overlap_b a b) eqn:Eo; [|reflexivity].
    apply boxes_overlap_b_spec in Eo. exfalso. exact (H a b Ha Hb E Eo).
Qed.

Theorem tree_layout_ok_sound bs : tree_layout_ok bs = true -> tree_layout_spec bs.
Proof. apply tree_layout_ok_iff. Qed.
Theorem tree_layout_ok_complete bs : tree_layout_spec bs -> tree_layout_ok bs = true.
Proof. apply tree_layout_ok_iff. Qed.

(* the diagnosis list names exactly the overlapping pairs of differently named boxes *)
Lemma overlapping_pairs_In bs i j :
  In (i, j) (overlapping_pairs bs) ->
  exists a b, In a bs /\ In b bs /\ bid a = i /\ bid b = j /\ i <> j /\ boxes_overlap a b.
Proof.
  induction bs as [|a r IH]; cbn [overlapping_pairs]; [intros []|].
  rewrite in_app_iff, in_map_iff. intros [(b & E & Hb)|H].
  - apply filter_In in Hb. destruct Hb as [Hb Hc]. apply andb_true_iff in Hc. destruct Hc as [Hn Ho].
    apply negb_true_iff, Z.eqb_neq in Hn. apply boxes_overlap_b_spec in Ho. inversion E; subst.
    exists a, b. repeat split; auto using in_eq, in_cons.
  - destruct (IH H) as (a' & b' & ? & ? & ? & ? & ? & ?). exists a', b'. repeat split; auto using in_cons.
Qed.

Lemma overlapping_pairs_nil bs :
  overlapping_pairs bs = [] ->
  forall a b, In a bs -> In b bs -> bid a <> bid b -> ~ boxes_overlap a b.
Proof.
  induction bs as [|x r IH]; cbn [overlapping_pairs]; [intros _ a b []|].
  intros E. apply app_eq_nil in E. destruct E as [E1 E2]. apply map_eq_nil in E1.
  assert (Hx : forall b, In b r -> bid x <> bid b -> ~ boxes_overlap x b).
  { intros b Hb Hne Ho. apply boxes_overlap_b_spec in Ho.
    assert (Hin : In b (filter (fun b => negb (Z.eqb (bid x) (bid b)) && boxes_overlap_b x b) r)).
    { apply filter_In. split; [exact Hb|]. apply andb_true_iff. split; [|exact Ho].
      apply negb_true_iff, Z.eqb_neq. exact Hne. }
    rewrite E1 in Hin. exact Hin. }
  intros a b [Ha|Ha] [Hb|Hb] Hne; subst.
  - congruence.
  - apply Hx; assumption.
  - rewrite boxes_overlap_sym. apply Hx; auto.
  - apply (IH E2); assumption.
Qed.

(* ---- non-vacuity: a parent with two wide children one rank below (NORTH growth, nodeSep 10): fine as laid out by
   the library (centres +-65), overlapping when the children are spaced by their height instead of their width *)
Definition ex_good : list box :=
  [box_of_centre 0 0 0 90 20; box_of_centre 1 65 (-150) 90 20; box_of_centre 2 (-65) (-150) 90 20].
Definition ex_bad : list box :=
  [box_of_centre 0 0 0 90 20; box_of_centre 1 30 (-150) 90 20; box_of_centre 2 (-30) (-150) 90 20].

Example tree_layout_nonvacuous :
  tree_layout_spec ex_good /\ ~ tree_layout_spec ex_bad /\ overlapping_pairs ex_bad = [(1%Z, 2%Z)].
Proof.
  split; [apply tree_layout_ok_iff; vm_compute; reflexivity|].
  split; [|vm_compute; reflexivity].
  intro H. apply tree_layout_ok_iff in H. vm_compute in H. discriminate.
Qed.
