(* C19 proofs about Dialect/PeelModel.v (DESIGN 5.19). *)
From Coq Require Import List Arith Bool Lia Permutation.
Import ListNotations.
From Adapt Require Import Dialect.PeelModel.

(* ------------------------------------------------------------------ the loop ends only when no leaf is left *)
Lemma peel_rounds_no_leaves fuel : forall g stems core st,
  peel_rounds fuel g stems = Ok (core, st) -> leaves core = [].
Proof.
  induction fuel as [|f IH]; intros g stems core st H; [discriminate|].
  cbn [peel_rounds] in H. destruct (leaves g) as [|l ls] eqn:El.
  - inversion H; subst. exact El.
  - destruct (g_nodes (sever g (l :: ls))).
    + destruct (Nat.eqb _ 2); [|discriminate]. eapply IH; eauto.
    + eapply IH; eauto.
Qed.

(* ------------------------------------------------------------------ booleans on lists *)
Lemma mem_In v l : mem v l = true <-> In v l.
Proof.
  unfold mem. rewrite existsb_exists. split.
  - intros [x [Hx E]]. apply Nat.eqb_eq in E. now subst.
  - intro H. exists v. split; [assumption | apply Nat.eqb_refl].
Qed.
Lemma mem_false v l : mem v l = false <-> ~ In v l.
Proof. rewrite <- mem_In. destruct (mem v l); split; congruence. Qed.

Lemma nodupb_NoDup l : nodupb l = true <-> NoDup l.
Proof.
  induction l as [|x r IH]; cbn.
  - split; [constructor | reflexivity].
  - rewrite andb_true_iff, negb_true_iff, mem_false, IH. split.
    + intros [H1 H2]. now constructor.
    + intro H. inversion H; subst. tauto.
Qed.
Lemma inclb_incl a b : inclb a b = true <-> incl a b.
Proof.
  unfold inclb, incl. rewrite forallb_forall. split; intros H x Hx.
  - apply mem_In. auto.
  - apply mem_In. auto.
Qed.
Lemma same_setb_spec a b : same_setb a b = true <-> (forall x, In x a <-> In x b).
Proof.
  unfold same_setb. rewrite andb_true_iff, !inclb_incl. unfold incl. split.
  - intros [H1 H2] x. split; auto.
  - intro H. split; intros x Hx; apply H; assumption.
Qed.

Lemma NoDup_app_intro {A} (l1 l2 : list A) :
  NoDup l1 -> NoDup l2 -> (forall x, In x l1 -> In x l2 -> False) -> NoDup (l1 ++ l2).
Proof.
  induction l1 as [|a l1 IH]; cbn; intros H1 H2 Hd; [assumption|].
  inversion H1; subst. constructor.
  - rewrite in_app_iff. intros [H|H]; [contradiction | eapply Hd; [left; reflexivity | assumption]].
  - apply IH; auto. intros x Hx Hx'. eapply Hd; [right; eassumption | assumption].
Qed.
Lemma NoDup_app_elim {A} (l1 l2 : list A) :
  NoDup (l1 ++ l2) -> NoDup l1 /\ NoDup l2 /\ (forall x, In x l1 -> In x l2 -> False).
Proof.
  induction l1 as [|a l1 IH]; cbn; intro H.
  - split; [constructor|]. split; [assumption|]. intros x [].
  - inversion H; subst. destruct (IH H3) as (N1 & N2 & D). rewrite in_app_iff in H2. split; [|split].
    + constructor; tauto.
    + assumption.
    + intros x [Hx|Hx] Hx'; [subst; tauto | eapply D; eassumption].
Qed.

(* ------------------------------------------------------------------ adjacency and reachability *)
Definition adj (es : list edge) (a b : nat) : Prop := In (a, b) es \/ In (b, a) es.

Inductive reach (es : list edge) : nat -> nat -> Prop :=
| reach_refl a : reach es a a
| reach_step a b c : adj es a b -> reach es b c -> reach es a c.

Lemma adj_sym es a b : adj es a b -> adj es b a.
Proof. unfold adj. tauto. Qed.
Lemma reach_trans es a b c : reach es a b -> reach es b c -> reach es a c.
Proof. induction 1; intro H'; [assumption | econstructor; eauto]. Qed.
Lemma reach_sym es a b : reach es a b -> reach es b a.
Proof.
  induction 1; [constructor|]. eapply reach_trans; [eassumption|].
  econstructor; [apply adj_sym; eassumption | constructor].
Qed.
Lemma reach_mono es es' a b : incl es es' -> reach es a b -> reach es' a b.
Proof.
  intros Hi H. induction H; [constructor|]. econstructor; [|eassumption].
  destruct H as [H|H]; [left | right]; apply Hi; assumption.
Qed.

Lemma incident_spec v e : incident v e = true <-> fst e = v \/ snd e = v.
Proof. unfold incident. rewrite orb_true_iff, !Nat.eqb_eq. tauto. Qed.

Lemma In_neighbours es a b : In b (neighbours es a) <-> adj es a b.
Proof.
  unfold neighbours, adj. rewrite in_map_iff. split.
  - intros [[x y] [E Hin]]. apply filter_In in Hin. destruct Hin as [Hin Hi].
    apply incident_spec in Hi. cbn in Hi. unfold other_end in E. cbn in E.
    destruct (Nat.eqb x a) eqn:Exa.
    + apply Nat.eqb_eq in Exa. subst. now left.
    + apply Nat.eqb_neq in Exa. destruct Hi as [Hi|Hi]; [congruence|]. subst. now right.
  - intros [H|H].
    + exists (a, b). split.
      * unfold other_end. cbn. now rewrite Nat.eqb_refl.
      * apply filter_In. split; [assumption|]. apply incident_spec. now left.
    + exists (b, a). split.
      * unfold other_end. cbn. destruct (Nat.eqb b a) eqn:E; [apply Nat.eqb_eq in E; congruence | reflexivity].
      * apply filter_In. split; [assumption|]. apply incident_spec. now right.
Qed.

(* ------------------------------------------------------------------ explore = the reachable set *)
Lemma explore_spec fuel es : forall work seen r,
  explore fuel es work seen = Some r ->
  NoDup seen ->
  NoDup r /\ incl seen r /\
  (forall x, In x r -> In x seen \/ exists w, In w work /\ reach es w x) /\
  ((forall x y, In x seen -> adj es x y -> In y seen \/ In y work) ->
   incl work r /\ forall x y, In x r -> adj es x y -> In y r).
Proof.
  induction fuel as [|f IH]; intros work seen r H Hnd; [discriminate|].
  cbn [explore] in H. destruct work as [|v w].
  - inversion H; subst. split; [assumption|]. split; [apply incl_refl|]. split; [intros x Hx; now left|].
    intro H0. split; [intros x []|].
    intros x y Hx Ha. destruct (H0 x y Hx Ha) as [?|[]]; assumption.
  - destruct (mem v seen) eqn:Ev.
    + apply mem_In in Ev. destruct (IH _ _ _ H Hnd) as (N & I & R & Cl).
      split; [assumption|]. split; [assumption|]. split.
      * intros x Hx. destruct (R x Hx) as [?|[u [Hu Hr]]]; [now left|]. right. exists u. split; [now right | assumption].
      * intro H0.
        assert (Hinv : forall x y, In x seen -> adj es x y -> In y seen \/ In y w).
        { intros x y Hx Ha. destruct (H0 x y Hx Ha) as [?|[?|?]]; [now left | subst; now left | now right]. }
        destruct (Cl Hinv) as [Cw Cc]. split; [|exact Cc].
        intros u [Hu|Hu]; [subst; apply I; assumption | apply Cw; assumption].
    + apply mem_false in Ev.
      assert (Hnd' : NoDup (v :: seen)) by (constructor; assumption).
      destruct (IH _ _ _ H Hnd') as (N & I & R & Cl).
      split; [assumption|]. split; [intros x Hx; apply I; now right|]. split.
      * intros x Hx. destruct (R x Hx) as [[?|?]|[u [Hu Hr]]].
        -- subst. right. exists x. split; [now left | constructor].
        -- now left.
        -- right. apply in_app_or in Hu. destruct Hu as [Hu|Hu].
           ++ exists v. split; [now left|]. econstructor; [apply In_neighbours; eassumption | assumption].
           ++ exists u. split; [now right | assumption].
      * intro H0.
        assert (Hinv : forall x y, In x (v :: seen) -> adj es x y -> In y (v :: seen) \/ In y (neighbours es v ++ w)).
        { intros x y [Hx|Hx] Ha.
          - subst. right. apply in_or_app. left. apply In_neighbours. assumption.
          - destruct (H0 x y Hx Ha) as [?|[?|?]]; [left; now right | subst; left; now left | right; apply in_or_app; now right]. }
        destruct (Cl Hinv) as [Cw Cc]. split; [|exact Cc].
        intros u [Hu|Hu]; [subst; apply I; now left | apply Cw; apply in_or_app; now right].
Qed.

Lemma closed_reach es (P : nat -> Prop) :
  (forall x y, P x -> adj es x y -> P y) -> forall a b, reach es a b -> P a -> P b.
Proof. intros Hc a b H. induction H; intro Pa; [assumption|]. apply IHreach. eapply Hc; eauto. Qed.

Theorem explore_reach fuel es v r :
  explore fuel es [v] [] = Some r -> NoDup r /\ forall x, In x r <-> reach es v x.
Proof.
  intro H. destruct (explore_spec _ _ _ _ _ H (NoDup_nil _)) as (N & _ & R & Cl). split; [assumption|].
  destruct Cl as [Cw Cc]; [intros x y []|].
  intro x. split.
  - intro Hx. destruct (R x Hx) as [[]|[w [[Hw|[]] Hr]]]. now subst.
  - intro Hr. apply (closed_reach es (fun x => In x r) Cc v x Hr). apply Cw. now left.
Qed.

(* ------------------------------------------------------------------ conncomps_partition *)
Lemma conncomps_spec fuel es : forall rem cs,
  conncomps fuel es rem = Some cs -> NoDup rem ->
  (forall x y, In x rem -> reach es x y -> In y rem) ->
  NoDup (concat cs) /\ (forall x, In x (concat cs) <-> In x rem) /\
  (forall c, In c cs -> exists v, In v c /\ forall x, In x c <-> reach es v x).
Proof.
  induction fuel as [|f IH]; intros rem cs H Hnd Hcl; [discriminate|].
  cbn [conncomps] in H. destruct rem as [|v r].
  - inversion H; subst. cbn. split; [constructor|]. split; [tauto|]. intros c [].
  - destruct (explore _ es [v] []) as [c|] eqn:Ec; [|discriminate].
    destruct (conncomps f es _) as [cs'|] eqn:Er; [|discriminate]. inversion H; subst. clear H.
    apply explore_reach in Ec. destruct Ec as [Nc Rc].
    set (r' := filter (fun u => negb (mem u c)) r) in *.
    assert (Hr' : forall x, In x r' <-> In x r /\ ~ In x c).
    { intro x. unfold r'. rewrite filter_In, negb_true_iff, mem_false. tauto. }
    assert (Hvc : In v c) by (apply Rc; constructor).
    assert (Hcl' : forall x y, In x r' -> reach es x y -> In y r').
    { intros x y Hx Hxy. apply Hr' in Hx. destruct Hx as [Hx Hnc]. apply Hr'.
      assert (Hy : In y (v :: r)) by (eapply Hcl; [right; eassumption | assumption]).
      assert (Hyc : ~ In y c).
      { intro Hyc. apply Hnc. apply Rc. eapply reach_trans; [apply Rc; eassumption | apply reach_sym; assumption]. }
      split; [|assumption]. destruct Hy as [Hy|Hy]; [subst; contradiction | assumption]. }
    assert (Hnd' : NoDup r') by (unfold r'; apply NoDup_filter; inversion Hnd; assumption).
    destruct (IH _ _ Er Hnd' Hcl') as (N & S & Cs).
    split; [|split].
    + cbn. apply NoDup_app_intro; auto. intros x Hx Hx'. apply S in Hx'. apply Hr' in Hx'. tauto.
    + intro x. cbn. rewrite in_app_iff, S, Hr'. split.
      * intros [Hx|[Hx _]]; [|now right]. eapply Hcl; [now left | apply Rc; assumption].
      * intros [Hx|Hx]; [subst; now left|]. destruct (in_dec Nat.eq_dec x c); [now left | right; tauto].
    + intros c0 [Hc0|Hc0]; [subst; exists v; split; assumption | apply Cs; assumption].
Qed.

Definition graph_wf (g : graph) : Prop :=
  NoDup (g_nodes g) /\ forall e, In e (g_edges g) -> In (fst e) (g_nodes g) /\ In (snd e) (g_nodes g).

Lemma adj_in_nodes g a b : graph_wf g -> adj (g_edges g) a b -> In a (g_nodes g) /\ In b (g_nodes g).
Proof. intros [_ W] [H|H]; apply W in H; cbn in H; tauto. Qed.

(* Graph::getConnComps: the components partition the nodes, each is connected, and no edge leaves a component
   (so every edge lies in exactly one component) *)
Theorem conncomps_partition g cs :
  graph_wf g -> get_conncomps g = Some cs ->
  NoDup (concat cs) /\ (forall x, In x (concat cs) <-> In x (g_nodes g)) /\
  (forall c a b, In c cs -> In a c -> In b c -> reach (g_edges g) a b) /\
  (forall c a b, In c cs -> In a c -> adj (g_edges g) a b -> In b c).
Proof.
  intros W H. unfold get_conncomps in H.
  assert (Hcl : forall x y, In x (g_nodes g) -> reach (g_edges g) x y -> In y (g_nodes g)).
  { intros x y Hx Hr. apply (closed_reach (g_edges g) (fun z => In z (g_nodes g))) with (a := x); auto.
    intros u w _ Ha. apply (adj_in_nodes g u w W Ha). }
  destruct (conncomps_spec _ _ _ _ H (proj1 W) Hcl) as (N & S & Cs). repeat split; auto; try apply S.
  - intros c a b Hc Ha Hb. destruct (Cs c Hc) as [v [_ Hv]].
    eapply reach_trans; [apply reach_sym; apply Hv; eassumption | apply Hv; assumption].
  - intros c a b Hc Ha Hab. destruct (Cs c Hc) as [v [_ Hv]]. apply Hv.
    eapply reach_trans; [apply Hv; eassumption | econstructor; [eassumption | constructor]].
Qed.

(* ------------------------------------------------------------------ simple connected graphs, one peeling round *)
Definition simple_graph (g : graph) : Prop :=
  NoDup (g_nodes g) /\
  (forall e, In e (g_edges g) -> In (fst e) (g_nodes g) /\ In (snd e) (g_nodes g) /\ fst e <> snd e) /\
  NoDup (map norm_edge (g_edges g)).
Definition connected (g : graph) : Prop :=
  forall a b, In a (g_nodes g) -> In b (g_nodes g) -> reach (g_edges g) a b.

Lemma simple_wf g : simple_graph g -> graph_wf g.
Proof. intros (N & E & _). split; [assumption|]. intros e He. destruct (E e He) as (? & ? & _). tauto. Qed.

Lemma length1 {A} (l : list A) : length l = 1 -> exists x, l = [x].
Proof. destruct l as [|x [|y r]]; cbn; try discriminate. intros _. now exists x. Qed.

Lemma degree1_edge es v : degree es v = 1 -> exists e0, filter (incident v) es = [e0].
Proof. unfold degree. apply length1. Qed.

Lemma adj_incident es a b : adj es a b -> exists e, In e (filter (incident a) es) /\ other_end a e = b /\ (e = (a, b) \/ e = (b, a)).
Proof.
  intros [H|H].
  - exists (a, b). split; [apply filter_In; split; [assumption | apply incident_spec; now left]|].
    unfold other_end. cbn. rewrite Nat.eqb_refl. auto.
  - exists (b, a). split; [apply filter_In; split; [assumption | apply incident_spec; now right]|].
    unfold other_end. cbn. destruct (Nat.eqb b a) eqn:E; [apply Nat.eqb_eq in E; subst|]; auto.
Qed.

Lemma leaf_neighbour_unique es a b c : degree es a = 1 -> adj es a b -> adj es a c -> b = c.
Proof.
  intros Hd Hb Hc. destruct (degree1_edge _ _ Hd) as [e0 He0].
  destruct (adj_incident _ _ _ Hb) as (e1 & I1 & O1 & _). destruct (adj_incident _ _ _ Hc) as (e2 & I2 & O2 & _).
  rewrite He0 in I1, I2. destruct I1 as [<-|[]]. destruct I2 as [<-|[]]. congruence.
Qed.

Lemma adjacent_leaves_all g a b :
  simple_graph g -> connected g -> degree (g_edges g) a = 1 -> degree (g_edges g) b = 1 -> adj (g_edges g) a b ->
  forall w, In w (g_nodes g) -> w = a \/ w = b.
Proof.
  intros S C Da Db Hab w Hw.
  destruct (adj_in_nodes g a b (simple_wf g S) Hab) as [Ha _].
  apply (closed_reach (g_edges g) (fun x => x = a \/ x = b)) with (a := a); [| apply C; assumption | now left].
  intros x y [-> | ->] Hxy.
  - right. apply (leaf_neighbour_unique (g_edges g) a y b); assumption.
  - left. apply (leaf_neighbour_unique (g_edges g) b y a); [assumption | assumption | apply adj_sym; assumption].
Qed.

Lemma leaves_spec g v : In v (leaves g) <-> In v (g_nodes g) /\ degree (g_edges g) v = 1.
Proof. unfold leaves. rewrite filter_In, Nat.eqb_eq. tauto. Qed.

Lemma sever_nodes g ls v : In v (g_nodes (sever g ls)) <-> In v (g_nodes g) /\ ~ In v ls.
Proof. unfold sever. cbn. rewrite filter_In, negb_true_iff, mem_false. tauto. Qed.

Lemma sever_edges g ls e :
  In e (g_edges (sever g ls)) <-> In e (g_edges g) /\ ~ In (fst e) ls /\ ~ In (snd e) ls.
Proof. unfold sever. cbn. rewrite filter_In, andb_true_iff, !negb_true_iff, !mem_false. tauto. Qed.

Lemma sever_adj g ls a b :
  adj (g_edges (sever g ls)) a b <-> adj (g_edges g) a b /\ ~ In a ls /\ ~ In b ls.
Proof. unfold adj. rewrite !sever_edges. cbn. tauto. Qed.

Lemma NoDup_map_filter {A B} (f : A -> B) (p : A -> bool) l : NoDup (map f l) -> NoDup (map f (filter p l)).
Proof.
  induction l as [|x r IH]; cbn; intro H; [constructor|]. inversion H; subst.
  destruct (p x); cbn; [constructor|]; auto.
  intro Hin. apply H2. apply in_map_iff in Hin. destruct Hin as [y [E Hy]]. apply filter_In in Hy.
  apply in_map_iff. exists y. tauto.
Qed.

Lemma sever_simple g ls : simple_graph g -> simple_graph (sever g ls).
Proof.
  intros (N & E & D). split; [|split].
  - unfold sever. cbn. apply NoDup_filter. assumption.
  - intros e He. apply sever_edges in He. destruct He as (He & H1 & H2). destruct (E e He) as (? & ? & ?).
    rewrite !sever_nodes. tauto.
  - unfold sever. cbn. apply NoDup_map_filter. assumption.
Qed.

(* removing non-adjacent degree-1 nodes keeps the rest connected *)
Lemma sever_reach g ls :
  (forall l, In l ls -> degree (g_edges g) l = 1) ->
  (forall a b, In a ls -> In b ls -> adj (g_edges g) a b -> False) ->
  forall a v, reach (g_edges g) a v -> ~ In v ls ->
    (~ In a ls -> reach (g_edges (sever g ls)) a v) /\
    (In a ls -> forall p, adj (g_edges g) a p -> reach (g_edges (sever g ls)) p v).
Proof.
  intros Hd Hna a v H. induction H as [a|a b c Hab Hbc IH]; intro Hv.
  - split; [intros; constructor | intro; contradiction].
  - destruct (IH Hv) as [IH1 IH2]. split.
    + intro Ha. destruct (in_dec Nat.eq_dec b ls) as [Hb|Hb].
      * apply IH2; [assumption | apply adj_sym; assumption].
      * econstructor; [apply sever_adj; split; eauto | apply IH1; assumption].
    + intros Ha p Hap. assert (p = b) by (apply (leaf_neighbour_unique (g_edges g) a p b (Hd a Ha) Hap Hab)). subst p.
      apply IH1. intro Hb. exact (Hna a b Ha Hb Hab).
Qed.

Lemma sever_connected g :
  simple_graph g -> connected g ->
  (forall a b, In a (leaves g) -> In b (leaves g) -> adj (g_edges g) a b -> False) ->
  connected (sever g (leaves g)).
Proof.
  intros S C Hna a b Ha Hb. apply sever_nodes in Ha. apply sever_nodes in Hb.
  destruct Ha as [Ha Hal], Hb as [Hb Hbl].
  refine (proj1 (sever_reach g (leaves g) _ Hna a b (C a b Ha Hb) Hbl) Hal).
  intros l Hl. apply leaves_spec in Hl. tauto.
Qed.

Lemma no_adjacent_leaves g :
  simple_graph g -> connected g -> g_nodes (sever g (leaves g)) <> [] ->
  forall a b, In a (leaves g) -> In b (leaves g) -> adj (g_edges g) a b -> False.
Proof.
  intros S C Hne a b Ha Hb Hab.
  destruct (g_nodes (sever g (leaves g))) as [|w r] eqn:E; [congruence|].
  assert (Hw : In w (g_nodes (sever g (leaves g)))) by (rewrite E; now left).
  apply sever_nodes in Hw. destruct Hw as [Hw Hnl].
  apply leaves_spec in Ha. apply leaves_spec in Hb.
  destruct (adjacent_leaves_all g a b S C (proj2 Ha) (proj2 Hb) Hab w Hw) as [-> | ->]; apply Hnl; apply leaves_spec; assumption.
Qed.

(* ------------------------------------------------------------------ stems of one round *)
Definition stem_edge (s : stem) : edge := (snd s, fst s).      (* Edge::allocate(tree_root, tree_leaf) *)

Fixpoint wf_stems (st : list stem) : Prop :=
  match st with
  | [] => True
  | s :: rest => fst s <> snd s /\ ~ In (fst s) (map fst rest) /\ ~ In (fst s) (map snd rest) /\ wf_stems rest
  end.

Lemma wf_stems_app a b :
  wf_stems (a ++ b) <->
  wf_stems a /\ wf_stems b /\ forall l, In l (map fst a) -> ~ In l (map fst b) /\ ~ In l (map snd b).
Proof.
  induction a as [|s a IH]; cbn.
  - split; [intro H; repeat split; auto; intros l [] | tauto].
  - rewrite IH, !map_app, !in_app_iff. split.
    + intros (H1 & H2 & H3 & H4 & H5 & H6). repeat split; try tauto.
      * intros Hc. destruct H as [<-|H]; [tauto | apply (proj1 (H6 l H)); assumption].
      * intros Hc. destruct H as [<-|H]; [tauto | apply (proj2 (H6 l H)); assumption].
    + intros ((H1 & H2 & H3 & H4) & H5 & H6). repeat split; try tauto.
      * intros [?|?]; [tauto | apply (proj1 (H6 (fst s) (or_introl eq_refl))); assumption].
      * intros [?|?]; [tauto | apply (proj2 (H6 (fst s) (or_introl eq_refl))); assumption].
      * apply (proj1 (H6 l (or_intror H))).
      * apply (proj2 (H6 l (or_intror H))).
Qed.

Lemma wf_stems_intro st :
  NoDup (map fst st) -> (forall s, In s st -> fst s <> snd s) ->
  (forall l, In l (map fst st) -> ~ In l (map snd st)) -> wf_stems st.
Proof.
  induction st as [|s r IH]; cbn; [tauto|]. intros N D R. inversion N; subst. repeat split.
  - apply D. now left.
  - assumption.
  - intro H. apply (R (fst s)); [now left | now right].
  - apply IH; auto. intros l Hl Hr. apply (R l); [now right | now right].
Qed.

Lemma incident_adj es l e : In e es -> incident l e = true -> adj es l (other_end l e).
Proof.
  intros He Hi. destruct e as [x y]. apply incident_spec in Hi. cbn in Hi. unfold other_end. cbn.
  destruct (Nat.eqb x l) eqn:E.
  - apply Nat.eqb_eq in E. subst. now left.
  - apply Nat.eqb_neq in E. destruct Hi as [Hi|Hi]; [congruence|]. subst. now right.
Qed.

Lemma stem_of_leaf es l : degree es l = 1 ->
  exists p, stem_of es l = [(l, p)] /\ adj es l p.
Proof.
  intro Hd. destruct (degree1_edge _ _ Hd) as [e0 He0]. unfold stem_of. rewrite He0.
  exists (other_end l e0). split; [reflexivity|].
  assert (Hin : In e0 (filter (incident l) es)) by (rewrite He0; now left).
  apply filter_In in Hin. apply incident_adj; tauto.
Qed.

Lemma make_stems_fst es ls : (forall l, In l ls -> degree es l = 1) -> map fst (make_stems es ls) = ls.
Proof.
  induction ls as [|l r IH]; intro H; [reflexivity|]. unfold make_stems in *. cbn [flat_map].
  destruct (stem_of_leaf es l (H l (or_introl eq_refl))) as [p [E _]]. rewrite E. cbn.
  f_equal. apply IH. intros x Hx. apply H. now right.
Qed.

Lemma make_stems_In es ls l p : (forall l, In l ls -> degree es l = 1) ->
  (In (l, p) (make_stems es ls) <-> In l ls /\ adj es l p).
Proof.
  intro H. unfold make_stems. rewrite in_flat_map. split.
  - intros [x [Hx Hs]]. destruct (stem_of_leaf es x (H x Hx)) as [q [E A]]. rewrite E in Hs.
    destruct Hs as [Hs|[]]. inversion Hs; subst. tauto.
  - intros [Hl A]. exists l. split; [assumption|]. destruct (stem_of_leaf es l (H l Hl)) as [q [E A']]. rewrite E.
    left. f_equal. symmetry. eapply leaf_neighbour_unique; eauto.
Qed.

Lemma simple_adj_neq g a b : simple_graph g -> adj (g_edges g) a b -> a <> b.
Proof. intros (_ & E & _) [H|H]; destruct (E _ H) as (_ & _ & Hne); cbn in Hne; congruence. Qed.

Lemma norm_edge_sym a b : norm_edge (a, b) = norm_edge (b, a).
Proof.
  unfold norm_edge. cbn. destruct (Nat.leb a b) eqn:E1, (Nat.leb b a) eqn:E2; try reflexivity.
  - apply Nat.leb_le in E1, E2. f_equal; lia.
  - apply Nat.leb_gt in E1, E2. lia.
Qed.
Lemma norm_edge_eq a b c d : norm_edge (a, b) = norm_edge (c, d) -> (a = c /\ b = d) \/ (a = d /\ b = c).
Proof.
  unfold norm_edge. cbn. destruct (Nat.leb a b), (Nat.leb c d); intro H; inversion H; subst; tauto.
Qed.
Lemma In_norm_adj es a b : In (norm_edge (a, b)) (map norm_edge es) <-> adj es a b.
Proof.
  rewrite in_map_iff. split.
  - intros [[c d] [E H]]. symmetry in E. apply norm_edge_eq in E. destruct E as [[-> ->]|[-> ->]]; [now left | now right].
  - intros [H|H]; [exists (a, b); tauto | exists (b, a); split; [apply norm_edge_sym | assumption]].
Qed.

Lemma NoDup_replace_tail {A} (c a b : list A) :
  NoDup (c ++ a) -> NoDup b -> (forall x, In x a <-> In x b) -> NoDup (c ++ b).
Proof.
  intros H Nb E. apply NoDup_app_elim in H. destruct H as (Nc & _ & D).
  apply NoDup_app_intro; auto. intros x Hc Hb. apply (D x Hc). apply E. assumption.
Qed.

(* ------------------------------------------------------------------ the loop invariant of peel() *)
Record Inv (g0 g : graph) (stems : list stem) : Prop := {
  inv_simple : simple_graph g;
  inv_conn : connected g;
  inv_nodup : NoDup (g_nodes g ++ map fst stems);
  inv_nodes : forall v, In v (g_nodes g0) <-> In v (g_nodes g) \/ In v (map fst stems);
  inv_roots : forall s, In s stems -> In (snd s) (g_nodes g) \/ In (snd s) (map fst stems);
  inv_wf : wf_stems stems;
  inv_enodup : NoDup (map norm_edge (map stem_edge stems) ++ map norm_edge (g_edges g));
  inv_edges : forall x, In x (map norm_edge (g_edges g0)) <->
                        In x (map norm_edge (map stem_edge stems)) \/ In x (map norm_edge (g_edges g)) }.

Lemma Inv_init g : simple_graph g -> connected g -> Inv g g [].
Proof.
  intros S C. constructor; cbn.
  - exact S.
  - exact C.
  - rewrite app_nil_r. apply S.
  - intro v. tauto.
  - intros s [].
  - exact I.
  - apply S.
  - intro x. tauto.
Qed.

Lemma stem_edges_nodup es (L : list nat) (st : list stem) :
  NoDup st -> (forall l p, In (l, p) st -> In l L /\ adj es l p) ->
  (forall a b, In a L -> In b L -> adj es a b -> False) ->
  NoDup (map norm_edge (map stem_edge st)).
Proof.
  intros Nst Hst NA. rewrite map_map. induction st as [|[l p] r IH]; cbn; [constructor|].
  apply NoDup_cons_iff in Nst. destruct Nst as [Hnotin Nr]. constructor.
  - intro Hin. apply in_map_iff in Hin. destruct Hin as [[l2 p2] [E Hin]]. unfold stem_edge in E. cbn in E.
    apply norm_edge_eq in E. destruct E as [[E1 E2]|[E1 E2]].
    + apply Hnotin. replace (l, p) with (l2, p2) by congruence. exact Hin.
    + destruct (Hst l p (or_introl eq_refl)) as [H1 H1']. destruct (Hst l2 p2 (or_intror Hin)) as [H2' _].
      apply (NA l p H1); [|exact H1']. replace p with l2 by congruence. exact H2'.
  - apply IH; auto. intros l0 p0 H. apply Hst. now right.
Qed.

Lemma round_normal g0 g stems :
  Inv g0 g stems ->
  (forall a b, In a (leaves g) -> In b (leaves g) -> adj (g_edges g) a b -> False) ->
  Inv g0 (sever g (leaves g)) (stems ++ make_stems (g_edges g) (leaves g)).
Proof.
  intros I NA.
  set (L := leaves g) in *. set (st := make_stems (g_edges g) L). set (g' := sever g L).
  pose proof (inv_simple _ _ _ I) as S.
  assert (HdL : forall l, In l L -> degree (g_edges g) l = 1) by (intros l Hl; apply leaves_spec in Hl; tauto).
  assert (HfstL : map fst st = L) by (apply make_stems_fst; exact HdL).
  assert (HNL : NoDup L) by (unfold L, leaves; apply NoDup_filter; apply S).
  assert (HLn : forall l, In l L -> In l (g_nodes g)) by (intros l Hl; apply leaves_spec in Hl; tauto).
  assert (Hst : forall l p, In (l, p) st <-> In l L /\ adj (g_edges g) l p) by (intros; apply make_stems_In; exact HdL).
  assert (Hn' : forall v, In v (g_nodes g') <-> In v (g_nodes g) /\ ~ In v L) by (intro; apply sever_nodes).
  assert (Hroot : forall s, In s st -> In (snd s) (g_nodes g')).
  { intros [l p] Hs. apply Hst in Hs. destruct Hs as [Hl Ha]. cbn. apply Hn'. split.
    - apply (adj_in_nodes g l p (simple_wf g S) Ha).
    - intro Hp. exact (NA l p Hl Hp Ha). }
  pose proof (inv_nodup _ _ _ I) as ND. apply NoDup_app_elim in ND. destruct ND as (Nn & Nl & Dnl).
  constructor; unfold stem in *.
  - apply sever_simple. assumption.
  - apply sever_connected; [assumption | apply (inv_conn _ _ _ I) | exact NA].
  - rewrite map_app, HfstL. apply NoDup_app_intro.
    + unfold g', sever. cbn. apply NoDup_filter. assumption.
    + apply NoDup_app_intro; auto. intros x Hx Hx'. apply (Dnl x); auto.
    + intros x Hx Hx'. apply Hn' in Hx. apply in_app_or in Hx'. destruct Hx' as [Hx'|Hx']; [apply (Dnl x); tauto | tauto].
  - intro v. rewrite (inv_nodes _ _ _ I), map_app, HfstL, in_app_iff, Hn'.
    pose proof (HLn v). destruct (in_dec Nat.eq_dec v L); tauto.
  - intros s Hs. rewrite map_app, HfstL, in_app_iff, Hn'. apply in_app_or in Hs. destruct Hs as [Hs|Hs].
    + destruct (inv_roots _ _ _ I s Hs) as [H|H]; [|tauto]. destruct (in_dec Nat.eq_dec (snd s) L); tauto.
    + left. apply Hn'. apply Hroot. assumption.
  - apply wf_stems_app. split; [apply (inv_wf _ _ _ I)|]. split.
    + apply wf_stems_intro.
      * rewrite HfstL. assumption.
      * intros [l p] Hs. apply Hst in Hs. cbn. apply (simple_adj_neq g); tauto.
      * rewrite HfstL. intros l Hl Hr. apply in_map_iff in Hr. destruct Hr as [[l2 p2] [E Hs]]. cbn in E. subst p2.
        apply Hst in Hs. exact (NA l2 l (proj1 Hs) Hl (proj2 Hs)).
    + intros l Hl. rewrite HfstL. split.
      * intro Hl'. apply (Dnl l); auto.
      * intro Hr. apply in_map_iff in Hr. destruct Hr as [s [E Hs]]. subst l. apply Hroot in Hs. apply Hn' in Hs.
        apply (Dnl (snd s)); tauto.
  - rewrite !map_app, <- app_assoc.
    pose proof (inv_enodup _ _ _ I) as NE.
    apply (NoDup_replace_tail _ (map norm_edge (g_edges g))); [assumption| |].
    + apply NoDup_app_intro.
      * apply (stem_edges_nodup (g_edges g) L); [apply (NoDup_map_inv fst); rewrite HfstL; assumption | apply Hst | exact NA].
      * apply (sever_simple g L S).
      * intros x Hx Hx'. rewrite map_map in Hx. apply in_map_iff in Hx. destruct Hx as [[l p] [E Hs]].
        apply in_map_iff in Hx'. destruct Hx' as [[c d] [E' He]]. subst x. unfold stem_edge in E'. cbn in E'.
        apply sever_edges in He. cbn in He. apply Hst in Hs.
        apply norm_edge_eq in E'. destruct E' as [[-> ->]|[-> ->]]; tauto.
    + intro x. rewrite in_app_iff. split.
      * intro Hx. apply in_map_iff in Hx. destruct Hx as [[a b] [E He]]. subst x.
        destruct (in_dec Nat.eq_dec a L) as [Ha|Ha]; [|destruct (in_dec Nat.eq_dec b L) as [Hb|Hb]].
        -- left. rewrite map_map. apply in_map_iff. exists (a, b). split; [apply norm_edge_sym|].
           apply Hst. split; [assumption | now left].
        -- left. rewrite map_map. apply in_map_iff. exists (b, a). split; [reflexivity|].
           apply Hst. split; [assumption | now right].
        -- right. apply in_map_iff. exists (a, b). split; [reflexivity|]. apply sever_edges. cbn. tauto.
      * intros [Hx|Hx].
        -- rewrite map_map in Hx. apply in_map_iff in Hx. destruct Hx as [[l p] [E Hs]]. subst x. apply Hst in Hs.
           unfold stem_edge. cbn. apply In_norm_adj. apply adj_sym. tauto.
        -- apply in_map_iff in Hx. destruct Hx as [e [E He]]. subst x. apply in_map. apply sever_edges in He. tauto.
  - intro x. rewrite (inv_edges _ _ _ I), !map_app, !in_app_iff.
    assert (Hx : In x (map norm_edge (g_edges g)) <->
                 In x (map norm_edge (map stem_edge st)) \/ In x (map norm_edge (g_edges g'))).
    { split.
      * intro Hx. apply in_map_iff in Hx. destruct Hx as [[a b] [E He]]. subst x.
        destruct (in_dec Nat.eq_dec a L) as [Ha|Ha]; [|destruct (in_dec Nat.eq_dec b L) as [Hb|Hb]].
        -- left. rewrite map_map. apply in_map_iff. exists (a, b). split; [apply norm_edge_sym|].
           apply Hst. split; [assumption | now left].
        -- left. rewrite map_map. apply in_map_iff. exists (b, a). split; [reflexivity|].
           apply Hst. split; [assumption | now right].
        -- right. apply in_map_iff. exists (a, b). split; [reflexivity|]. apply sever_edges. cbn. tauto.
      * intros [Hx|Hx].
        -- rewrite map_map in Hx. apply in_map_iff in Hx. destruct Hx as [[l p] [E Hs]]. subst x. apply Hst in Hs.
           unfold stem_edge. cbn. apply In_norm_adj. apply adj_sym. tauto.
        -- apply in_map_iff in Hx. destruct Hx as [e [E He]]. subst x. apply in_map. apply sever_edges in He. tauto. }
    rewrite Hx. tauto.
Qed.

(* ------------------------------------------------------------------ what holds when peel_rounds returns *)
Record Final (g0 core : graph) (stems : list stem) : Prop := {
  fin_simple : simple_graph core;
  fin_nodup : NoDup (g_nodes core ++ map fst stems);
  fin_nodes : forall v, In v (g_nodes g0) <-> In v (g_nodes core) \/ In v (map fst stems) \/ In v (map snd stems);
  fin_roots : g_nodes core <> [] -> forall s, In s stems -> In (snd s) (g_nodes core) \/ In (snd s) (map fst stems);
  fin_wf : wf_stems stems;
  fin_enodup : NoDup (map norm_edge (map stem_edge stems) ++ map norm_edge (g_edges core));
  fin_edges : forall x, In x (map norm_edge (g_edges g0)) <->
                        In x (map norm_edge (map stem_edge stems)) \/ In x (map norm_edge (g_edges core));
  fin_noleaf : leaves core = [] }.

Lemma Final_of_Inv g0 g stems : Inv g0 g stems -> leaves g = [] -> Final g0 g stems.
Proof.
  intros I Hl. constructor; try apply I; auto.
  - intro v. rewrite (inv_nodes _ _ _ I). split; [tauto|]. intros [H|[H|H]]; auto.
    apply in_map_iff in H. destruct H as [s [E Hs]]. subst v. apply (inv_roots _ _ _ I s Hs).
  - intros _. apply I.
Qed.

(* the double-centre round: every node is a leaf and exactly two stems were made *)
Lemma round_double_centre g0 g stems :
  Inv g0 g stems -> g_nodes (sever g (leaves g)) = [] ->
  length (make_stems (g_edges g) (leaves g)) = 2 ->
  Final g0 (sever g (leaves g)) (stems ++ removelast (make_stems (g_edges g) (leaves g))).
Proof.
  intros I Hempty Hlen.
  set (L := leaves g) in *. set (st := make_stems (g_edges g) L) in *.
  pose proof (inv_simple _ _ _ I) as S.
  assert (HdL : forall l, In l L -> degree (g_edges g) l = 1) by (intros l Hl; apply leaves_spec in Hl; tauto).
  assert (HfstL : map fst st = L) by (apply make_stems_fst; exact HdL).
  assert (HNL : NoDup L) by (unfold L, leaves; apply NoDup_filter; apply S).
  assert (Hst : forall l p, In (l, p) st <-> In l L /\ adj (g_edges g) l p) by (intros; apply make_stems_In; exact HdL).
  assert (Hall : forall x, In x (g_nodes g) -> In x L).
  { intros x Hx. destruct (in_dec Nat.eq_dec x L) as [H|H]; [assumption|].
    assert (Hx' : In x (g_nodes (sever g L))) by (apply sever_nodes; tauto). rewrite Hempty in Hx'. destruct Hx'. }
  assert (HLn : forall l, In l L -> In l (g_nodes g)) by (intros l Hl; apply leaves_spec in Hl; tauto).
  destruct st as [|[u pu] [|[v pv] [|? ?]]] eqn:Est; cbn in Hlen; try discriminate. clear Hlen.
  cbn in HfstL. 
  assert (HL : forall x, In x L <-> x = u \/ x = v) by (intro x; rewrite <- HfstL; cbn; intuition).
  assert (Huv : u <> v) by (rewrite <- HfstL in HNL; inversion HNL; subst; cbn in *; intuition).
  assert (Hpu : pu = v).
  { destruct (Hst u pu) as [[_ Ad] _]; [now left|]. pose proof (simple_adj_neq g u pu S Ad) as Hne.
    destruct (adj_in_nodes g u pu (simple_wf g S) Ad) as [_ Hp]. apply Hall, HL in Hp.
    destruct Hp as [Hp|Hp]; [congruence | assumption]. }
  assert (Hpv : pv = u).
  { destruct (Hst v pv) as [[_ Ad] _]; [right; now left|]. pose proof (simple_adj_neq g v pv S Ad) as Hne.
    destruct (adj_in_nodes g v pv (simple_wf g S) Ad) as [_ Hp]. apply Hall, HL in Hp.
    destruct Hp as [Hp|Hp]; [assumption | congruence]. }
  subst pu pv. cbn [removelast].
  assert (Auv : adj (g_edges g) u v) by (apply (Hst u v); now left).
  assert (Hedges : forall x, In x (map norm_edge (g_edges g)) <-> x = norm_edge (v, u)).
  { intro x. split.
    - intro Hx. apply in_map_iff in Hx. destruct Hx as [[a b] [E He]]. subst x.
      destruct S as (_ & SE & _). destruct (SE _ He) as (Ha & Hb & Hne). cbn in *.
      apply Hall, HL in Ha. apply Hall, HL in Hb.
      destruct Ha as [-> | ->], Hb as [-> | ->]; try congruence; apply norm_edge_sym.
    - intros ->. apply In_norm_adj. apply adj_sym. assumption. }
  assert (Hu : In u (g_nodes g)) by (apply HLn, HL; now left).
  assert (Hv : In v (g_nodes g)) by (apply HLn, HL; now right).
  pose proof (inv_nodup _ _ _ I) as ND. apply NoDup_app_elim in ND. destruct ND as (Nn & Nl & Dnl).
  assert (Hg'e : g_edges (sever g L) = []).
  { destruct (g_edges (sever g L)) as [|e r] eqn:E; [reflexivity|].
    assert (He : In e (g_edges (sever g L))) by (rewrite E; now left). apply sever_edges in He.
    destruct He as (He & H1 & _). destruct S as (_ & SE & _). destruct (SE _ He) as (Ha & _). apply Hall in Ha. contradiction. }
  constructor; unfold stem in *.
  - apply sever_simple. assumption.
  - rewrite Hempty. cbn. rewrite map_app. cbn. apply NoDup_app_intro; auto.
    + constructor; [intros []|constructor].
    + intros x Hx [E|[]]. apply (Dnl u Hu). rewrite E. exact Hx.
  - intro x. rewrite Hempty, !map_app, !in_app_iff, (inv_nodes _ _ _ I). cbn. split.
    + intros [H|H]; [|tauto]. apply Hall, HL in H. intuition.
    + intros [[]|[[H|[E|[]]]|[H|[E|[]]]]]; auto; try (subst x; now left).
      apply in_map_iff in H. destruct H as [s [E Hs]]. subst x. apply (inv_roots _ _ _ I s Hs).
  - intro H. contradiction.
  - apply wf_stems_app. split; [apply I|]. split; [cbn; intuition|].
    intros l Hl. cbn. split; intros [E|[]]; [apply (Dnl u Hu) | apply (Dnl v Hv)]; rewrite E; exact Hl.
  - rewrite Hg'e, !map_app. cbn. rewrite app_nil_r.
    apply (NoDup_replace_tail _ (map norm_edge (g_edges g))); [apply I | constructor; [intros []|constructor] |].
    intro x. rewrite Hedges. cbn. intuition.
  - intro x. rewrite (inv_edges _ _ _ I), Hg'e, !map_app, !in_app_iff, Hedges. cbn. intuition.
  - unfold leaves. rewrite Hempty. reflexivity.
Qed.

Lemma peel_rounds_inv g0 fuel : forall g stems core st',
  Inv g0 g stems -> peel_rounds fuel g stems = Ok (core, st') -> Final g0 core st'.
Proof.
  induction fuel as [|f IH]; intros g stems core st' I H; [discriminate|].
  cbn [peel_rounds] in H. destruct (leaves g) as [|l ls] eqn:El.
  - inversion H; subst. apply Final_of_Inv; assumption.
  - rewrite <- El in H. destruct (g_nodes (sever g (leaves g))) as [|w r] eqn:En.
    + destruct (Nat.eqb (length (make_stems (g_edges g) (leaves g))) 2) eqn:E2; [|discriminate].
      apply Nat.eqb_eq in E2.
      pose proof (round_double_centre g0 g stems I En E2) as F.
      destruct f as [|f']; [discriminate|]. cbn [peel_rounds] in H.
      unfold leaves at 1 in H. rewrite En in H. cbn [filter] in H. inversion H; subst. exact F.
    + eapply IH; [|exact H]. apply round_normal; [assumption|].
      apply no_adjacent_leaves; [apply I | apply I | rewrite En; discriminate].
Qed.

(* ------------------------------------------------------------------ the peel theorems, at the level of the loop *)
(* for every connected simple graph: the core and the stems (leaf, parent) produced by the rounds *)
Theorem peel_rounds_spec g fuel core stems :
  simple_graph g -> connected g -> peel_rounds fuel g [] = Ok (core, stems) -> Final g core stems.
Proof. intros S C H. eapply peel_rounds_inv; [apply Inv_init; assumption | exact H]. Qed.

(* peel_nodes_partition (loop level): every input node is in the core or is the leaf of exactly one stem; the
   only other nodes of stems are their roots, which are core nodes or leaves of later stems - except in the
   double-centre case, where the core is empty *)
Theorem peel_nodes_partition g fuel core stems :
  simple_graph g -> connected g -> peel_rounds fuel g [] = Ok (core, stems) ->
  NoDup (g_nodes core ++ map fst stems) /\
  (forall v, In v (g_nodes g) <-> In v (g_nodes core) \/ In v (map fst stems) \/ In v (map snd stems)) /\
  (g_nodes core <> [] -> forall v, In v (g_nodes g) <-> In v (g_nodes core) \/ In v (map fst stems)).
Proof.
  intros S C H. pose proof (peel_rounds_spec g fuel core stems S C H) as F.
  split; [apply F|]. split; [apply F|]. intros Hne v. rewrite (fin_nodes _ _ _ F). split; [|tauto].
  intros [?|[?|Hr]]; auto. apply in_map_iff in Hr. destruct Hr as [s [E Hs]]. subst v. apply (fin_roots _ _ _ F Hne s Hs).
Qed.

(* peel_edges_partition: up to orientation, every input edge is a core edge or the edge of exactly one stem *)
Theorem peel_edges_partition g fuel core stems :
  simple_graph g -> connected g -> peel_rounds fuel g [] = Ok (core, stems) ->
  NoDup (map norm_edge (map stem_edge stems) ++ map norm_edge (g_edges core)) /\
  (forall x, In x (map norm_edge (g_edges g)) <->
             In x (map norm_edge (map stem_edge stems)) \/ In x (map norm_edge (g_edges core))).
Proof. intros S C H. pose proof (peel_rounds_spec g fuel core stems S C H) as F. split; apply F. Qed.

(* peel_core_no_leaves: the core is a simple graph without a node of degree one *)
Theorem peel_core_no_leaves g fuel core stems :
  simple_graph g -> connected g -> peel_rounds fuel g [] = Ok (core, stems) ->
  simple_graph core /\ forall v, In v (g_nodes core) -> degree (g_edges core) v <> 1.
Proof.
  intros S C H. pose proof (peel_rounds_spec g fuel core stems S C H) as F. split; [apply F|].
  intros v Hv Hd. assert (Hl : In v (leaves core)) by (apply leaves_spec; tauto).
  rewrite (fin_noleaf _ _ _ F) in Hl. destruct Hl.
Qed.

(* ------------------------------------------------------------------ the stems form a forest *)
(* acyclicity as constructibility: a forest is built from isolated nodes by attaching pendant edges to NEW leaves *)
Inductive forest : list nat -> list edge -> Prop :=
| forest_nil : forest [] []
| forest_node v ns es : forest ns es -> ~ In v ns -> forest (v :: ns) es
| forest_leaf l p ns es : forest ns es -> In p ns -> ~ In l ns -> forest (l :: ns) ((p, l) :: es).

Lemma forest_nodes ns es : forest ns es -> NoDup ns /\ forall e, In e es -> In (fst e) ns /\ In (snd e) ns.
Proof.
  induction 1 as [|v ns es F [N E] Hv|l p ns es F [N E] Hp Hl].
  - split; [constructor | intros e []].
  - split; [now constructor|]. intros e He. destruct (E e He). split; now right.
  - split; [now constructor|]. intros e [<-|He]; cbn; [split; [now right | now left]|]. destruct (E e He). split; now right.
Qed.

Lemma forest_edge_count ns es : forest ns es -> length es <= length ns.
Proof. induction 1; cbn; lia. Qed.

(* the stems in reverse order of creation attach new leaves: H is a forest *)
Lemma wf_stems_forest st : wf_stems st ->
  exists ns, forest ns (map stem_edge st) /\ forall v, In v ns <-> In v (map fst st) \/ In v (map snd st).
Proof.
  induction st as [|[l p] r IH]; cbn.
  - intros _. exists []. split; [constructor | cbn; tauto].
  - intros (Hne & Hl & Hr & W). cbn in Hne, Hl, Hr. destruct (IH W) as [ns [F Hn]].
    destruct (in_dec Nat.eq_dec p ns) as [Hp|Hp].
    + exists (l :: ns). split.
      * apply forest_leaf; auto. rewrite Hn. tauto.
      * intro v. cbn. rewrite Hn. split; [intros [?|[?|?]]; auto | intros [[?|?]|[?|?]]; auto].
        subst v. right. apply Hn. assumption.
    + exists (l :: p :: ns). split.
      * apply forest_leaf; [apply forest_node; assumption | now left |].
        intros [E|Hin]; [cbn in E; congruence|]. apply Hn in Hin. cbn in Hin. tauto.
      * intro v. cbn. rewrite Hn. tauto.
Qed.

(* a forest restricted to a set that is closed under its edges is a forest: each component of H is acyclic *)
Lemma forest_restrict (P : nat -> bool) ns es :
  forest ns es -> (forall e, In e es -> P (fst e) = P (snd e)) ->
  forest (filter P ns) (filter (fun e => P (fst e) && P (snd e)) es).
Proof.
  induction 1 as [|v ns es F IH Hv|l p ns es F IH Hp Hl]; intro Hc; cbn.
  - constructor.
  - destruct (P v); [apply forest_node; [apply IH; assumption|] | apply IH; assumption].
    intro H. apply filter_In in H. tauto.
  - assert (Hc' : forall e, In e es -> P (fst e) = P (snd e)) by (intros e He; apply Hc; now right).
    pose proof (Hc (p, l) (or_introl eq_refl)) as Hpl. cbn in Hpl.
    destruct (P l) eqn:El; rewrite Hpl; cbn.
    + apply forest_leaf; [apply IH; assumption | apply filter_In; tauto |]. intro H. apply filter_In in H. tauto.
    + apply IH. assumption.
Qed.

(* ------------------------------------------------------------------ from the stems to the trees returned by peel *)
Lemma build_h_edges stems : forall h, h_edges (fold_left h_add_stem stems h) = h_edges h ++ map stem_edge stems.
Proof.
  induction stems as [|s r IH]; intro h; cbn [fold_left map]; [now rewrite app_nil_r|].
  rewrite IH. unfold h_add_stem at 1. cbn [h_edges].
  assert (Ht : forall v h0, h_edges (h_touch v h0) = h_edges h0) by (intros v h0; unfold h_touch; destruct (lookup v (h_serial h0)); reflexivity).
  rewrite !Ht, <- app_assoc. reflexivity.
Qed.

Lemma lookup_keys v m : (exists x, lookup v m = Some x) <-> In v (map fst m).
Proof.
  induction m as [|[k y] r IH]; cbn; [split; [intros [x H]; discriminate | intros []]|].
  destruct (Nat.eqb k v) eqn:E.
  - apply Nat.eqb_eq in E. split; [now left | intros _; now exists y].
  - apply Nat.eqb_neq in E. rewrite IH. tauto.
Qed.
Lemma update_keys v x m : forall u, In u (map fst (update v x m)) <-> u = v \/ In u (map fst m).
Proof.
  induction m as [|[k y] r IH]; intro u; cbn; [intuition|].
  destruct (Nat.eqb k v) eqn:E; cbn.
  - apply Nat.eqb_eq in E. subst. intuition.
  - rewrite IH. intuition.
Qed.
Lemma touch_keys v h : forall u, In u (map fst (h_serial (h_touch v h))) <-> u = v \/ In u (map fst (h_serial h)).
Proof.
  intro u. unfold h_touch. destruct (lookup v (h_serial h)) eqn:E; cbn.
  - split; [tauto|]. intros [->|?]; [|assumption]. apply lookup_keys. eauto.
  - rewrite map_app, in_app_iff. cbn. intuition.
Qed.
Lemma build_h_keys stems : forall h u,
  In u (map fst (h_serial (fold_left h_add_stem stems h))) <->
  In u (map fst (h_serial h)) \/ In u (map fst stems) \/ In u (map snd stems).
Proof.
  induction stems as [|s r IH]; intros h u; cbn [fold_left map]; [cbn; tauto|].
  rewrite IH. unfold h_add_stem at 1. cbn [h_serial]. rewrite update_keys, !touch_keys. cbn. intuition.
Qed.

Lemma insert_sorted_In v l u : In u (insert_sorted v l) <-> u = v \/ In u l.
Proof.
  induction l as [|x r IH]; cbn; [intuition|]. destruct (Nat.leb v x); cbn; [intuition|]. rewrite IH. intuition.
Qed.
Lemma sort_nat_In l u : In u (sort_nat l) <-> In u l.
Proof. induction l as [|x r IH]; cbn; [tauto|]. rewrite insert_sorted_In, IH. intuition. Qed.
Lemma insert_sorted_NoDup v l : NoDup l -> ~ In v l -> NoDup (insert_sorted v l).
Proof.
  induction l as [|x r IH]; cbn; intros N H; [constructor; [intros []|constructor]|].
  destruct (Nat.leb v x); [constructor; assumption|]. inversion N; subst. constructor.
  - rewrite insert_sorted_In. intuition.
  - apply IH; intuition.
Qed.

Lemma sort_nat_NoDup l : NoDup l -> NoDup (sort_nat l).
Proof.
  induction l as [|x r IH]; cbn; intro N; [constructor|]. inversion N; subst.
  apply insert_sorted_NoDup; [apply IH; assumption | rewrite sort_nat_In; assumption].
Qed.
Lemma update_keys_eq v x m : In v (map fst m) -> map fst (update v x m) = map fst m.
Proof.
  induction m as [|[k y] r IH]; cbn; [intros []|]. destruct (Nat.eqb k v) eqn:E; cbn; [reflexivity|].
  apply Nat.eqb_neq in E. intros [?|H]; [congruence|]. now rewrite IH.
Qed.
Lemma touch_NoDup v h : NoDup (map fst (h_serial h)) -> NoDup (map fst (h_serial (h_touch v h))).
Proof.
  intro N. unfold h_touch. destruct (lookup v (h_serial h)) eqn:E; [assumption|]. cbn. rewrite map_app. cbn.
  apply NoDup_app_intro; [assumption | constructor; [intros [] | constructor] |].
  intros x Hx [<-|[]]. apply lookup_keys in Hx. destruct Hx as [y Hy]. congruence.
Qed.
Lemma build_h_NoDup stems : forall h, NoDup (map fst (h_serial h)) ->
  NoDup (map fst (h_serial (fold_left h_add_stem stems h))).
Proof.
  induction stems as [|s r IH]; intros h N; cbn [fold_left]; [assumption|]. apply IH.
  unfold h_add_stem. cbn [h_serial]. rewrite update_keys_eq.
  - apply touch_NoDup, touch_NoDup, N.
  - apply touch_keys. now left.
Qed.

(* peel_trees_are_trees + the tree part of peel_nodes_partition: for every connected simple graph, if peel returns
   (core, trees) then there are stems with the loop-level facts (Final) such that
   - the node lists of the trees partition the nodes occurring in the stems (so every input node outside the core is in
     exactly one tree, and a node in the core and in a tree is a stem root that is not a leaf),
   - every tree is connected by its own edges and closed (no stem edge leaves it; every stem edge is in exactly one tree),
   - every tree is acyclic in the constructive sense: a forest built by attaching pendant edges to new leaves. *)
Definition tree_facts (hes : list edge) (t : tree) : Prop :=
  t_edges t = edges_within hes (t_nodes t) /\
  (forall a b, In a (t_nodes t) -> In b (t_nodes t) -> reach hes a b) /\
  (forall a b, In a (t_nodes t) -> adj hes a b -> In b (t_nodes t)) /\
  (exists ns, forest ns (t_edges t) /\ forall v, In v ns <-> In v (t_nodes t)).

Theorem peel_trees_are_trees g core trees :
  simple_graph g -> connected g -> peel g = Ok (core, trees) ->
  exists stems, Final g core stems /\
    NoDup (flat_map t_nodes trees) /\
    (forall v, In v (flat_map t_nodes trees) <-> In v (map fst stems) \/ In v (map snd stems)) /\
    forall t, In t trees -> tree_facts (map stem_edge stems) t.
Proof.
  intros S C H. unfold peel in H.
  destruct (peel_rounds _ g []) as [[core' stems]| |] eqn:Hr; try discriminate.
  pose proof (peel_rounds_spec g _ core' stems S C Hr) as F.
  set (h := build_h stems) in *.
  assert (He : h_edges h = map stem_edge stems) by (unfold h, build_h; rewrite build_h_edges; reflexivity).
  rewrite He in H.
  set (hn := sort_nat (map fst (h_serial h))) in *.
  destruct (conncomps _ (map stem_edge stems) hn) as [comps|] eqn:Hc; [|discriminate].
  inversion H; subst core trees. clear H. exists stems. split; [assumption|].
  assert (Hkeys : forall u, In u hn <-> In u (map fst stems) \/ In u (map snd stems)).
  { intro u. unfold hn. rewrite sort_nat_In. unfold h, build_h. rewrite build_h_keys. cbn. tauto. }
  assert (Hnd : NoDup hn) by (unfold hn, h, build_h; apply sort_nat_NoDup, build_h_NoDup; constructor).
  assert (Hends : forall a b, adj (map stem_edge stems) a b -> In a hn /\ In b hn).
  { assert (Hlp : forall l p, In (l, p) stems -> In l hn /\ In p hn).
    { intros l p Hs. rewrite !Hkeys. split; [left | right]; apply in_map_iff; exists (l, p); now split. }
    intros a b [Hin|Hin]; apply in_map_iff in Hin; destruct Hin as [[l p] [E Hs]]; unfold stem_edge in E; cbn in E;
      injection E as E1 E2; rewrite <- E1, <- E2; destruct (Hlp l p Hs); tauto. }
  assert (Hcl : forall x y, In x hn -> reach (map stem_edge stems) x y -> In y hn).
  { intros x y Hx Hxy. apply (closed_reach (map stem_edge stems) (fun z => In z hn)) with (a := x); auto.
    intros u w _ Ha. apply (Hends u w Ha). }
  destruct (conncomps_spec _ _ _ _ Hc Hnd Hcl) as (N & Sx & Cs).
  assert (Hfm : flat_map t_nodes (map (fun c => mkT (identify_root h c) c (edges_within (map stem_edge stems) c)) comps) = concat comps).
  { clear. induction comps as [|c r IH]; cbn; [reflexivity | now rewrite IH]. }
  rewrite Hfm. split; [assumption|]. split; [intro v; rewrite Sx; apply Hkeys|].
  intros t Ht. apply in_map_iff in Ht. destruct Ht as [c [<- Hcin]]. unfold tree_facts. cbn.
  destruct (Cs c Hcin) as [v0 [Hv0 Hreach]].
  assert (Hclosed : forall a b, In a c -> adj (map stem_edge stems) a b -> In b c).
  { intros a b Ha Hab. apply Hreach. eapply reach_trans; [apply Hreach; eassumption | econstructor; [eassumption | constructor]]. }
  split; [reflexivity|]. split; [|split; [exact Hclosed|]].
  - intros a b Ha Hb. eapply reach_trans; [apply reach_sym; apply Hreach; eassumption | apply Hreach; assumption].
  - destruct (wf_stems_forest stems (fin_wf _ _ _ F)) as [ns [Ff Hns]].
    exists (filter (fun u => mem u c) ns). split.
    + apply (forest_restrict (fun u => mem u c)); [assumption|].
      intros [a b] Hab. cbn. destruct (mem a c) eqn:Ea, (mem b c) eqn:Eb; try reflexivity.
      * apply mem_In in Ea. apply mem_false in Eb. exfalso. apply Eb. apply (Hclosed a b Ea). now left.
      * apply mem_In in Eb. apply mem_false in Ea. exfalso. apply Ea. apply (Hclosed b a Eb). now right.
    + intro u. rewrite filter_In, mem_In, Hns. split; [tauto|]. intro Hu. split; [|assumption].
      apply Hkeys. apply Sx. apply in_concat. exists c. tauto.
Qed.


(* ------------------------------------------------------------------ non-vacuity *)
Lemma connected_by_explore g fuel v r :
  explore fuel (g_edges g) [v] [] = Some r -> incl (g_nodes g) r -> connected g.
Proof.
  intros H Hi a b Ha Hb. apply explore_reach in H. destruct H as [_ H].
  eapply reach_trans; [apply reach_sym; apply H; apply Hi; assumption | apply H; apply Hi; assumption].
Qed.

Definition ex_graph : graph := mkG [0; 1; 2; 3; 4; 5] [(0, 1); (1, 2); (2, 0); (2, 3); (3, 4); (1, 5)].
Definition ex_path4 : graph := mkG [0; 1; 2; 3] [(0, 1); (1, 2); (2, 3)].

Lemma ex_graph_simple : simple_graph ex_graph.
Proof.
  split; [|split].
  - repeat constructor; cbn; intuition lia.
  - intros e He. cbn in He. repeat (destruct He as [<-|He]; [cbn; repeat split; (lia || auto 10) |]). destruct He.
  - cbn. repeat constructor; cbn; intuition congruence.
Qed.
Lemma ex_graph_connected : connected ex_graph.
Proof.
  eapply (connected_by_explore ex_graph 100 0); [vm_compute; reflexivity|].
  intros x Hx. cbn in *. intuition.
Qed.
Lemma ex_path4_simple : simple_graph ex_path4.
Proof.
  split; [|split].
  - repeat constructor; cbn; intuition lia.
  - intros e He. cbn in He. repeat (destruct He as [<-|He]; [cbn; repeat split; (lia || auto 10) |]). destruct He.
  - cbn. repeat constructor; cbn; intuition congruence.
Qed.
Lemma ex_path4_connected : connected ex_path4.
Proof.
  eapply (connected_by_explore ex_path4 100 0); [vm_compute; reflexivity|].
  intros x Hx. cbn in *. intuition.
Qed.

(* the hypotheses of the peel theorems are satisfiable, with a non-empty core and trees, and in the double-centre case *)
Example peel_nonvacuous :
  simple_graph ex_graph /\ connected ex_graph /\
  peel ex_graph = Ok (mkG [0; 1; 2] [(0, 1); (1, 2); (2, 0)],
                      [mkT 1 [5; 1] [(1, 5)]; mkT 2 [4; 3; 2] [(3, 4); (2, 3)]]) /\
  simple_graph ex_path4 /\ connected ex_path4 /\
  peel ex_path4 = Ok (mkG [] [], [mkT 2 [3; 2; 1; 0] [(1, 0); (2, 3); (2, 1)]]).
Proof.
  split; [exact ex_graph_simple|]. split; [exact ex_graph_connected|]. split; [vm_compute; reflexivity|].
  split; [exact ex_path4_simple|]. split; [exact ex_path4_connected|]. vm_compute; reflexivity.
Qed.

Example conncomps_nonvacuous :
  graph_wf (mkG [0; 1; 2; 3; 4] [(0, 1); (3, 4)]) /\
  get_conncomps (mkG [0; 1; 2; 3; 4] [(0, 1); (3, 4)]) = Some [[1; 0]; [2]; [4; 3]].
Proof.
  split; [|vm_compute; reflexivity]. split.
  - repeat constructor; cbn; intuition lia.
  - intros e He. cbn in He. repeat (destruct He as [<-|He]; [cbn; repeat split; auto 10 |]). destruct He.
Qed.
