(* Base numeric layer: C++ double is modelled by exact rationals Q (DESIGN 3.1).
   Boolean comparisons with reflection lemmas, points, and small tactics. *)
From Coq Require Export QArith Qabs ZArith List Bool Lia Lra Psatz.
Export ListNotations.
Local Open Scope Q_scope.

Definition Qltb (a b : Q) : bool := negb (Qle_bool b a).
Definition Qleb (a b : Q) : bool := Qle_bool a b.
Definition Qeqb (a b : Q) : bool := Qeq_bool a b.
Definition Qgtb (a b : Q) : bool := Qltb b a.
Definition Qgeb (a b : Q) : bool := Qleb b a.
Definition Qneb (a b : Q) : bool := negb (Qeq_bool a b).

Lemma Qltb_spec a b : Qltb a b = true <-> a < b.
Proof.
  unfold Qltb. rewrite negb_true_iff. split; intro H.
  - apply Qnot_le_lt. intro H1. apply Qle_bool_iff in H1. congruence.
  - destruct (Qle_bool b a) eqn:E; auto. apply Qle_bool_iff in E. lra.
Qed.
Lemma Qltb_false a b : Qltb a b = false <-> b <= a.
Proof.
  rewrite <- not_true_iff_false, Qltb_spec. split; intro H; lra.
Qed.
Lemma Qleb_spec a b : Qleb a b = true <-> a <= b.
Proof. apply Qle_bool_iff. Qed.
Lemma Qleb_false a b : Qleb a b = false <-> b < a.
Proof. rewrite <- not_true_iff_false, Qleb_spec. split; intro H; lra. Qed.
Lemma Qeqb_spec a b : Qeqb a b = true <-> a == b.
Proof. apply Qeq_bool_iff. Qed.
Lemma Qeqb_false a b : Qeqb a b = false <-> ~ a == b.
Proof. rewrite <- not_true_iff_false, Qeqb_spec. tauto. Qed.
Lemma Qgtb_spec a b : Qgtb a b = true <-> b < a.
Proof. apply Qltb_spec. Qed.
Lemma Qgtb_false a b : Qgtb a b = false <-> a <= b.
Proof. apply Qltb_false. Qed.
Lemma Qgeb_spec a b : Qgeb a b = true <-> b <= a.
Proof. apply Qleb_spec. Qed.
Lemma Qgeb_false a b : Qgeb a b = false <-> a < b.
Proof. apply Qleb_false. Qed.
Lemma Qneb_spec a b : Qneb a b = true <-> ~ a == b.
Proof. unfold Qneb. rewrite negb_true_iff. apply Qeqb_false. Qed.
Lemma Qneb_false a b : Qneb a b = false <-> a == b.
Proof. unfold Qneb. rewrite negb_false_iff. apply Qeqb_spec. Qed.

Global Instance Qltb_proper : Proper (Qeq ==> Qeq ==> eq) Qltb.
Proof.
  intros a a' Ha b b' Hb.
  destruct (Qltb a b) eqn:E, (Qltb a' b') eqn:E'; auto;
  rewrite ?Qltb_spec, ?Qltb_false in *; lra.
Qed.
Global Instance Qleb_proper : Proper (Qeq ==> Qeq ==> eq) Qleb.
Proof.
  intros a a' Ha b b' Hb.
  destruct (Qleb a b) eqn:E, (Qleb a' b') eqn:E'; auto;
  rewrite ?Qleb_spec, ?Qleb_false in *; lra.
Qed.
Global Instance Qeqb_proper : Proper (Qeq ==> Qeq ==> eq) Qeqb.
Proof.
  intros a a' Ha b b' Hb.
  destruct (Qeqb a b) eqn:E, (Qeqb a' b') eqn:E'; auto;
  rewrite ?Qeqb_spec, ?Qeqb_false in *.
  - exfalso; apply E'; lra.
  - exfalso; apply E; lra.
Qed.
Global Instance Qgtb_proper : Proper (Qeq ==> Qeq ==> eq) Qgtb.
Proof. intros a a' Ha b b' Hb. unfold Qgtb. rewrite Ha, Hb. reflexivity. Qed.
Global Instance Qgeb_proper : Proper (Qeq ==> Qeq ==> eq) Qgeb.
Proof. intros a a' Ha b b' Hb. unfold Qgeb. rewrite Ha, Hb. reflexivity. Qed.
Global Instance Qneb_proper : Proper (Qeq ==> Qeq ==> eq) Qneb.
Proof.
  intros a a' Ha b b' Hb. unfold Qneb. f_equal.
  exact (Qeqb_proper a a' Ha b b' Hb).
Qed.

(* Turn every boolean comparison fact in the context into a Q (in)equation. *)
Ltac qb2p :=
  repeat match goal with
  | H : Qltb _ _ = true |- _ => apply Qltb_spec in H
  | H : Qltb _ _ = false |- _ => apply Qltb_false in H
  | H : Qleb _ _ = true |- _ => apply Qleb_spec in H
  | H : Qleb _ _ = false |- _ => apply Qleb_false in H
  | H : Qeqb _ _ = true |- _ => apply Qeqb_spec in H
  | H : Qeqb _ _ = false |- _ => apply Qeqb_false in H
  | H : Qgtb _ _ = true |- _ => apply Qgtb_spec in H
  | H : Qgtb _ _ = false |- _ => apply Qgtb_false in H
  | H : Qgeb _ _ = true |- _ => apply Qgeb_spec in H
  | H : Qgeb _ _ = false |- _ => apply Qgeb_false in H
  | H : Qneb _ _ = true |- _ => apply Qneb_spec in H
  | H : Qneb _ _ = false |- _ => apply Qneb_false in H
  end.

(* Case-split on the first boolean comparison occurring in the goal. *)
Ltac qcase :=
  match goal with
  | |- context [Qltb ?a ?b] => let E := fresh "E" in destruct (Qltb a b) eqn:E
  | |- context [Qleb ?a ?b] => let E := fresh "E" in destruct (Qleb a b) eqn:E
  | |- context [Qeqb ?a ?b] => let E := fresh "E" in destruct (Qeqb a b) eqn:E
  | |- context [Qgtb ?a ?b] => let E := fresh "E" in destruct (Qgtb a b) eqn:E
  | |- context [Qgeb ?a ?b] => let E := fresh "E" in destruct (Qgeb a b) eqn:E
  | |- context [Qneb ?a ?b] => let E := fresh "E" in destruct (Qneb a b) eqn:E
  end.

Definition Qmin' (a b : Q) : Q := if Qltb b a then b else a.  (* std::min(a,b) *)
Definition Qmax' (a b : Q) : Q := if Qltb a b then b else a.  (* std::max(a,b) *)
Definition Qabs' (a : Q) : Q := if Qltb a 0 then - a else a.   (* fabs *)

Lemma Qabs'_nonneg a : 0 <= Qabs' a.
Proof. unfold Qabs'. qcase; qb2p; lra. Qed.
Lemma Qabs'_Qabs a : Qabs' a == Qabs a.
Proof.
  unfold Qabs'. qcase; qb2p.
  - rewrite Qabs_neg; lra.
  - rewrite Qabs_pos; lra.
Qed.

(* Points: Avoid::Point restricted to its coordinates. *)
Record pt := mkpt { px : Q; py : Q }.
Definition pt_eqb (a b : pt) : bool := Qeqb (px a) (px b) && Qeqb (py a) (py b).
Definition pt_eq (a b : pt) : Prop := px a == px b /\ py a == py b.
Lemma pt_eqb_spec a b : pt_eqb a b = true <-> pt_eq a b.
Proof. unfold pt_eqb, pt_eq. rewrite andb_true_iff, !Qeqb_spec. tauto. Qed.
Definition pt0 : pt := mkpt 0 0.
Definition pt_add (a t : pt) : pt := mkpt (px a + px t) (py a + py t).

(* list indexing with C++-style integer indices (Z) *)
Definition znth {A} (d : A) (l : list A) (i : Z) : A := nth (Z.to_nat i) l d.
Definition zlen {A} (l : list A) : Z := Z.of_nat (length l).
Definition zseq (lo hi : Z) : list Z := map (fun k => (lo + Z.of_nat k)%Z) (seq 0 (Z.to_nat (hi - lo))).
Fixpoint upd_nth {A} (l : list A) (n : nat) (v : A) : list A :=
  match l, n with
  | [], _ => []
  | _ :: t, O => v :: t
  | h :: t, S m => h :: upd_nth t m v
  end.
Definition zupd {A} (l : list A) (i : Z) (v : A) : list A := upd_nth l (Z.to_nat i) v.
