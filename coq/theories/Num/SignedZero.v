(* IEEE-754 signed zero for libdialect gaps (DESIGN 3.1, 5.18).
   In cola/libdialect/constraints.{h,cpp} the *direction* of a separation is carried by
   std::signbit(gap), and -0.0 is a legal gap ("zero gap, reversed direction").  An exact rational cannot
   carry that bit, so a gap is modelled as a sign bit plus a non-negative magnitude.
   C++ operations used on gaps and their model:
     -g            sg_neg        flips the sign bit, also of a zero
     signbit(g)    sg_signbit
     g == 0        sg_is0        true for +0.0 and -0.0
     g < 0, g > 0  sg_lt0, sg_gt0  false for both zeros
     value of g    sg_val        (the real number; both zeros map to 0)
   The well-formedness condition 0 <= smag g is a hypothesis of the theorems (sg_wf), not a field, so that
   the record extracts to plain data. *)
From Adapt Require Import Num.Qaux.
Local Open Scope Q_scope.

Record sgap := mkSg { sneg : bool; smag : Q }.

Definition sg_wf (g : sgap) : Prop := 0 <= smag g.
Definition sg_neg (g : sgap) : sgap := mkSg (negb (sneg g)) (smag g).
Definition sg_signbit (g : sgap) : bool := sneg g.
Definition sg_is0 (g : sgap) : bool := Qeqb (smag g) 0.
Definition sg_lt0 (g : sgap) : bool := sneg g && Qltb 0 (smag g).
Definition sg_gt0 (g : sgap) : bool := negb (sneg g) && Qltb 0 (smag g).
Definition sg_val (g : sgap) : Q := if sneg g then - smag g else smag g.
Definition sg_pz : sgap := mkSg false 0.     (* +0.0, also the literal `0` *)
Definition sg_nz : sgap := mkSg true 0.      (* -0.0 *)
(* a real number that is not a negative zero, e.g. a parsed decimal without sign or a sum that is >= 0 *)
Definition sg_of_Q (q : Q) : sgap := mkSg (Qltb q 0) (Qabs q).
(* bit-for-bit equality up to Qeq of the magnitudes *)
Definition sg_same (a b : sgap) : Prop := sneg a = sneg b /\ smag a == smag b.

Lemma sg_neg_invol g : sg_neg (sg_neg g) = g.
Proof. destruct g as [n m]. unfold sg_neg. cbn. now rewrite negb_involutive. Qed.

Lemma sg_neg_wf g : sg_wf g -> sg_wf (sg_neg g).
Proof. exact (fun H => H). Qed.

Lemma sg_val_neg g : sg_val (sg_neg g) == - sg_val g.
Proof. destruct g as [[|] m]; unfold sg_val, sg_neg; cbn; lra. Qed.

Lemma sg_is0_neg g : sg_is0 (sg_neg g) = sg_is0 g.
Proof. reflexivity. Qed.

Lemma sg_is0_spec g : sg_is0 g = true <-> sg_val g == 0.
Proof.
  unfold sg_is0, sg_val. rewrite Qeqb_spec. destruct (sneg g); split; intro; lra.
Qed.

Lemma sg_lt0_spec g : sg_wf g -> (sg_lt0 g = true <-> sg_val g < 0).
Proof.
  unfold sg_wf, sg_lt0, sg_val. intro W. destruct (sneg g); cbn [andb].
  - rewrite Qltb_spec. split; intro; lra.
  - split; [discriminate | intro; lra].
Qed.

Lemma sg_gt0_spec g : sg_wf g -> (sg_gt0 g = true <-> 0 < sg_val g).
Proof.
  unfold sg_wf, sg_gt0, sg_val. intro W. destruct (sneg g); cbn [andb negb].
  - split; [discriminate | intro; lra].
  - rewrite Qltb_spec. tauto.
Qed.

(* the two zeros are equal as numbers and differ in the bit: the reason the bit has to be modelled *)
Lemma sg_zeros : sg_val sg_pz == sg_val sg_nz /\ sg_signbit sg_pz <> sg_signbit sg_nz /\
                 sg_neg sg_pz = sg_nz /\ sg_is0 sg_nz = true /\ sg_lt0 sg_nz = false.
Proof. repeat split; try reflexivity. cbn. discriminate. Qed.

Lemma sg_of_Q_val q : sg_val (sg_of_Q q) == q.
Proof.
  unfold sg_of_Q, sg_val. cbn. destruct (Qltb q 0) eqn:E; qb2p.
  - rewrite Qabs_neg by lra. lra.
  - rewrite Qabs_pos by lra. lra.
Qed.

Lemma sg_of_Q_wf q : sg_wf (sg_of_Q q).
Proof. unfold sg_wf, sg_of_Q. cbn. apply Qabs_nonneg. Qed.

Lemma sg_of_Q_nonneg q : 0 <= q -> sg_same (sg_of_Q q) (mkSg false q).
Proof.
  intro H. unfold sg_same, sg_of_Q. cbn. split.
  - apply Qltb_false. exact H.
  - apply Qabs_pos. exact H.
Qed.
