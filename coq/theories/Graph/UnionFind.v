(* C12 - connectivity of finite multigraphs on nat (edge lists) and the quick-find form of union-find
   ("every vertex carries the name of its tree root": VertInf::treeRoot() in mtst.cpp; union = rewrite the root
   pointer of one class, MinimumTerminalSpanningTree::commitToBridgingEdge).  Self-contained, no Gen imports. *)
From Coq Require Import List Arith Lia Bool Permutation.
Import ListNotations.

Definition edge := (nat * nat)%type.
Definition graph := list edge.

(* x and y are joined by a walk: the least equivalence containing the edges *)
Inductive conn (g : graph) : nat -> nat -> Prop :=
| c_refl x : conn g x x
| c_edge u v : In (u, v) g -> conn g u v
| c_sym x y : conn g x y -> conn g y x
| c_trans x y z : conn g x y -> conn g y z -> conn g x z.
#[export] Hint Constructors conn : core.

(* every edge of g1 is a connection of g2 => conn g1 is included in conn g2 *)
Lemma conn_sub g1 g2 : (forall u v, In (u, v) g1 -> conn g2 u v) -> forall x y, conn g1 x y -> conn g2 x y.
Proof. intros H x y C. induction C; eauto. Qed.

Lemma conn_incl g1 g2 x y : incl g1 g2 -> conn g1 x y -> conn g2 x y.
Proof. intros H. apply conn_sub. intros u v Hin. apply c_edge. apply H. exact Hin. Qed.

Lemma conn_perm g1 g2 x y : Permutation g1 g2 -> conn g1 x y -> conn g2 x y.
Proof. intro P. apply conn_incl. intros e He. eapply Permutation_in; eauto. Qed.

Lemma conn_cons_mono e g x y : conn g x y -> conn (e :: g) x y.
Proof. apply conn_incl. intros f Hf. right. exact Hf. Qed.

Lemma conn_flip a b g x y : conn ((a, b) :: g) x y -> conn ((b, a) :: g) x y.
Proof.
  apply conn_sub. intros u v [E|Hin].
  - inversion E; subst. apply c_sym. apply c_edge. left. reflexivity.
  - apply c_edge. right. exact Hin.
Qed.

(* the path-splitting lemma: a walk in (a,b)::g either avoids the new edge or crosses it *)
Lemma conn_cons_split a b g x y :
  conn ((a, b) :: g) x y ->
  conn g x y \/ (conn g x a /\ conn g b y) \/ (conn g x b /\ conn g a y).
Proof.
  intro C. induction C.
  - left. apply c_refl.
  - destruct H as [E|Hin].
    + inversion E; subst. right. left. split; apply c_refl.
    + left. apply c_edge. exact Hin.
  - destruct IHC as [H|[[H1 H2]|[H1 H2]]].
    + left. eauto.
    + right. right. split; eauto.
    + right. left. split; eauto.
  - destruct IHC1 as [H|[[H1 H2]|[H1 H2]]]; destruct IHC2 as [K|[[K1 K2]|[K1 K2]]].
    + left. eauto.
    + right. left. split; eauto.
    + right. right. split; eauto.
    + right. left. split; eauto.
    + right. left. split; [exact H1|]. exact K2.
    + left. eapply c_trans; [exact H1|]. exact K2.
    + right. right. split; eauto.
    + left. eapply c_trans; [exact H1|]. exact K2.
    + right. right. split; [exact H1|]. exact K2.
Qed.

(* an edge between already connected vertices adds no connection *)
Lemma conn_cons_redundant a b g x y : conn g a b -> conn ((a, b) :: g) x y -> conn g x y.
Proof.
  intros Hab. apply conn_sub. intros u v [E|Hin]; [inversion E; subst; exact Hab|apply c_edge; exact Hin].
Qed.

Lemma conn_nil x y : conn [] x y -> x = y.
Proof. intro C. induction C; try congruence. contradiction. Qed.

(* ------------------------------------------------------------------ quick-find *)
Definition uf := nat -> nat.                       (* vertex -> name of its class *)
Definition uf_init : uf := fun x => x.
Definition uf_same (u : uf) (x y : nat) : bool := Nat.eqb (u x) (u y).
(* the two class names are looked up once, when the union is made, and the queried vertex once per level: the extracted
   closure chain then answers a query in time linear in the number of unions (written naively it is exponential) *)
Definition uf_union (u : uf) (x y : nat) : uf :=
  let rx := u x in let ry := u y in fun z => let rz := u z in if Nat.eqb rz rx then ry else rz.

(* u names exactly the connected components of g *)
Definition uf_rep (u : uf) (g : graph) : Prop := forall x y, u x = u y <-> conn g x y.

Lemma uf_rep_init : uf_rep uf_init [].
Proof. intros x y. unfold uf_init. split; [intros ->; apply c_refl|apply conn_nil]. Qed.

Lemma uf_rep_union u g a b : uf_rep u g -> uf_rep (uf_union u a b) ((a, b) :: g).
Proof.
  intros R x y. unfold uf_union. split.
  - intro H.
    assert (Eab : conn ((a, b) :: g) a b) by (apply c_edge; left; reflexivity).
    destruct (Nat.eqb_spec (u x) (u a)) as [Hx|Hx]; destruct (Nat.eqb_spec (u y) (u a)) as [Hy|Hy].
    + apply conn_cons_mono. apply R. congruence.
    + apply R in Hx. apply R in H.
      eapply c_trans; [apply conn_cons_mono; exact Hx|]. eapply c_trans; [exact Eab|]. apply conn_cons_mono. exact H.
    + apply R in Hy. apply R in H.
      eapply c_trans; [apply conn_cons_mono; exact H|]. eapply c_trans; [apply c_sym; exact Eab|]. apply conn_cons_mono. apply c_sym. exact Hy.
    + apply conn_cons_mono. apply R. exact H.
  - intro C. apply conn_cons_split in C. destruct C as [C|[[C1 C2]|[C1 C2]]].
    + apply R in C. rewrite C. reflexivity.
    + apply R in C1. apply R in C2. rewrite C1, Nat.eqb_refl.
      destruct (Nat.eqb_spec (u y) (u a)); congruence.
    + apply R in C1. apply R in C2. rewrite <- C2, Nat.eqb_refl.
      destruct (Nat.eqb_spec (u x) (u a)); congruence.
Qed.

Lemma uf_same_spec u g x y : uf_rep u g -> (uf_same u x y = true <-> conn g x y).
Proof. intro R. unfold uf_same. rewrite Nat.eqb_eq. apply R. Qed.

(* components of an arbitrary multigraph (a union of two vertices of one class changes nothing) *)
Fixpoint comp_uf (g : graph) : uf :=
  match g with
  | [] => uf_init
  | (a, b) :: r => uf_union (comp_uf r) a b
  end.
Lemma comp_uf_rep g : uf_rep (comp_uf g) g.
Proof.
  induction g as [|[a b] r IH]; cbn [comp_uf]; [apply uf_rep_init|apply uf_rep_union; exact IH].
Qed.
