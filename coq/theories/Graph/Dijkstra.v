(* C17 / C04 / C05 - Dijkstra's algorithm (DijkstraModel.v) computes the shortest-path metric, for every finite
   graph with non-negative weights, every finite-map implementation and every priority queue that returns *an*
   element of minimal key.
     dijkstra_sound    every reported distance is the length of a real walk from the source
     dijkstra_optimal  and is at most the length of every walk from the source (None only if there is none)
     dijkstra_correct  both, as `dist`
     dijkstra_done     the loop never runs out of fuel
   then the libcola instance: johnsons_correct, johnsons_total, johnsons_eq_fw, path_lengths_scaled. *)
From Coq Require Import Permutation.
From Adapt Require Import Num.Qaux Graph.Paths Graph.DijkstraModel Graph.FloydWarshallModel Graph.FloydWarshall.
Local Open Scope Q_scope.
Local Opaque Qred.

Section DijkstraProof.
  Variable V : Type.
  Variable eq_dec : forall x y : V, {x = y} + {x <> y}.
  Variable adj : V -> list (V * Q).
  Variable M : Type.
  Variable get : M -> V -> oQ.
  Variable upd : M -> V -> oQ -> M.
  Variable extract : M -> list V -> option (V * list V).

  Hypothesis get_upd_same : forall m v x, get (upd m v x) v = x.
  Hypothesis get_upd_other : forall m v u x, v <> u -> get (upd m v x) u = get m u.
  (* the priority-queue abstraction: some element of minimal key is removed *)
  Hypothesis extract_some : forall d q u q', extract d q = Some (u, q') ->
    Permutation q (u :: q') /\ forall v, In v q -> ole (get d u) (get d v).
  Hypothesis extract_none : forall d q, extract d q = None -> q = [].

  Hypothesis Hnn : nonneg adj.
  Variable vs : list V.                         (* the finite vertex set *)
  Hypothesis vs_nodup : NoDup vs.
  Hypothesis vs_closed : forall u v w, In u vs -> In (v, w) (adj u) -> In v vs.
  Variable s : V.
  Hypothesis Hs : In s vs.

  Notation relax_edge := (relax_edge V M get upd).
  Notation dijkstra_loop := (dijkstra_loop V adj M get upd extract).

  Definition dsound (d : M) : Prop := forall v x, get d v = Some x -> reach adj s v x.

  (* ---------------------------------------------------------------- relaxing the edges out of u *)
  Record relaxed (u : V) (l : list (V * Q)) (d d' : M) : Prop := {
    rx_sound : dsound d';
    rx_le : forall v, ole (get d' v) (get d v);
    rx_u : get d' u = get d u;
    rx_change : forall v, get d' v = get d v \/
       (exists x w, get d u = Some x /\ In (v, w) l /\ get d' v = Some (Qred (x + w)) /\ ~ ole (get d v) (get d' v));
    rx_closed : forall v w x, In (v, w) l -> get d u = Some x -> ole (get d' v) (Some (x + w))
  }.

  Lemma relax_fold u : forall l d, (forall e, In e l -> In e (adj u)) -> dsound d ->
    relaxed u l d (fold_left (relax_edge u) l d).
  Proof.
    induction l as [|[v w] l IH]; intros d Hl Hd; cbn [fold_left].
    - split; auto.
      + intros v. apply ole_refl.
      + intros v w x [].
    - assert (Hvw : In (v, w) (adj u)) by (apply Hl; left; auto).
      pose proof (Hnn _ _ _ Hvw) as Hw.
      set (d1 := relax_edge u d (v, w)).
      (* facts about the single step *)
      assert (S1 : dsound d1 /\ (forall t, ole (get d1 t) (get d t)) /\ get d1 u = get d u /\
                   (forall t, get d1 t = get d t \/
                      (t = v /\ exists x, get d u = Some x /\ get d1 t = Some (Qred (x + w)) /\ ~ ole (get d t) (get d1 t))) /\
                   (forall x, get d u = Some x -> ole (get d1 v) (Some (x + w)))).
      { subst d1. unfold DijkstraModel.relax_edge. destruct (get d u) as [x|] eqn:Eu.
        - destruct (oltb (Some (Qred (x + w))) (get d v)) eqn:Elt.
          + pose proof (oltb_true _ _ Elt) as [Hle Hnle].
            assert (Hvu : v <> u).
            { intros ->. rewrite Eu in Hnle. apply Hnle. cbn [ole]. pose proof (Qred_correct (x + w)). lra. }
            repeat split.
            * intros t y. destruct (eq_dec v t) as [<-|Hne].
              -- rewrite get_upd_same. intros H. injection H as <-.
                 eapply reach_eq; [eapply reach_app; [apply Hd; eauto | apply reach_edge; eauto]|].
                 symmetry. apply Qred_correct.
              -- rewrite get_upd_other by auto. apply Hd.
            * intros t. destruct (eq_dec v t) as [<-|Hne].
              -- rewrite get_upd_same. auto.
              -- rewrite get_upd_other by auto. apply ole_refl.
            * rewrite get_upd_other by auto. auto.
            * intros t. destruct (eq_dec v t) as [<-|Hne].
              -- right. split; auto. exists x. rewrite get_upd_same. auto.
              -- left. rewrite get_upd_other by auto. auto.
            * intros y Hy. injection Hy as <-. rewrite get_upd_same. cbn [ole].
              pose proof (Qred_correct (x + w)). lra.
          + repeat split; auto.
            * intros t. apply ole_refl.
            * intros y Hy. injection Hy as <-. apply oltb_false in Elt.
              eapply ole_trans; [exact Elt|]. cbn [ole]. pose proof (Qred_correct (x + w)). lra.
        - repeat split; auto.
          + intros t. apply ole_refl.
          + intros y Hy. discriminate. }
      destruct S1 as (A1 & A2 & A3 & A4 & A5).
      destruct (IH d1 ltac:(intros e He; apply Hl; right; auto) A1) as [B1 B2 B3 B4 B5].
      split; auto.
      + intros t. eapply ole_trans; [apply B2 | apply A2].
      + congruence.
      + intros t. destruct (B4 t) as [E | (x & w' & Hx & Hin & Hval & Hstrict)].
        * destruct (A4 t) as [E' | (-> & x & Hx & Hval & Hstrict)].
          -- left. congruence.
          -- right. exists x, w. repeat split; auto; [left; auto | congruence | rewrite E; auto].
        * right. exists x, w'. repeat split; auto; [congruence | right; auto|].
          intros H. apply Hstrict. eapply ole_trans; [apply A2 | exact H].
      + intros t w' x [H | H] Hx.
        * injection H as <- <-. eapply ole_trans; [apply B2 | apply A5; auto].
        * apply B5; auto. congruence.
  Qed.

  (* ---------------------------------------------------------------- the loop invariant *)
  Record inv (d out : M) (q : list V) : Prop := {
    i_nodup : NoDup q;
    i_incl : forall v, In v q -> In v vs;
    i_sound : dsound d;
    i_src : ole (get d s) (Some 0);
    i_closed : forall u, In u vs -> ~ In u q -> forall v w x, In (v, w) (adj u) -> get d u = Some x -> ole (get d v) (Some (x + w));
    i_order : forall u v, In u vs -> ~ In u q -> In v q -> ole (get d u) (get d v);
    i_out : forall u, In u vs -> ~ In u q -> get out u = get d u
  }.

  Lemma inv_step d out q u q' : inv d out q -> extract d q = Some (u, q') ->
    inv (fold_left (relax_edge u) (adj u) d) (upd out u (get d u)) q'.
  Proof.
    intros [N I S0 Z C O U] He. apply extract_some in He. destruct He as [Hp Hmin].
    assert (Huq : In u q) by (eapply Permutation_in; [apply Permutation_sym; exact Hp | left; auto]).
    assert (N' : NoDup (u :: q')) by (eapply Permutation_NoDup; eauto).
    inversion N' as [|? ? Hnu Nq']; subst.
    assert (Hq : forall t, In t q <-> t = u \/ In t q').
    { intros t. split; intros H.
      - apply (Permutation_in _ Hp) in H. destruct H; auto.
      - apply (Permutation_in _ (Permutation_sym Hp)). destruct H; [left | right]; auto. }
    destruct (relax_fold u (adj u) d ltac:(auto) S0) as [B1 B2 B3 B4 B5].
    set (d' := fold_left (relax_edge u) (adj u) d) in *.
    (* settled vertices keep their label *)
    assert (Hkeep : forall t, In t vs -> ~ In t q -> get d' t = get d t).
    { intros t Ht Hnt. destruct (B4 t) as [E | (x & w & Hx & Hin & Hval & Hstrict)]; auto.
      exfalso. apply Hstrict. pose proof (O t u Ht Hnt Huq) as Ho. rewrite Hx in Ho.
      apply ole_some_inv in Ho. destruct Ho as (y & Hy & Hle). rewrite Hy, Hval. cbn [ole].
      pose proof (Hnn _ _ _ Hin). pose proof (Qred_correct (x + w)). lra. }
    assert (Hsplit : forall t, In t vs -> ~ In t q' -> t = u \/ ~ In t q).
    { intros t Ht Hn. destruct (eq_dec t u); auto. right. intros H. apply Hq in H. tauto. }
    split; auto.
    - intros v Hv. apply I. apply Hq. auto.
    - eapply ole_trans; [apply B2 | exact Z].
    - intros t Ht Hnt v w x Hin Hx. destruct (Hsplit t Ht Hnt) as [-> | Hold].
      + apply B5; auto. congruence.
      + rewrite Hkeep in Hx by auto. eapply ole_trans; [apply B2|]. eapply C; eauto.
    - intros t v Ht Hnt Hv.
      assert (Hvq : In v q) by (apply Hq; auto).
      assert (Htu : ole (get d' t) (get d u)).
      { destruct (Hsplit t Ht Hnt) as [-> | Hold].
        - rewrite B3. apply ole_refl.
        - rewrite Hkeep by auto. apply O; auto. }
      destruct (B4 v) as [E | (x & w & Hx & Hin & Hval & Hstrict)].
      + rewrite E. eapply ole_trans; [exact Htu | apply Hmin; auto].
      + eapply ole_trans; [exact Htu|]. rewrite Hx, Hval. cbn [ole].
        pose proof (Hnn _ _ _ Hin). pose proof (Qred_correct (x + w)). lra.
    - intros t Ht Hnt. destruct (Hsplit t Ht Hnt) as [-> | Hold].
      + rewrite get_upd_same. auto.
      + assert (u <> t) by (intros <-; tauto).
        rewrite get_upd_other by auto. rewrite Hkeep by auto. apply U; auto.
  Qed.

  Lemma inv_done d out : inv d out [] -> forall t, In t vs -> dist adj s t (get out t).
  Proof.
    intros [N I S0 Z C O U] t Ht. rewrite U by auto.
    apply (dist_from_closed V adj (fun v => In v vs) s (get d)); auto.
    intros u v w x Hu Hin Hx. eapply C; eauto.
  Qed.

  Lemma loop_correct : forall fuel d out q res, inv d out q -> dijkstra_loop fuel d out q = Done res ->
    forall t, In t vs -> dist adj s t (get res t).
  Proof.
    induction fuel as [|f IH]; intros d out q res Hinv; cbn [DijkstraModel.dijkstra_loop].
    - destruct (extract d q) as [[u q']|] eqn:E; [discriminate|].
      intros H. injection H as <-. apply extract_none in E. subst q. eapply inv_done; eauto.
    - destruct (extract d q) as [[u q']|] eqn:E.
      + apply IH. eapply inv_step; eauto.
      + intros H. injection H as <-. apply extract_none in E. subst q. eapply inv_done; eauto.
  Qed.

  Lemma loop_fuel : forall fuel d out q, (length q <= fuel)%nat -> dijkstra_loop fuel d out q <> OutOfFuel.
  Proof.
    induction fuel as [|f IH]; intros d out q Hlen; cbn [DijkstraModel.dijkstra_loop];
      destruct (extract d q) as [[u q']|] eqn:E; try discriminate.
    - apply extract_some in E. destruct E as [Hp _]. apply Permutation_length in Hp. cbn [length] in Hp. lia.
    - apply IH. apply extract_some in E. destruct E as [Hp _]. apply Permutation_length in Hp. cbn [length] in Hp. lia.
  Qed.

  (* any property of the result array that every write to a vertex of the graph preserves *)
  Lemma loop_out_pred (P : M -> Prop) :
    (forall m v x, In v vs -> P m -> P (upd m v x)) ->
    forall fuel d out q res, (forall v, In v q -> In v vs) -> P out -> dijkstra_loop fuel d out q = Done res -> P res.
  Proof.
    intros HP. induction fuel as [|f IH]; intros d out q res Hq Hout; cbn [DijkstraModel.dijkstra_loop];
      destruct (extract d q) as [[u q']|] eqn:E; try discriminate; try (intros H; injection H as <-; exact Hout).
    apply extract_some in E. destruct E as [Hp _].
    apply IH.
    - intros v Hv. apply Hq. eapply Permutation_in; [apply Permutation_sym; exact Hp | right; auto].
    - apply HP; auto. apply Hq. eapply Permutation_in; [apply Permutation_sym; exact Hp | left; auto].
  Qed.

  Variable empty out0 : M.
  Hypothesis get_empty : forall v, get empty v = None.

  Lemma inv_init : inv (upd empty s (Some 0)) out0 vs.
  Proof.
    split; auto; try (intros; tauto).
    - intros v x. destruct (eq_dec s v) as [<-|Hne].
      + rewrite get_upd_same. intros H. injection H as <-. apply reach_refl.
      + rewrite get_upd_other by auto. rewrite get_empty. discriminate.
    - rewrite get_upd_same. apply ole_refl.
  Qed.

  Notation dijkstra := (dijkstra V adj M get upd extract empty out0 vs s).

  Theorem dijkstra_correct res : dijkstra = Done res -> forall t, In t vs -> dist adj s t (get res t).
  Proof. unfold DijkstraModel.dijkstra. intros H. eapply loop_correct; eauto. apply inv_init. Qed.

  Theorem dijkstra_sound res : dijkstra = Done res -> forall t x, In t vs -> get res t = Some x -> reach adj s t x.
  Proof. intros H t x Ht Hx. pose proof (dijkstra_correct res H t Ht) as D. rewrite Hx in D. apply D. Qed.

  Theorem dijkstra_optimal res : dijkstra = Done res -> forall t l, In t vs -> walk adj s t l -> ole (get res t) (Some l).
  Proof.
    intros H t l Ht W. pose proof (dijkstra_correct res H t Ht) as D.
    destruct (get res t) as [x|]; cbn [dist ole] in *.
    - apply D; auto.
    - exact (D _ W).
  Qed.

  Theorem dijkstra_out_pred (P : M -> Prop) res :
    (forall m v x, In v vs -> P m -> P (upd m v x)) -> P out0 -> dijkstra = Done res -> P res.
  Proof. unfold DijkstraModel.dijkstra. intros HP H0 H. eapply loop_out_pred; eauto. Qed.

  Theorem dijkstra_done : exists res, dijkstra = Done res.
  Proof.
    unfold DijkstraModel.dijkstra.
    destruct (dijkstra_loop (length vs) (upd empty s (Some 0)) out0 vs) eqn:E; eauto.
    exfalso. eapply loop_fuel; [|exact E]. auto.
  Qed.
End DijkstraProof.

(* ------------------------------------------------------------------ the linear-scan queue meets the abstraction *)
Section ExtractMin.
  Variable V : Type.
  Variable M : Type.
  Variable get : M -> V -> oQ.
  Notation extract_min := (extract_min V M get).

  Lemma extract_min_none d q : extract_min d q = None -> q = [].
  Proof.
    destruct q as [|u q]; cbn [DijkstraModel.extract_min]; auto.
    destruct (extract_min d q) as [[m r]|]; [destruct (oltb (get d m) (get d u))|]; discriminate.
  Qed.

  Lemma extract_min_some d : forall q u q', extract_min d q = Some (u, q') ->
    Permutation q (u :: q') /\ forall v, In v q -> ole (get d u) (get d v).
  Proof.
    induction q as [|a q IH]; cbn [DijkstraModel.extract_min]; intros u q'; [discriminate|].
    destruct (extract_min d q) as [[m r]|] eqn:E.
    - destruct (IH _ _ eq_refl) as [Hp Hmin].
      destruct (oltb (get d m) (get d a)) eqn:Elt; intros H; injection H as <- <-.
      + split.
        * eapply Permutation_trans; [apply perm_skip; exact Hp | apply perm_swap].
        * intros v [<-|Hv]; [apply oltb_true in Elt; tauto | auto].
      + split; auto. apply oltb_false in Elt.
        intros v [<-|Hv]; [apply ole_refl | eapply ole_trans; [exact Elt | auto]].
    - intros H. injection H as <- <-. apply extract_min_none in E. subst q. split; auto.
      intros v [<-|[]]. apply ole_refl.
  Qed.
End ExtractMin.

(* ------------------------------------------------------------------ the libcola instance *)
Lemma lget_lupd_same : forall m v x, lget (lupd m v x) v = x.
Proof.
  intros m v. revert m. unfold lget. induction v as [|v IH]; intros [|h t] x; cbn [lupd nth]; auto.
Qed.
Lemma lget_nil v : lget [] v = None.
Proof. unfold lget. destruct v; reflexivity. Qed.
Lemma lget_lupd_other : forall m v u x, v <> u -> lget (lupd m v x) u = lget m u.
Proof.
  intros m v. revert m. unfold lget.
  induction v as [|v IH]; intros [|h t] u x Hne; destruct u as [|u]; cbn [lupd nth]; try congruence; auto.
  - destruct u; reflexivity.
  - rewrite IH by congruence. destruct u; reflexivity.
Qed.
Lemma lget_repeat_none n v : lget (repeat None n) v = None.
Proof. unfold lget. apply nth_repeat. Qed.

Section Cola.
  Variable n : nat.
  Variable es : list edge.
  Hypothesis Hwf : wf_graph n es.
  Let adj := adj_of es.

  Lemma seq_closed u v w : In u (seq 0 n) -> In (v, w) (adj u) -> In v (seq 0 n).
  Proof. intros Hu Hin. apply in_seq. destruct (adj_of_range n es Hwf _ _ _ Hin). lia. Qed.

  Theorem dijkstra_nat_correct s row : (s < n)%nat -> dijkstra_nat n es s = Done row ->
    forall t, (t < n)%nat -> dist adj s t (lget row t).
  Proof.
    intros Hs H t Ht. unfold dijkstra_nat in H.
    eapply (dijkstra_correct nat Nat.eq_dec adj (list oQ) lget lupd (extract_min nat (list oQ) lget)
              lget_lupd_same lget_lupd_other (extract_min_some nat (list oQ) lget) (extract_min_none nat (list oQ) lget)
              (adj_of_nonneg n es Hwf) (seq 0 n) (seq_NoDup n 0) seq_closed s
              ltac:(apply in_seq; lia) (repeat None n) (repeat None n) (lget_repeat_none n)); eauto.
    apply in_seq. lia.
  Qed.

  Lemma lupd_length : forall m v x, (v < length m)%nat -> length (lupd m v x) = length m.
  Proof.
    intros m v. revert m. induction v as [|v IH]; intros [|h t] x Hv; cbn [length lupd] in *; try lia.
    rewrite IH by lia. reflexivity.
  Qed.

  Theorem dijkstra_nat_length s row : (s < n)%nat -> dijkstra_nat n es s = Done row -> length row = n.
  Proof.
    intros Hs H. unfold dijkstra_nat in H.
    eapply (dijkstra_out_pred nat adj (list oQ) lget lupd (extract_min nat (list oQ) lget)
              (extract_min_some nat (list oQ) lget) (seq 0 n) s (repeat None n) (repeat None n)
              (fun m => length m = n)); eauto.
    - intros m v x Hv Hm. apply in_seq in Hv. rewrite lupd_length; lia.
    - apply repeat_length.
  Qed.

  Theorem dijkstra_nat_done s : (s < n)%nat -> exists row, dijkstra_nat n es s = Done row.
  Proof.
    intros Hs. unfold dijkstra_nat.
    apply (dijkstra_done nat adj (list oQ) lget lupd (extract_min nat (list oQ) lget)
              (extract_min_some nat (list oQ) lget) (seq 0 n) s (repeat None n) (repeat None n)).
  Qed.

  (* rows of johnsons *)
  Lemma johnsons_rows : forall l J,
    fold_right (fun s acc => match dijkstra_nat n es s, acc with
                             | Done row, Some rows => Some (row :: rows)
                             | _, _ => None
                             end) (Some []) l = Some J ->
    length J = length l /\ forall p, (p < length l)%nat -> dijkstra_nat n es (nth p l 0%nat) = Done (nth p J []).
  Proof.
    induction l as [|a l IH]; cbn [fold_right]; intros J H.
    - injection H as <-. split; auto. intros p Hp. cbn [length] in Hp. lia.
    - destruct (dijkstra_nat n es a) as [row|] eqn:Ea; [|discriminate].
      destruct (fold_right _ (Some []) l) as [rows|] eqn:Er; [|discriminate].
      injection H as <-. destruct (IH _ eq_refl) as [L R]. split; [cbn [length]; lia|].
      intros [|p] Hp; cbn [nth]; auto. apply R. cbn [length] in Hp. lia.
  Qed.

  Theorem johnsons_correct J : johnsons n es = Some J ->
    forall i j, (i < n)%nat -> (j < n)%nat -> dist adj i j (mget J i j).
  Proof.
    intros H i j Hi Hj. unfold johnsons in H. apply johnsons_rows in H. destruct H as [L R].
    rewrite seq_length in *. specialize (R i Hi). rewrite seq_nth in R by auto. cbn [Nat.add] in R.
    unfold mget. apply (dijkstra_nat_correct i _ Hi R j Hj).
  Qed.

  Theorem johnsons_total : exists J, johnsons n es = Some J.
  Proof.
    unfold johnsons.
    assert (G : forall l, (forall s, In s l -> (s < n)%nat) ->
               exists J, fold_right (fun s acc => match dijkstra_nat n es s, acc with
                             | Done row, Some rows => Some (row :: rows)
                             | _, _ => None
                             end) (Some []) l = Some J).
    { induction l as [|a l IH]; intros Hl; cbn [fold_right]; eauto.
      destruct (IH ltac:(intros; apply Hl; right; auto)) as (rows & ->).
      destruct (dijkstra_nat_done a ltac:(apply Hl; left; auto)) as (row & ->). eauto. }
    apply G. intros s Hs. apply in_seq in Hs. lia.
  Qed.

  (* all three algorithms agree (up to ==) *)
  Theorem johnsons_eq_fw_fixed J : johnsons n es = Some J ->
    forall i j, (i < n)%nat -> (j < n)%nat -> oeq (mget J i j) (mget (fw_fixed n es) i j).
  Proof.
    intros H i j Hi Hj. eapply dist_unique; [eapply johnsons_correct; eauto | apply fw_correct_fixed; auto].
  Qed.

  Theorem johnsons_eq_fw J : no_self_loops es -> parallel_equal es -> johnsons n es = Some J ->
    forall i j, (i < n)%nat -> (j < n)%nat -> oeq (mget J i j) (mget (fw_current n es) i j).
  Proof.
    intros H1 H2 H i j Hi Hj. eapply dist_unique; [eapply johnsons_correct; eauto | apply fw_correct; auto].
  Qed.
End Cola.

(* ------------------------------------------------------------------ computePathLengths *)
Lemma nth_map_combine_seq {A B} (g : nat * A -> B) (d0 : A) (dB : B) : forall (l : list A) a i,
  (i < length l)%nat -> nth i (map g (combine (seq a (length l)) l)) dB = g ((a + i)%nat, nth i l d0).
Proof.
  induction l as [|x l IH]; intros a i Hi; cbn [length] in *; [lia|].
  cbn [seq combine map]. destruct i as [|i]; cbn [nth].
  - rewrite Nat.add_0_r. reflexivity.
  - rewrite IH by lia. f_equal. f_equal. lia.
Qed.

Lemma mapi2_get {A B} (f : nat -> nat -> A -> B) (D : list (list A)) (d0 : A) (dB : B) i j :
  (i < length D)%nat -> (j < length (nth i D []))%nat ->
  nth j (nth i (mapi2 f D) []) dB = f i j (nth j (nth i D []) d0).
Proof.
  intros Hi Hj. unfold mapi2.
  rewrite (nth_map_combine_seq _ [] [] D 0 i Hi). cbn [fst snd Nat.add].
  rewrite (nth_map_combine_seq _ d0 dB (nth i D []) 0 j Hj). reflexivity.
Qed.

Definition ends_in_range (n : nat) (es : list edge) : Prop :=
  forall u v w, In (u, v, w) es -> (u < n)%nat /\ (v < n)%nat.

Lemma fix_length_pos w : 0 < fix_length w.
Proof. unfold fix_length. destruct (Qleb w 0) eqn:E; qb2p; lra. Qed.

Lemma fix_lengths_wf n es : ends_in_range n es -> wf_graph n (fix_lengths es).
Proof.
  intros H u v w Hin. unfold fix_lengths in Hin. apply in_map_iff in Hin.
  destruct Hin as ([[a b] c] & E & Hin). injection E as <- <- <-.
  destruct (H _ _ _ Hin). repeat split; auto. pose proof (fix_length_pos c). lra.
Qed.

Lemma has_edge_spec es i j : has_edge es i j = true <-> exists w, In (j, w) (adj_of es i).
Proof.
  unfold has_edge. rewrite existsb_exists. split.
  - intros ([[u v] w] & Hin & H). exists w. apply adj_of_spec. exists u, v. split; auto.
    apply orb_true_iff in H. destruct H as [H|H]; apply andb_true_iff in H; destruct H as [H1 H2];
      apply Nat.eqb_eq in H1, H2; auto.
  - intros (w & H). apply adj_of_spec in H. destruct H as (u & v & Hin & H). exists (u, v, w). split; auto.
    destruct H as [[-> ->]|[-> ->]]; rewrite !Nat.eqb_refl; cbn [andb orb]; auto. apply orb_true_r.
Qed.

(* D = idealLength * dist over the corrected lengths (sentinel kept), G = 0 / 1 / 2 *)
Theorem path_lengths_scaled n es ideal D G :
  ends_in_range n es -> compute_path_lengths n es ideal = Some (D, G) ->
  forall i j, (i < n)%nat -> (j < n)%nat -> i <> j ->
  exists o, dist (adj_of (fix_lengths es)) i j o /\
    mget D i j = match o with None => None | Some d => Some (Qred (d * ideal)) end /\
    nth j (nth i G []) None =
      Some (if has_edge es i j then 1%nat else match o with None => 0%nat | Some _ => 2%nat end).
Proof.
  intros Hr H i j Hi Hj Hne. unfold compute_path_lengths in H.
  destruct (johnsons n (fix_lengths es)) as [J|] eqn:EJ; [|discriminate]. injection H as <- <-.
  pose proof (fix_lengths_wf n es Hr) as Hwf.
  pose proof (johnsons_correct n _ Hwf J EJ i j Hi Hj) as Hd.
  pose proof EJ as EJ'. unfold johnsons in EJ'. apply johnsons_rows in EJ'. destruct EJ' as [L R].
  rewrite seq_length in L, R.
  specialize (R i Hi). rewrite seq_nth in R by auto. cbn [Nat.add] in R.
  pose proof (dijkstra_nat_length n _ i _ Hi R) as Hlen.
  exists (mget J i j). split; [exact Hd|]. split.
  - unfold mget. rewrite (mapi2_get (scale_entry ideal) J None None i j) by lia. unfold scale_entry.
    destruct (Nat.eqb_spec i j); [congruence|]. reflexivity.
  - rewrite (mapi2_get (g_entry es) J None None i j) by lia. unfold g_entry, mget.
    destruct (has_edge es i j); auto. destruct (Nat.eqb_spec i j); [congruence|].
    destruct (nth j (nth i J []) None); reflexivity.
Qed.

(* non-vacuity *)
Example dijkstra_example :
  dijkstra_nat 4 [(0%nat, 1%nat, 5); (0%nat, 1%nat, 9); (2%nat, 2%nat, 4); (1%nat, 2%nat, 1 # 2)] 0 =
  Done [Some 0; Some 5; Some (11 # 2); None].
Proof. vm_compute. reflexivity. Qed.
Example johnsons_example :
  johnsons 3 fa_edges = Some [[Some 0; Some 5; None]; [Some 5; Some 0; None]; [None; None; Some 0]].
Proof. vm_compute. reflexivity. Qed.
Example path_lengths_example :
  compute_path_lengths 4 [(0%nat, 1%nat, 0); (1%nat, 2%nat, -(3 # 2)); (1%nat, 2%nat, 1 # 2)] (3 # 2) =
  Some ([[Some 0; Some (3 # 2); Some (9 # 4); None]; [Some (3 # 2); Some 0; Some (3 # 4); None];
         [Some (9 # 4); Some (3 # 4); Some 0; None]; [None; None; None; Some 0]],
        [[None; Some 1; Some 2; Some 0]; [Some 1; None; Some 1; Some 0];
         [Some 2; Some 1; None; Some 0]; [Some 0; Some 0; Some 0; None]]%nat).
Proof. vm_compute. reflexivity. Qed.
