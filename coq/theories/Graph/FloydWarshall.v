(* C17 - Floyd-Warshall (model in FloydWarshallModel.v) computes the shortest-path metric.
   fw_loops_correct : the k,i,j loops turn any admissible initial matrix into the metric;
   fw_correct_fixed : ... for the repaired initialisation, every well-formed multigraph;
   fw_correct       : ... for the current initialisation under "no self-loop, parallel edges equal";
   fw_refuted       : the current initialisation is wrong on the witness of DESIGN 6 F-a. *)
From Adapt Require Import Num.Qaux Graph.Paths Graph.FloydWarshallModel.
Local Open Scope Q_scope.

(* ------------------------------------------------------------------ generic fold lemmas *)
Lemma fold_left_preserve {A B} (f : A -> B -> A) (Q : B -> Prop) (J : A -> Prop) :
  (forall D e, Q e -> J D -> J (f D e)) ->
  forall l, Forall Q l -> forall D, J D -> J (fold_left f l D).
Proof.
  intros Hstep l Hl. induction Hl; simpl; intros D HD; auto.
Qed.

Lemma fold_left_establish {A B} (f : A -> B -> A) (Q : B -> Prop) (J P : A -> Prop) (e : B) :
  (forall D e', Q e' -> J D -> J (f D e')) ->
  (forall D, J D -> P (f D e)) ->
  (forall D e', Q e' -> J D -> P D -> P (f D e')) ->
  forall l, Forall Q l -> In e l -> forall D, J D -> P (fold_left f l D).
Proof.
  intros HJ He HP l Hl. induction Hl as [|a l Ha Hl IH]; simpl; intros Hin D HD; [tauto|].
  destruct Hin as [->|Hin].
  - assert (H : J (f D e) /\ P (f D e)) by (split; auto).
    revert H. generalize (f D e). clear -HJ HP Hl.
    induction Hl as [|b l Hb Hl IH]; simpl; intros D' [H1 H2]; auto.
  - apply IH; auto.
Qed.

(* ------------------------------------------------------------------ the initial matrix *)
Lemma nth_map_seq {A} (f : nat -> A) n i d : (i < n)%nat -> nth i (map f (seq 0 n)) d = f i.
Proof.
  intros H. rewrite nth_indep with (d' := f 0%nat) by (rewrite map_length, seq_length; auto).
  rewrite map_nth. rewrite seq_nth; auto.
Qed.
Lemma init_matrix_shaped n : shaped n (init_matrix n).
Proof.
  unfold init_matrix. split.
  - rewrite map_length, seq_length. auto.
  - intros i Hi. rewrite nth_map_seq by auto. rewrite map_length, seq_length. auto.
Qed.
Lemma init_matrix_get n i j : (i < n)%nat -> (j < n)%nat ->
  mget (init_matrix n) i j = if Nat.eqb i j then Some 0 else None.
Proof.
  intros Hi Hj. unfold mget, init_matrix. rewrite nth_map_seq by auto. rewrite nth_map_seq by auto. reflexivity.
Qed.

Definition hits (u v a b : nat) : bool := (Nat.eqb a u && Nat.eqb b v) || (Nat.eqb a v && Nat.eqb b u).

Lemma hits_uv u v : hits u v u v = true.
Proof. unfold hits. rewrite !Nat.eqb_refl. reflexivity. Qed.
Lemma hits_vu u v : hits u v v u = true.
Proof. unfold hits. rewrite !Nat.eqb_refl. cbn [andb]. apply orb_true_r. Qed.
Lemma mget_mset2 n D u v x a b : shaped n D -> (u < n)%nat -> (v < n)%nat ->
  mget (mset (mset D v u x) u v x) a b = if hits u v a b then x else mget D a b.
Proof.
  intros HD Hu Hv. unfold hits.
  assert (S1 : shaped n (mset D v u x)) by (apply mset_shaped; auto).
  destruct (Nat.eqb_spec a u) as [Eau|Nau]; destruct (Nat.eqb_spec b v) as [Ebv|Nbv]; cbn [andb orb].
  1: subst; apply (mget_mset_same n); auto.
  all: rewrite (mget_mset_other n) by (auto; congruence);
       destruct (Nat.eqb_spec a v) as [Eav|Nav]; destruct (Nat.eqb_spec b u) as [Ebu|Nbu]; cbn [andb orb];
       [subst; apply (mget_mset_same n); auto | apply (mget_mset_other n); auto; congruence ..].
Qed.

Section FW.
  Variable n : nat.
  Variable es : list edge.
  Hypothesis Hwf : wf_graph n es.
  Let adj := adj_of es.

  Let Hnn : nonneg adj := adj_of_nonneg n es Hwf.

  Definition msound (D : matrix) : Prop :=
    forall i j x, (i < n)%nat -> (j < n)%nat -> mget D i j = Some x -> reach adj i j x.
  Definition mle (D' D : matrix) : Prop :=
    forall i j, (i < n)%nat -> (j < n)%nat -> ole (mget D' i j) (mget D i j).

  (* what the loops need from the initialisation *)
  Record init_ok (D : matrix) : Prop := {
    io_shaped : shaped n D;
    io_sound : msound D;
    io_diag : forall i, (i < n)%nat -> ole (mget D i i) (Some 0);
    io_edges : forall i j w, In (j, w) (adj i) -> ole (mget D i j) (Some w)
  }.

  Lemma mle_refl D : mle D D.
  Proof. intros i j _ _. apply ole_refl. Qed.
  Lemma mle_trans A B C : mle A B -> mle B C -> mle A C.
  Proof. intros H1 H2 i j Hi Hj. eapply ole_trans; [apply H1 | apply H2]; auto. Qed.

  (* ---------------------------------------------------------------- the j-loop on one row *)
  Lemma row_relax_length k : forall ri rk j0 dik, length (row_relax j0 k dik ri rk) = length ri.
  Proof.
    induction ri as [|dij ri IH]; intros [|dkj rk] j0 dik; cbn [row_relax length]; auto.
  Qed.

  Lemma row_relax_bounds k : forall ri rk j0 dik,
    (length ri <= length rk)%nat ->
    ((j0 <= k)%nat -> (k - j0 < length ri)%nat -> nth (k - j0) ri None = dik) ->
    forall p, (p < length ri)%nat ->
      ole (nth p (row_relax j0 k dik ri rk) None) (nth p ri None) /\
      ole (nth p (row_relax j0 k dik ri rk) None) (oplus dik (nth p rk None)).
  Proof.
    induction ri as [|dij ri IH]; intros rk j0 dik Hlen Hinv p Hp; cbn [length] in Hp; [lia|].
    destruct rk as [|dkj rk]; cbn [length] in Hlen; [lia|].
    cbn [row_relax]. destruct p as [|p].
    - cbn [nth]. unfold relax. split; [apply omin_le_l | apply omin_le_r].
    - cbn [nth].
      set (v := relax dij dik dkj).
      set (dik' := if Nat.eqb j0 k then v else dik).
      assert (Hd : ole dik' dik).
      { subst dik'. destruct (Nat.eqb_spec j0 k) as [->|Hne]; [|apply ole_refl].
        assert (E : nth (k - k) (dij :: ri) None = dik) by (apply Hinv; cbn [length]; lia).
        rewrite Nat.sub_diag in E. cbn [nth] in E. subst v. rewrite <- E at 2.
        unfold relax. apply omin_le_l. }
      assert (Hinv' : (S j0 <= k)%nat -> (k - S j0 < length ri)%nat -> nth (k - S j0) ri None = dik').
      { intros H1 H2. subst dik'. destruct (Nat.eqb_spec j0 k) as [->|Hne]; [lia|].
        assert (E : nth (k - j0) (dij :: ri) None = dik) by (apply Hinv; cbn [length]; lia).
        replace (k - j0)%nat with (S (k - S j0)) in E by lia. exact E. }
      destruct (IH rk (S j0) dik' ltac:(lia) Hinv' p ltac:(lia)) as [A B].
      split; [exact A|].
      eapply ole_trans; [exact B | apply oplus_mono; [exact Hd | apply ole_refl]].
  Qed.

  Lemma row_relax_pred k (P R : nat -> oQ -> Prop) :
    (forall j a b, P k a -> R j b -> P j (oplus a b)) ->
    forall ri rk j0 dik,
      (length ri <= length rk)%nat -> P k dik ->
      (forall p, (p < length ri)%nat -> P (j0 + p)%nat (nth p ri None)) ->
      (forall p, (p < length ri)%nat -> R (j0 + p)%nat (nth p rk None)) ->
      forall p, (p < length ri)%nat -> P (j0 + p)%nat (nth p (row_relax j0 k dik ri rk) None).
  Proof.
    intros Hcomb. induction ri as [|dij ri IH]; intros rk j0 dik Hlen Hdik HP HR p Hp; cbn [length] in Hp; [lia|].
    destruct rk as [|dkj rk]; cbn [length] in Hlen; [lia|].
    cbn [row_relax].
    assert (Hv : P j0 (relax dij dik dkj)).
    { unfold relax. destruct (omin_cases dij (oplus dik dkj)) as [-> | ->].
      - specialize (HP 0%nat ltac:(cbn [length]; lia)). rewrite Nat.add_0_r in HP. exact HP.
      - apply Hcomb; auto. specialize (HR 0%nat ltac:(cbn [length]; lia)). rewrite Nat.add_0_r in HR. exact HR. }
    destruct p as [|p]; cbn [nth].
    - rewrite Nat.add_0_r. exact Hv.
    - replace (j0 + S p)%nat with (S j0 + p)%nat by lia.
      apply IH; try lia.
      + destruct (Nat.eqb_spec j0 k) as [<-|Hne]; auto.
      + intros q Hq. specialize (HP (S q) ltac:(cbn [length]; lia)).
        replace (j0 + S q)%nat with (S j0 + q)%nat in HP by lia. exact HP.
      + intros q Hq. specialize (HR (S q) ltac:(cbn [length]; lia)).
        replace (j0 + S q)%nat with (S j0 + q)%nat in HR by lia. exact HR.
  Qed.

  (* ---------------------------------------------------------------- one row of phase k *)
  Lemma phase_row_shaped k D i : shaped n D -> (i < n)%nat -> shaped n (phase_row k D i).
  Proof.
    intros [H1 H2] Hi. unfold phase_row. split.
    - rewrite upd_nth_length. auto.
    - intros a Ha. destruct (Nat.eq_dec i a) as [->|Hne].
      + rewrite nth_upd_nth_same by lia. rewrite row_relax_length. auto.
      + rewrite nth_upd_nth_other by auto. auto.
  Qed.
  Lemma phase_row_other k D i a b : a <> i -> mget (phase_row k D i) a b = mget D a b.
  Proof. intros H. unfold mget, phase_row. rewrite nth_upd_nth_other by auto. reflexivity. Qed.
  Lemma phase_row_same k D i b : shaped n D -> (i < n)%nat ->
    mget (phase_row k D i) i b = nth b (row_relax 0 k (mget D i k) (nth i D []) (nth k D [])) None.
  Proof. intros [H1 H2] Hi. unfold mget, phase_row. rewrite nth_upd_nth_same by lia. reflexivity. Qed.

  Lemma phase_row_bounds k D i j : shaped n D -> (i < n)%nat -> (k < n)%nat -> (j < n)%nat ->
    ole (mget (phase_row k D i) i j) (mget D i j) /\
    ole (mget (phase_row k D i) i j) (oplus (mget D i k) (mget D k j)).
  Proof.
    intros HD Hi Hk Hj. rewrite phase_row_same by auto. destruct HD as [H1 H2].
    apply row_relax_bounds.
    - rewrite !H2; auto.
    - intros _ _. rewrite Nat.sub_0_r. reflexivity.
    - rewrite H2; auto.
  Qed.

  Lemma phase_row_mle k D i : shaped n D -> (i < n)%nat -> (k < n)%nat -> mle (phase_row k D i) D.
  Proof.
    intros HD Hi Hk a b Ha Hb. destruct (Nat.eq_dec a i) as [->|Hne].
    - apply phase_row_bounds; auto.
    - rewrite phase_row_other by auto. apply ole_refl.
  Qed.

  Lemma phase_row_sound k D i : shaped n D -> (i < n)%nat -> (k < n)%nat -> msound D -> msound (phase_row k D i).
  Proof.
    intros HD Hi Hk Hs a b x Ha Hb. destruct (Nat.eq_dec a i) as [->|Hne].
    - rewrite phase_row_same by auto. destruct HD as [H1 H2].
      pose proof (row_relax_pred k
        (fun j o => (j < n)%nat -> forall x, o = Some x -> reach adj i j x)
        (fun j o => (j < n)%nat -> forall x, o = Some x -> reach adj k j x)) as L.
      specialize (L ltac:(intros j a b' Pa Rb Hj y Hy; apply oplus_some in Hy;
                          destruct Hy as (p & q & -> & -> & Hpq);
                          eapply reach_eq; [eapply reach_app; [apply Pa | apply Rb]; eauto | lra])).
      specialize (L (nth i D []) (nth k D []) 0%nat (mget D i k)).
      cbn [Nat.add] in L. intros Hx.
      assert (L1 : (length (nth i D []) <= length (nth k D []))%nat) by (rewrite !H2; auto).
      assert (L2 : (k < n)%nat -> forall y, mget D i k = Some y -> reach adj i k y) by (intros _ y Hy; apply Hs; auto).
      assert (L3 : forall p, (p < length (nth i D []))%nat -> (p < n)%nat -> forall y, nth p (nth i D []) None = Some y -> reach adj i p y)
        by (intros p _ Hp y Hy; apply Hs; auto).
      assert (L4 : forall p, (p < length (nth i D []))%nat -> (p < n)%nat -> forall y, nth p (nth k D []) None = Some y -> reach adj k p y)
        by (intros p _ Hp y Hy; apply Hs; auto).
      apply (L L1 L2 L3 L4 b ltac:(rewrite H2; auto) Hb x Hx).
    - rewrite phase_row_other by auto. apply Hs; auto.
  Qed.

  (* ---------------------------------------------------------------- phase k: all rows *)
  Lemma phase_fold k : (k < n)%nat -> forall l, Forall (fun i => (i < n)%nat) l -> forall D,
    shaped n D -> msound D ->
    let D' := fold_left (phase_row k) l D in
    shaped n D' /\ msound D' /\ mle D' D /\
    forall i j, In i l -> (j < n)%nat -> ole (mget D' i j) (oplus (mget D i k) (mget D k j)).
  Proof.
    intros Hk l Hl. induction Hl as [|a l Ha Hl IH]; intros D HD Hs; cbn [fold_left]; cbv zeta.
    - split; [auto | split; [auto | split; [apply mle_refl | intros i j []]]].
    - pose proof (phase_row_shaped k D a HD Ha) as HD1.
      pose proof (phase_row_sound k D a HD Ha Hk Hs) as Hs1.
      pose proof (phase_row_mle k D a HD Ha Hk) as Hm1.
      destruct (IH _ HD1 Hs1) as (A & B & C & E).
      split; [exact A | split; [exact B | split]].
      + eapply mle_trans; eauto.
      + intros i j [<-|Hin] Hj.
        * eapply ole_trans; [apply C; auto|]. apply phase_row_bounds; auto.
        * assert (Hi : (i < n)%nat) by (rewrite Forall_forall in Hl; auto).
          eapply ole_trans; [apply E; auto|]. apply oplus_mono; apply Hm1; auto.
  Qed.

  Lemma seq_lt m : Forall (fun i => (i < m)%nat) (seq 0 m).
  Proof. apply Forall_forall. intros x Hx. apply in_seq in Hx. lia. Qed.

  Lemma phase_props k D : (k < n)%nat -> shaped n D -> msound D ->
    shaped n (phase n k D) /\ msound (phase n k D) /\ mle (phase n k D) D /\
    forall i j, (i < n)%nat -> (j < n)%nat -> ole (mget (phase n k D) i j) (oplus (mget D i k) (mget D k j)).
  Proof.
    intros Hk HD Hs. destruct (phase_fold k Hk (seq 0 n) (seq_lt n) D HD Hs) as (A & B & C & E).
    split; [exact A | split; [exact B | split; [exact C|]]]. intros i j Hi Hj. apply E; auto. apply in_seq. lia.
  Qed.

  (* ---------------------------------------------------------------- walks with bounded intermediate vertices *)
  Lemma Qplus_nonneg_nonneg' a b : 0 <= a -> 0 <= b -> 0 <= a + b.
  Proof. intros. lra. Qed.

  Inductive rwalk (k : nat) : nat -> nat -> Q -> Prop :=
  | rw_nil i : rwalk k i i 0
  | rw_edge i j w : In (j, w) (adj i) -> rwalk k i j w
  | rw_trans i m j l1 l2 : (m < k)%nat -> rwalk k i m l1 -> rwalk k m j l2 -> rwalk k i j (l1 + l2).

  Lemma rwalk_nonneg k i j l : rwalk k i j l -> 0 <= l.
  Proof. induction 1; [apply Qle_refl | eapply Hnn; eauto | apply Qplus_nonneg_nonneg'; auto]. Qed.

  Lemma rwalk_split k i j l : rwalk (S k) i j l ->
    (exists l', rwalk k i j l' /\ l' <= l) \/
    (exists l1 l2, rwalk k i k l1 /\ rwalk k k j l2 /\ l1 + l2 <= l).
  Proof.
    induction 1 as [i | i j w Hin | i m j l1 l2 Hm W1 IH1 W2 IH2].
    - left. exists 0. split; [constructor | lra].
    - left. exists w. split; [constructor; auto | lra].
    - assert (Hm' : (m < k)%nat \/ m = k) by lia.
      destruct IH1 as [(a & Wa & La) | (a1 & a2 & Wa1 & Wa2 & La)];
      destruct IH2 as [(b & Wb & Lb) | (b1 & b2 & Wb1 & Wb2 & Lb)].
      + destruct Hm' as [Hlt | ->].
        * left. exists (a + b). split; [eapply rw_trans; eauto | lra].
        * right. exists a, b. repeat split; auto. lra.
      + pose proof (rwalk_nonneg _ _ _ _ Wb1). destruct Hm' as [Hlt | ->].
        * right. exists (a + b1), b2. repeat split; auto; [eapply rw_trans; eauto | lra].
        * right. exists a, b2. repeat split; auto. lra.
      + pose proof (rwalk_nonneg _ _ _ _ Wa2). destruct Hm' as [Hlt | ->].
        * right. exists a1, (a2 + b). repeat split; auto; [eapply rw_trans; eauto | lra].
        * right. exists a1, b. repeat split; auto. lra.
      + pose proof (rwalk_nonneg _ _ _ _ Wa2). pose proof (rwalk_nonneg _ _ _ _ Wb1).
        right. exists a1, b2. repeat split; auto. lra.
  Qed.

  Lemma walk_rwalk i j l : walk adj i j l -> rwalk n i j l.
  Proof.
    induction 1 as [u | u v t w l Hin W IH].
    - constructor.
    - apply rw_trans with (m := v); auto.
      + eapply adj_of_range; eauto.
      + constructor; auto.
  Qed.

  (* ---------------------------------------------------------------- the k-loop *)
  Record fw_inv (k : nat) (D : matrix) : Prop := {
    fi_shaped : shaped n D;
    fi_sound : msound D;
    fi_diag : forall i, (i < n)%nat -> ole (mget D i i) (Some 0);
    fi_rwalk : forall i j l, (i < n)%nat -> (j < n)%nat -> rwalk k i j l -> ole (mget D i j) (Some l)
  }.

  Lemma fw_inv_0 D : init_ok D -> fw_inv 0 D.
  Proof.
    intros [A B C E]. split; auto.
    intros i j l Hi Hj W. inversion W; subst.
    - apply C; auto.
    - apply E; auto.
    - lia.
  Qed.

  Lemma fw_inv_step k D : (k < n)%nat -> fw_inv k D -> fw_inv (S k) (phase n k D).
  Proof.
    intros Hk [A B C E]. destruct (phase_props k D Hk A B) as (A' & B' & C' & E').
    split; auto.
    - intros i Hi. eapply ole_trans; [apply C'; auto | apply C; auto].
    - intros i j l Hi Hj W. apply rwalk_split in W.
      destruct W as [(l' & W' & Hl) | (l1 & l2 & W1 & W2 & Hl)].
      + eapply ole_trans; [apply C'; auto|]. eapply ole_trans; [apply E; eauto|]. simpl. exact Hl.
      + eapply ole_trans; [apply E'; auto|].
        pose proof (E _ _ _ Hi Hk W1) as H1. pose proof (E _ _ _ Hk Hj W2) as H2.
        apply ole_some_inv in H1. destruct H1 as (x1 & -> & Hx1).
        apply ole_some_inv in H2. destruct H2 as (x2 & -> & Hx2).
        cbn [oplus ole]. pose proof (Qred_correct (x1 + x2)). lra.
  Qed.

  Lemma fw_loops_inv D : init_ok D -> fw_inv n (fw_loops n D).
  Proof.
    intros H0. unfold fw_loops.
    assert (G : forall m, (m <= n)%nat -> fw_inv m (fold_left (fun D k => phase n k D) (seq 0 m) D)).
    { induction m as [|m IH]; intros Hm.
      - simpl. apply fw_inv_0; auto.
      - rewrite seq_S, fold_left_app. cbn [fold_left Nat.add]. apply fw_inv_step; [lia | apply IH; lia]. }
    apply G. lia.
  Qed.

  Theorem fw_loops_correct D : init_ok D ->
    forall i j, (i < n)%nat -> (j < n)%nat -> dist adj i j (mget (fw_loops n D) i j).
  Proof.
    intros H0 i j Hi Hj. destruct (fw_loops_inv D H0) as [A B C E].
    destruct (mget (fw_loops n D) i j) as [x|] eqn:Ex; cbn [dist].
    - split; [apply B; auto|]. intros l W. apply walk_rwalk in W.
      pose proof (E _ _ _ Hi Hj W) as H. rewrite Ex in H. exact H.
    - intros l W. apply walk_rwalk in W. pose proof (E _ _ _ Hi Hj W) as H. rewrite Ex in H. exact H.
  Qed.

  Lemma fw_loops_shaped D : init_ok D -> shaped n (fw_loops n D).
  Proof. intros H. apply (fi_shaped _ _ (fw_loops_inv D H)). Qed.

  (* consequences that only use `dist` *)
  Lemma dist_diag_zero o i : dist adj i i o -> oeq o (Some 0).
  Proof. intros H. eapply dist_unique; [exact H | apply dist_self; exact Hnn]. Qed.
  Lemma dist_symmetric a b i j : dist adj i j a -> dist adj j i b -> oeq a b.
  Proof.
    intros H1 H2. eapply dist_unique; [exact H1|]. apply dist_sym; [apply adj_of_symmetric | exact H2].
  Qed.

  (* ---------------------------------------------------------------- the repaired initialisation *)
  Lemma edge_reach u v w : In (u, v, w) es -> reach adj u v w /\ reach adj v u w.
  Proof.
    intros H. split; apply reach_edge; apply adj_of_spec; exists u, v; auto.
  Qed.

  Record initf_inv (D : matrix) : Prop := {
    if_shaped : shaped n D;
    if_sound : msound D;
    if_diag : forall i, (i < n)%nat -> mget D i i = Some 0;
    if_sym : forall i j, (i < n)%nat -> (j < n)%nat -> mget D i j = mget D j i
  }.

  Lemma hits_sym u v a b : hits u v a b = hits u v b a.
  Proof.
    unfold hits. destruct (Nat.eqb a u), (Nat.eqb b v), (Nat.eqb a v), (Nat.eqb b u); reflexivity.
  Qed.
  Lemma hits_diag u v a : u <> v -> hits u v a a = false.
  Proof.
    intros H. unfold hits. destruct (Nat.eqb_spec a u), (Nat.eqb_spec a v); simpl; auto. congruence.
  Qed.
  Lemma hits_true u v a b : hits u v a b = true -> (a = u /\ b = v) \/ (a = v /\ b = u).
  Proof.
    unfold hits. destruct (Nat.eqb_spec a u), (Nat.eqb_spec b v), (Nat.eqb_spec a v), (Nat.eqb_spec b u);
      simpl; intros; try discriminate; auto.
  Qed.

  Lemma initf_init : initf_inv (init_matrix n).
  Proof.
    split.
    - apply init_matrix_shaped.
    - intros i j x Hi Hj. rewrite init_matrix_get by auto.
      destruct (Nat.eqb_spec i j) as [->|]; [|discriminate]. intros H. injection H as <-. apply reach_refl.
    - intros i Hi. rewrite init_matrix_get by auto. rewrite Nat.eqb_refl. reflexivity.
    - intros i j Hi Hj. rewrite !init_matrix_get by auto. rewrite (Nat.eqb_sym j i). reflexivity.
  Qed.

  Lemma initf_step D e : In e es -> initf_inv D -> initf_inv (fw_init_step_fixed D e).
  Proof.
    destruct e as [[u v] w]. intros Hin [A B C S]. unfold fw_init_step_fixed.
    destruct (negb (Nat.eqb u v) && oltb (Some w) (mget D u v)) eqn:Ec; [|split; auto].
    apply andb_true_iff in Ec. destruct Ec as [Ene Elt]. apply negb_true_iff in Ene. apply Nat.eqb_neq in Ene.
    destruct (Hwf _ _ _ Hin) as (Hu & Hv & Hw). destruct (edge_reach _ _ _ Hin) as [R1 R2].
    split.
    - apply mset_shaped, mset_shaped; auto.
    - intros a b x Ha Hb. rewrite (mget_mset2 n) by auto.
      destruct (hits u v a b) eqn:Eh; [|apply B; auto].
      intros H. injection H as <-. apply hits_true in Eh. destruct Eh as [[-> ->]|[-> ->]]; auto.
    - intros a Ha. rewrite (mget_mset2 n) by auto. rewrite hits_diag by auto. apply C; auto.
    - intros a b Ha Hb. rewrite !(mget_mset2 n) by auto. rewrite (hits_sym u v b a).
      destruct (hits u v a b); auto.
  Qed.

  Lemma initf_step_mle D e : In e es -> initf_inv D -> mle (fw_init_step_fixed D e) D.
  Proof.
    destruct e as [[u v] w]. intros Hin [A B C S]. unfold fw_init_step_fixed.
    destruct (negb (Nat.eqb u v) && oltb (Some w) (mget D u v)) eqn:Ec; [|apply mle_refl].
    apply andb_true_iff in Ec. destruct Ec as [Ene Elt].
    destruct (Hwf _ _ _ Hin) as (Hu & Hv & Hw).
    apply oltb_true in Elt. destruct Elt as [Elt _].
    intros a b Ha Hb. rewrite (mget_mset2 n) by auto.
    destruct (hits u v a b) eqn:Eh; [|apply ole_refl].
    apply hits_true in Eh. destruct Eh as [[-> ->]|[-> ->]]; auto. rewrite S; auto.
  Qed.

  Lemma fw_init_fixed_inv : initf_inv (fw_init_fixed n es).
  Proof.
    unfold fw_init_fixed. apply fold_left_preserve with (Q := fun e => In e es).
    - intros D e He HD. apply initf_step; auto.
    - apply Forall_forall. auto.
    - apply initf_init.
  Qed.

  Lemma fw_init_fixed_edge u v w : In (u, v, w) es -> u <> v ->
    ole (mget (fw_init_fixed n es) u v) (Some w) /\ ole (mget (fw_init_fixed n es) v u) (Some w).
  Proof.
    intros Hin Hne. destruct (Hwf _ _ _ Hin) as (Hu & Hv & Hw). unfold fw_init_fixed.
    apply fold_left_establish with (Q := fun e => In e es) (J := initf_inv) (e := (u, v, w))
      (P := fun D => ole (mget D u v) (Some w) /\ ole (mget D v u) (Some w)).
    - intros D e He HD. apply initf_step; auto.
    - intros D HD. unfold fw_init_step_fixed.
      destruct (negb (Nat.eqb u v) && oltb (Some w) (mget D u v)) eqn:Ec.
      + rewrite !(mget_mset2 n) by (auto; apply (if_shaped _ HD)).
        rewrite hits_uv, hits_vu. split; apply ole_refl.
      + apply andb_false_iff in Ec. destruct Ec as [Ec|Ec].
        * apply negb_false_iff, Nat.eqb_eq in Ec. congruence.
        * apply oltb_false in Ec. rewrite <- (if_sym _ HD u v) by auto. auto.
    - intros D e He HD [P1 P2]. pose proof (initf_step_mle D e He HD) as Hm.
      split; (eapply ole_trans; [apply Hm; auto | auto]).
    - apply Forall_forall. auto.
    - exact Hin.
    - apply initf_init.
  Qed.

  Lemma fw_init_fixed_ok : init_ok (fw_init_fixed n es).
  Proof.
    pose proof fw_init_fixed_inv as [A B C S]. split; auto.
    - intros i Hi. rewrite C by auto. apply ole_refl.
    - intros i j w Hin. apply adj_of_spec in Hin. destruct Hin as (u & v & Hin & Huv).
      destruct (Hwf _ _ _ Hin) as (Hu & Hv & Hw).
      destruct (Nat.eq_dec u v) as [->|Hne].
      + assert (i = v /\ j = v) as [-> ->] by (destruct Huv as [[] | []]; subst; auto).
        rewrite C by auto. exact Hw.
      + destruct (fw_init_fixed_edge u v w Hin Hne) as [P1 P2].
        destruct Huv as [[<- <-] | [<- <-]]; auto.
  Qed.

  Theorem fw_correct_fixed i j : (i < n)%nat -> (j < n)%nat -> dist adj i j (mget (fw_fixed n es) i j).
  Proof. apply fw_loops_correct. apply fw_init_fixed_ok. Qed.

  (* ---------------------------------------------------------------- the current initialisation *)
  Definition no_self_loops : Prop := forall u v w, In (u, v, w) es -> u <> v.
  Definition parallel_equal : Prop :=
    forall u v w u' v' w', In (u, v, w) es -> In (u', v', w') es ->
      (u = u' /\ v = v') \/ (u = v' /\ v = u') -> w == w'.

  Hypothesis Hnsl : no_self_loops.
  Hypothesis Hpar : parallel_equal.

  Record initc_inv (D : matrix) : Prop := {
    ic_shaped : shaped n D;
    ic_diag : forall i, (i < n)%nat -> mget D i i = Some 0;
    ic_edge : forall i j x, (i < n)%nat -> (j < n)%nat -> i <> j -> mget D i j = Some x -> In (j, x) (adj i)
  }.

  Lemma initc_init : initc_inv (init_matrix n).
  Proof.
    split.
    - apply init_matrix_shaped.
    - intros i Hi. rewrite init_matrix_get by auto. rewrite Nat.eqb_refl. reflexivity.
    - intros i j x Hi Hj Hne. rewrite init_matrix_get by auto.
      destruct (Nat.eqb_spec i j); [congruence | discriminate].
  Qed.

  Lemma initc_step D e : In e es -> initc_inv D -> initc_inv (fw_init_step_current D e).
  Proof.
    destruct e as [[u v] w]. intros Hin [A C E]. unfold fw_init_step_current.
    destruct (Hwf _ _ _ Hin) as (Hu & Hv & Hw). pose proof (Hnsl _ _ _ Hin) as Hne.
    split.
    - apply mset_shaped, mset_shaped; auto.
    - intros a Ha. rewrite (mget_mset2 n) by auto. rewrite hits_diag by auto. apply C; auto.
    - intros a b x Ha Hb Hab. rewrite (mget_mset2 n) by auto.
      destruct (hits u v a b) eqn:Eh; [|apply E; auto].
      intros H. injection H as <-. apply hits_true in Eh. apply adj_of_spec. exists u, v. split; auto.
      destruct Eh as [[-> ->]|[-> ->]]; auto.
  Qed.

  Lemma fw_init_current_inv : initc_inv (fw_init_current n es).
  Proof.
    unfold fw_init_current. apply fold_left_preserve with (Q := fun e => In e es).
    - intros D e He HD. apply initc_step; auto.
    - apply Forall_forall. auto.
    - apply initc_init.
  Qed.

  Lemma fw_init_current_edge u v w : In (u, v, w) es ->
    (exists x, mget (fw_init_current n es) u v = Some x) /\ (exists y, mget (fw_init_current n es) v u = Some y).
  Proof.
    intros Hin. destruct (Hwf _ _ _ Hin) as (Hu & Hv & Hw). unfold fw_init_current.
    apply fold_left_establish with (Q := fun e => In e es) (J := initc_inv) (e := (u, v, w))
      (P := fun D => (exists x, mget D u v = Some x) /\ (exists y, mget D v u = Some y)).
    - intros D e He HD. apply initc_step; auto.
    - intros D HD. unfold fw_init_step_current.
      rewrite !(mget_mset2 n) by (auto; apply (ic_shaped _ HD)).
      rewrite hits_uv, hits_vu. split; eauto.
    - intros D [[u' v'] w'] He HD [(x & P1) (y & P2)]. unfold fw_init_step_current.
      destruct (Hwf _ _ _ He) as (Hu' & Hv' & Hw').
      rewrite !(mget_mset2 n) by (auto; apply (ic_shaped _ HD)).
      split; [destruct (hits u' v' u v) | destruct (hits u' v' v u)]; eauto.
    - apply Forall_forall. auto.
    - exact Hin.
    - apply initc_init.
  Qed.

  Lemma adj_weight_unique i j x w : In (j, x) (adj i) -> In (j, w) (adj i) -> x == w.
  Proof.
    intros H1 H2. apply adj_of_spec in H1, H2.
    destruct H1 as (u & v & Hin & Huv). destruct H2 as (u' & v' & Hin' & Huv').
    apply (Hpar _ _ _ _ _ _ Hin Hin').
    destruct Huv as [[-> ->]|[-> ->]]; destruct Huv' as [[-> ->]|[-> ->]]; auto.
  Qed.

  Lemma fw_init_current_ok : init_ok (fw_init_current n es).
  Proof.
    pose proof fw_init_current_inv as [A C E]. split; auto.
    - intros i j x Hi Hj. destruct (Nat.eq_dec i j) as [->|Hne].
      + rewrite C by auto. intros H. injection H as <-. apply reach_refl.
      + intros H. apply reach_edge. apply E; auto.
    - intros i Hi. rewrite C by auto. apply ole_refl.
    - intros i j w Hin. pose proof Hin as Hin0. apply adj_of_spec in Hin. destruct Hin as (u & v & Hin & Huv).
      destruct (Hwf _ _ _ Hin) as (Hu & Hv & Hw). pose proof (Hnsl _ _ _ Hin) as Hne.
      destruct (fw_init_current_edge u v w Hin) as [(x & P1) (y & P2)].
      destruct Huv as [[<- <-] | [<- <-]].
      + rewrite P1. cbn [ole]. apply E in P1; auto. pose proof (adj_weight_unique _ _ _ _ P1 Hin0). lra.
      + rewrite P2. cbn [ole]. apply E in P2; auto. pose proof (adj_weight_unique _ _ _ _ P2 Hin0). lra.
  Qed.

  Theorem fw_correct i j : (i < n)%nat -> (j < n)%nat -> dist adj i j (mget (fw_current n es) i j).
  Proof. apply fw_loops_correct. apply fw_init_current_ok. Qed.
End FW.

(* ------------------------------------------------------------------ corollaries in closed form *)
Theorem fw_fixed_diag_zero n es i : wf_graph n es -> (i < n)%nat -> oeq (mget (fw_fixed n es) i i) (Some 0).
Proof. intros H Hi. eapply dist_diag_zero; eauto. apply fw_correct_fixed; auto. Qed.
Theorem fw_fixed_symmetric n es i j : wf_graph n es -> (i < n)%nat -> (j < n)%nat ->
  oeq (mget (fw_fixed n es) i j) (mget (fw_fixed n es) j i).
Proof. intros H Hi Hj. eapply dist_symmetric; eauto; apply fw_correct_fixed; auto. Qed.
Theorem fw_diag_zero n es i : wf_graph n es -> no_self_loops es -> parallel_equal es -> (i < n)%nat ->
  oeq (mget (fw_current n es) i i) (Some 0).
Proof. intros H H1 H2 Hi. eapply dist_diag_zero; eauto. apply fw_correct; auto. Qed.
Theorem fw_symmetric n es i j : wf_graph n es -> no_self_loops es -> parallel_equal es -> (i < n)%nat -> (j < n)%nat ->
  oeq (mget (fw_current n es) i j) (mget (fw_current n es) j i).
Proof. intros H H1 H2 Hi Hj. eapply dist_symmetric; eauto; apply fw_correct; auto. Qed.

(* ------------------------------------------------------------------ F-a: the current initialisation is wrong *)
Definition fa_edges : list edge := [(0%nat, 1%nat, 5); (0%nat, 1%nat, 9); (2%nat, 2%nat, 4)].

Lemma fa_wf : wf_graph 3 fa_edges.
Proof.
  intros u v w H. simpl in H.
  destruct H as [H|[H|[H|[]]]]; inversion H; subst; repeat split; try lia; lra.
Qed.

Lemma fa_values :
  mget (fw_current 3 fa_edges) 0 1 = Some 9 /\ mget (fw_current 3 fa_edges) 2 2 = Some 4 /\
  mget (fw_fixed 3 fa_edges) 0 1 = Some 5 /\ mget (fw_fixed 3 fa_edges) 2 2 = Some 0.
Proof. vm_compute. repeat split; reflexivity. Qed.

(* the last parallel edge wins: D[0][1] = 9 although the edge of weight 5 is a shorter walk;
   and the self-loop overwrites the diagonal: D[2][2] = 4 although the empty walk has length 0 *)
Theorem fw_refuted :
  exists n es i j, wf_graph n es /\ (i < n)%nat /\ (j < n)%nat /\ ~ dist (adj_of es) i j (mget (fw_current n es) i j).
Proof.
  exists 3%nat, fa_edges, 0%nat, 1%nat. split; [apply fa_wf|]. split; [lia|]. split; [lia|].
  destruct fa_values as (E & _). rewrite E. intros [_ Hmin].
  assert (W : walk (adj_of fa_edges) 0%nat 1%nat (5 + 0)).
  { econstructor; [|constructor]. simpl. auto. }
  specialize (Hmin _ W). lra.
Qed.
Theorem fw_refuted_diag :
  exists n es i, wf_graph n es /\ (i < n)%nat /\ ~ oeq (mget (fw_current n es) i i) (Some 0).
Proof.
  exists 3%nat, fa_edges, 2%nat. split; [apply fa_wf|]. split; [lia|].
  destruct fa_values as (_ & E & _). rewrite E. simpl. lra.
Qed.

(* non-vacuity: the hypotheses of fw_correct / fw_correct_fixed hold on concrete non-trivial graphs and the
   conclusions pin the values *)
Definition ex_edges : list edge := [(0%nat, 1%nat, 2); (1%nat, 2%nat, 3 # 2); (0%nat, 2%nat, 5); (1%nat, 0%nat, 2)].
Example ex_wf : wf_graph 4 ex_edges.
Proof.
  intros u v w H. simpl in H.
  destruct H as [H|[H|[H|[H|[]]]]]; inversion H; subst; repeat split; try lia; lra.
Qed.
Example ex_nsl : no_self_loops ex_edges.
Proof. intros u v w H. simpl in H. destruct H as [H|[H|[H|[H|[]]]]]; inversion H; subst; lia. Qed.
Example ex_par : parallel_equal ex_edges.
Proof.
  intros u v w u' v' w' H H'. simpl in H, H'.
  destruct H as [H|[H|[H|[H|[]]]]]; inversion H; subst;
  destruct H' as [H'|[H'|[H'|[H'|[]]]]]; inversion H'; subst; intros [[? ?]|[? ?]]; try lia; lra.
Qed.
Example ex_fw_current : dist (adj_of ex_edges) 0%nat 2%nat (Some (7 # 2)) /\ dist (adj_of ex_edges) 0%nat 3%nat None.
Proof.
  split.
  - pose proof (fw_correct 4 ex_edges ex_wf ex_nsl ex_par 0 2 ltac:(lia) ltac:(lia)) as H.
    assert (E : mget (fw_current 4 ex_edges) 0 2 = Some (7 # 2)) by (vm_compute; reflexivity).
    rewrite E in H. exact H.
  - pose proof (fw_correct 4 ex_edges ex_wf ex_nsl ex_par 0 3 ltac:(lia) ltac:(lia)) as H.
    assert (E : mget (fw_current 4 ex_edges) 0 3 = None) by (vm_compute; reflexivity).
    rewrite E in H. exact H.
Qed.
Example ex_fw_fixed_on_fa : dist (adj_of fa_edges) 0%nat 1%nat (Some 5) /\ dist (adj_of fa_edges) 2%nat 2%nat (Some 0) /\ dist (adj_of fa_edges) 0%nat 2%nat None.
Proof.
  repeat split.
  - pose proof (fw_correct_fixed 3 fa_edges fa_wf 0 1 ltac:(lia) ltac:(lia)) as H.
    assert (E : mget (fw_fixed 3 fa_edges) 0 1 = Some 5) by (vm_compute; reflexivity). rewrite E in H. apply H.
  - pose proof (fw_correct_fixed 3 fa_edges fa_wf 0 1 ltac:(lia) ltac:(lia)) as H.
    assert (E : mget (fw_fixed 3 fa_edges) 0 1 = Some 5) by (vm_compute; reflexivity). rewrite E in H. apply H.
  - apply reach_refl.
  - intros l W. eapply walk_nonneg; [eapply adj_of_nonneg; apply fa_wf | exact W].
  - pose proof (fw_correct_fixed 3 fa_edges fa_wf 0 2 ltac:(lia) ltac:(lia)) as H.
    assert (E : mget (fw_fixed 3 fa_edges) 0 2 = None) by (vm_compute; reflexivity). rewrite E in H. exact H.
Qed.
