(* C17 - the pairing heap (PairingHeapModel.v): for every sequence of insert / deleteMin / decreaseKey / merge
   the structure stays heap ordered, findMin / extractMin return an element that no stored element is less than,
   and every operation has exactly its multiset effect on the stored (node identity, element) pairs.
   lt is the comparator; it is only assumed to be asymmetric and negatively transitive (a strict weak order,
   e.g. `<` on keys with ties). *)
From Coq Require Import List Bool Arith Lia Permutation.
Import ListNotations.
From Adapt Require Import Graph.PairingHeapModel.

Lemma NoDup_app_intro {A} (a b : list A) :
  NoDup a -> NoDup b -> (forall x, In x a -> ~ In x b) -> NoDup (a ++ b).
Proof.
  induction a as [|x a IH]; simpl; intros Ha Hb Hd; auto.
  inversion Ha; subst. constructor.
  - rewrite in_app_iff. intros [H | H]; auto. eapply Hd; eauto.
  - apply IH; auto.
Qed.

Section HeapProofs.
  Variable E : Type.
  Variable lt : E -> E -> bool.
  Hypothesis lt_asym : forall x y, lt x y = true -> lt y x = false.
  Hypothesis nlt_trans : forall x y z, lt x y = false -> lt y z = false -> lt x z = false.

  Notation node := (node E).
  Notation heap := (heap E).
  Notation link := (link E lt).
  Notation elems := (elems E).

  Lemma lt_irrefl x : lt x x = false.
  Proof. destruct (lt x x) eqn:H; auto. apply lt_asym in H as H'. congruence. Qed.

  Definition bound_ok (p : option E) (x : E) : Prop :=
    match p with None => True | Some y => lt x y = false end.

  (* heap order along a sibling chain whose parent has element p *)
  Fixpoint ho (p : option E) (t : node) : Prop :=
    match t with
    | Nil => True
    | Node i x l s => bound_ok p x /\ ho (Some x) l /\ ho p s
    end.

  Definition ids (t : node) : list nat := map fst (elems t).
  Definition detached (t : node) : Prop := match t with Node _ _ _ Nil => True | _ => False end.
  Definition hroot (t : node) : Prop := match t with Nil => True | Node _ _ _ s => s = Nil end.

  Record hinv (h : heap) : Prop := {
    hi_ho : ho None (root E h);
    hi_root : hroot (root E h);
    hi_nodup : NoDup (ids (root E h));
    hi_count : counter E h = length (elems (root E h))
  }.

  Lemma bound_weaken p x y : bound_ok (Some x) y -> bound_ok p x -> bound_ok p y.
  Proof. destruct p as [z|]; simpl; auto. intros H1 H2. eapply nlt_trans; eauto. Qed.

  Lemma ho_weaken p q t : (forall x, bound_ok p x -> bound_ok q x) -> ho p t -> ho q t.
  Proof.
    intros H. induction t as [|i x l IHl s IHs]; simpl; auto.
    intros (A & B & C). repeat split; auto.
  Qed.
  Lemma ho_none p t : ho p t -> ho None t.
  Proof. apply ho_weaken. simpl. auto. Qed.
  Lemma ho_lower x y t : lt x y = false -> ho (Some x) t -> ho (Some y) t.
  Proof. intros H. apply ho_weaken. simpl. intros z Hz. eapply nlt_trans; eauto. Qed.

  Lemma ho_all p t : ho p t -> forall i y, In (i, y) (elems t) -> bound_ok p y.
  Proof.
    revert p. induction t as [|i x l IHl s IHs]; intros p; simpl; [tauto|].
    intros (A & B & C) j y [H | H].
    - injection H as <- <-. auto.
    - apply in_app_or in H. destruct H as [H | H].
      + eapply bound_weaken; [eapply IHl; eauto | auto].
      + eapply IHs; eauto.
  Qed.

  (* ---------------------------------------------------------------- compareAndLink *)
  Lemma link_ho p a b : a <> Nil -> b <> Nil -> ho p a -> ho p b -> ho p (link a b).
  Proof.
    destruct a as [|ia xa la sa], b as [|ib xb lb sb]; try congruence. intros _ _.
    simpl. intros (A1 & A2 & A3) (B1 & B2 & B3).
    destruct (lt xb xa) eqn:E1; simpl; repeat split; auto.
  Qed.

  Lemma link_elems a b : detached a -> b <> Nil ->
    Permutation (elems (link a b)) (elems a ++ elems b).
  Proof.
    destruct a as [|ia xa la [|]], b as [|ib xb lb sb]; simpl; try tauto; try congruence. intros _ _.
    destruct (lt xb xa); simpl; rewrite ?app_nil_r, <- ?app_assoc.
    - rewrite perm_swap. apply perm_skip. simpl. apply Permutation_middle.
    - apply perm_skip.
      eapply Permutation_trans; [|apply Permutation_middle]. apply perm_skip.
      rewrite !app_assoc. apply Permutation_app_tail. apply Permutation_app_comm.
  Qed.

  Lemma link_detached a b : a <> Nil -> detached b -> detached (link a b).
  Proof.
    destruct a as [|ia xa la sa], b as [|ib xb lb [|]]; simpl; try tauto; try congruence. intros _ _.
    destruct (lt xb xa); simpl; auto.
  Qed.
  Lemma detached_not_nil t : detached t -> t <> Nil.
  Proof. destruct t; simpl; [tauto | congruence]. Qed.

  (* ---------------------------------------------------------------- combineSiblings *)
  Definition all_elems (ts : list node) : list (nat * E) := concat (map elems ts).

  Lemma siblings_spec p t : ho p t ->
    Forall detached (siblings E t) /\ Forall (ho p) (siblings E t) /\ all_elems (siblings E t) = elems t.
  Proof.
    induction t as [|i x l IHl s IHs]; simpl.
    - intros _. repeat split; constructor.
    - intros (A & B & C). destruct (IHs C) as (D1 & D2 & D3). repeat split.
      + constructor; simpl; auto.
      + constructor; simpl; auto.
      + unfold all_elems in *. simpl. rewrite D3, app_nil_r. reflexivity.
  Qed.

  Lemma list_pair_ind {A} (P : list A -> Prop) :
    P [] -> (forall a, P [a]) -> (forall a b l, P l -> P (a :: b :: l)) -> forall l, P l.
  Proof.
    intros H0 H1 H2.
    assert (G : forall l, P l /\ forall a, P (a :: l)).
    { induction l as [|b l [IH1 IH2]]; split; auto. }
    intros l. apply G.
  Qed.

  Lemma pass1_spec p : forall ts, Forall detached ts -> Forall (ho p) ts ->
    Forall detached (pass1 E lt ts) /\ Forall (ho p) (pass1 E lt ts) /\
    Permutation (all_elems (pass1 E lt ts)) (all_elems ts) /\ (ts <> [] -> pass1 E lt ts <> []).
  Proof.
    induction ts as [| a | a b l IH] using list_pair_ind; intros Hd Hh.
    - simpl. repeat split; auto.
    - simpl. repeat split; auto.
    - inversion Hd as [|? ? Da Hd']; subst. inversion Hd' as [|? ? Db Hd'']; subst.
      inversion Hh as [|? ? Ha Hh']; subst. inversion Hh' as [|? ? Hb Hh'']; subst.
      destruct (IH Hd'' Hh'') as (I1 & I2 & I3 & _).
      change (pass1 E lt (a :: b :: l)) with (link a b :: pass1 E lt l).
      repeat split.
      + constructor; auto. apply link_detached; auto. apply detached_not_nil; auto.
      + constructor; auto. apply link_ho; auto; apply detached_not_nil; auto.
      + unfold all_elems in *. simpl. rewrite app_assoc. apply Permutation_app; auto.
        apply link_elems; auto. apply detached_not_nil; auto.
      + congruence.
  Qed.

  Lemma pass2_spec p : forall ts, ts <> [] -> Forall detached ts -> Forall (ho p) ts ->
    detached (pass2 E lt ts) /\ ho p (pass2 E lt ts) /\ Permutation (elems (pass2 E lt ts)) (all_elems ts).
  Proof.
    induction ts as [|a ts IH]; intros Hne Hd Hh; [congruence|].
    inversion Hd as [|? ? Da Hd']; subst. inversion Hh as [|? ? Ha Hh']; subst.
    destruct ts as [|b ts].
    - simpl. unfold all_elems. simpl. rewrite app_nil_r. repeat split; auto.
    - destruct (IH ltac:(congruence) Hd' Hh') as (I1 & I2 & I3).
      change (pass2 E lt (a :: b :: ts)) with (link a (pass2 E lt (b :: ts))).
      repeat split.
      + apply link_detached; auto. apply detached_not_nil; auto.
      + apply link_ho; auto; apply detached_not_nil; auto.
      + eapply Permutation_trans; [apply link_elems; auto; apply detached_not_nil; auto|].
        unfold all_elems in *. simpl. apply Permutation_app_head. exact I3.
  Qed.

  Lemma combine_siblings_spec p first : first <> Nil -> ho p first ->
    detached (combine_siblings E lt first) /\ ho p (combine_siblings E lt first) /\
    Permutation (elems (combine_siblings E lt first)) (elems first).
  Proof.
    intros Hne Hh.
    assert (G : detached (pass2 E lt (pass1 E lt (siblings E first))) /\
                ho p (pass2 E lt (pass1 E lt (siblings E first))) /\
                Permutation (elems (pass2 E lt (pass1 E lt (siblings E first)))) (elems first)).
    { destruct (siblings_spec p first Hh) as (S1 & S2 & S3).
      destruct (pass1_spec p _ S1 S2) as (P1 & P2 & P3 & P4).
      assert (Hs : siblings E first <> []) by (destruct first; simpl; congruence).
      destruct (pass2_spec p _ (P4 Hs) P1 P2) as (Q1 & Q2 & Q3).
      repeat split; auto. rewrite <- S3. eapply Permutation_trans; eauto. }
    destruct first as [|i x l [|j y l' s']]; try congruence.
    - cbn [combine_siblings]. split; [simpl; auto | split; [exact Hh | apply Permutation_refl]].
    - exact G.
  Qed.

  (* ---------------------------------------------------------------- insert / findMin / deleteMin *)
  Lemma perm_ids (a b : list (nat * E)) : Permutation a b -> Permutation (map fst a) (map fst b).
  Proof. apply Permutation_map. Qed.

  Lemma detached_hroot t : detached t -> hroot t.
  Proof. destruct t as [|i x l [|]]; simpl; tauto. Qed.

  Theorem insert_spec id x h : hinv h -> ~ In id (ids (root E h)) ->
    hinv (heap_insert E lt id x h) /\
    Permutation (elems (root E (heap_insert E lt id x h))) ((id, x) :: elems (root E h)).
  Proof.
    intros [H1 H2 H3 H4] Hid. unfold heap_insert. destruct (root E h) as [|ir xr lr sr] eqn:Er.
    - simpl. split; [|auto]. split; simpl; auto. constructor; [tauto | constructor].
    - simpl in H2. subst sr.
      assert (P : Permutation (elems (link (Node ir xr lr Nil) (Node id x Nil Nil)))
                              ((id, x) :: elems (Node ir xr lr Nil))).
      { eapply Permutation_trans; [apply link_elems; simpl; auto; congruence|].
        simpl. rewrite app_nil_r. apply Permutation_sym, Permutation_cons_append. }
      split; [|exact P]. split; cbn [root counter].
      + apply link_ho; simpl; auto; congruence.
      + apply detached_hroot. apply link_detached; simpl; auto; congruence.
      + unfold ids. eapply Permutation_NoDup; [apply Permutation_sym, perm_ids; exact P|].
        simpl. constructor; auto.
      + rewrite (Permutation_length P). simpl. rewrite H4. reflexivity.
  Qed.

  Theorem find_min_spec h x : hinv h -> find_min E h = Some x ->
    forall i y, In (i, y) (elems (root E h)) -> lt y x = false.
  Proof.
    intros [H1 H2 H3 H4]. unfold find_min. destruct (root E h) as [|ir xr lr sr]; [discriminate|].
    intros H. injection H as <-. simpl in H1, H2. subst sr. destruct H1 as (_ & B & _).
    simpl. intros i y [H | H].
    - injection H as <- <-. apply lt_irrefl.
    - rewrite app_nil_r in H. exact (ho_all _ _ B _ _ H).
  Qed.

  Lemma find_min_none h : find_min E h = None <-> elems (root E h) = [].
  Proof. unfold find_min. destruct (root E h); simpl; split; congruence. Qed.

  Theorem delete_min_spec h : hinv h -> forall i x l s, root E h = Node i x l s ->
    exists h', delete_min E lt h = Some h' /\ hinv h' /\
               Permutation (elems (root E h)) ((i, x) :: elems (root E h')).
  Proof.
    intros [H1 H2 H3 H4] i x l s Er. unfold delete_min. rewrite Er in *. simpl in H1, H2. subst s.
    destruct H1 as (_ & B & _).
    assert (Hnd : NoDup (map fst (elems l))).
    { unfold ids in H3. simpl in H3. rewrite app_nil_r in H3. inversion H3; auto. }
    destruct l as [|j y l' s'].
    - eexists. split; [reflexivity|]. split; [|simpl; auto].
      split; cbn [root counter]; [simpl; auto | simpl; auto | constructor | rewrite H4; reflexivity].
    - set (l := Node j y l' s') in *.
      destruct (combine_siblings_spec (Some x) l ltac:(subst l; congruence) B) as (C1 & C2 & C3).
      eexists. split; [reflexivity|]. split.
      + split; cbn [root counter].
        * eapply ho_none; eauto.
        * apply detached_hroot; auto.
        * unfold ids. eapply Permutation_NoDup; [apply Permutation_sym, perm_ids; exact C3 | exact Hnd].
        * rewrite (Permutation_length C3), H4. simpl. rewrite app_nil_r. reflexivity.
      + cbn [root]. simpl elems at 1. rewrite app_nil_r. apply perm_skip. apply Permutation_sym. exact C3.
  Qed.

  Theorem extract_min_spec h x h' : hinv h -> heap_extract_min E lt h = Some (x, h') ->
    hinv h' /\ (forall i y, In (i, y) (elems (root E h)) -> lt y x = false) /\
    exists i, Permutation (elems (root E h)) ((i, x) :: elems (root E h')).
  Proof.
    intros Hh. unfold heap_extract_min. destruct (find_min E h) as [m|] eqn:Ef; [|discriminate].
    pose proof (find_min_spec h m Hh Ef) as Hmin.
    unfold find_min in Ef. destruct (root E h) as [|i xr l s] eqn:Er; [discriminate|]. injection Ef as ->.
    destruct (delete_min_spec h Hh _ _ _ _ Er) as (h2 & E2 & I2 & P2). rewrite E2.
    intros H. injection H as <- <-. rewrite Er in P2. split; [exact I2 | split; [exact Hmin | eauto]].
  Qed.

  (* ---------------------------------------------------------------- decreaseKey *)
  Lemma cut_spec id : forall t c t', cut E id t = Some (c, t') ->
    exists y l, c = Node id y l Nil /\ Permutation (elems t) (elems c ++ elems t') /\
      forall p, ho p t -> ho p t' /\ ho (Some y) l.
  Proof.
    induction t as [|i x l IHl s IHs]; simpl; intros c t' H; [discriminate|].
    destruct (Nat.eqb_spec i id) as [->|Hne].
    - injection H as <- <-. exists x, l. split; [reflexivity | split].
      + simpl. rewrite app_nil_r. reflexivity.
      + intros p Hp. simpl in Hp. tauto.
    - destruct (cut E id l) as [[c1 l1]|] eqn:El.
      + injection H as <- <-. destruct (IHl _ _ eq_refl) as (y & l0 & -> & P & Hh).
        exists y, l0. split; [reflexivity | split].
        * simpl in *. rewrite app_nil_r in *.
          eapply Permutation_trans; [apply perm_skip; apply Permutation_app_tail; exact P|].
          simpl. rewrite perm_swap. apply perm_skip.
          rewrite <- app_assoc. apply Permutation_middle.
        * intros p Hp. simpl in Hp. destruct Hp as (A & B & C). destruct (Hh _ B). simpl. tauto.
      + destruct (cut E id s) as [[c1 s1]|] eqn:Es; [|discriminate].
        injection H as <- <-. destruct (IHs _ _ eq_refl) as (y & l0 & -> & P & Hh).
        exists y, l0. split; [reflexivity | split].
        * simpl in *. rewrite app_nil_r in *.
          eapply Permutation_trans; [apply perm_skip; apply Permutation_app_head; exact P|].
          simpl.
          change (Permutation (((i, x) :: elems l) ++ ((id, y) :: elems l0) ++ elems s1)
                              (((id, y) :: elems l0) ++ ((i, x) :: elems l) ++ elems s1)).
          rewrite !app_assoc. apply Permutation_app_tail. apply Permutation_app_comm.
        * intros p Hp. simpl in Hp. destruct Hp as (A & B & C). destruct (Hh _ C). simpl. tauto.
  Qed.

  Lemma cut_none id : forall t, cut E id t = None -> ~ In id (ids t).
  Proof.
    unfold ids. induction t as [|i x l IHl s IHs]; simpl; intros H; [tauto|].
    destruct (Nat.eqb_spec i id) as [->|Hne]; [discriminate|].
    destruct (cut E id l) as [[c1 l1]|] eqn:El; [discriminate|].
    destruct (cut E id s) as [[c1 s1]|] eqn:Es; [discriminate|].
    rewrite map_app, in_app_iff. intros [H1 | [H1 | H1]]; auto.
    - apply IHl in H1; auto.
    - apply IHs in H1; auto.
  Qed.

  Theorem decrease_key_spec id x h : hinv h -> In id (ids (root E h)) ->
    (forall old, In (id, old) (elems (root E h)) -> lt old x = false) ->
    hinv (decrease_key E lt id x h) /\
    exists old rest, Permutation (elems (root E h)) ((id, old) :: rest) /\
                     Permutation (elems (root E (decrease_key E lt id x h))) ((id, x) :: rest).
  Proof.
    intros [H1 H2 H3 H4] Hin Hpre. unfold decrease_key.
    destruct (root E h) as [|ir xr lr sr] eqn:Er; [simpl in Hin; tauto|].
    simpl in H1, H2. subst sr. destruct H1 as (_ & B & _).
    destruct (Nat.eqb_spec ir id) as [->|Hne].
    - assert (Hx : lt xr x = false) by (apply Hpre; simpl; auto).
      split.
      + split; cbn [root counter].
        * simpl. repeat split; auto. eapply ho_lower; eauto.
        * simpl. auto.
        * exact H3.
        * rewrite H4. reflexivity.
      + exists xr, (elems lr ++ []). simpl. split; apply Permutation_refl.
    - destruct (cut E id lr) as [[c lr']|] eqn:Ec.
      + destruct (cut_spec id _ _ _ Ec) as (y & l0 & -> & P & Hh).
        destruct (Hh _ B) as [B' Hl0].
        assert (Hy : lt y x = false).
        { apply Hpre. simpl. right. rewrite app_nil_r. eapply Permutation_in; [apply Permutation_sym; exact P|].
          simpl. auto. }
        set (c' := set_elt E x (Node id y l0 Nil)).
        assert (P' : Permutation (elems (link (Node ir xr lr' Nil) c'))
                                 ((id, x) :: (ir, xr) :: elems lr' ++ elems l0)).
        { eapply Permutation_trans; [apply link_elems; simpl; auto; subst c'; simpl; congruence|].
          subst c'. simpl. rewrite !app_nil_r.
          apply Permutation_sym. apply (Permutation_middle ((ir, xr) :: elems lr') (elems l0) (id, x)). }
        assert (P0 : Permutation (elems (Node ir xr lr Nil)) ((id, y) :: (ir, xr) :: elems lr' ++ elems l0)).
        { simpl. rewrite app_nil_r. rewrite perm_swap. apply perm_skip.
          eapply Permutation_trans; [exact P|]. simpl. rewrite app_nil_r. apply perm_skip.
          apply Permutation_app_comm. }
        split.
        * split; cbn [root counter].
          -- apply link_ho; try (subst c'; simpl; congruence); simpl; auto.
             subst c'. simpl. repeat split; auto. eapply ho_lower; eauto.
          -- apply detached_hroot. apply link_detached; [congruence | subst c'; simpl; auto].
          -- unfold ids in *. eapply Permutation_NoDup; [apply Permutation_sym, perm_ids; exact P'|].
             change (NoDup (map fst ((id, y) :: (ir, xr) :: elems lr' ++ elems l0))).
             eapply Permutation_NoDup; [apply perm_ids; exact P0 | exact H3].
          -- rewrite (Permutation_length P'), H4, (Permutation_length P0). reflexivity.
        * exists y, ((ir, xr) :: elems lr' ++ elems l0). split; [exact P0 | exact P'].
      + exfalso. apply cut_none in Ec. unfold ids in *. simpl in Hin. rewrite app_nil_r in Hin.
        destruct Hin as [Hin | Hin]; auto.
  Qed.

  (* ---------------------------------------------------------------- merge *)
  Theorem merge_spec h rhs : hinv h -> hinv rhs ->
    (forall i, In i (ids (root E h)) -> ~ In i (ids (root E rhs))) ->
    hinv (heap_merge E lt h rhs) /\
    Permutation (elems (root E (heap_merge E lt h rhs))) (elems (root E h) ++ elems (root E rhs)).
  Proof.
    intros [A1 A2 A3 A4] [B1 B2 B3 B4] Hdis. unfold heap_merge.
    destruct (root E h) as [|ir xr lr sr] eqn:Er.
    - simpl. split; [|apply Permutation_refl]. split; cbn [root counter]; auto. rewrite A4, B4. reflexivity.
    - simpl in A2. subst sr. destruct (root E rhs) as [|jr yr mr tr] eqn:Es.
      + simpl. rewrite !app_nil_r. split; [|apply Permutation_refl].
        split; cbn [root counter]; simpl; auto. rewrite A4, B4. simpl. rewrite app_nil_r. lia.
      + simpl in B2. subst tr.
        assert (P : Permutation (elems (link (Node ir xr lr Nil) (Node jr yr mr Nil)))
                                (elems (Node ir xr lr Nil) ++ elems (Node jr yr mr Nil))).
        { apply link_elems; simpl; auto; congruence. }
        split; [|exact P]. split; cbn [root counter].
        * apply link_ho; auto; congruence.
        * apply detached_hroot. apply link_detached; simpl; auto; congruence.
        * unfold ids in *. eapply Permutation_NoDup; [apply Permutation_sym, perm_ids; exact P|].
          rewrite map_app. apply NoDup_app_intro; auto.
        * rewrite (Permutation_length P), app_length, A4, B4. reflexivity.
  Qed.
End HeapProofs.

(* ------------------------------------------------------------------ all operation sequences *)
Section HeapOps.
  Variable E : Type.
  Variable lt : E -> E -> bool.
  Hypothesis lt_asym : forall x y, lt x y = true -> lt y x = false.
  Hypothesis nlt_trans : forall x y z, lt x y = false -> lt y z = false -> lt x z = false.

  Inductive op : Type :=
  | OInsert (id : nat) (x : E)
  | ODeleteMin
  | ODecreaseKey (id : nat) (x : E)
  | OMerge (rhs : heap E).

  (* deleteMin on an empty heap throws Underflow and leaves the heap as it is *)
  Definition step (h : heap E) (o : op) : heap E :=
    match o with
    | OInsert id x => heap_insert E lt id x h
    | ODeleteMin => match delete_min E lt h with Some h' => h' | None => h end
    | ODecreaseKey id x => decrease_key E lt id x h
    | OMerge rhs => heap_merge E lt h rhs
    end.

  (* the caller's obligations: fresh node identities, decreaseKey on a stored node with a value that is not
     bigger (the COLA_ASSERT of decreaseKey), merge with a heap that is itself well formed and disjoint *)
  Definition op_ok (h : heap E) (o : op) : Prop :=
    match o with
    | OInsert id _ => ~ In id (ids E (root E h))
    | ODeleteMin => True
    | ODecreaseKey id x => In id (ids E (root E h)) /\
                           forall old, In (id, old) (elems E (root E h)) -> lt old x = false
    | OMerge rhs => hinv E lt rhs /\ forall i, In i (ids E (root E h)) -> ~ In i (ids E (root E rhs))
    end.

  Fixpoint run (h : heap E) (ops : list op) : heap E :=
    match ops with [] => h | o :: r => run (step h o) r end.
  Fixpoint ops_ok (h : heap E) (ops : list op) : Prop :=
    match ops with [] => True | o :: r => op_ok h o /\ ops_ok (step h o) r end.

  Lemma hinv_empty : hinv E lt (heap_empty E).
  Proof. split; simpl; auto. constructor. Qed.

  Lemma step_hinv h o : hinv E lt h -> op_ok h o -> hinv E lt (step h o).
  Proof.
    intros Hh Ho. destruct o as [id x | | id x | rhs]; simpl in *.
    - apply (insert_spec E lt lt_asym id x h Hh Ho).
    - destruct (root E h) as [|i x l s] eqn:Er.
      + unfold delete_min. rewrite Er. exact Hh.
      + destruct (delete_min_spec E lt lt_asym h Hh i x l s Er) as (h' & -> & Hh' & _). exact Hh'.
    - destruct Ho as [H1 H2]. apply (decrease_key_spec E lt lt_asym nlt_trans id x h Hh H1 H2).
    - destruct Ho as [H1 H2]. apply (merge_spec E lt lt_asym h rhs Hh H1 H2).
  Qed.

  (* heap_min: after ANY sequence of operations (meeting the callers' obligations) the heap is well formed,
     findMin / extractMin return an element that no stored element is less than, and extractMin removes exactly
     that one element *)
  Theorem heap_min : forall ops h, hinv E lt h -> ops_ok h ops ->
    let h' := run h ops in
    hinv E lt h' /\
    (forall x, find_min E h' = Some x -> forall i y, In (i, y) (elems E (root E h')) -> lt y x = false) /\
    (find_min E h' = None <-> elems E (root E h') = []) /\
    (forall x h'', heap_extract_min E lt h' = Some (x, h'') ->
        hinv E lt h'' /\ (forall i y, In (i, y) (elems E (root E h')) -> lt y x = false) /\
        exists i, Permutation (elems E (root E h')) ((i, x) :: elems E (root E h''))).
  Proof.
    induction ops as [|o r IH]; intros h Hh Hok; cbn [run].
    - cbv zeta. split; [exact Hh|]. split; [|split].
      + intros x Hx. apply (find_min_spec E lt lt_asym nlt_trans h x Hh Hx).
      + apply find_min_none.
      + intros x h'' Hx. apply (extract_min_spec E lt lt_asym nlt_trans h x h'' Hh Hx).
    - destruct Hok as [Ho Hr]. apply IH; auto. apply step_hinv; auto.
  Qed.

  Corollary heap_min_from_empty ops : ops_ok (heap_empty E) ops ->
    let h' := run (heap_empty E) ops in
    hinv E lt h' /\ forall x, find_min E h' = Some x -> forall i y, In (i, y) (elems E (root E h')) -> lt y x = false.
  Proof. intros H. destruct (heap_min ops _ hinv_empty H) as (A & B & _). split; auto. Qed.
End HeapOps.

Arguments OInsert {E} id x.
Arguments ODeleteMin {E}.
Arguments ODecreaseKey {E} id x.
Arguments OMerge {E} rhs.

(* ------------------------------------------------------------------ instance and non-vacuity: nat keys, `<` *)
Lemma ltb_asym x y : Nat.ltb x y = true -> Nat.ltb y x = false.
Proof. rewrite Nat.ltb_lt, Nat.ltb_ge. lia. Qed.
Lemma nltb_trans x y z : Nat.ltb x y = false -> Nat.ltb y z = false -> Nat.ltb x z = false.
Proof. rewrite !Nat.ltb_ge. lia. Qed.

Definition ex_rhs : heap nat := heap_insert nat Nat.ltb 11 1 (heap_insert nat Nat.ltb 10 8 (heap_empty nat)).
Definition ex_ops : list (op nat) :=
  [OInsert 0 5; OInsert 1 3; OInsert 2 5; OInsert 3 4; OInsert 4 9; ODeleteMin; ODecreaseKey 4 2;
   OMerge ex_rhs; ODeleteMin; OInsert 5 7; ODecreaseKey 2 0].

Example ex_rhs_hinv : hinv nat Nat.ltb ex_rhs.
Proof.
  unfold ex_rhs.
  apply (insert_spec nat Nat.ltb ltb_asym); [|vm_compute; intuition lia].
  apply (insert_spec nat Nat.ltb ltb_asym); [apply (hinv_empty nat Nat.ltb) | simpl; tauto].
Qed.

Example ex_ops_ok : ops_ok nat Nat.ltb (heap_empty nat) ex_ops.
Proof.
  unfold ex_ops. cbn [ops_ok op_ok].
  repeat match goal with
  | |- hinv _ _ _ => exact ex_rhs_hinv
  | |- True => exact I
  | |- _ /\ _ => split
  | |- ~ In _ _ => vm_compute; intuition congruence
  | |- In _ _ => vm_compute; tauto
  | |- forall old, In (_, old) _ -> _ =>
      let H := fresh in intros old H; vm_compute in H; decompose [or] H; clear H; try contradiction; try discriminate;
      match goal with H0 : (_, _) = (_, _) |- _ => injection H0 as <- end; reflexivity
  | |- forall i, In i _ -> ~ In i _ =>
      let H := fresh in let H' := fresh in intros i H H'; vm_compute in H, H'; intuition (subst; try discriminate; try lia)
  end.
Qed.

Example ex_heap_min :
  find_min nat (run nat Nat.ltb (heap_empty nat) ex_ops) = Some 0 /\
  map snd (elems nat (root nat (run nat Nat.ltb (heap_empty nat) ex_ops))) = [0; 2; 7; 8; 4; 5].
Proof. vm_compute. split; reflexivity. Qed.
