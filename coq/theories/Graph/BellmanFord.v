(* C17 - the independent oracle: Bellman-Ford with an a-posteriori closure check, and its correctness.
   `bf n es s` relaxes all edges (both directions) round after round until nothing changes (at most n rounds),
   then CHECKS that the labelling is closed under relaxation; it answers None if the check fails (never
   observed; every theorem excludes that outcome).  bf_correct: an answer Some d is the metric from s.
   This file does not depend on the Floyd-Warshall / Dijkstra models: it is the spec side that the search
   runs against the implementation. *)
From Adapt Require Import Num.Qaux Graph.Paths.
Local Open Scope Q_scope.

Definition dget (d : list oQ) (v : nat) : oQ := nth v d None.

Definition bf_relax1 (d : list oQ) (u v : nat) (w : Q) : list oQ :=
  let c := oplus (dget d u) (Some w) in
  if oltb c (dget d v) then upd_nth d v c else d.
Definition bf_relax_edge (d : list oQ) (e : edge) : list oQ :=
  let '(u, v, w) := e in bf_relax1 (bf_relax1 d u v w) v u w.
Definition bf_round (es : list edge) (d : list oQ) : list oQ := fold_left bf_relax_edge es d.

Definition oQ_eqb (a b : oQ) : bool :=
  match a, b with
  | None, None => true
  | Some x, Some y => Qeqb x y
  | _, _ => false
  end.
Fixpoint list_eqb (a b : list oQ) : bool :=
  match a, b with
  | [], [] => true
  | x :: a', y :: b' => oQ_eqb x y && list_eqb a' b'
  | _, _ => false
  end.

Fixpoint bf_iter (fuel : nat) (es : list edge) (d : list oQ) : list oQ :=
  match fuel with
  | O => d
  | S f => let d' := bf_round es d in if list_eqb d' d then d else bf_iter f es d'
  end.

Definition bf_closed1 (d : list oQ) (u v : nat) (w : Q) : bool := negb (oltb (oplus (dget d u) (Some w)) (dget d v)).
Definition bf_closed (es : list edge) (d : list oQ) : bool :=
  forallb (fun e : edge => let '(u, v, w) := e in bf_closed1 d u v w && bf_closed1 d v u w) es.

Definition bf_start (n s : nat) : list oQ := upd_nth (repeat None n) s (Some 0).

Definition bf (n : nat) (es : list edge) (s : nat) : option (list oQ) :=
  let d := bf_iter n es (bf_start n s) in
  if bf_closed es d then Some d else None.

(* all-pairs oracle *)
Definition bf_all (n : nat) (es : list edge) : list (option (list oQ)) := map (bf n es) (seq 0 n).

(* ------------------------------------------------------------------ correctness *)
Section BF.
  Variable n : nat.
  Variable es : list edge.
  Hypothesis Hwf : wf_graph n es.
  Variable s : nat.
  Hypothesis Hs : (s < n)%nat.
  Let adj := adj_of es.

  Record bf_inv (d : list oQ) : Prop := {
    bi_len : length d = n;
    bi_sound : forall v x, dget d v = Some x -> reach adj s v x;
    bi_src : ole (dget d s) (Some 0)
  }.

  Lemma dget_upd_same d v c : (v < length d)%nat -> dget (upd_nth d v c) v = c.
  Proof. intros. unfold dget. apply nth_upd_nth_same; auto. Qed.
  Lemma dget_upd_other d v u c : v <> u -> dget (upd_nth d v c) u = dget d u.
  Proof. intros. unfold dget. apply nth_upd_nth_other; auto. Qed.

  Lemma bf_relax1_inv d u v w : In (v, w) (adj u) -> bf_inv d -> bf_inv (bf_relax1 d u v w).
  Proof.
    intros Hin [L S0 Z]. unfold bf_relax1.
    destruct (oltb (oplus (dget d u) (Some w)) (dget d v)) eqn:E; [|split; auto].
    destruct (adj_of_range n es Hwf _ _ _ Hin) as [Hu Hv].
    apply oltb_true in E. destruct E as [E _].
    split.
    - rewrite upd_nth_length; auto.
    - intros t x. destruct (Nat.eq_dec v t) as [<-|Hne].
      + rewrite dget_upd_same by lia. intros H. apply oplus_some in H.
        destruct H as (p & q & Hp & Hq & Hx). injection Hq as <-.
        eapply reach_eq; [eapply reach_app; [apply S0; eauto | apply reach_edge; eauto] | lra].
      + rewrite dget_upd_other by auto. apply S0.
    - destruct (Nat.eq_dec v s) as [->|Hne].
      + rewrite dget_upd_same by lia. eapply ole_trans; eauto.
      + rewrite dget_upd_other by auto. auto.
  Qed.

  Lemma bf_relax_edge_inv d e : In e es -> bf_inv d -> bf_inv (bf_relax_edge d e).
  Proof.
    destruct e as [[u v] w]. intros Hin H. unfold bf_relax_edge.
    apply bf_relax1_inv; [apply adj_of_spec; exists u, v; auto|].
    apply bf_relax1_inv; [apply adj_of_spec; exists u, v; auto|]. exact H.
  Qed.

  Lemma bf_round_inv d : bf_inv d -> bf_inv (bf_round es d).
  Proof.
    unfold bf_round. intros H.
    assert (G : forall l, (forall e, In e l -> In e es) -> forall d, bf_inv d -> bf_inv (fold_left bf_relax_edge l d)).
    { induction l as [|e l IH]; simpl; intros Hl d0 H0; auto.
      apply IH; auto. apply bf_relax_edge_inv; auto. }
    apply G; auto.
  Qed.

  Lemma bf_iter_inv fuel : forall d, bf_inv d -> bf_inv (bf_iter fuel es d).
  Proof.
    induction fuel as [|f IH]; simpl; intros d H; auto.
    destruct (list_eqb (bf_round es d) d); auto. apply IH. apply bf_round_inv; auto.
  Qed.

  Lemma bf_start_inv : bf_inv (bf_start n s).
  Proof.
    unfold bf_start. split.
    - rewrite upd_nth_length, repeat_length. auto.
    - intros v x. destruct (Nat.eq_dec s v) as [<-|Hne].
      + rewrite dget_upd_same by (rewrite repeat_length; auto). intros H. injection H as <-. apply reach_refl.
      + rewrite dget_upd_other by auto. unfold dget. rewrite nth_repeat. discriminate.
    - rewrite dget_upd_same by (rewrite repeat_length; auto). apply ole_refl.
  Qed.

  Lemma bf_closed_spec d : bf_closed es d = true ->
    forall u v w x, In (v, w) (adj u) -> dget d u = Some x -> ole (dget d v) (Some (x + w)).
  Proof.
    unfold bf_closed. rewrite forallb_forall. intros H u v w x Hin Hx.
    apply adj_of_spec in Hin. destruct Hin as (a & b & Hin & Hab).
    specialize (H _ Hin). cbn beta iota in H. apply andb_true_iff in H. destruct H as [H1 H2].
    assert (G : bf_closed1 d u v w = true) by (destruct Hab as [[-> ->]|[-> ->]]; auto).
    unfold bf_closed1 in G. apply negb_true_iff in G. apply oltb_false in G.
    rewrite Hx in G. cbn [oplus] in G. eapply ole_trans; [exact G|].
    cbn [ole]. pose proof (Qred_correct (x + w)). lra.
  Qed.

  Theorem bf_correct d : bf n es s = Some d ->
    forall t, (t < n)%nat -> dist adj s t (dget d t).
  Proof.
    unfold bf. destruct (bf_closed es (bf_iter n es (bf_start n s))) eqn:Ec; [|discriminate].
    intros H. injection H as <-. intros t Ht.
    pose proof (bf_iter_inv n _ bf_start_inv) as [L S0 Z].
    apply (dist_from_closed nat adj (fun v => (v < n)%nat) s (dget (bf_iter n es (bf_start n s)))); auto.
    - intros u v w Hu Hin. eapply adj_of_range; eauto.
    - intros u v w x _ Hin Hx. eapply bf_closed_spec; eauto.
  Qed.
End BF.

(* non-vacuity: the oracle answers on a graph with a parallel edge, a self-loop, a zero weight and an isolated node *)
Example bf_example :
  bf 4 [(0%nat, 1%nat, 5); (0%nat, 1%nat, 9); (2%nat, 2%nat, 4); (1%nat, 2%nat, 0)] 0 =
  Some [Some 0; Some 5; Some 5; None].
Proof. vm_compute. reflexivity. Qed.
