(* C17: consequences of the three correctness theorems that the property states outright - the matrix johnsons
   returns has a zero diagonal, is symmetric, carries the 'unreachable' sentinel (None) exactly for pairs without a
   walk, and floyd_warshall (repaired initialisation), johnsons and the Bellman-Ford oracle agree entry by entry.
   Proofs only: the models are Graph/*Model.v. *)
From Adapt Require Import Num.Qaux Graph.Paths Graph.DijkstraModel Graph.FloydWarshallModel Graph.FloydWarshall
  Graph.Dijkstra Graph.BellmanFord.
Local Open Scope Q_scope.

Lemma oeq_none_l a : oeq a None -> a = None.
Proof. destruct a; cbn; [intros []|reflexivity]. Qed.

Section Agree.
  Variables (n : nat) (es : list (nat * nat * Q)).
  Hypothesis Hwf : wf_graph n es.
  Variable J : list (list oQ).
  Hypothesis HJ : johnsons n es = Some J.

  Theorem johnsons_diag_zero i : (i < n)%nat -> oeq (mget J i i) (Some 0).
  Proof.
    intros Hi. eapply oeq_trans; [apply (johnsons_eq_fw_fixed n es Hwf J HJ i i Hi Hi)|].
    apply fw_fixed_diag_zero; auto.
  Qed.

  Theorem johnsons_symmetric i j : (i < n)%nat -> (j < n)%nat -> oeq (mget J i j) (mget J j i).
  Proof.
    intros Hi Hj.
    eapply oeq_trans; [apply (johnsons_eq_fw_fixed n es Hwf J HJ i j Hi Hj)|].
    eapply oeq_trans; [apply fw_fixed_symmetric; auto|].
    apply oeq_sym. apply (johnsons_eq_fw_fixed n es Hwf J HJ j i Hj Hi).
  Qed.

  (* the sentinel: exactly the pairs without any walk *)
  Theorem johnsons_sentinel_iff i j : (i < n)%nat -> (j < n)%nat ->
    (mget J i j = None <-> forall l, ~ walk (adj_of es) i j l).
  Proof.
    intros Hi Hj. pose proof (johnsons_correct n es Hwf J HJ i j Hi Hj) as D. split.
    - intros E. rewrite E in D. exact D.
    - intros U. apply oeq_none_l. eapply (dist_unique nat (adj_of es) i j); [exact D | exact U].
  Qed.

  Theorem fw_fixed_sentinel_iff i j : (i < n)%nat -> (j < n)%nat ->
    (mget (fw_fixed n es) i j = None <-> forall l, ~ walk (adj_of es) i j l).
  Proof.
    intros Hi Hj. pose proof (fw_correct_fixed n es Hwf i j Hi Hj) as D. split.
    - intros E. rewrite E in D. exact D.
    - intros U. apply oeq_none_l. eapply (dist_unique nat (adj_of es) i j); [exact D | exact U].
  Qed.

  (* all three and the oracle agree *)
  Theorem apsp_all_agree s d : (s < n)%nat -> bf n es s = Some d ->
    forall t, (t < n)%nat ->
      oeq (mget J s t) (mget (fw_fixed n es) s t) /\ oeq (mget J s t) (dget d t) /\
      oeq (mget (fw_fixed n es) s t) (dget d t).
  Proof.
    intros Hs Hd t Ht.
    pose proof (johnsons_correct n es Hwf J HJ s t Hs Ht) as D1.
    pose proof (fw_correct_fixed n es Hwf s t Hs Ht) as D2.
    pose proof (bf_correct n es Hwf s Hs d Hd t Ht) as D3.
    repeat split; eapply (dist_unique nat (adj_of es) s t); eassumption.
  Qed.
End Agree.
