(* C17 / C04 / C05 - weighted graphs, walks and the shortest-path metric (DESIGN 5.17, 5.4).
   A graph is an adjacency function  adj : V -> list (V * Q)  (generic vertex type; the router properties
   reuse it).  The undirected multigraph of libcola (n nodes 0..n-1, an edge list with weights) is the
   instance `adj_of es` (the adjacency lists exactly as shortest_paths::dijkstra_init builds them).
   Distances live in `option Q`: None is the 'unreachable' sentinel (numeric_limits<double>::max()). *)
From Adapt Require Import Num.Qaux.
Local Open Scope Q_scope.

(* ------------------------------------------------------------------ extended distances *)
Definition oQ := option Q.
(* a <= b with None = +infinity *)
Definition ole (a b : oQ) : Prop :=
  match a, b with
  | _, None => True
  | None, Some _ => False
  | Some x, Some y => x <= y
  end.
Definition oeq (a b : oQ) : Prop :=
  match a, b with
  | None, None => True
  | Some x, Some y => x == y
  | _, _ => False
  end.
(* a < b as the C++ evaluates it on doubles with max() as the sentinel *)
Definition oltb (a b : oQ) : bool :=
  match a, b with
  | Some x, Some y => Qltb x y
  | Some _, None => true
  | None, _ => false
  end.
(* a + b; max() + anything stays the sentinel (max()+max() = inf, max()+small = max(); in both cases the
   subsequent std::min / > comparison treats it as "not smaller") *)
Definition oplus (a b : oQ) : oQ :=
  match a, b with
  | Some x, Some y => Some (Qred (x + y))
  | _, _ => None
  end.
(* std::min(a,b) = (b < a) ? b : a *)
Definition omin (a b : oQ) : oQ := if oltb b a then b else a.

Lemma ole_refl a : ole a a.
Proof. destruct a; simpl; auto. lra. Qed.
Lemma ole_trans a b c : ole a b -> ole b c -> ole a c.
Proof.
  destruct a as [x|], b as [y|], c as [z|]; simpl; intros H1 H2; try exact I; try contradiction.
  exact (Qle_trans _ _ _ H1 H2).
Qed.
Lemma oeq_refl a : oeq a a.
Proof. destruct a; simpl; auto. lra. Qed.
Lemma oeq_sym a b : oeq a b -> oeq b a.
Proof. destruct a, b; simpl; auto. intros; lra. Qed.
Lemma oeq_trans a b c : oeq a b -> oeq b c -> oeq a c.
Proof.
  destruct a as [x|], b as [y|], c as [z|]; simpl; intros H1 H2; try exact I; try contradiction.
  exact (Qeq_trans _ _ _ H1 H2).
Qed.
Lemma ole_antisym a b : ole a b -> ole b a -> oeq a b.
Proof. destruct a, b; simpl; intros; auto. lra. Qed.
Lemma oeq_ole a b : oeq a b -> ole a b.
Proof. destruct a, b; simpl; intros; auto. lra. Qed.
Lemma oltb_true a b : oltb a b = true -> ole a b /\ ~ ole b a.
Proof.
  destruct a, b; simpl; intros H; try discriminate; auto.
  apply Qltb_spec in H. split; lra.
Qed.
Lemma oltb_false a b : oltb a b = false -> ole b a.
Proof.
  destruct a, b; simpl; intros H; try discriminate; auto.
  apply Qltb_false in H. lra.
Qed.
Lemma omin_le_l a b : ole (omin a b) a.
Proof.
  unfold omin. destruct (oltb b a) eqn:E.
  - apply oltb_true in E. tauto.
  - apply ole_refl.
Qed.
Lemma omin_le_r a b : ole (omin a b) b.
Proof.
  unfold omin. destruct (oltb b a) eqn:E.
  - apply ole_refl.
  - apply oltb_false in E. auto.
Qed.
Lemma omin_cases a b : omin a b = a \/ omin a b = b.
Proof. unfold omin. destruct (oltb b a); auto. Qed.
Lemma oplus_mono a a' b b' : ole a a' -> ole b b' -> ole (oplus a b) (oplus a' b').
Proof.
  destruct a as [a|], a' as [a'|], b as [b|], b' as [b'|]; cbn [ole oplus]; intros; auto; try tauto.
  pose proof (Qred_correct (a + b)). pose proof (Qred_correct (a' + b')). lra.
Qed.
Lemma oplus_some a b x : oplus a b = Some x -> exists p q, a = Some p /\ b = Some q /\ x == p + q.
Proof.
  destruct a as [p|], b as [q|]; intros H; try discriminate.
  exists p, q. repeat split. unfold oplus in H.
  assert (E : x = Qred (p + q)) by congruence. rewrite E. apply Qred_correct.
Qed.
Lemma ole_some_inv a y : ole a (Some y) -> exists x, a = Some x /\ x <= y.
Proof. destruct a; simpl; intros; [eauto | tauto]. Qed.

(* ------------------------------------------------------------------ walks and the metric *)
Section Walks.
  Variable V : Type.
  Variable adj : V -> list (V * Q).

  (* every edge weight is non-negative *)
  Definition nonneg : Prop := forall u v w, In (v, w) (adj u) -> 0 <= w.
  (* undirected *)
  Definition symmetric : Prop := forall u v w, In (v, w) (adj u) -> In (u, w) (adj v).

  (* a walk from u to t and its length (vertices and edges may repeat; the empty walk has length 0) *)
  Inductive walk : V -> V -> Q -> Prop :=
  | walk_nil u : walk u u 0
  | walk_cons u v t w l : In (v, w) (adj u) -> walk v t l -> walk u t (w + l).

  (* x is the length of some walk u -> t *)
  Definition reach (u t : V) (x : Q) : Prop := exists l, walk u t l /\ l == x.

  (* the shortest-path metric as a relation: dist u t (Some d): d is the minimum walk length;
     dist u t None: t is unreachable from u.  (Functional up to == : dist_unique.) *)
  Definition dist (u t : V) (o : oQ) : Prop :=
    match o with
    | Some d => reach u t d /\ (forall l, walk u t l -> d <= l)
    | None => forall l, ~ walk u t l
    end.

  Lemma walk_app u v t l1 l2 : walk u v l1 -> walk v t l2 -> reach u t (l1 + l2).
  Proof.
    induction 1; intros H2.
    - exists l2. split; auto. lra.
    - destruct (IHwalk H2) as (l' & Hw & He).
      exists (w + l'). split; [econstructor; eauto | lra].
  Qed.
  Lemma reach_app u v t x y : reach u v x -> reach v t y -> reach u t (x + y).
  Proof.
    intros (l1 & H1 & E1) (l2 & H2 & E2). destruct (walk_app _ _ _ _ _ H1 H2) as (l & Hl & El).
    exists l. split; auto. lra.
  Qed.
  Lemma reach_refl u : reach u u 0.
  Proof. exists 0. split; [constructor | lra]. Qed.
  Lemma reach_edge u v w : In (v, w) (adj u) -> reach u v w.
  Proof. intros H. exists (w + 0). split; [econstructor; eauto; constructor | lra]. Qed.
  Lemma reach_eq u t x y : reach u t x -> x == y -> reach u t y.
  Proof. intros (l & H & E) Hxy. exists l. split; auto. lra. Qed.
  Lemma walk_nonneg : nonneg -> forall u t l, walk u t l -> 0 <= l.
  Proof.
    intros Hn u t l H. induction H; [lra|]. specialize (Hn _ _ _ H). lra.
  Qed.
  Lemma walk_snoc u v t w l : walk u v l -> In (t, w) (adj v) -> reach u t (l + w).
  Proof.
    intros H1 H2. eapply reach_eq.
    - eapply walk_app; [exact H1 | econstructor; [exact H2 | constructor]].
    - lra.
  Qed.
  Lemma walk_rev : symmetric -> forall u t l, walk u t l -> reach t u l.
  Proof.
    intros Hs u t l H. induction H.
    - apply reach_refl.
    - destruct IHwalk as (l' & Hl & El).
      eapply reach_eq; [eapply walk_snoc; [exact Hl | apply Hs; exact H] | lra].
  Qed.

  Lemma dist_unique u t a b : dist u t a -> dist u t b -> oeq a b.
  Proof.
    destruct a as [x|], b as [y|]; simpl; auto.
    - intros ((l1 & W1 & E1) & M1) ((l2 & W2 & E2) & M2).
      specialize (M1 _ W2). specialize (M2 _ W1). lra.
    - intros ((l1 & W1 & E1) & M1) H. exact (H _ W1).
    - intros H ((l1 & W1 & E1) & M1). exact (H _ W1).
  Qed.
  Lemma dist_oeq u t a b : dist u t a -> oeq a b -> dist u t b.
  Proof.
    destruct a as [x|], b as [y|]; simpl; try tauto.
    intros ((l1 & W1 & E1) & M1) E. split.
    - exists l1. split; auto. lra.
    - intros l Hl. specialize (M1 _ Hl). lra.
  Qed.
  Lemma dist_sym : symmetric -> forall u t o, dist u t o -> dist t u o.
  Proof.
    intros Hs u t [d|]; simpl.
    - intros ((l & W & E) & M). split.
      + eapply reach_eq; [eapply walk_rev; eauto | auto].
      + intros l' W'. destruct (walk_rev Hs _ _ _ W') as (l'' & W'' & E''). specialize (M _ W''). lra.
    - intros H l W. destruct (walk_rev Hs _ _ _ W) as (l'' & W'' & E''). exact (H _ W'').
  Qed.
  Lemma dist_self : nonneg -> forall u, dist u u (Some 0).
  Proof.
    intros Hn u. split; [apply reach_refl|]. intros l W. eapply walk_nonneg; eauto.
  Qed.

  (* The fixpoint characterisation every algorithm below is proved against: a labelling d that is
     (1) realised by walks from s, (2) at most 0 at s, (3) closed under relaxation of every edge leaving a
     labelled vertex, IS the metric from s.  `dom` restricts it to the vertex set of a finite graph. *)
  Definition sound_from (s : V) (d : V -> oQ) : Prop := forall v x, d v = Some x -> reach s v x.
  Definition closed_on (dom : V -> Prop) (d : V -> oQ) : Prop :=
    forall u v w x, dom u -> In (v, w) (adj u) -> d u = Some x -> ole (d v) (Some (x + w)).
  Definition dom_closed (dom : V -> Prop) : Prop := forall u v w, dom u -> In (v, w) (adj u) -> dom v.

  Lemma closed_lower_bound dom d :
    dom_closed dom -> closed_on dom d ->
    forall u t l, walk u t l -> dom u -> forall x, d u = Some x -> ole (d t) (Some (x + l)).
  Proof.
    intros Hdom Hc u t l H. induction H; intros Hu x Hx.
    - rewrite Hx. simpl. lra.
    - pose proof (Hc _ _ _ _ Hu H Hx) as H1.
      apply ole_some_inv in H1. destruct H1 as (y & Hy & Hle).
      pose proof (IHwalk (Hdom _ _ _ Hu H) _ Hy) as H2.
      apply ole_some_inv in H2. destruct H2 as (z & Hz & Hle2).
      rewrite Hz. simpl. lra.
  Qed.

  Theorem dist_from_closed dom s d :
    dom_closed dom -> dom s -> sound_from s d -> ole (d s) (Some 0) -> closed_on dom d ->
    forall t, dist s t (d t).
  Proof.
    intros Hdom Hs Hsound H0 Hc t.
    apply ole_some_inv in H0. destruct H0 as (x0 & Hx0 & Hle0).
    destruct (d t) as [x|] eqn:E; simpl.
    - split; [apply Hsound; auto|].
      intros l W. pose proof (closed_lower_bound dom d Hdom Hc _ _ _ W Hs _ Hx0) as H.
      rewrite E in H. simpl in H. lra.
    - intros l W. pose proof (closed_lower_bound dom d Hdom Hc _ _ _ W Hs _ Hx0) as H.
      rewrite E in H. exact H.
  Qed.
End Walks.

Arguments walk {V} adj _ _ _.
Arguments reach {V} adj _ _ _.
Arguments dist {V} adj _ _ _.
Arguments nonneg {V} adj.
Arguments symmetric {V} adj.

(* ------------------------------------------------------------------ libcola's graphs: n nodes, edge list *)
Definition edge := (nat * nat * Q)%type.

(* adjacency lists in the order shortest_paths::dijkstra_init pushes them:
   for each edge (u,v,w): vs[u].neighbours += v ; vs[v].neighbours += u *)
Fixpoint adj_of (es : list edge) (x : nat) : list (nat * Q) :=
  match es with
  | [] => []
  | (u, v, w) :: es' =>
      (if Nat.eqb u x then [(v, w)] else []) ++ (if Nat.eqb v x then [(u, w)] else []) ++ adj_of es' x
  end.

Definition wf_graph (n : nat) (es : list edge) : Prop :=
  forall u v w, In (u, v, w) es -> (u < n)%nat /\ (v < n)%nat /\ 0 <= w.

Lemma adj_of_spec es x y w :
  In (y, w) (adj_of es x) <-> exists u v, In (u, v, w) es /\ ((u = x /\ v = y) \/ (v = x /\ u = y)).
Proof.
  induction es as [|[[u v] w'] es IH]; simpl.
  - split; [tauto | intros (u & v & [] & _)].
  - rewrite !in_app_iff, IH. split.
    + intros [H | [H | (a & b & H & Hab)]].
      * destruct (Nat.eqb_spec u x); simpl in H; [|tauto]. destruct H as [H|[]]. inversion H; subst.
        exists x, y. split; auto.
      * destruct (Nat.eqb_spec v x); simpl in H; [|tauto]. destruct H as [H|[]]. inversion H; subst.
        exists y, x. split; auto.
      * exists a, b. split; auto.
    + intros (a & b & [H | H] & Hab).
      * inversion H; subst. destruct Hab as [[-> ->] | [-> ->]].
        -- left. rewrite Nat.eqb_refl. simpl; auto.
        -- right; left. rewrite Nat.eqb_refl. simpl; auto.
      * right; right. exists a, b. auto.
Qed.

Lemma adj_of_nonneg n es : wf_graph n es -> nonneg (adj_of es).
Proof.
  intros H u v w Hin. apply adj_of_spec in Hin. destruct Hin as (a & b & Hab & _).
  apply H in Hab. tauto.
Qed.
Lemma adj_of_symmetric es : symmetric (adj_of es).
Proof.
  intros u v w Hin. apply adj_of_spec in Hin. apply adj_of_spec.
  destruct Hin as (a & b & Hab & Hc). exists a, b. split; auto. tauto.
Qed.
Lemma adj_of_range n es : wf_graph n es -> forall u v w, In (v, w) (adj_of es u) -> (u < n)%nat /\ (v < n)%nat.
Proof.
  intros H u v w Hin. apply adj_of_spec in Hin. destruct Hin as (a & b & Hab & Hc).
  apply H in Hab. destruct Hc as [[-> ->] | [-> ->]]; tauto.
Qed.
Lemma walk_range n es : wf_graph n es -> forall u t l, walk (adj_of es) u t l -> (u < n)%nat -> (t < n)%nat.
Proof.
  intros H u t l W. induction W; auto. intros Hu. apply IHW. eapply adj_of_range; eauto.
Qed.

(* matrices of extended distances, D[i][j] *)
Definition matrix := list (list oQ).
Definition mget (D : matrix) (i j : nat) : oQ := nth j (nth i D []) None.
Definition mset (D : matrix) (i j : nat) (v : oQ) : matrix := upd_nth D i (upd_nth (nth i D []) j v).
Definition shaped (n : nat) (D : matrix) : Prop := length D = n /\ forall i, (i < n)%nat -> length (nth i D []) = n.

Lemma upd_nth_length {A} (l : list A) i v : length (upd_nth l i v) = length l.
Proof. revert i; induction l; destruct i; simpl; auto. Qed.
Lemma nth_upd_nth_same {A} (l : list A) i v d : (i < length l)%nat -> nth i (upd_nth l i v) d = v.
Proof. revert i; induction l; destruct i; simpl; intros; try lia; auto. apply IHl; lia. Qed.
Lemma nth_upd_nth_other {A} (l : list A) i j v d : i <> j -> nth j (upd_nth l i v) d = nth j l d.
Proof. revert i j; induction l; destruct i, j; simpl; intros; try lia; auto. Qed.

Lemma mset_shaped n D i j v : shaped n D -> shaped n (mset D i j v).
Proof.
  intros [H1 H2]. unfold mset. split.
  - rewrite upd_nth_length; auto.
  - intros a Ha. destruct (Nat.eq_dec i a) as [->|Hne].
    + rewrite nth_upd_nth_same by lia. rewrite upd_nth_length. auto.
    + rewrite nth_upd_nth_other by auto. auto.
Qed.
Lemma mget_mset_same n D i j v : shaped n D -> (i < n)%nat -> (j < n)%nat -> mget (mset D i j v) i j = v.
Proof.
  intros [H1 H2] Hi Hj. unfold mget, mset. rewrite nth_upd_nth_same by lia.
  apply nth_upd_nth_same. rewrite H2; auto.
Qed.
Lemma mget_mset_other n D i j a b v : shaped n D -> (i, j) <> (a, b) -> mget (mset D i j v) a b = mget D a b.
Proof.
  intros [H1 H2] Hne. unfold mget, mset.
  destruct (Nat.eq_dec i a) as [->|Hia].
  - destruct (Nat.lt_ge_cases a (length D)).
    + rewrite nth_upd_nth_same by lia. apply nth_upd_nth_other. congruence.
    + rewrite (nth_overflow D [] H).
      rewrite (nth_overflow (upd_nth D a _) []) by (rewrite upd_nth_length; auto). reflexivity.
  - rewrite nth_upd_nth_other; auto.
Qed.
