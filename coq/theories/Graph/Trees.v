(* C12 - finite multigraphs on nat as edge lists: degree, leaves, connectedness, acyclicity ("every edge is a
   bridge", order- and orientation-independent), trees; executable deciders with soundness and completeness;
   Kruskal's construction over quick-find.  Self-contained (imports only Graph/UnionFind.v). *)
From Coq Require Import List Arith Lia Bool Permutation.
From Adapt Require Import Graph.UnionFind.
Import ListNotations.

(* ------------------------------------------------------------------ degrees and nodes *)
Fixpoint deg (g : graph) (x : nat) : nat :=
  match g with
  | [] => 0
  | (a, b) :: r => (if Nat.eqb a x then 1 else 0) + (if Nat.eqb b x then 1 else 0) + deg r x
  end.
Definition nodes (g : graph) : list nat := map fst g ++ map snd g.

Lemma deg_perm g h x : Permutation g h -> deg g x = deg h x.
Proof.
  intro P. induction P; cbn [deg]; try lia.
  - destruct x0. lia.
  - destruct x0, y. lia.
Qed.

Lemma deg_app g h x : deg (g ++ h) x = deg g x + deg h x.
Proof. induction g as [|[a b] r IH]; cbn [deg app]; lia. Qed.

Lemma nodes_deg g x : In x (nodes g) <-> deg g x > 0.
Proof.
  unfold nodes. induction g as [|[a b] r IH]; cbn [map app deg fst snd].
  - cbn. split; [tauto|lia].
  - rewrite in_app_iff in IH. cbn [In]. rewrite in_app_iff. cbn [In]. destruct IH as [I1 I2].
    destruct (Nat.eqb_spec a x), (Nat.eqb_spec b x); split; intro H; try lia; try tauto.
Qed.

Lemma conn_nodes g x y : conn g x y -> x = y \/ (deg g x > 0 /\ deg g y > 0).
Proof.
  intro C. induction C.
  - left. reflexivity.
  - right. split; apply nodes_deg; unfold nodes; apply in_or_app.
    + left. change u with (fst (u, v)). apply in_map. exact H.
    + right. change v with (snd (u, v)). apply in_map. exact H.
  - destruct IHC as [->|[H1 H2]]; [left; reflexivity|right; tauto].
  - destruct IHC1 as [->|[H1 H2]]; [exact IHC2|]. destruct IHC2 as [<-|[K1 K2]]; right; tauto.
Qed.

(* ------------------------------------------------------------------ declarative notions *)
Definition connected (g : graph) : Prop := forall x y, deg g x > 0 -> deg g y > 0 -> conn g x y.
(* no cycle (parallel edges and self-loops count as cycles): however one edge occurrence e is singled out, its end
   points are not joined by the other edges, i.e. every edge is a bridge *)
Definition acyclic (g : graph) : Prop := forall e k, Permutation g (e :: k) -> ~ conn k (fst e) (snd e).
Definition is_tree (g : graph) : Prop := connected g /\ acyclic g.
(* T lists exactly the degree-1 nodes *)
Definition leaves_are (g : graph) (T : list nat) : Prop := forall x, In x T <-> deg g x = 1.

Lemma acyclic_perm g h : Permutation g h -> acyclic g -> acyclic h.
Proof. intros P A e k Pk. apply (A e k). eapply Permutation_trans; eauto. Qed.

Lemma acyclic_nil : acyclic [].
Proof. intros e k P. apply Permutation_nil in P. discriminate. Qed.

Lemma edge_eq_dec (e f : edge) : {e = f} + {e <> f}.
Proof. decide equality; apply Nat.eq_dec. Qed.

(* the incremental characterisation used by every proof below *)
Lemma acyclic_cons a b r : acyclic ((a, b) :: r) <-> acyclic r /\ ~ conn r a b.
Proof.
  split.
  - intro A. split.
    + intros f k P C. apply (A f ((a, b) :: k)).
      * eapply Permutation_trans; [apply perm_skip; exact P|apply perm_swap].
      * apply conn_cons_mono. exact C.
    + apply (A (a, b) r). apply Permutation_refl.
  - intros [A N] f k P C.
    destruct (edge_eq_dec (a, b) f) as [E|NE].
    + subst f. apply Permutation_cons_inv in P. apply N. eapply conn_perm; [apply Permutation_sym; exact P|exact C].
    + assert (Hin : In (a, b) k).
      { assert (H : In (a, b) (f :: k)) by (eapply Permutation_in; [exact P|left; reflexivity]).
        destruct H; [congruence|assumption]. }
      apply in_split in Hin. destruct Hin as (k1 & k2 & ->).
      assert (P2 : Permutation r (f :: k1 ++ k2)).
      { apply (Permutation_cons_inv (a := (a, b))).
        eapply Permutation_trans; [exact P|].
        eapply Permutation_trans; [apply perm_skip; apply Permutation_sym; apply Permutation_middle|]. apply perm_swap. }
      assert (C2 : conn ((a, b) :: k1 ++ k2) (fst f) (snd f)).
      { eapply conn_perm; [|exact C]. apply Permutation_sym. apply Permutation_middle. }
      apply conn_cons_split in C2.
      assert (Ef : conn r (fst f) (snd f)).
      { apply c_edge. eapply Permutation_in; [apply Permutation_sym; exact P2|]. left. destruct f. reflexivity. }
      assert (Sub : forall x y, conn (k1 ++ k2) x y -> conn r x y).
      { intros x y Cx. eapply conn_perm; [apply Permutation_sym; exact P2|]. apply conn_cons_mono. exact Cx. }
      destruct C2 as [C2|[[C2 C3]|[C2 C3]]].
      * exact (A f (k1 ++ k2) P2 C2).
      * apply N. eapply c_trans; [apply c_sym; apply Sub; exact C2|]. eapply c_trans; [exact Ef|]. apply c_sym. apply Sub. exact C3.
      * apply N. eapply c_trans; [apply Sub; exact C3|]. eapply c_trans; [apply c_sym; exact Ef|]. apply Sub. exact C2.
Qed.

Lemma acyclic_flip a b r : acyclic ((a, b) :: r) -> acyclic ((b, a) :: r).
Proof. rewrite !acyclic_cons. intros [A N]. split; [exact A|]. intro C. apply N. apply c_sym. exact C. Qed.

Lemma acyclic_no_loop g a : acyclic g -> ~ In (a, a) g.
Proof.
  intros A Hin. apply in_split in Hin. destruct Hin as (g1 & g2 & ->).
  apply (A (a, a) (g1 ++ g2)); [apply Permutation_sym; apply Permutation_middle|apply c_refl].
Qed.

(* ------------------------------------------------------------------ deciders *)
(* forest check: edges are added one at a time to quick-find; an edge inside one class closes a cycle *)
Fixpoint forest_uf (g : graph) : option uf :=
  match g with
  | [] => Some uf_init
  | (a, b) :: r =>
      match forest_uf r with
      | None => None
      | Some u => if uf_same u a b then None else Some (uf_union u a b)
      end
  end.

Lemma forest_uf_spec g :
  match forest_uf g with
  | Some u => acyclic g /\ uf_rep u g
  | None => ~ acyclic g
  end.
Proof.
  induction g as [|[a b] r IH]; cbn [forest_uf].
  - split; [apply acyclic_nil|apply uf_rep_init].
  - destruct (forest_uf r) as [u|].
    + destruct IH as [A R]. destruct (uf_same u a b) eqn:E.
      * intro A2. apply acyclic_cons in A2. destruct A2 as [_ N]. apply N. apply (uf_same_spec u r a b R). exact E.
      * split; [|apply uf_rep_union; exact R].
        apply acyclic_cons. split; [exact A|]. intro C. apply (uf_same_spec u r a b R) in C. congruence.
    + intro A2. apply acyclic_cons in A2. tauto.
Qed.

Definition acyclicb (g : graph) : bool := match forest_uf g with Some _ => true | None => false end.
Lemma acyclicb_spec g : acyclicb g = true <-> acyclic g.
Proof.
  unfold acyclicb. pose proof (forest_uf_spec g) as H. destruct (forest_uf g); split; intro K; try tauto; try discriminate.
Qed.

Definition connectedb (g : graph) : bool :=
  match nodes g with
  | [] => true
  | x :: r => forallb (uf_same (comp_uf g) x) r
  end.
Lemma connectedb_spec g : connectedb g = true <-> connected g.
Proof.
  unfold connectedb, connected. pose proof (comp_uf_rep g) as R.
  destruct (nodes g) as [|x0 r] eqn:En.
  - split; [|reflexivity]. intros _ x y Hx. apply nodes_deg in Hx. rewrite En in Hx. contradiction.
  - rewrite forallb_forall. split.
    + intros H x y Hx Hy. apply nodes_deg in Hx, Hy. rewrite En in Hx, Hy.
      assert (K : forall z, In z (x0 :: r) -> conn g x0 z).
      { intros z [<-|Hz]; [apply c_refl|]. apply (uf_same_spec _ g x0 z R). apply H. exact Hz. }
      eapply c_trans; [apply c_sym; apply K; exact Hx|apply K; exact Hy].
    + intros H z Hz. apply (uf_same_spec _ g x0 z R). apply H; apply nodes_deg; rewrite En; [left; reflexivity|right; exact Hz].
Qed.

Definition memb (x : nat) (l : list nat) : bool := existsb (Nat.eqb x) l.
Lemma memb_spec x l : memb x l = true <-> In x l.
Proof.
  unfold memb. rewrite existsb_exists. split.
  - intros (y & Hy & E). apply Nat.eqb_eq in E. subst. exact Hy.
  - intro H. exists x. split; [exact H|apply Nat.eqb_refl].
Qed.

Definition leavesb (g : graph) (T : list nat) : bool :=
  forallb (fun x => Nat.eqb (deg g x) 1) T &&
  forallb (fun x => negb (Nat.eqb (deg g x) 1) || memb x T) (nodes g).
Lemma leavesb_spec g T : leavesb g T = true <-> leaves_are g T.
Proof.
  unfold leavesb, leaves_are. rewrite andb_true_iff, !forallb_forall. split.
  - intros [H1 H2] x. split.
    + intro Hx. apply Nat.eqb_eq. apply H1. exact Hx.
    + intro Hd. assert (Hn : In x (nodes g)) by (apply nodes_deg; lia).
      specialize (H2 x Hn). rewrite Hd in H2. cbn in H2. apply memb_spec. exact H2.
  - intro H. split.
    + intros x Hx. apply Nat.eqb_eq. apply H. exact Hx.
    + intros x _. destruct (Nat.eqb_spec (deg g x) 1) as [E|E]; [|reflexivity]. cbn. apply memb_spec. apply H. exact E.
Qed.

Definition leaves (g : graph) : list nat := nodup Nat.eq_dec (filter (fun x => Nat.eqb (deg g x) 1) (nodes g)).
Lemma leaves_spec g : leaves_are g (leaves g).
Proof.
  intro x. unfold leaves. rewrite nodup_In, filter_In, Nat.eqb_eq, nodes_deg. lia.
Qed.

Definition is_treeb (g : graph) : bool := connectedb g && acyclicb g.
Definition is_tree_with_leaves (g : graph) (T : list nat) : bool := connectedb g && acyclicb g && leavesb g T.

Theorem tree_checker_sound_complete g T :
  is_tree_with_leaves g T = true <-> connected g /\ acyclic g /\ leaves_are g T.
Proof.
  unfold is_tree_with_leaves. rewrite !andb_true_iff, connectedb_spec, acyclicb_spec, leavesb_spec. tauto.
Qed.

(* ------------------------------------------------------------------ Kruskal over quick-find *)
Fixpoint kruskal_aux (cands : graph) (u : uf) (acc : graph) : graph * uf :=
  match cands with
  | [] => (acc, u)
  | (a, b) :: r => if uf_same u a b then kruskal_aux r u acc
                   else kruskal_aux r (uf_union u a b) ((a, b) :: acc)
  end.
Definition kruskal (cands : graph) : graph := fst (kruskal_aux cands uf_init []).

Lemma kruskal_aux_spec cands : forall u acc, acyclic acc -> uf_rep u acc ->
  let t := fst (kruskal_aux cands u acc) in
  acyclic t /\ uf_rep (snd (kruskal_aux cands u acc)) t /\ incl t (cands ++ acc) /\
  (forall x y, conn t x y <-> conn (cands ++ acc) x y).
Proof.
  induction cands as [|[a b] r IH]; intros u acc A R; cbn [kruskal_aux app].
  - cbn [fst snd]. split; [exact A|]. split; [exact R|]. split; [apply incl_refl|]. intros; tauto.
  - destruct (uf_same u a b) eqn:E.
    + destruct (IH u acc A R) as (A' & R' & I' & C'). split; [exact A'|]. split; [exact R'|]. split; [|intros x y; split].
      * intros e He. right. apply I'. exact He.
      * intro Ct. apply conn_cons_mono. apply C'. exact Ct.
      * intro Cc. apply C'. apply conn_cons_redundant in Cc; [exact Cc|].
        apply (conn_incl acc); [apply incl_appr; apply incl_refl|]. apply (uf_same_spec u acc a b R). exact E.
    + assert (A2 : acyclic ((a, b) :: acc)).
      { apply acyclic_cons. split; [exact A|]. intro C. apply (uf_same_spec u acc a b R) in C. congruence. }
      destruct (IH (uf_union u a b) ((a, b) :: acc) A2 (uf_rep_union u acc a b R)) as (A' & R' & I' & C').
      assert (P : Permutation (r ++ (a, b) :: acc) ((a, b) :: r ++ acc)) by (apply Permutation_sym; apply Permutation_middle).
      split; [exact A'|]. split; [exact R'|]. split; [|intros x y; split].
      * intros e He. apply I' in He. eapply Permutation_in; [exact P|exact He].
      * intro Ct. eapply conn_perm; [exact P|]. apply C'. exact Ct.
      * intro Cc. apply C'. eapply conn_perm; [apply Permutation_sym; exact P|exact Cc].
Qed.

(* the union-find construction yields an acyclic subgraph of the candidates with the same connectivity: if the candidate
   edges connect all terminals, the result is an acyclic connected subgraph containing every terminal *)
Theorem kruskal_spanning cands :
  acyclic (kruskal cands) /\ incl (kruskal cands) cands /\
  (forall x y, conn (kruskal cands) x y <-> conn cands x y) /\
  (forall T, (forall x y, In x T -> In y T -> conn cands x y) ->
             forall x y, In x T -> In y T -> conn (kruskal cands) x y).
Proof.
  unfold kruskal.
  destruct (kruskal_aux_spec cands uf_init [] acyclic_nil uf_rep_init) as (A & _ & I & C).
  rewrite app_nil_r in *. split; [exact A|]. split; [exact I|]. split; [exact C|].
  intros T H x y Hx Hy. apply C. apply H; assumption.
Qed.

Example kruskal_nonvacuous :
  kruskal [(1, 2); (2, 3); (3, 1); (3, 4); (4, 1)] = [(3, 4); (2, 3); (1, 2)] /\
  is_tree_with_leaves (kruskal [(1, 2); (2, 3); (3, 1); (3, 4); (4, 1)]) [1; 4] = true.
Proof. vm_compute. split; reflexivity. Qed.

Example tree_checker_nonvacuous :
  is_tree_with_leaves [(10, 1); (10, 2); (10, 11); (11, 3); (11, 4)] [1; 2; 3; 4] = true /\
  is_tree_with_leaves [(10, 1); (10, 2); (10, 11); (11, 3); (11, 4); (3, 4)] [1; 2] = false /\   (* cycle *)
  is_tree_with_leaves [(10, 1); (10, 2); (11, 3); (11, 4)] [1; 2; 3; 4] = false /\               (* disconnected *)
  is_tree_with_leaves [(10, 1); (10, 2); (10, 11); (11, 3); (11, 4)] [1; 2; 3] = false.          (* a leaf is not a terminal *)
Proof. vm_compute. repeat split. Qed.
