(* C17 / C04 / C05 - executable model of Dijkstra's algorithm, generic in the vertex type, the adjacency
   function, the finite map holding the tentative distances and the priority queue ("extract an element with
   minimal key", any tie-break).  No proofs here (Dijkstra.v).

   It mirrors shortest_paths::dijkstra (cola/libcola/shortest_paths.h:178-209):
     for all i: vs[i].d = max();  vs[s].d = 0;  Q = all nodes
     while (!Q.isEmpty()) { u = Q.extractMin();  d[u->id] = u->d;
        for each neighbour (v,w) of u in push order:
            if (u->d != max() && v->d > u->d + w) { v->d = u->d + w; Q.decreaseKey(v) } }
   `out` is the result array d[], written when a node is extracted.  johnsons = dijkstra from every source
   on the same adjacency lists.  The instance for libcola's graphs (nat vertices, list maps, linear-scan
   queue) is at the end; computePathLengths (colafd.cpp:227-273) is modelled on top of it. *)
From Adapt Require Import Num.Qaux Graph.Paths.
Local Open Scope Q_scope.

Section Generic.
  Variable V : Type.
  Variable adj : V -> list (V * Q).
  Variable M : Type.                       (* finite map V -> oQ *)
  Variable get : M -> V -> oQ.
  Variable upd : M -> V -> oQ -> M.
  Variable extract : M -> list V -> option (V * list V).   (* the priority queue, keyed by the current map *)

  (* if (u->d != max && v->d > u->d + w) { v->d = u->d + w; } -- u->d is re-read for every neighbour *)
  Definition relax_edge (u : V) (d : M) (e : V * Q) : M :=
    let (v, w) := e in
    match get d u with
    | None => d
    | Some x => let c := Some (Qred (x + w)) in if oltb c (get d v) then upd d v c else d
    end.

  Inductive result : Type := Done (out : M) | OutOfFuel.

  Fixpoint dijkstra_loop (fuel : nat) (d out : M) (q : list V) : result :=
    match extract d q with
    | None => Done out
    | Some (u, q') =>
        match fuel with
        | O => OutOfFuel
        | S f => dijkstra_loop f (fold_left (relax_edge u) (adj u) d) (upd out u (get d u)) q'
        end
    end.

  (* empty = the map with every key at the sentinel; out0 = the (uninitialised) result array *)
  Definition dijkstra (empty out0 : M) (vs : list V) (s : V) : result :=
    dijkstra_loop (length vs) (upd empty s (Some 0)) out0 vs.

  (* a queue that satisfies the abstraction: linear scan for the first minimal key *)
  Fixpoint extract_min (d : M) (q : list V) : option (V * list V) :=
    match q with
    | [] => None
    | u :: q' =>
        match extract_min d q' with
        | None => Some (u, [])
        | Some (m, r) => if oltb (get d m) (get d u) then Some (m, u :: r) else Some (u, q')
        end
    end.
End Generic.

Arguments Done {M} out.
Arguments OutOfFuel {M}.

(* ------------------------------------------------------------------ instance: libcola graphs *)
(* total list map: reading beyond the end gives the sentinel, writing beyond the end pads (never happens for
   vertices < n; it makes the map laws unconditional) *)
Definition lget (m : list oQ) (v : nat) : oQ := nth v m None.
Fixpoint lupd (m : list oQ) (v : nat) (x : oQ) : list oQ :=
  match v, m with
  | O, [] => [x]
  | O, _ :: t => x :: t
  | S v', [] => None :: lupd [] v' x
  | S v', h :: t => h :: lupd t v' x
  end.

Definition dijkstra_nat (n : nat) (es : list edge) (s : nat) : result (list oQ) :=
  dijkstra nat (adj_of es) (list oQ) lget lupd (extract_min nat (list oQ) lget)
           (repeat None n) (repeat None n) (seq 0 n) s.

(* johnsons(n, D, es, eweights): row k of D = dijkstra from k; None = out of fuel (excluded by the theorems) *)
Definition johnsons (n : nat) (es : list edge) : option matrix :=
  fold_right (fun s acc => match dijkstra_nat n es s, acc with
                           | Done row, Some rows => Some (row :: rows)
                           | _, _ => None
                           end) (Some []) (seq 0 n).

(* ------------------------------------------------------------------ ConstrainedFDLayout::computePathLengths *)
(* "Correct zero or negative entries in eLengths array": if (eLengths[i] <= 0) eLengths[i] = 1 *)
Definition fix_length (w : Q) : Q := if Qleb w 0 then 1 else w.
Definition fix_lengths (es : list edge) : list edge := map (fun e : edge => let '(u, v, w) := e in (u, v, fix_length w)) es.

Definition has_edge (es : list edge) (i j : nat) : bool :=
  existsb (fun e : edge => let '(u, v, _) := e in (Nat.eqb u i && Nat.eqb v j) || (Nat.eqb u j && Nat.eqb v i)) es.

(* D[i][j] (i != j): DBL_MAX stays, otherwise d *= idealLength;  the diagonal is left as johnsons wrote it.
   G[i][j] (i != j): 1 if some edge joins i and j, else 0 if D[i][j] == DBL_MAX, else 2.
   G[i][i] is not written by the C++ (uninitialised unless a self-loop edge sets it to 1): None here. *)
Definition scale_entry (ideal : Q) (i j : nat) (o : oQ) : oQ :=
  if Nat.eqb i j then o else match o with None => None | Some d => Some (Qred (d * ideal)) end.
Definition g_entry (es : list edge) (i j : nat) (o : oQ) : option nat :=
  if has_edge es i j then Some 1%nat
  else if Nat.eqb i j then None
  else match o with None => Some 0%nat | Some _ => Some 2%nat end.

Definition mapi2 {A B} (f : nat -> nat -> A -> B) (D : list (list A)) : list (list B) :=
  map (fun ir => map (fun jx => f (fst ir) (fst jx) (snd jx)) (combine (seq 0 (length (snd ir))) (snd ir)))
      (combine (seq 0 (length D)) D).

Definition compute_path_lengths (n : nat) (es : list edge) (ideal : Q) : option (matrix * list (list (option nat))) :=
  match johnsons n (fix_lengths es) with
  | None => None
  | Some J => Some (mapi2 (scale_entry ideal) J, mapi2 (g_entry es) J)
  end.
