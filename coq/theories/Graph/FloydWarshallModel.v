(* C17 - executable model of shortest_paths::floyd_warshall (cola/libcola/shortest_paths.h:113-138).
   No proofs here (they are in FloydWarshall.v) so that the model still extracts when a proof breaks.

   C++:
     for i, j:  D[i][j] = (i==j) ? 0 : numeric_limits<T>::max();
     for each edge e=(u,v) with weight w:   D[u][v] = D[v][u] = w;                 <- fw_init_current
        (planned fix F-a)                   if (u != v && w < D[u][v]) D[u][v] = D[v][u] = w;   <- fw_init_fixed
     for k, i, j:  D[i][j] = std::min(D[i][j], D[i][k] + D[k][j]);                 <- fw_loops

   The sentinel max() is None; std::min(a,b) is `omin` (b < a ? b : a); + is `oplus` (Paths.v).
   The triple loop is written twice:
   * fw_loops_lit: the literal element-wise fold (mget/mset on the whole matrix for every j) - obviously the
     C++ loop, but O(n) list traversal per element;
   * fw_loops: the same in-place computation organised per row: the j-loop walks row i and row k in step and
     threads the current value of D[i][k] (which the loop itself overwrites when j = k).  For i = k row k is
     row i itself and every D[k][j] is read at step j before it is written, i.e. it is the old entry.
     This is the one the theorems are about and the one run against the implementation on every input; the
     check also runs fw_loops_lit against it (and against the implementation) on the smaller inputs.
     FloydWarshallLit.v proves fw_loops_lit n D = fw_loops n D for every well-shaped D. *)
From Adapt Require Import Num.Qaux Graph.Paths.
Local Open Scope Q_scope.

Definition init_matrix (n : nat) : matrix :=
  map (fun i => map (fun j => if Nat.eqb i j then Some 0 else None) (seq 0 n)) (seq 0 n).

(* D[u][v] = D[v][u] = w *)
Definition fw_init_step_current (D : matrix) (e : edge) : matrix :=
  let '(u, v, w) := e in mset (mset D v u (Some w)) u v (Some w).
(* if (u != v && w < D[u][v]) D[u][v] = D[v][u] = w *)
Definition fw_init_step_fixed (D : matrix) (e : edge) : matrix :=
  let '(u, v, w) := e in
  if negb (Nat.eqb u v) && oltb (Some w) (mget D u v) then mset (mset D v u (Some w)) u v (Some w) else D.

Definition fw_init_current (n : nat) (es : list edge) : matrix := fold_left fw_init_step_current es (init_matrix n).
Definition fw_init_fixed (n : nat) (es : list edge) : matrix := fold_left fw_init_step_fixed es (init_matrix n).

(* D[i][j] = std::min(D[i][j], D[i][k] + D[k][j]) *)
Definition relax (dij dik dkj : oQ) : oQ := omin dij (oplus dik dkj).

(* literal loops *)
Definition fw_step_lit (k i : nat) (D : matrix) (j : nat) : matrix :=
  mset D i j (relax (mget D i j) (mget D i k) (mget D k j)).
Definition fw_loops_lit (n : nat) (D : matrix) : matrix :=
  fold_left (fun D k => fold_left (fun D i => fold_left (fw_step_lit k i) (seq 0 n) D) (seq 0 n) D) (seq 0 n) D.

(* row-organised loops *)
Fixpoint row_relax (j k : nat) (dik : oQ) (ri rk : list oQ) : list oQ :=
  match ri, rk with
  | dij :: ri', dkj :: rk' =>
      let v := relax dij dik dkj in
      v :: row_relax (S j) k (if Nat.eqb j k then v else dik) ri' rk'
  | _, _ => ri
  end.
Definition phase_row (k : nat) (D : matrix) (i : nat) : matrix :=
  let ri := nth i D [] in
  upd_nth D i (row_relax 0 k (nth k ri None) ri (nth k D [])).
Definition phase (n k : nat) (D : matrix) : matrix := fold_left (phase_row k) (seq 0 n) D.
Definition fw_loops (n : nat) (D : matrix) : matrix := fold_left (fun D k => phase n k D) (seq 0 n) D.

(* the two variants of the whole function; `fw` is the one the implementation is expected to follow once the
   F-a repair is committed (the check determines on every run which one the compiled code follows) *)
Definition fw_current (n : nat) (es : list edge) : matrix := fw_loops n (fw_init_current n es).
Definition fw_fixed (n : nat) (es : list edge) : matrix := fw_loops n (fw_init_fixed n es).
Definition fw_current_lit (n : nat) (es : list edge) : matrix := fw_loops_lit n (fw_init_current n es).
Definition fw_fixed_lit (n : nat) (es : list edge) : matrix := fw_loops_lit n (fw_init_fixed n es).

(* eweights.size() == 0 means "all weights 1" in every function of shortest_paths.h *)
Definition mk_edges (ends : list (nat * nat)) (ws : list Q) : list edge :=
  match ws with
  | [] => map (fun p => (fst p, snd p, 1)) ends
  | _ => map (fun pw => (fst (fst pw), snd (fst pw), snd pw)) (combine ends ws)
  end.
