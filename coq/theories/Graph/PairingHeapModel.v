(* C17 - functional mirror of PairingHeap<T,TCompare> (cola/libvpsc/pairing_heap.h).  No proofs here.
   A PairNode {element, leftChild, nextSibling, prev} is `Node id x l s` (l = leftChild, s = nextSibling; `prev`
   is implicit in the position; `id` is the node's identity = the PairNode* handed out by insert()).
   lt is TCompare::operator() ("lessThan"). *)
From Coq Require Import List Bool Arith.
Import ListNotations.

Section Heap.
  Variable E : Type.
  Variable lt : E -> E -> bool.

  Inductive node : Type :=
  | Nil
  | Node (id : nat) (x : E) (l s : node).

  (* compareAndLink(first, second), second != nullptr; first->nextSibling is nullptr on entry.
     lessThan(second,first): first becomes the leftmost child of second
     else:                   second becomes the leftmost child of first, first takes over second's nextSibling *)
  Definition link (a b : node) : node :=
    match a, b with
    | Node ia xa la _, Node ib xb lb sb =>
        if lt xb xa then Node ib xb (Node ia xa la lb) sb
        else Node ia xa (Node ib xb lb la) sb
    | _, Nil => a           (* if (second == nullptr) return; *)
    | Nil, _ => b           (* not reached: first may not be nullptr *)
    end.

  (* combineSiblings: "store the subtrees in an array", breaking the sibling links *)
  Fixpoint siblings (t : node) : list node :=
    match t with
    | Nil => []
    | Node i x l s => Node i x l Nil :: siblings s
    end.
  (* "combine subtrees two at a time, going left to right"; an odd last tree is left for pass2, which links it
     into the last pair first, exactly as the j == numSiblings - 3 case does *)
  Fixpoint pass1 (ts : list node) : list node :=
    match ts with
    | a :: b :: rest => link a b :: pass1 rest
    | _ => ts
    end.
  (* "go right to left, merging last tree with next to last" *)
  Fixpoint pass2 (ts : list node) : node :=
    match ts with
    | [] => Nil
    | [t] => t
    | t :: rest => link t (pass2 rest)
    end.
  Definition combine_siblings (first : node) : node :=
    match first with
    | Node _ _ _ Nil => first            (* if (firstSibling->nextSibling == nullptr) return firstSibling; *)
    | _ => pass2 (pass1 (siblings first))
    end.

  Record heap : Type := mkheap { root : node; counter : nat }.
  Definition heap_empty : heap := mkheap Nil 0.

  Definition heap_insert (id : nat) (x : E) (h : heap) : heap :=
    match root h with
    | Nil => mkheap (Node id x Nil Nil) (S (counter h))
    | r => mkheap (link r (Node id x Nil Nil)) (S (counter h))
    end.

  (* None = throw Underflow *)
  Definition find_min (h : heap) : option E :=
    match root h with Nil => None | Node _ x _ _ => Some x end.
  Definition delete_min (h : heap) : option heap :=
    match root h with
    | Nil => None
    | Node _ _ Nil _ => Some (mkheap Nil (pred (counter h)))
    | Node _ _ l _ => Some (mkheap (combine_siblings l) (pred (counter h)))
    end.
  Definition heap_extract_min (h : heap) : option (E * heap) :=
    match find_min h, delete_min h with
    | Some x, Some h' => Some (x, h')
    | _, _ => None
    end.

  (* unlink the node `id` from the sibling chain / child list it sits in: returns the detached subtree
     (nextSibling := nullptr) and what is left *)
  Fixpoint cut (id : nat) (t : node) : option (node * node) :=
    match t with
    | Nil => None
    | Node i x l s =>
        if Nat.eqb i id then Some (Node i x l Nil, s)
        else match cut id l with
             | Some (c, l') => Some (c, Node i x l' s)
             | None => match cut id s with
                       | Some (c, s') => Some (c, Node i x l s')
                       | None => None
                       end
             end
    end.
  Definition set_elt (x : E) (t : node) : node :=
    match t with Nil => Nil | Node i _ l s => Node i x l s end.

  (* decreaseKey(p, newVal): p->element = newVal; if (p != root) { unlink p; compareAndLink(root, p); }
     (COLA_ASSERT(!lessThan(p->element,newVal)) is the caller's obligation) *)
  Definition decrease_key (id : nat) (x : E) (h : heap) : heap :=
    match root h with
    | Nil => h
    | Node ir xr lr sr =>
        if Nat.eqb ir id then mkheap (Node ir x lr sr) (counter h)
        else match cut id lr with
             | Some (c, lr') => mkheap (link (Node ir xr lr' sr) (set_elt x c)) (counter h)
             | None => h
             end
    end.

  (* merge(rhs): rhs is emptied *)
  Definition heap_merge (h rhs : heap) : heap :=
    match root h with
    | Nil => mkheap (root rhs) (counter h + counter rhs)
    | r => mkheap (link r (root rhs)) (counter h + counter rhs)
    end.

  (* the stored elements with their node identities, preorder *)
  Fixpoint elems (t : node) : list (nat * E) :=
    match t with
    | Nil => []
    | Node i x l s => (i, x) :: elems l ++ elems s
    end.
End Heap.

Arguments Nil {E}.
Arguments Node {E} id x l s.
