(* C17 - the row-organised Floyd-Warshall loops (fw_loops, which the correctness theorems are about) compute
   exactly what the literal element-wise triple loop (fw_loops_lit: mget/mset on the whole matrix for every
   k, i, j, as the C++ is written) computes, on every well-shaped matrix.  Hence the correctness theorems hold
   for the literal loops too (fw_correct_fixed_lit, fw_correct_lit). *)
From Adapt Require Import Num.Qaux Graph.Paths Graph.FloydWarshallModel Graph.FloydWarshall.
Local Open Scope Q_scope.

Lemma upd_nth_upd_nth {A} (l : list A) i a b : upd_nth (upd_nth l i a) i b = upd_nth l i b.
Proof. revert i; induction l as [|h t IH]; destruct i; simpl; auto. rewrite IH. reflexivity. Qed.
Lemma upd_nth_nth_same {A} (l : list A) i d : (i < length l)%nat -> upd_nth l i (nth i l d) = l.
Proof. revert i; induction l as [|h t IH]; destruct i; simpl; intros; try lia; auto. rewrite IH by lia. reflexivity. Qed.
Lemma upd_nth_middle {A} (l r : list A) a v : upd_nth (l ++ a :: r) (length l) v = l ++ v :: r.
Proof. induction l as [|h t IH]; simpl; auto. rewrite IH. reflexivity. Qed.
Lemma skipn_hd_nth {A} (l : list A) j a t d : skipn j l = a :: t -> nth j l d = a /\ skipn (S j) l = t.
Proof.
  revert l. induction j as [|j IH]; intros [|h l] H; simpl in *; try discriminate.
  - injection H as -> ->. auto.
  - apply IH in H. destruct H as [H1 H2]. split; auto.
Qed.

Section LitRow.
  Variable k : nat.
  Variable rk : list oQ.
  Variable same : bool.        (* i = k: row k is the row being rewritten *)

  Definition rowk (r : list oQ) : list oQ := if same then r else rk.
  Definition lit_row_step (r : list oQ) (j : nat) : list oQ :=
    upd_nth r j (relax (nth j r None) (nth k r None) (nth j (rowk r) None)).

  Lemma lit_row_fold : forall rest done rkrest,
    (if same then rkrest = rest else rkrest = skipn (length done) rk) ->
    (length rest <= length rkrest)%nat ->
    fold_left lit_row_step (seq (length done) (length rest)) (done ++ rest)
      = done ++ row_relax (length done) k (nth k (done ++ rest) None) rest rkrest.
  Proof.
    induction rest as [|dij rest IH]; intros done rkrest Hrk Hlen.
    - simpl. reflexivity.
    - destruct rkrest as [|dkj rkrest']; [cbn [length] in Hlen; lia|].
      cbn [length seq fold_left row_relax].
      set (dik := nth k (done ++ dij :: rest) None).
      assert (Edkj : nth (length done) (rowk (done ++ dij :: rest)) None = dkj /\
                     (if same then rkrest' = rest else rkrest' = skipn (S (length done)) rk)).
      { unfold rowk. destruct same.
        - injection Hrk as -> ->. split; auto. apply nth_middle.
        - symmetry in Hrk. apply (skipn_hd_nth _ _ _ _ None) in Hrk. destruct Hrk; auto. }
      destruct Edkj as [Edkj Hrk'].
      unfold lit_row_step at 2. rewrite Edkj, nth_middle. fold dik.
      set (v := relax dij dik dkj).
      rewrite upd_nth_middle.
      replace (done ++ v :: rest) with ((done ++ [v]) ++ rest) by (rewrite <- app_assoc; reflexivity).
      replace (S (length done)) with (length (done ++ [v])) by (rewrite app_length; simpl; lia).
      rewrite IH with (rkrest := rkrest').
      + rewrite <- !app_assoc. cbn [app]. f_equal. f_equal. f_equal.
        (* the value of D[i][k] after the write at position j0 *)
        destruct (Nat.eqb_spec (length done) k) as [<-|Hne].
        * apply nth_middle.
        * subst dik. rewrite <- (upd_nth_middle done rest dij v).
          apply nth_upd_nth_other. auto.
      + rewrite app_length. simpl. replace (length done + 1)%nat with (S (length done)) by lia. exact Hrk'.
      + cbn [length] in Hlen. lia.
  Qed.
End LitRow.

Section LitMatrix.
  Variable n : nat.

  Lemma lit_step_row k i D r j : (i < length D)%nat ->
    fw_step_lit k i (upd_nth D i r) j =
    upd_nth D i (lit_row_step k (nth k D []) (Nat.eqb i k) r j).
  Proof.
    intros Hi. unfold fw_step_lit, mset, mget, lit_row_step, rowk.
    rewrite nth_upd_nth_same by auto. rewrite upd_nth_upd_nth.
    destruct (Nat.eqb_spec i k) as [->|Hne].
    - rewrite nth_upd_nth_same by auto. reflexivity.
    - rewrite nth_upd_nth_other by auto. reflexivity.
  Qed.

  Lemma lit_fold_row k i D : (i < length D)%nat -> forall js r,
    fold_left (fw_step_lit k i) js (upd_nth D i r) =
    upd_nth D i (fold_left (lit_row_step k (nth k D []) (Nat.eqb i k)) js r).
  Proof.
    intros Hi. induction js as [|j js IH]; intros r; cbn [fold_left]; auto.
    rewrite lit_step_row by auto. apply IH.
  Qed.

  Lemma lit_row_eq k i D : shaped n D -> (i < n)%nat -> (k < n)%nat ->
    fold_left (fw_step_lit k i) (seq 0 n) D = phase_row k D i.
  Proof.
    intros [H1 H2] Hi Hk.
    rewrite <- (upd_nth_nth_same D i []) at 1 by lia.
    rewrite lit_fold_row by lia. unfold phase_row. f_equal.
    pose proof (lit_row_fold k (nth k D []) (Nat.eqb i k) (nth i D []) []
                  (if Nat.eqb i k then nth i D [] else nth k D [])) as L.
    cbn [length app] in L. rewrite H2 in L by auto. rewrite L.
    - destruct (Nat.eqb_spec i k) as [->|Hne]; reflexivity.
    - destruct (Nat.eqb i k); reflexivity.
    - destruct (Nat.eqb i k); rewrite ?H2; auto.
  Qed.

  Lemma phase_shaped k D : shaped n D -> forall l, Forall (fun i => (i < n)%nat) l ->
    shaped n (fold_left (phase_row k) l D).
  Proof.
    intros HD l Hl. revert D HD. induction Hl as [|a l Ha Hl IH]; intros D HD; cbn [fold_left]; auto.
    apply IH. apply phase_row_shaped; auto.
  Qed.

  Lemma lit_phase_eq k D : shaped n D -> (k < n)%nat ->
    fold_left (fun D i => fold_left (fw_step_lit k i) (seq 0 n) D) (seq 0 n) D = phase n k D.
  Proof.
    intros HD Hk. unfold phase.
    assert (G : forall l, Forall (fun i => (i < n)%nat) l -> forall D, shaped n D ->
               fold_left (fun D i => fold_left (fw_step_lit k i) (seq 0 n) D) l D = fold_left (phase_row k) l D).
    { intros l Hl. induction Hl as [|a l Ha Hl IH]; intros D0 HD0; cbn [fold_left]; auto.
      rewrite lit_row_eq by auto. apply IH. apply phase_row_shaped; auto. }
    apply G; auto. apply seq_lt.
  Qed.

  Theorem fw_loops_lit_eq D : shaped n D -> fw_loops_lit n D = fw_loops n D.
  Proof.
    intros HD. unfold fw_loops_lit, fw_loops.
    assert (G : forall l, Forall (fun k => (k < n)%nat) l -> forall D, shaped n D ->
               fold_left (fun D k => fold_left (fun D i => fold_left (fw_step_lit k i) (seq 0 n) D) (seq 0 n) D) l D
               = fold_left (fun D k => phase n k D) l D).
    { intros l Hl. induction Hl as [|a l Ha Hl IH]; intros D0 HD0; cbn [fold_left]; auto.
      rewrite lit_phase_eq by auto. apply IH. unfold phase. apply phase_shaped; auto. apply seq_lt. }
    apply G; auto. apply seq_lt.
  Qed.
End LitMatrix.

(* the correctness theorems for the literal loops *)
Theorem fw_correct_fixed_lit n es : wf_graph n es ->
  forall i j, (i < n)%nat -> (j < n)%nat -> dist (adj_of es) i j (mget (fw_fixed_lit n es) i j).
Proof.
  intros Hwf i j Hi Hj. unfold fw_fixed_lit.
  rewrite fw_loops_lit_eq by (apply (io_shaped n es _ (fw_init_fixed_ok n es Hwf))).
  apply (fw_correct_fixed n es Hwf); auto.
Qed.

Theorem fw_correct_lit n es : wf_graph n es -> no_self_loops es -> parallel_equal es ->
  forall i j, (i < n)%nat -> (j < n)%nat -> dist (adj_of es) i j (mget (fw_current_lit n es) i j).
Proof.
  intros Hwf H1 H2 i j Hi Hj. unfold fw_current_lit.
  rewrite fw_loops_lit_eq by (apply (io_shaped n es _ (fw_init_current_ok n es Hwf H1 H2))).
  apply (fw_correct n es Hwf H1 H2); auto.
Qed.

(* the refutation also holds for the literal loops (same witness) *)
Theorem fw_refuted_lit :
  exists n es i j, wf_graph n es /\ (i < n)%nat /\ (j < n)%nat /\ ~ dist (adj_of es) i j (mget (fw_current_lit n es) i j).
Proof.
  exists 3%nat, fa_edges, 0%nat, 1%nat. split; [apply fa_wf|]. split; [lia|]. split; [lia|].
  assert (E : mget (fw_current_lit 3 fa_edges) 0 1 = Some 9) by (vm_compute; reflexivity).
  rewrite E. intros [_ Hmin].
  assert (W : walk (adj_of fa_edges) 0%nat 1%nat (5 + 0)).
  { econstructor; [|constructor]. simpl. auto. }
  specialize (Hmin _ W). lra.
Qed.
