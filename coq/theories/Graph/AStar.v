(* C04 - A* with a consistent heuristic, as an abstract best-first search (generic in the vertex type, the adjacency
   function, the tie-breaking / priority-queue implementation; integer weights of any sign).

   State: tentative costs g : V -> option Z and the list of closed (expanded) vertices.  One step (astep) expands ANY open
   vertex u (labelled, not closed) whose f = g u + h u is minimal among the open vertices: u is closed and every edge
   (u, v, w) is relaxed (g v := min (g v) (g u + w)).  No re-opening is modelled: with a consistent heuristic it never
   happens (closed labels are final - part of the invariant).
     astar_optimal_with_consistent_heuristic
         h consistent (h u <= w + h v on every edge): in every reachable state, every open vertex u of minimal f - in
         particular the target at the moment the search selects it - carries the exact distance: g u is the cost of a
         real walk from s and <= the cost of every walk from s to u.
     astar_exhausted_unreachable
         in a reachable state without open vertices every vertex reachable from s is labelled (so an unlabelled target is
         unreachable).
   libavoid's A* (makepath.cpp) is NOT tied to this search by proof - only by cost equality with the reference router
   (checks/c04.py); its Euclidean estimate is admissible up to the floor-sqrt slack (euclid_heuristic_admissible). *)
From Coq Require Import ZArith List Bool Lia.
Import ListNotations.
Local Open Scope Z_scope.

Section AStar.
Variable V : Type.
Variable eq_dec : forall x y : V, {x = y} + {x <> y}.
Variable succs : V -> list (V * Z).
Variable h : V -> Z.
Variable s : V.
Hypothesis consistent : forall u v w, In (v, w) (succs u) -> h u <= w + h v.

Inductive walk : V -> V -> Z -> Prop :=
| walk_nil u : walk u u 0
| walk_step u v w x c : In (v, w) (succs u) -> walk v x c -> walk u x (w + c).

Lemma walk_snoc u x c v w : walk u x c -> In (v, w) (succs x) -> walk u v (c + w).
Proof.
  induction 1 as [u|u v' w' x c Hin Hw IH]; intro He.
  - replace (0 + w) with (w + 0) by lia. econstructor; [exact He|constructor].
  - replace (w' + c + w) with (w' + (c + w)) by lia. econstructor; [exact Hin|apply IH; exact He].
Qed.

Lemma consistent_walk u x c : walk u x c -> h u <= c + h x.
Proof. induction 1 as [u|u v w x c Hin Hw IH]; [lia|]. pose proof (consistent u v w Hin). lia. Qed.

(* ---- the search *)
Definition labels := V -> option Z.
Definition relax1 (gu : Z) (g : labels) (e : V * Z) : labels :=
  fun x => if eq_dec x (fst e)
           then match g x with
                | Some gx => if gu + snd e <? gx then Some (gu + snd e) else Some gx
                | None => Some (gu + snd e)
                end
           else g x.
Definition relax_all (gu : Z) (es : list (V * Z)) (g : labels) : labels := fold_left (relax1 gu) es g.

Definition is_open (g : labels) (cl : list V) (v : V) (gv : Z) : Prop := ~ In v cl /\ g v = Some gv.
(* u is an open vertex of minimal f = g + h *)
Definition selectable (g : labels) (cl : list V) (u : V) (gu : Z) : Prop :=
  is_open g cl u gu /\ forall v gv, is_open g cl v gv -> gu + h u <= gv + h v.

Definition g0 : labels := fun v => if eq_dec v s then Some 0 else None.

Inductive reach : labels -> list V -> Prop :=
| reach_init : reach g0 []
| reach_step g cl u gu : reach g cl -> selectable g cl u gu -> reach (relax_all gu (succs u) g) (u :: cl).

(* ---- relaxation facts *)
Lemma relax1_mono gu g e x y : g x = Some y -> exists y', relax1 gu g e x = Some y' /\ y' <= y.
Proof.
  intro H. unfold relax1. destruct (eq_dec x (fst e)); [|exists y; split; [exact H|lia]].
  rewrite H. destruct (gu + snd e <? y) eqn:E; [apply Z.ltb_lt in E|]; eexists; split; try reflexivity; lia.
Qed.
Lemma relax_all_mono gu es : forall g x y, g x = Some y -> exists y', relax_all gu es g x = Some y' /\ y' <= y.
Proof.
  induction es as [|e es IH]; intros g x y H; [exists y; split; [exact H|lia]|]. cbn [relax_all fold_left].
  destruct (relax1_mono gu g e x y H) as (y1 & H1 & L1).
  destruct (IH _ x y1 H1) as (y2 & H2 & L2). exists y2. split; [exact H2|lia].
Qed.
Lemma relax1_origin gu g e x y : relax1 gu g e x = Some y -> g x = Some y \/ (x = fst e /\ y = gu + snd e).
Proof.
  unfold relax1. destruct (eq_dec x (fst e)) as [E|]; [|auto].
  destruct (g x) as [gx|]; [destruct (gu + snd e <? gx)|]; intro H; inversion H; auto.
Qed.
Lemma relax_all_origin gu es : forall g x y, relax_all gu es g x = Some y ->
  g x = Some y \/ exists w, In (x, w) es /\ y = gu + w.
Proof.
  induction es as [|e es IH]; intros g x y H; [left; exact H|]. cbn [relax_all fold_left] in H.
  destruct (IH _ x y H) as [H1|(w & Hin & E)].
  - destruct (relax1_origin gu g e x y H1) as [H2|[E1 E2]]; [left; exact H2|].
    right. exists (snd e). split; [left; destruct e; cbn in *; subst; reflexivity|exact E2].
  - right. exists w. split; [right; exact Hin|exact E].
Qed.
Lemma relax1_done gu g v w : exists y, relax1 gu g (v, w) v = Some y /\ y <= gu + w.
Proof.
  unfold relax1. cbn [fst snd]. destruct (eq_dec v v); [|congruence].
  destruct (g v) as [gv|]; [destruct (gu + w <? gv) eqn:E; [|apply Z.ltb_ge in E]|]; eexists; split; try reflexivity; lia.
Qed.
Lemma relax_all_done gu es : forall g v w, In (v, w) es -> exists y, relax_all gu es g v = Some y /\ y <= gu + w.
Proof.
  induction es as [|e es IH]; intros g v w Hin; [destruct Hin|]. cbn [relax_all fold_left].
  destruct Hin as [->|Hin]; [|apply IH; exact Hin].
  destruct (relax1_done gu g v w) as (y & H1 & L1).
  destruct (relax_all_mono gu es _ v y H1) as (y' & H2 & L2). exists y'. split; [exact H2|lia].
Qed.

(* ---- the invariant *)
Record Inv (g : labels) (cl : list V) : Prop := {
  J_sound : forall v x, g v = Some x -> walk s v x;
  J_opt : forall u, In u cl -> exists gu, g u = Some gu /\ forall c, walk s u c -> gu <= c;
  J_rel : forall u gu, In u cl -> g u = Some gu ->
            forall v w, In (v, w) (succs u) -> exists gv, g v = Some gv /\ gv <= gu + w;
  J_src : exists gs, g s = Some gs /\ gs <= 0
}.

(* along a walk from a labelled vertex: either the label is propagated to the end, or an open vertex is met whose
   f-value is below (label + walk cost + h at the end) *)
Lemma along_walk g cl : Inv g cl -> forall x y c, walk x y c -> forall gx, g x = Some gx ->
  (exists gy, g y = Some gy /\ gy <= gx + c) \/
  (exists z gz, is_open g cl z gz /\ gz + h z <= gx + c + h y).
Proof.
  intros J x0 y0 c0 Hw0. induction Hw0 as [x|x v w y c Hin Hw IH]; intros gx Hx.
  - left. exists gx. split; [exact Hx|lia].
  - destruct (in_dec eq_dec x cl) as [Hc|Hc].
    + destruct (J_rel g cl J x gx Hc Hx v w Hin) as (gv & Hv & Lv).
      destruct (IH gv Hv) as [(gy & Hy & Ly)|(z & gz & Hz & Lz)].
      * left. exists gy. split; [exact Hy|lia].
      * right. exists z, gz. split; [exact Hz|lia].
    + right. exists x, gx. split; [split; assumption|].
      pose proof (consistent_walk x y (w + c) (walk_step x v w y c Hin Hw)). lia.
Qed.

Lemma selected_optimal g cl u gu : Inv g cl -> selectable g cl u gu -> forall c, walk s u c -> gu <= c.
Proof.
  intros J [[Hnc Hu] Hmin] c Hw. destruct (J_src g cl J) as (gs & Hs & Ls).
  destruct (along_walk g cl J s u c Hw gs Hs) as [(gy & Hy & Ly)|(z & gz & Hz & Lz)].
  - rewrite Hu in Hy. inversion Hy. lia.
  - specialize (Hmin z gz Hz). lia.
Qed.

Lemma Inv_init : Inv g0 [].
Proof.
  constructor.
  - intros v x H. unfold g0 in H. destruct (eq_dec v s); [|discriminate]. inversion H; subst. constructor.
  - intros u [].
  - intros u gu [].
  - exists 0. unfold g0. destruct (eq_dec s s); [split; [reflexivity|lia]|congruence].
Qed.

Lemma Inv_step g cl u gu : Inv g cl -> selectable g cl u gu -> Inv (relax_all gu (succs u) g) (u :: cl).
Proof.
  intros J Hsel. pose proof (selected_optimal g cl u gu J Hsel) as Hopt.
  destruct Hsel as [[Hnc Hu] Hmin].
  set (g' := relax_all gu (succs u) g).
  assert (S' : forall v x, g' v = Some x -> walk s v x).
  { intros v x H. destruct (relax_all_origin gu (succs u) g v x H) as [H1|(w & Hin & ->)].
    - apply (J_sound g cl J). exact H1.
    - apply (walk_snoc s u gu v w); [apply (J_sound g cl J); exact Hu|exact Hin]. }
  (* labels of closed vertices (old ones and u) are final *)
  assert (Fix : forall x gx, g x = Some gx -> (forall c, walk s x c -> gx <= c) -> g' x = Some gx).
  { intros x gx Hx Ho. destruct (relax_all_mono gu (succs u) g x gx Hx) as (y & Hy & Ly).
    pose proof (Ho y (S' x y Hy)). replace y with gx in Hy by lia. exact Hy. }
  constructor.
  - exact S'.
  - intros x [<-|Hx].
    + exists gu. split; [apply Fix; assumption|exact Hopt].
    + destruct (J_opt g cl J x Hx) as (gx & Hgx & Ho). exists gx. split; [apply Fix; assumption|exact Ho].
  - intros x gx' Hx Hgx' v w Hin.
    assert (Old : forall gx, g x = Some gx -> (forall c, walk s x c -> gx <= c) ->
                   (exists gv, g v = Some gv /\ gv <= gx + w) ->
                   exists gv', g' v = Some gv' /\ gv' <= gx' + w).
    { intros gx Hgx Ho (gv & Hv & Lv). rewrite (Fix x gx Hgx Ho) in Hgx'. inversion Hgx'; subst gx'.
      destruct (relax_all_mono gu (succs u) g v gv Hv) as (y & Hy & Ly). exists y. split; [exact Hy|lia]. }
    destruct Hx as [<-|Hx].
    + rewrite (Fix u gu Hu Hopt) in Hgx'. inversion Hgx'; subst gx'.
      apply relax_all_done. exact Hin.
    + destruct (J_opt g cl J x Hx) as (gx & Hgx & Ho).
      apply (Old gx Hgx Ho). apply (J_rel g cl J x gx Hx Hgx v w Hin).
  - destruct (J_src g cl J) as (gs & Hs & Ls).
    destruct (relax_all_mono gu (succs u) g s gs Hs) as (y & Hy & Ly). exists y. split; [exact Hy|lia].
Qed.

Lemma reach_Inv g cl : reach g cl -> Inv g cl.
Proof. induction 1; [apply Inv_init|apply Inv_step; assumption]. Qed.

(* C04: whatever the tie-breaking, the vertex a best-first search with a consistent heuristic selects carries its exact
   distance from the source - in particular the target when it is selected *)
Theorem astar_optimal_with_consistent_heuristic g cl t gt :
  reach g cl -> selectable g cl t gt ->
  walk s t gt /\ forall c, walk s t c -> gt <= c.
Proof.
  intros R Hsel. pose proof (reach_Inv g cl R) as J. split.
  - apply (J_sound g cl J). apply Hsel.
  - apply (selected_optimal g cl t gt J Hsel).
Qed.

(* closed vertices keep their exact distance for the rest of the search (no re-opening is ever needed) *)
Theorem astar_closed_final g cl u : reach g cl -> In u cl ->
  exists gu, g u = Some gu /\ walk s u gu /\ forall c, walk s u c -> gu <= c.
Proof.
  intros R Hu. pose proof (reach_Inv g cl R) as J. destruct (J_opt g cl J u Hu) as (gu & Hg & Ho).
  exists gu. split; [exact Hg|]. split; [apply (J_sound g cl J); exact Hg|exact Ho].
Qed.

(* the open list ran empty: everything reachable is labelled *)
Theorem astar_exhausted_unreachable g cl :
  reach g cl -> (forall v gv, ~ is_open g cl v gv) -> forall v c, walk s v c -> exists x, g v = Some x.
Proof.
  intros R Hno v c Hw. pose proof (reach_Inv g cl R) as J. destruct (J_src g cl J) as (gs & Hs & _).
  destruct (along_walk g cl J s v c Hw gs Hs) as [(gy & Hy & _)|(z & gz & Hz & _)].
  - exists gy. exact Hy.
  - exfalso. exact (Hno z gz Hz).
Qed.

End AStar.

(* ---------------------------------------------------------------- non-vacuity *)
(* 0 -> 1 (4), 0 -> 2 (1), 2 -> 1 (2); h 0 = 3, h 2 = 2, h 1 = 0 is consistent and not identically 0.  The search
   expands 0 (f = 3), then 2 (f = 3 < f 1 = 4), which improves 1 to 3; then 1 is selectable with its exact distance 3. *)
Definition ax_succs (u : nat) : list (nat * Z) :=
  match u with 0%nat => [(1%nat, 4); (2%nat, 1)] | 2%nat => [(1%nat, 2)] | _ => [] end.
Definition ax_h (u : nat) : Z := match u with 0%nat => 3 | 2%nat => 2 | _ => 0 end.

Lemma ax_consistent u v w : In (v, w) (ax_succs u) -> ax_h u <= w + ax_h v.
Proof.
  destruct u as [|[|[|u]]]; cbn; intros H; repeat (destruct H as [H|H]; [inversion H; subst; cbn; lia|]); destruct H.
Qed.

Example ax_search :
  let g1 := relax_all nat Nat.eq_dec 0 (ax_succs 0) (g0 nat Nat.eq_dec 0%nat) in
  let g2 := relax_all nat Nat.eq_dec 1 (ax_succs 2) g1 in
  reach nat Nat.eq_dec ax_succs ax_h 0%nat g2 [2%nat; 0%nat] /\
  selectable nat ax_h g2 [2%nat; 0%nat] 1%nat 3.
Proof.
  cbn zeta.
  assert (R1 : reach nat Nat.eq_dec ax_succs ax_h 0%nat
                 (relax_all nat Nat.eq_dec 0 (ax_succs 0) (g0 nat Nat.eq_dec 0%nat)) [0%nat]).
  { apply reach_step; [apply reach_init|]. split; [split; [intros []|reflexivity]|].
    intros v gv [_ Hv]. unfold g0 in Hv. destruct (Nat.eq_dec v 0); [|discriminate]. subst. inversion Hv. cbn. lia. }
  split.
  - apply (reach_step nat Nat.eq_dec ax_succs ax_h 0%nat _ [0%nat] 2%nat 1 R1).
    split; [split; [cbn; intuition discriminate|reflexivity]|].
    intros v gv [Hn Hv]. destruct v as [|[|[|v]]]; cbn in Hv; try discriminate; inversion Hv; cbn; try lia;
      exfalso; apply Hn; cbn; auto.
  - split; [split; [cbn; intuition discriminate|reflexivity]|].
    intros v gv [Hn Hv]. destruct v as [|[|[|v]]]; cbn in Hv; try discriminate; inversion Hv; cbn; try lia;
      exfalso; apply Hn; cbn; auto.
Qed.

Example ax_optimal : forall c, walk nat ax_succs 0%nat 1%nat c -> 3 <= c.
Proof.
  destruct ax_search as [R S].
  exact (proj2 (astar_optimal_with_consistent_heuristic nat Nat.eq_dec ax_succs ax_h 0%nat ax_consistent _ _ 1%nat 3 R S)).
Qed.
