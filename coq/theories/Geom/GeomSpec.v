(* Declarative geometry over Q: the meanings the libavoid predicates are proved against (C16). *)
From Adapt Require Import Num.Qaux.
Local Open Scope Q_scope.

Definition cross (a b c : pt) : Q :=
  (px b - px a) * (py c - py a) - (px c - px a) * (py b - py a).

(* sign as an integer, the contract of vecDir *)
Definition sgnQ (q : Q) : Z := if Qltb q 0 then (-1)%Z else if Qltb 0 q then 1%Z else 0%Z.

(* the point a + t (b - a) *)
Definition lerp (a b : pt) (t : Q) : pt :=
  mkpt (px a + t * (px b - px a)) (py a + t * (py b - py a)).

(* open segments ab and cd cross at a single interior point of both, and are not parallel *)
Definition properly_cross (a b c d : pt) : Prop :=
  exists s t, 0 < s /\ s < 1 /\ 0 < t /\ t < 1 /\ pt_eq (lerp a b s) (lerp c d t) /\
              ~ (px b - px a) * (py d - py c) - (py b - py a) * (px d - px c) == 0.

(* c lies strictly inside segment ab *)
Definition strictly_between (a b c : pt) : Prop :=
  ~ pt_eq a b /\ exists t, 0 < t /\ t < 1 /\ pt_eq c (lerp a b t).

(* c lies on the closed segment ab *)
Definition on_closed_segment (a b c : pt) : Prop :=
  exists t, 0 <= t /\ t <= 1 /\ pt_eq c (lerp a b t).

(* consecutive (prev, cur) vertex pairs of a closed polygon, in the order inPoly visits them *)
Definition poly_edges (P : list pt) : list (pt * pt) :=
  match P with
  | [] => []
  | p0 :: _ => combine (last P p0 :: removelast P) P
  end.

(* convex-position membership: q is on the inner (counter-clockwise, cross >= 0) side of every edge *)
Definition inside_all_edges (P : list pt) (q : pt) : Prop :=
  forall e, In e (poly_edges P) -> 0 <= cross (fst e) (snd e) q.
Definition strictly_inside_all_edges (P : list pt) (q : pt) : Prop :=
  forall e, In e (poly_edges P) -> 0 < cross (fst e) (snd e) q.

(* ---------------------------------------------------------------------------------------------
   C16 extension: segmentIntersectPoint / rayIntersectPoint / colinear / inBetween / ...        *)

(* the closed segments a1a2 and b1b2 have a common point *)
Definition segs_meet (a1 a2 b1 b2 : pt) : Prop :=
  exists s t, 0 <= s /\ s <= 1 /\ 0 <= t /\ t <= 1 /\ pt_eq (lerp a1 a2 s) (lerp b1 b2 t).

(* "f" of Antonio's algorithm: A x B with A = a2 - a1, B = b1 - b2; zero iff the directions are parallel
   (or one of the segments has length zero) *)
Definition sip_den (a1 a2 b1 b2 : pt) : Q :=
  (py a2 - py a1) * (px b1 - px b2) - (px a2 - px a1) * (py b1 - py b2).

(* p lies on the (infinite) line through a and b; for a = b this is the single point a *)
Definition on_line (a b p : pt) : Prop := exists t, pt_eq p (lerp a b t).

(* Meaning of a result (code, x', y') of segmentIntersectPoint called with out-parameters holding x, y. *)
Definition segmentIntersectPoint_meaning (a1 a2 b1 b2 : pt) (x y : Q) (r : Z * Q * Q) : Prop :=
  let code := fst (fst r) in let x' := snd (fst r) in let y' := snd r in
  (code = 1%Z <-> ~ sip_den a1 a2 b1 b2 == 0 /\ segs_meet a1 a2 b1 b2) /\
  (code = 3%Z <-> sip_den a1 a2 b1 b2 == 0 /\ segs_meet a1 a2 b1 b2) /\
  (code = 0%Z \/ code = 1%Z \/ code = 3%Z) /\
  (code = 1%Z -> on_closed_segment a1 a2 (mkpt x' y') /\ on_closed_segment b1 b2 (mkpt x' y') /\
                 forall p, on_closed_segment a1 a2 p -> on_closed_segment b1 b2 p -> pt_eq p (mkpt x' y')) /\
  (code <> 1%Z -> x' = x /\ y' = y).

(* Meaning of a result of rayIntersectPoint (infinite lines, no range tests). *)
Definition rayIntersectPoint_meaning (a1 a2 b1 b2 : pt) (x y : Q) (r : Z * Q * Q) : Prop :=
  let code := fst (fst r) in let x' := snd (fst r) in let y' := snd r in
  (code = 3%Z <-> sip_den a1 a2 b1 b2 == 0) /\
  (code = 1%Z <-> ~ sip_den a1 a2 b1 b2 == 0) /\
  (code = 1%Z \/ code = 3%Z) /\
  (code = 1%Z -> on_line a1 a2 (mkpt x' y') /\ on_line b1 b2 (mkpt x' y') /\
                 forall p, on_line a1 a2 p -> on_line b1 b2 p -> pt_eq p (mkpt x' y')) /\
  (code <> 1%Z -> x' = x /\ y' = y).

(* ---- colinear / inBetween / cornerSide / inValidRegion (C16 extension 3-4) *)
(* a, b, c lie on a common line *)
Definition collinear_pts (a b c : pt) : Prop := pt_eq a b \/ on_line a b c.

(* std::numeric_limits<double>::epsilon() *)
Definition dbl_epsilon : Q := 1 # 4503599627370496.

(* cornerSide: for a left turn c1 c2 c3 the answer is 1 exactly on the closed wedge to the left of both edge lines,
   for a right turn -1 exactly on the closed wedge to the right of both, for a straight corner the side of c1c2 *)
Definition cornerSide_meaning (c1 c2 c3 p : pt) (r : Z) : Prop :=
  (0 < cross c1 c2 c3 ->
     (0 <= cross c1 c2 p /\ 0 <= cross c2 c3 p -> r = 1%Z) /\
     (~ (0 <= cross c1 c2 p /\ 0 <= cross c2 c3 p) -> r = (-1)%Z)) /\
  (cross c1 c2 c3 < 0 ->
     (cross c1 c2 p <= 0 /\ cross c2 c3 p <= 0 -> r = (-1)%Z) /\
     (~ (cross c1 c2 p <= 0 /\ cross c2 c3 p <= 0) -> r = 1%Z)) /\
  (cross c1 c2 c3 == 0 -> r = sgnQ (cross c1 c2 p)).

(* b is strictly inside the cone spanned at a1 by the (left sides of the) edge lines a0a1 and a1a2 *)
Definition strictly_in_cone (a0 a1 a2 b : pt) : Prop := 0 < cross a0 a1 b /\ 0 < cross a1 a2 b.

(* the case tables in the comments of inValidRegion; r, s = side of b w.r.t. the edges a0a1, a1a2
   ("out" = strictly right, "on" = on the line) *)
Definition inValidRegion_meaning (ignoreRegions : bool) (a0 a1 a2 b : pt) (res : bool) : Prop :=
  let r := cross a0 a1 b in let s := cross a1 a2 b in
  (0 < cross a0 a1 a2 -> ignoreRegions = false -> (res = true <-> r <= 0 \/ s <= 0)) /\
  (0 < cross a0 a1 a2 -> ignoreRegions = true -> (res = true <-> (r <= 0 /\ 0 <= s) \/ (0 <= r /\ s <= 0))) /\
  (cross a0 a1 a2 <= 0 -> ignoreRegions = false -> (res = true <-> r <= 0 /\ s <= 0)) /\
  (cross a0 a1 a2 <= 0 -> ignoreRegions = true -> res = false).

(* ---- segmentShapeIntersect (C16 extension 5) *)
(* e lies on the half-open shape edge (s1, s2]: at its end point s2 or strictly inside the edge *)
Definition on_edge_halfopen (s1 s2 e : pt) : Prop := pt_eq s2 e \/ strictly_between s1 s2 e.
(* the segment e1e2 touches the edge s1s2 with one of its end points while its other end point is off the edge line *)
Definition touches_edge (e1 e2 s1 s2 : pt) : Prop :=
  (on_edge_halfopen s1 s2 e1 /\ ~ cross s1 s2 e2 == 0) \/ (on_edge_halfopen s1 s2 e2 /\ ~ cross s1 s2 e1 == 0).
(* result (blocked, new flag) of one call with flag value `seen`: a proper crossing blocks; a touch is allowed
   once (it sets the flag) and blocks when the flag is already set; anything else leaves the flag alone *)
Definition segmentShapeIntersect_meaning (e1 e2 s1 s2 : pt) (seen : bool) (r : bool * bool) : Prop :=
  (properly_cross e1 e2 s1 s2 -> r = (true, seen)) /\
  (~ properly_cross e1 e2 s1 s2 -> touches_edge e1 e2 s1 s2 -> r = (seen, true)) /\
  (~ properly_cross e1 e2 s1 s2 -> ~ touches_edge e1 e2 s1 s2 -> r = (false, seen)).

(* ---- manhattanDist / projection (C16 extension 7) *)
(* p is the foot of the perpendicular from b onto the line through a and c *)
Definition is_foot (a c b p : pt) : Prop :=
  on_line a c p /\ (px b - px p) * (px c - px a) + (py b - py p) * (py c - py a) == 0.

(* ---- inPolyGen (C16 extension 6) *)
(* q lies in the closed triangle ABC (either orientation of the vertex order; ABC not collinear) *)
Definition in_closed_triangle (A B C q : pt) : Prop :=
  (0 < cross A B C /\ 0 <= cross A B q /\ 0 <= cross B C q /\ 0 <= cross C A q) \/
  (cross A B C < 0 /\ cross A B q <= 0 /\ cross B C q <= 0 /\ cross C A q <= 0).
(* q lies in the closed axis-parallel rectangle [x0,x1] x [y0,y1] *)
Definition in_closed_rect (x0 x1 y0 y1 : Q) (q : pt) : Prop :=
  x0 <= px q /\ px q <= x1 /\ y0 <= py q /\ py q <= y1.
