(* Declarative geometry over Q: the meanings the libavoid predicates are proved against (C16). *)
From Adapt Require Import Num.Qaux.
Local Open Scope Q_scope.

Definition cross (a b c : pt) : Q :=
  (px b - px a) * (py c - py a) - (px c - px a) * (py b - py a).

(* sign as an integer, the contract of vecDir *)
Definition sgnQ (q : Q) : Z := if Qltb q 0 then (-1)%Z else if Qltb 0 q then 1%Z else 0%Z.

(* the point a + t (b - a) *)
Definition lerp (a b : pt) (t : Q) : pt :=
  mkpt (px a + t * (px b - px a)) (py a + t * (py b - py a)).

(* open segments ab and cd cross at a single interior point of both, and are not parallel *)
Definition properly_cross (a b c d : pt) : Prop :=
  exists s t, 0 < s /\ s < 1 /\ 0 < t /\ t < 1 /\ pt_eq (lerp a b s) (lerp c d t) /\
              ~ (px b - px a) * (py d - py c) - (py b - py a) * (px d - px c) == 0.

(* c lies strictly inside segment ab *)
Definition strictly_between (a b c : pt) : Prop :=
  ~ pt_eq a b /\ exists t, 0 < t /\ t < 1 /\ pt_eq c (lerp a b t).

(* c lies on the closed segment ab *)
Definition on_closed_segment (a b c : pt) : Prop :=
  exists t, 0 <= t /\ t <= 1 /\ pt_eq c (lerp a b t).

(* consecutive (prev, cur) vertex pairs of a closed polygon, in the order inPoly visits them *)
Definition poly_edges (P : list pt) : list (pt * pt) :=
  match P with
  | [] => []
  | p0 :: _ => combine (last P p0 :: removelast P) P
  end.

(* convex-position membership: q is on the inner (counter-clockwise, cross >= 0) side of every edge *)
Definition inside_all_edges (P : list pt) (q : pt) : Prop :=
  forall e, In e (poly_edges P) -> 0 <= cross (fst e) (snd e) q.
Definition strictly_inside_all_edges (P : list pt) (q : pt) : Prop :=
  forall e, In e (poly_edges P) -> 0 < cross (fst e) (snd e) q.
