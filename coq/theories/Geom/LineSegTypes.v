(* Coq counterparts of the two classes of cola/libvpsc/linesegment.h used by Gen/LineSeg.v (generated) and by the
   spec files: linesegment::Vector {x_, y_} is a point, linesegment::LineSegment {begin_, end_} a pair of points. *)
From Adapt Require Import Num.Qaux.
Local Open Scope Q_scope.

Definition lvec : Type := pt.
Definition lvx (v : lvec) : Q := px v.
Definition lvy (v : lvec) : Q := py v.
Definition set_lvx (v : lvec) (x : Q) : lvec := mkpt x (py v).
Definition set_lvy (v : lvec) (y : Q) : lvec := mkpt (px v) y.
Definition lvec0 : lvec := pt0.

Record lseg := mklseg { lbegin : lvec; lend : lvec }.
Definition set_lbegin (s : lseg) (p : lvec) : lseg := mklseg p (lend s).
Definition set_lend (s : lseg) (p : lvec) : lseg := mklseg (lbegin s) p.
Definition lseg0 : lseg := mklseg pt0 pt0.
